/-
  C06 -- channel_convert is the order-preserving linear range map with exact end points.

  Theorems are stated over the GENERATED converter bodies (Gen/C06.lean is re-translated from
  channel_algorithm.hpp on every run of the check) and over the dispatch in Model/C06.lean.
  Layout:
    A  laws of the three closed forms, for ALL maxima (not only 2^n-1): end points, monotone, range, error, round trip
    B  every generated kernel equals its closed form (so the laws of A hold for the code's arithmetic, wrap included)
    C  signed <-> unsigned offsets are order isomorphisms mapping min to 0 and max to max
    D  the model's case split: identity, and the Spec for every pair of in-scope unsigned integral models on the
       integer paths
  The `double` path (non-divisible down-conversion) and the float32 paths are executable in the model with
  Lean's hardware floats but opaque to the kernel: theorems about them are about the exact-arithmetic reading
  and carry `_partial` in their name (partial (float)); the float paths are decided by the Spec on the real code's output.
-/
import GilVerif.Model.C06
import Mathlib.Tactic.Linarith
import Mathlib.Tactic.Ring
import Mathlib.Tactic.IntervalCases

namespace GilVerif.Props.C06
open GilVerif.Gen.C06 GilVerif.Model.C06

/-! ## A. closed forms: laws for all maxima -/

private theorem div_facts {sm dm : Int} (h1 : 1 ≤ sm) (hle : sm ≤ dm) (hd : dm % sm = 0) :
    sm * (dm / sm) = dm ∧ 1 ≤ dm / sm := by
  have h := Int.mul_ediv_add_emod dm sm
  rw [hd] at h
  refine ⟨by omega, ?_⟩
  exact Int.le_ediv_of_mul_le (by omega) (by omega)

/-- up-conversion, divisible maxima: `s * (dm/sm)` maps 0 to 0 and max to max, is strictly monotone,
    stays in range and is the exact linear rescaling (error 0) -/
theorem C06_up_div_laws (sm dm : Int) (h1 : 1 ≤ sm) (hle : sm ≤ dm) (hd : dm % sm = 0) :
    (0 : Int) * (dm / sm) = 0 ∧ sm * (dm / sm) = dm
    ∧ (∀ s t : Int, s < t → s * (dm / sm) < t * (dm / sm))
    ∧ (∀ s : Int, 0 ≤ s → s ≤ sm → 0 ≤ s * (dm / sm) ∧ s * (dm / sm) ≤ dm)
    ∧ (∀ s : Int, s * (dm / sm) * sm = s * dm) := by
  obtain ⟨hq, hq1⟩ := div_facts h1 hle hd
  refine ⟨by simp, hq, ?_, ?_, ?_⟩
  · intro s t hst; nlinarith
  · intro s hs hs'; constructor <;> nlinarith
  · intro s
    calc s * (dm / sm) * sm = s * (sm * (dm / sm)) := by ring
      _ = s * dm := by rw [hq]

/-- down-conversion, divisible maxima (`d = sm/dm`): `(s + d/2) / d` maps 0 to 0 and max to max, is monotone,
    stays in range, and is within half a destination unit of the exact rescaling `s*dm/sm` -/
theorem C06_down_div_laws (sm dm : Int) (h1 : 1 ≤ dm) (hle : dm ≤ sm) (hd : sm % dm = 0) :
    (0 + sm / dm / 2) / (sm / dm) = 0 ∧ (sm + sm / dm / 2) / (sm / dm) = dm
    ∧ (∀ s t : Int, s ≤ t → (s + sm / dm / 2) / (sm / dm) ≤ (t + sm / dm / 2) / (sm / dm))
    ∧ (∀ s : Int, 0 ≤ s → s ≤ sm → 0 ≤ (s + sm / dm / 2) / (sm / dm) ∧ (s + sm / dm / 2) / (sm / dm) ≤ dm)
    ∧ (∀ s : Int, 2 * ((s + sm / dm / 2) / (sm / dm) * sm - s * dm).natAbs ≤ sm) := by
  obtain ⟨hq, hq1⟩ := div_facts h1 hle hd
  generalize hdef : sm / dm = d at *
  have hdpos : 0 < d := by omega
  have hmax : (sm + d / 2) / d = dm := by
    have : sm + d / 2 = d / 2 + d * dm := by rw [← hq]; ring
    rw [this, Int.add_mul_ediv_left _ _ (by omega)]
    have : d / 2 / d = 0 := Int.ediv_eq_zero_of_lt (by omega) (by omega)
    omega
  have hmono : ∀ s t : Int, s ≤ t → (s + d / 2) / d ≤ (t + d / 2) / d := by
    intro s t hst; exact Int.ediv_le_ediv hdpos (by omega)
  refine ⟨?_, hmax, hmono, ?_, ?_⟩
  · exact Int.ediv_eq_zero_of_lt (by omega) (by omega)
  · intro s hs hs'
    refine ⟨Int.ediv_nonneg (by omega) (by omega), ?_⟩
    exact Int.le_trans (hmono _ _ hs') (Int.le_of_eq hmax)
  · intro s
    have hm := Int.mul_ediv_add_emod (s + d / 2) d
    have hr0 := Int.emod_nonneg (s + d / 2) (show d ≠ 0 by omega)
    have hr1 := Int.emod_lt_of_pos (s + d / 2) hdpos
    generalize (s + d / 2) / d = r at *
    generalize (s + d / 2) % d = m at *
    -- r*sm - s*dm = dm * (d*r - s) = dm * (d/2 - m)
    have e : r * sm - s * dm = dm * (d / 2 - m) := by
      rw [← hq]; have : d * r = s + d / 2 - m := by omega
      calc r * (dm * d) - s * dm = dm * (d * r - s) := by ring
        _ = dm * (d / 2 - m) := by rw [this]; ring
    rw [e, Int.natAbs_mul]
    have hb : 2 * (d / 2 - m).natAbs ≤ d.natAbs := by omega
    have hdm : (dm.natAbs : Int) = dm := Int.natAbs_of_nonneg (by omega)
    have hsm : sm = dm * d := hq.symm
    have : (sm.natAbs) = dm.natAbs * d.natAbs := by rw [hsm, Int.natAbs_mul]
    have h2 : 2 * (dm.natAbs * (d / 2 - m).natAbs) ≤ dm.natAbs * d.natAbs := by
      calc 2 * (dm.natAbs * (d / 2 - m).natAbs) = dm.natAbs * (2 * (d / 2 - m).natAbs) := by ring
        _ ≤ dm.natAbs * d.natAbs := Nat.mul_le_mul_left _ hb
    have hsmn : (sm.natAbs : Int) = sm := Int.natAbs_of_nonneg (by omega)
    omega

/-- up-conversion, non-divisible maxima, product formed without truncation: `⌊s*dm/sm⌋` maps 0 to 0 and max to
    max, is monotone, stays in range, and is below the exact rescaling by less than one destination unit -/
theorem C06_up_nondiv_laws (sm dm : Int) (h1 : 1 ≤ sm) (hdm : 0 ≤ dm) :
    (0 : Int) * dm / sm = 0 ∧ sm * dm / sm = dm
    ∧ (∀ s t : Int, s ≤ t → s * dm / sm ≤ t * dm / sm)
    ∧ (∀ s : Int, 0 ≤ s → s ≤ sm → 0 ≤ s * dm / sm ∧ s * dm / sm ≤ dm)
    ∧ (∀ s : Int, 0 ≤ s * dm - s * dm / sm * sm ∧ s * dm - s * dm / sm * sm < sm) := by
  have hpos : 0 < sm := by omega
  have hmax : sm * dm / sm = dm := by rw [Int.mul_comm]; exact Int.mul_ediv_cancel _ (by omega)
  have hmono : ∀ s t : Int, s ≤ t → s * dm / sm ≤ t * dm / sm := by
    intro s t hst; exact Int.ediv_le_ediv hpos (Int.mul_le_mul_of_nonneg_right hst hdm)
  refine ⟨by simp, hmax, hmono, ?_, ?_⟩
  · intro s hs hs'
    refine ⟨Int.ediv_nonneg (Int.mul_nonneg hs hdm) (by omega), ?_⟩
    exact Int.le_trans (hmono _ _ hs') (Int.le_of_eq hmax)
  · intro s
    have hm := Int.mul_ediv_add_emod (s * dm) sm
    have hr0 := Int.emod_nonneg (s * dm) (show sm ≠ 0 by omega)
    have hr1 := Int.emod_lt_of_pos (s * dm) hpos
    have : s * dm / sm * sm = sm * (s * dm / sm) := Int.mul_comm _ _
    omega

/-- the `double` path of the non-divisible down-conversion, read in exact arithmetic
    (`div = sm/dm`, `div2 = ⌊div/2⌋ = ⌊sm/(2 dm)⌋`, result `⌊(s + div2)/div⌋ = ⌊(s + div2)*dm/sm⌋`):
    end points, monotone, range, error < 1 destination unit.  partial (float): the code evaluates this expression
    in IEEE binary64; that the rounding never changes the integer result is established by the correspondence run
    (complete for every source of at most 16 bits), not by this theorem. -/
theorem C06_down_nondiv_exact_laws_partial (sm dm : Int) (h1 : 1 ≤ dm) (hle : dm ≤ sm) :
    downNondivExact 0 sm dm = 0 ∧ downNondivExact sm sm dm = dm
    ∧ (∀ s t : Int, s ≤ t → downNondivExact s sm dm ≤ downNondivExact t sm dm)
    ∧ (∀ s : Int, 0 ≤ s → s ≤ sm → 0 ≤ downNondivExact s sm dm ∧ downNondivExact s sm dm ≤ dm)
    ∧ (∀ s : Int, (downNondivExact s sm dm * sm - s * dm).natAbs < sm) := by
  unfold downNondivExact
  have hpos : 0 < sm := by omega
  have hk0 : 0 ≤ sm / (2 * dm) := Int.ediv_nonneg (by omega) (by omega)
  have hk : sm / (2 * dm) * dm * 2 ≤ sm := by
    have := Int.ediv_mul_le sm (show 2 * dm ≠ 0 by omega)
    calc sm / (2 * dm) * dm * 2 = sm / (2 * dm) * (2 * dm) := by ring
      _ ≤ sm := this
  generalize sm / (2 * dm) = k at *
  have hkd0 : 0 ≤ k * dm := Int.mul_nonneg hk0 (by omega)
  have hmono : ∀ s t : Int, s ≤ t → (s + k) * dm / sm ≤ (t + k) * dm / sm := by
    intro s t hst; exact Int.ediv_le_ediv hpos (Int.mul_le_mul_of_nonneg_right (by omega) (by omega))
  have hmax : (sm + k) * dm / sm = dm := by
    have : (sm + k) * dm = k * dm + sm * dm := by ring
    rw [this, Int.add_mul_ediv_left _ _ (by omega), Int.ediv_eq_zero_of_lt hkd0 (by omega)]; omega
  refine ⟨?_, hmax, hmono, ?_, ?_⟩
  · rw [Int.zero_add]; exact Int.ediv_eq_zero_of_lt hkd0 (by omega)
  · intro s hs hs'
    exact ⟨Int.ediv_nonneg (Int.mul_nonneg (by omega) (by omega)) (by omega), Int.le_trans (hmono _ _ hs') (Int.le_of_eq hmax)⟩
  · intro s
    have hm := Int.mul_ediv_add_emod ((s + k) * dm) sm
    have hr0 := Int.emod_nonneg ((s + k) * dm) (show sm ≠ 0 by omega)
    have hr1 := Int.emod_lt_of_pos ((s + k) * dm) hpos
    have e : (s + k) * dm = s * dm + k * dm := by ring
    have c : (s + k) * dm / sm * sm = sm * ((s + k) * dm / sm) := Int.mul_comm _ _
    omega

/-- round trip through a divisible pair: up by `q = dm/sm`, down by `(x + q/2)/q`, returns the source value -/
theorem C06_roundtrip_div (s sm dm : Int) (h1 : 1 ≤ sm) (hle : sm ≤ dm) (hd : dm % sm = 0) :
    (s * (dm / sm) + dm / sm / 2) / (dm / sm) = s := by
  obtain ⟨_, hq1⟩ := div_facts h1 hle hd
  generalize dm / sm = q at *
  rw [Int.add_comm, Int.add_mul_ediv_right _ _ (by omega), Int.ediv_eq_zero_of_lt (by omega) (by omega)]; omega

/-- round trip through a non-divisible pair with `2*sm ≤ dm` (true for all maxima of the form 2^n-1, see
    `C06_pow2_maxima_gap`): up `⌊s*dm/sm⌋`, down by the exact reading of the double path, returns the source
    value.  partial (float): see `C06_down_nondiv_exact_laws_partial`. -/
theorem C06_roundtrip_nondiv_partial (s sm dm : Int) (hs : 0 ≤ s) (hs' : s ≤ sm) (h1 : 1 ≤ sm) (hgap : 2 * sm ≤ dm) :
    downNondivExact (s * dm / sm) dm sm = s := by
  unfold downNondivExact
  have hpos : 0 < sm := by omega
  have hdpos : 0 < dm := by omega
  have hk1 : 1 ≤ dm / (2 * sm) := Int.le_ediv_of_mul_le (by omega) (by omega)
  have hk : dm / (2 * sm) * sm * 2 ≤ dm := by
    have := Int.ediv_mul_le dm (show 2 * sm ≠ 0 by omega)
    calc dm / (2 * sm) * sm * 2 = dm / (2 * sm) * (2 * sm) := by ring
      _ ≤ dm := this
  generalize dm / (2 * sm) = k at *
  have hm := Int.mul_ediv_add_emod (s * dm) sm
  have hr0 := Int.emod_nonneg (s * dm) (show sm ≠ 0 by omega)
  have hr1 := Int.emod_lt_of_pos (s * dm) hpos
  generalize s * dm / sm = t at *
  generalize s * dm % sm = r at *
  -- (t + k) * sm = s*dm + (k*sm - r) with 0 ≤ k*sm - r < dm
  have hks : sm ≤ k * sm := by nlinarith
  have e : (t + k) * sm = (k * sm - r) + dm * s := by
    have : sm * t = s * dm - r := by omega
    calc (t + k) * sm = sm * t + k * sm := by ring
      _ = (k * sm - r) + dm * s := by rw [this]; ring
  rw [e, Int.add_mul_ediv_left _ _ (by omega), Int.ediv_eq_zero_of_lt (by omega) (by omega)]; omega

/-- maxima of the form 2^n-1 of different widths are more than a factor 2 apart -/
theorem C06_pow2_maxima_gap (a b : Nat) (h : a < b) : 2 * ((2 : Int) ^ a - 1) ≤ 2 ^ b - 1 := by
  have h0 : (2 : Nat) ^ (a + 1) ≤ 2 ^ b := Nat.pow_le_pow_right (by decide) h
  have h1 : (2 : Int) ^ (a + 1) ≤ 2 ^ b := by exact_mod_cast h0
  have h2 : (2 : Int) ^ (a + 1) = 2 * 2 ^ a := by rw [Int.pow_succ]; ring
  omega

example : downNondivExact 200 255 31 = 24 ∧ downNondivExact (downNondivExact 200 255 31 * 0 + 17 * 255 / 31) 255 31 = 17 := by decide

/-! ## B. every generated kernel equals its closed form (for every pair of maxima its class pair admits) -/

private theorem up_div_facts {s sm dm : Int} (hs : 0 ≤ s) (hs' : s ≤ sm) (h1 : 1 ≤ sm) (hle : sm ≤ dm) (hd : dm % sm = 0) :
    0 ≤ dm / sm ∧ dm / sm ≤ dm ∧ 0 ≤ s * (dm / sm) ∧ s * (dm / sm) ≤ dm ∧ 0 ≤ dm / sm * s ∧ dm / sm * s ≤ dm := by
  obtain ⟨hq, hq1⟩ := div_facts h1 hle hd
  have h2 : dm / sm ≤ dm := by nlinarith
  have h3 : 0 ≤ s * (dm / sm) := by nlinarith
  have h4 : s * (dm / sm) ≤ dm := by nlinarith
  rw [Int.mul_comm (dm / sm) s]
  exact ⟨by omega, h2, h3, h4, h3, h4⟩

private theorem down_div_facts {s sm dm : Int} (hs : 0 ≤ s) (hs' : s ≤ sm) (h1 : 1 ≤ dm) (hle : dm ≤ sm) (hd : sm % dm = 0) :
    1 ≤ sm / dm ∧ sm / dm ≤ sm ∧ 0 ≤ (s + sm / dm / 2) / (sm / dm) ∧ (s + sm / dm / 2) / (sm / dm) ≤ dm
    ∧ 0 ≤ (sm / dm / 2 + s) / (sm / dm) ∧ (sm / dm / 2 + s) / (sm / dm) ≤ dm := by
  obtain ⟨hq, hq1⟩ := div_facts h1 hle hd
  have h2 : sm / dm ≤ sm := by nlinarith
  have hl := (C06_down_div_laws sm dm h1 hle hd).2.2.2.1 s hs hs'
  rw [Int.add_comm (sm / dm / 2) s]
  exact ⟨hq1, h2, hl.1, hl.2, hl.1, hl.2⟩

private theorem up_nondiv_facts {s sm dm S D : Int} (hs : 0 ≤ s) (hs' : s ≤ sm) (h1 : 1 ≤ sm) (hdm : 0 ≤ dm) (hS : sm ≤ S) (hD : dm ≤ D) :
    0 ≤ s * dm ∧ s * dm ≤ S * D ∧ 0 ≤ dm * s ∧ dm * s ≤ S * D ∧ 0 ≤ s * dm / sm ∧ s * dm / sm ≤ dm := by
  have h3 : 0 ≤ s * dm := Int.mul_nonneg hs hdm
  have h4 : s * dm ≤ S * D := Int.mul_le_mul (by omega) hD hdm (by omega)
  have hl := (C06_up_nondiv_laws sm dm h1 hdm).2.2.2.1 s hs hs'
  rw [Int.mul_comm dm s]
  exact ⟨h3, h4, h3, h4, hl.1, hl.2⟩

/-- unfold-independent normalisation of a generated body: remove the wraps that cannot fire and the truncating
    divisions on non-negative operands -/
local macro "kernel_simp" : tactic =>
  `(tactic| simp (disch := omega) only [Int.emod_eq_of_lt, Int.tdiv_eq_ediv_of_nonneg])

theorem C06_up_div_closed_B16_B32 (s sm dm : Int) (hs : 0 ≤ s) (hs' : s ≤ sm) (h1 : 1 ≤ sm) (hle : sm ≤ dm)
    (hd : dm % sm = 0) (hS : sm ≤ 65535) (hD : dm ≤ 4294967295) : up_div_B16_B32 s sm dm = s * (dm / sm) := by
  obtain ⟨f1, f2, f3, f4, f5, f6⟩ := up_div_facts hs hs' h1 hle hd
  unfold up_div_B16_B32; kernel_simp
  try first | rfl | exact Int.mul_comm _ _
example : up_div_B16_B32 32768 65535 4294967295 = 2147516416 :=   -- u16 -> u32
  C06_up_div_closed_B16_B32 32768 65535 4294967295 (by decide) (by decide) (by decide) (by decide) (by decide) (by decide) (by decide)

theorem C06_up_div_closed_B8_B16 (s sm dm : Int) (hs : 0 ≤ s) (hs' : s ≤ sm) (h1 : 1 ≤ sm) (hle : sm ≤ dm)
    (hd : dm % sm = 0) (hS : sm ≤ 255) (hD : dm ≤ 65535) : up_div_B8_B16 s sm dm = s * (dm / sm) := by
  obtain ⟨f1, f2, f3, f4, f5, f6⟩ := up_div_facts hs hs' h1 hle hd
  unfold up_div_B8_B16; kernel_simp
  try first | rfl | exact Int.mul_comm _ _
example : up_div_B8_B16 128 255 65535 = 32896 :=   -- u8 -> u16
  C06_up_div_closed_B8_B16 128 255 65535 (by decide) (by decide) (by decide) (by decide) (by decide) (by decide) (by decide)

theorem C06_up_div_closed_B8_B32 (s sm dm : Int) (hs : 0 ≤ s) (hs' : s ≤ sm) (h1 : 1 ≤ sm) (hle : sm ≤ dm)
    (hd : dm % sm = 0) (hS : sm ≤ 255) (hD : dm ≤ 4294967295) : up_div_B8_B32 s sm dm = s * (dm / sm) := by
  obtain ⟨f1, f2, f3, f4, f5, f6⟩ := up_div_facts hs hs' h1 hle hd
  unfold up_div_B8_B32; kernel_simp
  try first | rfl | exact Int.mul_comm _ _
example : up_div_B8_B32 128 255 4294967295 = 2155905152 :=   -- u8 -> u32
  C06_up_div_closed_B8_B32 128 255 4294967295 (by decide) (by decide) (by decide) (by decide) (by decide) (by decide) (by decide)

theorem C06_up_div_closed_B8_P16 (s sm dm : Int) (hs : 0 ≤ s) (hs' : s ≤ sm) (h1 : 1 ≤ sm) (hle : sm ≤ dm)
    (hd : dm % sm = 0) (hS : sm ≤ 255) (hD : dm ≤ 65535) : up_div_B8_P16 s sm dm = s * (dm / sm) := by
  obtain ⟨f1, f2, f3, f4, f5, f6⟩ := up_div_facts hs hs' h1 hle hd
  unfold up_div_B8_P16; kernel_simp
  try first | rfl | exact Int.mul_comm _ _
example : up_div_B8_P16 128 255 65535 = 32896 :=   -- u8 -> p16
  C06_up_div_closed_B8_P16 128 255 65535 (by decide) (by decide) (by decide) (by decide) (by decide) (by decide) (by decide)

theorem C06_up_div_closed_P16_B32 (s sm dm : Int) (hs : 0 ≤ s) (hs' : s ≤ sm) (h1 : 1 ≤ sm) (hle : sm ≤ dm)
    (hd : dm % sm = 0) (hS : sm ≤ 65535) (hD : dm ≤ 4294967295) : up_div_P16_B32 s sm dm = s * (dm / sm) := by
  obtain ⟨f1, f2, f3, f4, f5, f6⟩ := up_div_facts hs hs' h1 hle hd
  unfold up_div_P16_B32; kernel_simp
  try first | rfl | exact Int.mul_comm _ _
example : up_div_P16_B32 32768 65535 4294967295 = 2147516416 :=   -- p16 -> u32
  C06_up_div_closed_P16_B32 32768 65535 4294967295 (by decide) (by decide) (by decide) (by decide) (by decide) (by decide) (by decide)

theorem C06_up_div_closed_P8_B16 (s sm dm : Int) (hs : 0 ≤ s) (hs' : s ≤ sm) (h1 : 1 ≤ sm) (hle : sm ≤ dm)
    (hd : dm % sm = 0) (hS : sm ≤ 255) (hD : dm ≤ 65535) : up_div_P8_B16 s sm dm = s * (dm / sm) := by
  obtain ⟨f1, f2, f3, f4, f5, f6⟩ := up_div_facts hs hs' h1 hle hd
  unfold up_div_P8_B16; kernel_simp
  try first | rfl | exact Int.mul_comm _ _
example : up_div_P8_B16 2 3 65535 = 43690 :=   -- p2 -> u16
  C06_up_div_closed_P8_B16 2 3 65535 (by decide) (by decide) (by decide) (by decide) (by decide) (by decide) (by decide)

theorem C06_up_div_closed_P8_B32 (s sm dm : Int) (hs : 0 ≤ s) (hs' : s ≤ sm) (h1 : 1 ≤ sm) (hle : sm ≤ dm)
    (hd : dm % sm = 0) (hS : sm ≤ 255) (hD : dm ≤ 4294967295) : up_div_P8_B32 s sm dm = s * (dm / sm) := by
  obtain ⟨f1, f2, f3, f4, f5, f6⟩ := up_div_facts hs hs' h1 hle hd
  unfold up_div_P8_B32; kernel_simp
  try first | rfl | exact Int.mul_comm _ _
example : up_div_P8_B32 2 3 4294967295 = 2863311530 :=   -- p2 -> u32
  C06_up_div_closed_P8_B32 2 3 4294967295 (by decide) (by decide) (by decide) (by decide) (by decide) (by decide) (by decide)

theorem C06_up_div_closed_P8_B8 (s sm dm : Int) (hs : 0 ≤ s) (hs' : s ≤ sm) (h1 : 1 ≤ sm) (hle : sm ≤ dm)
    (hd : dm % sm = 0) (hS : sm ≤ 255) (hD : dm ≤ 255) : up_div_P8_B8 s sm dm = s * (dm / sm) := by
  obtain ⟨f1, f2, f3, f4, f5, f6⟩ := up_div_facts hs hs' h1 hle hd
  unfold up_div_P8_B8; kernel_simp
  try first | rfl | exact Int.mul_comm _ _
example : up_div_P8_B8 2 3 255 = 170 :=   -- p2 -> u8
  C06_up_div_closed_P8_B8 2 3 255 (by decide) (by decide) (by decide) (by decide) (by decide) (by decide) (by decide)

theorem C06_up_div_closed_P8_P16 (s sm dm : Int) (hs : 0 ≤ s) (hs' : s ≤ sm) (h1 : 1 ≤ sm) (hle : sm ≤ dm)
    (hd : dm % sm = 0) (hS : sm ≤ 255) (hD : dm ≤ 65535) : up_div_P8_P16 s sm dm = s * (dm / sm) := by
  obtain ⟨f1, f2, f3, f4, f5, f6⟩ := up_div_facts hs hs' h1 hle hd
  unfold up_div_P8_P16; kernel_simp
  try first | rfl | exact Int.mul_comm _ _
example : up_div_P8_P16 2 3 1023 = 682 :=   -- p2 -> p10
  C06_up_div_closed_P8_P16 2 3 1023 (by decide) (by decide) (by decide) (by decide) (by decide) (by decide) (by decide)

theorem C06_up_div_closed_P8_P8 (s sm dm : Int) (hs : 0 ≤ s) (hs' : s ≤ sm) (h1 : 1 ≤ sm) (hle : sm ≤ dm)
    (hd : dm % sm = 0) (hS : sm ≤ 255) (hD : dm ≤ 255) : up_div_P8_P8 s sm dm = s * (dm / sm) := by
  obtain ⟨f1, f2, f3, f4, f5, f6⟩ := up_div_facts hs hs' h1 hle hd
  unfold up_div_P8_P8; kernel_simp
  try first | rfl | exact Int.mul_comm _ _
example : up_div_P8_P8 2 3 15 = 10 :=   -- p2 -> p4
  C06_up_div_closed_P8_P8 2 3 15 (by decide) (by decide) (by decide) (by decide) (by decide) (by decide) (by decide)

theorem C06_down_div_closed_B16_B8 (s sm dm : Int) (hs : 0 ≤ s) (hs' : s ≤ sm) (h1 : 1 ≤ dm) (hle : dm ≤ sm)
    (hd : sm % dm = 0) (hS : sm ≤ 65535) (hD : dm ≤ 255) : down_div_B16_B8 s sm dm = (s + sm / dm / 2) / (sm / dm) := by
  obtain ⟨f1, f2, f3, f4, f5, f6⟩ := down_div_facts hs hs' h1 hle hd
  unfold down_div_B16_B8; kernel_simp
  try first | rfl | (rw [Int.add_comm])
example : down_div_B16_B8 32768 65535 255 = 128 :=   -- u16 -> u8
  C06_down_div_closed_B16_B8 32768 65535 255 (by decide) (by decide) (by decide) (by decide) (by decide) (by decide) (by decide)

theorem C06_down_div_closed_B16_P16 (s sm dm : Int) (hs : 0 ≤ s) (hs' : s ≤ sm) (h1 : 1 ≤ dm) (hle : dm ≤ sm)
    (hd : sm % dm = 0) (hS : sm ≤ 65535) (hD : dm ≤ 65535) : down_div_B16_P16 s sm dm = (s + sm / dm / 2) / (sm / dm) := by
  obtain ⟨f1, f2, f3, f4, f5, f6⟩ := down_div_facts hs hs' h1 hle hd
  unfold down_div_B16_P16; kernel_simp
  try first | rfl | (rw [Int.add_comm])
example : down_div_B16_P16 32768 65535 65535 = 32768 :=   -- u16 -> p16
  C06_down_div_closed_B16_P16 32768 65535 65535 (by decide) (by decide) (by decide) (by decide) (by decide) (by decide) (by decide)

theorem C06_down_div_closed_B16_P8 (s sm dm : Int) (hs : 0 ≤ s) (hs' : s ≤ sm) (h1 : 1 ≤ dm) (hle : dm ≤ sm)
    (hd : sm % dm = 0) (hS : sm ≤ 65535) (hD : dm ≤ 255) : down_div_B16_P8 s sm dm = (s + sm / dm / 2) / (sm / dm) := by
  obtain ⟨f1, f2, f3, f4, f5, f6⟩ := down_div_facts hs hs' h1 hle hd
  unfold down_div_B16_P8; kernel_simp
  try first | rfl | (rw [Int.add_comm])
example : down_div_B16_P8 32768 65535 1 = 1 :=   -- u16 -> p1
  C06_down_div_closed_B16_P8 32768 65535 1 (by decide) (by decide) (by decide) (by decide) (by decide) (by decide) (by decide)

theorem C06_down_div_closed_B32_B16 (s sm dm : Int) (hs : 0 ≤ s) (hs' : s ≤ sm) (h1 : 1 ≤ dm) (hle : dm ≤ sm)
    (hd : sm % dm = 0) (hS : sm ≤ 4294967295) (hD : dm ≤ 65535) : down_div_B32_B16 s sm dm = (s + sm / dm / 2) / (sm / dm) := by
  obtain ⟨f1, f2, f3, f4, f5, f6⟩ := down_div_facts hs hs' h1 hle hd
  unfold down_div_B32_B16; kernel_simp
  try first | rfl | (rw [Int.add_comm])
example : down_div_B32_B16 2147483648 4294967295 65535 = 32768 :=   -- u32 -> u16
  C06_down_div_closed_B32_B16 2147483648 4294967295 65535 (by decide) (by decide) (by decide) (by decide) (by decide) (by decide) (by decide)

theorem C06_down_div_closed_B32_B8 (s sm dm : Int) (hs : 0 ≤ s) (hs' : s ≤ sm) (h1 : 1 ≤ dm) (hle : dm ≤ sm)
    (hd : sm % dm = 0) (hS : sm ≤ 4294967295) (hD : dm ≤ 255) : down_div_B32_B8 s sm dm = (s + sm / dm / 2) / (sm / dm) := by
  obtain ⟨f1, f2, f3, f4, f5, f6⟩ := down_div_facts hs hs' h1 hle hd
  unfold down_div_B32_B8; kernel_simp
  try first | rfl | (rw [Int.add_comm])
example : down_div_B32_B8 2147483648 4294967295 255 = 128 :=   -- u32 -> u8
  C06_down_div_closed_B32_B8 2147483648 4294967295 255 (by decide) (by decide) (by decide) (by decide) (by decide) (by decide) (by decide)

theorem C06_down_div_closed_B32_P16 (s sm dm : Int) (hs : 0 ≤ s) (hs' : s ≤ sm) (h1 : 1 ≤ dm) (hle : dm ≤ sm)
    (hd : sm % dm = 0) (hS : sm ≤ 4294967295) (hD : dm ≤ 65535) : down_div_B32_P16 s sm dm = (s + sm / dm / 2) / (sm / dm) := by
  obtain ⟨f1, f2, f3, f4, f5, f6⟩ := down_div_facts hs hs' h1 hle hd
  unfold down_div_B32_P16; kernel_simp
  try first | rfl | (rw [Int.add_comm])
example : down_div_B32_P16 2147483648 4294967295 65535 = 32768 :=   -- u32 -> p16
  C06_down_div_closed_B32_P16 2147483648 4294967295 65535 (by decide) (by decide) (by decide) (by decide) (by decide) (by decide) (by decide)

theorem C06_down_div_closed_B32_P8 (s sm dm : Int) (hs : 0 ≤ s) (hs' : s ≤ sm) (h1 : 1 ≤ dm) (hle : dm ≤ sm)
    (hd : sm % dm = 0) (hS : sm ≤ 4294967295) (hD : dm ≤ 255) : down_div_B32_P8 s sm dm = (s + sm / dm / 2) / (sm / dm) := by
  obtain ⟨f1, f2, f3, f4, f5, f6⟩ := down_div_facts hs hs' h1 hle hd
  unfold down_div_B32_P8; kernel_simp
  try first | rfl | (rw [Int.add_comm])
example : down_div_B32_P8 2147483648 4294967295 1 = 1 :=   -- u32 -> p1
  C06_down_div_closed_B32_P8 2147483648 4294967295 1 (by decide) (by decide) (by decide) (by decide) (by decide) (by decide) (by decide)

theorem C06_down_div_closed_B8_P8 (s sm dm : Int) (hs : 0 ≤ s) (hs' : s ≤ sm) (h1 : 1 ≤ dm) (hle : dm ≤ sm)
    (hd : sm % dm = 0) (hS : sm ≤ 255) (hD : dm ≤ 255) : down_div_B8_P8 s sm dm = (s + sm / dm / 2) / (sm / dm) := by
  obtain ⟨f1, f2, f3, f4, f5, f6⟩ := down_div_facts hs hs' h1 hle hd
  unfold down_div_B8_P8; kernel_simp
  try first | rfl | (rw [Int.add_comm])
example : down_div_B8_P8 128 255 1 = 1 :=   -- u8 -> p1
  C06_down_div_closed_B8_P8 128 255 1 (by decide) (by decide) (by decide) (by decide) (by decide) (by decide) (by decide)

theorem C06_down_div_closed_P16_B16 (s sm dm : Int) (hs : 0 ≤ s) (hs' : s ≤ sm) (h1 : 1 ≤ dm) (hle : dm ≤ sm)
    (hd : sm % dm = 0) (hS : sm ≤ 65535) (hD : dm ≤ 65535) : down_div_P16_B16 s sm dm = (s + sm / dm / 2) / (sm / dm) := by
  obtain ⟨f1, f2, f3, f4, f5, f6⟩ := down_div_facts hs hs' h1 hle hd
  unfold down_div_P16_B16; kernel_simp
  try first | rfl | (rw [Int.add_comm])
example : down_div_P16_B16 32768 65535 65535 = 32768 :=   -- p16 -> u16
  C06_down_div_closed_P16_B16 32768 65535 65535 (by decide) (by decide) (by decide) (by decide) (by decide) (by decide) (by decide)

theorem C06_down_div_closed_P16_B8 (s sm dm : Int) (hs : 0 ≤ s) (hs' : s ≤ sm) (h1 : 1 ≤ dm) (hle : dm ≤ sm)
    (hd : sm % dm = 0) (hS : sm ≤ 65535) (hD : dm ≤ 255) : down_div_P16_B8 s sm dm = (s + sm / dm / 2) / (sm / dm) := by
  obtain ⟨f1, f2, f3, f4, f5, f6⟩ := down_div_facts hs hs' h1 hle hd
  unfold down_div_P16_B8; kernel_simp
  try first | rfl | (rw [Int.add_comm])
example : down_div_P16_B8 32768 65535 255 = 128 :=   -- p16 -> u8
  C06_down_div_closed_P16_B8 32768 65535 255 (by decide) (by decide) (by decide) (by decide) (by decide) (by decide) (by decide)

theorem C06_down_div_closed_P16_P8 (s sm dm : Int) (hs : 0 ≤ s) (hs' : s ≤ sm) (h1 : 1 ≤ dm) (hle : dm ≤ sm)
    (hd : sm % dm = 0) (hS : sm ≤ 65535) (hD : dm ≤ 255) : down_div_P16_P8 s sm dm = (s + sm / dm / 2) / (sm / dm) := by
  obtain ⟨f1, f2, f3, f4, f5, f6⟩ := down_div_facts hs hs' h1 hle hd
  unfold down_div_P16_P8; kernel_simp
  try first | rfl | (rw [Int.add_comm])
example : down_div_P16_P8 256 511 1 = 1 :=   -- p9 -> p1
  C06_down_div_closed_P16_P8 256 511 1 (by decide) (by decide) (by decide) (by decide) (by decide) (by decide) (by decide)

theorem C06_down_div_closed_P8_B8 (s sm dm : Int) (hs : 0 ≤ s) (hs' : s ≤ sm) (h1 : 1 ≤ dm) (hle : dm ≤ sm)
    (hd : sm % dm = 0) (hS : sm ≤ 255) (hD : dm ≤ 255) : down_div_P8_B8 s sm dm = (s + sm / dm / 2) / (sm / dm) := by
  obtain ⟨f1, f2, f3, f4, f5, f6⟩ := down_div_facts hs hs' h1 hle hd
  unfold down_div_P8_B8; kernel_simp
  try first | rfl | (rw [Int.add_comm])
example : down_div_P8_B8 128 255 255 = 128 :=   -- p8 -> u8
  C06_down_div_closed_P8_B8 128 255 255 (by decide) (by decide) (by decide) (by decide) (by decide) (by decide) (by decide)

theorem C06_down_div_closed_P8_P8 (s sm dm : Int) (hs : 0 ≤ s) (hs' : s ≤ sm) (h1 : 1 ≤ dm) (hle : dm ≤ sm)
    (hd : sm % dm = 0) (hS : sm ≤ 255) (hD : dm ≤ 255) : down_div_P8_P8 s sm dm = (s + sm / dm / 2) / (sm / dm) := by
  obtain ⟨f1, f2, f3, f4, f5, f6⟩ := down_div_facts hs hs' h1 hle hd
  unfold down_div_P8_P8; kernel_simp
  try first | rfl | (rw [Int.add_comm])
example : down_div_P8_P8 2 3 1 = 1 :=   -- p2 -> p1
  C06_down_div_closed_P8_P8 2 3 1 (by decide) (by decide) (by decide) (by decide) (by decide) (by decide) (by decide)

theorem C06_up_nondiv_closed_B8_P16 (s sm dm : Int) (hs : 0 ≤ s) (hs' : s ≤ sm) (h1 : 1 ≤ sm) (hdm : 0 ≤ dm)
    (hS : sm ≤ 255) (hD : dm ≤ 65535) : up_nondiv_B8_P16 s sm dm = s * dm / sm := by
  obtain ⟨f1, f2, f3, f4, f5, f6⟩ := up_nondiv_facts hs hs' h1 hdm hS hD
  unfold up_nondiv_B8_P16; kernel_simp
  try first | rfl | (rw [Int.mul_comm])
example : up_nondiv_B8_P16 128 255 511 = 256 :=   -- u8 -> p9
  C06_up_nondiv_closed_B8_P16 128 255 511 (by decide) (by decide) (by decide) (by decide) (by decide) (by decide)

theorem C06_up_nondiv_closed_P16_B16 (s sm dm : Int) (hs : 0 ≤ s) (hs' : s ≤ sm) (h1 : 1 ≤ sm) (hdm : 0 ≤ dm)
    (hS : sm ≤ 65535) (hD : dm ≤ 65535) : up_nondiv_P16_B16 s sm dm = s * dm / sm := by
  obtain ⟨f1, f2, f3, f4, f5, f6⟩ := up_nondiv_facts hs hs' h1 hdm hS hD
  unfold up_nondiv_P16_B16; kernel_simp
  try first | rfl | (rw [Int.mul_comm])
example : up_nondiv_P16_B16 256 511 65535 = 32831 :=   -- p9 -> u16
  C06_up_nondiv_closed_P16_B16 256 511 65535 (by decide) (by decide) (by decide) (by decide) (by decide) (by decide)

theorem C06_up_nondiv_closed_P16_B32 (s sm dm : Int) (hs : 0 ≤ s) (hs' : s ≤ sm) (h1 : 1 ≤ sm) (hdm : 0 ≤ dm)
    (hS : sm ≤ 65535) (hD : dm ≤ 4294967295) : up_nondiv_P16_B32 s sm dm = s * dm / sm := by
  obtain ⟨f1, f2, f3, f4, f5, f6⟩ := up_nondiv_facts hs hs' h1 hdm hS hD
  unfold up_nondiv_P16_B32; kernel_simp
  try first | rfl | (rw [Int.mul_comm])
example : up_nondiv_P16_B32 256 511 4294967295 = 2151686159 :=   -- p9 -> u32
  C06_up_nondiv_closed_P16_B32 256 511 4294967295 (by decide) (by decide) (by decide) (by decide) (by decide) (by decide)

theorem C06_up_nondiv_closed_P16_P16 (s sm dm : Int) (hs : 0 ≤ s) (hs' : s ≤ sm) (h1 : 1 ≤ sm) (hdm : 0 ≤ dm)
    (hS : sm ≤ 65535) (hD : dm ≤ 65535) : up_nondiv_P16_P16 s sm dm = s * dm / sm := by
  obtain ⟨f1, f2, f3, f4, f5, f6⟩ := up_nondiv_facts hs hs' h1 hdm hS hD
  unfold up_nondiv_P16_P16; kernel_simp
  try first | rfl | (rw [Int.mul_comm])
example : up_nondiv_P16_P16 256 511 1023 = 512 :=   -- p9 -> p10
  C06_up_nondiv_closed_P16_P16 256 511 1023 (by decide) (by decide) (by decide) (by decide) (by decide) (by decide)

theorem C06_up_nondiv_closed_P8_B16 (s sm dm : Int) (hs : 0 ≤ s) (hs' : s ≤ sm) (h1 : 1 ≤ sm) (hdm : 0 ≤ dm)
    (hS : sm ≤ 255) (hD : dm ≤ 65535) : up_nondiv_P8_B16 s sm dm = s * dm / sm := by
  obtain ⟨f1, f2, f3, f4, f5, f6⟩ := up_nondiv_facts hs hs' h1 hdm hS hD
  unfold up_nondiv_P8_B16; kernel_simp
  try first | rfl | (rw [Int.mul_comm])
example : up_nondiv_P8_B16 4 7 65535 = 37448 :=   -- p3 -> u16
  C06_up_nondiv_closed_P8_B16 4 7 65535 (by decide) (by decide) (by decide) (by decide) (by decide) (by decide)

theorem C06_up_nondiv_closed_P8_B32 (s sm dm : Int) (hs : 0 ≤ s) (hs' : s ≤ sm) (h1 : 1 ≤ sm) (hdm : 0 ≤ dm)
    (hS : sm ≤ 255) (hD : dm ≤ 4294967295) : up_nondiv_P8_B32 s sm dm = s * dm / sm := by
  obtain ⟨f1, f2, f3, f4, f5, f6⟩ := up_nondiv_facts hs hs' h1 hdm hS hD
  unfold up_nondiv_P8_B32; kernel_simp
  try first | rfl | (rw [Int.mul_comm])
example : up_nondiv_P8_B32 4 7 4294967295 = 2454267025 :=   -- p3 -> u32
  C06_up_nondiv_closed_P8_B32 4 7 4294967295 (by decide) (by decide) (by decide) (by decide) (by decide) (by decide)

theorem C06_up_nondiv_closed_P8_B8 (s sm dm : Int) (hs : 0 ≤ s) (hs' : s ≤ sm) (h1 : 1 ≤ sm) (hdm : 0 ≤ dm)
    (hS : sm ≤ 255) (hD : dm ≤ 255) : up_nondiv_P8_B8 s sm dm = s * dm / sm := by
  obtain ⟨f1, f2, f3, f4, f5, f6⟩ := up_nondiv_facts hs hs' h1 hdm hS hD
  unfold up_nondiv_P8_B8; kernel_simp
  try first | rfl | (rw [Int.mul_comm])
example : up_nondiv_P8_B8 4 7 255 = 145 :=   -- p3 -> u8
  C06_up_nondiv_closed_P8_B8 4 7 255 (by decide) (by decide) (by decide) (by decide) (by decide) (by decide)

theorem C06_up_nondiv_closed_P8_P16 (s sm dm : Int) (hs : 0 ≤ s) (hs' : s ≤ sm) (h1 : 1 ≤ sm) (hdm : 0 ≤ dm)
    (hS : sm ≤ 255) (hD : dm ≤ 65535) : up_nondiv_P8_P16 s sm dm = s * dm / sm := by
  obtain ⟨f1, f2, f3, f4, f5, f6⟩ := up_nondiv_facts hs hs' h1 hdm hS hD
  unfold up_nondiv_P8_P16; kernel_simp
  try first | rfl | (rw [Int.mul_comm])
example : up_nondiv_P8_P16 2 3 511 = 340 :=   -- p2 -> p9
  C06_up_nondiv_closed_P8_P16 2 3 511 (by decide) (by decide) (by decide) (by decide) (by decide) (by decide)

theorem C06_up_nondiv_closed_P8_P8 (s sm dm : Int) (hs : 0 ≤ s) (hs' : s ≤ sm) (h1 : 1 ≤ sm) (hdm : 0 ≤ dm)
    (hS : sm ≤ 255) (hD : dm ≤ 255) : up_nondiv_P8_P8 s sm dm = s * dm / sm := by
  obtain ⟨f1, f2, f3, f4, f5, f6⟩ := up_nondiv_facts hs hs' h1 hdm hS hD
  unfold up_nondiv_P8_P8; kernel_simp
  try first | rfl | (rw [Int.mul_comm])
example : up_nondiv_P8_P8 2 3 7 = 4 :=   -- p2 -> p3
  C06_up_nondiv_closed_P8_P8 2 3 7 (by decide) (by decide) (by decide) (by decide) (by decide) (by decide)

/-! ## C. signed channels: the offsets are order isomorphisms mapping min to 0 and max to max -/

theorem C06_signed_i8 (v : Int) (h0 : -128 ≤ v) (h1 : v ≤ 127) :
    to_unsigned_i8 v = v + 128 ∧ from_unsigned_i8 (v + 128) = v := by
  unfold to_unsigned_i8 from_unsigned_i8; omega

theorem C06_signed_i16 (v : Int) (h0 : -32768 ≤ v) (h1 : v ≤ 32767) :
    to_unsigned_i16 v = v + 32768 ∧ from_unsigned_i16 (v + 32768) = v := by
  unfold to_unsigned_i16 from_unsigned_i16; omega

theorem C06_signed_i32 (v : Int) (h0 : -2147483648 ≤ v) (h1 : v ≤ 2147483647) :
    to_unsigned_i32 v = v + 2147483648 ∧ from_unsigned_i32 (v + 2147483648) = v := by
  unfold to_unsigned_i32 from_unsigned_i32; omega

/-- `toUnsigned c` is `v ↦ v - min`, `fromUnsigned c` its inverse `u ↦ u + min`, for every integral model: hence
    strictly monotone, min ↦ 0, max ↦ max - min; every law of section A transports to signed channels -/
theorem C06_signed_offset (c : Ch) (v : Int) (hf : c.isFloat = false) (h0 : c.minV ≤ v) (h1 : v ≤ c.maxV) :
    toUnsigned c v = v - c.minV ∧ fromUnsigned c (v - c.minV) = v := by
  cases c <;> simp only [Ch.isFloat, Ch.minV, Ch.maxV, toUnsigned, fromUnsigned] at * <;>
    first
    | omega
    | (have := C06_signed_i8 v h0 h1; constructor <;> [skip; rw [show v - -128 = v + 128 by omega]] <;> omega)
    | (have := C06_signed_i16 v h0 h1; constructor <;> [skip; rw [show v - -32768 = v + 32768 by omega]] <;> omega)
    | (have := C06_signed_i32 v h0 h1; constructor <;> [skip; rw [show v - -2147483648 = v + 2147483648 by omega]] <;> omega)

example : toUnsigned .i8 (-128) = 0 ∧ toUnsigned .i16 32767 = 65535 ∧ fromUnsigned .i32 0 = -2147483648 := by decide

/-! ## D. the model's case split -/

/-- converting a channel to its own type is the identity (every integral model, every in-range value) -/
theorem C06_identity (c : Ch) (s : Int) (hf : c.isFloat = false) (h0 : c.minV ≤ s) (h1 : s ≤ c.maxV) : conv c c s = s := by
  have ⟨e1, e2⟩ := C06_signed_offset c s hf h0 h1
  have hu : c.unsignedOf.isFloat = false := by cases c <;> simp_all [Ch.unsignedOf, Ch.isFloat]
  unfold conv
  simp only [hf, convU, path, if_true]
  rw [e1]; exact e2

/-- float32 to float32 is the identity on bit patterns -/
theorem C06_identity_f32 (s : Int) : conv .f32 .f32 s = s := by simp [conv, Ch.isFloat]

example : conv (.packed 5) (.packed 5) 19 = 19 ∧ conv .i16 .i16 (-300) = -300 := by decide

/-- the list of in-scope unsigned integral models -/
private def scopeU : List Ch := [.u8, .u16, .u32] ++ (List.range 16).map (fun k => Ch.packed (k + 1))

/-- which generated kernel (if any) the model dispatches to; `true` also for the identity and the double path -/
private def kernelExists (S D : Ch) : Bool :=
  match path S D with
  | .upDiv => (upDiv S.cls D.cls 0 S.umax D.umax).isSome
  | .upNondiv => (upNondiv S.cls D.cls 0 S.umax D.umax).isSome
  | .downDiv => (downDiv S.cls D.cls 0 S.umax D.umax).isSome
  | _ => true

/-- for every ordered pair of in-scope unsigned integral models the case split selects a translated kernel
    (the `getD (-1)` fallback of `convU` is never taken): all 19 x 19 pairs, by kernel evaluation -/
theorem C06_dispatch_total : scopeU.all (fun S => scopeU.all (fun D => kernelExists S D)) = true := by
  decide +kernel

/-- the case split as a table: which pairs take which path (spot values; the full table is what
    `C06_dispatch_total` evaluates) -/
theorem C06_paths :
    path .u8 .u16 = .upDiv ∧ path .u16 .u8 = .downDiv ∧ path (.packed 5) .u8 = .upNondiv ∧ path .u8 (.packed 5) = .downNondiv
    ∧ path (.packed 8) .u8 = .downDiv ∧ path .u8 .u8 = .identity ∧ path (.packed 4) .u8 = .upDiv ∧ path .u32 (.packed 16) = .downDiv := by
  decide

/-! ## E. the composed statement: the model's conversion between any two in-scope unsigned integral channel models
       (case split + selected generated kernel + packed mask) satisfies the property's clauses on every integer path -/

private def Cls.bound : Cls → Int | .B8 => 255 | .B16 => 65535 | .B32 => 4294967295 | .P8 => 255 | .P16 => 65535

private theorem scope_facts (S : Ch) (h : S.inScopeU = true) : 1 ≤ S.umax ∧ S.umax ≤ Cls.bound S.cls ∧ S ∈ scopeU := by
  cases S with
  | packed n =>
    simp only [Ch.inScopeU, decide_eq_true_eq] at h
    obtain ⟨h1, h2⟩ := h
    interval_cases n <;> decide
  | u8 => decide
  | u16 => decide
  | u32 => decide
  | i8 => simp [Ch.inScopeU] at h
  | i16 => simp [Ch.inScopeU] at h
  | i32 => simp [Ch.inScopeU] at h
  | f32 => simp [Ch.inScopeU] at h

private theorem mask_id (D : Ch) (k : Int) (h0 : 0 ≤ k) (h1 : k ≤ D.umax) : maskTo D k = k := by
  cases D <;> simp only [maskTo]
  case packed n =>
    simp only [Ch.umax] at h1
    exact Int.emod_eq_of_lt h0 (by omega)

private theorem upDiv_eq (sc dc : Cls) (s sm dm k : Int) (h : upDiv sc dc s sm dm = some k) (hs : 0 ≤ s) (hs' : s ≤ sm)
    (h1 : 1 ≤ sm) (hle : sm ≤ dm) (hd : dm % sm = 0) (hS : sm ≤ Cls.bound sc) (hD : dm ≤ Cls.bound dc) : k = s * (dm / sm) := by
  cases sc <;> cases dc <;> simp [upDiv] at h <;> subst h <;> simp only [Cls.bound] at hS hD <;>
  first
    | exact C06_up_div_closed_B16_B32 s sm dm hs hs' h1 hle hd hS hD | exact C06_up_div_closed_B8_B16 s sm dm hs hs' h1 hle hd hS hD
    | exact C06_up_div_closed_B8_B32 s sm dm hs hs' h1 hle hd hS hD | exact C06_up_div_closed_B8_P16 s sm dm hs hs' h1 hle hd hS hD
    | exact C06_up_div_closed_P16_B32 s sm dm hs hs' h1 hle hd hS hD | exact C06_up_div_closed_P8_B16 s sm dm hs hs' h1 hle hd hS hD
    | exact C06_up_div_closed_P8_B32 s sm dm hs hs' h1 hle hd hS hD | exact C06_up_div_closed_P8_B8 s sm dm hs hs' h1 hle hd hS hD
    | exact C06_up_div_closed_P8_P16 s sm dm hs hs' h1 hle hd hS hD | exact C06_up_div_closed_P8_P8 s sm dm hs hs' h1 hle hd hS hD

private theorem downDiv_eq (sc dc : Cls) (s sm dm k : Int) (h : downDiv sc dc s sm dm = some k) (hs : 0 ≤ s) (hs' : s ≤ sm)
    (h1 : 1 ≤ dm) (hle : dm ≤ sm) (hd : sm % dm = 0) (hS : sm ≤ Cls.bound sc) (hD : dm ≤ Cls.bound dc) :
    k = (s + sm / dm / 2) / (sm / dm) := by
  cases sc <;> cases dc <;> simp [downDiv] at h <;> subst h <;> simp only [Cls.bound] at hS hD <;>
  first
    | exact C06_down_div_closed_B16_B8 s sm dm hs hs' h1 hle hd hS hD | exact C06_down_div_closed_B16_P16 s sm dm hs hs' h1 hle hd hS hD
    | exact C06_down_div_closed_B16_P8 s sm dm hs hs' h1 hle hd hS hD | exact C06_down_div_closed_B32_B16 s sm dm hs hs' h1 hle hd hS hD
    | exact C06_down_div_closed_B32_B8 s sm dm hs hs' h1 hle hd hS hD | exact C06_down_div_closed_B32_P16 s sm dm hs hs' h1 hle hd hS hD
    | exact C06_down_div_closed_B32_P8 s sm dm hs hs' h1 hle hd hS hD | exact C06_down_div_closed_B8_P8 s sm dm hs hs' h1 hle hd hS hD
    | exact C06_down_div_closed_P16_B16 s sm dm hs hs' h1 hle hd hS hD | exact C06_down_div_closed_P16_B8 s sm dm hs hs' h1 hle hd hS hD
    | exact C06_down_div_closed_P16_P8 s sm dm hs hs' h1 hle hd hS hD | exact C06_down_div_closed_P8_B8 s sm dm hs hs' h1 hle hd hS hD
    | exact C06_down_div_closed_P8_P8 s sm dm hs hs' h1 hle hd hS hD

private theorem upNondiv_eq (sc dc : Cls) (s sm dm k : Int) (h : upNondiv sc dc s sm dm = some k) (hs : 0 ≤ s) (hs' : s ≤ sm)
    (h1 : 1 ≤ sm) (hdm : 0 ≤ dm) (hS : sm ≤ Cls.bound sc) (hD : dm ≤ Cls.bound dc) : k = s * dm / sm := by
  cases sc <;> cases dc <;> simp [upNondiv] at h <;> subst h <;> simp only [Cls.bound] at hS hD <;>
  first
    | exact C06_up_nondiv_closed_B8_P16 s sm dm hs hs' h1 hdm hS hD | exact C06_up_nondiv_closed_P16_B16 s sm dm hs hs' h1 hdm hS hD
    | exact C06_up_nondiv_closed_P16_B32 s sm dm hs hs' h1 hdm hS hD | exact C06_up_nondiv_closed_P16_P16 s sm dm hs hs' h1 hdm hS hD
    | exact C06_up_nondiv_closed_P8_B16 s sm dm hs hs' h1 hdm hS hD | exact C06_up_nondiv_closed_P8_B32 s sm dm hs hs' h1 hdm hS hD
    | exact C06_up_nondiv_closed_P8_B8 s sm dm hs hs' h1 hdm hS hD | exact C06_up_nondiv_closed_P8_P16 s sm dm hs hs' h1 hdm hS hD
    | exact C06_up_nondiv_closed_P8_P8 s sm dm hs hs' h1 hdm hS hD

private theorem isSome_indep :
    (∀ sc dc s a b, (upDiv sc dc s a b).isSome = (upDiv sc dc 0 a b).isSome)
    ∧ (∀ sc dc s a b, (upNondiv sc dc s a b).isSome = (upNondiv sc dc 0 a b).isSome)
    ∧ (∀ sc dc s a b, (downDiv sc dc s a b).isSome = (downDiv sc dc 0 a b).isSome) := by
  refine ⟨?_, ?_, ?_⟩ <;> intro sc dc s a b <;> cases sc <;> cases dc <;> rfl

/-- the closed-form value of the model's conversion on each integer path (in-scope models, in-range source) -/
theorem C06_convU_closed (S D : Ch) (hS : S.inScopeU = true) (hD : D.inScopeU = true) (x : Int) (hx : 0 ≤ x) (hx' : x ≤ S.umax) :
    (path S D = .identity → convU S D x = x)
    ∧ (path S D = .upDiv → convU S D x = x * (D.umax / S.umax))
    ∧ (path S D = .upNondiv → convU S D x = x * D.umax / S.umax)
    ∧ (path S D = .downDiv → convU S D x = (x + S.umax / D.umax / 2) / (S.umax / D.umax)) := by
  obtain ⟨sm1, smB, sMem⟩ := scope_facts S hS
  obtain ⟨dm1, dmB, dMem⟩ := scope_facts D hD
  have hk : kernelExists S D = true := by
    have h := C06_dispatch_total
    rw [List.all_eq_true] at h
    have h2 := h S sMem
    rw [List.all_eq_true] at h2
    exact h2 D dMem
  obtain ⟨i1, i2, i3⟩ := isSome_indep
  refine ⟨?_, ?_, ?_, ?_⟩ <;> intro hp <;> simp only [convU, hp] <;> simp only [kernelExists, hp] at hk
  · -- upDiv
    have cond : S.umax < D.umax ∧ D.umax % S.umax = 0 := by
      unfold path at hp; split_ifs at hp with a b c <;> simp_all
    rw [← i1 S.cls D.cls x] at hk
    obtain ⟨k, hk⟩ := Option.isSome_iff_exists.mp hk
    have e := upDiv_eq _ _ _ _ _ _ hk hx hx' sm1 (by omega) cond.2 smB dmB
    have l := (C06_up_div_laws S.umax D.umax sm1 (by omega) cond.2).2.2.2.1 x hx hx'
    rw [hk, Option.getD_some, e]; exact mask_id D _ l.1 l.2
  · -- upNondiv
    rw [← i2 S.cls D.cls x] at hk
    obtain ⟨k, hk⟩ := Option.isSome_iff_exists.mp hk
    have e := upNondiv_eq _ _ _ _ _ _ hk hx hx' sm1 (by omega) smB dmB
    have l := (C06_up_nondiv_laws S.umax D.umax sm1 (by omega)).2.2.2.1 x hx hx'
    rw [hk, Option.getD_some, e]; exact mask_id D _ l.1 l.2
  · -- downDiv
    have cond : D.umax ≤ S.umax ∧ S.umax % D.umax = 0 := by
      unfold path at hp; split_ifs at hp with a b c <;> simp_all <;> omega
    rw [← i3 S.cls D.cls x] at hk
    obtain ⟨k, hk⟩ := Option.isSome_iff_exists.mp hk
    have e := downDiv_eq _ _ _ _ _ _ hk hx hx' dm1 cond.1 cond.2 smB dmB
    have l := (C06_down_div_laws S.umax D.umax dm1 cond.1 cond.2).2.2.2.1 x hx hx'
    rw [hk, Option.getD_some, e]; exact mask_id D _ l.1 l.2

/-- THE PROPERTY for every ordered pair of in-scope unsigned integral channel models (uint8_t, uint16_t, uint32_t,
    packed values of 1..16 bits) whose conversion is integer arithmetic (every pair except the non-divisible
    down-conversions, which run in `double`): for all source values `s ≤ t` in range, the model's
    `channel_converter_unsigned<S,D>` -- case split, selected generated kernel, wraps, narrowing, packed mask --
    stays in the destination range, maps min to min and max to max, is within one destination unit of the exact
    linear rescaling, and is monotone. -/
theorem C06_convU_spec (S D : Ch) (hS : S.inScopeU = true) (hD : D.inScopeU = true) (hp : path S D ≠ .downNondiv)
    (s t : Int) (hs : 0 ≤ s) (hst : s ≤ t) (ht : t ≤ S.umax) :
    (0 ≤ convU S D s ∧ convU S D s ≤ D.umax)
    ∧ (s = 0 → convU S D s = 0) ∧ (t = S.umax → convU S D t = D.umax)
    ∧ (-S.umax < convU S D s * S.umax - s * D.umax ∧ convU S D s * S.umax - s * D.umax < S.umax)
    ∧ convU S D s ≤ convU S D t := by
  obtain ⟨sm1, _, _⟩ := scope_facts S hS
  obtain ⟨dm1, _, _⟩ := scope_facts D hD
  obtain ⟨vs1, vs2, vs3, vs4⟩ := C06_convU_closed S D hS hD s hs (by omega)
  obtain ⟨vt1, vt2, vt3, vt4⟩ := C06_convU_closed S D hS hD t (by omega) ht
  cases hpv : path S D with
  | identity =>
    have hSD : S = D := by unfold path at hpv; split_ifs at hpv with a <;> first | exact a | simp_all
    subst hSD
    rw [vs1 hpv, vt1 hpv]
    refine ⟨⟨hs, by omega⟩, fun h => h, fun h => h, ⟨by nlinarith, by nlinarith⟩, hst⟩
  | upDiv =>
    have cond : S.umax < D.umax ∧ D.umax % S.umax = 0 := by
      unfold path at hpv; split_ifs at hpv with a b c <;> simp_all
    obtain ⟨l0, lmax, lmono, lrange, lexact⟩ := C06_up_div_laws S.umax D.umax sm1 (by omega) cond.2
    rw [vs2 hpv, vt2 hpv]
    refine ⟨lrange s hs (by omega), fun h => by rw [h]; exact l0, fun h => by rw [h]; exact lmax, ?_, ?_⟩
    · rw [lexact s]; omega
    · rcases Int.lt_or_eq_of_le hst with h | h
      · exact Int.le_of_lt (lmono s t h)
      · rw [h]
  | upNondiv =>
    obtain ⟨l0, lmax, lmono, lrange, lerr⟩ := C06_up_nondiv_laws S.umax D.umax sm1 (by omega)
    rw [vs3 hpv, vt3 hpv]
    refine ⟨lrange s hs (by omega), fun h => by rw [h]; exact l0, fun h => by rw [h]; exact lmax, ?_, lmono s t hst⟩
    have := lerr s; omega
  | downDiv =>
    have cond : D.umax ≤ S.umax ∧ S.umax % D.umax = 0 := by
      unfold path at hpv; split_ifs at hpv with a b c <;> simp_all <;> omega
    obtain ⟨l0, lmax, lmono, lrange, lerr⟩ := C06_down_div_laws S.umax D.umax dm1 cond.1 cond.2
    rw [vs4 hpv, vt4 hpv]
    refine ⟨lrange s hs (by omega), fun h => by rw [h]; exact l0, fun h => by rw [h]; exact lmax, ?_, lmono s t hst⟩
    have := lerr s; omega
  | downNondiv => exact absurd hpv hp

example : path (.packed 5) .u8 ≠ .downNondiv ∧ (Ch.packed 5).inScopeU = true ∧ convU (.packed 5) .u8 31 = 255 ∧ convU (.packed 5) .u8 17 = 139 := by decide

/-- round trip clause for the function the driver runs: converting to a channel with more levels whose maximum is a
    multiple of the source maximum, and back, returns the source value (every in-scope unsigned pair on the divisible
    paths, e.g. uint8_t -> uint16_t -> uint8_t, 4-bit -> uint8_t -> 4-bit, uint16_t -> uint32_t -> uint16_t) -/
theorem C06_convU_roundtrip_div (S D : Ch) (hS : S.inScopeU = true) (hD : D.inScopeU = true) (hp : path S D = .upDiv)
    (s : Int) (hs : 0 ≤ s) (hs' : s ≤ S.umax) : convU D S (convU S D s) = s := by
  obtain ⟨sm1, _, _⟩ := scope_facts S hS
  have cond : S ≠ D ∧ S.umax < D.umax ∧ D.umax % S.umax = 0 := by
    unfold path at hp; split_ifs at hp with a b c <;> simp_all
  have hback : path D S = .downDiv := by
    unfold path
    have h1 : ¬ (D = S) := fun h => cond.1 h.symm
    have h2 : ¬ (D.umax < S.umax) := by omega
    simp only [h1, h2, cond.2.2, if_false, if_true]
  have e1 := (C06_convU_closed S D hS hD s hs hs').2.1 hp
  have rng := (C06_up_div_laws S.umax D.umax sm1 (by omega) cond.2.2).2.2.2.1 s hs hs'
  rw [e1]
  have e2 := (C06_convU_closed D S hD hS (s * (D.umax / S.umax)) rng.1 rng.2).2.2.2 hback
  rw [e2]
  exact C06_roundtrip_div s S.umax D.umax sm1 (by omega) cond.2.2

example : path .u8 .u16 = .upDiv ∧ convU .u16 .u8 (convU .u8 .u16 200) = 200 := by decide

private theorem unsigned_facts (c : Ch) (h : c.unsignedOf.inScopeU = true) :
    c.isFloat = false ∧ c.unsignedOf.umax = c.maxV - c.minV := by
  cases c <;> simp [Ch.unsignedOf, Ch.inScopeU] at h <;> simp [Ch.unsignedOf, Ch.isFloat, Ch.umax, Ch.maxV, Ch.minV]

private theorem from_unsigned_add (c : Ch) (hf : c.isFloat = false) (u : Int) (h0 : 0 ≤ u) (h1 : u ≤ c.maxV - c.minV) :
    fromUnsigned c u = u + c.minV := by
  have := (C06_signed_offset c (u + c.minV) hf (by omega) (by omega)).2
  rwa [Int.add_sub_cancel] at this

/-- the same for channel_convert itself, signed models included (int8_t, int16_t, int32_t go through the offsets):
    every ordered pair of in-scope integral channel models whose unsigned conversion is integer arithmetic -/
theorem C06_conv_spec (S D : Ch) (hS : S.unsignedOf.inScopeU = true) (hD : D.unsignedOf.inScopeU = true)
    (hp : path S.unsignedOf D.unsignedOf ≠ .downNondiv) (s t : Int) (hs : S.minV ≤ s) (hst : s ≤ t) (ht : t ≤ S.maxV) :
    (D.minV ≤ conv S D s ∧ conv S D s ≤ D.maxV)
    ∧ (s = S.minV → conv S D s = D.minV) ∧ (t = S.maxV → conv S D t = D.maxV)
    ∧ (-(S.maxV - S.minV) < (conv S D s - D.minV) * (S.maxV - S.minV) - (s - S.minV) * (D.maxV - D.minV)
       ∧ (conv S D s - D.minV) * (S.maxV - S.minV) - (s - S.minV) * (D.maxV - D.minV) < S.maxV - S.minV)
    ∧ conv S D s ≤ conv S D t := by
  obtain ⟨fS, uS⟩ := unsigned_facts S hS
  obtain ⟨fD, uD⟩ := unsigned_facts D hD
  have ts := (C06_signed_offset S s fS hs (by omega)).1
  have tt := (C06_signed_offset S t fS (by omega) ht).1
  obtain ⟨⟨r0, r1⟩, e0, e1, ⟨er0, er1⟩, mono⟩ :=
    C06_convU_spec S.unsignedOf D.unsignedOf hS hD hp (s - S.minV) (t - S.minV) (by omega) (by omega) (by omega)
  obtain ⟨⟨q0, q1⟩, _, _, _, _⟩ :=
    C06_convU_spec S.unsignedOf D.unsignedOf hS hD hp (t - S.minV) (t - S.minV) (by omega) (by omega) (by omega)
  have cs : conv S D s = convU S.unsignedOf D.unsignedOf (s - S.minV) + D.minV := by
    unfold conv; simp only [fS, fD]; rw [ts]; exact from_unsigned_add D fD _ r0 (by omega)
  have ct : conv S D t = convU S.unsignedOf D.unsignedOf (t - S.minV) + D.minV := by
    unfold conv; simp only [fS, fD]; rw [tt]; exact from_unsigned_add D fD _ q0 (by omega)
  rw [cs, ct, uS, uD] at *
  refine ⟨⟨by omega, by omega⟩, fun h => by rw [e0 (by omega)]; omega, fun h => by rw [e1 (by omega)]; omega, ⟨?_, ?_⟩, by omega⟩
  · rw [Int.add_sub_cancel]; exact er0
  · rw [Int.add_sub_cancel]; exact er1

example : conv .i8 .u16 (-128) = 0 ∧ conv .i8 .u16 127 = 65535 ∧ conv .i16 .i8 (-300) = -129 + 128 - 1 := by decide


end GilVerif.Props.C06
