/-
  C04 -- pixel algorithms equal the per-pixel loop, and nothing else is modified (cell level, see Model/C04.lean).
  Every theorem is for ALL views (any base, any x/y steps incl. negative and transposed, any width and height incl. 0),
  all memories and all pixel functions.
-/
import GilVerif.Model.C04

namespace GilVerif.Props.C04
open GilVerif.Model.C04

/-! ### traversal lemmas -/

private theorem divmod_add (w q r j : Nat) (hr : r + j < w) : (q * w + r + j) % w = r + j ∧ (q * w + r + j) / w = q := by
  have hw : 0 < w := by omega
  constructor
  · rw [Nat.add_assoc, Nat.mul_comm, Nat.mul_add_mod]; exact Nat.mod_eq_of_lt hr
  · rw [Nat.add_assoc, Nat.mul_comm, Nat.mul_add_div hw]; simp [Nat.div_eq_of_lt hr]

/-- one row chunk through the x-iterator visits exactly the next `k` pixels of the row-major order -/
private theorem chunk_eq (v : View) (i k : Nat) (hk : i % v.w + k ≤ v.w) :
    chunk v i k = (List.range k).map (fun t => v.at2d (i + t)) := by
  unfold chunk View.at2d
  apply List.map_congr_left
  intro j hj
  have hj' : j < k := List.mem_range.mp hj
  have hw : 0 < v.w := by omega
  have h := divmod_add v.w (i / v.w) (i % v.w) j (by omega)
  have e : i / v.w * v.w + i % v.w = i := by rw [Nat.mul_comm]; exact Nat.div_add_mod i v.w
  rw [e] at h
  rw [h.1, h.2]

/-- the chunk loop (`num = min(n, width - x_pos)` ...) visits exactly the next `n` pixels of the row-major order -/
private theorem chunkLoop_eq (v : View) : ∀ (fuel i n : Nat), n ≤ fuel → (0 < v.w ∨ n = 0) →
    chunkLoop v fuel i n = (List.range n).map (fun t => v.at2d (i + t)) := by
  intro fuel
  induction fuel with
  | zero => intro i n hn _; have : n = 0 := by omega
            subst this; simp [chunkLoop]
  | succ fuel ih =>
    intro i n hn hw
    unfold chunkLoop
    by_cases h0 : n = 0
    · simp [h0]
    · have hw' : 0 < v.w := by omega
      have hlt : i % v.w < v.w := Nat.mod_lt _ hw'
      simp only [h0, if_false]
      have hk0 : min n (v.w - i % v.w) ≠ 0 := by omega
      simp only [hk0, if_false]
      rw [chunk_eq v i _ (by omega), ih (i + min n (v.w - i % v.w)) (n - min n (v.w - i % v.w)) (by omega) (Or.inl hw')]
      have hsplit : n = min n (v.w - i % v.w) + (n - min n (v.w - i % v.w)) := by omega
      conv => rhs; rw [hsplit, List.range_add, List.map_append, List.map_map]
      congr 1
      apply List.map_congr_left
      intro t _
      simp [Nat.add_assoc]

/-- a 1-D traversable view visited through its x-iterator is visited in row-major order -/
private theorem run1d_eq (v : View) (h1 : v.is1d = true) : run1d v (v.w * v.h) = specAddrs v := by
  unfold run1d specAddrs
  apply List.map_congr_left
  intro i _
  unfold View.at1d View.at2d View.addr View.is1d at *
  have hy : v.ys = (v.w : Int) * v.xs := by simpa using h1
  rw [hy]
  have e : (i : Int) = (v.w : Int) * ((i / v.w : Nat) : Int) + ((i % v.w : Nat) : Int) := by
    have := Nat.div_add_mod i v.w
    exact_mod_cast this.symm
  rw [Int.add_assoc]
  congr 1
  conv => lhs; rw [e]
  rw [Int.add_mul, Int.mul_comm (v.w : Int) ((i / v.w : Nat) : Int), Int.mul_assoc]

/-- whichever way a view is traversed by copy / equal, the pixels come in row-major order -/
theorem C04_traversal_row_major (v : View) : implSide v = specAddrs v := by
  unfold implSide
  split
  next h1 => exact run1d_eq v h1
  next =>
    rw [chunkLoop_eq v _ 0 _ (Nat.le_refl _)]
    · unfold specAddrs; simp
    · by_cases hw : 0 < v.w
      · exact Or.inl hw
      · have : v.w = 0 := by omega
        right; simp [this]

private theorem rows_eq {α : Type} (w h : Nat) (f : Nat → Nat → α) :
    (List.range h).flatMap (fun y => (List.range w).map (fun x => f x y)) = (List.range (w * h)).map (fun i => f (i % w) (i / w)) := by
  induction h with
  | zero => simp
  | succ h ih =>
    rw [List.range_succ, List.flatMap_append, ih, Nat.mul_succ, List.range_add, List.map_append]
    congr 1
    simp only [List.flatMap_cons, List.flatMap_nil, List.append_nil, List.map_map]
    apply List.map_congr_left
    intro x hx
    have hx' : x < w := List.mem_range.mp hx
    have dm := divmod_add w h 0 x (by omega)
    simp only [Function.comp]
    have e : w * h + x = h * w + 0 + x := by rw [Nat.mul_comm]; omega
    rw [e, dm.1, dm.2]; simp

/-! ### copy_pixels -/

/-- copy_pixels refines the per-pixel loop in every case of the (src 1-D?, dst 1-D?) dispatch and for every chunking:
    the sequence of (source cell, destination cell) assignments IS the row-major loop's sequence -/
theorem C04_copy_order (s d : View) (hw : s.w = d.w) (hh : s.h = d.h) : implCopyPairs s d = specCopyPairs s d := by
  unfold implCopyPairs specCopyPairs
  rw [C04_traversal_row_major, C04_traversal_row_major]
  unfold specAddrs
  rw [hw, hh, List.zip_map']

/-- ... hence the resulting memory is the loop's result, for every memory, overlapping or not -/
theorem C04_copy_refines (m : Mem) (s d : View) (hw : s.w = d.w) (hh : s.h = d.h) : implCopy m s d = specCopy m s d := by
  unfold implCopy specCopy; rw [C04_copy_order s d hw hh]

example : (implCopy ⟨[(0, 10), (1, 11), (2, 12), (5, 15), (6, 16), (7, 17)]⟩ ⟨0, 1, 5, 3, 2⟩ ⟨100, 2, 1, 3, 2⟩).get 101 = 15 ∧
    (implCopy ⟨[(0, 10), (1, 11), (2, 12), (5, 15), (6, 16), (7, 17)]⟩ ⟨0, 1, 5, 3, 2⟩ ⟨100, 2, 1, 3, 2⟩).get 103 = 16 := by decide

private theorem foldl_set_frame {β : Type} (l : List β) (addr : β → Int) (val : Mem → β → Nat) (m : Mem) (a : Int)
    (ha : ∀ p ∈ l, addr p ≠ a) : (l.foldl (fun m p => m.set (addr p) (val m p)) m).get a = m.get a := by
  induction l generalizing m with
  | nil => rfl
  | cons p l ih =>
    simp only [List.foldl_cons]
    rw [ih _ (fun q hq => ha q (List.mem_cons_of_mem _ hq))]
    have := ha p (List.mem_cons_self)
    rw [Mem.get_set]; simp [Ne.symm this]

/-- frame: a cell that is not a pixel of the destination view keeps its value (row padding, pixels around a sub-view,
    the other views' pixels) -/
theorem C04_copy_frame (m : Mem) (s d : View) (hw : s.w = d.w) (hh : s.h = d.h) (a : Int) (ha : a ∉ d.cells) :
    (implCopy m s d).get a = m.get a := by
  rw [C04_copy_refines m s d hw hh]
  unfold specCopy applyPairs
  apply foldl_set_frame (specCopyPairs s d) (fun p => p.2) (fun m p => m.get p.1)
  intro p hp e
  apply ha
  unfold specCopyPairs at hp
  obtain ⟨i, hi, rfl⟩ := List.mem_map.mp hp
  unfold View.cells specAddrs
  exact List.mem_map.mpr ⟨i, hi, e⟩

/-! ### fill_pixels, generate_pixels, for_each_pixel -/

/-- fill_pixels / for_each_pixel / generate_pixels visit the destination in row-major order in both of their branches -/
theorem C04_fill_order (d : View) : implFillAddrs d = specAddrs d := by
  unfold implFillAddrs
  split
  next h1 => exact run1d_eq d h1
  next => rw [rows_eq]; rfl

theorem C04_fill_refines (m : Mem) (d : View) (v : Nat) : implFill m d v = specFill m d v := by
  unfold implFill specFill; rw [C04_fill_order]

theorem C04_fill_frame (m : Mem) (d : View) (v : Nat) (a : Int) (ha : a ∉ d.cells) : (implFill m d v).get a = m.get a := by
  rw [C04_fill_refines]
  unfold specFill
  exact foldl_set_frame (specAddrs d) (fun p => p) (fun _ _ => v) m a (fun p hp e => ha (e ▸ hp))

/-- every pixel of the view holds the fill value afterwards (views whose pixels are distinct cells) -/
theorem C04_fill_post (m : Mem) (d : View) (v : Nat) (a : Int) (ha : a ∈ d.cells) : (implFill m d v).get a = v := by
  rw [C04_fill_refines]
  unfold specFill View.cells at *
  generalize specAddrs d = l at ha
  induction l generalizing m with
  | nil => cases ha
  | cons p l ih =>
    simp only [List.foldl_cons]
    by_cases hl : a ∈ l
    · exact ih _ hl
    · have : a = p := by cases ha with | head => rfl | tail _ h => exact absurd h hl
      subst this
      rw [foldl_set_frame l (fun p => p) (fun _ _ => v) _ a (fun q hq e => hl (e ▸ hq))]
      rw [Mem.get_set]; simp

private theorem zipIdx_range_map {α : Type} (n : Nat) (g : Nat → α) :
    ((List.range n).map g).zipIdx = (List.range n).map (fun k => (g k, k)) := by
  apply List.ext_getElem
  · simp
  · intro i h1 h2
    simp

/-- generate_pixels: the k-th functor call produces the pixel (k mod w, k div w) -/
theorem C04_generate_order (m : Mem) (d : View) (f : Nat → Nat) : implGenerate m d f = specGenerate m d f := by
  unfold implGenerate specGenerate
  rw [C04_fill_order]
  unfold specAddrs
  rw [zipIdx_range_map, List.map_map]
  rfl

/-! ### equal_pixels -/

theorem C04_equal_refines (m : Mem) (a b : View) (eq : Nat → Nat → Bool) (hw : a.w = b.w) (hh : a.h = b.h) :
    implEqual m a b eq = specEqual m a b eq := by
  unfold implEqual specEqual specCopyPairs
  rw [C04_traversal_row_major, C04_traversal_row_major]
  unfold specAddrs
  rw [hw, hh, List.zip_map']

/-- equal_pixels returns true exactly when all corresponding pixels compare equal -/
theorem C04_equal_iff (m : Mem) (a b : View) (eq : Nat → Nat → Bool) (hw : a.w = b.w) (hh : a.h = b.h) :
    implEqual m a b eq = true ↔ ∀ x y, x < b.w → y < b.h → eq (m.get (a.addr x y)) (m.get (b.addr x y)) = true := by
  rw [C04_equal_refines m a b eq hw hh]
  unfold specEqual specCopyPairs
  simp only [List.all_map, List.all_eq_true, List.mem_range, Function.comp]
  constructor
  · intro h x y hx hy
    have hlt : y * b.w + x < b.w * b.h := by
      have : y * b.w + x < (y + 1) * b.w := by rw [Nat.succ_mul]; omega
      have h2 : (y + 1) * b.w ≤ b.h * b.w := Nat.mul_le_mul_right _ hy
      rw [Nat.mul_comm b.w b.h]; omega
    have := h (y * b.w + x) hlt
    have dm := divmod_add b.w y 0 x (by omega)
    simp only [Nat.add_zero, Nat.zero_add] at dm
    unfold View.at2d at this
    rw [hw, dm.1, dm.2] at this
    exact this
  · intro h i hi
    have hw0 : 0 < b.w := by
      cases Nat.eq_zero_or_pos b.w with
      | inl e => rw [e] at hi; simp at hi
      | inr e => exact e
    unfold View.at2d
    rw [hw]
    apply h
    · exact Nat.mod_lt _ hw0
    · exact Nat.div_lt_of_lt_mul hi

/-- image equality (operator==): true exactly when the dimensions agree and all corresponding pixels compare equal -/
theorem C04_image_eq_iff (m : Mem) (a b : View) (eq : Nat → Nat → Bool) :
    implImageEq m a b eq = true ↔ (a.w = b.w ∧ a.h = b.h) ∧ ∀ x y, x < b.w → y < b.h → eq (m.get (a.addr x y)) (m.get (b.addr x y)) = true := by
  unfold implImageEq
  by_cases h : a.w = b.w ∧ a.h = b.h
  · simp only [h, and_self, if_true, true_and]; exact C04_equal_iff m a b eq h.1 h.2
  · simp [h]

/-! ### transform_pixels -/

theorem C04_transform_order (s d : View) (hw : s.w = d.w) : rowPairs s d = specCopyPairs s d := by
  unfold rowPairs specCopyPairs
  rw [rows_eq]
  unfold View.at2d
  rw [hw]

theorem C04_transform_refines (m : Mem) (s d : View) (f : Nat → Nat) (hw : s.w = d.w) : implTransform m s d f = specTransform m s d f := by
  unfold implTransform specTransform; rw [C04_transform_order s d hw]

theorem C04_transform_frame (m : Mem) (s d : View) (f : Nat → Nat) (hw : s.w = d.w) (a : Int) (ha : a ∉ d.cells) :
    (implTransform m s d f).get a = m.get a := by
  rw [C04_transform_refines m s d f hw]
  unfold specTransform
  apply foldl_set_frame (specCopyPairs s d) (fun p => p.2) (fun m p => f (m.get p.1))
  intro p hp e
  apply ha
  unfold specCopyPairs at hp
  obtain ⟨i, hi, rfl⟩ := List.mem_map.mp hp
  unfold View.cells specAddrs
  exact List.mem_map.mpr ⟨i, hi, e⟩

/-- copy_and_convert_pixels = copy_pixels over color_converted_view; compatible views: plain copy -/
theorem C04_convert_copy (m : Mem) (s d : View) (compatible : Bool) (cc : Nat → Nat) (hw : s.w = d.w) (hh : s.h = d.h) :
    implConvertCopy m s d compatible cc = if compatible then specCopy m s d else specTransform m s d cc := by
  unfold implConvertCopy
  cases compatible with
  | true => simp [C04_copy_refines m s d hw hh]
  | false => simp only [Bool.false_eq_true, if_false]; rw [C04_copy_order s d hw hh]; rfl

/-- transform_pixels with two sources -/
theorem C04_transform2_refines (m : Mem) (s1 s2 d : View) (f : Nat → Nat → Nat) (h1 : s1.w = d.w) (h2 : s2.w = d.w) :
    implTransform2 m s1 s2 d f = specTransform2 m s1 s2 d f := by
  unfold implTransform2 specTransform2
  rw [rows_eq]
  unfold View.at2d
  rw [h1, h2]

/-! ### overlapping source and destination: block moves (memmove) against the forward loop -/

private theorem snapshot_cons (m : Mem) (p : Int × Int) (ps : List (Int × Int)) (h : ∀ q ∈ ps, p.2 ≠ q.1) :
    snapshotPairs m (p :: ps) = snapshotPairs (m.set p.2 (m.get p.1)) ps := by
  unfold snapshotPairs
  simp only [List.map_cons, List.foldl_cons]
  congr 1
  apply List.map_congr_left
  intro q hq
  rw [Mem.get_set]
  have := h q hq
  simp [Ne.symm this]

/-- a block move equals the forward element loop whenever no destination cell written earlier is read later -/
private theorem snapshot_eq_apply (ps : List (Int × Int)) : ∀ (m : Mem), ps.Pairwise (fun p q => p.2 ≠ q.1) →
    snapshotPairs m ps = applyPairs m ps := by
  induction ps with
  | nil => intro m _; rfl
  | cons p ps ih =>
    intro m h
    rw [List.pairwise_cons] at h
    rw [snapshot_cons m p ps h.1, ih _ h.2]
    rfl

private theorem applyPairs_append (m : Mem) (a b : List (Int × Int)) : applyPairs m (a ++ b) = applyPairs (applyPairs m a) b := by
  unfold applyPairs; rw [List.foldl_append]

private theorem rows_snapshot_eq_apply (rows : List (List (Int × Int))) : ∀ (m : Mem), rows.flatten.Pairwise (fun p q => p.2 ≠ q.1) →
    rows.foldl snapshotPairs m = applyPairs m rows.flatten := by
  induction rows with
  | nil => intro m _; rfl
  | cons r rs ih =>
    intro m h
    rw [List.flatten_cons, List.pairwise_append] at h
    rw [List.foldl_cons, snapshot_eq_apply r m h.1, ih _ h.2.1, List.flatten_cons, applyPairs_append]

private theorem copyRows_flatten (s d : View) : (copyRows s d).flatten = rowPairs s d := by
  unfold copyRows rowPairs
  rw [List.flatMap_def]

/-- the hazard of a forward copy: a destination pixel written at step i is a source pixel read at a later step j -/
def NoHazard (s d : View) : Prop := ∀ i j, i < j → j < d.w * d.h → d.at2d i ≠ s.at2d j

private theorem pairwise_of_noHazard (s d : View) (h : NoHazard s d) : (specCopyPairs s d).Pairwise (fun p q => p.2 ≠ q.1) := by
  unfold specCopyPairs
  rw [List.pairwise_map]
  apply List.Pairwise.imp_of_mem (R := fun i j => i < j)
  · intro i j _ hj hij
    exact h i j hij (List.mem_range.mp hj)
  · exact List.pairwise_lt_range

/-- copy_pixels with source and destination in one buffer: in every branch (block moves of the whole view, block moves per row, forward
    element loops) the result is the per-pixel loop's result as long as no destination pixel written earlier is a source pixel read later.
    In particular: disjoint views, and every overlap in which the destination trails the source. -/
theorem C04_copy_overlap_no_hazard (block1d blockRow : Bool) (m : Mem) (s d : View) (hw : s.w = d.w) (hh : s.h = d.h) (h : NoHazard s d) :
    implCopyOv block1d blockRow m s d = specCopy m s d := by
  have hp := pairwise_of_noHazard s d h
  unfold implCopyOv
  split
  · cases block1d with
    | false => simp only [Bool.false_eq_true, if_false]; exact C04_copy_refines m s d hw hh
    | true => simp only [if_true]; rw [C04_copy_order s d hw hh, snapshot_eq_apply _ m hp]; rfl
  · cases blockRow with
    | false => simp only [Bool.false_eq_true, if_false]; exact C04_copy_refines m s d hw hh
    | true =>
      simp only [if_true]
      rw [rows_snapshot_eq_apply _ m (by rw [copyRows_flatten, C04_transform_order s d hw]; exact hp), copyRows_flatten,
        C04_transform_order s d hw]; rfl

/-- disjoint source and destination cells: no hazard -/
theorem C04_disjoint_no_hazard (s d : View) (hw : s.w = d.w) (hh : s.h = d.h) (hdis : ∀ a, a ∈ d.cells → a ∉ s.cells) : NoHazard s d := by
  intro i j hij hj e
  have hi : i < d.w * d.h := by omega
  apply hdis (d.at2d i)
  · unfold View.cells specAddrs; exact List.mem_map.mpr ⟨i, List.mem_range.mpr hi, rfl⟩
  · rw [e]; unfold View.cells specAddrs; rw [hw, hh]; exact List.mem_map.mpr ⟨j, List.mem_range.mpr hj, rfl⟩

/-- 1-D traversable views of one pixel step `xs > 0` inside one buffer, the destination starting at or before the source
    (the "shift towards the beginning" overlap): no hazard, so copy_pixels is the loop whichever branch runs -/
theorem C04_backward_overlap_no_hazard (s d : View) (h1s : s.is1d = true) (h1d : d.is1d = true) (hx : s.xs = d.xs)
    (hpos : 0 < d.xs) (hb : d.base ≤ s.base) : NoHazard s d := by
  intro i j hij _ e
  have es : ∀ (v : View), v.is1d = true → ∀ k, v.at2d k = v.at1d k := by
    intro v hv k
    unfold View.at1d View.at2d View.addr View.is1d at *
    have hy : v.ys = (v.w : Int) * v.xs := by simpa using hv
    rw [hy]
    have e : (k : Int) = (v.w : Int) * ((k / v.w : Nat) : Int) + ((k % v.w : Nat) : Int) := by
      have := Nat.div_add_mod k v.w
      exact_mod_cast this.symm
    rw [Int.add_assoc]
    congr 1
    conv => rhs; rw [e]
    rw [Int.add_mul, Int.mul_comm (v.w : Int) ((k / v.w : Nat) : Int), Int.mul_assoc]
  rw [es d h1d, es s h1s] at e
  unfold View.at1d at e
  rw [hx] at e
  have hlt : (i : Int) * d.xs < (j : Int) * d.xs := Int.mul_lt_mul_of_pos_right (by exact_mod_cast hij) hpos
  omega

example : NoHazard ⟨1, 1, 3, 3, 1⟩ ⟨0, 1, 3, 3, 1⟩ ∧ (⟨1, 1, 3, 3, 1⟩ : View).is1d = true :=
  ⟨C04_backward_overlap_no_hazard _ _ (by decide) (by decide) rfl (by decide) (by decide), by decide⟩

private theorem foldl_set_nodup (l : List (Int × Nat)) : ∀ (m : Mem), (l.map (·.1)).Nodup → ∀ p ∈ l,
    (l.foldl (fun acc p => acc.set p.1 p.2) m).get p.1 = p.2 := by
  induction l with
  | nil => intro m _ p hp; cases hp
  | cons q l ih =>
    intro m hn p hp
    simp only [List.map_cons, List.nodup_cons] at hn
    simp only [List.foldl_cons]
    cases hp with
    | head =>
      rw [foldl_set_frame l (fun (p : Int × Nat) => p.1) (fun _ p => p.2) _ q.1 (fun r hr e => hn.1 (e ▸ List.mem_map.mpr ⟨r, hr, rfl⟩))]
      rw [Mem.get_set]; simp
    | tail _ h => exact ih _ hn.2 p h

/-- what the block-move branch yields for ANY overlap (both views 1-D traversable, block-move iterators, destination pixels distinct
    cells): every destination pixel holds the ORIGINAL value of its source pixel (memmove semantics), also where the forward loop
    would already have overwritten that source pixel -/
theorem C04_copy_block_snapshot (m : Mem) (s d : View) (hw : s.w = d.w) (hh : s.h = d.h) (h1 : (s.is1d && d.is1d) = true)
    (hnd : d.cells.Nodup) (blockRow : Bool) (k : Nat) (hk : k < d.w * d.h) :
    (implCopyOv true blockRow m s d).get (d.at2d k) = m.get (s.at2d k) := by
  unfold implCopyOv
  simp only [if_true, h1]
  rw [C04_copy_order s d hw hh]
  unfold snapshotPairs
  have := foldl_set_nodup ((specCopyPairs s d).map (fun p => (p.2, m.get p.1))) m
    (by unfold specCopyPairs; simp only [List.map_map]; exact hnd) (d.at2d k, m.get (s.at2d k))
    (by unfold specCopyPairs; simp only [List.map_map]; exact List.mem_map.mpr ⟨k, List.mem_range.mpr hk, rfl⟩)
  exact this

/-- block moves keep the frame: cells that are not destination pixels keep their value, for any overlap -/
theorem C04_copy_overlap_frame (block1d blockRow : Bool) (m : Mem) (s d : View) (hw : s.w = d.w) (hh : s.h = d.h) (a : Int) (ha : a ∉ d.cells) :
    (implCopyOv block1d blockRow m s d).get a = m.get a := by
  have hmem : ∀ p ∈ specCopyPairs s d, p.2 ≠ a := by
    intro p hp e
    apply ha
    unfold specCopyPairs at hp
    obtain ⟨i, hi, rfl⟩ := List.mem_map.mp hp
    unfold View.cells specAddrs
    exact List.mem_map.mpr ⟨i, hi, e⟩
  have hsnap : ∀ (ps : List (Int × Int)) (m : Mem), (∀ p ∈ ps, p.2 ≠ a) → (snapshotPairs m ps).get a = m.get a := by
    intro ps m hps
    unfold snapshotPairs
    apply foldl_set_frame _ (fun (p : Int × Nat) => p.1) (fun _ p => p.2)
    intro p hp
    obtain ⟨q, hq, rfl⟩ := List.mem_map.mp hp
    exact hps q hq
  unfold implCopyOv
  split
  · cases block1d with
    | false => simp only [Bool.false_eq_true, if_false]; exact C04_copy_frame m s d hw hh a ha
    | true => simp only [if_true]; rw [C04_copy_order s d hw hh]; exact hsnap _ m hmem
  · cases blockRow with
    | false => simp only [Bool.false_eq_true, if_false]; exact C04_copy_frame m s d hw hh a ha
    | true =>
      simp only [if_true]
      have hrows : ∀ r ∈ copyRows s d, ∀ p ∈ r, p.2 ≠ a := by
        intro r hr p hp
        apply hmem
        rw [← C04_transform_order s d hw, ← copyRows_flatten]
        exact List.mem_flatten.mpr ⟨r, hr, hp⟩
      generalize copyRows s d = rows at hrows
      induction rows generalizing m with
      | nil => rfl
      | cons r rs ih =>
        rw [List.foldl_cons, ih _ (fun r' hr' => hrows r' (List.mem_cons_of_mem _ hr')), hsnap r m (hrows r List.mem_cons_self)]

/-- the hazardous overlap (destination one pixel AFTER the source in one contiguous 1-D traversable run): the block-move branch (interleaved /
    planar / packed raw-pointer views) yields the shifted original pixels, the forward loop (bit-aligned iterators) smears the first pixel;
    the two branches differ, and only the block move is what a copy of the ORIGINAL source would give -/
theorem C04_copy_overlap_forward_witness :
    let m : Mem := ⟨[(0, 10), (1, 11), (2, 12), (3, 13)]⟩
    let s : View := ⟨0, 1, 3, 3, 1⟩
    let d : View := ⟨1, 1, 3, 3, 1⟩
    ¬ NoHazard s d ∧
    ((implCopyOv true false m s d).get 1, (implCopyOv true false m s d).get 2, (implCopyOv true false m s d).get 3) = (10, 11, 12) ∧
    ((implCopyOv false false m s d).get 1, (implCopyOv false false m s d).get 2, (implCopyOv false false m s d).get 3) = (10, 10, 10) ∧
    ((specCopy m s d).get 1, (specCopy m s d).get 2, (specCopy m s d).get 3) = (10, 10, 10) := by
  refine ⟨fun h => h 0 1 (by decide) (by decide) (by decide), by decide, by decide, by decide⟩

/-! ### uninitialized_fill_pixels, uninitialized_copy_pixels, default_construct_pixels, destruct_pixels -/

theorem C04_uninit_fill_refines (m : Mem) (d : View) (v : Nat) : implUninitFill m d v = specFill m d v := by
  have := C04_fill_refines m d v
  unfold implFill implFillAddrs at this
  unfold implUninitFill
  exact this

/-- uninitialized_copy_pixels' two-way split (both 1-D traversable, or row by row) is the row-major loop -/
theorem C04_uninit_copy_order (s d : View) (hw : s.w = d.w) (hh : s.h = d.h) : implUninitCopyPairs s d = specCopyPairs s d := by
  unfold implUninitCopyPairs
  split
  next h1 =>
    have h1' : s.is1d = true ∧ d.is1d = true := by simpa using h1
    rw [run1d_eq s h1'.1, run1d_eq d h1'.2]
    unfold specAddrs specCopyPairs
    rw [hw, hh, List.zip_map']
  next => exact C04_transform_order s d hw

-- OPEN (not proven; FALSE on the current tree, see the witness below):
--   theorem C04_uninit_copy_refines (proxyNoStore : Bool) (m : Mem) (s d : View) (hw : s.w = d.w) (hh : s.h = d.h) :
--     implUninitCopy proxyNoStore m s d = specCopy m s d
/-- uninitialized_copy_pixels = the loop, for every pair of views except bit-aligned views with a step x-iterator on either side -/
theorem C04_uninit_copy_refines_partial (m : Mem) (s d : View) (hw : s.w = d.w) (hh : s.h = d.h) : implUninitCopy false m s d = specCopy m s d := by
  unfold implUninitCopy specCopy; simp only [Bool.false_eq_true, if_false]; rw [C04_uninit_copy_order s d hw hh]

/-- finding C04-uninitialized-copy-bit-aligned-step-views: a 1 x 1 copy into a subsampled bit-aligned view leaves the destination pixel as it was -/
theorem C04_uninit_copy_proxy_witness :
    (implUninitCopy true ⟨[(0, 1), (100, 0)]⟩ ⟨0, 1, 1, 1, 1⟩ ⟨100, 2, 2, 1, 1⟩).get 100 = 0 ∧
    (specCopy ⟨[(0, 1), (100, 0)]⟩ ⟨0, 1, 1, 1, 1⟩ ⟨100, 2, 2, 1, 1⟩).get 100 = 1 := by decide

/-- default_construct_pixels / destruct_pixels: no effect on trivially constructible / destructible pixels; otherwise every pixel of the
    view is value-initialised and nothing else changes -/
theorem C04_default_construct (trivial : Bool) (m : Mem) (d : View) (v0 : Nat) :
    implDefaultConstruct trivial m d v0 = if trivial then m else specFill m d v0 := by
  unfold implDefaultConstruct
  cases trivial with
  | true => rfl
  | false => simp only [Bool.false_eq_true, if_false]; exact C04_uninit_fill_refines m d v0

/-! ### the walking locator of for_each_pixel_position / transform_pixel_positions -/

private theorem locRows_eq (xs ys : Int) (w : Nat) : ∀ (h : Nat) (a : Int),
    locRows xs ys w h a = (List.range h).flatMap (fun (y : Nat) => (List.range w).map (fun (x : Nat) => a + (y : Int) * ys + (x : Int) * xs)) := by
  intro h
  induction h with
  | zero => intro a; simp [locRows]
  | succ h ih =>
    intro a
    rw [locRows, ih, List.range_succ_eq_map, List.flatMap_cons, List.flatMap_map]
    congr 1
    · apply List.map_congr_left; intro x _; simp
    · simp only [List.flatMap_def]
      congr 1
      apply List.map_congr_left; intro y _
      apply List.map_congr_left; intro x _
      have e : ((y + 1 : Nat) : Int) * ys = (y : Int) * ys + ys := by
        rw [Int.natCast_add, Int.add_mul]; simp
      simp only [Nat.succ_eq_add_one]
      rw [e]; omega

/-- the incrementally kept locator address (`++loc.x()`, `loc.x() -= width; ++loc.y()`) is the address of pixel (x, y): the functor of
    for_each_pixel_position / transform_pixel_positions sees the pixels in row-major order -/
theorem C04_position_walk_order (s : View) : implPosAddrs s = specAddrs s := by
  unfold implPosAddrs
  rw [locRows_eq, rows_eq s.w s.h (fun (x y : Nat) => s.base + (y : Int) * s.ys + (x : Int) * s.xs)]
  rfl

theorem C04_transform_positions_refines (m : Mem) (s d : View) (f : Nat → Nat) (hw : s.w = d.w) (hh : s.h = d.h) :
    implTransformPos m s d f = specTransform m s d f := by
  unfold implTransformPos specTransform
  rw [C04_position_walk_order, rows_eq]
  unfold specAddrs specCopyPairs
  rw [List.zip_map', hw, hh]
  rfl

example : implPosAddrs ⟨5, -1, 7, 3, 2⟩ = [5, 4, 3, 12, 11, 10] := by decide

end GilVerif.Props.C04
