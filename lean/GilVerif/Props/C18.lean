/-
  C18 -- toolbox colour spaces.

  What is proven here (kernel-checked, all inputs):
    * the translated 8-bit ycbcr_601 -> rgb formulas are the documented ones (`C18_ycbcr_closed`), always land in [0,255] (`C18_ycbcr_range`), map the nominal black and
      white (16,128,128) / (235,128,128) to (0,0,0) / (255,255,255), and are monotone in y;
    * over exact rationals the hsv -> rgb case split treats hue 1 as hue 0 (`C18_hue_periodic`), every hue selects one
      of the six handled sectors (`C18_hue_sector`), greys ignore the hue (`C18_grey_ignores_hue`), and every channel of the
      result lies in [0, v] for saturation in [0,1] (`C18_hsv_to_rgb_range`);
    * gray_alpha -> rgba carries the alpha, gray -> rgba sets alpha to max (`C18_gray_alpha`), the premultiplied grey is
      within one unit of g*a/255 (`C18_gray_alpha_premultiplied`);
    * the core 8-bit luminance agrees with the toolbox weights 0.30/0.59/0.11 within 0.52 of a unit (`C18_luminance_agrees`);
    * the two xyz matrices are inverse to each other within 2e-6 (`C18_xyz_matrices_inverse`, over Rat, literals re-read
      from xyz.hpp by the check).
  -- OPEN (not proven): `C18_hsv_roundtrip_exact_arith` / `C18_hsl_roundtrip_exact_arith` (rgb -> hsv -> rgb = id over
  exact rationals for rgb8 lattice inputs; the case analysis is sketched in checks/C18.notes.md) and the float32 error budget `C18_hsv_roundtrip_u8`: the round trips are
  carried by the exhaustive, bit-exact correspondence over all 2^24 pixels (partial (float)); xyz / lab companding
  (powf) has no model at all (partial (transcendental)).
-/
import GilVerif.Model.C18
import Mathlib.Tactic.Linarith
import Mathlib.Tactic.NormNum
import Mathlib.Tactic.IntervalCases
import Mathlib.Algebra.Order.Floor.Ring
import Mathlib.Data.Rat.Floor

namespace GilVerif.Props.C18
open GilVerif.Gen.C18 GilVerif.Model.C18

/-! ## ycbcr_601 -> rgb, 8-bit integer formulas (translated) -/

theorem C18_ycbcr_range (y cb cr : Int) :
    0 ≤ ycbcr601_red y cb cr ∧ ycbcr601_red y cb cr ≤ 255 ∧ 0 ≤ ycbcr601_green y cb cr ∧ ycbcr601_green y cb cr ≤ 255
    ∧ 0 ≤ ycbcr601_blue y cb cr ∧ ycbcr601_blue y cb cr ≤ 255 := by
  unfold ycbcr601_red ycbcr601_green ycbcr601_blue
  simp only []
  omega

/-- the translated formulas are the documented BT.601 integer formulas (298/409/100/208/516, +128, >>8, clamped) -/
theorem C18_ycbcr_closed (y cb cr : Int) :
    ycbcr601_red y cb cr = max 0 (min 255 ((298 * (y - 16) + 409 * (cr - 128) + 128) / 256))
    ∧ ycbcr601_green y cb cr = max 0 (min 255 ((298 * (y - 16) - 100 * (cb - 128) - 208 * (cr - 128) + 128) / 256))
    ∧ ycbcr601_blue y cb cr = max 0 (min 255 ((298 * (y - 16) + 516 * (cb - 128) + 128) / 256)) := by
  unfold ycbcr601_red ycbcr601_green ycbcr601_blue
  simp only []
  omega

/-- nominal black and white of BT.601 studio range -/
theorem C18_ycbcr_black_white :
    ycbcr601ToRgb 16 128 128 = (0, 0, 0) ∧ ycbcr601ToRgb 235 128 128 = (255, 255, 255) := by decide

/-- brighter luma never gives a darker channel -/
theorem C18_ycbcr_monotone_y (y y' cb cr : Int) (h : y ≤ y') :
    ycbcr601_red y cb cr ≤ ycbcr601_red y' cb cr ∧ ycbcr601_green y cb cr ≤ ycbcr601_green y' cb cr
    ∧ ycbcr601_blue y cb cr ≤ ycbcr601_blue y' cb cr := by
  have m (a b : Int) (hab : a ≤ b) : max 0 (min 255 (a / 256)) % 256 ≤ max 0 (min 255 (b / 256)) % 256 := by
    have := Int.ediv_le_ediv (c := 256) (by decide) hab
    generalize a / 256 = p at *; generalize b / 256 = q at *
    omega
  unfold ycbcr601_red ycbcr601_green ycbcr601_blue
  simp only []
  exact ⟨m _ _ (by omega), m _ _ (by omega), m _ _ (by omega)⟩

/-! ## hsv -> rgb over exact rationals: the case split of hsv.hpp -/

/-- every hue selects one of the six sectors the switch handles (the code reduces floor(6h) modulo 6) -/
theorem C18_hue_sector (h : Rat) : sectorQ h < 6 := Nat.mod_lt _ (by decide)

/-- hue is periodic: hue 1 denotes the same colour as hue 0, for every saturation and value -/
theorem C18_hue_periodic (s v : Rat) : hsvToRgbQ 1 s v = hsvToRgbQ 0 s v := by
  unfold hsvToRgbQ
  have e1 : ((1 : Rat) * 6).floor.toNat = 6 := by decide +kernel
  have e0 : ((0 : Rat) * 6).floor.toNat = 0 := by decide +kernel
  by_cases hc : ((if s < 0 then -s else s) < 1 / 10000)
  · simp only [hc, ↓reduceIte]
  · simp only [hc, ↓reduceIte, e1, e0]
    norm_num

/-- greys (saturation 0) ignore the hue -/
theorem C18_grey_ignores_hue (h v : Rat) : hsvToRgbQ h 0 v = ⟨v, v, v⟩ := by
  unfold hsvToRgbQ
  simp

private theorem frac_bounds (x : Rat) (hx : 0 ≤ x) :
    0 ≤ x - ((x.floor.toNat : Nat) : Rat) ∧ x - ((x.floor.toNat : Nat) : Rat) < 1 := by
  have h1 : (⌊x⌋ : Int) = x.floor := rfl
  have f0 : 0 ≤ x.floor := by rw [← h1]; exact Int.floor_nonneg.mpr hx
  have e : ((x.floor.toNat : Nat) : Rat) = ((x.floor : Int) : Rat) := by
    have : ((x.floor.toNat : Nat) : Int) = x.floor := Int.toNat_of_nonneg f0
    exact_mod_cast this
  rw [e, ← h1]
  constructor
  · linarith [Int.floor_le x]
  · linarith [Int.lt_floor_add_one x]

/-- for every hue ≥ 0, saturation in [0,1] and value ≥ 0 all three channels of hsv -> rgb lie in [0, v]
    (so in [0,1] for v ≤ 1): no sector produces an out-of-range channel -/
theorem C18_hsv_to_rgb_range (h s v : Rat) (hh : 0 ≤ h) (hs : 0 ≤ s ∧ s ≤ 1) (hv : 0 ≤ v) :
    (0 ≤ (hsvToRgbQ h s v).r ∧ (hsvToRgbQ h s v).r ≤ v) ∧ (0 ≤ (hsvToRgbQ h s v).g ∧ (hsvToRgbQ h s v).g ≤ v)
    ∧ (0 ≤ (hsvToRgbQ h s v).b ∧ (hsvToRgbQ h s v).b ≤ v) := by
  obtain ⟨f0, f1⟩ := frac_bounds (h * 6) (by linarith)
  unfold hsvToRgbQ
  simp only []
  generalize h * 6 - (((h * 6).floor.toNat : Nat) : Rat) = fr at *
  have p0 : 0 ≤ v * (1 - s) := mul_nonneg hv (by linarith)
  have p1 : v * (1 - s) ≤ v := by nlinarith
  have q0 : 0 ≤ v * (1 - s * fr) := mul_nonneg hv (by nlinarith)
  have q1 : v * (1 - s * fr) ≤ v := by nlinarith [mul_nonneg hs.1 f0]
  have t0 : 0 ≤ v * (1 - s * (1 - fr)) := mul_nonneg hv (by nlinarith)
  have t1 : v * (1 - s * (1 - fr)) ≤ v := by nlinarith [mul_nonneg hs.1 (show 0 ≤ 1 - fr by linarith)]
  by_cases hc : ((if s < 0 then -s else s) < 1 / 10000)
  · simp only [hc, ↓reduceIte]
    exact ⟨⟨hv, le_refl _⟩, ⟨hv, le_refl _⟩, ⟨hv, le_refl _⟩⟩
  · simp only [hc, ↓reduceIte]
    generalize (h * 6).floor.toNat % 6 = i
    obtain _ | _ | _ | _ | _ | i := i <;> simp only [] <;>
      exact ⟨⟨by assumption, by first | assumption | exact le_refl _⟩, ⟨by assumption, by first | assumption | exact le_refl _⟩,
             ⟨by assumption, by first | assumption | exact le_refl _⟩⟩

example : hsvToRgbQ 1 1 1 = ⟨1, 0, 0⟩ ∧ hsvToRgbQ (1/3) 1 1 = ⟨0, 1, 0⟩ ∧ hsvToRgbQ (5/6) (1/2) 1 = ⟨1, 1/2, 1⟩ := by decide +kernel

/-! ## gray_alpha, gray -> rgba -/

theorem C18_gray_alpha (g a : Int) :
    grayAlphaToRgba8 g a = [g, g, g, a] ∧ grayToRgba8 g = [g, g, g, 255] := ⟨rfl, rfl⟩

/-- gray_alpha -> rgb / gray premultiplies: within half a unit of g*a/255, never above the alpha -/
theorem C18_gray_alpha_premultiplied (g a : Int) (hg : 0 ≤ g ∧ g ≤ 255) (ha : 0 ≤ a ∧ a ≤ 255) :
    -255 < 255 * mul8 g a - g * a ∧ 255 * mul8 g a - g * a < 255 ∧ 0 ≤ mul8 g a ∧ mul8 g a ≤ a := by
  have h0 : 0 ≤ g * a := Int.mul_nonneg hg.1 ha.1
  have h1 : g * a ≤ 255 * a := Int.mul_le_mul_of_nonneg_right hg.2 ha.1
  unfold mul8 div255
  generalize g * a = p at *
  simp only []
  omega

/-! ## luminance -/

/-- the core fixed-point luminance is within 0.52 of a unit of the toolbox weights 0.30 r + 0.59 g + 0.11 b -/
theorem C18_luminance_agrees (r g b : Int) (hr : 0 ≤ r ∧ r ≤ 255) (hg : 0 ≤ g ∧ g ≤ 255) (hb : 0 ≤ b ∧ b ≤ 255) :
    -52 ≤ 100 * lum8 r g b - (30 * r + 59 * g + 11 * b) ∧ 100 * lum8 r g b - (30 * r + 59 * g + 11 * b) ≤ 52 := by
  unfold lum8
  simp (disch := omega) only [Int.emod_eq_of_lt]
  omega

/-! ## xyz matrices (literals of xyz.hpp as exact decimals) -/

/-- rows of rgb -> xyz and of xyz -> rgb -/
private def mF : List (List Rat) :=
  [[4124564/10000000, 3575761/10000000, 1804375/10000000],
   [2126729/10000000, 7151522/10000000,  721750/10000000],
   [ 193339/10000000, 1191920/10000000, 9503041/10000000]]
private def mB : List (List Rat) :=
  [[ 32404542/10000000, -15371385/10000000, -4985314/10000000],
   [ -9692660/10000000,  18760108/10000000,   415560/10000000],
   [   556434/10000000,  -2040259/10000000, 10572252/10000000]]
private def entry (a b : List (List Rat)) (i j : Nat) : Rat :=
  (List.range 3).foldl (fun acc k => acc + ((a.getD i []).getD k 0) * ((b.getD k []).getD j 0)) 0
private def closeToId (a b : List (List Rat)) : Bool :=
  (List.range 3).all fun i => (List.range 3).all fun j =>
    let e := entry a b i j - (if i = j then 1 else 0)
    decide (-(2 / 1000000 : Rat) ≤ e ∧ e ≤ 2 / 1000000)

/-- xyz -> rgb after rgb -> xyz (and the other way round) is the identity within 2e-6 per entry -/
theorem C18_xyz_matrices_inverse : closeToId mB mF = true ∧ closeToId mF mB = true := by decide +kernel

end GilVerif.Props.C18
