/-
  C18 -- toolbox colour spaces.

  What is proven here (kernel-checked, all inputs):
    * the translated 8-bit ycbcr_601 -> rgb formulas are the documented ones (`C18_ycbcr_closed`), always land in [0,255] (`C18_ycbcr_range`), map the nominal black and
      white (16,128,128) / (235,128,128) to (0,0,0) / (255,255,255), and are monotone in y;
    * over exact rationals the hsv -> rgb case split treats hue 1 as hue 0 (`C18_hue_periodic`), every hue selects one
      of the six handled sectors (`C18_hue_sector`), greys ignore the hue (`C18_grey_ignores_hue`), and every channel of the
      result lies in [0, v] for saturation in [0,1] (`C18_hsv_to_rgb_range`);
    * gray_alpha -> rgba carries the alpha, gray -> rgba sets alpha to max (`C18_gray_alpha`; between any two channel depths:
      `C18_gray_alpha_depths`, `C18_alpha_convert_int`), the premultiplied grey is
      within one unit of g*a/255 (`C18_gray_alpha_premultiplied`);
    * the core 8-bit luminance agrees with the toolbox weights 0.30/0.59/0.11 within 0.52 of a unit (`C18_luminance_agrees`);
    * the two xyz matrices are inverse to each other within 2e-6 (`C18_xyz_matrices_inverse`, over Rat, literals re-read
      from xyz.hpp by the check).
    * rgb -> hsv -> rgb of the code's case split is the identity over exact rationals whenever the 10^-4 threshold tests
      coincide with the exact tests (`C18_hsv_roundtrip_exact_arith`), in particular on every rgb8 pixel
      (`C18_hsv_roundtrip_rgb8_lattice`);
    * the same for hsl (`C18_hsl_roundtrip_exact_arith`, `C18_hsl_roundtrip_rgb8_lattice`, `C18_hsl_grey_ignores_hue`);
  -- OPEN (not proven): the float32 error budget `C18_hsv_roundtrip_u8` / its hsl analogue
  (that the float32 evaluation of the same case split lands on the same 8-bit level): the round trips are
  carried by the exhaustive, bit-exact correspondence over all 2^24 pixels (partial (float)); xyz / lab companding
  (powf) has no model at all (partial (transcendental)).
-/
import GilVerif.Model.C18
import Mathlib.Tactic.Linarith
import Mathlib.Tactic.NormNum
import Mathlib.Tactic.IntervalCases
import Mathlib.Algebra.Order.Floor.Ring
import Mathlib.Data.Rat.Floor
import Mathlib.Tactic.FieldSimp
import Mathlib.Algebra.Order.Field.Basic
import Mathlib.Tactic.Positivity
import Mathlib.Tactic.Ring

namespace GilVerif.Props.C18
open GilVerif.Gen.C18 GilVerif.Model.C18

/-! ## ycbcr_601 -> rgb, 8-bit integer formulas (translated) -/

theorem C18_ycbcr_range (y cb cr : Int) :
    0 ≤ ycbcr601_red y cb cr ∧ ycbcr601_red y cb cr ≤ 255 ∧ 0 ≤ ycbcr601_green y cb cr ∧ ycbcr601_green y cb cr ≤ 255
    ∧ 0 ≤ ycbcr601_blue y cb cr ∧ ycbcr601_blue y cb cr ≤ 255 := by
  unfold ycbcr601_red ycbcr601_green ycbcr601_blue
  simp only []
  omega

/-- the translated formulas are the documented BT.601 integer formulas (298/409/100/208/516, +128, >>8, clamped) -/
theorem C18_ycbcr_closed (y cb cr : Int) :
    ycbcr601_red y cb cr = max 0 (min 255 ((298 * (y - 16) + 409 * (cr - 128) + 128) / 256))
    ∧ ycbcr601_green y cb cr = max 0 (min 255 ((298 * (y - 16) - 100 * (cb - 128) - 208 * (cr - 128) + 128) / 256))
    ∧ ycbcr601_blue y cb cr = max 0 (min 255 ((298 * (y - 16) + 516 * (cb - 128) + 128) / 256)) := by
  have clamp_byte : ∀ a : Int, max 0 (min 255 a) % 256 = max 0 (min 255 a) := fun a => by omega
  refine ⟨?_, ?_, ?_⟩
  · unfold ycbcr601_red; simp only [clamp_byte]; try (congr 3; ring)
  · unfold ycbcr601_green; simp only [clamp_byte]; try (congr 3; ring)
  · unfold ycbcr601_blue; simp only [clamp_byte]; try (congr 3; ring)

/-- nominal black and white of BT.601 studio range -/
theorem C18_ycbcr_black_white :
    ycbcr601ToRgb 16 128 128 = (0, 0, 0) ∧ ycbcr601ToRgb 235 128 128 = (255, 255, 255) := by decide

/-- brighter luma never gives a darker channel -/
theorem C18_ycbcr_monotone_y (y y' cb cr : Int) (h : y ≤ y') :
    ycbcr601_red y cb cr ≤ ycbcr601_red y' cb cr ∧ ycbcr601_green y cb cr ≤ ycbcr601_green y' cb cr
    ∧ ycbcr601_blue y cb cr ≤ ycbcr601_blue y' cb cr := by
  have m (a b : Int) (hab : a ≤ b) : max 0 (min 255 (a / 256)) % 256 ≤ max 0 (min 255 (b / 256)) % 256 := by
    have := Int.ediv_le_ediv (c := 256) (by decide) hab
    generalize a / 256 = p at *; generalize b / 256 = q at *
    omega
  unfold ycbcr601_red ycbcr601_green ycbcr601_blue
  simp only []
  exact ⟨m _ _ (by omega), m _ _ (by omega), m _ _ (by omega)⟩

/-! ## hsv -> rgb over exact rationals: the case split of hsv.hpp -/

/-- every hue selects one of the six sectors the switch handles (the code reduces floor(6h) modulo 6) -/
theorem C18_hue_sector (h : Rat) : sectorQ h < 6 := Nat.mod_lt _ (by decide)

/-- hue is periodic: hue 1 denotes the same colour as hue 0, for every saturation and value -/
theorem C18_hue_periodic (s v : Rat) : hsvToRgbQ 1 s v = hsvToRgbQ 0 s v := by
  unfold hsvToRgbQ
  have e1 : ((1 : Rat) * 6).floor.toNat = 6 := by decide +kernel
  have e0 : ((0 : Rat) * 6).floor.toNat = 0 := by decide +kernel
  by_cases hc : ((if s < 0 then -s else s) < 1 / 10000)
  · simp only [hc, ↓reduceIte]
  · simp only [hc, ↓reduceIte, e1, e0]
    norm_num

/-- greys (saturation 0) ignore the hue -/
theorem C18_grey_ignores_hue (h v : Rat) : hsvToRgbQ h 0 v = ⟨v, v, v⟩ := by
  unfold hsvToRgbQ
  simp

private theorem frac_bounds (x : Rat) (hx : 0 ≤ x) :
    0 ≤ x - ((x.floor.toNat : Nat) : Rat) ∧ x - ((x.floor.toNat : Nat) : Rat) < 1 := by
  have h1 : (⌊x⌋ : Int) = x.floor := rfl
  have f0 : 0 ≤ x.floor := by rw [← h1]; exact Int.floor_nonneg.mpr hx
  have e : ((x.floor.toNat : Nat) : Rat) = ((x.floor : Int) : Rat) := by
    have : ((x.floor.toNat : Nat) : Int) = x.floor := Int.toNat_of_nonneg f0
    exact_mod_cast this
  rw [e, ← h1]
  constructor
  · linarith [Int.floor_le x]
  · linarith [Int.lt_floor_add_one x]

/-- for every hue ≥ 0, saturation in [0,1] and value ≥ 0 all three channels of hsv -> rgb lie in [0, v]
    (so in [0,1] for v ≤ 1): no sector produces an out-of-range channel -/
theorem C18_hsv_to_rgb_range (h s v : Rat) (hh : 0 ≤ h) (hs : 0 ≤ s ∧ s ≤ 1) (hv : 0 ≤ v) :
    (0 ≤ (hsvToRgbQ h s v).r ∧ (hsvToRgbQ h s v).r ≤ v) ∧ (0 ≤ (hsvToRgbQ h s v).g ∧ (hsvToRgbQ h s v).g ≤ v)
    ∧ (0 ≤ (hsvToRgbQ h s v).b ∧ (hsvToRgbQ h s v).b ≤ v) := by
  obtain ⟨f0, f1⟩ := frac_bounds (h * 6) (by linarith)
  unfold hsvToRgbQ
  simp only []
  generalize h * 6 - (((h * 6).floor.toNat : Nat) : Rat) = fr at *
  have p0 : 0 ≤ v * (1 - s) := mul_nonneg hv (by linarith)
  have p1 : v * (1 - s) ≤ v := by nlinarith
  have q0 : 0 ≤ v * (1 - s * fr) := mul_nonneg hv (by nlinarith)
  have q1 : v * (1 - s * fr) ≤ v := by nlinarith [mul_nonneg hs.1 f0]
  have t0 : 0 ≤ v * (1 - s * (1 - fr)) := mul_nonneg hv (by nlinarith)
  have t1 : v * (1 - s * (1 - fr)) ≤ v := by nlinarith [mul_nonneg hs.1 (show 0 ≤ 1 - fr by linarith)]
  by_cases hc : ((if s < 0 then -s else s) < 1 / 10000)
  · simp only [hc, ↓reduceIte]
    exact ⟨⟨hv, le_refl _⟩, ⟨hv, le_refl _⟩, ⟨hv, le_refl _⟩⟩
  · simp only [hc, ↓reduceIte]
    generalize (h * 6).floor.toNat % 6 = i
    obtain _ | _ | _ | _ | _ | i := i <;> simp only [] <;>
      exact ⟨⟨by assumption, by first | assumption | exact le_refl _⟩, ⟨by assumption, by first | assumption | exact le_refl _⟩,
             ⟨by assumption, by first | assumption | exact le_refl _⟩⟩

example : hsvToRgbQ 1 1 1 = ⟨1, 0, 0⟩ ∧ hsvToRgbQ (1/3) 1 1 = ⟨0, 1, 0⟩ ∧ hsvToRgbQ (5/6) (1/2) 1 = ⟨1, 1/2, 1⟩ := by decide +kernel

/-! ## rgb -> hsv -> rgb over exact rationals -/

private theorem floorNat (x : Rat) (n : Nat) (h0 : (n : Rat) ≤ x) (h1 : x < n + 1) : x.floor.toNat = n := by
  have h : (⌊x⌋ : Int) = (n : Int) := by
    rw [Int.floor_eq_iff]; constructor
    · exact_mod_cast h0
    · exact_mod_cast h1
  have h' : x.floor = (n : Int) := h
  rw [h']; simp

private def sectorRgb (mx mn h6 : Rat) (n : Nat) : RgbQ :=
  let f := h6 - n
  let p := mn; let q := mx - (mx - mn) * f; let t := mn + (mx - mn) * f
  match n with
  | 0 => ⟨mx, t, p⟩ | 1 => ⟨q, mx, p⟩ | 2 => ⟨p, mx, t⟩ | 3 => ⟨p, q, mx⟩ | 4 => ⟨t, p, mx⟩ | _ => ⟨mx, p, q⟩

/-- common second half: given the hue h6 = n + f with 0 ≤ f < 1 (as facts), value mx, saturation (mx-mn)/mx -/
private theorem back (mx mn h6 : Rat) (n : Nat) (hn : n < 6) (mpos : 0 < mx) (dpos : 0 < mx - mn)
    (hsat : 1/10000 ≤ (mx - mn) / mx) (h0 : (n : Rat) ≤ h6) (h1 : h6 < n + 1) :
    hsvToRgbQ (h6 / 6) ((mx - mn) / mx) mx = sectorRgb mx mn h6 n := by
  unfold sectorRgb
  unfold hsvToRgbQ
  have spos : 0 < (mx - mn) / mx := div_pos dpos mpos
  have c5 : ¬ ((if (mx - mn) / mx < 0 then -((mx - mn) / mx) else (mx - mn) / mx) < 1 / 10000) := by
    have : ¬ ((mx - mn) / mx < 0) := by linarith
    simp only [this, if_false]; linarith
  have e6 : h6 / 6 * 6 = h6 := by ring
  have fl := floorNat h6 n h0 h1
  simp only [c5, if_false, e6, fl]
  have hm : n % 6 = n := Nat.mod_eq_of_lt hn
  rw [hm]
  have mne : mx ≠ 0 := ne_of_gt mpos
  interval_cases n <;> simp only [RgbQ.mk.injEq, Nat.cast_ofNat, Nat.cast_zero, Nat.cast_one] <;> refine ⟨?_, ?_, ?_⟩ <;> first | trivial | rfl | (field_simp; done) | (field_simp; ring)

private theorem fwd (r g b mx mn : Rat) (emx : max r (max g b) = mx) (emn : min r (min g b) = mn)
    (mpos : 1/10000 ≤ mx) (hsat : 1/10000 ≤ (mx - mn) / mx) :
    rgbToHsvQ r g b =
      ((let h := (if absQ (r - mx) < 1/10000 then (g - b)/(mx - mn) else if g ≥ mx then 2 + (b - r)/(mx - mn) else 4 + (r - g)/(mx - mn)) / 6
        if h < 0 then h + 1 else h), (mx - mn) / mx, mx) := by
  unfold rgbToHsvQ
  have c1 : ¬ (mx < 1/10000) := by linarith
  have c2 : ¬ ((mx - mn) / mx < 1/10000) := by linarith
  simp only [emx, emn, c1, c2, if_false]

private theorem rgbq_ext (a c : RgbQ) (h1 : a.r = c.r) (h2 : a.g = c.g) (h3 : a.b = c.b) : a = c := by
  cases a; cases c; simp only [RgbQ.mk.injEq]; exact ⟨h1, h2, h3⟩

private theorem close_case (r g b mx mn h6 : Rat) (n : Nat) (hn : n < 6)
    (emx : max r (max g b) = mx) (emn : min r (min g b) = mn) (mpos : 1/10000 ≤ mx) (hsat : 1/10000 ≤ (mx - mn) / mx)
    (hh : (let h := (if absQ (r - mx) < 1/10000 then (g - b)/(mx - mn) else if g ≥ mx then 2 + (b - r)/(mx - mn) else 4 + (r - g)/(mx - mn)) / 6
           if h < 0 then h + 1 else h) = h6 / 6)
    (h0 : (n : Rat) ≤ h6) (h1 : h6 < n + 1)
    (hfin : sectorRgb mx mn h6 n = ⟨r, g, b⟩) :
    hsvRoundTripQ r g b = ⟨r, g, b⟩ := by
  have mp : 0 < mx := by linarith
  have dpos : 0 < mx - mn := by
    by_contra h
    have h' : mx - mn ≤ 0 := not_lt.mp h
    have : (mx - mn) / mx ≤ 0 := div_nonpos_of_nonpos_of_nonneg h' (le_of_lt mp)
    linarith
  unfold hsvRoundTripQ
  rw [fwd r g b mx mn emx emn mpos hsat]
  simp only [hh]
  rw [back mx mn h6 n hn mp dpos hsat h0 h1]
  exact hfin

/-- rgb -> hsv -> rgb is the identity in exact arithmetic, for every colour on which the code's 10^-4 threshold
    tests coincide with the exact tests (A: grey, or maximum and saturation at least 10^-4; B: red is the maximum or
    at least 10^-4 below it) -/
theorem C18_hsv_roundtrip_exact_arith (r g b : Rat) (hr : 0 ≤ r) (hg : 0 ≤ g) (hb : 0 ≤ b)
    (A : max r (max g b) = min r (min g b) ∨
         (1/10000 ≤ max r (max g b) ∧ 1/10000 ≤ (max r (max g b) - min r (min g b)) / max r (max g b)))
    (B : r = max r (max g b) ∨ 1/10000 ≤ max r (max g b) - r) :
    hsvRoundTripQ r g b = ⟨r, g, b⟩ := by
  unfold hsvRoundTripQ
  rcases A with hgrey | ⟨mpos, hsat⟩
  · -- grey: all three channels equal
    have h1 : r ≤ max r (max g b) := le_max_left _ _
    have h2 : g ≤ max r (max g b) := le_trans (le_max_left _ _) (le_max_right _ _)
    have h3 : b ≤ max r (max g b) := le_trans (le_max_right _ _) (le_max_right _ _)
    have h4 : min r (min g b) ≤ r := min_le_left _ _
    have h5 : min r (min g b) ≤ g := le_trans (min_le_right _ _) (min_le_left _ _)
    have h6 : min r (min g b) ≤ b := le_trans (min_le_right _ _) (min_le_right _ _)
    have eg : g = r := by linarith
    have eb : b = r := by linarith
    subst eg eb
    unfold rgbToHsvQ
    simp only [max_self, min_self, sub_self, zero_div]
    have e0 : ∀ x : Rat, (if x < 1 / 10000 then (0:Rat) else 0) = 0 := fun x => by split <;> rfl
    simp only [e0]
    norm_num
    unfold hsvToRgbQ
    norm_num
  · -- coloured: which channel is the maximum, and the order of the other two
    have dposGen : ∀ mx mn : Rat, 1/10000 ≤ mx → 1/10000 ≤ (mx - mn) / mx → 0 < mx - mn := by
      intro mx mn h1 h2
      by_contra h
      have h' : mx - mn ≤ 0 := not_lt.mp h
      have : (mx - mn) / mx ≤ 0 := div_nonpos_of_nonpos_of_nonneg h' (by linarith)
      linarith
    have absn : ∀ x : Rat, absQ (x - x) < 1/10000 := by intro x; unfold absQ; norm_num
    have absp : ∀ x mx : Rat, 1/10000 ≤ mx - x → ¬ (absQ (x - mx) < 1/10000) := by
      intro x mx h; unfold absQ
      have : x - mx < 0 := by linarith
      simp only [this, if_true]; linarith
    by_cases hR : g ≤ r ∧ b ≤ r
    · obtain ⟨hgr, hbr⟩ := hR
      rcases le_or_gt b g with hbg | hgb
      · -- C1: b ≤ g ≤ r
        have emx : max r (max g b) = r := by rw [max_eq_left hbg, max_eq_left hgr]
        have emn : min r (min g b) = b := by rw [min_eq_right hbg, min_eq_right hbr]
        rw [emx] at mpos; rw [emx, emn] at hsat
        have dpos := dposGen r b mpos hsat
        have q0 : 0 ≤ (g - b) / (r - b) := div_nonneg (by linarith) (le_of_lt dpos)
        have hh : (let h := (if absQ (r - r) < 1/10000 then (g - b)/(r - b) else if g ≥ r then 2 + (b - r)/(r - b) else 4 + (r - g)/(r - b)) / 6
                   if h < 0 then h + 1 else h) = (g - b) / (r - b) / 6 := by
          have c : ¬ ((g - b) / (r - b) / 6 < 0) := not_lt.mpr (div_nonneg q0 (by norm_num))
          simp only [absn r, if_true, c, if_false]
        rcases lt_or_eq_of_le hgr with hlt | heq
        · have q1 : (g - b) / (r - b) < 1 := by rw [div_lt_one dpos]; linarith
          refine close_case r g b r b ((g - b) / (r - b)) 0 (by norm_num) emx emn mpos hsat hh (by simpa using q0) (by simpa using q1) ?_
          have : r - b ≠ 0 := ne_of_gt dpos
          apply rgbq_ext <;> simp only [sectorRgb] <;> first | rfl | (field_simp; done) | (field_simp; ring)
        · subst heq
          have e1 : (g - b) / (g - b) = 1 := div_self (ne_of_gt dpos)
          refine close_case g g b g b ((g - b) / (g - b)) 1 (by norm_num) emx emn mpos hsat hh (by rw [e1]; norm_num) (by rw [e1]; norm_num) ?_
          rw [e1]
          apply rgbq_ext <;> simp only [sectorRgb] <;> norm_num
      · -- C2: g < b ≤ r
        have emx : max r (max g b) = r := by rw [max_eq_right (le_of_lt hgb), max_eq_left hbr]
        have emn : min r (min g b) = g := by rw [min_eq_left (le_of_lt hgb), min_eq_right hgr]
        rw [emx] at mpos; rw [emx, emn] at hsat
        have dpos := dposGen r g mpos hsat
        have qn : (g - b) / (r - g) < 0 := div_neg_of_neg_of_pos (by linarith) dpos
        have ql : -1 ≤ (g - b) / (r - g) := by rw [le_div_iff₀ dpos]; linarith
        have hh : (let h := (if absQ (r - r) < 1/10000 then (g - b)/(r - g) else if g ≥ r then 2 + (b - r)/(r - g) else 4 + (r - g)/(r - g)) / 6
                   if h < 0 then h + 1 else h) = (6 + (g - b) / (r - g)) / 6 := by
          have c : (g - b) / (r - g) / 6 < 0 := div_neg_of_neg_of_pos qn (by norm_num)
          simp only [absn r, if_true, c]
          ring
        refine close_case r g b r g (6 + (g - b) / (r - g)) 5 (by norm_num) emx emn mpos hsat hh (by norm_num; linarith) (by norm_num; linarith) ?_
        have : r - g ≠ 0 := ne_of_gt dpos
        apply rgbq_ext <;> simp only [sectorRgb] <;> first | rfl | (field_simp; done) | (field_simp; ring)
    · have hR' : r < g ∨ r < b := by
        by_contra h
        have h' := not_or.mp h
        exact hR ⟨not_lt.mp h'.1, not_lt.mp h'.2⟩
      by_cases hG : b ≤ g
      · -- green is the maximum, r < g
        have hrg : r < g := by rcases hR' with h | h <;> linarith
        have emx : max r (max g b) = g := by rw [max_eq_left hG, max_eq_right (le_of_lt hrg)]
        rw [emx] at mpos B
        have hsep : 1/10000 ≤ g - r := by rcases B with h | h <;> [(exfalso; linarith); exact h]
        have ge : g ≥ g := le_refl g
        rcases lt_or_ge b r with hbr | hrb
        · -- C3: b < r < g
          have emn : min r (min g b) = b := by rw [min_eq_right hG, min_eq_right (le_of_lt hbr)]
          rw [emx, emn] at hsat
          have dpos := dposGen g b mpos hsat
          have qn : (b - r) / (g - b) < 0 := div_neg_of_neg_of_pos (by linarith) dpos
          have ql : -1 < (b - r) / (g - b) := by rw [lt_div_iff₀ dpos]; linarith
          have hh : (let h := (if absQ (r - g) < 1/10000 then (g - b)/(g - b) else if g ≥ g then 2 + (b - r)/(g - b) else 4 + (r - g)/(g - b)) / 6
                     if h < 0 then h + 1 else h) = (2 + (b - r) / (g - b)) / 6 := by
            have c : ¬ ((2 + (b - r) / (g - b)) / 6 < 0) := not_lt.mpr (div_nonneg (by linarith) (by norm_num))
            simp only [absp r g hsep, if_false, ge, if_true, c]
          refine close_case r g b g b (2 + (b - r) / (g - b)) 1 (by norm_num) emx emn mpos hsat hh (by norm_num; linarith) (by norm_num; linarith) ?_
          have : g - b ≠ 0 := ne_of_gt dpos
          apply rgbq_ext <;> simp only [sectorRgb] <;> first | rfl | (field_simp; done) | (field_simp; ring)
        · -- C4: r ≤ b ≤ g
          have emn : min r (min g b) = r := by rw [min_eq_right hG, min_eq_left hrb]
          rw [emx, emn] at hsat
          have dpos := dposGen g r mpos hsat
          have q0 : 0 ≤ (b - r) / (g - r) := div_nonneg (by linarith) (le_of_lt dpos)
          have hh : (let h := (if absQ (r - g) < 1/10000 then (g - b)/(g - r) else if g ≥ g then 2 + (b - r)/(g - r) else 4 + (r - g)/(g - r)) / 6
                     if h < 0 then h + 1 else h) = (2 + (b - r) / (g - r)) / 6 := by
            have c : ¬ ((2 + (b - r) / (g - r)) / 6 < 0) := not_lt.mpr (div_nonneg (by linarith) (by norm_num))
            simp only [absp r g hsep, if_false, ge, if_true, c]
          rcases lt_or_eq_of_le hG with hlt | heq
          · have q1 : (b - r) / (g - r) < 1 := by rw [div_lt_one dpos]; linarith
            refine close_case r g b g r (2 + (b - r) / (g - r)) 2 (by norm_num) emx emn mpos hsat hh (by norm_num; linarith) (by norm_num; linarith) ?_
            have : g - r ≠ 0 := ne_of_gt dpos
            apply rgbq_ext <;> simp only [sectorRgb] <;> first | rfl | (field_simp; done) | (field_simp; ring)
          · subst heq
            have e1 : (b - r) / (b - r) = 1 := div_self (ne_of_gt dpos)
            refine close_case r b b b r (2 + (b - r) / (b - r)) 3 (by norm_num) emx emn mpos hsat hh (by rw [e1]; norm_num) (by rw [e1]; norm_num) ?_
            rw [e1]
            apply rgbq_ext <;> simp only [sectorRgb] <;> norm_num
      · -- blue is the maximum, g < b and r < b
        have hgb : g < b := not_le.mp hG
        have hrb : r < b := by rcases hR' with h | h <;> linarith
        have emx : max r (max g b) = b := by rw [max_eq_right (le_of_lt hgb), max_eq_right (le_of_lt hrb)]
        rw [emx] at mpos B
        have hsep : 1/10000 ≤ b - r := by rcases B with h | h <;> [(exfalso; linarith); exact h]
        have ngb : ¬ (g ≥ b) := not_le.mpr hgb
        rcases le_or_gt g r with hgr | hrg
        · -- C5: g ≤ r < b
          have emn : min r (min g b) = g := by rw [min_eq_left (le_of_lt hgb), min_eq_right hgr]
          rw [emx, emn] at hsat
          have dpos := dposGen b g mpos hsat
          have q0 : 0 ≤ (r - g) / (b - g) := div_nonneg (by linarith) (le_of_lt dpos)
          have q1 : (r - g) / (b - g) < 1 := by rw [div_lt_one dpos]; linarith
          have hh : (let h := (if absQ (r - b) < 1/10000 then (g - b)/(b - g) else if g ≥ b then 2 + (b - r)/(b - g) else 4 + (r - g)/(b - g)) / 6
                     if h < 0 then h + 1 else h) = (4 + (r - g) / (b - g)) / 6 := by
            have c : ¬ ((4 + (r - g) / (b - g)) / 6 < 0) := not_lt.mpr (div_nonneg (by linarith) (by norm_num))
            simp only [absp r b hsep, if_false, ngb, c]
          refine close_case r g b b g (4 + (r - g) / (b - g)) 4 (by norm_num) emx emn mpos hsat hh (by norm_num; linarith) (by norm_num; linarith) ?_
          have : b - g ≠ 0 := ne_of_gt dpos
          apply rgbq_ext <;> simp only [sectorRgb] <;> first | rfl | (field_simp; done) | (field_simp; ring)
        · -- C6: r < g < b
          have emn : min r (min g b) = r := by rw [min_eq_left (le_of_lt hgb), min_eq_left (le_of_lt hrg)]
          rw [emx, emn] at hsat
          have dpos := dposGen b r mpos hsat
          have qn : (r - g) / (b - r) < 0 := div_neg_of_neg_of_pos (by linarith) dpos
          have ql : -1 < (r - g) / (b - r) := by rw [lt_div_iff₀ dpos]; linarith
          have hh : (let h := (if absQ (r - b) < 1/10000 then (g - b)/(b - r) else if g ≥ b then 2 + (b - r)/(b - r) else 4 + (r - g)/(b - r)) / 6
                     if h < 0 then h + 1 else h) = (4 + (r - g) / (b - r)) / 6 := by
            have c : ¬ ((4 + (r - g) / (b - r)) / 6 < 0) := not_lt.mpr (div_nonneg (by linarith) (by norm_num))
            simp only [absp r b hsep, if_false, ngb, c]
          refine close_case r g b b r (4 + (r - g) / (b - r)) 3 (by norm_num) emx emn mpos hsat hh (by norm_num; linarith) (by norm_num; linarith) ?_
          have : b - r ≠ 0 := ne_of_gt dpos
          apply rgbq_ext <;> simp only [sectorRgb] <;> first | rfl | (field_simp; done) | (field_simp; ring)

/-- for EVERY rgb8 pixel (i,j,k), read as the exact rationals (i/255, j/255, k/255) that channel_convert<float32_t>
    approximates, rgb -> hsv -> rgb of the code's case split is the identity in exact arithmetic -/
theorem C18_hsv_roundtrip_rgb8_lattice (i j k : Nat) (hi : i ≤ 255) (hj : j ≤ 255) (hk : k ≤ 255) :
    hsvRoundTripQ (i/255) (j/255) (k/255) = ⟨i/255, j/255, k/255⟩ := by
  have hM : max ((i:ℚ)/255) (max ((j:ℚ)/255) ((k:ℚ)/255)) = ((max i (max j k) : ℕ) : ℚ) / 255 := by
    push_cast; rw [max_div_div_right (by norm_num), max_div_div_right (by norm_num)]
  have hm : min ((i:ℚ)/255) (min ((j:ℚ)/255) ((k:ℚ)/255)) = ((min i (min j k) : ℕ) : ℚ) / 255 := by
    push_cast; rw [min_div_div_right (by norm_num), min_div_div_right (by norm_num)]
  have hmM : min i (min j k) ≤ max i (max j k) := le_trans (min_le_left _ _) (le_max_left _ _)
  have hMle : max i (max j k) ≤ 255 := max_le hi (max_le hj hk)
  have hiM : i ≤ max i (max j k) := le_max_left _ _
  apply C18_hsv_roundtrip_exact_arith
  · positivity
  · positivity
  · positivity
  · rw [hM, hm]
    generalize max i (max j k) = M at *
    generalize min i (min j k) = m at *
    by_cases h : M = m
    · left; rw [h]
    · right
      have h1 : m + 1 ≤ M := by omega
      have hMq : (1:ℚ) ≤ (M:ℚ) := by exact_mod_cast (by omega : 1 ≤ M)
      have hmq : (m:ℚ) + 1 ≤ (M:ℚ) := by exact_mod_cast h1
      have hM255 : (M:ℚ) ≤ 255 := by exact_mod_cast hMle
      constructor
      · rw [le_div_iff₀ (by norm_num)]; linarith
      · have e : ((M:ℚ) / 255 - (m:ℚ) / 255) / ((M:ℚ) / 255) = ((M:ℚ) - m) / M := by
          have : (M:ℚ) ≠ 0 := by linarith
          field_simp
        rw [e, le_div_iff₀ (by linarith)]; linarith
  · rw [hM]
    generalize max i (max j k) = M at *
    by_cases h : i = M
    · left; rw [h]
    · right
      have h1 : i + 1 ≤ M := by omega
      have : (i:ℚ) + 1 ≤ (M:ℚ) := by exact_mod_cast h1
      rw [← sub_div, le_div_iff₀ (by norm_num)]; linarith

/-- concrete instances, e.g. (10,200,30)/255 and the grey (77,77,77)/255 -/
example : hsvRoundTripQ (10/255) (200/255) (30/255) = ⟨10/255, 200/255, 30/255⟩ ∧ hsvRoundTripQ (77/255) (77/255) (77/255) = ⟨77/255, 77/255, 77/255⟩ := by
  decide +kernel

/-! ## rgb -> hsl -> rgb over exact rationals -/

/-- saturation and lightness of a coloured pixel reproduce t2 = max, t1 = min -/
private theorem hsl_t (mx mn : Rat) (h0 : 0 ≤ mn) (hd : 1/1000 ≤ mx - mn) (h1 : mx ≤ 1) (hue : Rat) :
    hslToRgbQ hue (let sat := if (mn + mx) / 2 < 1/2 then (mx - mn) / (mx + mn) else (mx - mn) / (2 - (mx + mn)); if sat > 1 then 1 else sat) ((mn + mx) / 2)
      = ⟨hslChanQ mn mx (let tr := hue + 1/3; if tr > 1 then tr - 1 else tr), hslChanQ mn mx hue,
         hslChanQ mn mx (let tb := hue - 1/3; if tb < 0 then tb + 1 else tb)⟩ := by
  have hsum : 0 < mx + mn := by linarith
  have hsum2 : 0 < 2 - (mx + mn) := by linarith
  by_cases hl : (mn + mx) / 2 < 1/2
  · have s1 : (mx - mn) / (mx + mn) ≤ 1 := by rw [div_le_one hsum]; linarith
    have s0 : 1/10000 ≤ (mx - mn) / (mx + mn) := by rw [le_div_iff₀ hsum]; nlinarith
    have c : ¬ ((mx - mn) / (mx + mn) > 1) := not_lt.mpr s1
    simp only [hl, if_true, c, if_false]
    unfold hslToRgbQ
    have ca : ¬ (absQ ((mx - mn) / (mx + mn)) < 1/10000) := by
      unfold absQ; have : ¬ ((mx - mn) / (mx + mn) < 0) := by linarith
      simp only [this, if_false]; linarith
    simp only [ca, if_false, hl, if_true]
    have e2 : (mn + mx) / 2 * (1 + (mx - mn) / (mx + mn)) = mx := by field_simp; ring
    have e1 : 2 * ((mn + mx) / 2) - mx = mn := by ring
    simp only [e2, e1]
  · have s1 : (mx - mn) / (2 - (mx + mn)) ≤ 1 := by rw [div_le_one hsum2]; linarith
    have s0 : 1/10000 ≤ (mx - mn) / (2 - (mx + mn)) := by rw [le_div_iff₀ hsum2]; nlinarith
    have c : ¬ ((mx - mn) / (2 - (mx + mn)) > 1) := not_lt.mpr s1
    simp only [hl, if_false, c]
    unfold hslToRgbQ
    have ca : ¬ (absQ ((mx - mn) / (2 - (mx + mn))) < 1/10000) := by
      unfold absQ; have : ¬ ((mx - mn) / (2 - (mx + mn)) < 0) := by linarith
      simp only [this, if_false]; linarith
    simp only [ca, if_false, hl]
    have e2 : (mn + mx) / 2 + (mx - mn) / (2 - (mx + mn)) - (mn + mx) / 2 * ((mx - mn) / (2 - (mx + mn))) = mx := by
      have : 2 - (mx + mn) ≠ 0 := ne_of_gt hsum2
      field_simp; ring
    have e1 : 2 * ((mn + mx) / 2) - mx = mn := by ring
    simp only [e2, e1]

private theorem hsl_fwd (r g b mx mn : Rat) (emx : max r (max g b) = mx) (emn : min r (min g b) = mn) (hd : 1/1000 ≤ mx - mn) :
    rgbToHslQ r g b =
      ((let h := (if absQ (mx - r) < 1/10000 then (g - b)/(mx - mn) else if absQ (mx - g) < 1/10000 then 2 + (b - r)/(mx - mn) else 4 + (r - g)/(mx - mn)) / 6
        if h < 0 then h + 1 else h),
       (let sat := if (mn + mx) / 2 < 1/2 then (mx - mn) / (mx + mn) else (mx - mn) / (2 - (mx + mn)); if sat > 1 then 1 else sat),
       (mn + mx) / 2) := by
  unfold rgbToHslQ
  have c : ¬ (absQ (mn - mx) < 1/1000) := by
    unfold absQ; have : mn - mx < 0 := by linarith
    simp only [this, if_true]; linarith
  simp only [emx, emn, c, if_false]

/-- one coloured case: hue known explicitly, channels evaluated -/
private theorem hsl_close (r g b mx mn hue : Rat) (emx : max r (max g b) = mx) (emn : min r (min g b) = mn)
    (h0 : 0 ≤ mn) (hd : 1/1000 ≤ mx - mn) (h1 : mx ≤ 1)
    (hh : (let h := (if absQ (mx - r) < 1/10000 then (g - b)/(mx - mn) else if absQ (mx - g) < 1/10000 then 2 + (b - r)/(mx - mn) else 4 + (r - g)/(mx - mn)) / 6
           if h < 0 then h + 1 else h) = hue)
    (cr : hslChanQ mn mx (let tr := hue + 1/3; if tr > 1 then tr - 1 else tr) = r)
    (cg : hslChanQ mn mx hue = g)
    (cb : hslChanQ mn mx (let tb := hue - 1/3; if tb < 0 then tb + 1 else tb) = b) :
    hslRoundTripQ r g b = ⟨r, g, b⟩ := by
  unfold hslRoundTripQ
  rw [hsl_fwd r g b mx mn emx emn hd]
  simp only [hh]
  rw [hsl_t mx mn h0 hd h1 hue, cr, cg, cb]

local macro "chan_tac" : tactic =>
  `(tactic| (unfold hslChanQ; (try dsimp only); split_ifs <;> first | linarith | nlinarith))

set_option maxHeartbeats 4000000 in
/-- rgb -> hsl -> rgb of the code's case split (`rgbToHslQ`, `hslToRgbQ`: same branches, same 10^-3 / 10^-4 thresholds, the saturation
    clamp, the three-way hue reconstruction) is the identity in exact arithmetic for all r, g, b in [0,1] on which the threshold tests
    coincide with the exact tests (A: grey or maximum - minimum at least 10^-3; B, C: red / green is the maximum or at least 10^-4 below it) -/
theorem C18_hsl_roundtrip_exact_arith (r g b : Rat) (hr : 0 ≤ r ∧ r ≤ 1) (hg : 0 ≤ g ∧ g ≤ 1) (hb : 0 ≤ b ∧ b ≤ 1)
    (A : max r (max g b) = min r (min g b) ∨ 1/1000 ≤ max r (max g b) - min r (min g b))
    (B : r = max r (max g b) ∨ 1/10000 ≤ max r (max g b) - r)
    (C : g = max r (max g b) ∨ 1/10000 ≤ max r (max g b) - g) :
    hslRoundTripQ r g b = ⟨r, g, b⟩ := by
  rcases A with hgrey | hd
  · have h1 : r ≤ max r (max g b) := le_max_left _ _
    have h2 : g ≤ max r (max g b) := le_trans (le_max_left _ _) (le_max_right _ _)
    have h3 : b ≤ max r (max g b) := le_trans (le_max_right _ _) (le_max_right _ _)
    have h4 : min r (min g b) ≤ r := min_le_left _ _
    have h5 : min r (min g b) ≤ g := le_trans (min_le_right _ _) (min_le_left _ _)
    have h6 : min r (min g b) ≤ b := le_trans (min_le_right _ _) (min_le_right _ _)
    have eg : g = r := by linarith
    have eb : b = r := by linarith
    subst eg eb
    unfold hslRoundTripQ rgbToHslQ
    simp only [max_self, min_self, sub_self]
    have c : absQ (0 : Rat) < 1/1000 := by unfold absQ; norm_num
    simp only [c, if_true]
    unfold hslToRgbQ
    have c2 : absQ (0 : Rat) < 1/10000 := by unfold absQ; norm_num
    simp only [c2, if_true]
  · have absn : ∀ x : Rat, absQ (x - x) < 1/10000 := by intro x; unfold absQ; norm_num
    have absp : ∀ x mx : Rat, 1/10000 ≤ mx - x → ¬ (absQ (mx - x) < 1/10000) := by
      intro x mx h; unfold absQ
      have : ¬ (mx - x < 0) := by linarith
      simp only [this, if_false]; linarith
    by_cases hR : g ≤ r ∧ b ≤ r
    · obtain ⟨hgr, hbr⟩ := hR
      rcases le_or_gt b g with hbg | hgb
      · -- C1: b ≤ g ≤ r
        have emx : max r (max g b) = r := by rw [max_eq_left hbg, max_eq_left hgr]
        have emn : min r (min g b) = b := by rw [min_eq_right hbg, min_eq_right hbr]
        rw [emx, emn] at hd
        have dpos : 0 < r - b := by linarith
        have q0 : 0 ≤ (g - b) / (r - b) := div_nonneg (by linarith) (le_of_lt dpos)
        have hq : (g - b) / (r - b) * (r - b) = g - b := div_mul_cancel₀ _ (ne_of_gt dpos)
        have hh : (let h := (if absQ (r - r) < 1/10000 then (g - b)/(r - b) else if absQ (r - g) < 1/10000 then 2 + (b - r)/(r - b) else 4 + (r - g)/(r - b)) / 6
                   if h < 0 then h + 1 else h) = (g - b) / (r - b) / 6 := by
          have c : ¬ ((g - b) / (r - b) / 6 < 0) := not_lt.mpr (div_nonneg q0 (by norm_num))
          simp only [absn r, if_true, c, if_false]
        rcases lt_or_eq_of_le hgr with hlt | heq
        · have q1 : (g - b) / (r - b) < 1 := by rw [div_lt_one dpos]; linarith
          refine hsl_close r g b r b _ emx emn hb.1 hd hr.2 hh ?_ ?_ ?_ <;>
            (generalize (g - b) / (r - b) = q at *; chan_tac)
        · subst heq
          have e1 : (g - b) / (g - b) = 1 := div_self (ne_of_gt dpos)
          refine hsl_close g g b g b _ emx emn hb.1 hd hg.2 hh ?_ ?_ ?_ <;> (rw [e1]; unfold hslChanQ; norm_num) <;> linarith
      · -- C2: g < b ≤ r
        have emx : max r (max g b) = r := by rw [max_eq_right (le_of_lt hgb), max_eq_left hbr]
        have emn : min r (min g b) = g := by rw [min_eq_left (le_of_lt hgb), min_eq_right hgr]
        rw [emx, emn] at hd
        have dpos : 0 < r - g := by linarith
        have qn : (g - b) / (r - g) < 0 := div_neg_of_neg_of_pos (by linarith) dpos
        have ql : -1 ≤ (g - b) / (r - g) := by rw [le_div_iff₀ dpos]; linarith
        have hq : (g - b) / (r - g) * (r - g) = g - b := div_mul_cancel₀ _ (ne_of_gt dpos)
        have hh : (let h := (if absQ (r - r) < 1/10000 then (g - b)/(r - g) else if absQ (r - g) < 1/10000 then 2 + (b - r)/(r - g) else 4 + (r - g)/(r - g)) / 6
                   if h < 0 then h + 1 else h) = (g - b) / (r - g) / 6 + 1 := by
          have c : (g - b) / (r - g) / 6 < 0 := div_neg_of_neg_of_pos qn (by norm_num)
          simp only [absn r, if_true, c]
        refine hsl_close r g b r g _ emx emn hg.1 hd hr.2 hh ?_ ?_ ?_ <;>
          (generalize (g - b) / (r - g) = q at *; chan_tac)
    · have hR' : r < g ∨ r < b := by
        by_contra h
        have h' := not_or.mp h
        exact hR ⟨not_lt.mp h'.1, not_lt.mp h'.2⟩
      by_cases hG : b ≤ g
      · have hrg : r < g := by rcases hR' with h | h <;> linarith
        have emx : max r (max g b) = g := by rw [max_eq_left hG, max_eq_right (le_of_lt hrg)]
        rw [emx] at B hd
        have hsep : 1/10000 ≤ g - r := by rcases B with h | h <;> [(exfalso; linarith); exact h]
        rcases lt_or_ge b r with hbr | hrb
        · -- C3: b < r < g
          have emn : min r (min g b) = b := by rw [min_eq_right hG, min_eq_right (le_of_lt hbr)]
          rw [emn] at hd
          have dpos : 0 < g - b := by linarith
          have qn : (b - r) / (g - b) < 0 := div_neg_of_neg_of_pos (by linarith) dpos
          have ql : -1 < (b - r) / (g - b) := by rw [lt_div_iff₀ dpos]; linarith
          have hq : (b - r) / (g - b) * (g - b) = b - r := div_mul_cancel₀ _ (ne_of_gt dpos)
          have hh : (let h := (if absQ (g - r) < 1/10000 then (g - b)/(g - b) else if absQ (g - g) < 1/10000 then 2 + (b - r)/(g - b) else 4 + (r - g)/(g - b)) / 6
                     if h < 0 then h + 1 else h) = (2 + (b - r) / (g - b)) / 6 := by
            have c : ¬ ((2 + (b - r) / (g - b)) / 6 < 0) := not_lt.mpr (div_nonneg (by linarith) (by norm_num))
            rw [if_neg (absp r g hsep), if_pos (absn g)]
            simp only [c, if_false]
          refine hsl_close r g b g b _ emx emn hb.1 hd hg.2 hh ?_ ?_ ?_ <;>
            (generalize (b - r) / (g - b) = q at *; chan_tac)
        · -- C4: r ≤ b ≤ g
          have emn : min r (min g b) = r := by rw [min_eq_right hG, min_eq_left hrb]
          rw [emn] at hd
          have dpos : 0 < g - r := by linarith
          have q0 : 0 ≤ (b - r) / (g - r) := div_nonneg (by linarith) (le_of_lt dpos)
          have hq : (b - r) / (g - r) * (g - r) = b - r := div_mul_cancel₀ _ (ne_of_gt dpos)
          have hh : (let h := (if absQ (g - r) < 1/10000 then (g - b)/(g - r) else if absQ (g - g) < 1/10000 then 2 + (b - r)/(g - r) else 4 + (r - g)/(g - r)) / 6
                     if h < 0 then h + 1 else h) = (2 + (b - r) / (g - r)) / 6 := by
            have c : ¬ ((2 + (b - r) / (g - r)) / 6 < 0) := not_lt.mpr (div_nonneg (by linarith) (by norm_num))
            rw [if_neg (absp r g hsep), if_pos (absn g)]
            simp only [c, if_false]
          rcases lt_or_eq_of_le hG with hlt | heq
          · have q1 : (b - r) / (g - r) < 1 := by rw [div_lt_one dpos]; linarith
            refine hsl_close r g b g r _ emx emn hr.1 hd hg.2 hh ?_ ?_ ?_ <;>
              (generalize (b - r) / (g - r) = q at *; chan_tac)
          · subst heq
            have e1 : (b - r) / (b - r) = 1 := div_self (ne_of_gt dpos)
            refine hsl_close r b b b r _ emx emn hr.1 hd hb.2 hh ?_ ?_ ?_ <;> (rw [e1]; unfold hslChanQ; norm_num) <;> linarith
      · have hgb : g < b := not_le.mp hG
        have hrb : r < b := by rcases hR' with h | h <;> linarith
        have emx : max r (max g b) = b := by rw [max_eq_right (le_of_lt hgb), max_eq_right (le_of_lt hrb)]
        rw [emx] at B C hd
        have hsepr : 1/10000 ≤ b - r := by rcases B with h | h <;> [(exfalso; linarith); exact h]
        have hsepg : 1/10000 ≤ b - g := by rcases C with h | h <;> [(exfalso; linarith); exact h]
        rcases le_or_gt g r with hgr | hrg
        · -- C5: g ≤ r < b
          have emn : min r (min g b) = g := by rw [min_eq_left (le_of_lt hgb), min_eq_right hgr]
          rw [emn] at hd
          have dpos : 0 < b - g := by linarith
          have q0 : 0 ≤ (r - g) / (b - g) := div_nonneg (by linarith) (le_of_lt dpos)
          have q1 : (r - g) / (b - g) < 1 := by rw [div_lt_one dpos]; linarith
          have hq : (r - g) / (b - g) * (b - g) = r - g := div_mul_cancel₀ _ (ne_of_gt dpos)
          have hh : (let h := (if absQ (b - r) < 1/10000 then (g - b)/(b - g) else if absQ (b - g) < 1/10000 then 2 + (b - r)/(b - g) else 4 + (r - g)/(b - g)) / 6
                     if h < 0 then h + 1 else h) = (4 + (r - g) / (b - g)) / 6 := by
            have c : ¬ ((4 + (r - g) / (b - g)) / 6 < 0) := not_lt.mpr (div_nonneg (by linarith) (by norm_num))
            rw [if_neg (absp r b hsepr), if_neg (absp g b hsepg)]
            simp only [c, if_false]
          refine hsl_close r g b b g _ emx emn hg.1 hd hb.2 hh ?_ ?_ ?_ <;>
            (generalize (r - g) / (b - g) = q at *; chan_tac)
        · -- C6: r < g < b
          have emn : min r (min g b) = r := by rw [min_eq_left (le_of_lt hgb), min_eq_left (le_of_lt hrg)]
          rw [emn] at hd
          have dpos : 0 < b - r := by linarith
          have qn : (r - g) / (b - r) < 0 := div_neg_of_neg_of_pos (by linarith) dpos
          have ql : -1 < (r - g) / (b - r) := by rw [lt_div_iff₀ dpos]; linarith
          have hq : (r - g) / (b - r) * (b - r) = r - g := div_mul_cancel₀ _ (ne_of_gt dpos)
          have hh : (let h := (if absQ (b - r) < 1/10000 then (g - b)/(b - r) else if absQ (b - g) < 1/10000 then 2 + (b - r)/(b - r) else 4 + (r - g)/(b - r)) / 6
                     if h < 0 then h + 1 else h) = (4 + (r - g) / (b - r)) / 6 := by
            have c : ¬ ((4 + (r - g) / (b - r)) / 6 < 0) := not_lt.mpr (div_nonneg (by linarith) (by norm_num))
            rw [if_neg (absp r b hsepr), if_neg (absp g b hsepg)]
            simp only [c, if_false]
          refine hsl_close r g b b r _ emx emn hr.1 hd hb.2 hh ?_ ?_ ?_ <;>
            (generalize (r - g) / (b - r) = q at *; chan_tac)

/-- for EVERY rgb8 pixel (i,j,k), read as (i/255, j/255, k/255): rgb -> hsl -> rgb of the code's case split is the identity in exact arithmetic -/
theorem C18_hsl_roundtrip_rgb8_lattice (i j k : Nat) (hi : i ≤ 255) (hj : j ≤ 255) (hk : k ≤ 255) :
    hslRoundTripQ (i/255) (j/255) (k/255) = ⟨i/255, j/255, k/255⟩ := by
  have hM : max ((i:ℚ)/255) (max ((j:ℚ)/255) ((k:ℚ)/255)) = ((max i (max j k) : ℕ) : ℚ) / 255 := by
    push_cast; rw [max_div_div_right (by norm_num), max_div_div_right (by norm_num)]
  have hm : min ((i:ℚ)/255) (min ((j:ℚ)/255) ((k:ℚ)/255)) = ((min i (min j k) : ℕ) : ℚ) / 255 := by
    push_cast; rw [min_div_div_right (by norm_num), min_div_div_right (by norm_num)]
  have hmM : min i (min j k) ≤ max i (max j k) := le_trans (min_le_left _ _) (le_max_left _ _)
  have hiM : i ≤ max i (max j k) := le_max_left _ _
  have hjM : j ≤ max i (max j k) := le_trans (le_max_left _ _) (le_max_right _ _)
  have unit : ∀ n : Nat, n ≤ 255 → (0:ℚ) ≤ (n:ℚ)/255 ∧ (n:ℚ)/255 ≤ 1 := by
    intro n hn
    have : (n:ℚ) ≤ 255 := by exact_mod_cast hn
    exact ⟨by positivity, by rw [div_le_one (by norm_num)]; exact this⟩
  have sep : ∀ n M : Nat, n ≤ M → ((n:ℚ)/255 = (M:ℚ)/255 ∨ 1/10000 ≤ (M:ℚ)/255 - (n:ℚ)/255) := by
    intro n M hnM
    by_cases h : n = M
    · left; rw [h]
    · right
      have h1 : n + 1 ≤ M := by omega
      have : (n:ℚ) + 1 ≤ (M:ℚ) := by exact_mod_cast h1
      rw [← sub_div, le_div_iff₀ (by norm_num)]; linarith
  apply C18_hsl_roundtrip_exact_arith _ _ _ (unit i hi) (unit j hj) (unit k hk)
  · rw [hM, hm]
    generalize max i (max j k) = M at *
    generalize min i (min j k) = m at *
    by_cases h : M = m
    · left; rw [h]
    · right
      have h1 : m + 1 ≤ M := by omega
      have : (m:ℚ) + 1 ≤ (M:ℚ) := by exact_mod_cast h1
      rw [← sub_div, le_div_iff₀ (by norm_num)]; linarith
  · rw [hM]; exact sep i _ hiM
  · rw [hM]; exact sep j _ hjM

/-- hsl greys (saturation 0) ignore the hue -/
theorem C18_hsl_grey_ignores_hue (h l : Rat) : hslToRgbQ h 0 l = ⟨l, l, l⟩ := by
  unfold hslToRgbQ absQ; norm_num

example : hslRoundTripQ (10/255) (200/255) (30/255) = ⟨10/255, 200/255, 30/255⟩ := by decide +kernel

/-! ## gray_alpha, gray -> rgba -/

theorem C18_gray_alpha (g a : Int) :
    grayAlphaToRgba8 g a = [g, g, g, a] ∧ grayToRgba8 g = [g, g, g, 255] := ⟨rfl, rfl⟩

/-- gray_alpha -> rgba between ANY two channel depths (8, 16, 32f): the three colour channels are channel_convert of the gray
    and the alpha is channel_convert of the SOURCE alpha into the DESTINATION type (alpha carried over); gray -> rgba sets
    alpha to the destination maximum -/
theorem C18_gray_alpha_depths (s t : Depth) (g a : Int) :
    grayAlphaToRgba s t g a = [chConv s t g, chConv s t g, chConv s t g, chConv s t a]
    ∧ grayToRgba s t g = [chConv s t g, chConv s t g, chConv s t g, t.maxV] := ⟨rfl, rfl⟩

/-- what "carried over" means on the integer depth changes (translated kernels): 8 -> 16 multiplies by 257 (255 -> 65535),
    16 -> 8 is round-to-nearest division by 257 (65535 -> 255, 0x8000 -> 128), always in range -/
theorem C18_alpha_convert_int (a : Int) (h0 : 0 ≤ a) :
    (a ≤ 255 → chConv .d8 .d16 a = 257 * a)
    ∧ (a ≤ 65535 → chConv .d16 .d8 a = (a + 128) / 257 ∧ 0 ≤ chConv .d16 .d8 a ∧ chConv .d16 .d8 a ≤ 255)
    ∧ chConv .d8 .d16 255 = 65535 ∧ chConv .d16 .d8 65535 = 255 ∧ chConv .d16 .d8 32768 = 128 := by
  refine ⟨?_, ?_, by decide, by decide, by decide⟩
  · intro h; show up_div_B8_B16 a 255 65535 = 257 * a
    unfold up_div_B8_B16; simp only []; omega
  · intro h; show down_div_B16_B8 a 65535 255 = (a + 128) / 257 ∧ 0 ≤ down_div_B16_B8 a 65535 255 ∧ down_div_B16_B8 a 65535 255 ≤ 255
    unfold down_div_B16_B8; simp only []; omega

/-- gray_alpha -> rgb / gray premultiplies: within half a unit of g*a/255, never above the alpha -/
theorem C18_gray_alpha_premultiplied (g a : Int) (hg : 0 ≤ g ∧ g ≤ 255) (ha : 0 ≤ a ∧ a ≤ 255) :
    -255 < 255 * mul8 g a - g * a ∧ 255 * mul8 g a - g * a < 255 ∧ 0 ≤ mul8 g a ∧ mul8 g a ≤ a := by
  have h0 : 0 ≤ g * a := Int.mul_nonneg hg.1 ha.1
  have h1 : g * a ≤ 255 * a := Int.mul_le_mul_of_nonneg_right hg.2 ha.1
  unfold mul8 div255
  generalize g * a = p at *
  simp only []
  omega

/-! ## luminance -/

/-- the core fixed-point luminance is within 0.52 of a unit of the toolbox weights 0.30 r + 0.59 g + 0.11 b -/
theorem C18_luminance_agrees (r g b : Int) (hr : 0 ≤ r ∧ r ≤ 255) (hg : 0 ≤ g ∧ g ≤ 255) (hb : 0 ≤ b ∧ b ≤ 255) :
    -52 ≤ 100 * lum8 r g b - (30 * r + 59 * g + 11 * b) ∧ 100 * lum8 r g b - (30 * r + 59 * g + 11 * b) ≤ 52 := by
  unfold lum8
  simp (disch := omega) only [Int.emod_eq_of_lt]
  omega

/-! ## xyz matrices (literals of xyz.hpp as exact decimals) -/

/-- rows of rgb -> xyz and of xyz -> rgb -/
private def mF : List (List Rat) :=
  [[4124564/10000000, 3575761/10000000, 1804375/10000000],
   [2126729/10000000, 7151522/10000000,  721750/10000000],
   [ 193339/10000000, 1191920/10000000, 9503041/10000000]]
private def mB : List (List Rat) :=
  [[ 32404542/10000000, -15371385/10000000, -4985314/10000000],
   [ -9692660/10000000,  18760108/10000000,   415560/10000000],
   [   556434/10000000,  -2040259/10000000, 10572252/10000000]]
private def entry (a b : List (List Rat)) (i j : Nat) : Rat :=
  (List.range 3).foldl (fun acc k => acc + ((a.getD i []).getD k 0) * ((b.getD k []).getD j 0)) 0
private def closeToId (a b : List (List Rat)) : Bool :=
  (List.range 3).all fun i => (List.range 3).all fun j =>
    let e := entry a b i j - (if i = j then 1 else 0)
    decide (-(2 / 1000000 : Rat) ≤ e ∧ e ≤ 2 / 1000000)

/-- xyz -> rgb after rgb -> xyz (and the other way round) is the identity within 2e-6 per entry -/
theorem C18_xyz_matrices_inverse : closeToId mB mF = true ∧ closeToId mF mB = true := by decide +kernel

end GilVerif.Props.C18
