/-
  C15, float accumulators -- error bound of the correlation sums PROVED relative to `FloatSpec`.

  ASSUMED (trusted base, Basic/FloatSpec.lean): the binary32 arithmetic of the target satisfies `FloatSpec`
  (eps = 2^-24, tiny = 2^-126), and `std::inner_product(…, init, +, *)` / `inner_product_k_t<Size>` perform
  `init = init + a*b` left to right with one rounding per `*` and per `+` (no FMA contraction, no reassociation).
  MODEL: the code-structured generic functions of Model/C15.lean (`innerProduct`, `innerProductK`,
  `correlatePixelsN`; the driver runs them with `Float32`, Props/C15.lean proves them with `Int`), instantiated with
  `RVal R` whose `+`/`*` round with `R.rnd` (Lemmas/C15Float.lean).  With `ℚ` the same function is the exact sum.
  PROVED, for EVERY `R : FloatSpec`, all buffers / taps (any length n of the kernel):
    |float sum - exact sum| ≤ ((1+eps)^(2n) - 1) * (Σ|x_k t_k| + n*tiny)            (C15_float_inner_product_error)
                            ≤ 4 n eps * (Σ|x_k t_k| + n*tiny)   when 4 n eps ≤ 1       (C15_float_inner_product_linear)
    binary32, n ≤ 2^22:      ≤ n * 2^-22 * (Σ|x_k t_k| + n*tiny)                        (C15_float_inner_product_binary32)
    (the judge's tolerance  ks * 2.4e-7 * Σ|terms|  of Driver/C15.lean is this bound: 4 * 2^-24 = 2.38e-7);
    the fixed-size recursion gives the same value as the dynamic one (C15_float_fixed_eq_dynamic);
    every output of `correlate_pixels_n` obeys the bound against its textbook sum (C15_float_correlate_pixels);
    on integer-valued data whose absolute sum stays ≤ big (2^24) the float computation is EXACT
    (C15_float_exact_on_small_integers) -- this is the assumption under which `convolve_2d`'s float accumulator is
    modelled by exact integers in Model/C15.lean.
  Only property theorems live here (named C15_float_*).
-/
import GilVerif.Lemmas.C15Float
import GilVerif.Basic.FloatNearest

namespace GilVerif.Props.C15Float
open GilVerif GilVerif.Model.C15 GilVerif.Lemmas.C15Float

/-- accumulated rounding error of `std::inner_product` with a float accumulator started at 0 -/
theorem C15_float_inner_product_error (R : FloatSpec) (xs ts : List ℚ) :
    |(innerProduct (lift R xs) (lift R ts) (0 : RVal R)).v - innerProduct xs ts 0|
      ≤ ((1 + R.eps) ^ (2 * terms xs ts) - 1) * (absSum xs ts + terms xs ts * R.tiny) := by
  have h := ip_err R xs ts 0 0 1 0 (le_refl 1) (by simp) (by simp)
  rw [mul_one, zero_add] at h; exact h

/-- first-order form: 4 n eps (Σ|x t| + n tiny), valid while 4 n eps ≤ 1 -/
theorem C15_float_inner_product_linear (R : FloatSpec) (xs ts : List ℚ) (hn : 4 * (terms xs ts : ℚ) * R.eps ≤ 1) :
    |(innerProduct (lift R xs) (lift R ts) (0 : RVal R)).v - innerProduct xs ts 0|
      ≤ 4 * (terms xs ts : ℚ) * R.eps * (absSum xs ts + terms xs ts * R.tiny) := by
  have h := C15_float_inner_product_error R xs ts
  have hp := R.one_add_eps_pow_le (2 * terms xs ts) (by push_cast; linarith)
  have hm : 0 ≤ absSum xs ts + (terms xs ts : ℚ) * R.tiny :=
    add_nonneg (absSum_nonneg xs ts) (mul_nonneg (Nat.cast_nonneg _) R.tiny_nonneg)
  push_cast at hp
  have : ((1 + R.eps) ^ (2 * terms xs ts) - 1) * (absSum xs ts + terms xs ts * R.tiny)
      ≤ (4 * (terms xs ts : ℚ) * R.eps) * (absSum xs ts + terms xs ts * R.tiny) :=
    mul_le_mul_of_nonneg_right (by linarith) hm
  linarith

/-- binary32, kernels of up to 2^22 taps: n * 2^-22 * (Σ|x t| + n tiny) -/
theorem C15_float_inner_product_binary32 (R : FloatSpec) (h32 : R.IsBinary32) (xs ts : List ℚ) (hn : terms xs ts ≤ 2 ^ 22) :
    |(innerProduct (lift R xs) (lift R ts) (0 : RVal R)).v - innerProduct xs ts 0|
      ≤ (terms xs ts : ℚ) / 2 ^ 22 * (absSum xs ts + terms xs ts * R.tiny) := by
  have he := h32.1
  have he0 := R.eps_nonneg
  have hnq : (terms xs ts : ℚ) ≤ 2 ^ 22 := by exact_mod_cast hn
  have hn0 : (0 : ℚ) ≤ terms xs ts := Nat.cast_nonneg _
  have hb : 4 * (terms xs ts : ℚ) * R.eps ≤ 1 := by
    have : (terms xs ts : ℚ) * R.eps ≤ 2 ^ 22 * (1 / 2 ^ 24) := mul_le_mul hnq he he0 (by norm_num)
    norm_num at this ⊢; linarith
  have h := C15_float_inner_product_linear R xs ts hb
  have hm : 0 ≤ absSum xs ts + (terms xs ts : ℚ) * R.tiny :=
    add_nonneg (absSum_nonneg xs ts) (mul_nonneg hn0 R.tiny_nonneg)
  have : 4 * (terms xs ts : ℚ) * R.eps ≤ (terms xs ts : ℚ) / 2 ^ 22 := by
    have : (terms xs ts : ℚ) * R.eps ≤ (terms xs ts : ℚ) * (1 / 2 ^ 24) := mul_le_mul_of_nonneg_left he hn0
    norm_num at this ⊢; linarith
  exact le_trans h (mul_le_mul_of_nonneg_right this hm)

/-- `correlate_pixels_k<Size>`'s inner product (recursion on the static size) is the same float computation -/
theorem C15_float_fixed_eq_dynamic (R : FloatSpec) (xs ts : List ℚ) (h : ts.length ≤ xs.length) :
    innerProductK ts.length (lift R xs) (lift R ts) (0 : RVal R) = innerProduct (lift R xs) (lift R ts) (0 : RVal R) := by
  have := innerProductK_eq_generic (lift R ts) (lift R xs) (0 : RVal R) (by simpa [lift] using h)
  simpa [lift] using this

/-- every output i of `correlate_pixels_n` (float accumulator) is within the bound of the textbook sum
    Σ_k buf[i+k] * taps[k] (= the same generic function over ℚ on the shifted buffer) -/
theorem C15_float_correlate_pixels (R : FloatSpec) (taps : List ℚ) :
    ∀ (n : Nat) (buf : List ℚ) (i : Nat), i < n →
      ∃ y : RVal R, (correlatePixelsN (lift R buf) n (lift R taps))[i]? = some y
        ∧ |y.v - innerProduct (buf.drop i) taps 0|
            ≤ ((1 + R.eps) ^ (2 * terms (buf.drop i) taps) - 1) * (absSum (buf.drop i) taps + terms (buf.drop i) taps * R.tiny) := by
  intro n
  induction n with
  | zero => intro buf i hi; omega
  | succ n ih =>
    intro buf i hi
    cases i with
    | zero =>
      refine ⟨innerProduct (lift R buf) (lift R taps) 0, by simp [correlatePixelsN], ?_⟩
      simpa using C15_float_inner_product_error R buf taps
    | succ i =>
      obtain ⟨y, hy, hb⟩ := ih buf.tail i (by omega)
      refine ⟨y, ?_, ?_⟩
      · have e : (lift R buf).tail = lift R buf.tail := by simp [lift]
        simpa [correlatePixelsN, e] using hy
      · have e : buf.drop (i + 1) = buf.tail.drop i := by cases buf <;> simp
        rw [e]; exact hb

/-- integer-valued pixels and taps whose absolute sum does not exceed `big` (2^24 for binary32): every product and every
    partial sum is a representable integer, the float accumulation is exact -/
theorem C15_float_exact_on_small_integers (R : FloatSpec) :
    ∀ (xs ts : List ℤ) (a : ℤ),
      |(a : ℚ)| + absSum (ofInts xs) (ofInts ts) ≤ R.big →
      (innerProduct (lift R (ofInts xs)) (lift R (ofInts ts)) (⟨(a : ℚ)⟩ : RVal R)).v
        = ((innerProduct xs ts a : ℤ) : ℚ)
  | [], _, a, _ => by simp [innerProduct, lift, ofInts]
  | _ :: _, [], a, _ => by simp [innerProduct, lift, ofInts]
  | x :: xs, t :: ts, a, h => by
    simp only [ofInts, List.map_cons, absSum] at h
    rw [← ofInts, ← ofInts] at h
    have hs := absSum_nonneg (ofInts xs) (ofInts ts)
    have ha := abs_nonneg (a : ℚ)
    have hp : R.rnd ((x : ℚ) * t) = ((x * t : ℤ) : ℚ) := by
      have := R.rnd_int (x * t) (by push_cast; linarith)
      push_cast at this ⊢; exact this
    have hsum : R.rnd ((a : ℚ) + ((x * t : ℤ) : ℚ)) = ((a + x * t : ℤ) : ℚ) := by
      have hle : |((a + x * t : ℤ) : ℚ)| ≤ R.big := by
        push_cast; have := abs_add_le (a : ℚ) ((x : ℚ) * t); linarith
      have := R.rnd_int (a + x * t) hle
      push_cast at this ⊢; exact this
    have e1 : innerProduct (lift R (ofInts (x :: xs))) (lift R (ofInts (t :: ts))) (⟨(a : ℚ)⟩ : RVal R)
        = innerProduct (lift R (ofInts xs)) (lift R (ofInts ts))
            (⟨R.rnd ((a : ℚ) + R.rnd ((x : ℚ) * t))⟩ : RVal R) := rfl
    rw [e1, hp, hsum]
    have ih := C15_float_exact_on_small_integers R xs ts (a + x * t) (by
      push_cast; have := abs_add_le (a : ℚ) ((x : ℚ) * t); linarith)
    rw [ih]; simp [innerProduct]

/-- the genuine binary32 rounding is an instance; the kernel evaluates the rounded inner product of the stored values
    (0.1f, 0.2f, 0.3f) with the taps (0.25, 0.5, 0.25): 13421773 * 2^-26 (= 0.2f), as the hardware gives, while the exact
    sum of the same stored values is 107374185 * 2^-29 (not a binary32 value; the difference 2^-29 is within the bound) -/
theorem C15_float_genuine_instance :
    (innerProduct (lift FloatSpec.binary32 [13421773 / 134217728, 13421773 / 67108864, 10066330 / 33554432])
        (lift FloatSpec.binary32 [1 / 4, 1 / 2, 1 / 4]) (0 : RVal FloatSpec.binary32)).v = 13421773 / 67108864
    ∧ innerProduct [13421773 / 134217728, 13421773 / 67108864, (10066330 / 33554432 : ℚ)] [1 / 4, 1 / 2, 1 / 4] 0
        = 107374185 / 536870912 := by
  constructor
  · show FloatSpec.binary32.rnd (FloatSpec.binary32.rnd (FloatSpec.binary32.rnd (0 + FloatSpec.binary32.rnd (13421773 / 134217728 * (1 / 4)))
        + FloatSpec.binary32.rnd (13421773 / 67108864 * (1 / 2))) + FloatSpec.binary32.rnd (10066330 / 33554432 * (1 / 4))) = 13421773 / 67108864
    unfold FloatSpec.binary32 FloatSpec.nearest; simp only []; decide +kernel
  · simp only [innerProduct]; norm_num

/-! ### non-vacuity -/
example : FloatSpec.binary32.IsBinary32 := FloatSpec.binary32_isBinary32
example : terms [1, 2, (3 : ℚ)] [1 / 4, 1 / 2, (1 / 4 : ℚ)] = 3 ∧ absSum [1, -2, (3 : ℚ)] [1 / 4, 1 / 2, (1 / 4 : ℚ)] = 2 := by
  constructor
  · rfl
  · simp [absSum, abs_mul]; norm_num

end GilVerif.Props.C15Float
