/-
  C11 -- reading any byte sequence terminates safely: theorems about the decoder models of Model/C11.lean
  (BMP, PNM, TARGA; statement-by-statement models of the GIL readers, see the header of that file).

  The full statement of the property,

      C11_safe : ∀ f dev bytes st, safe (decode f dev bytes st)        (safe = neither `ub _ _` nor `hang _`)

  is FALSE for the current code. Below: machine-checked witnesses (`*_witness`, by `decide`, each also replayed on the
  real readers under ASan/UBSan by the harness: checks/C11_witnesses.json), the negation of the full statement per
  format, regression theorems for the two defects already fixed in /repo, and what is proven for ALL inputs:
  the fuel bounds of every loop that is not bounded by a counter (termination proportional to the input length).

  Only property theorems live here (C11_*); helper lemmas are in Lemmas/C11.lean.
-/
import GilVerif.Lemmas.C11

namespace GilVerif.Props.C11
open GilVerif.Model.C11 GilVerif.Lemmas.C11

/-- packed hex literal -> the `k` bytes it denotes (most significant digit pair first) -/
def bytesOfHex (n : Nat) : Nat → List UInt8 → List UInt8
  | 0, acc => acc
  | k + 1, acc => bytesOfHex (n / 256) k (UInt8.ofNat (n % 256) :: acc)

def ubSite : Outcome → Option String
  | .ub s _ => some s
  | _ => none
def isOk : Outcome → Bool
  | .ok _ => true
  | _ => false
def isHang : Outcome → Bool
  | .hang _ => true
  | _ => false
/-- what the property demands of one read -/
def safe : Outcome → Bool
  | .ok _ => true
  | .err _ => true
  | _ => false

/-! ## witnesses: the current code violates the property (one per defect site) -/
/-- BMP, 40-byte header, height = INT_MIN: `-_info._height` overflows (reader_backend.hpp: read_header), through read_image_info -/
theorem C11_bmp_int_min_height_witness :
    ubSite (decode .bmp .file (bytesOfHex 0x424d360000000000000036000000280000000200000000000080010018000000000000000000130b0000130b00000000000000000000 54 [])
      { entry := .info, dst := .none, x0 := 0, y0 := 0, dw := 0, dh := 0, vw := 0, vh := 0 })
      = some "negation-overflow@extension/io/bmp/detail/reader_backend.hpp:read_header" := by
  decide +kernel
/-- 8-bit BMP declaring 2 palette entries, pixel value 200: `_palette[c]` outside the vector -/
theorem C11_bmp_palette_index_witness :
    ubSite (decode .bmp .file (bytesOfHex 0x424d42000000000000003e000000280000000200000001000000010008000000000000000000130b0000130b000002000000000000001e140a003c32280000c80000 66 [])
      { entry := .image, dst := .rgba8, x0 := 0, y0 := 0, dw := 0, dh := 0, vw := 0, vh := 0 }) = some "vector-index@extension/io/bmp/detail/read.hpp:read_palette_image" := by
  decide +kernel
/-- 16-bit BI_BITFIELDS BMP with red mask 0: shift by trailing_zeros(0) = 32 -/
theorem C11_bmp_mask_zero_shift_witness :
    ubSite (decode .bmp .file (bytesOfHex 0x424d460000000000000042000000280000000100000001000000010010000300000000000000130b0000130b0000000000000000000000000000e00700001f000000ffff0000 70 [])
      { entry := .image, dst := .rgb8, x0 := 0, y0 := 0, dw := 0, dh := 0, vw := 0, vh := 0 }) = some "shift-exponent@extension/io/bmp/detail/read.hpp:read_data_15" := by
  decide +kernel
/-- 16-bit BI_BITFIELDS BMP with red mask 0xFFFF: shift by unsigned(8 - 16) -/
theorem C11_bmp_mask_wide_shift_witness :
    ubSite (decode .bmp .file (bytesOfHex 0x424d460000000000000042000000280000000100000001000000010010000300000000000000130b0000130b00000000000000000000ffff0000e00700001f000000ffff0000 70 [])
      { entry := .image, dst := .rgb8, x0 := 0, y0 := 0, dw := 0, dh := 0, vw := 0, vh := 0 }) = some "shift-exponent@extension/io/bmp/detail/read.hpp:read_data_15" := by
  decide +kernel
/-- RLE4 BMP 3 pixels wide, absolute run of 4: the low nibble of the second byte is written past the row buffer -/
theorem C11_bmp_rle4_absolute_overrun_witness :
    ubSite (decode .bmp .file (bytesOfHex 0x424d44000000000000003e000000280000000300000001000000010004000200000000000000130b0000130b000002000000000000001e140a003c322800000401010001 68 [])
      { entry := .image, dst := .rgb8, x0 := 0, y0 := 0, dw := 0, dh := 0, vw := 0, vh := 0 }) = some "heap-buffer-overflow@extension/io/bmp/detail/read.hpp:read_palette_image_rle" := by
  decide +kernel
/-- the first 30 bytes of a 2x2 24-bit BMP through std::istream: read_uint16 consumes an uninitialised array -/
theorem C11_istream_short_read_witness :
    ubSite (decode .bmp .stream (bytesOfHex 0x424d46000000000000003600000028000000020000000200000001001800 30 [])
      { entry := .image, dst := .rgb8, x0 := 0, y0 := 0, dw := 0, dh := 0, vw := 0, vh := 0 }) = some "uninit@io/device.hpp:istream_device::read" := by
  decide +kernel
/-- 2x2 24-bit BMP without its last 3 bytes through FILE*: the short row read is accepted, stale bytes become pixels -/
theorem C11_short_row_read_witness :
    ubSite (decode .bmp .file (bytesOfHex 0x424d460000000000000036000000280000000200000002000000010018000000000000000000130b0000130b0000000000000000000001020304050600000708090a0b 67 [])
      { entry := .image, dst := .rgb8, x0 := 0, y0 := 0, dw := 0, dh := 0, vw := 0, vh := 0 }) = some "inconsistent-data-accepted" := by
  decide +kernel
/-- 24-bit BMP with width 0: BOOST_ASSERT in init_image (TARGA rejects such headers, BMP and PNM do not) -/
theorem C11_bmp_zero_width_witness :
    ubSite (decode .bmp .file (bytesOfHex 0x424d460000000000000036000000280000000000000002000000010018000000000000000000130b0000130b0000000000000000000001020304050600000708090a0b0c0000 70 [])
      { entry := .image, dst := .rgb8, x0 := 0, y0 := 0, dw := 0, dh := 0, vw := 0, vh := 0 }) = some "assert@io/reader_base.hpp:init_image" := by
  decide +kernel
/-- 2x2 24-bit BMP, settings top_left (1,0) dim (2,2): columns beyond the row buffer are read -/
theorem C11_settings_beyond_image_witness :
    ubSite (decode .bmp .file (bytesOfHex 0x424d460000000000000036000000280000000200000002000000010018000000000000000000130b0000130b0000000000000000000001020304050600000708090a0b0c0000 70 [])
      { entry := .image, dst := .rgb8, x0 := 1, y0 := 0, dw := 2, dh := 2, vw := 0, vh := 0 }) = some "heap-buffer-overflow@extension/io/bmp/detail/read.hpp:read_data" := by
  decide +kernel
/-- 24-bit BMP with width 0x7FFFFFFF through the scanline reader: `_info._width * 3` overflows int -/
theorem C11_bmp_pitch_overflow_witness :
    ubSite (decode .bmp .file (bytesOfHex 0x424d46000000000000003600000028000000ffffff7f02000000010018000000000000000000130b0000130b0000000000000000000001020304050600000708090a0b0c0000 70 [])
      { entry := .scan, dst := .none, x0 := 0, y0 := 0, dw := 0, dh := 0, vw := 0, vh := 0 }) = some "signed-integer-overflow@extension/io/bmp/detail/scanline_read.hpp:initialize" := by
  decide +kernel
/-- `P2 2 2 255 1 2 x 4` into a 2x2 view: the second row is never written, the read reports success -/
theorem C11_pnm_text_row_incomplete_witness :
    ubSite (decode .pnm .file (bytesOfHex 0x50320a3220320a3235350a312032207820340a 19 [])
      { entry := .view, dst := .gray8, x0 := 0, y0 := 0, dw := 0, dh := 0, vw := 2, vh := 2 }) = some "inconsistent-data-accepted" := by
  decide +kernel
/-- BMP with a 41-byte info header and height -2 through the scanline reader: iterating begin()..end() does not terminate -/
theorem C11_bmp_v4_negative_height_hang_witness :
    isHang (decode .bmp .file (bytesOfHex 0x424d4700000000000000370000002900000002000000feffffff010018000000000000000000130b0000130b000000000000000000000001020304050600000708090a0b0c0000 71 [])
      { entry := .scan, dst := .none, x0 := 0, y0 := 0, dw := 0, dh := 0, vw := 0, vh := 0 }) = true := by
  decide +kernel
/-! ## the full statement is false for each format's current reader -/

/-- OPEN (not provable: false today): `∀ dev bytes st, safe (decode .bmp dev bytes st)`; its negation: -/
theorem C11_safe_bmp_false : ¬ ∀ (dev : Dev) (bytes : List UInt8) (st : Settings), safe (decode .bmp dev bytes st) = true := by
  intro h
  have := h .file (bytesOfHex 0x424d42000000000000003e000000280000000200000001000000010008000000000000000000130b0000130b000002000000000000001e140a003c32280000c80000 66 [])
      { entry := .image, dst := .rgba8, x0 := 0, y0 := 0, dw := 0, dh := 0, vw := 0, vh := 0 }
  revert this
  decide +kernel

/-- OPEN (false today): `∀ dev bytes st, safe (decode .pnm dev bytes st)`; its negation: -/
theorem C11_safe_pnm_false : ¬ ∀ (dev : Dev) (bytes : List UInt8) (st : Settings), safe (decode .pnm dev bytes st) = true := by
  intro h
  have := h .file (bytesOfHex 0x50320a3220320a3235350a312032207820340a 19 [])
      { entry := .view, dst := .gray8, x0 := 0, y0 := 0, dw := 0, dh := 0, vw := 2, vh := 2 }
  revert this
  decide +kernel

/-- OPEN (false today): `∀ dev bytes st, safe (decode .tga dev bytes st)`; its negation (a raw 2x2 file cut after its first row: -/
theorem C11_safe_tga_false : ¬ ∀ (dev : Dev) (bytes : List UInt8) (st : Settings), safe (decode .tga dev bytes st) = true := by
  intro h
  have := h .file (bytesOfHex 0x000002000000000000000000020002001800010203040506 24 [])
      { entry := .image, dst := .rgb8, x0 := 0, y0 := 0, dw := 0, dh := 0, vw := 0, vh := 0 }
  revert this
  decide +kernel
/-! ## defects already fixed in /repo stay fixed (the pre-fix tree wrote out of bounds on these inputs) -/

/-- PNM text token of 40 digits: now `std::ios_base::failure` ("Number too long"), formerly a stack-buffer-overflow -/
theorem C11_pnm_long_token_is_error :
    decode .pnm .file (bytesOfHex 0x50320a3220310a3235350a3131313131313131313131313131313131313131313131313131313131313131313131313131313120370a 54 [])
      { entry := .image, dst := .gray8, x0 := 0, y0 := 0, dw := 0, dh := 0, vw := 0, vh := 0 } = .err "io" := by
  decide +kernel

/-- TARGA 2x2 RLE with one 128-pixel packet: now an error ("packet exceeds the image size"), formerly a heap-buffer-overflow -/
theorem C11_targa_rle_overrun_is_error :
    decode .tga .file (bytesOfHex 0x00000a000000000000000000020002001800ff010203 22 [])
      { entry := .image, dst := .rgb8, x0 := 0, y0 := 0, dw := 0, dh := 0, vw := 0, vh := 0 } = .err "io" := by
  decide +kernel

/-! ## the models decode valid files (the witnesses above are not artefacts of a model that rejects everything) -/

theorem C11_valid_bmp24_ok : isOk (decode .bmp .file (bytesOfHex 0x424d460000000000000036000000280000000200000002000000010018000000000000000000130b0000130b0000000000000000000001020304050600000708090a0b0c0000 70 [])
      { entry := .image, dst := .rgb8, x0 := 0, y0 := 0, dw := 0, dh := 0, vw := 0, vh := 0 }) = true := by decide +kernel
theorem C11_valid_targa_rle_ok : isOk (decode .tga .file (bytesOfHex 0x00000a00000000000000000002000200180083010203 22 [])
      { entry := .image, dst := .rgb8, x0 := 0, y0 := 0, dw := 0, dh := 0, vw := 0, vh := 0 }) = true := by decide +kernel
theorem C11_valid_pnm_text_ok : isOk (decode .pnm .file (bytesOfHex 0x50320a3220320a3235350a312032203320340a 19 [])
      { entry := .image, dst := .gray8, x0 := 0, y0 := 0, dw := 0, dh := 0, vw := 0, vh := 0 }) = true := by decide +kernel
/-! ## termination: every loop that is not bounded by a counter has a fuel bound (ALL inputs, both devices)

  The models give such a loop `unread bytes + 1` units of fuel at its entry (`fuelHere`); the theorems say this is
  never exhausted: each iteration consumes at least one input byte or ends the loop. So the number of iterations is
  at most the file length + 1; all other loops are counted by header fields bounded by the allocation they follow.
  (`Stop.hang` remains reachable only at the two genuine non-termination sites witnessed above / in the notes.) -/

/-- result of running an action: it is not `hang` -/
def notHang {α} (r : Except Stop (α × St)) : Prop := ∀ w, r ≠ .error (.hang w)

private theorem notHang_of_NHs {α} {m : M α} {s : St} (h : NHs m s) : notHang (m s) := by
  intro w hw
  unfold NHs at h
  rw [hw] at h
  exact h w rfl

/-- BMP RLE4/RLE8 (`read_palette_image_rle`, the `while (!finished)` loop) -/
theorem C11_terminates_bmp_rle (i : Bmp.Info) (pitch : Int) (st : Settings) (dimx dimy : Int) (pal : Bmp.Palette) (yend yinc : Int)
    (r : Bmp.Rle) (d : Dest) (s : St) (fuel : Nat) (hf : s.rest.length < fuel) :
    notHang ((Bmp.rleLoop i pitch st dimx dimy pal yend yinc fuel r d) s) :=
  notHang_of_NHs (bmp_rleLoop_nhs i pitch st dimx dimy pal yend yinc fuel r d s hf)

/-- TARGA RLE (`read_rle_data`, the packet loop) -/
theorem C11_terminates_targa_rle (bpp size fuel pixel : Nat) (acc : List (List Nat)) (s : St) (hf : s.rest.length < fuel) :
    notHang ((Tga.rleLoop bpp size fuel pixel acc) s) :=
  notHang_of_NHs (tga_rleLoop_nhs bpp size fuel pixel acc s hf)

/-- PNM header (`read_header`: comment skipping, white space, `read_int`), any state, both devices -/
theorem C11_terminates_pnm_header (s : St) : notHang (Pnm.readHeader s) :=
  notHang_of_NHs (nh_pnm_readHeader s)

/-- PNM text rows (`read_text_row`: the token loop over `getc_unchecked`) -/
theorem C11_terminates_pnm_text_row (site : String) (maxv : Int) (process : Bool) (n x : Nat) (row : List Nat) (s : St) :
    notHang ((Pnm.textSamples site maxv process n x row) s) :=
  notHang_of_NHs (nh_pnm_textSamples site maxv process n x row s)

/-- whole-entry corollary: read_image_info on a PNM stream never hangs, whatever the bytes and the device -/
theorem C11_pnm_info_terminates (dev : Dev) (bytes : List UInt8) :
    isHang (decode .pnm dev bytes { entry := .info, dst := .none, x0 := 0, y0 := 0, dw := 0, dh := 0, vw := 0, vh := 0 }) = false := by
  unfold decode runRaw
  simp only
  have key := nh_pnm_readHeader { data := bytes.map UInt8.toNat, pos := 0, rest := bytes.map UInt8.toNat, failed := false, dev := dev, taint := none }
  unfold NHs at key
  unfold Pnm.run
  rw [StateT.run, bind_eq]
  cases h : Pnm.readHeader { data := bytes.map UInt8.toNat, pos := 0, rest := bytes.map UInt8.toNat, failed := false, dev := dev, taint := none } with
  | error e =>
    rw [h] at key
    cases e with
    | err k => rfl
    | ub a b => rfl
    | hang w => exact absurd rfl (key w)
  | ok p =>
    obtain ⟨i, s'⟩ := p
    simp only [Pure.pure, StateT.pure, Except.pure]
    cases s'.taint <;> rfl

/-! ## safety proven for ALL inputs: the header readers behind read_image_info -/

/-- read_image_info on a PNM file: for all bytes, both devices and all settings the outcome is a header or a C++
    exception -- never undefined behaviour, never a hang (the PNM header code uses only checked `getc`) -/
theorem C11_pnm_info_safe (dev : Dev) (bytes : List UInt8) (st : Settings) (he : st.entry = .info) :
    safe (decode .pnm dev bytes st) = true := by
  unfold decode runRaw
  simp only
  have key := se_pnm_readHeader adm_isErr { data := bytes.map UInt8.toNat, pos := 0, rest := bytes.map UInt8.toNat, failed := false, dev := dev, taint := none }
  unfold SEs at key
  unfold Pnm.run
  rw [StateT.run, bind_eq]
  cases h : Pnm.readHeader { data := bytes.map UInt8.toNat, pos := 0, rest := bytes.map UInt8.toNat, failed := false, dev := dev, taint := none } with
  | error e =>
    rw [h] at key
    obtain ⟨k, hk⟩ := key
    subst hk
    rfl
  | ok p =>
    obtain ⟨i, s'⟩ := p
    rw [h] at key
    have ht : s'.taint = none := key.2.2
    simp only [he, Pure.pure, StateT.pure, Except.pure, ht]
    rfl

/-- read_image_info on a TARGA file through a file name or FILE*: for all bytes and settings the outcome is a header or
    a C++ exception (the file device checks every fixed-size read). Through std::istream this is FALSE
    (`C11_istream_short_read_witness` is the BMP instance of the same device defect). -/
theorem C11_targa_info_safe (bytes : List UInt8) (st : Settings) (he : st.entry = .info) :
    safe (decode .tga .file bytes st) = true := by
  unfold decode runRaw
  simp only
  have key := sef_tga_readHeader adm_isErr { data := bytes.map UInt8.toNat, pos := 0, rest := bytes.map UInt8.toNat, failed := false, dev := .file, taint := none } rfl
  unfold SEs at key
  unfold Tga.run
  rw [StateT.run, bind_eq]
  cases h : Tga.readHeader { data := bytes.map UInt8.toNat, pos := 0, rest := bytes.map UInt8.toNat, failed := false, dev := .file, taint := none } with
  | error e =>
    rw [h] at key
    obtain ⟨k, hk⟩ := key
    subst hk
    rfl
  | ok p =>
    obtain ⟨i, s'⟩ := p
    rw [h] at key
    have ht : s'.taint = none := key.2.2
    simp only [he, Pure.pure, StateT.pure, Except.pure, ht]
    rfl

/-- read_image_info on a BMP file through a file name or FILE*, all bytes: a header, a C++ exception, or exactly the
    `height == INT_MIN` negation (`C11_bmp_int_min_height_witness`) -- nothing else can go wrong -/
theorem C11_bmp_info_safe_partial (bytes : List UInt8) (st : Settings) (he : st.entry = .info) :
    safe (decode .bmp .file bytes st) = true ∨
    ubSite (decode .bmp .file bytes st) = some "negation-overflow@extension/io/bmp/detail/reader_backend.hpp:read_header" := by
  unfold decode runRaw
  simp only
  have key := sef_bmp_readHeader { data := bytes.map UInt8.toNat, pos := 0, rest := bytes.map UInt8.toNat, failed := false, dev := .file, taint := none } rfl
  unfold SEs at key
  unfold Bmp.run
  rw [StateT.run, bind_eq]
  cases h : Bmp.readHeader { data := bytes.map UInt8.toNat, pos := 0, rest := bytes.map UInt8.toNat, failed := false, dev := .file, taint := none } with
  | error e =>
    rw [h] at key
    rcases key with ⟨k, hk⟩ | ⟨w, hw⟩
    · subst hk; left; rfl
    · subst hw; right; rfl
  | ok p =>
    obtain ⟨i, s'⟩ := p
    rw [h] at key
    have ht : s'.taint = none := key.2.2
    left
    simp only [he, Pure.pure, StateT.pure, Except.pure, ht]
    rfl

example : safe (decode .tga .file [] { entry := .info, dst := .none, x0 := 0, y0 := 0, dw := 0, dh := 0, vw := 0, vh := 0 }) = true :=
  C11_targa_info_safe [] _ rfl

example : (3 : Nat) < 4 := by decide   -- (the hypotheses `s.rest.length < fuel` are what `fuelHere` establishes: rest.length < rest.length + 1)

/-
  -- OPEN (not proven): C11_safe_partial : WF f bytes st → safe (decode f .file bytes st)
  --   with WF the decidable conjunction "declared sizes ≤ data present, palette indices < palette size, bit-field masks
  --   contiguous and ≤ 8 bits wide, height ≠ INT_MIN, width,height ≥ 1, settings inside the image, RLE4 absolute runs
  --   inside the row" and C11_wf_encode : WF (encode img). The correspondence run carries this clause: on every generated
  --   input the real reader and the model agree, and every input on which the model reports `ub`/`hang` falls under one of
  --   the witnessed defect sites (known_findings.json).
  -- OPEN (not proven): C11_terminates for whole `decode` (composition of the loop bounds above through every reader
  --   function); proven for the loops themselves and for the PNM read_image_info entry.
-/

end GilVerif.Props.C11
