/-
  C11 -- reading any byte sequence terminates safely: theorems about the decoders of Model/C11.lean.
-/
import GilVerif.Model.C11

namespace GilVerif.Props.C11
open GilVerif.Model.C11

/-- packed little-endian hex literal -> bytes (most significant digit pair first) -/
def bytesOfHex (n : Nat) : Nat → List UInt8 → List UInt8
  | 0, acc => acc
  | k + 1, acc => bytesOfHex (n / 256) k (UInt8.ofNat (n % 256) :: acc)

def full (e : Entry) (d : Dst) : Settings := { entry := e, dst := d, x0 := 0, y0 := 0, dw := 0, dh := 0, vw := 0, vh := 0 }

/-- BMP, 40-byte header, height = INT_MIN: `-_info._height` overflows (reader_backend.hpp: read_header) -/
theorem C11_bmp_int_min_height_witness :
    decode .bmp .file (bytesOfHex 0x424d360000000000000036000000280000000200000000000080010018000000000000000000130b0000130b00000000000000000000 54 []) (full .info .none)
      = .ub "negation-overflow@extension/io/bmp/detail/reader_backend.hpp:read_header" "_info._height = -_info._height with height == INT_MIN" := by
  decide

end GilVerif.Props.C11
