/-
  C11 -- reading any byte sequence terminates safely: theorems about the decoder models of Model/C11.lean
  (BMP, PNM, TARGA; statement-by-statement models of the GIL readers, see the header of that file).

  The full statement of the property,

      C11_safe : ∀ f dev bytes st, safe (decode f dev bytes st)        (safe = neither `ub _ _` nor `hang _`)

  is now PROVEN for PNM and TARGA (`C11_safe_pnm`, `C11_safe_targa`: every device, byte string, entry point, setting) and
  proven for BMP up to one non-memory-safety residual (`C11_memsafe_bmp`; BMP palette indices beyond the declared entries
  are silently read as black instead of being reported: `C11_safe_bmp_false`). Below: machine-checked witnesses
  (`*_witness`, `decide`, each also replayed on the real readers under ASan/UBSan by the harness:
  checks/C11_witnesses.json), the negation of the full statement per format, regression theorems for the defects
  fixed in /repo during this work (their former witnesses now decode to an exception or to a correct image), and what
  is proven for ALL inputs: the fuel bounds of every loop that is not bounded by a counter, and the safety of
  read_image_info for the three formats on both devices.

  Non-vacuity (`C11_wf_encode_*`, end of the file): the byte strings GIL's own writers produce (Model/Codec.lean) are read
  back `ok` by these models for images of EVERY width and height the shared 64 KiB allocation rule admits, on every device.

  Only property theorems live here (C11_*); helper lemmas are in Lemmas/C11.lean, C11Safe.lean, C11Bmp.lean, C11Wf.lean.
-/
import GilVerif.Lemmas.C11Wf

namespace GilVerif.Props.C11
open GilVerif.Model.C11 GilVerif.Lemmas.C11

/-- packed hex literal -> the `k` bytes it denotes (most significant digit pair first) -/
def bytesOfHex (n : Nat) : Nat → List UInt8 → List UInt8
  | 0, acc => acc
  | k + 1, acc => bytesOfHex (n / 256) k (UInt8.ofNat (n % 256) :: acc)

def ubSite : Outcome → Option String
  | .ub s _ => some s
  | _ => none
def isOk : Outcome → Bool
  | .ok _ => true
  | _ => false
def isHang : Outcome → Bool
  | .hang _ => true
  | _ => false
/-- what the property demands of one read -/
def safe : Outcome → Bool
  | .ok _ => true
  | .err _ => true
  | _ => false

/-! ## witnesses: where the current code still violates the property -/

/-- 8-bit BMP declaring 2 palette entries, pixel value 200: no longer out of bounds (d528079), but read as black from the
    padding instead of being reported (the residual of C11-bmp-palette-index-unchecked) -/
theorem C11_bmp_palette_index_padded_witness :
    ubSite (decode .bmp .file (bytesOfHex 0x424d42000000000000003e000000280000000200000001000000010008000000000000000000130b0000130b000002000000000000001e140a003c32280000c80000 66 [])
      { entry := .image, dst := .rgba8, x0 := 0, y0 := 0, dw := 0, dh := 0, vw := 0, vh := 0 }) = some "inconsistent-data-accepted" := by
  decide +kernel

/-! ## the full statement is false for the BMP reader; for PNM and TARGA no counterexample is known any more -/

/-- OPEN (not provable: false today): `∀ dev bytes st, safe (decode .bmp dev bytes st)`; its negation: -/
theorem C11_safe_bmp_false : ¬ ∀ (dev : Dev) (bytes : List UInt8) (st : Settings), safe (decode .bmp dev bytes st) = true := by
  intro h
  have := h .file (bytesOfHex 0x424d42000000000000003e000000280000000200000001000000010008000000000000000000130b0000130b000002000000000000001e140a003c32280000c80000 66 [])
      { entry := .image, dst := .rgba8, x0 := 0, y0 := 0, dw := 0, dh := 0, vw := 0, vh := 0 }
  revert this
  decide +kernel

-- (for PNM and TARGA the full statement is now PROVEN: `C11_safe_pnm`, `C11_safe_targa` below; for BMP everything but the
--  reporting of an inconsistent palette: `C11_memsafe_bmp`)

/-! ## defects fixed in /repo stay fixed: the former witnesses now give an exception or a correct image -/

/-- 2914a43: PNM text token of 40 digits (formerly a stack-buffer-overflow) -/
theorem C11_pnm_long_token_is_error :
    decode .pnm .file (bytesOfHex 0x50320a3220310a3235350a3131313131313131313131313131313131313131313131313131313131313131313131313131313120370a 54 [])
      { entry := .image, dst := .gray8, x0 := 0, y0 := 0, dw := 0, dh := 0, vw := 0, vh := 0 } = .err "io" := by
  decide +kernel

/-- 2747323: TARGA 2x2 RLE with one 128-pixel packet (formerly a heap-buffer-overflow) -/
theorem C11_targa_rle_overrun_is_error :
    decode .tga .file (bytesOfHex 0x00000a000000000000000000020002001800ff010203 22 [])
      { entry := .image, dst := .rgb8, x0 := 0, y0 := 0, dw := 0, dh := 0, vw := 0, vh := 0 } = .err "io" := by
  decide +kernel

/-- ad1e4c7: BMP height INT_MIN (formerly `-INT_MIN`) -/
theorem C11_bmp_int_min_height_is_error :
    decode .bmp .file (bytesOfHex 0x424d360000000000000036000000280000000200000000000080010018000000000000000000130b0000130b00000000000000000000 54 [])
      { entry := .info, dst := .none, x0 := 0, y0 := 0, dw := 0, dh := 0, vw := 0, vh := 0 } = .err "io" := by
  decide +kernel

/-- 12811a4: BI_BITFIELDS mask 0 (formerly a shift by 32) -/
theorem C11_bmp_mask_zero_is_error :
    decode .bmp .file (bytesOfHex 0x424d460000000000000042000000280000000100000001000000010010000300000000000000130b0000130b0000000000000000000000000000e00700001f000000ffff0000 70 [])
      { entry := .image, dst := .rgb8, x0 := 0, y0 := 0, dw := 0, dh := 0, vw := 0, vh := 0 } = .err "io" := by
  decide +kernel

/-- 12811a4: BI_BITFIELDS mask 0xFFFF (formerly a shift by unsigned(8 - 16)) -/
theorem C11_bmp_mask_wide_is_error :
    decode .bmp .file (bytesOfHex 0x424d460000000000000042000000280000000100000001000000010010000300000000000000130b0000130b00000000000000000000ffff0000e00700001f000000ffff0000 70 [])
      { entry := .image, dst := .rgb8, x0 := 0, y0 := 0, dw := 0, dh := 0, vw := 0, vh := 0 } = .err "io" := by
  decide +kernel

/-- b2161e7: RLE4 absolute run of 4 in a 3-pixel row (formerly one pixel written past the row buffer) -/
theorem C11_bmp_rle4_absolute_clamped_ok :
    isOk (decode .bmp .file (bytesOfHex 0x424d44000000000000003e000000280000000300000001000000010004000200000000000000130b0000130b000002000000000000001e140a003c322800000401010001 68 [])
      { entry := .image, dst := .rgb8, x0 := 0, y0 := 0, dw := 0, dh := 0, vw := 0, vh := 0 }) = true := by
  decide +kernel

/-- cdb7c21: truncated header through std::istream (formerly uninitialised bytes used as header fields) -/
theorem C11_istream_short_read_is_error :
    decode .bmp .stream (bytesOfHex 0x424d46000000000000003600000028000000020000000200000001001800 30 [])
      { entry := .image, dst := .rgb8, x0 := 0, y0 := 0, dw := 0, dh := 0, vw := 0, vh := 0 } = .err "io" := by
  decide +kernel

/-- ad1e4c7: BMP width 0 (formerly BOOST_ASSERT in init_image) -/
theorem C11_bmp_zero_width_is_error :
    decode .bmp .file (bytesOfHex 0x424d460000000000000036000000280000000000000002000000010018000000000000000000130b0000130b0000000000000000000001020304050600000708090a0b0c0000 70 [])
      { entry := .image, dst := .rgb8, x0 := 0, y0 := 0, dw := 0, dh := 0, vw := 0, vh := 0 } = .err "io" := by
  decide +kernel

/-- c6180a1: sub-rectangle beyond the image (formerly a heap-buffer-overflow READ) -/
theorem C11_settings_beyond_image_is_error :
    decode .bmp .file (bytesOfHex 0x424d460000000000000036000000280000000200000002000000010018000000000000000000130b0000130b0000000000000000000001020304050600000708090a0b0c0000 70 [])
      { entry := .image, dst := .rgb8, x0 := 1, y0 := 0, dw := 2, dh := 2, vw := 0, vh := 0 } = .err "io" := by
  decide +kernel

/-- ad1e4c7: 41-byte header with negative height (formerly an endless scanline iteration) -/
theorem C11_bmp_v4_negative_height_is_error :
    decode .bmp .file (bytesOfHex 0x424d4700000000000000370000002900000002000000feffffff010018000000000000000000130b0000130b000000000000000000000001020304050600000708090a0b0c0000 71 [])
      { entry := .scan, dst := .none, x0 := 0, y0 := 0, dw := 0, dh := 0, vw := 0, vh := 0 } = .err "io" := by
  decide +kernel

/-- 8a05590: PNM text data ending early (formerly success with unwritten rows) -/
theorem C11_pnm_text_row_incomplete_is_error :
    decode .pnm .file (bytesOfHex 0x50320a3220320a3235350a312032207820340a 19 [])
      { entry := .view, dst := .gray8, x0 := 0, y0 := 0, dw := 0, dh := 0, vw := 2, vh := 2 } = .err "io" := by
  decide +kernel

/-- 84ae407: 2x2 24-bit BMP without its last 3 bytes (formerly success with stale bytes as pixels) -/
theorem C11_short_row_read_is_error :
    decode .bmp .file (bytesOfHex 0x424d460000000000000036000000280000000200000002000000010018000000000000000000130b0000130b0000000000000000000001020304050600000708090a0b 67 [])
      { entry := .image, dst := .rgb8, x0 := 0, y0 := 0, dw := 0, dh := 0, vw := 0, vh := 0 } = .err "io" := by
  decide +kernel

/-- 84ae407: `P5 2 2 255` followed by 3 of its 4 bytes -/
theorem C11_pnm_short_row_read_is_error :
    decode .pnm .file (bytesOfHex 0x50350a3220320a3235350a010203 14 [])
      { entry := .image, dst := .gray8, x0 := 0, y0 := 0, dw := 0, dh := 0, vw := 0, vh := 0 } = .err "io" := by
  decide +kernel

/-- 84ae407: raw 2x2 24-bit TARGA cut after its first row -/
theorem C11_targa_short_row_read_is_error :
    decode .tga .file (bytesOfHex 0x000002000000000000000000020002001800010203040506 24 [])
      { entry := .image, dst := .rgb8, x0 := 0, y0 := 0, dw := 0, dh := 0, vw := 0, vh := 0 } = .err "io" := by
  decide +kernel

/-- c96cb0d: 24-bit BMP with width 0x7FFFFFFF through the scanline reader (formerly `_info._width * 3` overflowed int) -/
theorem C11_bmp_pitch_overflow_is_error :
    decode .bmp .file (bytesOfHex 0x424d46000000000000003600000028000000ffffff7f02000000010018000000000000000000130b0000130b0000000000000000000001020304050600000708090a0b0c0000 70 [])
      { entry := .scan, dst := .none, x0 := 0, y0 := 0, dw := 0, dh := 0, vw := 0, vh := 0 } = .err "io" := by
  decide +kernel

/-- RLE TARGA declaring 65535 x 65535 pixels, read with a 1x1 sub-rectangle: `_info._width * _info._height * bytes_per_pixel`
    was computed in int and overflowed (84b4471: now size_t, the 12 GB buffer request ends in bad_alloc) -/
theorem C11_targa_rle_image_size_is_alloc_error :
    decode .tga .file (bytesOfHex 0x00000a000000000000000000ffffffff180083010203 22 [])
      { entry := .image, dst := .rgb8, x0 := 0, y0 := 0, dw := 1, dh := 1, vw := 0, vh := 0 } = .err "alloc" := by
  decide +kernel

/-! ## the models decode valid files -/

theorem C11_valid_bmp24_ok : isOk (decode .bmp .file (bytesOfHex 0x424d460000000000000036000000280000000200000002000000010018000000000000000000130b0000130b0000000000000000000001020304050600000708090a0b0c0000 70 [])
      { entry := .image, dst := .rgb8, x0 := 0, y0 := 0, dw := 0, dh := 0, vw := 0, vh := 0 }) = true := by decide +kernel
theorem C11_valid_targa_rle_ok : isOk (decode .tga .file (bytesOfHex 0x00000a00000000000000000002000200180083010203 22 [])
      { entry := .image, dst := .rgb8, x0 := 0, y0 := 0, dw := 0, dh := 0, vw := 0, vh := 0 }) = true := by decide +kernel
theorem C11_valid_pnm_text_ok : isOk (decode .pnm .file (bytesOfHex 0x50320a3220320a3235350a312032203320340a 19 [])
      { entry := .image, dst := .gray8, x0 := 0, y0 := 0, dw := 0, dh := 0, vw := 0, vh := 0 }) = true := by decide +kernel

/-! ## termination: every loop that is not bounded by a counter has a fuel bound (ALL inputs, both devices)

  The models give such a loop `unread bytes + 1` units of fuel at its entry (`fuelHere`); the theorems say this is
  never exhausted: each iteration consumes at least one input byte or ends the loop. So the number of iterations is
  at most the file length + 1; all other loops are counted by header fields bounded by the allocation they follow. -/

/-- result of running an action: its fuel did not run out -/
def notHang {α} (r : Except Stop (α × St)) : Prop := ∀ w, r ≠ .error (.fuel w)

private theorem notHang_of_NHs {α} {m : M α} {s : St} (h : NHs m s) : notHang (m s) := by
  intro w hw
  unfold NHs at h
  rw [hw] at h
  exact h w rfl

/-- BMP RLE4/RLE8 (`read_palette_image_rle`, the `while (!finished)` loop) -/
theorem C11_terminates_bmp_rle (i : Bmp.Info) (pitch : Int) (st : Settings) (dimx dimy : Int) (pal : Bmp.Palette) (yend yinc : Int)
    (r : Bmp.Rle) (d : Dest) (s : St) (fuel : Nat) (hf : s.rest.length < fuel) :
    notHang ((Bmp.rleLoop i pitch st dimx dimy pal yend yinc fuel r d) s) :=
  notHang_of_NHs (bmp_rleLoop_nhs i pitch st dimx dimy pal yend yinc fuel r d s hf)

/-- TARGA RLE (`read_rle_data`, the packet loop) -/
theorem C11_terminates_targa_rle (bpp size fuel pixel : Nat) (acc : List (List Nat)) (s : St) (hf : s.rest.length < fuel) :
    notHang ((Tga.rleLoop bpp size fuel pixel acc) s) :=
  notHang_of_NHs (tga_rleLoop_nhs bpp size fuel pixel acc s hf)

/-- PNM header (`read_header`: comment skipping, white space, `read_int`), any state, both devices -/
theorem C11_terminates_pnm_header (s : St) : notHang (Pnm.readHeader s) :=
  notHang_of_NHs (nh_pnm_readHeader s)

/-- PNM text rows (`read_text_row`: the token loop over `getc_unchecked`) -/
theorem C11_terminates_pnm_text_row (site : String) (maxv : Int) (process : Bool) (n x : Nat) (row : List Nat) (s : St) :
    notHang ((Pnm.textSamples site maxv process n x row) s) :=
  notHang_of_NHs (nh_pnm_textSamples site maxv process n x row s)

example : (3 : Nat) < 4 := by decide   -- (the hypotheses `s.rest.length < fuel` are what `fuelHere` establishes: rest.length < rest.length + 1)

/-! ## safety proven for ALL inputs: read_image_info (header readers + the region check), every device, every setting -/

private theorem safe_of_SE {m : M Img} {s : St} (hs : s.taint = none) (h : SEs IsErr m s) :
    safe (match m s with
      | .ok (img, s') => (match s'.taint with | none => Outcome.ok img | some why => Outcome.ub "inconsistent-data-accepted" why)
      | .error (.err k) => Outcome.err k
      | .error (.ub a w) => Outcome.ub a w
      | .error (.hang w) => Outcome.hang w
      | .error (.fuel w) => Outcome.hang ("fuel exhausted in " ++ w)) = true := by
  unfold SEs at h
  cases hm : m s with
  | error e =>
    rw [hm] at h
    obtain ⟨k, hk⟩ := h
    subst hk
    rfl
  | ok p =>
    obtain ⟨img, s'⟩ := p
    rw [hm] at h
    have ht : s'.taint = none := h.2.2.trans hs
    simp only [ht]
    rfl

private theorem se_pnm_info (st : Settings) (he : st.entry = .info) : SE IsErr (Pnm.run st) := by
  unfold Pnm.run
  apply se_bind (se_pnm_readHeader adm_isErr); intro i
  dsimp only
  apply se_bind (se_checkSettings adm_isErr _ _ _ _ _); intro _
  simp only [he]
  exact se_pure _

private theorem se_tga_info (st : Settings) (he : st.entry = .info) : SE IsErr (Tga.run st) := by
  unfold Tga.run
  apply se_bind (se_tga_readHeader adm_isErr); intro i
  dsimp only
  apply se_bind (se_checkSettings adm_isErr _ _ _ _ _); intro _
  simp only [he]
  exact se_pure _

private theorem se_bmp_info (st : Settings) (he : st.entry = .info) : SE IsErr (Bmp.run st) := by
  unfold Bmp.run
  apply se_bind (se_bmp_readHeader adm_isErr); intro i
  dsimp only
  apply se_bind (se_checkSettings adm_isErr _ _ _ _ _); intro _
  simp only [he]
  exact se_pure _

/-- read_image_info, for ALL byte strings, both device classes, all settings: a header or a C++ exception --
    never undefined behaviour, never a hang. (Before /repo cdb7c21, ad1e4c7 this was false for BMP and TARGA through
    std::istream and for BMP with height INT_MIN: see the `*_is_error` theorems above.) -/
theorem C11_info_safe (f : Fmt) (dev : Dev) (bytes : List UInt8) (st : Settings) (he : st.entry = .info) :
    safe (decode f dev bytes st) = true := by
  unfold decode runRaw
  cases f with
  | bmp => exact safe_of_SE rfl (se_bmp_info st he _)
  | pnm => exact safe_of_SE rfl (se_pnm_info st he _)
  | tga => exact safe_of_SE rfl (se_tga_info st he _)

example : safe (decode .tga .stream [] { entry := .info, dst := .none, x0 := 0, y0 := 0, dw := 0, dh := 0, vw := 0, vh := 0 }) = true :=
  C11_info_safe .tga .stream [] _ rfl

/-! ## the FULL statement for TARGA and PNM: every device, every byte string, every entry point, every setting

  `ConvOk f st` only restricts the *converting* entry point to the destination types whose colour conversion the model
  contains (TARGA / BMP: rgb8, rgba8; PNM: rgb8); for read_image / read_view / read_image_info / the scanline reader every
  destination type and every (top_left, dim, view size) is covered, including all the ones the readers reject. -/

private theorem safe_of_tr_nf {Q : Img → Prop} {m : M Img} {s : St} (hs : s.taint = none) (h1 : GoodT true Q s (m s)) (h2 : NFs m s) :
    safe (match m s with
      | .ok (img, s') => (match s'.taint with | none => Outcome.ok img | some why => Outcome.ub "inconsistent-data-accepted" why)
      | .error (.err k) => Outcome.err k
      | .error (.ub a w) => Outcome.ub a w
      | .error (.hang w) => Outcome.hang w
      | .error (.fuel w) => Outcome.hang ("fuel exhausted in " ++ w)) = true := by
  cases hm : m s with
  | error e =>
    rw [hm] at h1
    rcases h1 with ⟨k, hk⟩ | ⟨w, hw⟩
    · subst hk; rfl
    · subst hw; exact absurd hm (h2 w)
  | ok p =>
    obtain ⟨img, s'⟩ := p
    rw [hm] at h1
    have ht : s'.taint = none := (h1.1 rfl).trans hs
    simp only [ht]
    rfl

/-- TARGA (raw and RLE, 24 and 32 bit, both origins, sub-rectangles, read_image_info / read_image / read_view /
    read_and_convert_image / scanline reader, file and stream devices): for EVERY byte string the outcome is an image or a
    C++ exception -- never undefined behaviour (no index, shift, signed overflow, assertion or allocation-size site of the
    model is reachable), never a hang, never data made up from bytes that were not read. -/
theorem C11_safe_targa (dev : Dev) (bytes : List UInt8) (st : Settings) (hconv : ConvOk .tga st) :
    safe (decode .tga dev bytes st) = true := by
  unfold decode runRaw
  exact safe_of_tr_nf rfl (tr_tga_run st hconv _) (nf_tga_run st _)

/-- PNM (P1-P6: text rows, binary rows, bit rows, comments in the header, sub-rectangles, every entry point, file and
    stream devices): for EVERY byte string the outcome is an image or a C++ exception -- never undefined behaviour, never a
    hang, never data made up. -/
theorem C11_safe_pnm (dev : Dev) (bytes : List UInt8) (st : Settings) (hconv : ConvOk .pnm st) :
    safe (decode .pnm dev bytes st) = true := by
  unfold decode runRaw
  exact safe_of_tr_nf rfl (tr_pnm_run st hconv _) (nf_pnm_run st _)

/-! ## BMP: memory safety and termination for ALL inputs; the one residual is stated separately

  With the palette padded to 256 entries (d528079) no index, shift, overflow, assertion or allocation site of the BMP model
  is reachable any more. What remains of the full statement is not a memory-safety matter: a pixel / RLE index beyond the
  palette entries the header declares (and an unsupported bits-per-pixel value read through the converting reader) is
  accepted instead of being reported; the model marks these reads (`inconsistent-data-accepted`), `C11_safe_bmp_false`
  and `C11_bmp_palette_index_padded_witness` above are the machine-checked negative result. -/

/-- the outcome is an image, a C++ exception, or an image the model marks as built from data inconsistent with the header
    -- never a memory-safety / arithmetic / assertion violation, never a hang -/
def memsafe : Outcome → Bool
  | .ok _ => true
  | .err _ => true
  | .ub s _ => s == "inconsistent-data-accepted"
  | .hang _ => false

private theorem memsafe_of_tr_nf {Q : Img → Prop} {m : M Img} {s : St} (h1 : GoodT false Q s (m s)) (h2 : NFs m s) :
    memsafe (match m s with
      | .ok (img, s') => (match s'.taint with | none => Outcome.ok img | some why => Outcome.ub "inconsistent-data-accepted" why)
      | .error (.err k) => Outcome.err k
      | .error (.ub a w) => Outcome.ub a w
      | .error (.hang w) => Outcome.hang w
      | .error (.fuel w) => Outcome.hang ("fuel exhausted in " ++ w)) = true := by
  cases hm : m s with
  | error e =>
    rw [hm] at h1
    rcases h1 with ⟨k, hk⟩ | ⟨w, hw⟩
    · subst hk; rfl
    · subst hw; exact absurd hm (h2 w)
  | ok p =>
    obtain ⟨img, s'⟩ := p
    cases ht : s'.taint <;> simp only [ht] <;> rfl

/-- BMP (1/4/8-bit palette images, RLE4/RLE8 with all escapes, 15/16-bit with bit-field masks, 24/32-bit; 40-byte, OS/2 and
    V4/V5 headers; bottom-up and top-down; sub-rectangles; all five entry points; file and stream devices): for EVERY byte
    string no undefined behaviour and no hang. -/
theorem C11_memsafe_bmp (dev : Dev) (bytes : List UInt8) (st : Settings) (hconv : ConvOk .bmp st) :
    memsafe (decode .bmp dev bytes st) = true := by
  unfold decode runRaw
  exact memsafe_of_tr_nf (tr_bmp_run st hconv _) (nf_bmp_run st _)

/-! ## whole-decode termination

  Every loop of the three models is either structurally recursive on a counter taken from validated header fields and
  settings (rows <= declared height, samples per row <= 3 * declared width, palette entries <= the allocation limit) or
  a loop over the input that is given `unread bytes + 1` units of fuel at its entry. `C11_terminates` says that no such
  fuel ever runs out, for any format, device, byte string, entry point and setting -- so every input loop makes at most
  `file length + 1` iterations and the whole read takes a number of loop iterations linear in
  `file length + declared width * declared height` (the only nested loops are rows x samples per row).
  That no *genuine* non-termination (`Outcome.hang`) occurs is part of `C11_safe_pnm`, `C11_safe_targa`, `C11_memsafe_bmp`. -/

/-- the fuel of the input-driven loops never runs out: all formats, devices, byte strings, entry points, settings -/
theorem C11_terminates (f : Fmt) (dev : Dev) (bytes : List UInt8) (st : Settings) :
    ∀ w, runRaw f dev bytes st ≠ .error (Stop.fuel w) := by
  intro w
  unfold runRaw
  cases f with
  | bmp => exact nf_bmp_run st _ w
  | pnm => exact nf_pnm_run st _ w
  | tga => exact nf_tga_run st _ w

example : safe (decode .tga .sstream [0, 0, 10] { entry := .view, dst := .rgba8, x0 := 3, y0 := -1, dw := 7, dh := 0, vw := 2, vh := 2 }) = true :=
  C11_safe_targa _ _ _ (by intro h; cases h)

/-! ## non-vacuity: what GIL's writers produce is read back `ok`, for images of every size

  `Codec.encodeTga` / `encodeBmp` / `encodePnm` (Model/Codec.lean, written from the three `write.hpp` for property C12)
  are the byte strings `write_view` produces. The theorems below say that the reader models of this file return an image
  for them: the `ok` branch of `C11_safe_*` is inhabited by real files of every width and height, on every device. The only size
  restriction is the rule the model shares with the harness: a single allocation above 64 KiB fails (`allocLimit`), so
  `width * height * bytes per pixel <= 65536`. -/

/-- `read_image` with default settings into an image of type `dst` -/
def readImageOf (dst : Dst) : Settings := { entry := .image, dst := dst, x0 := 0, y0 := 0, dw := 0, dh := 0, vw := 0, vh := 0 }

private theorem isOk_decode_of_runs {f : Fmt} {dev : Dev} {bytes : List UInt8} {st : Settings}
    (h : Runs (match f with | .bmp => Bmp.run st | .pnm => Pnm.run st | .tga => Tga.run st)
      { data := bytes, pos := 0, rest := bytes, failed := false, dev := dev, taint := none } (fun _ s' => s'.taint = none)) :
    isOk (decode f dev bytes st) = true := by
  obtain ⟨img, s', h1, h2⟩ := h
  unfold decode runRaw
  cases f <;> (simp only [StateT.run] at h1 ⊢; rw [h1]; simp only [h2]; rfl)

/-- TARGA, generic in the pixel layout (`bgr8` / `bgra8` are the two the writer uses) -/
theorem C11_wf_encode_targa {α} (f : Codec.PixFmt α) (henc : ∀ p, (f.enc p).length = f.size) (dst : Dst)
    (hdst : (f.size = 3 ∧ dst = .rgb8) ∨ (f.size = 4 ∧ dst = .rgba8))
    (img : Codec.Img α) (hwf : img.WF) (hw : 1 ≤ img.w) (hh : 1 ≤ img.h) (hsz : img.w * img.h * f.size ≤ 65536) (dev : Dev) :
    isOk (decode .tga dev (Codec.encodeTga f img) (readImageOf dst)) = true := by
  apply isOk_decode_of_runs
  exact runs_tga_run_image (readImageOf dst) img.w img.h f.size rfl hdst rfl rfl rfl rfl hw hh hsz rfl
    (by rw [tga_body_length f henc img hwf]) (live_init _ _)

theorem C11_wf_encode_targa_rgb8 (img : Codec.Img Codec.Rgb8) (hwf : img.WF) (hw : 1 ≤ img.w) (hh : 1 ≤ img.h)
    (hsz : img.w * img.h * 3 ≤ 65536) (dev : Dev) :
    isOk (decode .tga dev (Codec.encodeTga Codec.bgr8 img) (readImageOf .rgb8)) = true :=
  C11_wf_encode_targa Codec.bgr8 (fun _ => rfl) .rgb8 (Or.inl ⟨rfl, rfl⟩) img hwf hw hh hsz dev

theorem C11_wf_encode_targa_rgba8 (img : Codec.Img Codec.Rgba8) (hwf : img.WF) (hw : 1 ≤ img.w) (hh : 1 ≤ img.h)
    (hsz : img.w * img.h * 4 ≤ 65536) (dev : Dev) :
    isOk (decode .tga dev (Codec.encodeTga Codec.bgra8 img) (readImageOf .rgba8)) = true :=
  C11_wf_encode_targa Codec.bgra8 (fun _ => rfl) .rgba8 (Or.inr ⟨rfl, rfl⟩) img hwf hw hh hsz dev

/-- BMP (24 / 32 bit, bottom-up, rows padded to 4 bytes), generic in the pixel layout -/
theorem C11_wf_encode_bmp {α} (f : Codec.PixFmt α) (henc : ∀ p, (f.enc p).length = f.size) (dst : Dst)
    (hdst : (f.size = 3 ∧ dst = .rgb8) ∨ (f.size = 4 ∧ dst = .rgba8))
    (img : Codec.Img α) (hwf : img.WF) (hw : 1 ≤ img.w) (hh : 1 ≤ img.h) (hsz : img.w * img.h * f.size ≤ 65536) (dev : Dev) :
    isOk (decode .bmp dev (Codec.encodeBmp f img) (readImageOf dst)) = true := by
  apply isOk_decode_of_runs
  exact runs_bmp_run_image (readImageOf dst) img.w img.h f.size rfl hdst rfl rfl rfl rfl hw hh hsz rfl
    (by rw [bmp_body_length f henc img hwf]) (live_init _ _)

theorem C11_wf_encode_bmp_rgb8 (img : Codec.Img Codec.Rgb8) (hwf : img.WF) (hw : 1 ≤ img.w) (hh : 1 ≤ img.h)
    (hsz : img.w * img.h * 3 ≤ 65536) (dev : Dev) :
    isOk (decode .bmp dev (Codec.encodeBmp Codec.bgr8 img) (readImageOf .rgb8)) = true :=
  C11_wf_encode_bmp Codec.bgr8 (fun _ => rfl) .rgb8 (Or.inl ⟨rfl, rfl⟩) img hwf hw hh hsz dev

theorem C11_wf_encode_bmp_rgba8 (img : Codec.Img Codec.Rgba8) (hwf : img.WF) (hw : 1 ≤ img.w) (hh : 1 ≤ img.h)
    (hsz : img.w * img.h * 4 ≤ 65536) (dev : Dev) :
    isOk (decode .bmp dev (Codec.encodeBmp Codec.bgra8 img) (readImageOf .rgba8)) = true :=
  C11_wf_encode_bmp Codec.bgra8 (fun _ => rfl) .rgba8 (Or.inr ⟨rfl, rfl⟩) img hwf hw hh hsz dev

/-- PNM binary (P5 from gray8, P6 from rgb8: the two types the writer emits for 8-bit views), generic in the pixel layout.
    `ch` = bytes per pixel. The second size condition is the reader's own row buffer: `row_buffer_helper(_scanline_length)`
    allocates `_scanline_length` PIXELS where `_scanline_length` already counts bytes, i.e. 9 bytes per pixel of a P6 row. -/
theorem C11_wf_encode_pnm {α} (f : Codec.PixFmt α) (henc : ∀ p, (f.enc p).length = f.size) (t : Nat) (dst : Dst)
    (hty : (t = 5 ∧ f.size = 1 ∧ dst = .gray8) ∨ (t = 6 ∧ f.size = 3 ∧ dst = .rgb8))
    (img : Codec.Img α) (hwf : img.WF) (hw : 1 ≤ img.w) (hh : 1 ≤ img.h) (hsz : img.w * img.h * f.size ≤ 65536)
    (hrow : img.w * f.size * f.size ≤ 65536) (dev : Dev) :
    isOk (decode .pnm dev (Codec.encodePnm f t img) (readImageOf dst)) = true := by
  apply isOk_decode_of_runs
  exact runs_pnm_run_image (readImageOf dst) t img.w img.h f.size rfl hty rfl rfl rfl rfl hw hh hsz hrow rfl
    (by rw [pnm_body_length f henc img hwf]) (live_init _ _)

theorem C11_wf_encode_pnm_gray8 (img : Codec.Img UInt8) (hwf : img.WF) (hw : 1 ≤ img.w) (hh : 1 ≤ img.h)
    (hsz : img.w * img.h ≤ 65536) (dev : Dev) :
    isOk (decode .pnm dev (Codec.encodePnm Codec.gray8 5 img) (readImageOf .gray8)) = true :=
  C11_wf_encode_pnm Codec.gray8 (fun _ => rfl) 5 .gray8 (Or.inl ⟨rfl, rfl, rfl⟩) img hwf hw hh
    (by show img.w * img.h * 1 ≤ 65536; omega)
    (by show img.w * 1 * 1 ≤ 65536
        have : img.w ≤ img.w * img.h := Nat.le_mul_of_pos_right _ (by omega)
        omega) dev

theorem C11_wf_encode_pnm_rgb8 (img : Codec.Img Codec.Rgb8) (hwf : img.WF) (hw : 1 ≤ img.w) (hh : 1 ≤ img.h)
    (hsz : img.w * img.h * 3 ≤ 65536) (hrow : img.w * 9 ≤ 65536) (dev : Dev) :
    isOk (decode .pnm dev (Codec.encodePnm Codec.rgb8 6 img) (readImageOf .rgb8)) = true :=
  C11_wf_encode_pnm Codec.rgb8 (fun _ => rfl) 6 .rgb8 (Or.inr ⟨rfl, rfl, rfl⟩) img hwf hw hh hsz
    (by show img.w * 3 * 3 ≤ 65536; omega) dev

/-- the hypotheses are satisfiable at every size: e.g. the all-black `w x h` image -/
example (w h : Nat) (hw : 1 ≤ w) (hh : 1 ≤ h) (hsz : w * h * 3 ≤ 65536) (dev : Dev) :
    isOk (decode .tga dev (Codec.encodeTga Codec.bgr8 ⟨w, h, List.replicate h (List.replicate w ⟨0, 0, 0⟩)⟩) (readImageOf .rgb8)) = true :=
  C11_wf_encode_targa_rgb8 _ ⟨by simp, by intro r hr; rw [List.eq_of_mem_replicate hr]; simp⟩ hw hh hsz dev

/-
  -- NOT COVERED by the non-vacuity theorems: entry points other than `read_image` with default settings (sub-rectangles, views,
  --   the scanline reader), the mono PNM writer (P4), and files no GIL writer produces (palette / RLE / bit-field BMP, ASCII
  --   PNM, RLE TARGA): for those only instances are checked by `decide` (C11_valid_*_ok and the witness files) and the
  --   correspondence run reads such files written by the model-independent Python encoders on every run.
  -- NOT COVERED by the safety statements: read_and_convert_image into destination types other than rgb8 / rgba8 (PNM: rgb8)
  --   -- the model contains no other colour conversion (`ConvOk`); dynamic-image readers; read_and_convert_view.
-/

end GilVerif.Props.C11
