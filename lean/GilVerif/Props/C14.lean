/-
  C14 -- run-time typed images behave like the concrete image they hold: theorems about the dispatch model
  (GilVerif/Model/C14.lean). Only property theorems live here (named C14_*); helpers are `private`.

  These theorems are short on purpose: the model is thin, because what the C++ does here is type-level dispatch
  (which alternative `variant2::visit` selects, which overload is chosen), which Lean does not see. What they do
  establish, for ALL tags / views / memories (no bound): a lifted unary operation is the concrete operation on the
  held view wrapped in the mapped alternative; `binary_operation_obj` runs the concrete algorithm exactly for
  compatible alternatives and otherwise fails with bad_cast leaving every cell unchanged; the lifted algorithms
  never touch a cell outside the destination view; copies of `any_image_view` alias, copies of `any_image` own
  fresh storage; `recreate` keeps the alternative; equality lifts. The tie to /repo is the differential run.
-/
import GilVerif.Model.C14
import Mathlib.Tactic.Ring
import Mathlib.Tactic.Linarith
import Mathlib.Data.List.Induction

namespace GilVerif.Props.C14
open GilVerif.Model.C14

/-! ### unary lift -/

/-- a lifted transformation is the concrete factory applied to the held view, wrapped in the mapped alternative -/
theorem C14_unary_lift (f : Xf) {t : Tag} (v : View t) : f.lift (wrap v) = wrap (f.apply v) := rfl

/-- dimensions, num_channels and size of the wrapper are those of the held view -/
theorem C14_lift_accessors {t : Tag} (v : View t) :
    (wrap v).width = v.w ∧ (wrap v).height = v.h ∧ (wrap v).numChannels = t.fmt.nc ∧ (wrap v).size = v.w * v.h :=
  ⟨rfl, rfl, rfl, rfl⟩

/-- every lifted transformation yields the documented dimensions -/
theorem C14_lift_dims (f : Xf) (a : AnyView) :
    ((f.lift a).width, (f.lift a).height) = f.dims a.width a.height := by
  obtain ⟨t, v⟩ := a
  cases f <;> simp only [Xf.lift, Xf.apply, Xf.dims, AnyView.width, AnyView.height, View.retag]
  split <;> rfl

/-- the contract of a transformation on a `w x h` view (what the factories assert) -/
def inContract (f : Xf) (w h : Nat) : Prop :=
  match f with
  | .sub x0 y0 w' h' => x0 + w' ≤ w ∧ y0 + h' ≤ h
  | .subs sx sy => 1 ≤ sx ∧ 1 ≤ sy
  | _ => True

private theorem apply_w (f : Xf) {t : Tag} (v : View t) : (f.apply v).w = (f.dims v.w v.h).1 := by
  cases f <;> first | rfl | (simp only [Xf.apply, Xf.dims]; split <;> rfl)

private theorem apply_h (f : Xf) {t : Tag} (v : View t) : (f.apply v).h = (f.dims v.w v.h).2 := by
  cases f <;> first | rfl | (simp only [Xf.apply, Xf.dims]; split <;> rfl)

private theorem ceilDiv_lt {x w s : Nat} (hs : 1 ≤ s) (hx : x < ceilDiv w s) : x * s < w := by
  unfold ceilDiv at hx
  have h1 : (x + 1) * s ≤ w + (s - 1) := (Nat.le_div_iff_mul_le (by omega)).mp hx
  rw [Nat.add_mul] at h1
  omega

/-- the documented coordinate map stays inside the source view -/
theorem C14_lift_in_range (f : Xf) {t : Tag} (v : View t) (x y : Nat) (hc : inContract f v.w v.h)
    (hx : x < (f.apply v).w) (hy : y < (f.apply v).h) :
    (f.phi v.w v.h x y).1 < v.w ∧ (f.phi v.w v.h x y).2 < v.h := by
  rw [apply_w] at hx; rw [apply_h] at hy
  cases f <;> simp only [Xf.dims, Xf.phi, inContract] at * <;> try omega
  exact ⟨ceilDiv_lt hc.1 hx, ceilDiv_lt hc.2 hy⟩

/-- cell reached through a transformed view = cell of the source at the documented coordinate
    (geometric transformations; `nth n` reads channel `n`; `cc` keeps the cells) -/
theorem C14_lift_cell (f : Xf) {t : Tag} (v : View t) (x y k : Nat)
    (hx : x < (f.apply v).w) (hy : y < (f.apply v).h) :
    (f.apply v).cell x y k =
      match f with
      | .nth n => v.cell x y (n + k)
      | _ => v.cell (f.phi v.w v.h x y).1 (f.phi v.w v.h x y).2 k := by
  rw [apply_w] at hx; rw [apply_h] at hy
  cases f <;> simp only [Xf.apply, Xf.phi, Xf.dims, View.cell, View.retag] at *
  · -- flipUD
    have e : ((v.h - 1 - y : Nat) : Int) = (v.h : Int) - 1 - y := by omega
    rw [e]; ring
  · have e : ((v.w - 1 - x : Nat) : Int) = (v.w : Int) - 1 - x := by omega
    rw [e]; ring
  · ring
  · -- rot90cw: result is h x w
    have e : ((v.h - 1 - x : Nat) : Int) = (v.h : Int) - 1 - x := by omega
    rw [e]; ring
  · have e : ((v.w - 1 - y : Nat) : Int) = (v.w : Int) - 1 - y := by omega
    rw [e]; ring
  · have e1 : ((v.w - 1 - x : Nat) : Int) = (v.w : Int) - 1 - x := by omega
    have e2 : ((v.h - 1 - y : Nat) : Int) = (v.h : Int) - 1 - y := by omega
    rw [e1, e2]; ring
  · push_cast; ring
  · push_cast; ring
  · push_cast; ring
  · split <;> rfl

/-- reading memory through a lifted geometric transformation = reading the held view at the documented coordinate -/
theorem C14_lift_reads (f : Xf) (hf : ∀ n, f ≠ .nth n) (hcc : ∀ d c, f ≠ .cc d c) (a : AnyView) (m : Mem) (x y : Nat)
    (hx : x < (f.lift a).width) (hy : y < (f.lift a).height) :
    (f.lift a).2.px m x y = a.2.px m (f.phi a.width a.height x y).1 (f.phi a.width a.height x y).2 := by
  obtain ⟨t, v⟩ := a
  have hcell := fun k => C14_lift_cell f v x y k hx hy
  cases f <;> simp only [Xf.lift, AnyView.width, AnyView.height, View.px, View.raw] at * <;>
    first
    | (exact absurd rfl (hf _))
    | (exact absurd rfl (hcc _ _))
    | (simp only [hcell]; rfl)

/-! ### the alternative is kept -/

/-- wrapping the result in the mapped type list selects the position of the source alternative whenever the
    mapping does not merge it with another alternative of the list -/
theorem C14_index_preserved {α β : Type} [DecidableEq α] [DecidableEq β] (L : List α) (g : α → β) (t : α)
    (hinj : ∀ u ∈ L, g u = g t → u = t) :
    indexOf (g t) (L.map g) = indexOf t L := by
  induction L with
  | nil => rfl
  | cons u us ih =>
    simp only [List.map, indexOf]
    by_cases h : u = t
    · simp [h]
    · have h' : g u ≠ g t := fun e => h (hinj u (List.mem_cons_self) e)
      simp only [h, h', if_false]
      rw [ih (fun w hw => hinj w (List.mem_cons_of_mem _ hw))]

/-- on the representative list every geometric transformation, subimage, subsampling and colour conversion to
    each destination type keeps the index (`nth_channel_view` merges alternatives: see the notes) -/
theorem C14_index_preserved_L7 :
    ∀ f ∈ [Xf.id, .flipUD, .flipLR, .transpose, .rot90cw, .rot90ccw, .rot180, .sub 0 0 1 1, .subs 1 1,
            .cc g8 .default, .cc rgb8 .default, .cc bgr8 .default, .cc rgb16 .default, .cc rgb8 (.sum 7)],
    ∀ fmt ∈ L7, indexOf (f.tag (Tag.ofFmt fmt)) (L7.map (fun g => f.tag (Tag.ofFmt g))) = indexOf fmt L7 := by
  decide

/-- the same on the second representative list (16-bit gray, argb, rgba, cmyk, rgb16 interleaved and planar) -/
theorem C14_index_preserved_LB :
    ∀ f ∈ [Xf.id, .flipUD, .flipLR, .transpose, .rot90cw, .rot90ccw, .rot180, .sub 0 0 1 1, .subs 1 1, .cc rgb8 (.sum 7)],
    ∀ fmt ∈ LB, indexOf (f.tag (Tag.ofFmt fmt)) (LB.map (fun g => f.tag (Tag.ofFmt g))) = indexOf fmt LB := by
  decide

/-! ### compatibility -/

theorem C14_compatible_iff (a b : Fmt) : compatible a b = true ↔ a.cs = b.cs ∧ a.depth = b.depth := by
  simp [compatible]

theorem C14_compatible_equiv :
    (∀ a, compatible a a = true) ∧ (∀ a b, compatible a b = compatible b a) ∧
    (∀ a b c, compatible a b = true → compatible b c = true → compatible a c = true) := by
  refine ⟨fun a => by simp [compatible], fun a b => ?_, fun a b c h1 h2 => ?_⟩
  · simp only [compatible]; congr 1 <;> exact decide_eq_decide.mpr ⟨Eq.symm, Eq.symm⟩
  · rw [C14_compatible_iff] at *; exact ⟨h1.1.trans h2.1, h1.2.trans h2.2⟩

/-- layout order and planar / interleaved organisation do not affect compatibility -/
theorem C14_compatible_ignores_layout (a b : Fmt) (r : Order) (o : Org) :
    compatible { a with order := r, org := o } b = compatible a b := rfl

/-- every layout order is a permutation of the colour-space order: `sem` inverts `phys` -/
theorem C14_layout_inverse (f : Fmt) (c : Nat) (h : c < f.nc) :
    f.sem (f.phys c) = c ∧ f.phys (f.sem c) = c ∧ f.phys c < f.nc ∧ f.sem c < f.nc := by
  obtain ⟨cs, o, d, g⟩ := f
  cases cs <;> cases o <;> cases d <;> cases g <;> (revert c; simp only [Fmt.nc, CS.n]; decide)

/-- assignment between two pixels of the SAME format is the identity (channels are paired by colour) -/
theorem C14_pair_same_format (f : Fmt) (p : List Nat) (hp : p.length = f.nc) : pairPx f f p = p := by
  unfold pairPx fromSem toSem
  apply List.ext_getElem
  · simp [hp]
  · intro k h1 h2
    have hk : k < f.nc := by simpa using h1
    obtain ⟨-, e2, -, h4⟩ := C14_layout_inverse f k hk
    have h5 : f.phys (f.sem k) < p.length := by rw [e2, hp]; exact hk
    simp only [List.getElem_map, List.getElem_range]
    rw [List.getD_eq_getElem?_getD, List.getElem?_map, List.getElem?_range h4]
    simp only [Option.map_some, Option.getD_some]
    rw [List.getD_eq_getElem?_getD, List.getElem?_eq_getElem h5]
    simp [e2]

/-! ### binary dispatch -/

/-- compatible alternatives: the concrete algorithm runs on the held views -/
theorem C14_binary_dispatch_compatible {β : Type} (f : {t1 t2 : Tag} → View t1 → View t2 → Mem → β × Mem)
    (a b : AnyView) (m : Mem) (h : compatible a.1.fmt b.1.fmt = true) :
    binaryOp f a b m = (.ok (f a.2 b.2 m).1, (f a.2 b.2 m).2) := by
  simp [binaryOp, h]

/-- incompatible alternatives: std::bad_cast, and the memory (hence the destination) is unchanged -/
theorem C14_binary_dispatch_incompatible {β : Type} (f : {t1 t2 : Tag} → View t1 → View t2 → Mem → β × Mem)
    (a b : AnyView) (m : Mem) (h : compatible a.1.fmt b.1.fmt = false) :
    binaryOp f a b m = (.error .badCast, m) := by
  simp [binaryOp, h]

/-- the four algorithms built on `binary_operation_obj` with the default `apply_incompatible` -/
theorem C14_binary_dispatch {t1 t2 : Tag} (s : View t1) (d : View t2) (m : Mem) (mat : List Int) :
    (compatible t1.fmt t2.fmt = true →
        anyCopyPixels (wrap s) (wrap d) m = (.ok (), copyPixels s d m) ∧
        anyEqualPixels (wrap s) (wrap d) m = (.ok (equalPixels s d m), m) ∧
        anyResample mat (wrap s) (wrap d) m = (.ok (), resampleNN mat s d m) ∧
        anyResize (wrap s) (wrap d) m = (.ok (), resampleNNF (resizeMatrix s.w s.h d.w d.h) s d m)) ∧
    (compatible t1.fmt t2.fmt = false →
        anyCopyPixels (wrap s) (wrap d) m = (.error .badCast, m) ∧
        anyEqualPixels (wrap s) (wrap d) m = (.error .badCast, m) ∧
        anyResample mat (wrap s) (wrap d) m = (.error .badCast, m) ∧
        anyResize (wrap s) (wrap d) m = (.error .badCast, m)) := by
  constructor <;> intro h <;>
    simp [anyCopyPixels, anyEqualPixels, anyResample, anyResize, binaryOp, wrap, h]

/-- copy_and_convert_pixels never throws: compatible = plain copy, otherwise copy from the colour-converted view -/
theorem C14_copy_and_convert {t1 t2 : Tag} (c : Conv) (s : View t1) (d : View t2) (m : Mem) :
    (anyCopyAndConvert c (wrap s) (wrap d) m).1 = .ok () ∧
    (compatible t1.fmt t2.fmt = true → (anyCopyAndConvert c (wrap s) (wrap d) m).2 = copyPixels s d m) ∧
    (compatible t1.fmt t2.fmt = false →
      (anyCopyAndConvert c (wrap s) (wrap d) m).2 = copyPixels (ccView c t2.fmt s) d m) := by
  refine ⟨?_, ?_, ?_⟩
  · by_cases h : compatible t1.fmt t2.fmt = true <;> simp [anyCopyAndConvert, wrap, h]
  · intro h; simp [anyCopyAndConvert, wrap, h]
  · intro h; simp [anyCopyAndConvert, wrap, h]

/-- the converter OBJECT the caller passes is the one applied: the converting copy depends on the converter's
    run-time state (an overload that used a default-constructed converter would store other values) -/
theorem C14_converter_state_matters :
    convSum 1 g8 [1, 2, 3] ≠ convSum 0 g8 [1, 2, 3] ∧
    ∀ (off : Nat) (df : Fmt) (p : List Nat), (convSum off df p).length = df.nc := by
  refine ⟨by decide, fun off df p => by simp [convSum]⟩

/-- bad_cast does not depend on the dimensions: incompatible alternatives of any two sizes throw, and the memory
    is unchanged (the equal-dimensions precondition of the concrete algorithm is only reached after the dispatch) -/
theorem C14_incompatible_any_dims (a b : AnyView) (m : Mem) (h : compatible a.1.fmt b.1.fmt = false) :
    anyEqualPixels a b m = (.error .badCast, m) ∧ anyCopyPixels a b m = (.error .badCast, m) := by
  simp [anyEqualPixels, anyCopyPixels, binaryOp, h]

/-- fill_pixels on a run-time typed view: concrete fill for a compatible value, else bad_cast and nothing changes -/
theorem C14_fill_dispatch {t : Tag} (v : View t) (pf : Fmt) (p : List Nat) (m : Mem) :
    (compatible t.fmt pf = true → anyFillPixels (wrap v) pf p m = (.ok (), fillPixels v pf p m)) ∧
    (compatible t.fmt pf = false → anyFillPixels (wrap v) pf p m = (.error .badCast, m)) := by
  constructor <;> intro h <;> simp [anyFillPixels, wrap, h]

/-- for_each_pixel on a run-time typed view is for_each_pixel on the held view (functor state included) -/
theorem C14_foreach_lift {t : Tag} (v : View t) (m : Mem) : anyForEach (wrap v) m = forEachCount v m := rfl

/-- the mixed overloads (one run-time typed, one concrete view) dispatch like the fully run-time typed one on the
    wrapped concrete view: `visit(bind(op, _1, dst), src)` reaches `op(held(src), dst)` -/
theorem C14_mixed_overloads {t1 t2 : Tag} (s : View t1) (d : View t2) (m : Mem) :
    anyCopyPixels ⟨t1, s⟩ (wrap d) m = anyCopyPixels (wrap s) ⟨t2, d⟩ m := rfl

/-! ### frame: a lifted algorithm touches no cell outside the destination view -/

/-- the cells of a view -/
def owns {t : Tag} (v : View t) (c : Int) : Prop := ∃ x y k, x < v.w ∧ y < v.h ∧ k < v.ns ∧ v.cell x y k = c

private theorem foldl_keeps {α : Type} (l : List α) (step : Mem → α → Mem) (c : Int)
    (h : ∀ m a, a ∈ l → (step m a).get c = m.get c) (m : Mem) : (l.foldl step m).get c = m.get c := by
  induction l generalizing m with
  | nil => rfl
  | cons a as ih =>
    simp only [List.foldl]
    rw [ih (fun m b hb => h m b (List.mem_cons_of_mem _ hb)), h m a (List.mem_cons_self)]

private theorem mem_coords {w h x y : Nat} : (x, y) ∈ coords w h ↔ x < w ∧ y < h := by
  simp only [coords, List.mem_flatMap, List.mem_map, List.mem_range, Prod.mk.injEq]
  constructor
  · rintro ⟨y', hy, x', hx, rfl, rfl⟩; exact ⟨hx, hy⟩
  · rintro ⟨hx, hy⟩; exact ⟨y, hy, x, hx, rfl, rfl⟩

private theorem write_keeps {t : Tag} (v : View t) (m : Mem) (x y : Nat) (p : List Nat) (c : Int)
    (hx : x < v.w) (hy : y < v.h) (h : ¬ owns v c) : (v.write m x y p).get c = m.get c := by
  unfold View.write
  apply foldl_keeps
  intro m' k hk
  have hk' : k < v.ns := List.mem_range.mp hk
  have hne : c ≠ v.cell x y k := fun e => h ⟨x, y, k, hx, hy, hk', e.symm⟩
  simp [upd, hne]

theorem C14_copy_frame {t1 t2 : Tag} (s : View t1) (d : View t2) (m : Mem) (c : Int) (h : ¬ owns d c) :
    (copyPixels s d m).get c = m.get c := by
  unfold copyPixels
  apply foldl_keeps
  intro m' xy hxy
  obtain ⟨hx, hy⟩ := mem_coords.mp (show (xy.1, xy.2) ∈ coords d.w d.h from hxy)
  exact write_keeps d m' xy.1 xy.2 _ c hx hy h

theorem C14_fill_frame {t : Tag} (v : View t) (pf : Fmt) (p : List Nat) (m : Mem) (c : Int) (h : ¬ owns v c) :
    (fillPixels v pf p m).get c = m.get c := by
  unfold fillPixels
  apply foldl_keeps
  intro m' xy hxy
  obtain ⟨hx, hy⟩ := mem_coords.mp (show (xy.1, xy.2) ∈ coords v.w v.h from hxy)
  exact write_keeps v m' xy.1 xy.2 _ c hx hy h

theorem C14_resample_frame {t1 t2 : Tag} (mat : List Int) (s : View t1) (d : View t2) (m : Mem) (c : Int)
    (h : ¬ owns d c) : (resampleNN mat s d m).get c = m.get c := by
  unfold resampleNN
  apply foldl_keeps
  intro m' xy hxy
  obtain ⟨hx, hy⟩ := mem_coords.mp (show (xy.1, xy.2) ∈ coords d.w d.h from hxy)
  simp only
  split
  · exact write_keeps d m' xy.1 xy.2 _ c hx hy h
  · rfl

/-- every lifted writing algorithm, whatever the two alternatives: cells outside the destination keep their value
    (compatible or not, converting or not) -/
theorem C14_any_frame (a b : AnyView) (m : Mem) (c : Int) (h : ¬ owns b.2 c) (cv : Conv) (mat : List Int) :
    (anyCopyPixels a b m).2.get c = m.get c ∧ (anyCopyAndConvert cv a b m).2.get c = m.get c ∧
    (anyResample mat a b m).2.get c = m.get c ∧ (anyEqualPixels a b m).2.get c = m.get c := by
  refine ⟨?_, ?_, ?_, ?_⟩
  · simp only [anyCopyPixels, binaryOp]; split
    · exact C14_copy_frame _ _ _ _ h
    · rfl
  · simp only [anyCopyAndConvert]; split <;> exact C14_copy_frame _ _ _ _ h
  · simp only [anyResample, binaryOp]; split
    · exact C14_resample_frame _ _ _ _ _ h
    · rfl
  · simp only [anyEqualPixels, binaryOp]; split <;> rfl


/-! ### what a compatible copy stores (the "concrete result" that the dispatch theorems refer to) -/

/-- distinct (pixel, channel) slots of the view occupy distinct cells -/
def cellsInjective {t : Tag} (v : View t) : Prop :=
  ∀ x y k x' y' k', x < v.w → y < v.h → k < v.ns → x' < v.w → y' < v.h → k' < v.ns →
    v.cell x y k = v.cell x' y' k' → x = x' ∧ y = y' ∧ k = k'

private theorem write_get' {t : Tag} (v : View t) (x y : Nat) (p : List Nat)
    (hinj : ∀ j n, j < v.ns → n < v.ns → v.cell x y j = v.cell x y n → j = n) :
    ∀ n (m : Mem) (j : Nat), n ≤ v.ns → j < n →
      ((List.range n).foldl (fun m k => upd m (v.cell x y k) (p.getD k 0)) m).get (v.cell x y j) = p.getD j 0 := by
  intro n
  induction n with
  | zero => intro m j _ hj; omega
  | succ n ih =>
    intro m j hn hj
    rw [List.range_succ, List.foldl_append]
    simp only [List.foldl, upd]
    by_cases hjn : j = n
    · subst hjn; simp
    · have hne : v.cell x y j ≠ v.cell x y n := fun e => hjn (hinj j n (by omega) (by omega) e)
      simp only [hne, if_false]
      exact ih m j (by omega) (by omega)

private theorem raw_write_same {t : Tag} (v : View t) (m : Mem) (x y : Nat) (p : List Nat) (hx : x < v.w) (hy : y < v.h)
    (hinj : cellsInjective v) (hp : p.length = v.ns) : v.raw (v.write m x y p) x y = p := by
  unfold View.raw View.write
  apply List.ext_getElem
  · simp [hp]
  · intro j h1 h2
    simp only [List.getElem_map, List.getElem_range]
    have hj : j < v.ns := by simpa using h1
    rw [write_get' v x y p (fun a b ha hb e => (hinj x y a x y b hx hy ha hx hy hb e).2.2) v.ns m j (Nat.le_refl _) hj]
    simp [List.getD, List.getElem?_eq_getElem h2]

private theorem raw_write_other {t : Tag} (v : View t) (m : Mem) (x y x' y' : Nat) (p : List Nat)
    (hx : x < v.w) (hy : y < v.h) (hx' : x' < v.w) (hy' : y' < v.h) (hne : (x', y') ≠ (x, y))
    (hinj : cellsInjective v) : v.raw (v.write m x y p) x' y' = v.raw m x' y' := by
  unfold View.raw
  apply List.map_congr_left
  intro k hk
  have hk' : k < v.ns := List.mem_range.mp hk
  unfold View.write
  apply foldl_keeps
  intro m' j hj
  have hj' : j < v.ns := List.mem_range.mp hj
  have : v.cell x' y' k ≠ v.cell x y j := by
    intro e
    obtain ⟨e1, e2, -⟩ := hinj x' y' k x y j hx' hy' hk' hx hy hj' e
    exact hne (by rw [e1, e2])
  simp [upd, this]

private theorem px_congr {t : Tag} (v : View t) (m m' : Mem) (x y : Nat) (hx : x < v.w) (hy : y < v.h)
    (h : ∀ c, owns v c → m'.get c = m.get c) : v.px m' x y = v.px m x y := by
  unfold View.px View.raw
  congr 1
  apply List.map_congr_left
  intro k hk
  exact h _ ⟨x, y, k, hx, hy, List.mem_range.mp hk, rfl⟩

private theorem pairPx_length (a b : Fmt) (p : List Nat) : (pairPx a b p).length = b.nc := by
  simp [pairPx, fromSem]

private theorem copy_fold {t1 t2 : Tag} (s : View t1) (d : View t2) (m : Mem)
    (hw : s.w = d.w) (hh : s.h = d.h) (hinj : cellsInjective d) (hdis : ∀ c, owns d c → ¬ owns s c)
    (hns : d.ns = t2.fmt.nc) (l : List (Nat × Nat)) (hl : ∀ a ∈ l, a.1 < d.w ∧ a.2 < d.h) :
    (∀ c, owns s c → (l.foldl (fun m xy => d.write m xy.1 xy.2 (pairPx t1.fmt t2.fmt (s.px m xy.1 xy.2))) m).get c = m.get c) ∧
    (∀ b ∈ l, d.raw (l.foldl (fun m xy => d.write m xy.1 xy.2 (pairPx t1.fmt t2.fmt (s.px m xy.1 xy.2))) m) b.1 b.2 =
        pairPx t1.fmt t2.fmt (s.px m b.1 b.2)) := by
  induction l using List.reverseRecOn with
  | nil => exact ⟨fun _ _ => rfl, fun b hb => absurd hb List.not_mem_nil⟩
  | append_singleton l a ih =>
    have hl' : ∀ b ∈ l, b.1 < d.w ∧ b.2 < d.h := fun b hb => hl b (List.mem_append_left _ hb)
    obtain ⟨ihA, ihB⟩ := ih hl'
    obtain ⟨hax, hay⟩ := hl a (List.mem_append_right _ (List.mem_singleton_self a))
    rw [List.foldl_append]
    simp only [List.foldl]
    constructor
    · intro c hc
      rw [write_keeps d _ a.1 a.2 _ c hax hay (fun ho => hdis c ho hc)]
      exact ihA c hc
    · intro b hb
      by_cases hba : b = a
      · subst hba
        rw [raw_write_same d _ b.1 b.2 _ hax hay hinj (by rw [pairPx_length, hns])]
        rw [px_congr s m _ b.1 b.2 (by omega) (by omega) ihA]
      · have hbl : b ∈ l := by
          rcases List.mem_append.mp hb with h | h
          · exact h
          · exact absurd (List.mem_singleton.mp h) hba
        obtain ⟨hbx, hby⟩ := hl' b hbl
        rw [raw_write_other d _ a.1 a.2 b.1 b.2 _ hax hay hbx hby (fun e => hba (Prod.ext (by simpa using congrArg Prod.fst e) (by simpa using congrArg Prod.snd e))) hinj]
        exact ihB b hbl

/-- `copy_pixels` on views of equal dimensions, the destination's slots being distinct cells none of which the
    source reads: afterwards every destination pixel holds the source pixel, channels paired by colour, and the
    source is unchanged. With `C14_binary_dispatch` this is what the run-time typed `copy_pixels` (and the
    compatible branch of `copy_and_convert_pixels`) stores for every pair of compatible alternatives. -/
theorem C14_copy_pixels_correct {t1 t2 : Tag} (s : View t1) (d : View t2) (m : Mem)
    (hw : s.w = d.w) (hh : s.h = d.h) (hinj : cellsInjective d) (hdis : ∀ c, owns d c → ¬ owns s c)
    (hns : d.ns = t2.fmt.nc) (x y : Nat) (hx : x < d.w) (hy : y < d.h) :
    d.raw (copyPixels s d m) x y = pairPx t1.fmt t2.fmt (s.px m x y) ∧
    s.px (copyPixels s d m) x y = s.px m x y := by
  have h := copy_fold s d m hw hh hinj hdis hns (coords d.w d.h) (fun a ha => mem_coords.mp ha)
  exact ⟨h.2 (x, y) (mem_coords.mpr ⟨hx, hy⟩), px_congr s m _ x y (by omega) (by omega) h.1⟩

/-! ### any_image_view is a shallow value, any_image a deep one -/

private theorem write_get {t : Tag} (v : View t) (x y : Nat) (p : List Nat) (hks : v.ks ≠ 0) :
    ∀ n (m : Mem) (j : Nat), j < n →
      ((List.range n).foldl (fun m k => upd m (v.cell x y k) (p.getD k 0)) m).get (v.cell x y j) = p.getD j 0 := by
  intro n
  induction n with
  | zero => intro m j hj; omega
  | succ n ih =>
    intro m j hj
    rw [List.range_succ, List.foldl_append]
    simp only [List.foldl, upd]
    by_cases hjn : j = n
    · subst hjn; simp
    · have hne : v.cell x y j ≠ v.cell x y n := by
        simp only [View.cell]
        intro e
        have : ((j : Int) - n) * v.ks = 0 := by linarith
        rcases Int.mul_eq_zero.mp this with h0 | h0
        · omega
        · exact hks h0
      simp only [hne, if_false]
      exact ih m j (by omega)

/-- what is written through a view is what is read back through it (distinct channel cells) -/
theorem C14_write_read {t : Tag} (v : View t) (m : Mem) (x y : Nat) (p : List Nat)
    (hks : v.ks ≠ 0) (hp : p.length = v.ns) : v.raw (v.write m x y p) x y = p := by
  unfold View.raw View.write
  apply List.ext_getElem
  · simp [hp]
  · intro j h1 h2
    simp only [List.getElem_map, List.getElem_range]
    have hj : j < v.ns := by simpa using h1
    rw [write_get v x y p hks v.ns m j hj]
    simp [List.getD, List.getElem?_eq_getElem h2]

/-- copy construction / assignment of an any_image_view yields the same alternative over the SAME cells: a write
    through the copy is read back through the original (shallow), and the copy compares equal to the original -/
theorem C14_view_shallow (a : AnyView) (m : Mem) (x y : Nat) (p : List Nat)
    (hks : a.2.ks ≠ 0) (hp : p.length = a.2.ns) :
    let b : AnyView := a                        -- the copy
    b.1 = a.1 ∧ a.2.raw (b.2.write m x y p) x y = p ∧ a.beq b = true := by
  refine ⟨rfl, C14_write_read a.2 m x y p hks hp, ?_⟩
  simp [AnyView.beq]


private theorem apply_ns (f : Xf) (hf : ∀ n, f ≠ .nth n) {t : Tag} (v : View t) : (f.apply v).ns = v.ns := by
  cases f <;> first | rfl | (exact absurd rfl (hf _)) | (simp only [Xf.apply]; split <;> rfl)

private theorem write_congr {t1 t2 : Tag} (v1 : View t1) (v2 : View t2) (m : Mem) (x1 y1 x2 y2 : Nat) (p : List Nat)
    (hn : v1.ns = v2.ns) (hc : ∀ k, v1.cell x1 y1 k = v2.cell x2 y2 k) :
    v1.write m x1 y1 p = v2.write m x2 y2 p := by
  unfold View.write
  rw [hn]
  congr 1
  funext m' k
  rw [hc k]

/-- a lifted geometric transformation is a VIEW: a pixel stored through the transformed view is stored in the
    held view at the documented coordinate (and nowhere else, by the frame theorems) -/
theorem C14_lift_write_through (f : Xf) (hf : ∀ n, f ≠ .nth n) {t : Tag} (v : View t)
    (m : Mem) (x y : Nat) (p : List Nat) (hx : x < (f.apply v).w) (hy : y < (f.apply v).h)
    (hks : v.ks ≠ 0) (hp : p.length = v.ns) :
    v.raw ((f.lift (wrap v)).2.write m x y p) (f.phi v.w v.h x y).1 (f.phi v.w v.h x y).2 = p := by
  have hcell : ∀ k, (f.apply v).cell x y k = v.cell (f.phi v.w v.h x y).1 (f.phi v.w v.h x y).2 k := by
    intro k
    have h := C14_lift_cell f v x y k hx hy
    cases f <;> first | (exact absurd rfl (hf _)) | (exact h)
  show v.raw ((f.apply v).write m x y p) _ _ = p
  rw [write_congr (f.apply v) v m x y _ _ p (apply_ns f hf v) hcell]
  exact C14_write_read v m _ _ p hks hp

/-- lifted transformations compose like the concrete ones -/
theorem C14_lift_compose (f g : Xf) {t : Tag} (v : View t) : f.lift (g.lift (wrap v)) = wrap (f.apply (g.apply v)) := rfl

/-! ### images -/

private theorem lin_lt {x y w h : Nat} (hx : x < w) (hy : y < h) : y * w + x < w * h := by
  have : (y + 1) * w ≤ h * w := Nat.mul_le_mul_right w hy
  rw [Nat.add_mul, Nat.mul_comm h w] at this
  omega

/-- every cell of an image's view lies in the block the image owns -/
theorem C14_image_cells_in_block {f : Fmt} (i : Image f) (x y k : Nat) (hx : x < i.w) (hy : y < i.h) (hk : k < f.nc) :
    (i.base : Int) ≤ i.view.cell x y k ∧ i.view.cell x y k < i.base + i.size := by
  have hl := lin_lt hx hy
  have hb : (y * i.w + x) * f.nc + k < i.w * i.h * f.nc := by
    have : (y * i.w + x + 1) * f.nc ≤ i.w * i.h * f.nc := Nat.mul_le_mul_right _ hl
    rw [Nat.add_mul] at this; omega
  have hp : k * (i.w * i.h) + (y * i.w + x) < i.w * i.h * f.nc := by
    have : (k + 1) * (i.w * i.h) ≤ f.nc * (i.w * i.h) := Nat.mul_le_mul_right _ hk
    rw [Nat.add_mul, Nat.mul_comm f.nc] at this; omega
  unfold Image.view Image.size View.cell
  have hb' : ((y : Int) * i.w + x) * f.nc + k < (i.w : Int) * i.h * f.nc := by exact_mod_cast hb
  have hp' : (k : Int) * (i.w * i.h) + (y * i.w + x) < (i.w : Int) * i.h * f.nc := by exact_mod_cast hp
  have n1 : (0 : Int) ≤ (x : Int) * f.nc + y * (i.w * f.nc) + k * 1 := by positivity
  have n2 : (0 : Int) ≤ (x : Int) * 1 + y * i.w + k * (i.w * i.h) := by positivity
  cases f.org <;> simp only <;> constructor <;> push_cast <;> nlinarith [hb', hp', n1, n2]

/-- copying an any_image yields the same alternative and dimensions over FRESH storage: no cell of the copy is a
    cell of the original (deep), so a write through the copy's view leaves every pixel of the original unchanged -/
theorem C14_copy_deep (a : AnyImage) (hp : Heap) (hfit : a.2.base + a.2.size ≤ hp.next)
    (x y k x' y' k' : Nat) (hx : x < a.2.w) (hy : y < a.2.h) (hk : k < a.1.nc)
    (hx' : x' < a.2.w) (hy' : y' < a.2.h) (hk' : k' < a.1.nc) :
    (a.copy hp).1.1 = a.1 ∧ (a.copy hp).1.2.w = a.2.w ∧ (a.copy hp).1.2.h = a.2.h ∧
    (a.copy hp).1.2.view.cell x y k ≠ a.2.view.cell x' y' k' := by
  refine ⟨rfl, rfl, rfl, ?_⟩
  have h1 := C14_image_cells_in_block a.2 x' y' k' hx' hy' hk'
  have h2 := C14_image_cells_in_block (a.copy hp).1.2 x y k hx hy hk
  have hb : (a.copy hp).1.2.base = hp.next := rfl
  rw [hb] at h2
  have : ((a.2.base + a.2.size : Nat) : Int) ≤ hp.next := by exact_mod_cast hfit
  push_cast at this
  omega


private theorem decode_interleaved {f : Fmt} (ho : f.org ≠ .planar) (w h x y k : Nat) (hx : x < w) (hk : k < f.nc) :
    decodeCell f w h ((y * w + x) * f.nc + k) = (x, y, k) := by
  have hnc : 0 < f.nc := by omega
  have hw : 0 < w := by omega
  have e1 : ((y * w + x) * f.nc + k) / f.nc = y * w + x := by
    rw [Nat.mul_comm, Nat.mul_add_div hnc, Nat.div_eq_of_lt hk]; rfl
  have e2 : ((y * w + x) * f.nc + k) % f.nc = k := by rw [Nat.mul_comm, Nat.mul_add_mod, Nat.mod_eq_of_lt hk]
  have e3 : (y * w + x) % w = x := by rw [Nat.mul_comm, Nat.mul_add_mod, Nat.mod_eq_of_lt hx]
  have e4 : (y * w + x) / w = y := by rw [Nat.mul_comm, Nat.mul_add_div hw, Nat.div_eq_of_lt hx]; rfl
  unfold decodeCell
  cases ho' : f.org <;> simp_all

private theorem decode_planar {f : Fmt} (ho : f.org = .planar) (w h x y k : Nat) (hx : x < w) (hy : y < h) :
    decodeCell f w h (k * (w * h) + (y * w + x)) = (x, y, k) := by
  have hl := lin_lt hx hy
  have hwh : 0 < w * h := by omega
  have hw : 0 < w := by omega
  have e1 : (k * (w * h) + (y * w + x)) % (w * h) = y * w + x := by
    rw [Nat.mul_comm, Nat.mul_add_mod, Nat.mod_eq_of_lt hl]
  have e2 : (k * (w * h) + (y * w + x)) / (w * h) = k := by
    rw [Nat.mul_comm, Nat.mul_add_div hwh, Nat.div_eq_of_lt hl]; rfl
  have e3 : (y * w + x) % w = x := by rw [Nat.mul_comm, Nat.mul_add_mod, Nat.mod_eq_of_lt hx]
  have e4 : (y * w + x) / w = y := by rw [Nat.mul_comm, Nat.mul_add_div hw, Nat.div_eq_of_lt hx]; rfl
  unfold decodeCell
  simp only [ho, e1, e2, e3, e4]

private theorem newImage_get (hp : Heap) (f : Fmt) (w h : Nat) (init : Nat → Nat → Nat → Nat) (c : Int) :
    (hp.newImage f w h init).2.mem.get c =
      if (hp.next : Int) ≤ c ∧ c < (hp.next : Int) + ((w * h * f.nc : Nat) : Int) then
        init (decodeCell f w h (c - (hp.next : Int)).toNat).1 (decodeCell f w h (c - (hp.next : Int)).toNat).2.1
             (decodeCell f w h (c - (hp.next : Int)).toNat).2.2
      else hp.mem.get c := rfl

/-- a freshly allocated image holds `init x y k` in the cell of channel k of pixel (x,y) -/
theorem C14_new_image_content (hp : Heap) (f : Fmt) (w h : Nat) (init : Nat → Nat → Nat → Nat) (x y k : Nat)
    (hx : x < w) (hy : y < h) (hk : k < f.nc) :
    (hp.newImage f w h init).2.mem.get ((hp.newImage f w h init).1.view.cell x y k) = init x y k := by
  have hblk := C14_image_cells_in_block (hp.newImage f w h init).1 x y k hx hy hk
  have hbase : (hp.newImage f w h init).1.base = hp.next := rfl
  have hsize : (hp.newImage f w h init).1.size = w * h * f.nc := rfl
  rw [hbase, hsize] at hblk
  rw [newImage_get, if_pos hblk]
  by_cases ho : f.org = .planar
  · have hoff : (hp.newImage f w h init).1.view.cell x y k - (hp.next : Int) = ((k * (w * h) + (y * w + x) : Nat) : Int) := by
      simp only [Image.view, Heap.newImage, ho, View.cell]; push_cast; ring
    rw [hoff, Int.toNat_natCast, decode_planar ho w h x y k hx hy]
  · have hoff : (hp.newImage f w h init).1.view.cell x y k - (hp.next : Int) = (((y * w + x) * f.nc + k : Nat) : Int) := by
      simp only [Image.view, Heap.newImage, View.cell]
      cases ho' : f.org <;> simp_all <;> ring
    rw [hoff, Int.toNat_natCast, decode_interleaved ho w h x y k hx hk]

/-- the copy of an any_image holds, pixel for pixel and channel for channel, the values of the original -/
theorem C14_copy_deep_content (a : AnyImage) (hp : Heap) (x y k : Nat) (hx : x < a.2.w) (hy : y < a.2.h) (hk : k < a.1.nc) :
    (a.copy hp).2.mem.get ((a.copy hp).1.2.view.cell x y k) = hp.mem.get (a.2.view.cell x y k) := by
  exact C14_new_image_content hp a.1 a.2.w a.2.h (fun x y k => hp.mem.get (a.2.view.cell x y k)) x y k hx hy hk

/-- storage that existed before the copy is not modified by it -/
theorem C14_copy_keeps_old_cells (a : AnyImage) (hp : Heap) (c : Int) (hc : c < hp.next) :
    (a.copy hp).2.mem.get c = hp.mem.get c := by
  simp only [AnyImage.copy]
  rw [newImage_get, if_neg (by omega)]


private theorem view_ns {f : Fmt} (i : Image f) : i.view.ns = f.nc ∧ i.view.w = i.w ∧ i.view.h = i.h := by
  unfold Image.view; cases f.org <;> exact ⟨rfl, rfl, rfl⟩

/-- offset of slot (x,y,k) inside the image's block -/
private def slotOff (f : Fmt) (w h x y k : Nat) : Nat :=
  if f.org = .planar then k * (w * h) + (y * w + x) else (y * w + x) * f.nc + k

private theorem cell_eq_off {f : Fmt} (i : Image f) (x y k : Nat) :
    i.view.cell x y k = (i.base : Int) + (slotOff f i.w i.h x y k : Nat) := by
  unfold slotOff Image.view View.cell
  cases ho : f.org <;> simp <;> ring

private theorem decode_off {f : Fmt} (w h x y k : Nat) (hx : x < w) (hy : y < h) (hk : k < f.nc) :
    decodeCell f w h (slotOff f w h x y k) = (x, y, k) := by
  unfold slotOff
  by_cases ho : f.org = .planar
  · rw [if_pos ho]; exact decode_planar ho w h x y k hx hy
  · rw [if_neg ho]; exact decode_interleaved ho w h x y k hx hk

/-- the slots of an image are distinct cells -/
theorem C14_image_view_injective {f : Fmt} (i : Image f) : cellsInjective i.view := by
  intro x y k x' y' k' hx hy hk hx' hy' hk' e
  obtain ⟨hn, hw, hh⟩ := view_ns i
  rw [hw] at hx hx'; rw [hh] at hy hy'; rw [hn] at hk hk'
  rw [cell_eq_off, cell_eq_off] at e
  have e' : slotOff f i.w i.h x y k = slotOff f i.w i.h x' y' k' := by omega
  have d1 := decode_off (f := f) i.w i.h x y k hx hy hk
  have d2 := decode_off (f := f) i.w i.h x' y' k' hx' hy' hk'
  rw [e'] at d1
  have := d1.symm.trans d2
  simp only [Prod.mk.injEq] at this
  exact this

/-- `copy_pixels(view(a), view(b))` through the run-time typed interface, for two any_images of compatible
    alternatives and equal dimensions living in disjoint blocks: succeeds, every pixel of `b` then holds the pixel
    of `a` (channels paired by colour), `a` is unchanged -/
theorem C14_any_copy_between_images (a b : AnyImage) (m : Mem) (hc : compatible a.1 b.1 = true)
    (hw : a.2.w = b.2.w) (hh : a.2.h = b.2.h) (hdis : a.2.base + a.2.size ≤ b.2.base)
    (x y : Nat) (hx : x < b.2.w) (hy : y < b.2.h) :
    (anyCopyPixels a.view b.view m).1 = .ok () ∧
    b.2.view.raw (anyCopyPixels a.view b.view m).2 x y = pairPx a.1 b.1 (a.2.view.px m x y) ∧
    a.2.view.px (anyCopyPixels a.view b.view m).2 x y = a.2.view.px m x y := by
  obtain ⟨hna, hwa, hha⟩ := view_ns a.2
  obtain ⟨hnb, hwb, hhb⟩ := view_ns b.2
  have hdisj : ∀ c, owns b.2.view c → ¬ owns a.2.view c := by
    rintro c ⟨x1, y1, k1, h1, h2, h3, rfl⟩ ⟨x2, y2, k2, g1, g2, g3, e⟩
    rw [hwb] at h1; rw [hhb] at h2; rw [hnb] at h3; rw [hwa] at g1; rw [hha] at g2; rw [hna] at g3
    have b1 := C14_image_cells_in_block b.2 x1 y1 k1 h1 h2 h3
    have b2 := C14_image_cells_in_block a.2 x2 y2 k2 g1 g2 g3
    have : ((a.2.base + a.2.size : Nat) : Int) ≤ b.2.base := by exact_mod_cast hdis
    push_cast at this
    omega
  have key := C14_copy_pixels_correct a.2.view b.2.view m (by rw [hwa, hwb, hw]) (by rw [hha, hhb, hh])
    (C14_image_view_injective b.2) hdisj hnb x y (by rw [hwb]; exact hx) (by rw [hhb]; exact hy)
  have hd : anyCopyPixels a.view b.view m = (.ok (), copyPixels a.2.view b.2.view m) := by
    simp [anyCopyPixels, binaryOp, AnyImage.view, Tag.ofFmt, hc]
  rw [hd]
  exact ⟨rfl, key.1, key.2⟩

/-- recreate keeps the held type (and therefore the index in any type list) and sets the new dimensions -/
theorem C14_recreate_keeps_type (a : AnyImage) (w h : Nat) (hp : Heap) (L : List Fmt) :
    (a.recreate w h hp).1.1 = a.1 ∧ (a.recreate w h hp).1.index L = a.index L ∧
    (a.recreate w h hp).1.width = w ∧ (a.recreate w h hp).1.height = h ∧
    (a.recreate w h hp).1.numChannels = a.numChannels :=
  ⟨rfl, rfl, rfl, rfl, rfl⟩

/-- `view(any_image)` holds the view of the held image, in the corresponding alternative -/
theorem C14_view_of_any_image (a : AnyImage) (L : List Fmt) :
    a.view = wrap a.2.view ∧ a.view.width = a.width ∧ a.view.height = a.height ∧
    a.view.numChannels = a.numChannels ∧
    a.view.index (L.map Tag.ofFmt) = a.index L := by
  refine ⟨rfl, ?_, ?_, rfl, ?_⟩
  · simp only [AnyImage.view, AnyView.width, AnyImage.width, Image.view]; cases a.1.org <;> rfl
  · simp only [AnyImage.view, AnyView.height, AnyImage.height, Image.view]; cases a.1.org <;> rfl
  · simp only [AnyView.index, AnyImage.index, AnyImage.view]
    apply C14_index_preserved
    intro u _ hu
    simpa [Tag.ofFmt] using hu

/-! ### equality lifts -/

/-- any_image equality: same alternative and the concrete images equal (dimensions and pixels: deep) -/
theorem C14_image_equality_lifts (a b : AnyImage) (m : Mem) :
    a.beq b m = true ↔ a.1 = b.1 ∧ a.2.w = b.2.w ∧ a.2.h = b.2.h ∧ equalPixels a.2.view b.2.view m = true := by
  simp [AnyImage.beq, and_assoc]

/-- any_image_view equality: same alternative and the same concrete view (same cells: shallow). In particular two
    views over different storage are different even when all pixels agree. -/
theorem C14_view_equality_lifts (a b : AnyView) :
    a.beq b = true ↔ a.1 = b.1 ∧ a.2.w = b.2.w ∧ a.2.h = b.2.h ∧ a.2.org0 = b.2.org0 ∧ a.2.xs = b.2.xs ∧
      a.2.ys = b.2.ys ∧ a.2.ks = b.2.ks ∧ a.2.ns = b.2.ns ∧ a.2.adapt = b.2.adapt := by
  simp [AnyView.beq, View.retag]

/-- the view of a deep copy differs from the view of the original (any_image_view equality is shallow) -/
theorem C14_view_of_copy_differs (a : AnyImage) (hp : Heap) (h : a.2.base ≠ hp.next) :
    (a.copy hp).1.view.beq a.view = false := by
  have : ¬ ((a.copy hp).1.view.beq a.view = true) := by
    rw [C14_view_equality_lifts]
    rintro ⟨-, -, -, h0, -⟩
    apply h
    have e : (a.copy hp).1.2.base = hp.next := rfl
    simp only [AnyImage.view, Image.view] at h0
    cases ho : a.1.org <;> simp only [AnyImage.copy, Heap.newImage, ho] at h0 <;> exact_mod_cast h0.symm
  simpa using this


/-! ### deepening round 3: every overload shape, every binary algorithm, what fill / for_each / copies store -/

/-- the three overload shapes of a `binary_operation_obj` algorithm (any/any, any/concrete, concrete/any) as they
    are written in algorithm.hpp (`visit(op)`, `visit(bind(op, _1, dst))`, `visit(bind(op, src, _1))`) all reach
    `op(held(src), held(dst))`; `binaryOp` (used by the driver) is the any/any shape -/
theorem C14_overload_shapes {β : Type} (f : {t1 t2 : Tag} → View t1 → View t2 → Mem → β × Mem)
    {t1 t2 : Tag} (s : View t1) (d : View t2) (m : Mem) :
    binAA f (wrap s) (wrap d) m = binObj f s d m ∧ binAC f (wrap s) d m = binObj f s d m ∧
    binCA f s (wrap d) m = binObj f s d m ∧ binaryOp f (wrap s) (wrap d) m = binObj f s d m ∧
    applyOperation2 (wrap s) (wrap d) (fun s d => binObj f s d m) = binObj f s d m :=
  ⟨rfl, rfl, rfl, rfl, rfl⟩

/-- EVERY algorithm built on `binary_operation_obj`, in EVERY overload shape: incompatible alternatives give
    std::bad_cast and the whole memory (hence the destination) is exactly what it was; compatible alternatives
    give the concrete algorithm's value and memory -/
theorem C14_bad_cast_every_binary {β : Type} (f : {t1 t2 : Tag} → View t1 → View t2 → Mem → β × Mem)
    {t1 t2 : Tag} (s : View t1) (d : View t2) (m : Mem) :
    (compatible t1.fmt t2.fmt = false →
      binAA f (wrap s) (wrap d) m = (.error .badCast, m) ∧ binAC f (wrap s) d m = (.error .badCast, m) ∧
      binCA f s (wrap d) m = (.error .badCast, m)) ∧
    (compatible t1.fmt t2.fmt = true →
      binAA f (wrap s) (wrap d) m = (.ok (f s d m).1, (f s d m).2) ∧ binAC f (wrap s) d m = (.ok (f s d m).1, (f s d m).2) ∧
      binCA f s (wrap d) m = (.ok (f s d m).1, (f s d m).2)) := by
  constructor <;> intro h <;> simp [binAA, binAC, binCA, visit1, visit2, binObj, wrap, h]

/-- `copy_and_convert_pixels`: the mixed overloads (any/concrete, concrete/any, with or without a converter object)
    store what the any/any overload stores; none of them ever throws; the converter passed is the one applied -/
theorem C14_ccopy_overload_shapes (c : Conv) {t1 t2 : Tag} (s : View t1) (d : View t2) (m : Mem) :
    ccAA c (wrap s) (wrap d) m = anyCopyAndConvert c (wrap s) (wrap d) m ∧
    ccAC c (wrap s) d m = anyCopyAndConvert c (wrap s) (wrap d) m ∧
    ccCA c s (wrap d) m = anyCopyAndConvert c (wrap s) (wrap d) m ∧
    (ccAC c (wrap s) d m).1 = .ok () ∧ (ccCA c s (wrap d) m).1 = .ok () ∧
    (compatible t1.fmt t2.fmt = false → (ccCA c s (wrap d) m).2 = copyPixels (ccView c t2.fmt s) d m ∧
                                         (ccAC c (wrap s) d m).2 = copyPixels (ccView c t2.fmt s) d m) := by
  refine ⟨rfl, rfl, rfl, ?_, ?_, ?_⟩
  · by_cases h : compatible t1.fmt t2.fmt = true <;> simp [ccAC, visit1, ccObj, wrap, h]
  · by_cases h : compatible t1.fmt t2.fmt = true <;> simp [ccCA, visit1, ccObj, wrap, h]
  · intro h; simp [ccAC, ccCA, visit1, ccObj, wrap, h]

/-- `fill_pixels(any_image_view, value)` is the visit of `fill_pixels_fn` (also through the deprecated
    `apply_operation`) -/
theorem C14_fill_is_visit (a : AnyView) (pf : Fmt) (p : List Nat) (m : Mem) :
    anyFillPixels a pf p m = visit1 (fun v => fillObj pf p v m) a ∧
    anyFillPixels a pf p m = applyOperation1 a (fun v => fillObj pf p v m) := ⟨rfl, rfl⟩

private theorem fill_fold {t : Tag} (d : View t) (q : List Nat) (m : Mem) (hinj : cellsInjective d) (hq : q.length = d.ns)
    (l : List (Nat × Nat)) (hl : ∀ a ∈ l, a.1 < d.w ∧ a.2 < d.h) :
    ∀ b ∈ l, d.raw (l.foldl (fun m xy => d.write m xy.1 xy.2 q) m) b.1 b.2 = q := by
  induction l using List.reverseRecOn with
  | nil => exact fun b hb => absurd hb List.not_mem_nil
  | append_singleton l a ih =>
    have hl' : ∀ b ∈ l, b.1 < d.w ∧ b.2 < d.h := fun b hb => hl b (List.mem_append_left _ hb)
    obtain ⟨hax, hay⟩ := hl a (List.mem_append_right _ (List.mem_singleton_self a))
    rw [List.foldl_append]
    simp only [List.foldl]
    intro b hb
    by_cases hba : b = a
    · subst hba; exact raw_write_same d _ b.1 b.2 q hax hay hinj hq
    · have hbl : b ∈ l := by
        rcases List.mem_append.mp hb with h | h
        · exact h
        · exact absurd (List.mem_singleton.mp h) hba
      obtain ⟨hbx, hby⟩ := hl' b hbl
      rw [raw_write_other d _ a.1 a.2 b.1 b.2 q hax hay hbx hby
        (fun e => hba (Prod.ext (by simpa using congrArg Prod.fst e) (by simpa using congrArg Prod.snd e))) hinj]
      exact ih hl' b hbl

/-- what a (compatible) `fill_pixels` stores: EVERY pixel of the view then holds the value, channels paired by
    colour (the view's slots being distinct cells) -/
theorem C14_fill_pixels_correct {t : Tag} (v : View t) (pf : Fmt) (p : List Nat) (m : Mem)
    (hinj : cellsInjective v) (hns : v.ns = t.fmt.nc) (x y : Nat) (hx : x < v.w) (hy : y < v.h) :
    v.raw (fillPixels v pf p m) x y = pairPx pf t.fmt p :=
  fill_fold v (pairPx pf t.fmt p) m hinj (by rw [pairPx_length, hns]) (coords v.w v.h) (fun a ha => mem_coords.mp ha)
    (x, y) (mem_coords.mpr ⟨hx, hy⟩)

/-- through the run-time typed interface, on the view of an any_image: a compatible value fills every pixel,
    an incompatible one throws and nothing changes -/
theorem C14_any_fill_image (a : AnyImage) (pf : Fmt) (p : List Nat) (m : Mem) :
    (compatible a.1 pf = true → (anyFillPixels a.view pf p m).1 = .ok () ∧
        ∀ x y, x < a.2.w → y < a.2.h → a.2.view.raw (anyFillPixels a.view pf p m).2 x y = pairPx pf a.1 p) ∧
    (compatible a.1 pf = false → anyFillPixels a.view pf p m = (.error .badCast, m)) := by
  obtain ⟨hn, hw, hh⟩ := view_ns a.2
  constructor
  · intro hc
    have hd : anyFillPixels a.view pf p m = (.ok (), fillPixels a.2.view pf p m) := by
      simp [anyFillPixels, AnyImage.view, Tag.ofFmt, hc]
    rw [hd]
    refine ⟨rfl, fun x y hx hy => ?_⟩
    exact C14_fill_pixels_correct a.2.view pf p m (C14_image_view_injective a.2) hn x y (by rw [hw]; exact hx) (by rw [hh]; exact hy)
  · intro hc; simp [anyFillPixels, AnyImage.view, Tag.ofFmt, hc]

private theorem coords_length (w h : Nat) : (coords w h).length = w * h := by
  unfold coords
  induction h with
  | zero => simp
  | succ n ih => rw [List.range_succ, List.flatMap_append, List.length_append, ih]; simp [Nat.mul_succ]

private theorem foreach_fst {t : Tag} (v : View t) (l : List (Nat × Nat)) (st : Nat × Mem) :
    (l.foldl (fun (st : Nat × Mem) xy =>
      (st.1 + 1, upd st.2 (v.cell xy.1 xy.2 0) ((st.2 (v.cell xy.1 xy.2 0) + st.1) % 2 ^ t.fmt.bits))) st).1 = st.1 + l.length := by
  induction l generalizing st with
  | nil => rfl
  | cons a as ih => simp only [List.foldl, List.length_cons]; rw [ih]; simp only []; omega

private theorem foreach_keeps {t : Tag} (v : View t) (c : Int) (l : List (Nat × Nat)) (st : Nat × Mem)
    (hl : ∀ a ∈ l, v.cell a.1 a.2 0 ≠ c) :
    (l.foldl (fun (st : Nat × Mem) xy =>
      (st.1 + 1, upd st.2 (v.cell xy.1 xy.2 0) ((st.2 (v.cell xy.1 xy.2 0) + st.1) % 2 ^ t.fmt.bits))) st).2.get c = st.2.get c := by
  induction l generalizing st with
  | nil => rfl
  | cons a as ih =>
    simp only [List.foldl]
    rw [ih _ (fun b hb => hl b (List.mem_cons_of_mem _ hb))]
    have := hl a List.mem_cons_self
    simp [upd, Ne.symm this]

/-- `for_each_pixel(any_image_view, F)`: the functor that comes back has been called once per pixel of the held
    view (functor state is returned, not dropped), and no cell outside the view is touched -/
theorem C14_foreach_count_frame (a : AnyView) (m : Mem) :
    (anyForEach a m).1 = a.width * a.height ∧
    (∀ c, ¬ owns a.2 c → 1 ≤ a.2.ns → (anyForEach a m).2.get c = m.get c) ∧
    anyForEach a m = visit1 (fun v => forEachCount v m) a := by
  refine ⟨?_, ?_, rfl⟩
  · simp only [anyForEach, forEachCount, AnyView.width, AnyView.height]
    rw [foreach_fst, coords_length]; omega
  · intro c hc hns
    simp only [anyForEach, forEachCount]
    apply foreach_keeps
    intro xy hxy e
    obtain ⟨hx, hy⟩ := mem_coords.mp (show (xy.1, xy.2) ∈ coords a.2.w a.2.h from hxy)
    exact hc ⟨xy.1, xy.2, 0, hx, hy, by omega, e⟩

/-- frame for the remaining lifted writers: `resize_view` (binary64 matrix) and `fill_pixels` touch no cell outside the
    destination view, compatible or not -/
theorem C14_any_frame_rest (a b : AnyView) (m : Mem) (c : Int) (h : ¬ owns b.2 c) (pf : Fmt) (p : List Nat) :
    (anyResize a b m).2.get c = m.get c ∧ (anyFillPixels b pf p m).2.get c = m.get c := by
  constructor
  · simp only [anyResize, binaryOp]; split
    · simp only [resampleNNF]
      apply foldl_keeps
      intro m' xy hxy
      obtain ⟨hx, hy⟩ := mem_coords.mp (show (xy.1, xy.2) ∈ coords b.2.w b.2.h from hxy)
      split
      · exact write_keeps b.2 m' xy.1 xy.2 _ c hx hy h
      · rfl
    · rfl
  · simp only [anyFillPixels]; split
    · exact C14_fill_frame _ _ _ _ _ h
    · rfl

/-- `nth_channel_view(any_image_view, n)`: the single channel read through the result is channel `n` of the held
    view's pixel at the same coordinate -/
theorem C14_nth_reads {t : Tag} (v : View t) (n : Nat) (m : Mem) (x y : Nat) (hn : n < v.ns) :
    ((Xf.nth n).lift (wrap v)).2.raw m x y = [(v.raw m x y).getD n 0] := by
  simp only [Xf.lift, wrap, Xf.apply, View.raw, View.cell]
  simp only [List.range_succ, List.range_zero, List.nil_append, List.map_cons, List.map_nil, List.getD_eq_getElem?_getD,
    List.getElem?_map, List.getElem?_range hn, Option.map_some, Option.getD_some]
  congr 2
  push_cast; ring

/-- the result alternative of `subimage_view`, `subsampled_view` and `nth_channel_view` does not depend on the run-time
    arguments (rectangle, steps, channel number): the checked instances of `C14_index_preserved_L7/LB` stand for all -/
theorem C14_tag_param_independent (t : Tag) (x0 y0 w h sx sy n : Nat) :
    (Xf.sub x0 y0 w h).tag t = t ∧ (Xf.subs sx sy).tag t = (Xf.subs 1 1).tag t ∧ (Xf.nth n).tag t = (Xf.nth 0).tag t :=
  ⟨rfl, rfl, rfl⟩

/-- `nth_channel_view` on the list L6: every alternative yields its concrete result type (gray, same depth), and the
    variant built from it holds the FIRST alternative of that type in the mapped list -/
theorem C14_nth_index_L6 :
    L6.map (fun f => indexOf ((Xf.nth 0).tag (Tag.ofFmt f)) (L6.map (fun g => (Xf.nth 0).tag (Tag.ofFmt g)))) = [0, 1, 1, 0, 1, 5] ∧
    ∀ f ∈ L6, ((Xf.nth 0).tag (Tag.ofFmt f)).fmt = ⟨.gray, .fwd, f.depth, .interleaved⟩ := by
  decide

/-- a deep copy compares EQUAL to its source (`any_image ==` right after copy construction / assignment) -/
theorem C14_copy_equal_source (a : AnyImage) (hp : Heap) (hfit : a.2.base + a.2.size ≤ hp.next) :
    (a.copy hp).1.beq a (a.copy hp).2.mem = true := by
  rw [C14_image_equality_lifts]
  refine ⟨rfl, rfl, rfl, ?_⟩
  obtain ⟨hn, hw, hh⟩ := view_ns a.2
  obtain ⟨hn', hw', hh'⟩ := view_ns (a.copy hp).1.2
  have hadapt : ∀ {f : Fmt} (i : Image f), i.view.adapt = [] := by
    intro f i; unfold Image.view; cases f.org <;> rfl
  unfold equalPixels
  rw [List.all_eq_true]
  intro xy hxy
  obtain ⟨hx, hy⟩ := mem_coords.mp (show (xy.1, xy.2) ∈ coords _ _ from hxy)
  rw [hw'] at hx; rw [hh'] at hy
  have hx' : xy.1 < a.2.w := hx
  have hy' : xy.2 < a.2.h := hy
  have e : (a.copy hp).1.2.view.px (a.copy hp).2.mem xy.1 xy.2 = a.2.view.px (a.copy hp).2.mem xy.1 xy.2 := by
    unfold View.px
    rw [hadapt, hadapt]
    simp only [List.foldl]
    unfold View.raw
    rw [hn', hn]
    apply List.map_congr_left
    intro k hk
    have hk' : k < a.1.nc := List.mem_range.mp hk
    rw [C14_copy_deep_content a hp xy.1 xy.2 k hx' hy' hk']
    have hb := C14_image_cells_in_block a.2 xy.1 xy.2 k hx' hy' hk'
    have : ((a.2.base + a.2.size : Nat) : Int) ≤ hp.next := by exact_mod_cast hfit
    push_cast at this
    exact (C14_copy_keeps_old_cells a hp _ (by omega)).symm
  rw [e]
  have hlen : (a.2.view.px (a.copy hp).2.mem xy.1 xy.2).length = a.1.nc := by
    unfold View.px; rw [hadapt]; simp [View.raw, hn]
  have := C14_pair_same_format a.1 _ hlen
  show (pairPx a.1 a.1 (a.2.view.px (a.copy hp).2.mem xy.1 xy.2) == a.2.view.px (a.copy hp).2.mem xy.1 xy.2) = true
  rw [this]
  simp

/-- `recreate`: fresh storage — every cell that existed before keeps its value, and the recreated image's cells
    are none of the old ones -/
theorem C14_recreate_fresh (a : AnyImage) (w h : Nat) (hp : Heap) :
    (∀ c : Int, c < hp.next → (a.recreate w h hp).2.mem.get c = hp.mem.get c) ∧
    (∀ x y k, x < w → y < h → k < a.1.nc → (hp.next : Int) ≤ (a.recreate w h hp).1.2.view.cell x y k) := by
  constructor
  · intro c hc
    simp only [AnyImage.recreate]
    rw [newImage_get, if_neg (by omega)]
  · intro x y k hx hy hk
    exact (C14_image_cells_in_block (a.recreate w h hp).1.2 x y k hx hy hk).1

/-! ### what the results mean: equal_pixels, copy-then-equal, identity resampling, composed transformations -/

/-- `equal_pixels` returns true exactly when every pixel of the source, channels paired by colour, equals the pixel of
    the destination at the same coordinate -/
theorem C14_equal_pixels_correct {t1 t2 : Tag} (s : View t1) (d : View t2) (m : Mem) :
    equalPixels s d m = true ↔ ∀ x y, x < s.w → y < s.h → pairPx t1.fmt t2.fmt (s.px m x y) = d.px m x y := by
  unfold equalPixels
  rw [List.all_eq_true]
  constructor
  · intro h x y hx hy
    have := h (x, y) (mem_coords.mpr ⟨hx, hy⟩)
    simpa using this
  · intro h xy hxy
    obtain ⟨hx, hy⟩ := mem_coords.mp (show (xy.1, xy.2) ∈ coords s.w s.h from hxy)
    simpa using h xy.1 xy.2 hx hy

/-- copy then compare, both through the run-time typed interface: after `copy_pixels(view(a), view(b))` on two
    any_images of compatible alternatives (equal dimensions, disjoint blocks), `equal_pixels(view(a), view(b))` is true -/
theorem C14_copy_then_equal (a b : AnyImage) (m : Mem) (hc : compatible a.1 b.1 = true)
    (hw : a.2.w = b.2.w) (hh : a.2.h = b.2.h) (hdis : a.2.base + a.2.size ≤ b.2.base) :
    anyEqualPixels a.view b.view (anyCopyPixels a.view b.view m).2 = (.ok true, (anyCopyPixels a.view b.view m).2) := by
  obtain ⟨hna, hwa, hha⟩ := view_ns a.2
  have hadapt : b.2.view.adapt = [] := by unfold Image.view; cases b.1.org <;> rfl
  have he : equalPixels a.2.view b.2.view (anyCopyPixels a.view b.view m).2 = true := by
    rw [C14_equal_pixels_correct]
    intro x y hx hy
    rw [hwa] at hx; rw [hha] at hy
    obtain ⟨-, h2, h3⟩ := C14_any_copy_between_images a b m hc hw hh hdis x y (by omega) (by omega)
    have hpx : b.2.view.px (anyCopyPixels a.view b.view m).2 x y = b.2.view.raw (anyCopyPixels a.view b.view m).2 x y := by
      unfold View.px; rw [hadapt]; rfl
    rw [hpx, h2, h3]; rfl
  simp only [anyEqualPixels, binaryOp, AnyImage.view, Tag.ofFmt, hc, if_true]
  simp only [AnyImage.view, Tag.ofFmt] at he
  rw [he]

private theorem iroundQ_four (x : Nat) : iroundQ ((x : Int) * 4 + 0 + 0) = x := by
  unfold iroundQ
  have h0 : ¬ ((x : Int) * 4 + 0 + 0 < 0) := by omega
  rw [if_neg h0, Int.tdiv_eq_ediv_of_nonneg (by omega)]
  omega

private theorem foldl_congr_mem {α β : Type} (l : List α) (f g : β → α → β) (h : ∀ b a, a ∈ l → f b a = g b a) (b : β) :
    l.foldl f b = l.foldl g b := by
  induction l generalizing b with
  | nil => rfl
  | cons a as ih =>
    simp only [List.foldl]
    rw [h b a List.mem_cons_self]
    exact ih (fun b x hx => h b x (List.mem_cons_of_mem _ hx)) _

/-- `resample_pixels` with the identity matrix and the nearest-neighbour sampler is `copy_pixels` (views of equal
    dimensions): hence, lifted, `resample_pixels(any, any, identity)` = `copy_pixels(any, any)` incl. the bad_cast case -/
theorem C14_resample_identity_is_copy (a b : AnyView) (m : Mem) (hw : a.2.w = b.2.w) (hh : a.2.h = b.2.h) :
    anyResample [4, 0, 0, 4, 0, 0] a b m = anyCopyPixels a b m := by
  obtain ⟨t1, s⟩ := a
  obtain ⟨t2, d⟩ := b
  simp only [anyResample, anyCopyPixels, binaryOp]
  split
  · congr 1
    unfold resampleNN copyPixels
    apply foldl_congr_mem
    intro m' xy hxy
    obtain ⟨hx, hy⟩ := mem_coords.mp (show (xy.1, xy.2) ∈ coords d.w d.h from hxy)
    have e1 : iroundQ ((xy.1 : Int) * 4 + (xy.2 : Int) * 0 + 0) = xy.1 := by
      have := iroundQ_four xy.1; simpa using this
    have e2 : iroundQ ((xy.1 : Int) * 0 + (xy.2 : Int) * 4 + 0) = xy.2 := by
      have := iroundQ_four xy.2; simpa using this
    simp only [List.getD_cons_zero, List.getD_cons_succ, e1, e2, Int.toNat_natCast]
    have hin : (0 : Int) ≤ (xy.1 : Int) ∧ (0 : Int) ≤ (xy.2 : Int) ∧ (xy.1 : Int) < s.w ∧ (xy.2 : Int) < s.h := by
      simp only at hw hh
      refine ⟨by omega, by omega, by omega, by omega⟩
    rw [if_pos hin]
  · rfl

/-- composed lifted transformations reach the cells the concrete compositions reach: the flips and the 180° rotation are
    involutions, the two 90° rotations and the transposition undo each other, `rot180 = flipUD ∘ flipLR`, and a
    sub-rectangle of a sub-rectangle is the sub-rectangle at the summed offset (for every coordinate, no bound) -/
theorem C14_lift_compositions {t : Tag} (v : View t) (x y k : Nat) :
    (Xf.flipLR.apply (Xf.flipLR.apply v)).cell x y k = v.cell x y k ∧
    (Xf.flipUD.apply (Xf.flipUD.apply v)).cell x y k = v.cell x y k ∧
    (Xf.rot180.apply (Xf.rot180.apply v)).cell x y k = v.cell x y k ∧
    (Xf.transpose.apply (Xf.transpose.apply v)).cell x y k = v.cell x y k ∧
    (Xf.rot90ccw.apply (Xf.rot90cw.apply v)).cell x y k = v.cell x y k ∧
    (Xf.rot90cw.apply (Xf.rot90ccw.apply v)).cell x y k = v.cell x y k ∧
    (Xf.flipUD.apply (Xf.flipLR.apply v)).cell x y k = (Xf.rot180.apply v).cell x y k ∧
    (Xf.rot90cw.apply (Xf.rot90cw.apply v)).cell x y k = (Xf.rot180.apply v).cell x y k ∧
    (∀ a b w h c d w' h', ((Xf.sub a b w h).apply ((Xf.sub c d w' h').apply v)).cell x y k =
        ((Xf.sub (c + a) (d + b) w h).apply v).cell x y k) ∧
    (∀ sx sy sx' sy', ((Xf.subs sx sy).apply ((Xf.subs sx' sy').apply v)).cell x y k =
        ((Xf.subs (sx' * sx) (sy' * sy)).apply v).cell x y k) := by
  refine ⟨?_, ?_, ?_, ?_, ?_, ?_, ?_, ?_, ?_, ?_⟩ <;>
    (try intros) <;> simp only [Xf.apply, View.cell] <;> push_cast <;> ring

/-- dimensions of the composed transformations (the run-time typed wrappers report them through `dimensions()`) -/
theorem C14_lift_compositions_dims (a : AnyView) :
    (Xf.rot90ccw.lift (Xf.rot90cw.lift a)).width = a.width ∧ (Xf.rot90ccw.lift (Xf.rot90cw.lift a)).height = a.height ∧
    (Xf.transpose.lift (Xf.transpose.lift a)).width = a.width ∧ (Xf.rot90cw.lift (Xf.rot90cw.lift a)).height = a.height ∧
    (Xf.transpose.lift a).width = a.height ∧ (Xf.transpose.lift a).height = a.width :=
  ⟨rfl, rfl, rfl, rfl, rfl, rfl⟩

/-- `at_c` over the table of the alternatives' channel counts, indexed by the run-time index of the held alternative,
    is `num_channels()` of the run-time typed image — for every type list containing the held alternative -/
theorem C14_at_c_num_channels (L : List Fmt) (a : AnyImage) (h : a.1 ∈ L) :
    atC (L.map Fmt.nc) (a.index L) = a.numChannels := by
  obtain ⟨f, i⟩ := a
  simp only [AnyImage.index, AnyImage.numChannels, atC] at *
  induction L with
  | nil => exact absurd h List.not_mem_nil
  | cons g gs ih =>
    simp only [indexOf, List.map_cons]
    by_cases hg : g = f
    · simp [hg]
    · simp only [hg, if_false, List.getD_cons_succ]
      exact ih (by rcases List.mem_cons.mp h with e | e; exact absurd e.symm hg; exact e)

/-- the block structure of `at_c` is the plain table lookup for every list shorter than the block limit (all type lists
    of this check; any_image's own members no longer use `at_c`) -/
theorem C14_at_c_small (size index : Nat) (hs : size < 226) (hi : index < size) : atCBlock size index = some index := by
  unfold atCBlock
  have : size / 226 = 0 := Nat.div_eq_of_lt hs
  simp [this, hi]

/-- OBSERVATION (outside the clauses of C14; reported to the lead, reproduced on the real header with UBSan): for a list of
    226 or more entries the element at position 225 (and 451, 677) is not reachable — the first block's table has 225
    entries and is indexed with 225 (out-of-bounds read) -/
theorem C14_at_c_block_limit_observation :
    atCBlock 226 225 = none ∧ atCBlock 300 225 = none ∧ atCBlock 300 224 = some 224 ∧ atCBlock 300 226 = some 226 := by
  decide

/-- a default-constructed any_image holds the first alternative of its list and is empty (and so is its view) -/
theorem C14_default_constructed (f : Fmt) (L : List Fmt) :
    (AnyImage.dflt f).index (f :: L) = 0 ∧ (AnyImage.dflt f).width = 0 ∧ (AnyImage.dflt f).height = 0 ∧
    (AnyImage.dflt f).numChannels = f.nc ∧ (AnyImage.dflt f).view.size = 0 ∧
    (AnyImage.dflt f).view.index ((f :: L).map Tag.ofFmt) = 0 := by
  refine ⟨by simp [AnyImage.index, AnyImage.dflt, indexOf], rfl, rfl, rfl, ?_, by simp [AnyView.index, AnyImage.view, AnyImage.dflt, indexOf]⟩
  simp only [AnyView.size, AnyImage.view, AnyImage.dflt, Image.view]; cases f.org <;> rfl

/-! ### deep equality is broken by a write to the copy; what the converting copy stores -/

/-- a write through the view of a deep copy is invisible through the original: every pixel of the original reads as before -/
theorem C14_copy_write_isolated (a : AnyImage) (hp : Heap) (hfit : a.2.base + a.2.size ≤ hp.next)
    (x y : Nat) (p : List Nat) (hx : x < a.2.w) (hy : y < a.2.h) (x' y' : Nat) (hx' : x' < a.2.w) (hy' : y' < a.2.h) :
    a.2.view.px ((a.copy hp).1.2.view.write (a.copy hp).2.mem x y p) x' y' = a.2.view.px (a.copy hp).2.mem x' y' := by
  obtain ⟨hn, hw, hh⟩ := view_ns a.2
  obtain ⟨hn', hw', hh'⟩ := view_ns (a.copy hp).1.2
  apply px_congr _ _ _ _ _ (by rw [hw]; exact hx') (by rw [hh]; exact hy')
  rintro c ⟨x2, y2, k2, g1, g2, g3, rfl⟩
  rw [hw] at g1; rw [hh] at g2; rw [hn] at g3
  apply write_keeps _ _ _ _ _ _ (by rw [hw']; exact hx) (by rw [hh']; exact hy)
  rintro ⟨x1, y1, k1, h1, h2, h3, e⟩
  rw [hw'] at h1; rw [hh'] at h2; rw [hn'] at h3
  exact (C14_copy_deep a hp hfit x1 y1 k1 x2 y2 k2 h1 h2 h3 g1 g2 g3).2.2.2 e

/-- any_image equality is DEEP: storing a pixel value in the copy that differs from the original's pixel there makes the
    copy compare unequal to its source (while `C14_copy_equal_source`: equal right after the copy) -/
theorem C14_equality_deep (a : AnyImage) (hp : Heap) (hfit : a.2.base + a.2.size ≤ hp.next)
    (x y : Nat) (p : List Nat) (hx : x < a.2.w) (hy : y < a.2.h) (hlen : p.length = a.1.nc)
    (hne : p ≠ a.2.view.px (a.copy hp).2.mem x y) :
    (a.copy hp).1.beq a ((a.copy hp).1.2.view.write (a.copy hp).2.mem x y p) = false := by
  obtain ⟨hn', hw', hh'⟩ := view_ns (a.copy hp).1.2
  have hadapt : ∀ {f : Fmt} (i : Image f), i.view.adapt = [] := by
    intro f i; unfold Image.view; cases f.org <;> rfl
  have hks : (a.copy hp).1.2.view.ks ≠ 0 := by
    have hwpos : 0 < a.2.w := by omega
    have hhpos : 0 < a.2.h := by omega
    have : 0 < a.2.w * a.2.h := Nat.mul_pos hwpos hhpos
    simp only [AnyImage.copy, Heap.newImage, Image.view]
    cases a.1.org <;> simp <;> omega
  have : ¬ ((a.copy hp).1.beq a ((a.copy hp).1.2.view.write (a.copy hp).2.mem x y p) = true) := by
    rw [C14_image_equality_lifts]
    rintro ⟨-, -, -, he⟩
    rw [C14_equal_pixels_correct] at he
    have h1 := he x y (by rw [hw']; exact hx) (by rw [hh']; exact hy)
    rw [C14_copy_write_isolated a hp hfit x y p hx hy x y hx hy] at h1
    have hrd : (a.copy hp).1.2.view.px ((a.copy hp).1.2.view.write (a.copy hp).2.mem x y p) x y = p := by
      unfold View.px; rw [hadapt]
      exact C14_write_read _ _ x y p hks (by rw [hn']; exact hlen)
    rw [hrd] at h1
    have hid := C14_pair_same_format a.1 p hlen
    apply hne
    rw [← h1]
    exact hid.symm
  simpa using this

private theorem cc_adapt {t : Tag} (v : View t) (d : Fmt) (c : Conv) (h : sameValueType t.fmt d = false) :
    ((Xf.cc d c).apply v).adapt = v.adapt ++ [⟨t.fmt, { d with org := .interleaved }, c⟩] ∧
    ((Xf.cc d c).tag t).fmt = { d with org := .interleaved } := by
  simp only [Xf.apply, Xf.tag, h]
  exact ⟨rfl, rfl⟩

private theorem adapt_apply_length (a : Adapt) (p : List Nat) : (a.apply p).length = a.dst.nc := by
  unfold Adapt.apply
  cases a.conv <;> simp [convDefault, convSum, fromSem]

/-- what `copy_and_convert_pixels` stores for INCOMPATIBLE alternatives (any overload shape, any converter object): every
    destination pixel holds the converter applied to the source pixel at the same coordinate, and the source is unchanged
    (destination slots distinct cells, disjoint from the source, source without adaptors) -/
theorem C14_ccopy_correct (c : Conv) {t1 t2 : Tag} (s : View t1) (d : View t2) (m : Mem)
    (hinc : compatible t1.fmt t2.fmt = false) (hs : s.adapt = [])
    (hw : s.w = d.w) (hh : s.h = d.h) (hinj : cellsInjective d) (hdis : ∀ c, owns d c → ¬ owns s c)
    (hns : d.ns = t2.fmt.nc) (x y : Nat) (hx : x < d.w) (hy : y < d.h) :
    d.raw (ccCA c s (wrap d) m).2 x y = (Adapt.mk t1.fmt { t2.fmt with org := .interleaved } c).apply (s.raw m x y) ∧
    d.raw (ccAC c (wrap s) d m).2 x y = d.raw (ccCA c s (wrap d) m).2 x y ∧
    d.raw (anyCopyAndConvert c (wrap s) (wrap d) m).2 x y = d.raw (ccCA c s (wrap d) m).2 x y := by
  refine ⟨?_, rfl, rfl⟩
  have hsv : sameValueType t1.fmt t2.fmt = false := by
    revert hinc; simp only [compatible, sameValueType]
    cases decide (t1.fmt.cs = t2.fmt.cs) <;> cases decide (t1.fmt.depth = t2.fmt.depth) <;> cases decide (t1.fmt.order = t2.fmt.order) <;> simp
  obtain ⟨had, hfmt⟩ := cc_adapt s t2.fmt c hsv
  have hcw : (ccView c t2.fmt s).w = d.w := by rw [ccView, apply_w]; exact hw
  have hch : (ccView c t2.fmt s).h = d.h := by rw [ccView, apply_h]; exact hh
  have hcns : (ccView c t2.fmt s).ns = s.ns := apply_ns _ (fun n => by simp) s
  have hcell : ∀ x y k, x < d.w → y < d.h → (ccView c t2.fmt s).cell x y k = s.cell x y k := by
    intro x y k hx hy
    have := C14_lift_cell (Xf.cc t2.fmt c) s x y k (by rw [← ccView, hcw]; exact hx) (by rw [← ccView, hch]; exact hy)
    simp only [Xf.phi] at this
    exact this
  have hdis' : ∀ c', owns d c' → ¬ owns (ccView c t2.fmt s) c' := by
    rintro c' ho ⟨x1, y1, k1, h1, h2, h3, e⟩
    rw [hcw] at h1; rw [hch] at h2; rw [hcns] at h3
    exact hdis c' ho ⟨x1, y1, k1, by omega, by omega, h3, by rw [← hcell x1 y1 k1 h1 h2]; exact e⟩
  have key := (C14_copy_pixels_correct (ccView c t2.fmt s) d m hcw hch hinj hdis' hns x y hx hy).1
  have hd : (ccCA c s (wrap d) m).2 = copyPixels (ccView c t2.fmt s) d m := by
    simp [ccCA, visit1, ccObj, wrap, hinc]
  rw [hd, key]
  have hpx : (ccView c t2.fmt s).px m x y = (Adapt.mk t1.fmt { t2.fmt with org := .interleaved } c).apply (s.raw m x y) := by
    unfold View.px
    rw [show (ccView c t2.fmt s).adapt = _ from had, hs]
    simp only [List.nil_append, List.foldl]
    congr 1
    unfold View.raw
    rw [hcns]
    apply List.map_congr_left
    intro k _
    rw [hcell x y k hx hy]
  rw [hpx]
  have hl := adapt_apply_length (Adapt.mk t1.fmt { t2.fmt with org := .interleaved } c) (s.raw m x y)
  have hid := C14_pair_same_format t2.fmt _ (show _ = t2.fmt.nc from hl)
  rw [show ((Xf.cc t2.fmt c).tag t1).fmt = _ from hfmt]
  exact hid

/-! ### recreate carries the alignment: row layout after any sequence of recreate calls -/

/-- after ANY list of `recreate(w, h, alignment)` calls the run-time typed image holds the same alternative, and its
    (dimensions, alignment, row stride) are those of the concrete image driven by the same calls -/
theorem C14_recreate_sequence (f : Fmt) (l : Lay) (calls : List (Nat × Nat × Nat)) :
    calls.foldl AnyLay.recreate ⟨f, l⟩ = ⟨f, calls.foldl (Lay.recreate f) l⟩ := by
  induction calls generalizing l with
  | nil => rfl
  | cons c cs ih => simp only [List.foldl]; exact ih _

private theorem recreate_make (f : Fmt) (l : Lay) (c : Nat × Nat × Nat) (hwf : l = Lay.make f l.w l.h l.align) :
    Lay.recreate f l c = Lay.make f c.1 c.2.1 c.2.2 := by
  unfold Lay.recreate
  split
  · rename_i h; obtain ⟨h1, h2, h3⟩ := h; rw [← h1, ← h2, ← h3]; exact hwf
  · rfl

/-- the layout after a non-empty sequence of recreate calls is the layout of an image CONSTRUCTED with the last call's
    dimensions and alignment, whatever the history: in particular `recreate` with unchanged dimensions but a new alignment
    re-lays the rows out (stride of the new alignment) — for the concrete image and, by `C14_recreate_sequence`, for the
    any_image holding it -/
theorem C14_recreate_layout_last_call (f : Fmt) (l : Lay) (hwf : l = Lay.make f l.w l.h l.align)
    (calls : List (Nat × Nat × Nat)) (hne : calls ≠ []) :
    (calls.foldl AnyLay.recreate ⟨f, l⟩).2 = Lay.make f (calls.getLast hne).1 (calls.getLast hne).2.1 (calls.getLast hne).2.2 ∧
    (calls.foldl AnyLay.recreate ⟨f, l⟩).2.stride = rowUnits f (calls.getLast hne).1 (calls.getLast hne).2.2 ∧
    (calls.foldl AnyLay.recreate ⟨f, l⟩).1 = f := by
  rw [C14_recreate_sequence]
  have key : calls.foldl (Lay.recreate f) l = Lay.make f (calls.getLast hne).1 (calls.getLast hne).2.1 (calls.getLast hne).2.2 := by
    induction calls generalizing l with
    | nil => exact absurd rfl hne
    | cons c cs ih =>
      simp only [List.foldl]
      have h1 := recreate_make f l c hwf
      by_cases hcs : cs = []
      · subst hcs; simpa using h1
      · rw [List.getLast_cons hcs]
        exact ih (Lay.recreate f l c) (by rw [h1]; rfl) hcs
  exact ⟨key, by rw [key]; rfl, rfl⟩

/-- rows of an aligned layout are multiples of the alignment: the stride `align(v, a)` is divisible by `a` -/
theorem C14_align_up_divisible (v a : Nat) (ha : 0 < a) : alignUp v a % a = 0 ∧ v ≤ alignUp v a ∧ alignUp v a < v + a := by
  unfold alignUp
  have hr : v % a < a := Nat.mod_lt v ha
  by_cases h0 : v % a = 0
  · simp [h0, ha]
  · have h1 : (a - v % a) % a = a - v % a := Nat.mod_eq_of_lt (by omega)
    rw [h1]
    refine ⟨?_, by omega, by omega⟩
    have hd := Nat.div_add_mod v a
    have : v + (a - v % a) = a * (v / a + 1) := by rw [Nat.mul_add, Nat.mul_one]; omega
    rw [this]; exact Nat.mul_mod_right _ _

/-- the case a dropped alignment would get wrong: gray8 5 x 3 built packed (alignment 0, stride 5), `recreate(5, 3, 8)`
    (same dimensions) must give stride 8; rgb8 5 x 3, 0 -> 16: 15 -> 16 -/
theorem C14_recreate_same_dims_new_alignment :
    (AnyLay.recreate ⟨g8, Lay.make g8 5 3 0⟩ (5, 3, 8)).2.stride = 8 ∧ (Lay.make g8 5 3 0).stride = 5 ∧
    (AnyLay.recreate ⟨rgb8, Lay.make rgb8 5 3 0⟩ (5, 3, 16)).2.stride = 16 ∧ (Lay.make rgb8 5 3 0).stride = 15 := by
  decide

/-! ### concrete instances of the hypotheses used above (the theorems are not vacuous) -/

section Examples
/-- a 3 x 2 rgb8 image at cell 1000 and its view -/
private def exImg : Image rgb8 := ⟨3, 2, 1000⟩
private def exHeap : Heap := ⟨⟨fun c => (c % 251).toNat⟩, 2000⟩

example : inContract (.sub 1 0 2 2) exImg.view.w exImg.view.h := by
  show 1 + 2 ≤ 3 ∧ 0 + 2 ≤ 2; omega
example : inContract (.subs 2 1) 3 2 := by show 1 ≤ 2 ∧ 1 ≤ 1; omega
-- rot90cw of the 3 x 2 view is 2 x 3 and its pixel (1,2) is the source pixel (2,0)
example : (Xf.rot90cw.apply exImg.view).w = 2 ∧ (Xf.rot90cw.apply exImg.view).h = 3 ∧
    (Xf.rot90cw.apply exImg.view).cell 1 2 0 = exImg.view.cell 2 0 0 := by decide
-- compatible / incompatible pairs of the representative list
example : compatible rgb8 bgr8 = true ∧ compatible rgb8 rgb8p = true ∧ compatible rgb8 rgb16 = false ∧
    compatible g8 g1 = false ∧ compatible rgb8 rgba8 = false ∧ compatible argb8 rgba8 = true ∧
    compatible cmyk8 rgba8 = false ∧ compatible rgb16 rgb16p = true := by decide
-- argb pixel (a,r,g,b) = (9,1,2,3) assigned to an rgba pixel gives (1,2,3,9)
example : pairPx argb8 rgba8 [9, 1, 2, 3] = [1, 2, 3, 9] := by decide
-- hypotheses of C14_write_read / C14_view_shallow / C14_lift_write_through on an image view
example : exImg.view.ks ≠ 0 ∧ [7, 8, 9].length = exImg.view.ns := by decide
-- hypotheses of C14_copy_deep / C14_view_of_copy_differs
example : exImg.base + exImg.size ≤ exHeap.next ∧ exImg.base ≠ exHeap.next := by decide
-- nth_channel_view merges alternatives of L6 (rgb8, bgr8 and rgba8 all give a gray8 step view): the injectivity
-- hypothesis of C14_index_preserved fails there, and a variant built from the result holds the first such type
example : (Xf.nth 0).tag (Tag.ofFmt rgb8) = (Xf.nth 0).tag (Tag.ofFmt bgr8) := by decide
-- hypotheses of C14_fill_pixels_correct / C14_any_fill_image on the image view; a compatible and an incompatible value
example : exImg.view.ns = (Tag.ofFmt rgb8).fmt.nc ∧ compatible rgb8 bgr8 = true ∧ compatible rgb8 g8 = false := by decide
example : pairPx bgr8 rgb8 [3, 2, 1] = [1, 2, 3] := by decide
-- C14_nth_reads: channel 1 < 3 channels
example : 1 < exImg.view.ns := by decide
-- C14_copy_equal_source / C14_bad_cast_every_binary hypotheses
example : exImg.base + exImg.size ≤ exHeap.next := by decide
example : compatible (Tag.ofFmt rgb8).fmt (Tag.ofFmt rgb16).fmt = false := by decide
-- hypotheses of C14_copy_then_equal / C14_any_copy_between_images: a second 3 x 2 image (bgr8) in a disjoint block
private def exImg2 : Image bgr8 := ⟨3, 2, 1500⟩
example : compatible rgb8 bgr8 = true ∧ exImg.w = exImg2.w ∧ exImg.h = exImg2.h ∧ exImg.base + exImg.size ≤ exImg2.base := by decide
-- C14_at_c_num_channels: rgba8 is the fifth alternative of L7; its table entry is 4
example : rgba8 ∈ L7 ∧ atC (L7.map Fmt.nc) 4 = 4 := by decide
-- C14_equality_deep / C14_ccopy_correct hypotheses: a pixel value of the right length; an incompatible pair
example : [1, 2, 3].length = rgb8.nc ∧ compatible (Tag.ofFmt rgb8).fmt (Tag.ofFmt g8).fmt = false ∧ exImg.view.adapt = [] := by decide
-- C14_recreate_layout_last_call: a constructed layout is well formed; a non-empty call list
example : Lay.make rgb8 5 3 4 = Lay.make rgb8 (Lay.make rgb8 5 3 4).w (Lay.make rgb8 5 3 4).h (Lay.make rgb8 5 3 4).align ∧
    [(5, 3, 16), (2, 2, 0)] ≠ ([] : List (Nat × Nat × Nat)) := by decide
end Examples

end GilVerif.Props.C14
