/-
  C17 -- samplers, resample_pixels, matrix3x2.  Property theorems only (named C17_*); helpers are `private`.
  Stated over Model/C17.lean (hand model following sampler.hpp / resample.hpp / affine.hpp / utilities.hpp; tied to
  the code by the correspondence run -- the kernels are floating point templates, outside the translator's subset).

  rounding : C17_ifloor_spec, C17_iround_spec
  nearest  : C17_nearest, C17_nearest_integer_points
  bilinear : C17_bilinear_access (all nine cases, all w,h ≥ 1), C17_bilinear_convex (any ordered field),
             C17_convex_between, C17_bilinear_value_between, C17_bilinear_integer_points
  resample : C17_resample_loop, C17_resize_identity, C17_resize_same_size
  summary  : C17_bilinear_sampler (outside iff, access, surrounding, convex, at most four), C17_samplers_inside_domain, C17_samplers_far_outside,
             C17_trunc_between, C17_round_between, C17_round_int (the cast of fix 056e54b), C17_bilinear_at_most_four
  matrix   : C17_matrix_assoc, C17_matrix_one, C17_matrix_apply_mul, C17_matrix_inverse, C17_matrix_maps_back,
             C17_translate_scale_compose, C17_rotate_compose   (any field; cos/sin enter as an opaque pair)
             C17_matrix_mul_assign (operator*=), C17_matrix_chain, C17_matrix_chain_apply (histories of *=, any list), C17_resample_composed, C17_matrix_rotate_about,
             C17_matrix_mul_assign_any_arithmetic, C17_subimage_centre_corners (resample_subimage's matrix)
  (theorems over the TRANSLATED matrix3x2 kernels: Props/C17Kernel.lean)
  Floating point: every theorem is about exact arithmetic (Rat / an arbitrary field); the code's IEEE operation
  sequence is reproduced by the executable model and compared bit for bit -- partial (float).
-/
import GilVerif.Model.C17
import Mathlib.Tactic.Ring
import Mathlib.Tactic.Linarith
import Mathlib.Tactic.FieldSimp

set_option linter.unusedTactic false
set_option linter.unusedSimpArgs false
set_option linter.unnecessarySeqFocus false

namespace GilVerif.Props.C17
open GilVerif.Model.C17

/-! ## iround / ifloor -/

/-- `ifloor(n/D)` is the floor: D·f ≤ n < D·(f+1) -/
theorem C17_ifloor_spec (n D : Int) (hD : 0 < D) :
    D * ifloorQ n D ≤ n ∧ n < D * (ifloorQ n D + 1) := by
  unfold ifloorQ
  have h1 := Int.emod_nonneg n (Int.ne_of_gt hD)
  have h2 := Int.emod_lt_of_pos n hD
  have h3 := Int.emod_add_mul_ediv n D
  constructor <;> nlinarith

example : (0 : Int) < 8 := by decide

/-- `iround(n/D)` is a nearest integer (|n/D − r| ≤ 1/2), halves rounded away from zero -/
theorem C17_iround_spec (n D : Int) (hD : 0 < D) :
    -D ≤ 2 * n - 2 * D * iroundQ n D ∧ 2 * n - 2 * D * iroundQ n D ≤ D ∧
    (0 ≤ n → 2 * n - 2 * D * iroundQ n D < D) ∧ (n < 0 → -D < 2 * n - 2 * D * iroundQ n D) := by
  unfold iroundQ
  by_cases hn : n < 0
  · simp only [hn, if_true]
    -- negative dividend: tdiv a b = -((-a) / b)
    have ha : 2 * n + -D < 0 := by omega
    have e : Int.tdiv (2 * n + -D) (2 * D) = -((-(2 * n + -D)) / (2 * D)) := by
      have h := Int.neg_tdiv (-(2 * n + -D)) (2 * D)
      have h2 : (-(2 * n + -D)).tdiv (2 * D) = (-(2 * n + -D)) / (2 * D) := Int.tdiv_eq_ediv_of_nonneg (by omega)
      rw [Int.neg_neg] at h
      rw [h, h2]
    rw [e]
    have h1 := Int.emod_nonneg (-(2 * n + -D)) (by omega : (2 * D) ≠ 0)
    have h2 := Int.emod_lt_of_pos (-(2 * n + -D)) (by omega : 0 < 2 * D)
    have h3 := Int.emod_add_mul_ediv (-(2 * n + -D)) (2 * D)
    refine ⟨by nlinarith, by nlinarith, ?_, ?_⟩ <;> intro h <;> first | (exfalso; exact h) | omega | nlinarith
  · simp only [hn, if_false]
    rw [Int.tdiv_eq_ediv_of_nonneg (by omega)]
    have h1 := Int.emod_nonneg (2 * n + D) (by omega : (2 * D) ≠ 0)
    have h2 := Int.emod_lt_of_pos (2 * n + D) (by omega : 0 < 2 * D)
    have h3 := Int.emod_add_mul_ediv (2 * n + D) (2 * D)
    refine ⟨by nlinarith, by nlinarith, ?_, ?_⟩ <;> intro h <;> first | (exfalso; exact h) | omega | nlinarith

/-! ## nearest_neighbor_sampler -/

/-- inside ⇒ the pixel read is in range and is a nearest pixel centre; it reports "outside" exactly when the
    rounded point is not a pixel of the view (the result is then left untouched: `resample`, `C17_resample_loop`) -/
theorem C17_nearest (w h nx ny D : Int) (hD : 0 < D) :
    (∀ cx cy, nearestQ w h nx ny D = some (cx, cy) →
        0 ≤ cx ∧ cx < w ∧ 0 ≤ cy ∧ cy < h ∧
        -D ≤ 2 * nx - 2 * D * cx ∧ 2 * nx - 2 * D * cx ≤ D ∧ -D ≤ 2 * ny - 2 * D * cy ∧ 2 * ny - 2 * D * cy ≤ D) ∧
    (nearestQ w h nx ny D = none ↔
        ¬ (0 ≤ iroundQ nx D ∧ iroundQ nx D < w ∧ 0 ≤ iroundQ ny D ∧ iroundQ ny D < h)) := by
  have hx := C17_iround_spec nx D hD
  have hy := C17_iround_spec ny D hD
  unfold nearestQ
  constructor
  · intro cx cy hs
    by_cases hc : iroundQ nx D ≥ 0 ∧ iroundQ ny D ≥ 0 ∧ iroundQ nx D < w ∧ iroundQ ny D < h
    · rw [if_pos hc] at hs
      simp only [Option.some.injEq, Prod.mk.injEq] at hs
      obtain ⟨h1, h2⟩ := hs
      subst h1; subst h2
      exact ⟨hc.1, hc.2.2.1, hc.2.1, hc.2.2.2, hx.1, hx.2.1, hy.1, hy.2.1⟩
    · rw [if_neg hc] at hs; exact absurd hs (by simp)
  · constructor
    · intro h0 hcond
      have hc : iroundQ nx D ≥ 0 ∧ iroundQ ny D ≥ 0 ∧ iroundQ nx D < w ∧ iroundQ ny D < h :=
        ⟨hcond.1, hcond.2.2.1, hcond.2.1, hcond.2.2.2⟩
      rw [if_pos hc] at h0
      exact absurd h0 (by simp)
    · intro h0
      have hc : ¬ (iroundQ nx D ≥ 0 ∧ iroundQ ny D ≥ 0 ∧ iroundQ nx D < w ∧ iroundQ ny D < h) :=
        fun hc => h0 ⟨hc.1, hc.2.2.1, hc.2.1, hc.2.2.2⟩
      rw [if_neg hc]

/-- at integer coordinates inside the view the nearest sampler reads exactly that pixel -/
theorem C17_nearest_integer_points (w h x y D : Int) (hD : 0 < D) (hx : 0 ≤ x ∧ x < w) (hy : 0 ≤ y ∧ y < h) :
    nearestQ w h (x * D) (y * D) D = some (x, y) := by
  have e : ∀ z : Int, 0 ≤ z → iroundQ (z * D) D = z := by
    intro z hz
    have hzD : 0 ≤ z * D := Int.mul_nonneg hz (by omega)
    have hs := C17_iround_spec (z * D) D hD
    have h3 := hs.2.2.1 hzD
    have h1 := hs.1
    -- |2zD − 2D·r| < D with D > 0 forces r = z
    have : (z - iroundQ (z * D) D) * (2 * D) < D ∧ -D ≤ (z - iroundQ (z * D) D) * (2 * D) := by constructor <;> nlinarith
    by_contra hne
    rcases Int.lt_or_gt_of_ne hne with hlt | hgt
    · have : 1 ≤ z - iroundQ (z * D) D := by omega
      nlinarith
    · have : z - iroundQ (z * D) D ≤ -1 := by omega
      nlinarith
  unfold nearestQ
  rw [e x hx.1, e y hy.1]
  have : x ≥ 0 ∧ y ≥ 0 ∧ x < w ∧ y < h := ⟨hx.1, hy.1, hx.2, hy.2⟩
  rw [if_pos this]

example : nearestQ 3 2 (2 * 8) (1 * 8) 8 = some (2, 1) := by decide

/-! ## bilinear_sampler -/

/-- Every pixel the bilinear sampler dereferences is inside the view -- all nine border cases, every view of at
    least 1×1 pixels, any weight type -- and it is one of the (up to four) pixels around the point:
    column ⌊px⌋ or ⌊px⌋+1, row ⌊py⌋ or ⌊py⌋+1. -/
theorem C17_bilinear_access {K : Type} [OfNat K 1] [Sub K] [Mul K] (w h p0x p0y : Int) (fx fy : K)
    (hw : 1 ≤ w) (hh : 1 ≤ h) (hin : bilinearOutside w h p0x p0y = false) :
    ∀ t ∈ bilinearTaps w h p0x p0y fx fy,
      0 ≤ t.x ∧ t.x < w ∧ 0 ≤ t.y ∧ t.y < h ∧ (t.x = p0x ∨ t.x = p0x + 1) ∧ (t.y = p0y ∨ t.y = p0y + 1) := by
  unfold bilinearOutside at hin
  simp only [Bool.or_eq_false_iff, decide_eq_false_iff_not] at hin
  obtain ⟨⟨⟨h1, h2⟩, h3⟩, h4⟩ := hin
  unfold bilinearTaps
  repeat' split
  all_goals
    simp only [List.mem_cons, List.mem_nil_iff, or_false, forall_eq_or_imp, forall_eq, or_true, true_or, and_true]
    omega

example : bilinearOutside 1 1 (-1) (-1) = false := by decide

theorem C17_bilinear_at_most_four {K : Type} [OfNat K 1] [Sub K] [Mul K] (w h p0x p0y : Int) (fx fy : K) :
    (bilinearTaps w h p0x p0y fx fy).length ≤ 4 ∧ 1 ≤ (bilinearTaps w h p0x p0y fx fy).length := by
  unfold bilinearTaps
  repeat' split
  all_goals (simp only [List.length_cons, List.length_nil]; omega)


/-- the weights are non-negative and sum to 1 (exact arithmetic, any ordered field), in every one of the nine cases -/
theorem C17_bilinear_convex {K : Type} [Field K] [LinearOrder K] [IsStrictOrderedRing K]
    (w h p0x p0y : Int) (fx fy : K) (hx0 : 0 ≤ fx) (hx1 : fx ≤ 1) (hy0 : 0 ≤ fy) (hy1 : fy ≤ 1) :
    (∀ t ∈ bilinearTaps w h p0x p0y fx fy, 0 ≤ t.w) ∧
    ((bilinearTaps w h p0x p0y fx fy).map (·.w)).sum = 1 := by
  have a1 : 0 ≤ 1 - fx := by linarith
  have a2 : 0 ≤ 1 - fy := by linarith
  unfold bilinearTaps
  repeat' split
  all_goals
    simp only [List.mem_cons, List.mem_nil_iff, or_false, forall_eq_or_imp, forall_eq, List.map_cons, List.map_nil,
      List.sum_cons, List.sum_nil]
    refine ⟨?_, by ring⟩
    (repeat' constructor) <;> first | exact zero_le_one | assumption | exact mul_nonneg (by assumption) (by assumption)

example : (0 : Rat) ≤ 3 / 8 ∧ (3 / 8 : Rat) ≤ 1 := by constructor <;> norm_num

/-- a convex combination lies between the smallest and the largest combined value -/
theorem C17_convex_between {K : Type} [Field K] [LinearOrder K] [IsStrictOrderedRing K]
    (ws vs : List K) (lo hi : K) (hlen : ws.length = vs.length) (hw : ∀ x ∈ ws, 0 ≤ x) (hs : ws.sum = 1)
    (hv : ∀ x ∈ vs, lo ≤ x ∧ x ≤ hi) :
    lo ≤ ((ws.zip vs).map (fun p => p.2 * p.1)).sum ∧ ((ws.zip vs).map (fun p => p.2 * p.1)).sum ≤ hi := by
  have key : ∀ (ws vs : List K), ws.length = vs.length → (∀ x ∈ ws, 0 ≤ x) → (∀ x ∈ vs, lo ≤ x ∧ x ≤ hi) →
      lo * ws.sum ≤ ((ws.zip vs).map (fun p => p.2 * p.1)).sum ∧ ((ws.zip vs).map (fun p => p.2 * p.1)).sum ≤ hi * ws.sum := by
    intro ws
    induction ws with
    | nil => intro vs _ _ _; simp
    | cons a t ih =>
      intro vs hl hw hv
      cases vs with
      | nil => simp at hl
      | cons b u =>
        have ha : 0 ≤ a := hw a (by simp)
        have hb := hv b (by simp)
        have := ih u (by simpa using hl) (fun x hx => hw x (by simp [hx])) (fun x hx => hv x (by simp [hx]))
        simp only [List.zip_cons_cons, List.map_cons, List.sum_cons]
        constructor <;> nlinarith [mul_le_mul_of_nonneg_right hb.1 ha, mul_le_mul_of_nonneg_right hb.2 ha]
  have := key ws vs hlen hw hv
  rw [hs, mul_one, mul_one] at this
  exact this

/-- the accumulator of the exact sampler is the weighted sum over the taps -/
private theorem accQ_eq (src : Int → Int → Int) (taps : List (Tap Rat)) :
    accQ src taps = (((taps.map (·.w)).zip (taps.map (fun t => (src t.x t.y : Rat)))).map (fun p => p.2 * p.1)).sum := by
  unfold accQ
  have gen : ∀ (l : List (Tap Rat)) (a : Rat), l.foldl (fun acc t => acc + (src t.x t.y : Rat) * t.w) a =
      a + (((l.map (·.w)).zip (l.map (fun t => (src t.x t.y : Rat)))).map (fun p => p.2 * p.1)).sum := by
    intro l
    induction l with
    | nil => intro a; simp
    | cons t r ih => intro a; simp only [List.foldl_cons, ih, List.map_cons, List.zip_cons_cons, List.sum_cons]; ring
  rw [gen taps 0]; ring

/-- the bilinear sampler's value (exact arithmetic, before the cast) is a convex combination of the pixels it reads:
    it lies between the smallest and the largest of them; so does the value after truncation to an integer channel -/
theorem C17_bilinear_value_between (w h : Int) (src : Int → Int → Int) (nx ny D : Int) (hD : 0 < D) (lo hi : Int)
    (taps : List (Tap Rat)) (acc : Rat) (hres : bilinearQ w h src nx ny D = some (taps, acc))
    (hb : ∀ t ∈ taps, lo ≤ src t.x t.y ∧ src t.x t.y ≤ hi) :
    (lo : Rat) ≤ acc ∧ acc ≤ (hi : Rat) := by
  unfold bilinearQ at hres
  by_cases ho : bilinearOutside w h (ifloorQ nx D) (ifloorQ ny D) = true
  · simp [ho] at hres
  · simp only [ho, Bool.false_eq_true, if_false, Option.some.injEq, Prod.mk.injEq] at hres
    obtain ⟨ht, ha⟩ := hres
    have fx := C17_ifloor_spec nx D hD
    have fy := C17_ifloor_spec ny D hD
    have hDq : (0 : Rat) < (D : Rat) := by exact_mod_cast hD
    have cx : (0 : Rat) ≤ ((nx - ifloorQ nx D * D : Int) : Rat) / (D : Rat) ∧ ((nx - ifloorQ nx D * D : Int) : Rat) / (D : Rat) ≤ 1 := by
      constructor
      · apply div_nonneg _ (le_of_lt hDq); exact_mod_cast (by nlinarith : (0 : Int) ≤ nx - ifloorQ nx D * D)
      · rw [div_le_iff₀ hDq, one_mul]; exact_mod_cast (by nlinarith : nx - ifloorQ nx D * D ≤ D)
    have cy : (0 : Rat) ≤ ((ny - ifloorQ ny D * D : Int) : Rat) / (D : Rat) ∧ ((ny - ifloorQ ny D * D : Int) : Rat) / (D : Rat) ≤ 1 := by
      constructor
      · apply div_nonneg _ (le_of_lt hDq); exact_mod_cast (by nlinarith : (0 : Int) ≤ ny - ifloorQ ny D * D)
      · rw [div_le_iff₀ hDq, one_mul]; exact_mod_cast (by nlinarith : ny - ifloorQ ny D * D ≤ D)
    have hconv := C17_bilinear_convex w h (ifloorQ nx D) (ifloorQ ny D) _ _ cx.1 cx.2 cy.1 cy.2
    rw [ht] at hconv
    rw [← ha, ht, accQ_eq]
    apply C17_convex_between _ _ _ _ (by simp) (by simpa using hconv.1) hconv.2
    intro x hx
    simp only [List.mem_map] at hx
    obtain ⟨t, htm, rfl⟩ := hx
    have := hb t htm
    exact ⟨by exact_mod_cast this.1, by exact_mod_cast this.2⟩


/-- the cast back to an integral channel (truncation) keeps the value between the same integer bounds -/
theorem C17_trunc_between (q : Rat) (lo hi : Int) (h1 : (lo : Rat) ≤ q) (h2 : q ≤ (hi : Rat)) :
    lo ≤ truncQ q ∧ truncQ q ≤ hi := by
  unfold truncQ
  have hden : (0 : Int) < (q.den : Int) := by exact_mod_cast q.den_pos
  have hq : q = (q.num : Rat) / (q.den : Rat) := (Rat.num_div_den q).symm
  have hdq : (0 : Rat) < (q.den : Rat) := by exact_mod_cast q.den_pos
  have e1 : lo * (q.den : Int) ≤ q.num := by
    have : (lo : Rat) * (q.den : Rat) ≤ (q.num : Rat) := by rw [hq] at h1; rwa [le_div_iff₀ hdq] at h1
    exact_mod_cast this
  have e2 : q.num ≤ hi * (q.den : Int) := by
    have : (q.num : Rat) ≤ (hi : Rat) * (q.den : Rat) := by rw [hq] at h2; rwa [div_le_iff₀ hdq] at h2
    exact_mod_cast this
  generalize (q.den : Int) = d at *
  generalize q.num = n at *
  by_cases hn : 0 ≤ n
  · rw [Int.tdiv_eq_ediv_of_nonneg hn]
    have h3 := Int.emod_nonneg n (Int.ne_of_gt hden)
    have h4 := Int.emod_lt_of_pos n hden
    have h5 := Int.emod_add_mul_ediv n d
    constructor
    · by_contra hc; have : n / d ≤ lo - 1 := by omega
      nlinarith
    · by_contra hc; have : hi + 1 ≤ n / d := by omega
      nlinarith
  · have e : Int.tdiv n d = -((-n) / d) := by
      have h := Int.neg_tdiv (-n) d
      have h2 : (-n).tdiv d = (-n) / d := Int.tdiv_eq_ediv_of_nonneg (by omega)
      rw [Int.neg_neg] at h; rw [h, h2]
    rw [e]
    have h3 := Int.emod_nonneg (-n) (Int.ne_of_gt hden)
    have h4 := Int.emod_lt_of_pos (-n) hden
    have h5 := Int.emod_add_mul_ediv (-n) d
    constructor
    · by_contra hc; have : -lo + 1 ≤ (-n) / d := by omega
      nlinarith
    · by_contra hc; have : (-n) / d ≤ -hi - 1 := by omega
      nlinarith

private theorem trunc_lt (q : Rat) (H : Int) (h0 : 0 ≤ q) (h : q < (H : Rat)) : truncQ q < H := by
  unfold truncQ
  have hden : (0 : Int) < (q.den : Int) := by exact_mod_cast q.den_pos
  have hdq : (0 : Rat) < (q.den : Rat) := by exact_mod_cast q.den_pos
  have hq : q = (q.num : Rat) / (q.den : Rat) := (Rat.num_div_den q).symm
  have hn : 0 ≤ q.num := Rat.num_nonneg.mpr h0
  have e : q.num < H * (q.den : Int) := by
    have : (q.num : Rat) < (H : Rat) * (q.den : Rat) := by rw [hq] at h; rwa [div_lt_iff₀ hdq] at h
    exact_mod_cast this
  rw [Int.tdiv_eq_ediv_of_nonneg hn]
  exact Int.ediv_lt_of_lt_mul hden e

private theorem truncQ_neg (q : Rat) : truncQ (-q) = -truncQ q := by
  unfold truncQ; simp [Int.neg_tdiv]

private theorem lt_trunc (q : Rat) (L : Int) (h0 : q ≤ 0) (h : (L : Rat) < q) : L < truncQ q := by
  have := trunc_lt (-q) (-L) (by linarith) (by push_cast; linarith)
  rw [truncQ_neg] at this; omega

/-- the cast back to an integral channel since fix 056e54b (`src < 0 ? src - 0.5 : src + 0.5`, then truncation: round to
    nearest, halves away from zero) keeps the value between the same integer bounds; with `C17_bilinear_value_between`
    the sampled value lies within [min, max] of the pixels read -/
theorem C17_round_between (q : Rat) (lo hi : Int) (h1 : (lo : Rat) ≤ q) (h2 : q ≤ (hi : Rat)) :
    lo ≤ roundQ q ∧ roundQ q ≤ hi := by
  unfold roundQ
  by_cases hq : q < 0
  · simp only [hq, if_true]
    constructor
    · have := lt_trunc (q - 1 / 2) (lo - 1) (by linarith) (by push_cast; linarith); omega
    · exact (C17_trunc_between (q - 1 / 2) (lo - 1) hi (by push_cast; linarith) (by linarith)).2
  · simp only [hq, if_false]
    have hq0 : 0 ≤ q := not_lt.mp hq
    constructor
    · exact (C17_trunc_between (q + 1 / 2) lo (hi + 1) (by linarith) (by push_cast; linarith)).1
    · have := trunc_lt (q + 1 / 2) (hi + 1) (by linarith) (by push_cast; linarith); omega

/-- an integer is its own rounding -/
theorem C17_round_int (n : Int) : roundQ (n : Rat) = n := by
  have := C17_round_between (n : Rat) n n (le_refl _) (le_refl _); omega

/-- at integer coordinates inside the view the bilinear sampler returns the source pixel itself -/
theorem C17_bilinear_integer_points (w h : Int) (src : Int → Int → Int) (x y D : Int) (hD : 0 < D)
    (hx : 0 ≤ x ∧ x < w) (hy : 0 ≤ y ∧ y < h) :
    ∃ taps, bilinearQ w h src (x * D) (y * D) D = some (taps, (src x y : Rat)) ∧ roundQ (src x y : Rat) = src x y := by
  have ex : ifloorQ (x * D) D = x := by unfold ifloorQ; exact Int.mul_ediv_cancel x (Int.ne_of_gt hD)
  have ey : ifloorQ (y * D) D = y := by unfold ifloorQ; exact Int.mul_ediv_cancel y (Int.ne_of_gt hD)
  have ho : bilinearOutside w h x y = false := by
    unfold bilinearOutside
    simp only [Bool.or_eq_false_iff, decide_eq_false_iff_not]; omega
  have htr : roundQ (src x y : Rat) = src x y := C17_round_int _
  unfold bilinearQ
  simp only [ex, ey, ho, Bool.false_eq_true, if_false, sub_self, Int.cast_zero, zero_div]
  refine ⟨bilinearTaps w h x y 0 0, ?_, htr⟩
  simp only [Option.some.injEq, Prod.mk.injEq, true_and]
  unfold bilinearTaps accQ
  have hx1 : ¬ x = -1 := by omega
  have hy1 : ¬ y = -1 := by omega
  simp only [hx1, hy1, if_false]
  split <;> split <;> simp

example : ∃ taps, bilinearQ 3 2 (fun x y => x + 10 * y) (2 * 8) (1 * 8) 8 = some (taps, ((12 : Int) : Rat)) :=
  ⟨_, (C17_bilinear_integer_points 3 2 (fun x y => x + 10 * y) 2 1 8 (by decide) (by decide) (by decide)).choose_spec.1⟩

/-! ## resample_pixels -/

/-- `resample_pixels`: every destination pixel (x,y) becomes `sample(src, transform(map,(x,y)))`, or keeps its old value
    when the sampler reports "outside"; nothing else is produced (dh rows of dw pixels) -/
theorem C17_resample_loop {P K : Type} (sample : K × K → Option P) (tr : Int × Int → K × K) (old : Int → Int → P)
    (dw dh : Nat) :
    (resample sample tr old dw dh).length = dh ∧
    ∀ y, y < dh → ∃ row, (resample sample tr old dw dh)[y]? = some row ∧ row.length = dw ∧
      ∀ x, x < dw → row[x]? = some (match sample (tr ((x : Int), (y : Int))) with
                                     | some v => v
                                     | none => old (x : Int) (y : Int)) := by
  unfold resample
  refine ⟨by simp, ?_⟩
  intro y hy
  refine ⟨(List.range dw).map (fun (x : Nat) => match sample (tr ((x : Int), (y : Int))) with
                                                | some v => v
                                                | none => old (x : Int) (y : Int)),
    by rw [List.getElem?_map, List.getElem?_range hy]; rfl, by simp, ?_⟩
  intro x hx
  simp [hx]

/-! ## matrix3x2 -/

section matrix
variable {K : Type} [Field K]

private theorem M32_ext (m n : M32 K) (h1 : m.a = n.a) (h2 : m.b = n.b) (h3 : m.c = n.c) (h4 : m.d = n.d)
    (h5 : m.e = n.e) (h6 : m.f = n.f) : m = n := by
  cases m; cases n; simp only [M32.mk.injEq]; exact ⟨h1, h2, h3, h4, h5, h6⟩

/-- matrix multiplication is associative -/
theorem C17_matrix_assoc (m1 m2 m3 : M32 K) : M32.mul (M32.mul m1 m2) m3 = M32.mul m1 (M32.mul m2 m3) := by
  apply M32_ext <;> simp only [M32.mul] <;> ring

/-- the default-constructed matrix is the identity for the product and for the point transform -/
theorem C17_matrix_one (m : M32 K) (p : K × K) :
    M32.mul M32.one m = m ∧ M32.mul m M32.one = m ∧ M32.apply M32.one p = p := by
  refine ⟨?_, ?_, ?_⟩
  · apply M32_ext <;> simp only [M32.mul, M32.one] <;> ring
  · apply M32_ext <;> simp only [M32.mul, M32.one] <;> ring
  · simp only [M32.apply, M32.one]; ext <;> simp

/-- transforming by a product is transforming by the factors left to right: p·(m1·m2) = (p·m1)·m2 -/
theorem C17_matrix_apply_mul (m1 m2 : M32 K) (p : K × K) :
    M32.apply (M32.mul m1 m2) p = M32.apply m2 (M32.apply m1 p) := by
  simp only [M32.apply, M32.mul]; ext <;> simp only <;> ring

/-- `inverse(m) * m = m * inverse(m) = identity` for every non-singular m -/
theorem C17_matrix_inverse (m : M32 K) (hdet : m.a * m.d - m.b * m.c ≠ 0) :
    M32.mul (M32.inverse m) m = M32.one ∧ M32.mul m (M32.inverse m) = M32.one := by
  obtain ⟨a, b, c, d, e, f⟩ := m
  simp only at hdet
  obtain ⟨Δ, hΔ⟩ : ∃ Δ, Δ = a * d - b * c := ⟨_, rfl⟩
  rw [← hΔ] at hdet
  constructor <;> apply M32_ext <;> simp only [M32.mul, M32.inverse, M32.one] <;> rw [← hΔ] <;> field_simp <;>
    (subst hΔ; ring)

/-- mapping a point with m and then with inverse(m) gives the point back (exact arithmetic) -/
theorem C17_matrix_maps_back (m : M32 K) (hdet : m.a * m.d - m.b * m.c ≠ 0) (p : K × K) :
    M32.apply (M32.inverse m) (M32.apply m p) = p ∧ M32.apply m (M32.apply (M32.inverse m) p) = p := by
  have h := C17_matrix_inverse m hdet
  constructor
  · rw [← C17_matrix_apply_mul, h.2]; exact (C17_matrix_one m p).2.2
  · rw [← C17_matrix_apply_mul, h.1]; exact (C17_matrix_one m p).2.2

example : ((2 : Rat) * 3 - 1 * 4 ≠ 0) := by norm_num

/-- get_translate / get_scale act and compose as documented -/
theorem C17_translate_scale_compose (x y u v : K) (p : K × K) :
    M32.apply (M32.translate x y) p = (p.1 + x, p.2 + y) ∧
    M32.apply (M32.scale x y) p = (x * p.1, y * p.2) ∧
    M32.mul (M32.translate x y) (M32.translate u v) = M32.translate (x + u) (y + v) ∧
    M32.mul (M32.scale x y) (M32.scale u v) = M32.scale (x * u) (y * v) ∧
    M32.apply (M32.mul (M32.scale x y) (M32.translate u v)) p = (x * p.1 + u, y * p.2 + v) ∧
    M32.apply (M32.mul (M32.translate u v) (M32.scale x y)) p = (x * (p.1 + u), y * (p.2 + v)) := by
  refine ⟨?_, ?_, ?_, ?_, ?_, ?_⟩
  · simp only [M32.apply, M32.translate]; ext <;> simp only <;> ring
  · simp only [M32.apply, M32.scale]; ext <;> simp only <;> ring
  · apply M32_ext <;> simp only [M32.mul, M32.translate] <;> ring
  · apply M32_ext <;> simp only [M32.mul, M32.scale] <;> ring
  · simp only [M32.apply, M32.mul, M32.scale, M32.translate]; ext <;> simp only <;> ring
  · simp only [M32.apply, M32.mul, M32.scale, M32.translate]; ext <;> simp only <;> ring

/-- get_rotate: (c, s) = (cos θ, sin θ) enter as an opaque pair.  Rotations compose by the angle addition formulas,
    the inverse of a rotation is the rotation by the opposite angle (c² + s² = 1), and a rotation preserves x² + y² -/
theorem C17_rotate_compose (c1 s1 c2 s2 : K) (p : K × K) :
    M32.mul (M32.rotate c1 s1) (M32.rotate c2 s2) = M32.rotate (c1 * c2 - s1 * s2) (s1 * c2 + c1 * s2) ∧
    M32.apply (M32.rotate c1 s1) p = (c1 * p.1 - s1 * p.2, s1 * p.1 + c1 * p.2) ∧
    (c1 * c1 + s1 * s1 = 1 → M32.inverse (M32.rotate c1 s1) = M32.rotate c1 (-s1) ∧
      (M32.apply (M32.rotate c1 s1) p).1 * (M32.apply (M32.rotate c1 s1) p).1 +
      (M32.apply (M32.rotate c1 s1) p).2 * (M32.apply (M32.rotate c1 s1) p).2 = p.1 * p.1 + p.2 * p.2) := by
  refine ⟨?_, ?_, ?_⟩
  · apply M32_ext <;> simp only [M32.mul, M32.rotate] <;> ring
  · simp only [M32.apply, M32.rotate]; ext <;> simp only <;> ring
  · intro h1
    have hdet : c1 * c1 - s1 * -s1 = 1 := by rw [← h1]; ring
    constructor
    · apply M32_ext <;> simp only [M32.inverse, M32.rotate, hdet] <;> ring
    · simp only [M32.apply, M32.rotate]
      have : (c1 * p.1 + -s1 * p.2 + 0) * (c1 * p.1 + -s1 * p.2 + 0) + (s1 * p.1 + c1 * p.2 + 0) * (s1 * p.1 + c1 * p.2 + 0)
          = (c1 * c1 + s1 * s1) * (p.1 * p.1 + p.2 * p.2) := by ring
      rw [this, h1, one_mul]

/-- `operator*=`: `(m *= n) = m * n` -- also when the argument aliases the object (`m *= m` = `m * m`) -/
theorem C17_matrix_mul_assign (m n : M32 K) :
    M32.mulAssign m n = M32.mul m n ∧ M32.mulAssign m m = M32.mul m m := by
  constructor <;> rfl

/-- a map composed step by step, `m = start; m *= M1; …; m *= Mn` (ANY list of matrices), is the left-to-right product,
    which by associativity is `start * (M1 * (M2 * …))`; from the default-constructed identity it is `M1 * … * Mn` -/
theorem C17_matrix_chain (start : M32 K) (ms : List (M32 K)) :
    M32.chain start ms = ms.foldl M32.mul start ∧
    M32.chain start ms = M32.mul start (ms.foldr M32.mul M32.one) ∧
    M32.chain M32.one ms = ms.foldr M32.mul M32.one := by
  have h2 : ∀ (s : M32 K), ms.foldl M32.mul s = M32.mul s (ms.foldr M32.mul M32.one) := by
    induction ms with
    | nil => intro s; exact ((C17_matrix_one s (0, 0)).2.1).symm
    | cons x xs ih => intro s; simp only [List.foldl_cons, List.foldr_cons]; rw [ih (M32.mul s x), C17_matrix_assoc]
  have h1 : ∀ (s : M32 K), M32.chain s ms = ms.foldl M32.mul s := fun s => rfl
  refine ⟨h1 start, (h1 start).trans (h2 start), ?_⟩
  rw [h1, h2]; exact (C17_matrix_one _ (0, 0)).1

/-- the mapping law along a history of compound multiplications: the composed map sends `p` to
    `(((p * start) * M1) * …) * Mn` -- what `resample_pixels` evaluates when it is given the composed map -/
theorem C17_matrix_chain_apply (start : M32 K) (ms : List (M32 K)) (p : K × K) :
    M32.apply (M32.chain start ms) p = ms.foldl (fun q m => M32.apply m q) (M32.apply start p) := by
  induction ms generalizing start with
  | nil => rfl
  | cons x xs ih =>
    simp only [M32.chain, List.foldl_cons] at ih ⊢
    rw [ih (M32.mulAssign start x)]
    congr 1
    exact C17_matrix_apply_mul start x p

/-- `resample_pixels` given a map that was composed step by step with `*=` (any history): every destination pixel is the sample at
    the point obtained by applying the steps one after the other to `(x, y)`, or keeps its old value -/
theorem C17_resample_composed {P : Type} (sample : K × K → Option P) (cast : Int → K) (old : Int → Int → P)
    (start : M32 K) (ms : List (M32 K)) (dw dh : Nat) :
    resample sample (fun xy => M32.apply (M32.chain start ms) (cast xy.1, cast xy.2)) old dw dh =
    resample sample (fun xy => ms.foldl (fun q m => M32.apply m q) (M32.apply start (cast xy.1, cast xy.2))) old dw dh := by
  congr 1
  funext xy
  exact C17_matrix_chain_apply start ms _

/-- textbook composition "rotate about a centre": `I *= translate(-cx,-cy); *= rotate(c,s); *= translate(cx,cy)` fixes the centre
    and maps `p` to `centre + R (p - centre)` -/
theorem C17_matrix_rotate_about (cx cy c s : K) (p : K × K) :
    let m := M32.chain M32.one [M32.translate (-cx) (-cy), M32.rotate c s, M32.translate cx cy]
    M32.apply m p = (cx + (c * (p.1 - cx) - s * (p.2 - cy)), cy + (s * (p.1 - cx) + c * (p.2 - cy))) ∧
    (c = 1 → s = 0 → m = M32.one) := by
  refine ⟨?_, ?_⟩
  · simp only [M32.chain, List.foldl, M32.mulAssign, M32.mul, M32.apply, M32.one, M32.translate, M32.rotate]
    ext <;> simp only <;> ring
  · intro hc hs
    subst hc hs
    apply M32_ext <;> simp only [M32.chain, List.foldl, M32.mulAssign, M32.mul, M32.one, M32.translate, M32.rotate] <;> ring

end matrix

/-- `resize_view` to the same size uses the identity matrix (every view size; cos(−0) = 1, sin(−0) = 0): with
    `C17_bilinear_integer_points` / `C17_nearest_integer_points` the destination then equals the source -/
theorem C17_resize_identity {K : Type} [Field K] [LinearOrder K] [IsStrictOrderedRing K] (w h : K) :
    M32.resize w h w h 0 = M32.one := by
  unfold M32.resize M32.subimage
  have h1 : (0 : K) < max (w - 0 - 1) 1 := lt_of_lt_of_le zero_lt_one (le_max_right _ _)
  have h2 : (0 : K) < max (h - 0 - 1) 1 := lt_of_lt_of_le zero_lt_one (le_max_right _ _)
  have e1 : max (w - 0 - 1) 1 = max (w - 1) 1 := by rw [sub_zero]
  have e2 : max (h - 0 - 1) 1 = max (h - 1) 1 := by rw [sub_zero]
  simp only [e1, e2] at h1 h2 ⊢
  generalize max (w - 1) 1 = a at *
  generalize max (h - 1) 1 = b at *
  have ha : a ≠ 0 := ne_of_gt h1
  have hb : b ≠ 0 := ne_of_gt h2
  apply M32_ext <;> simp only [M32.mul, M32.translate, M32.scale, M32.rotate, M32.one] <;> field_simp <;> ring

/-- the matrix of `resample_subimage` (every source rectangle, every destination size, every angle -- (c, s) opaque): the centre of the
    destination goes to the centre of the source rectangle; at angle 0 the destination's corners `(0,0)` and `(dw', dh')` go to the
    rectangle's corners `(minx, miny)` and `(minx + sw, miny + sh)` (sw = max(maxx-minx-1, 1), dw' = max(dstW-1, 1), …) -/
theorem C17_subimage_centre_corners {K : Type} [Field K] [LinearOrder K] [IsStrictOrderedRing K]
    (minx miny maxx maxy dstW dstH c s : K) :
    M32.apply (M32.subimage minx miny maxx maxy dstW dstH c s) (max (dstW - 1) 1 / 2, max (dstH - 1) 1 / 2)
      = (minx + max (maxx - minx - 1) 1 / 2, miny + max (maxy - miny - 1) 1 / 2) ∧
    (c = 1 → s = 0 →
      M32.apply (M32.subimage minx miny maxx maxy dstW dstH c s) (0, 0) = (minx, miny) ∧
      M32.apply (M32.subimage minx miny maxx maxy dstW dstH c s) (max (dstW - 1) 1, max (dstH - 1) 1)
        = (minx + max (maxx - minx - 1) 1, miny + max (maxy - miny - 1) 1)) := by
  unfold M32.subimage
  have h1 : (0 : K) < max (dstW - 1) 1 := lt_of_lt_of_le zero_lt_one (le_max_right _ _)
  have h2 : (0 : K) < max (dstH - 1) 1 := lt_of_lt_of_le zero_lt_one (le_max_right _ _)
  generalize max (dstW - 1) 1 = p at *
  generalize max (dstH - 1) 1 = q at *
  generalize max (maxx - minx - 1) 1 = a
  generalize max (maxy - miny - 1) 1 = b
  have hp : p ≠ 0 := ne_of_gt h1
  have hq : q ≠ 0 := ne_of_gt h2
  refine ⟨?_, ?_⟩
  · simp only [M32.apply, M32.mul, M32.translate, M32.scale, M32.rotate]
    ext <;> simp only <;> field_simp <;> ring
  · intro hc hs
    subst hc hs
    constructor <;> simp only [M32.apply, M32.mul, M32.translate, M32.scale, M32.rotate] <;>
      (ext <;> simp only <;> field_simp <;> ring)

example : M32.apply (M32.subimage (1 : Rat) 2 6 5 4 3 0 (-1)) (3 / 2, 1) = (3, 3) := by
  norm_num [M32.apply, M32.subimage, M32.mul, M32.translate, M32.scale, M32.rotate]

/-- `operator*=` in ANY arithmetic (only `+` and `*`, no laws: floating point included): the members after `m *= n` are exactly the
    entries of `m * n` computed by the binary operator -- the two never differ by rounding (statement about the model, whose `mulAssign`
    follows `(*this) = (*this)*m`; the integer kernel version is C17_kernel_mul_assign_eq_mul) -/
theorem C17_matrix_mul_assign_any_arithmetic {K : Type} [Add K] [Mul K] (m n : M32 K) :
    M32.mulAssign m n = M32.mul m n := rfl

/-! ## summaries -/

/-- The bilinear sampler as a whole (exact arithmetic, every view of at least 1×1, every rational point n/D):
    it reports "outside" exactly when ⌊p⌋ ∉ [−1,w)×[−1,h); otherwise it reads only pixels of the view that surround
    the point, with non-negative weights summing to 1, and accumulates their weighted sum. -/
theorem C17_bilinear_sampler (w h : Int) (src : Int → Int → Int) (nx ny D : Int) (hD : 0 < D) (hw : 1 ≤ w) (hh : 1 ≤ h) :
    (bilinearQ w h src nx ny D = none ↔ ¬ (-D ≤ nx ∧ nx < w * D ∧ -D ≤ ny ∧ ny < h * D)) ∧
    (∀ taps acc, bilinearQ w h src nx ny D = some (taps, acc) →
      (∀ t ∈ taps, 0 ≤ t.x ∧ t.x < w ∧ 0 ≤ t.y ∧ t.y < h ∧
        (t.x = ifloorQ nx D ∨ t.x = ifloorQ nx D + 1) ∧ (t.y = ifloorQ ny D ∨ t.y = ifloorQ ny D + 1) ∧ 0 ≤ t.w) ∧
      (taps.map (·.w)).sum = 1 ∧ 1 ≤ taps.length ∧ taps.length ≤ 4 ∧ acc = accQ src taps) := by
  have fx := C17_ifloor_spec nx D hD
  have fy := C17_ifloor_spec ny D hD
  have hout : bilinearOutside w h (ifloorQ nx D) (ifloorQ ny D) = true ↔ ¬ (-D ≤ nx ∧ nx < w * D ∧ -D ≤ ny ∧ ny < h * D) := by
    unfold bilinearOutside
    simp only [Bool.or_eq_true, decide_eq_true_eq]
    constructor
    · intro hc hn
      rcases hc with ((hc | hc) | hc) | hc <;> nlinarith
    · intro hn
      by_contra hc
      simp only [not_or, not_lt, ge_iff_le, not_le] at hc
      apply hn
      obtain ⟨⟨⟨c1, c2⟩, c3⟩, c4⟩ := hc
      refine ⟨by nlinarith, by nlinarith, by nlinarith, by nlinarith⟩
  constructor
  · rw [← hout]; unfold bilinearQ
    by_cases ho : bilinearOutside w h (ifloorQ nx D) (ifloorQ ny D) = true
    · simp [ho]
    · simp [ho]
  · intro taps acc hres
    have hres' := hres
    unfold bilinearQ at hres
    by_cases ho : bilinearOutside w h (ifloorQ nx D) (ifloorQ ny D) = true
    · simp [ho] at hres
    · simp only [ho, Bool.false_eq_true, if_false, Option.some.injEq, Prod.mk.injEq] at hres
      obtain ⟨ht, ha⟩ := hres
      have hof : bilinearOutside w h (ifloorQ nx D) (ifloorQ ny D) = false := by simpa using ho
      have hDq : (0 : Rat) < (D : Rat) := by exact_mod_cast hD
      have cx : (0 : Rat) ≤ ((nx - ifloorQ nx D * D : Int) : Rat) / (D : Rat) ∧ ((nx - ifloorQ nx D * D : Int) : Rat) / (D : Rat) ≤ 1 := by
        constructor
        · apply div_nonneg _ (le_of_lt hDq); exact_mod_cast (by nlinarith : (0 : Int) ≤ nx - ifloorQ nx D * D)
        · rw [div_le_iff₀ hDq, one_mul]; exact_mod_cast (by nlinarith : nx - ifloorQ nx D * D ≤ D)
      have cy : (0 : Rat) ≤ ((ny - ifloorQ ny D * D : Int) : Rat) / (D : Rat) ∧ ((ny - ifloorQ ny D * D : Int) : Rat) / (D : Rat) ≤ 1 := by
        constructor
        · apply div_nonneg _ (le_of_lt hDq); exact_mod_cast (by nlinarith : (0 : Int) ≤ ny - ifloorQ ny D * D)
        · rw [div_le_iff₀ hDq, one_mul]; exact_mod_cast (by nlinarith : ny - ifloorQ ny D * D ≤ D)
      have hacc := C17_bilinear_access w h (ifloorQ nx D) (ifloorQ ny D)
        (((nx - ifloorQ nx D * D : Int) : Rat) / (D : Rat)) (((ny - ifloorQ ny D * D : Int) : Rat) / (D : Rat)) hw hh hof
      have hconv := C17_bilinear_convex w h (ifloorQ nx D) (ifloorQ ny D) _ _ cx.1 cx.2 cy.1 cy.2
      have hlen := C17_bilinear_at_most_four w h (ifloorQ nx D) (ifloorQ ny D)
        (((nx - ifloorQ nx D * D : Int) : Rat) / (D : Rat)) (((ny - ifloorQ ny D * D : Int) : Rat) / (D : Rat))
      rw [ht] at hacc hconv hlen
      refine ⟨fun t htm => ?_, hconv.2, hlen.2, hlen.1, by rw [← ha, ht]⟩
      obtain ⟨a1, a2, a3, a4, a5, a6⟩ := hacc t htm
      exact ⟨a1, a2, a3, a4, a5, a6, hconv.1 t htm⟩

/-- inside the view's own domain [0,w−1]×[0,h−1] neither sampler reports "outside" -/
theorem C17_samplers_inside_domain (w h : Int) (src : Int → Int → Int) (nx ny D : Int) (hD : 0 < D) (hw : 1 ≤ w) (hh : 1 ≤ h)
    (hx : 0 ≤ nx ∧ nx ≤ (w - 1) * D) (hy : 0 ≤ ny ∧ ny ≤ (h - 1) * D) :
    bilinearQ w h src nx ny D ≠ none ∧ nearestQ w h nx ny D ≠ none := by
  constructor
  · intro hn
    have := (C17_bilinear_sampler w h src nx ny D hD hw hh).1.mp hn
    apply this
    refine ⟨by nlinarith, by nlinarith, by nlinarith, by nlinarith⟩
  · intro hn
    have hs := (C17_nearest w h nx ny D hD).2.mp hn
    have rx := C17_iround_spec nx D hD
    have ry := C17_iround_spec ny D hD
    apply hs
    have bx := rx.2.2.1 hx.1
    have by' := ry.2.2.1 hy.1
    refine ⟨?_, ?_, ?_, ?_⟩
    · by_contra hc; have : iroundQ nx D ≤ -1 := by omega
      nlinarith [rx.1, rx.2.1]
    · by_contra hc; have : w ≤ iroundQ nx D := by omega
      nlinarith [rx.1, rx.2.1]
    · by_contra hc; have : iroundQ ny D ≤ -1 := by omega
      nlinarith [ry.1, ry.2.1]
    · by_contra hc; have : h ≤ iroundQ ny D := by omega
      nlinarith [ry.1, ry.2.1]

example : (0 : Int) ≤ 5 ∧ 5 ≤ (3 - 1) * 8 := by decide

/-- farther than one pixel from the view (no source pixel surrounds the point) both samplers report "outside" -/
theorem C17_samplers_far_outside (w h : Int) (src : Int → Int → Int) (nx ny D : Int) (hD : 0 < D) (hw : 1 ≤ w) (hh : 1 ≤ h)
    (hfar : farOutside w h nx ny D = true) :
    bilinearQ w h src nx ny D = none ∧ nearestQ w h nx ny D = none := by
  unfold farOutside at hfar
  simp only [Bool.or_eq_true, decide_eq_true_eq] at hfar
  constructor
  · rw [(C17_bilinear_sampler w h src nx ny D hD hw hh).1]
    intro hc
    rcases hfar with ((hf | hf) | hf) | hf <;> omega
  · rw [(C17_nearest w h nx ny D hD).2]
    intro hc
    have rx := C17_iround_spec nx D hD
    have ry := C17_iround_spec ny D hD
    rcases hfar with ((hf | hf) | hf) | hf
    · have : 0 ≤ D * iroundQ nx D := Int.mul_nonneg (by omega) hc.1
      nlinarith [rx.1]
    · have : D * (iroundQ nx D + 1) ≤ D * w := Int.mul_le_mul_of_nonneg_left (by omega) (by omega)
      nlinarith [rx.2.1]
    · have : 0 ≤ D * iroundQ ny D := Int.mul_nonneg (by omega) hc.2.2.1
      nlinarith [ry.1]
    · have : D * (iroundQ ny D + 1) ≤ D * h := Int.mul_le_mul_of_nonneg_left (by omega) (by omega)
      nlinarith [ry.2.1]

example : farOutside 3 2 (-9) 0 8 = true := by decide

/-- `resize_view` to the same size is the identity (exact arithmetic): the matrix is the identity, so destination
    pixel (x,y) samples the source at exactly (x,y), where both samplers return the source pixel itself -/
theorem C17_resize_same_size (w h : Int) (src : Int → Int → Int) (x y : Int) (hx : 0 ≤ x ∧ x < w) (hy : 0 ≤ y ∧ y < h) :
    M32.apply (M32.resize (w : Rat) (h : Rat) (w : Rat) (h : Rat) 0) ((x : Rat), (y : Rat)) = ((x : Rat), (y : Rat)) ∧
    (∃ taps, bilinearQ w h src (x * 1) (y * 1) 1 = some (taps, (src x y : Rat))) ∧
    nearestQ w h (x * 1) (y * 1) 1 = some (x, y) := by
  refine ⟨?_, ?_, C17_nearest_integer_points w h x y 1 (by decide) hx hy⟩
  · rw [C17_resize_identity]; exact (C17_matrix_one (M32.one) _).2.2
  · obtain ⟨taps, h1, _⟩ := C17_bilinear_integer_points w h src x y 1 (by decide) hx hy
    exact ⟨taps, h1⟩


end GilVerif.Props.C17
