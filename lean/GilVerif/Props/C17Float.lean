/-
  C17, bilinear sampler in floating point -- PROVED relative to `FloatSpec` (Basic/FloatSpec.lean), and a WITNESS that
  the convexity clause of the property fails on the rounded computation.

  ASSUMED (trusted base): the arithmetic of the sample-point type `F` (`float` or `double`) satisfies `FloatSpec` with
  eps ≤ 2^-24 (binary32; binary64 is smaller), and sampler.hpp performs `frac = p - p0`, the weights `(1-frac.x)*(1-frac.y)`,
  ... and `dst += F(src * w)` with one rounding per operation (no FMA).
  MODEL: the generic nine-case `bilinearTaps` of Model/C17.lean (the one Props/C17.lean reasons about exactly and the driver
  runs with `Float`) instantiated with the rounded arithmetic `RVal R`; accumulator `accR` (Lemmas/C17Float.lean); the final
  `cast_pixel` is the truncation `ctrunc`.
  PROVED, for EVERY `R : FloatSpec` with eps ≤ 2^-24, every view shape, every one of the nine border cases, every fractional
  part in [0,1], pixel values in [lo, hi] ⊆ [0, 65535]:
    * the rounded weights are non-negative, at most four, and sum to 1 within [-6 eps, +7 eps]      (C17_float_weights)
    * lo - 1 < mp < hi + 1 and hence  lo - 1 ≤ result ≤ hi  after the truncating cast               (C17_float_bilinear_between,
      C17_float_bilinear_range: result ∈ [min - 1, max] of the pixels read)
    * a single tap of weight 1 (the four corner cases) returns the pixel exactly                      (C17_float_single_tap_exact)
    * at integer coordinates inside the view (frac = 0) the result is the source pixel itself          (C17_float_integer_points)
    * since fix 056e54b (`cast_channel_fn` rounds to nearest, `cround`): lo ≤ result ≤ hi                (C17_float_bilinear_rounded_between,
      C17_float_bilinear_rounded_range: result ∈ [min, max] of the pixels read; C17_float_rounded_witness)
  For the PRE-FIX truncating cast `lo ≤ result` was not provable, and FALSE on the real code.  `C17_float_truncates_below_min_witness`: with the genuine
  binary32 rounding (kernel-evaluated) a CONSTANT image of 255 sampled at (6.52790165f, 5.04227161f) gives
  mp = 254.99998474..., result 254 -- exactly what `sample(bilinear_sampler, …)` of /repo returns (probe: 12.7 % of random
  off-grid points).  The exact-arithmetic theorems `C17_bilinear_value_between` / `C17_trunc_between` of Props/C17.lean do not
  transfer to the float evaluation; only "within one unit below" does.
  Only property theorems live here (named C17_float_*).
-/
import GilVerif.Lemmas.C17Float
import GilVerif.Basic.FloatNearest

namespace GilVerif.Props.C17Float
open GilVerif GilVerif.FloatSpec GilVerif.Model.C15 GilVerif.Model.C17 GilVerif.Lemmas.C15Float GilVerif.Lemmas.C17Float

/-- the rounded weights of every one of the nine cases: at most four, non-negative, summing to 1 within [-6 eps, 7 eps] -/
theorem C17_float_weights (R : FloatSpec) (he : R.eps ≤ 1 / 2 ^ 24) (w h p0x p0y : Int) (fx fy : ℚ)
    (hx0 : 0 ≤ fx) (hx1 : fx ≤ 1) (hy0 : 0 ≤ fy) (hy1 : fy ≤ 1) :
    ((bilinearTaps (K := RVal R) w h p0x p0y ⟨fx⟩ ⟨fy⟩).map (fun t => t.w.v)).length ≤ 4
    ∧ (∀ x ∈ (bilinearTaps (K := RVal R) w h p0x p0y ⟨fx⟩ ⟨fy⟩).map (fun t => t.w.v), 0 ≤ x)
    ∧ 1 - 6 * R.eps ≤ ((bilinearTaps (K := RVal R) w h p0x p0y ⟨fx⟩ ⟨fy⟩).map (fun t => t.w.v)).sum
    ∧ ((bilinearTaps (K := RVal R) w h p0x p0y ⟨fx⟩ ⟨fy⟩).map (fun t => t.w.v)).sum ≤ 1 + 7 * R.eps :=
  weights_ok R he w h p0x p0y fx fy hx0 hx1 hy0 hy1

/-- THE value theorem: the float accumulator stays strictly within one unit of the range of the pixels read; after the
    truncating cast the result is at most `hi` and at least `lo - 1` -/
theorem C17_float_bilinear_between (R : FloatSpec) (he : R.eps ≤ 1 / 2 ^ 24) (w h p0x p0y : Int) (src : Int → Int → Int) (fx fy : ℚ)
    (hx0 : 0 ≤ fx) (hx1 : fx ≤ 1) (hy0 : 0 ≤ fy) (hy1 : fy ≤ 1) (lo hi : Int) (hlo : 0 ≤ lo) (hlh : lo ≤ hi) (hhi : hi ≤ 65535)
    (hb : ∀ t ∈ bilinearTaps (K := RVal R) w h p0x p0y ⟨fx⟩ ⟨fy⟩, lo ≤ src t.x t.y ∧ src t.x t.y ≤ hi) :
    (lo : ℚ) - 1 < (accR R src (bilinearTaps (K := RVal R) w h p0x p0y ⟨fx⟩ ⟨fy⟩)).v
    ∧ (accR R src (bilinearTaps (K := RVal R) w h p0x p0y ⟨fx⟩ ⟨fy⟩)).v < (hi : ℚ) + 1
    ∧ lo - 1 ≤ ctrunc (accR R src (bilinearTaps (K := RVal R) w h p0x p0y ⟨fx⟩ ⟨fy⟩)).v
    ∧ ctrunc (accR R src (bilinearTaps (K := RVal R) w h p0x p0y ⟨fx⟩ ⟨fy⟩)).v ≤ hi := by
  obtain ⟨hlen, hw0, hW1, hW2⟩ := weights_ok R he w h p0x p0y fx fy hx0 hx1 hy0 hy1
  generalize bilinearTaps (K := RVal R) w h p0x p0y ⟨fx⟩ ⟨fy⟩ = taps at *
  have hps : ∀ p ∈ taps.map (fun t => (src t.x t.y : ℚ)), (lo : ℚ) ≤ p ∧ p ≤ (hi : ℚ) := by
    intro p hp
    obtain ⟨t, ht, rfl⟩ := List.mem_map.mp hp
    have := hb t ht
    exact ⟨by exact_mod_cast this.1, by exact_mod_cast this.2⟩
  have key := acc_between R he (taps.map (fun t => (src t.x t.y : ℚ))) (taps.map (fun t => t.w.v)) lo hi (by simp)
    (by simpa using hlen) hps (by exact_mod_cast hlo) (by exact_mod_cast hlh) (by exact_mod_cast hhi) hw0 hW1 hW2
  rw [← accR_eq_ip] at key
  generalize (accR R src taps).v = mp at *
  have hlo' : (0 : ℚ) ≤ lo := by exact_mod_cast hlo
  refine ⟨key.1, key.2, ?_, ?_⟩
  · by_cases h0 : 0 ≤ mp
    · rw [ctrunc_of_nonneg h0, Int.le_floor]; push_cast; linarith [key.1]
    · -- a value in (-1, 0) truncates to 0 (and then lo = 0)
      have hneg : mp < 0 := not_le.mp h0
      unfold ctrunc; rw [if_neg h0]
      have : ⌊-mp⌋ = 0 := by rw [Int.floor_eq_iff]; constructor <;> push_cast <;> linarith [key.1]
      rw [this]
      have : (lo : ℚ) < 1 := by linarith [key.1]
      have : lo < 1 := by exact_mod_cast this
      omega
  · by_cases h0 : 0 ≤ mp
    · rw [ctrunc_of_nonneg h0]
      have : ⌊mp⌋ < hi + 1 := by rw [Int.floor_lt]; push_cast; exact key.2
      omega
    · unfold ctrunc; rw [if_neg h0]
      have hneg : mp < 0 := not_le.mp h0
      have : ⌊-mp⌋ = 0 := by rw [Int.floor_eq_iff]; constructor <;> push_cast <;> linarith [key.1]
      rw [this]; omega

/-- the clause the property can keep for the float evaluation: the sampled value (after the truncating cast) lies in
    [min - 1, max] of the pixels read -- stated with `lo` / `hi` the smallest / largest pixel value among the taps -/
theorem C17_float_bilinear_range (R : FloatSpec) (he : R.eps ≤ 1 / 2 ^ 24) (w h p0x p0y : Int) (src : Int → Int → Int) (fx fy : ℚ)
    (hx0 : 0 ≤ fx) (hx1 : fx ≤ 1) (hy0 : 0 ≤ fy) (hy1 : fy ≤ 1) (mn mx : Int) (hmn : 0 ≤ mn) (hmx : mx ≤ 65535)
    (hmin : ∀ t ∈ bilinearTaps (K := RVal R) w h p0x p0y ⟨fx⟩ ⟨fy⟩, mn ≤ src t.x t.y)
    (hmax : ∀ t ∈ bilinearTaps (K := RVal R) w h p0x p0y ⟨fx⟩ ⟨fy⟩, src t.x t.y ≤ mx)
    (hne : bilinearTaps (K := RVal R) w h p0x p0y ⟨fx⟩ ⟨fy⟩ ≠ []) :
    mn - 1 ≤ ctrunc (accR R src (bilinearTaps (K := RVal R) w h p0x p0y ⟨fx⟩ ⟨fy⟩)).v
    ∧ ctrunc (accR R src (bilinearTaps (K := RVal R) w h p0x p0y ⟨fx⟩ ⟨fy⟩)).v ≤ mx := by
  obtain ⟨t, ht⟩ := List.exists_mem_of_ne_nil _ hne
  have hle : mn ≤ mx := le_trans (hmin t ht) (hmax t ht)
  have := C17_float_bilinear_between R he w h p0x p0y src fx fy hx0 hx1 hy0 hy1 mn mx hmn hle hmx
    (fun t ht => ⟨hmin t ht, hmax t ht⟩)
  exact ⟨this.2.2.1, this.2.2.2⟩

/-- THE value theorem for the CURRENT code (fix 056e54b, `cast_channel_fn` rounds to nearest): the sampled value after the
    cast lies in [lo, hi] -- the convexity clause of the property holds for the float evaluation, relative to FloatSpec -/
theorem C17_float_bilinear_rounded_between (R : FloatSpec) (he : R.eps ≤ 1 / 2 ^ 24) (w h p0x p0y : Int) (src : Int → Int → Int) (fx fy : ℚ)
    (hx0 : 0 ≤ fx) (hx1 : fx ≤ 1) (hy0 : 0 ≤ fy) (hy1 : fy ≤ 1) (lo hi : Int) (hlo : 0 ≤ lo) (hlh : lo ≤ hi) (hhi : hi ≤ 65535)
    (hb : ∀ t ∈ bilinearTaps (K := RVal R) w h p0x p0y ⟨fx⟩ ⟨fy⟩, lo ≤ src t.x t.y ∧ src t.x t.y ≤ hi) :
    lo ≤ cround R (accR R src (bilinearTaps (K := RVal R) w h p0x p0y ⟨fx⟩ ⟨fy⟩)).v
    ∧ cround R (accR R src (bilinearTaps (K := RVal R) w h p0x p0y ⟨fx⟩ ⟨fy⟩)).v ≤ hi := by
  obtain ⟨hlen, hw0, hW1, hW2⟩ := weights_ok R he w h p0x p0y fx fy hx0 hx1 hy0 hy1
  generalize bilinearTaps (K := RVal R) w h p0x p0y ⟨fx⟩ ⟨fy⟩ = taps at *
  have hps : ∀ p ∈ taps.map (fun t => (src t.x t.y : ℚ)), (lo : ℚ) ≤ p ∧ p ≤ (hi : ℚ) := by
    intro p hp
    obtain ⟨t, ht, rfl⟩ := List.mem_map.mp hp
    have := hb t ht
    exact ⟨by exact_mod_cast this.1, by exact_mod_cast this.2⟩
  have key := acc_between_tight R he (taps.map (fun t => (src t.x t.y : ℚ))) (taps.map (fun t => t.w.v)) lo hi (by simp)
    (by simpa using hlen) hps (by exact_mod_cast hlo) (by exact_mod_cast hlh) (by exact_mod_cast hhi) hw0 hW1 hW2
  rw [← accR_eq_ip] at key
  exact cround_between R he _ lo hi hlo hhi key.1 key.2

/-- the same with `mn` / `mx` the smallest / largest pixel value among the taps: result ∈ [min, max] of the pixels read -/
theorem C17_float_bilinear_rounded_range (R : FloatSpec) (he : R.eps ≤ 1 / 2 ^ 24) (w h p0x p0y : Int) (src : Int → Int → Int) (fx fy : ℚ)
    (hx0 : 0 ≤ fx) (hx1 : fx ≤ 1) (hy0 : 0 ≤ fy) (hy1 : fy ≤ 1) (mn mx : Int) (hmn : 0 ≤ mn) (hmx : mx ≤ 65535)
    (hmin : ∀ t ∈ bilinearTaps (K := RVal R) w h p0x p0y ⟨fx⟩ ⟨fy⟩, mn ≤ src t.x t.y)
    (hmax : ∀ t ∈ bilinearTaps (K := RVal R) w h p0x p0y ⟨fx⟩ ⟨fy⟩, src t.x t.y ≤ mx)
    (hne : bilinearTaps (K := RVal R) w h p0x p0y ⟨fx⟩ ⟨fy⟩ ≠ []) :
    mn ≤ cround R (accR R src (bilinearTaps (K := RVal R) w h p0x p0y ⟨fx⟩ ⟨fy⟩)).v
    ∧ cround R (accR R src (bilinearTaps (K := RVal R) w h p0x p0y ⟨fx⟩ ⟨fy⟩)).v ≤ mx := by
  obtain ⟨t, ht⟩ := List.exists_mem_of_ne_nil _ hne
  have hle : mn ≤ mx := le_trans (hmin t ht) (hmax t ht)
  exact C17_float_bilinear_rounded_between R he w h p0x p0y src fx fy hx0 hx1 hy0 hy1 mn mx hmn hle hmx
    (fun t ht => ⟨hmin t ht, hmax t ht⟩)

/-- the pre-fix witness input under the rounding cast (genuine binary32 rounding, kernel-evaluated): 254.99998 + 0.5 rounds to
    255.5 (ties to even at this magnitude), truncated to 255 = the constant -/
theorem C17_float_rounded_witness : cround FloatSpec.binary32 (16711679 / 65536) = 255 := by decide +kernel

/-- a single tap of weight 1 (the four corner cases): the pixel comes out exactly -/
theorem C17_float_single_tap_exact (R : FloatSpec) (src : Int → Int → Int) (x y : Int) (hb : |((src x y : ℤ) : ℚ)| ≤ R.big) :
    (accR R src [⟨x, y, (1 : RVal R)⟩]).v = src x y := by
  simp only [accR, List.foldl_cons, List.foldl_nil, add_v, mul_v, zero_v, one_v, mul_one, zero_add]
  rw [R.rnd_int _ hb, R.rnd_int _ hb]

/-- at integer coordinates inside the view (fractional parts 0) every case returns the source pixel itself -/
theorem C17_float_integer_points (R : FloatSpec) (w h p0x p0y : Int) (src : Int → Int → Int)
    (hx0 : 0 ≤ p0x) (hy0 : 0 ≤ p0y) (hb : |((src p0x p0y : ℤ) : ℚ)| ≤ R.big) :
    (accR R src (bilinearTaps (K := RVal R) w h p0x p0y ⟨0⟩ ⟨0⟩)).v = src p0x p0y := by
  have hp := R.rnd_int _ hb
  unfold bilinearTaps
  have h1 : ¬ p0x = -1 := by omega
  have h2 : ¬ p0y = -1 := by omega
  simp only [h1, h2, if_false]
  repeat' split
  all_goals
    simp only [accR, List.foldl_cons, List.foldl_nil, add_v, mul_v, sub_v, zero_v, one_v, mul_one, mul_zero, zero_add, add_zero,
      sub_zero, R.rnd_one, R.rnd_zero, hp]

/-- WITNESS (genuine binary32 rounding, kernel-evaluated): constant image 255, point (6.52790165f, 5.04227161f) of an 8x8 view:
    frac = (553545, 44325) * 2^-20, the accumulator is 254.99998474121094 and the truncating cast returns 254 < 255 = min:
    the sampled value is NOT a convex combination of the pixels read.  /repo returns 254 for this input as well. -/
theorem C17_float_truncates_below_min_witness :
    FloatSpec.binary32.rnd (6845001 / 1048576 - 6) = 553545 / 1048576 ∧ FloatSpec.binary32.rnd (5287205 / 1048576 - 5) = 44325 / 1048576
    ∧ (accR FloatSpec.binary32 (fun _ _ => 255) (bilinearTaps (K := RVal FloatSpec.binary32) 8 8 6 5 ⟨553545 / 1048576⟩ ⟨44325 / 1048576⟩)).v
        = 16711679 / 65536
    ∧ ctrunc (16711679 / 65536) = 254 := by
  refine ⟨by decide +kernel, by decide +kernel, by decide +kernel, by decide +kernel⟩

/-! ### non-vacuity -/
example : FloatSpec.binary32.eps ≤ 1 / 2 ^ 24 := FloatSpec.binary32_isBinary32.1
example : FloatSpec.binary64.eps ≤ 1 / 2 ^ 24 := by
  show (1 : ℚ) / 2 ^ 53 ≤ 1 / 2 ^ 24; norm_num

end GilVerif.Props.C17Float
