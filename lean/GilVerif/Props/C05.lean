/-
  C05 -- pixel operations pair channels by colour, independent of memory layout.

  General theorems: for EVERY permutation layout of every size n (any layout anyone could define), every
  pixel content and every element type.  Table theorems: over the GENERATED tables of Gen/C05.lean
  (layouts of rgb.hpp rgba.hpp cmyk.hpp gray.hpp device_n.hpp; index pairs of homogeneous_color_base in
  color_base.hpp), re-extracted from the headers on every run and decided by the kernel.
-/
import GilVerif.Model.C05

namespace GilVerif.Props.C05
open GilVerif.Model.C05 GilVerif.Gen.C05

/-! ### helpers -/

private theorem phys_eq_getElem (m : Layout) (s : Nat) (h : s < m.length) : m.phys s = m[s] := by
  unfold Layout.phys; simp [List.getD, h]

private theorem phys_inj {m : Layout} (hm : IsPerm m) {s s' : Nat} (hs : s < m.length) (hs' : s' < m.length)
    (h : m.phys s = m.phys s') : s = s' := by
  obtain ⟨s0, _, _, huniq⟩ := hm.2 (m.phys s) (hm.1 s hs)
  rw [huniq s hs rfl, huniq s' hs' h.symm]

private theorem typeToIndex_phys {m : Layout} (hm : IsPerm m) {s : Nat} (hs : s < m.length) :
    typeToIndex m (m.phys s) = s := by
  unfold typeToIndex
  have hmem : m.phys s ∈ m := by rw [phys_eq_getElem m s hs]; exact List.getElem_mem hs
  have hlt : m.idxOf (m.phys s) < m.length := List.idxOf_lt_length_of_mem hmem
  have hget : m[m.idxOf (m.phys s)] = m.phys s := List.getElem_idxOf hlt
  exact phys_inj hm hlt hs (by rw [phys_eq_getElem m _ hlt]; exact hget)

/-- sequential semantic writes: the value found at semantic channel `s` afterwards -/
private theorem fold_upd {α} (m : Layout) (hm : IsPerm m) (v : Nat → α) :
    ∀ (ss : List Nat) (d : Nat → α) (s : Nat), (∀ t ∈ ss, t < m.length) → s < m.length →
      (ss.foldl (fun d t => upd d (m.phys t) (v t)) d) (m.phys s) = if s ∈ ss then v s else d (m.phys s) := by
  intro ss
  induction ss with
  | nil => intro d s _ _; simp
  | cons t ts ih =>
    intro d s hall hs
    simp only [List.foldl_cons]
    rw [ih _ s (fun t' ht' => hall t' (List.mem_cons_of_mem _ ht')) hs]
    by_cases hin : s ∈ ts
    · simp [hin]
    · by_cases hst : s = t
      · subst hst; simp [hin, upd]
      · have hne : m.phys s ≠ m.phys t := fun h => hst (phys_inj hm hs (hall t (List.mem_cons_self ..)) h)
        simp [hin, hst, upd, hne]

/-- memory indices that are no channel of the layout are never written -/
private theorem fold_upd_frame {α} (m : Layout) (v : Nat → α) :
    ∀ (ss : List Nat) (d : Nat → α) (k : Nat), (∀ t ∈ ss, m.phys t ≠ k) →
      (ss.foldl (fun d t => upd d (m.phys t) (v t)) d) k = d k := by
  intro ss
  induction ss with
  | nil => intro d k _; rfl
  | cons t ts ih =>
    intro d k hall
    simp only [List.foldl_cons]
    rw [ih _ k (fun t' ht' => hall t' (List.mem_cons_of_mem _ ht'))]
    have : k ≠ m.phys t := fun h => hall t (List.mem_cons_self ..) h.symm
    simp [upd, this]

private theorem mem_range' {n s : Nat} : s ∈ List.range n ↔ s < n := List.mem_range

/-! ### construction, assignment, equality -/

/-- converting construction pairs by colour: for every permutation layout `dst` (any size) and ANY source
    mapping, every colour of the constructed pixel is that colour of the source -/
theorem C05_construct {α} (dst src : Layout) (p : Nat → α) (s : Nat) (hd : IsPerm dst) (hs : s < dst.length) :
    semanticAt dst (construct dst src p) s = semanticAt src p s := by
  unfold semanticAt construct mappingTransform
  rw [typeToIndex_phys hd hs]

/-- assignment (`static_copy`) pairs by colour, whatever the two channel orders -/
theorem C05_assign {α} (srcMap dstMap : Layout) (src dst : Nat → α) (s : Nat) (hd : IsPerm dstMap) (hs : s < dstMap.length) :
    semanticAt dstMap (staticCopy srcMap dstMap src dst) s = semanticAt srcMap src s := by
  unfold staticCopy
  show (List.foldl _ dst (List.range dstMap.length)) (dstMap.phys s) = _
  rw [fold_upd dstMap hd (fun t => semanticAt srcMap src t) _ dst s (fun t ht => mem_range'.mp ht) hs]
  simp [mem_range'.mpr hs]

/-- assignment touches nothing but the destination's channels -/
theorem C05_assign_frame {α} (srcMap dstMap : Layout) (src dst : Nat → α) (k : Nat)
    (hk : ∀ s, s < dstMap.length → dstMap.phys s ≠ k) :
    (staticCopy srcMap dstMap src dst) k = dst k := by
  unfold staticCopy
  exact fold_upd_frame dstMap _ _ dst k (fun t ht => hk t (mem_range'.mp ht))

/-- `static_equal` is exactly colour-wise equality -/
theorem C05_equal_iff {α} [BEq α] [LawfulBEq α] (m1 m2 : Layout) (p1 p2 : Nat → α) :
    staticEqual m1 m2 p1 p2 = true ↔ ∀ s, s < m1.length → semanticAt m1 p1 s = semanticAt m2 p2 s := by
  unfold staticEqual
  rw [List.all_eq_true]
  constructor
  · intro h s hs; exact eq_of_beq (h s (mem_range'.mpr hs))
  · intro h s hs; rw [h s (mem_range'.mp hs)]; exact beq_self_eq_true _

/-- after `dst = src`, `dst == src` holds (any two permutation layouts of the same size) -/
theorem C05_assign_equal {α} [BEq α] [LawfulBEq α] (srcMap dstMap : Layout) (src dst : Nat → α) (hd : IsPerm dstMap) :
    staticEqual dstMap srcMap (staticCopy srcMap dstMap src dst) src = true :=
  (C05_equal_iff _ _ _ _).mpr (fun s hs => C05_assign srcMap dstMap src dst s hd hs)

/-- a converted copy compares equal to its source -/
theorem C05_construct_equal {α} [BEq α] [LawfulBEq α] (dst src : Layout) (p : Nat → α) (hd : IsPerm dst) :
    staticEqual dst src (construct dst src p) p = true :=
  (C05_equal_iff _ _ _ _).mpr (fun s hs => C05_construct dst src p s hd hs)

/-- converting through an intermediate layout preserves every colour -/
theorem C05_construct_compose {α} (a b c : Layout) (p : Nat → α) (s : Nat) (hb : IsPerm b) (hc : IsPerm c)
    (hlen : b.length = c.length) (hs : s < c.length) :
    semanticAt c (construct c b (construct b a p)) s = semanticAt a p s := by
  rw [C05_construct c b _ s hc hs, C05_construct b a p s hb (by omega)]

/-! ### at_c versus semantic_at_c / get_color -/

/-- `semantic_at_c<S>` / `get_color` read memory slot `mapping[S]` -/
theorem C05_at_vs_semantic {α} (m : Layout) (p : Nat → α) (s : Nat) :
    semanticAt m p s = p (m.phys s) ∧ getColor m p s = p (m.phys s) := ⟨rfl, rfl⟩

/-- and conversely memory slot `K` is the colour `type_to_index<mapping, K>` -/
theorem C05_semantic_of_at {α} (m : Layout) (p : Nat → α) (k : Nat) (hm : IsPerm m) (hk : k < m.length) :
    typeToIndex m k < m.length ∧ semanticAt m p (typeToIndex m k) = p k := by
  obtain ⟨s, hs, hsk, _⟩ := hm.2 k hk
  subst hsk
  rw [typeToIndex_phys hm hs]; exact ⟨hs, rfl⟩

/-! ### the static_* algorithms -/

theorem C05_fill {α} (m : Layout) (p : Nat → α) (v : α) (s : Nat) (hm : IsPerm m) (hs : s < m.length) :
    semanticAt m (staticFill m p v) s = v := by
  unfold staticFill semanticAt
  rw [fold_upd m hm (fun _ => v) _ p s (fun t ht => mem_range'.mp ht) hs]; simp [mem_range'.mpr hs]

theorem C05_generate {α} (m : Layout) (p : Nat → α) (g : Nat → α) (s : Nat) (hm : IsPerm m) (hs : s < m.length) :
    semanticAt m (staticGenerate m p g) s = g s := by
  unfold staticGenerate semanticAt
  rw [fold_upd m hm g _ p s (fun t ht => mem_range'.mp ht) hs]; simp [mem_range'.mpr hs]

/-- `static_transform` pairs source and destination by colour -/
theorem C05_transform {α β} (srcMap dstMap : Layout) (src : Nat → α) (dst : Nat → β) (f : α → β) (s : Nat)
    (hd : IsPerm dstMap) (hs : s < dstMap.length) :
    semanticAt dstMap (staticTransform srcMap dstMap src dst f) s = f (semanticAt srcMap src s) := by
  unfold staticTransform
  show (List.foldl _ dst (List.range dstMap.length)) (dstMap.phys s) = _
  rw [fold_upd dstMap hd (fun t => f (semanticAt srcMap src t)) _ dst s (fun t ht => mem_range'.mp ht) hs]
  simp [mem_range'.mpr hs]

theorem C05_transform2 {α β γ} (m1 m2 dstMap : Layout) (p1 : Nat → α) (p2 : Nat → β) (dst : Nat → γ) (f : α → β → γ) (s : Nat)
    (hd : IsPerm dstMap) (hs : s < dstMap.length) :
    semanticAt dstMap (staticTransform2 m1 m2 dstMap p1 p2 dst f) s = f (semanticAt m1 p1 s) (semanticAt m2 p2 s) := by
  unfold staticTransform2
  show (List.foldl _ dst (List.range dstMap.length)) (dstMap.phys s) = _
  rw [fold_upd dstMap hd (fun t => f (semanticAt m1 p1 t) (semanticAt m2 p2 t)) _ dst s (fun t ht => mem_range'.mp ht) hs]
  simp [mem_range'.mpr hs]

/-- in-place sequential semantic writes, each reading the current content of the slot it writes -/
private theorem fold_upd_inplace {α} (m : Layout) (hm : IsPerm m) (g : Nat → α → α) :
    ∀ (ss : List Nat) (d : Nat → α) (s : Nat), (∀ t ∈ ss, t < m.length) → ss.Nodup → s < m.length →
      (ss.foldl (fun d t => upd d (m.phys t) (g t (semanticAt m d t))) d) (m.phys s) = if s ∈ ss then g s (d (m.phys s)) else d (m.phys s) := by
  intro ss
  induction ss with
  | nil => intro d s _ _ _; simp
  | cons t ts ih =>
    intro d s hall hnd hs
    simp only [List.foldl_cons]
    have hnd' := List.nodup_cons.mp hnd
    rw [ih _ s (fun t' ht' => hall t' (List.mem_cons_of_mem _ ht')) hnd'.2 hs]
    by_cases hst : s = t
    · subst hst; simp [hnd'.1, upd, semanticAt]
    · have hne : m.phys s ≠ m.phys t := fun h => hst (phys_inj hm hs (hall t (List.mem_cons_self ..)) h)
      simp [hst, upd, hne]

/-- the in-place update writes colour by colour: colour `s` afterwards is `g s` of colour `s` before, for EVERY permutation layout -/
theorem C05_update_in_place {α} (m : Layout) (acc : Nat → α) (g : Nat → α → α) (s : Nat) (hm : IsPerm m) (hs : s < m.length) :
    semanticAt m (staticUpdateInPlace m acc g) s = g s (semanticAt m acc s) := by
  unfold staticUpdateInPlace
  show (List.foldl _ acc (List.range m.length)) (m.phys s) = _
  rw [fold_upd_inplace m hm g _ acc s (fun t ht => mem_range'.mp ht) List.nodup_range hs]
  simp [mem_range'.mpr hs, semanticAt]

/-- two-source `static_transform` whose destination IS the first source (accumulate in place, `acc = f(acc, src)`): every colour `s`
    of the result is `f (acc[s]) (src2[s])`, whatever the memory order of the accumulator and of the second source -/
theorem C05_transform2_dst_is_src1 {α β} (m1 m2 : Layout) (acc : Nat → α) (p2 : Nat → β) (f : α → β → α) (s : Nat)
    (h1 : IsPerm m1) (hs : s < m1.length) :
    semanticAt m1 (staticTransform2Acc1 m1 m2 acc p2 f) s = f (semanticAt m1 acc s) (semanticAt m2 p2 s) :=
  C05_update_in_place m1 acc _ s h1 hs

/-- ... IS the second source -/
theorem C05_transform2_dst_is_src2 {α β} (m1 m2 : Layout) (p1 : Nat → α) (acc : Nat → β) (f : α → β → β) (s : Nat)
    (h2 : IsPerm m2) (hs : s < m2.length) :
    semanticAt m2 (staticTransform2Acc2 m1 m2 p1 acc f) s = f (semanticAt m1 p1 s) (semanticAt m2 acc s) :=
  C05_update_in_place m2 acc _ s h2 hs

/-- ... one object in all three places -/
theorem C05_transform2_all_aliased {α} (m : Layout) (acc : Nat → α) (f : α → α → α) (s : Nat) (hm : IsPerm m) (hs : s < m.length) :
    semanticAt m (staticTransform2Self m acc f) s = f (semanticAt m acc s) (semanticAt m acc s) :=
  C05_update_in_place m acc _ s hm hs

/-- pairing by colour for ANY three layouts, aliased or not: the in-place result has the same colours as the out-of-place
    `static_transform(acc, src2, dst, f)` into a fresh destination of any third permutation layout -/
theorem C05_transform2_aliased_eq_fresh {α β} (m1 m2 m3 : Layout) (acc : Nat → α) (p2 : Nat → β) (dst : Nat → α) (f : α → β → α) (s : Nat)
    (h1 : IsPerm m1) (h3 : IsPerm m3) (hlen : m3.length = m1.length) (hs : s < m1.length) :
    semanticAt m1 (staticTransform2Acc1 m1 m2 acc p2 f) s = semanticAt m3 (staticTransform2 m1 m2 m3 acc p2 dst f) s := by
  rw [C05_transform2_dst_is_src1 m1 m2 acc p2 f s h1 hs, C05_transform2 m1 m2 m3 acc p2 dst f s h3 (by omega)]

/-- the i-th call of the three-base `static_for_each` gets slots `(m1[i], m2[i], m3[i])`: one colour -/
theorem C05_visit_triples (m1 m2 m3 : Layout) (i : Nat) (hi : i < m1.length) :
    (visitTriples m1 m2 m3).length = m1.length ∧ (visitTriples m1 m2 m3)[i]? = some (m1.phys i, m2.phys i, m3.phys i) := by
  unfold visitTriples; simp [hi]

-- non-vacuity (the seeded defect's example): rgb accumulator (10,20,30) += bgr-laid-out (r1,g2,b3), memory (3,2,1)
example : (List.range 3).map (staticTransform2Acc1 [0, 1, 2] [2, 1, 0] (fun k => [10, 20, 30].getD k 0) (fun k => [3, 2, 1].getD k 0) (· + ·))
    = [11, 22, 33] := by decide
example : (List.range 4).map (staticTransform2Acc2 [1, 2, 3, 0] [2, 1, 0, 3] (fun k => [9, 1, 2, 3].getD k 0) (fun k => [30, 20, 10, 90].getD k 0) (fun a b => a * 100 + b))
    = [330, 220, 110, 990] := by decide

/-- each static algorithm visits each channel exactly once: the list of memory indices handed to the functor has
    length n and every memory index occurs at exactly one call position -/
theorem C05_visit_once (m : Layout) (hm : IsPerm m) :
    (visitOrder m).length = m.length
    ∧ ∀ k, k < m.length → ∃ i, i < m.length ∧ (visitOrder m).getD i m.length = k
        ∧ ∀ j, j < m.length → (visitOrder m).getD j m.length = k → j = i := by
  have hget : ∀ i, i < m.length → (visitOrder m).getD i m.length = m.phys i := by
    intro i hi; unfold visitOrder; simp [List.getD, hi]
  refine ⟨by unfold visitOrder; simp, fun k hk => ?_⟩
  obtain ⟨s, hs, hsk, huniq⟩ := hm.2 k hk
  exact ⟨s, hs, by rw [hget s hs, hsk], fun j hj hjk => huniq j hj (by rw [← hget j hj, hjk])⟩

/-- multi-argument `static_for_each` / `static_transform` hand the functor channels of the SAME colour:
    the i-th call gets memory slots `(m1[i], m2[i])` of colour `i`, and every colour is visited -/
theorem C05_visit_pairs (m1 m2 : Layout) (i : Nat) (hi : i < m1.length) :
    (visitPairs m1 m2).length = m1.length
    ∧ (visitPairs m1 m2).getD i (0, 0) = (m1.phys i, m2.phys i) := by
  unfold visitPairs; simp [List.getD, hi]

/-- `static_min` / `static_max` select a channel of the pixel that is minimal / maximal over ALL channels -/
theorem C05_min_max (m : Layout) (p : Nat → Int) (hm : IsPerm m) (hpos : 0 < m.length) :
    (∀ k, k < m.length → p (staticMinIdx m p) ≤ p k) ∧ staticMinIdx m p < m.length
    ∧ (∀ k, k < m.length → p k ≤ p (staticMaxIdx m p)) ∧ staticMaxIdx m p < m.length := by
  -- invariant over prefixes 0..j of the semantic indices
  have keyMin : ∀ j, j ≤ m.length →
      let r := (List.range j).foldl (fun best s => if s = 0 then m.phys 0 else if p best < p (m.phys s) then best else m.phys s) (m.phys 0)
      r < m.length ∧ ∀ s, s < j → p r ≤ p (m.phys s) := by
    intro j
    induction j with
    | zero => intro _; exact ⟨hm.1 0 hpos, fun s hs => by omega⟩
    | succ j ih =>
      intro hj
      obtain ⟨h1, h2⟩ := ih (by omega)
      simp only [List.range_succ, List.foldl_append, List.foldl_cons, List.foldl_nil]
      by_cases hj0 : j = 0
      · subst hj0; simp; exact hm.1 0 hpos
      · simp only [hj0, if_false]
        split
        · rename_i hlt
          exact ⟨h1, fun s hs => by
            by_cases hsj : s = j
            · subst hsj; exact Int.le_of_lt hlt
            · exact h2 s (by omega)⟩
        · rename_i hge
          exact ⟨hm.1 j (by omega), fun s hs => by
            by_cases hsj : s = j
            · subst hsj; exact Int.le_refl _
            · exact Int.le_trans (Int.not_lt.mp hge) (h2 s (by omega))⟩
  have keyMax : ∀ j, j ≤ m.length →
      let r := (List.range j).foldl (fun best s => if s = 0 then m.phys 0 else if p best < p (m.phys s) then m.phys s else best) (m.phys 0)
      r < m.length ∧ ∀ s, s < j → p (m.phys s) ≤ p r := by
    intro j
    induction j with
    | zero => intro _; exact ⟨hm.1 0 hpos, fun s hs => by omega⟩
    | succ j ih =>
      intro hj
      obtain ⟨h1, h2⟩ := ih (by omega)
      simp only [List.range_succ, List.foldl_append, List.foldl_cons, List.foldl_nil]
      by_cases hj0 : j = 0
      · subst hj0; simp; exact hm.1 0 hpos
      · simp only [hj0, if_false]
        split
        · rename_i hlt
          exact ⟨hm.1 j (by omega), fun s hs => by
            by_cases hsj : s = j
            · subst hsj; exact Int.le_refl _
            · exact Int.le_trans (h2 s (by omega)) (Int.le_of_lt hlt)⟩
        · rename_i hge
          exact ⟨h1, fun s hs => by
            by_cases hsj : s = j
            · subst hsj; exact Int.not_lt.mp hge
            · exact h2 s (by omega)⟩
  obtain ⟨a1, a2⟩ := keyMin m.length (Nat.le_refl _)
  obtain ⟨b1, b2⟩ := keyMax m.length (Nat.le_refl _)
  refine ⟨fun k hk => ?_, a1, fun k hk => ?_, b1⟩
  · obtain ⟨s, hs, hsk, _⟩ := hm.2 k hk; rw [← hsk]; exact a2 s hs
  · obtain ⟨s, hs, hsk, _⟩ := hm.2 k hk; rw [← hsk]; exact b2 s hs

/-! ### packed pixels with unused bits -/

/-- equality of two packed pixels of one type depends on the channels' bits only: if the two bit fields agree on the
    bits the channels occupy, the pixels are equal -- whatever the unused (spare / padding) bits hold -/
theorem C05_packed_equal_ignores_spare (widths : List Nat) (f g : Nat)
    (h : ∀ i, i < totalBits widths → f.testBit i = g.testBit i) : packedEqual widths f g = true := by
  have key : ∀ (ws : List Nat) (lo : Nat), (∀ i, lo ≤ i → i < lo + totalBits ws → f.testBit i = g.testBit i) →
      channelsFrom f lo ws = channelsFrom g lo ws := by
    intro ws
    induction ws with
    | nil => intro lo _; rfl
    | cons w ws ih =>
      intro lo hb
      simp only [channelsFrom, totalBits] at *
      have hslice : (f >>> lo) % 2 ^ w = (g >>> lo) % 2 ^ w := by
        apply Nat.eq_of_testBit_eq; intro i
        simp only [Nat.testBit_mod_two_pow, Nat.testBit_shiftRight]
        by_cases hi : i < w
        · rw [hb (lo + i) (by omega) (by omega)]
        · simp [hi]
      rw [hslice, ih (lo + w) (fun i h1 h2 => hb i (by omega) (by omega))]
  unfold packedEqual
  rw [key widths 0 (fun i _ hi => h i (by omega))]
  exact beq_self_eq_true _

/-- and it is exactly channel-wise equality -/
theorem C05_packed_equal_iff (widths : List Nat) (f g : Nat) :
    packedEqual widths f g = true ↔ channelsFrom f 0 widths = channelsFrom g 0 widths := by
  unfold packedEqual; exact beq_iff_eq

/-! ### the provided tables (generated from the headers on every run; decided by the kernel) -/

/-- every provided layout is a permutation of its colour space's size -/
theorem C05_provided_layouts_are_perms :
    ∀ e ∈ layoutCodes, IsPerm e.2.2 ∧ e.2.2.length = e.2.1.length := by decide

/-- the name of every provided layout spells its memory order (`argb`: alpha, red, green, blue in memory);
    gray / cmyk / devicenN: memory order = colour-space order -/
theorem C05_provided_layouts_match_names :
    ∀ e ∈ layoutCodes, e.2.2 = specMapping e.1 e.2.1 := by decide

/-- the layouts the property quantifies over are all there: rgb bgr rgba bgra argb abgr cmyk gray devicen1..5 -/
theorem C05_layout_inventory :
    layoutCodes.map (·.1) =
      [[114, 103, 98], [98, 103, 114], [114, 103, 98, 97], [98, 103, 114, 97], [97, 114, 103, 98], [97, 98, 103, 114],
       [99, 109, 121, 107], [103, 114, 97, 121],
       [100, 101, 118, 105, 99, 101, 110, 49], [100, 101, 118, 105, 99, 101, 110, 50], [100, 101, 118, 105, 99, 101, 110, 51],
       [100, 101, 118, 105, 99, 101, 110, 52], [100, 101, 118, 105, 99, 101, 110, 53]] := by decide

/-- `homogeneous_color_base<E,L,N>`, N = 1..5: every converting / pointer / offset constructor, `deref`, `at`,
    `at_c_dynamic` and value constructor pairs member `k` with index `k`, and lists every member -/
theorem C05_ctor_tables :
    diagonal ctorCodes = true
    ∧ (∀ n ∈ [2, 3, 4, 5], ∀ kind ∈ [0, 1, 2, 3, 4, 5, 8], kindComplete ctorCodes n kind = true)
    ∧ (∀ kind ∈ [0, 4, 5], kindComplete ctorCodes 1 kind = true)
    ∧ (∀ n ∈ [2, 3, 4, 5], (ctorCodes.filter (fun e => e.1 == n && (e.2.1 == 6 || e.2.1 == 7))).map (fun e => e.2.2.1)
          = List.range n) := by decide

/-! ### non-vacuity -/

example : IsPerm [1, 2, 3, 0] ∧ IsPerm [2, 1, 0, 3] ∧ ¬ IsPerm [1, 2, 0, 0] := by decide
-- an argb pixel (memory a=9 r=1 g=2 b=3) converted to bgra has memory b g r a = 3 2 1 9
example : (List.range 4).map (construct [2, 1, 0, 3] [1, 2, 3, 0] (fun k => [9, 1, 2, 3].getD k 0)) = [3, 2, 1, 9] := by decide
-- bgr432 in a uint16_t: 0xFFB7 (spare bits all 1) and 0x01B7 hold the same channels b=7 g=3 r=3... and compare equal
example : packedEqual [4, 3, 2] 0xFFB7 0x01B7 = true ∧ packedEqual [4, 3, 2] 0xFFB7 0x01B6 = false := by decide
example : staticMinIdx [2, 1, 0] (fun k => [5, 3, 7].getD k 0) = 1 ∧ staticMaxIdx [2, 1, 0] (fun k => [5, 3, 7].getD k 0) = 2 := by decide

end GilVerif.Props.C05
