/-
  C18 -- ycbcr_601 / ycbcr_709 round trips BY STRUCTURE (no enumeration), for all rgb8 pixels.

  rgb -> ycbcr is computed by the code in `double` from decimal literals and truncated by the cast to uint8_t. The theorems
  quantify over EVERY triple (y, cb, cr) that is the truncation of a real number within one unit of the last decimal (10^-4 for
  601, 10^-3 / 10^-6 for 709) of the exact value of the code's formula (`ycbcr601Rel`, `ycbcr709Rel` in Model/C18.lean:
  pure integer inequalities) -- the double evaluation (error about 10^-13) is one such triple, the exact floor another
  (`C18_ycbcr601_exact_rel`, `C18_ycbcr709_exact_rel`).  Tie: the driver's Spec evaluation (`pxSpec`, run on every one of the
  2^24 pixels of each plane sweep and on every `px` op) checks that the intermediate y, cb, cr of the code satisfy the relation
  (`ycbcr-differs-from-exact-arithmetic` otherwise), and for ycbcr_709, whose inverse is `double` code too, that the returned
  r, g, b satisfy `ycbcr709BackRel` (clamped truncation of a real within 10^-3 / 10^-5 of the exact inverse formula).

    * `C18_ycbcr601_forward_range`  y in [15,235], cb, cr in [16,240]: the narrowing cast never wraps;
    * `C18_ycbcr601_roundtrip`      translated integer kernels (Gen/C18) after any related triple: red in [r-3, r], green in
                                    [g-1, g+1], blue in [b-3, b]  (the tolerance 3 of the Spec, with the sign);
    * `C18_ycbcr709_forward_range`  y, cb, cr in [0,255];
    * `C18_ycbcr709_roundtrip`      R in [r-3, r], G in [g-2, g+1], B in [b-3, b] for every related (y,cb,cr) and (R,G,B).
-/
import GilVerif.Props.C18

namespace GilVerif.Props.C18
open GilVerif.Gen.C18 GilVerif.Model.C18

theorem C18_ycbcr601_forward_range (r g b y cb cr : Int) (hr : 0 ≤ r ∧ r ≤ 255) (hg : 0 ≤ g ∧ g ≤ 255) (hb : 0 ≤ b ∧ b ≤ 255)
    (h : ycbcr601Rel r g b y cb cr = true) :
    15 ≤ y ∧ y ≤ 235 ∧ 16 ≤ cb ∧ cb ≤ 240 ∧ 16 ≤ cr ∧ cr ≤ 240 := by
  simp only [ycbcr601Rel, decide_eq_true_eq] at h
  omega

theorem C18_ycbcr601_roundtrip (r g b y cb cr : Int) (hr : 0 ≤ r ∧ r ≤ 255) (hg : 0 ≤ g ∧ g ≤ 255) (hb : 0 ≤ b ∧ b ≤ 255)
    (h : ycbcr601Rel r g b y cb cr = true) :
    (r - 3 ≤ ycbcr601_red y cb cr ∧ ycbcr601_red y cb cr ≤ r)
    ∧ (g - 1 ≤ ycbcr601_green y cb cr ∧ ycbcr601_green y cb cr ≤ g + 1)
    ∧ (b - 3 ≤ ycbcr601_blue y cb cr ∧ ycbcr601_blue y cb cr ≤ b) := by
  simp only [ycbcr601Rel, decide_eq_true_eq] at h
  obtain ⟨c1, c2, c3⟩ := C18_ycbcr_closed y cb cr
  rw [c1, c2, c3]
  have kr : ∀ N : Int, -7569545 ≤ 10000 * (N - 256 * r) → 10000 * (N - 256 * r) ≤ 329970 →
      r - 3 ≤ max 0 (min 255 ((N + 128) / 256)) ∧ max 0 (min 255 ((N + 128) / 256)) ≤ r := by intro N; omega
  have kg : ∀ N : Int, -3601180 ≤ 10000 * (N - 256 * g) → 10000 * (N - 256 * g) ≤ 3348770 →
      g - 1 ≤ max 0 (min 255 ((N + 128) / 256)) ∧ max 0 (min 255 ((N + 128) / 256)) ≤ g + 1 := by intro N; omega
  have kb : ∀ N : Int, -8646430 ≤ 10000 * (N - 256 * b) → 10000 * (N - 256 * b) ≤ 364140 →
      b - 3 ≤ max 0 (min 255 ((N + 128) / 256)) ∧ max 0 (min 255 ((N + 128) / 256)) ≤ b := by intro N; omega
  exact ⟨kr _ (by linarith) (by linarith), kg _ (by linarith) (by linarith), kb _ (by linarith) (by linarith)⟩

theorem C18_ycbcr601_exact_rel (r g b : Int) :
    ycbcr601Rel r g b ((160000 + 2567*r + 5041*g + 979*b) / 10000) ((1280000 - 1482*r - 2909*g + 4392*b) / 10000)
      ((1280000 + 4392*r - 3677*g - 714*b) / 10000) = true := by
  simp only [ycbcr601Rel, decide_eq_true_eq]
  omega

theorem C18_ycbcr709_forward_range (r g b y cb cr : Int) (hr : 0 ≤ r ∧ r ≤ 255) (hg : 0 ≤ g ∧ g ≤ 255) (hb : 0 ≤ b ∧ b ≤ 255)
    (h : ycbcr709Rel r g b y cb cr = true) :
    0 ≤ y ∧ y ≤ 255 ∧ 0 ≤ cb ∧ cb ≤ 255 ∧ 0 ≤ cr ∧ cr ≤ 255 := by
  simp only [ycbcr709Rel, decide_eq_true_eq] at h
  omega

theorem C18_ycbcr709_roundtrip (r g b y cb cr R G B : Int) (hr : 0 ≤ r ∧ r ≤ 255) (hg : 0 ≤ g ∧ g ≤ 255) (hb : 0 ≤ b ∧ b ≤ 255)
    (h : ycbcr709Rel r g b y cb cr = true) (hb' : ycbcr709BackRel y cb cr R G B = true) :
    (r - 3 ≤ R ∧ R ≤ r) ∧ (g - 2 ≤ G ∧ G ≤ g + 1) ∧ (b - 3 ≤ B ∧ B ≤ b) := by
  simp only [ycbcr709Rel, decide_eq_true_eq] at h
  simp only [ycbcr709BackRel, decide_eq_true_eq] at hb'
  simp only [clampI] at hb'
  obtain ⟨y0, y1, y2, b1, b2, r1, r2⟩ := h
  obtain ⟨R1, R2, G1, G2, B1, B2⟩ := hb'
  have kr : ∀ N : Int, -2403000000 ≤ 1000000 * (N - 1000 * r) → 1000000 * (N - 1000 * r) ≤ 150000 →
      r - 3 ≤ max 0 (min 255 ((N - 1) / 1000)) ∧ max 0 (min 255 ((N + 1) / 1000)) ≤ r := by intro N; omega
  have kg : ∀ N : Int, -100080000000 ≤ 1000000 * (N - 100000 * g) → 1000000 * (N - 100000 * g) ≤ 105910000000 →
      g - 2 ≤ max 0 (min 255 ((N - 1) / 100000)) ∧ max 0 (min 255 ((N + 1) / 100000)) ≤ g + 1 := by intro N; omega
  have kb : ∀ N : Int, -2773000000 ≤ 1000000 * (N - 1000 * b) → 1000000 * (N - 1000 * b) ≤ 50000 →
      b - 3 ≤ max 0 (min 255 ((N - 1) / 1000)) ∧ max 0 (min 255 ((N + 1) / 1000)) ≤ b := by intro N; omega
  have Kr := kr (1000*y + 1402*(cr - 128)) (by linarith) (by linarith)
  have Kg := kg (100000*y - 34414*(cb - 128) - 71414*(cr - 128)) (by linarith) (by linarith)
  have Kb := kb (1000*y + 1772*(cb - 128)) (by linarith) (by linarith)
  exact ⟨⟨le_trans Kr.1 R1, le_trans R2 Kr.2⟩, ⟨le_trans Kg.1 G1, le_trans G2 Kg.2⟩, ⟨le_trans Kb.1 B1, le_trans B2 Kb.2⟩⟩

/-- the exact floor of the code's ycbcr_709 formulas is a related triple -/
theorem C18_ycbcr709_exact_rel (r g b : Int) (hr : 0 ≤ r) (hg : 0 ≤ g) (hb : 0 ≤ b) :
    ycbcr709Rel r g b ((299*r + 587*g + 114*b) / 1000) ((128000000 - 168736*r - 331264*g + 500000*b) / 1000000)
      ((128000000 + 500000*r - 418688*g - 81312*b) / 1000000) = true := by
  simp only [ycbcr709Rel, decide_eq_true_eq]
  omega

/-- the clamped exact floor of the inverse formulas is a related output -/
theorem C18_ycbcr709_back_exact_rel (y cb cr : Int) :
    ycbcr709BackRel y cb cr (clampI ((1000*y + 1402*(cr - 128)) / 1000))
      (clampI ((100000*y - 34414*(cb - 128) - 71414*(cr - 128)) / 100000)) (clampI ((1000*y + 1772*(cb - 128)) / 1000)) = true := by
  simp only [ycbcr709BackRel, decide_eq_true_eq]
  simp only [clampI]
  omega

/-- non-vacuity: (10,200,30) -> (123,75,46) under ycbcr_709 and back to (8,199,29); (10,200,30) -> (122,81,56) under ycbcr_601 -/
example : ycbcr709Rel 10 200 30 123 75 46 = true ∧ ycbcr709BackRel 123 75 46 8 199 29 = true ∧ ycbcr601Rel 10 200 30 122 81 56 = true := by
  decide

end GilVerif.Props.C18
