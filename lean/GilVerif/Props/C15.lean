/-
  C15 -- convolution / correlation equal the textbook sums for every boundary policy.

  Theorems about the hand-written model `GilVerif.Model.C15` (which follows convolve.hpp /
  algorithm.hpp / kernel.hpp; tied to the real headers by the correspondence run of `./check C15`).
  All statements are for every width, height, kernel length, centre, boundary option and content
  (unbounded `Nat` / `Int` / `List`), with exact integer accumulators.  Float accumulators are
  NOT covered by these theorems: partial (float), see checks/C15.notes.md.

  Only property theorems (named C15_*) live here; helper lemmas are in Lemmas/C15.lean.
-/
import GilVerif.Lemmas.C15

namespace GilVerif.Props.C15
open GilVerif.Model.C15 GilVerif.Lemmas.C15

/-! ### 1-D correlation, one row: every option, every width / kernel length / centre -/

/-- sliding inner products (`correlate_pixels_n`): output `i` is `Σ_k buf[i+k]·taps[k]` -/
theorem C15_correlate_pixels (n : Nat) (buf taps : List Int) (h : n + taps.length ≤ buf.length + 1) :
    correlatePixelsN buf n taps
      = (List.range n).map (fun i => sumRange taps.length (fun k => buf.getD (i + k) 0 * taps.getD k 0)) :=
  correlatePixelsN_eq n buf taps h

example : (3 : Nat) + [1, 2, (3:Int)].length ≤ [10, 20, 30, 40, (50:Int)].length + 1 := by decide

/-- `correlate_pixels_k<Size>` (fixed-size kernels) computes the same outputs as `correlate_pixels_n` -/
theorem C15_fixed_eq_dynamic_pixels (n : Nat) (buf taps : List Int) (h : n + taps.length ≤ buf.length + 1) :
    correlatePixelsK buf n taps = correlatePixelsN buf n taps := by
  rw [correlatePixelsK_eq, correlatePixelsN_eq n buf taps h]

/-- THE row theorem: for every option, width (incl. 0 and narrower than the kernel), kernel length ≥ 1,
    centre < length, contents and previous destination contents, one row of `correlate_rows_impl`
    (dynamic or fixed correlator) equals the Spec row:
    `dst i = Σ_k ext_option(src)(i+k−centre)·taps k`; for output_zero / output_ignore exactly the outputs
    whose window leaves the image are 0 / keep their previous value. -/
theorem C15_correlate_row (fixed : Bool) (opt : Opt) (taps : List Int) (c : Nat) (mem : Int → Int) (w : Nat) (dst : List Int)
    (hc : c < taps.length) (hd : dst.length = w) :
    correlateRowImpl fixed opt taps c mem w dst = specRow opt taps c mem w dst := by
  by_cases hw0 : w = 0
  · subst hw0
    have : dst = [] := List.eq_nil_of_length_eq_zero hd
    subst this
    cases opt <;> simp [correlateRowImpl, specRow, specRowWith, writeAt, correlatePixelsN, correlatePixelsK]
    all_goals (intro h; subst h; simp at hc)
  have hwpos : 0 < w := by omega
  cases opt with
  | extendPadded =>
    unfold correlateRowImpl specRow specRowWith
    simp only
    exact row_extend fixed .extendPadded taps c mem w dst _ hc hd (by simp) (fun j hj => getD_bufPadded mem w c _ j hj)
  | extendZero =>
    unfold correlateRowImpl specRow specRowWith
    simp only
    exact row_extend fixed .extendZero taps c mem w dst _ hc hd (by simp [length_rowBuf]; omega) (fun j _ => getD_bufZero mem w c _ j)
  | extendConstant =>
    unfold correlateRowImpl specRow specRowWith
    simp only
    exact row_extend fixed .extendConstant taps c mem w dst _ hc hd (by simp [length_rowBuf]; omega) (fun j hj => getD_bufConst mem w c _ j hwpos hj)
  | outputIgnore =>
    unfold correlateRowImpl specRow specRowWith
    simp only
    by_cases hw : w < taps.length
    · rw [if_pos hw]
      apply eq_map_range_of_getD _ _ _ hd
      intro i hi
      rw [windowInside_narrow _ _ _ _ hc hw hi]; simp
    · rw [if_neg hw]
      have hcl : (if fixed then correlatePixelsK (rowBuf mem w) (w + 1 - taps.length) taps else correlatePixelsN (rowBuf mem w) (w + 1 - taps.length) taps).length = w + 1 - taps.length := by
        rw [correlator_eq fixed _ _ taps (by rw [length_rowBuf]; omega)]; simp
      apply eq_map_range_of_getD _ _ _ (by rw [length_writeAt _ _ _ (by rw [hcl]; omega)]; exact hd)
      intro i hi
      rw [getD_writeAt _ _ _ _ (by rw [hcl]; omega), hcl]
      by_cases hin : c ≤ i ∧ i < c + (w + 1 - taps.length)
      · rw [if_pos hin, (windowInside_iff _ _ _ _ hc (by omega)).mpr hin, if_pos rfl]
        exact row_output fixed .outputIgnore (Or.inl rfl) taps c mem w hc (by omega) i hin.1 hin.2
      · rw [if_neg hin]
        have : windowInside taps.length c w i = false := by
          cases hwi : windowInside taps.length c w i
          · rfl
          · exact absurd ((windowInside_iff _ _ _ _ hc (by omega)).mp hwi) hin
        rw [this]; simp
  | outputZero =>
    unfold correlateRowImpl specRow specRowWith
    simp only
    by_cases hw : w < taps.length
    · rw [if_pos hw]
      apply eq_map_range_of_getD _ _ _ (by simp [hd])
      intro i hi
      rw [windowInside_narrow _ _ _ _ hc hw hi, getD_replicate']; simp
    · rw [if_neg hw]
      have hcl : (if fixed then correlatePixelsK (rowBuf mem w) (w + 1 - taps.length) taps else correlatePixelsN (rowBuf mem w) (w + 1 - taps.length) taps).length = w + 1 - taps.length := by
        rw [correlator_eq fixed _ _ taps (by rw [length_rowBuf]; omega)]; simp
      have hl1 : (writeAt dst 0 (List.replicate c (0:Int))).length = w := by
        rw [length_writeAt _ _ _ (by simp; omega)]; exact hd
      have hl2 : (writeAt (writeAt dst 0 (List.replicate c (0:Int))) c
          (if fixed then correlatePixelsK (rowBuf mem w) (w + 1 - taps.length) taps else correlatePixelsN (rowBuf mem w) (w + 1 - taps.length) taps)).length = w := by
        rw [length_writeAt _ _ _ (by rw [hcl, hl1]; omega)]; exact hl1
      apply eq_map_range_of_getD _ _ _ (by rw [length_writeAt _ _ _ (by rw [hl2]; simp; omega)]; exact hl2)
      intro i hi
      rw [getD_writeAt _ _ _ _ (by rw [hl2]; simp; omega), getD_writeAt _ _ _ _ (by rw [hcl, hl1]; omega),
        getD_writeAt _ _ _ _ (by simp; omega), hcl]
      simp only [List.length_replicate, getD_replicate']
      by_cases hin : c ≤ i ∧ i < c + (w + 1 - taps.length)
      · rw [(windowInside_iff _ _ _ _ hc (by omega)).mpr hin, if_pos rfl, if_neg (by omega), if_pos hin]
        exact row_output fixed .outputZero (Or.inr rfl) taps c mem w hc (by omega) i hin.1 hin.2
      · have : windowInside taps.length c w i = false := by
          cases hwi : windowInside taps.length c w i
          · rfl
          · exact absurd ((windowInside_iff _ _ _ _ hc (by omega)).mp hwi) hin
        rw [this, if_neg hin]
        simp only [Bool.false_eq_true, if_false]
        split_ifs <;> first | rfl | omega

example : (1 : Nat) < [1, 2, (3:Int)].length ∧ [7, 7, 7, (7:Int)].length = 4 := by decide

/-- image level (`correlate_rows_impl` with its size-1 shortcut `view_multiplies_scalar` and the `width == 0` return):
    every row of the result is the Spec row, for every w, h ≥ 0 -/
theorem C15_correlate_rows (fixed : Bool) (opt : Opt) (taps : List Int) (c : Nat) (src : Int → Int → Int) (w h : Nat)
    (dst : List (List Int)) (hc : c < taps.length) (hdl : dst.length = h) (hdr : ∀ y, y < h → (dst.getD y []).length = w) :
    correlateRows fixed opt taps c src w h dst
      = (List.range h).map (fun (y : Nat) => specRow opt taps c (fun j => src j (y : Int)) w (dst.getD y [])) := by
  unfold correlateRows
  by_cases h1 : taps.length = 1
  · rw [if_pos h1]
    apply List.map_congr_left
    intro y hy
    have hy' : y < h := by simpa using hy
    have hc0 : c = 0 := by omega
    subst hc0
    unfold specRow specRowWith
    have hl : ((List.range w).map (fun (x : Nat) => src (x : Int) (y : Int) * taps.headD 0)).length = w := by simp
    apply eq_map_range_of_getD _ _ _ (by rw [length_writeAt _ _ _ (by rw [hl, hdr y hy']; omega)]; exact hdr y hy')
    intro i hi
    rw [getD_writeAt _ _ _ _ (by rw [hl, hdr y hy']; omega), hl, if_pos (by omega), getD_map_range, if_pos (by omega)]
    have hwi : windowInside taps.length 0 w i = true := by
      unfold windowInside; simp only [Bool.and_eq_true, decide_eq_true_eq]; omega
    have hcorr : corrAt opt taps 0 (fun j => src j (y : Int)) w i = src (i : Int) (y : Int) * taps.headD 0 := by
      unfold corrAt
      rw [h1, sumRange_one, extSample_inside _ _ _ _ (by omega) (by omega)]
      have : taps.getD 0 0 = taps.headD 0 := by cases taps <;> simp
      rw [this]; congr 2 <;> omega
    rw [hwi, hcorr]
    cases opt <;> simp
  · rw [if_neg h1]
    by_cases h0 : w = 0
    · rw [if_pos h0]
      apply List.ext_getElem
      · simp [hdl]
      · intro y hy1 hy2
        have hy' : y < h := by omega
        have hlen := hdr y hy'
        rw [List.getD_eq_getElem?_getD, List.getElem?_eq_getElem hy1, Option.getD_some, h0] at hlen
        rw [List.getElem_map, List.eq_nil_of_length_eq_zero hlen]
        subst h0
        simp [specRow, specRowWith]
    · rw [if_neg h0]
      apply List.map_congr_left
      intro y hy
      have hy' : y < h := by simpa using hy
      exact C15_correlate_row fixed opt taps c _ w _ hc (hdr y hy')

/-- `convolve_rows` (= `correlate_rows` with `reverse_kernel`) is the textbook convolution `Σ_k ext(i − (k − centre))·taps k`;
    the border rule uses the reversed kernel's centre -/
theorem C15_convolve_is_reversed_correlate (fixed : Bool) (opt : Opt) (taps : List Int) (c : Nat) (src : Int → Int → Int) (w h : Nat)
    (dst : List (List Int)) (hc : c < taps.length) (hdl : dst.length = h) (hdr : ∀ y, y < h → (dst.getD y []).length = w) :
    convolveRows fixed opt taps c src w h dst
      = (List.range h).map (fun (y : Nat) => specRowConv opt taps c (fun j => src j (y : Int)) w (dst.getD y [])) := by
  unfold convolveRows
  rw [C15_correlate_rows fixed opt taps.reverse (taps.length - c - 1) src w h dst (by simp; omega) hdl hdr]
  apply List.map_congr_left
  intro y _
  unfold specRow specRowConv
  rw [List.length_reverse]
  have : corrAt opt taps.reverse (taps.length - c - 1) (fun j => src j (y : Int)) w = convAt opt taps c (fun j => src j (y : Int)) w := by
    funext i; exact corrAt_reverse opt taps c _ w i hc
  rw [this]

/-- `correlate_cols` (rows on the transposed views): column x of the result is the Spec row of column x of the source -/
theorem C15_cols_transpose (fixed : Bool) (opt : Opt) (taps : List Int) (c : Nat) (src : Int → Int → Int) (w h : Nat)
    (dst : List (List Int)) (hc : c < taps.length) :
    correlateCols fixed opt taps c src w h dst
      = transposeL h w ((List.range w).map (fun (x : Nat) =>
          specRow opt taps c (fun j => src (x : Int) j) h ((List.range h).map (fun (y : Nat) => (dst.getD y []).getD x 0)))) := by
  unfold correlateCols
  rw [C15_correlate_rows fixed opt taps c (fun x y => src y x) h w (transposeL w h dst) hc (length_transposeL _ _ _)
    (fun x hx => by rw [getD_transposeL _ _ _ _ hx]; simp)]
  congr 1
  apply List.map_congr_left
  intro x hx
  rw [getD_transposeL _ _ _ _ (by simpa using hx)]

/-- pointwise reading of the column theorem (extend_* options): pixel (x, y) of `correlate_cols` is the
    correlation along column x -/
theorem C15_cols_pointwise (fixed : Bool) (opt : Opt) (taps : List Int) (c : Nat) (src : Int → Int → Int) (w h : Nat)
    (dst : List (List Int)) (hc : c < taps.length) (x y : Nat) (hx : x < w) (hy : y < h)
    (hopt : opt = .extendPadded ∨ opt = .extendZero ∨ opt = .extendConstant) :
    ((correlateCols fixed opt taps c src w h dst).getD y []).getD x 0 = corrAt opt taps c (fun j => src (x : Int) j) h y := by
  rw [C15_cols_transpose fixed opt taps c src w h dst hc, getD_transposeL _ _ _ _ hy, getD_map_range, if_pos hx]
  rw [getD_map_range_gen _ _ _ _ hx]
  unfold specRow specRowWith
  rw [getD_map_range, if_pos hy]
  rcases hopt with h | h | h <;> subst h <;> rfl

/-- images narrower than the kernel: output_zero zeroes the whole row, output_ignore leaves it untouched,
    the extend_* options still produce the full textbook sum -/
theorem C15_narrower_than_kernel (fixed : Bool) (taps : List Int) (c : Nat) (mem : Int → Int) (w : Nat) (dst : List Int)
    (hc : c < taps.length) (hd : dst.length = w) (hw : w < taps.length) :
    correlateRowImpl fixed .outputZero taps c mem w dst = List.replicate w 0
    ∧ correlateRowImpl fixed .outputIgnore taps c mem w dst = dst
    ∧ ∀ opt, opt = .extendPadded ∨ opt = .extendZero ∨ opt = .extendConstant →
        correlateRowImpl fixed opt taps c mem w dst = (List.range w).map (corrAt opt taps c mem w) := by
  refine ⟨?_, ?_, ?_⟩
  · simp [correlateRowImpl, hw, hd]
  · simp [correlateRowImpl, hw]
  · intro opt hopt
    rw [C15_correlate_row fixed opt taps c mem w dst hc hd]
    unfold specRow specRowWith
    rcases hopt with h | h | h <;> subst h <;> rfl

/-- output_zero / output_ignore: exactly the border outputs (window not inside the image) are zeroed / untouched,
    every other output is the full sum over in-image samples -/
theorem C15_border_outputs (fixed : Bool) (taps : List Int) (c : Nat) (mem : Int → Int) (w : Nat) (dst : List Int)
    (hc : c < taps.length) (hd : dst.length = w) (i : Nat) (hi : i < w) :
    (correlateRowImpl fixed .outputZero taps c mem w dst).getD i 0
        = (if c ≤ i ∧ i + (taps.length - 1 - c) < w then sumRange taps.length (fun k => mem ((i : Int) + (k : Int) - (c : Int)) * taps.getD k 0) else 0)
    ∧ (correlateRowImpl fixed .outputIgnore taps c mem w dst).getD i 0
        = (if c ≤ i ∧ i + (taps.length - 1 - c) < w then sumRange taps.length (fun k => mem ((i : Int) + (k : Int) - (c : Int)) * taps.getD k 0) else dst.getD i 0) := by
  have hsum : c ≤ i ∧ i + (taps.length - 1 - c) < w →
      corrAt .outputZero taps c mem w i = sumRange taps.length (fun k => mem ((i : Int) + (k : Int) - (c : Int)) * taps.getD k 0)
      ∧ corrAt .outputIgnore taps c mem w i = sumRange taps.length (fun k => mem ((i : Int) + (k : Int) - (c : Int)) * taps.getD k 0) := by
    intro hin
    constructor <;> (unfold corrAt; apply sumRange_congr; intro k hk; rw [extSample_inside _ _ _ _ (by omega) (by omega)])
  rw [C15_correlate_row fixed .outputZero taps c mem w dst hc hd, C15_correlate_row fixed .outputIgnore taps c mem w dst hc hd]
  unfold specRow specRowWith
  simp only [getD_map_range, if_pos hi, windowInside, Bool.and_eq_true, decide_eq_true_eq]
  by_cases hin : c ≤ i ∧ i + (taps.length - 1 - c) < w
  · rw [if_pos hin, if_pos hin, if_pos hin, if_pos hin, (hsum hin).1, (hsum hin).2]; exact ⟨rfl, rfl⟩
  · rw [if_neg hin, if_neg hin, if_neg hin, if_neg hin]; exact ⟨rfl, rfl⟩

/-- `convolve_2d_impl` (flipped kernel indices + bounds test) is the zero-extended 2-D convolution sum, for every
    width, height, kernel size, centre and pixel position -/
theorem C15_convolve_2d (src : Int → Int → Int) (w h : Nat) (ker : List Int) (ks cy cx : Nat) (x y : Nat) :
    convolve2dAt src w h ker ks cy cx x y = conv2dSpecAt src w h ker ks cy cx x y := by
  unfold convolve2dAt conv2dSpecAt
  conv => rhs; rw [sumRange_reverse]
  apply sumRange_congr
  intro kr hkr
  conv => rhs; rw [sumRange_reverse]
  apply sumRange_congr
  intro kc hkc
  simp only [zext2]
  have e1 : ((ks : Int) - 1 - (kr : Int)).toNat = ks - 1 - kr := by omega
  have e2 : ((ks : Int) - 1 - (kc : Int)).toNat = ks - 1 - kc := by omega
  have e3 : (y : Int) + ((cy : Int) - ((ks : Int) - 1 - (kr : Int))) = (y : Int) + (cy : Int) - ((ks - 1 - kr : Nat) : Int) := by omega
  have e4 : (x : Int) + ((cx : Int) - ((ks : Int) - 1 - (kc : Int))) = (x : Int) + (cx : Int) - ((ks - 1 - kc : Nat) : Int) := by omega
  rw [e1, e2, e3, e4]
  split_ifs <;> first | rfl | omega

/-- `extend_row` produces the padded image the policy describes (rows added above and below) -/
theorem C15_extend_rows (opt : Opt) (n : Nat) (src : Int → Int → Int) (w h : Nat)
    (hopt : opt = .extendPadded ∨ opt = .extendZero ∨ (opt = .extendConstant ∧ 0 < h)) :
    extendRows opt n src w h = extendRowsSpec opt n src w h := by
  unfold extendRows extendRowsSpec
  apply List.map_congr_left
  intro i hi
  have hi' : i < h + 2 * n := by simpa using hi
  rcases hopt with ho | ho | ⟨ho, hh⟩ <;> subst ho <;> simp only [ext2]
  · simp only [zext2]
    by_cases hin : n ≤ i ∧ i < n + h
    · rw [if_pos hin]
      apply List.map_congr_left
      intro j hj
      have hj' : j < w := by simpa using hj
      rw [if_pos (by omega)]
    · rw [if_neg hin, replicate_eq_map_range]
      apply List.map_congr_left
      intro j hj
      rw [if_neg (by omega)]
  · by_cases hin : n ≤ i ∧ i < n + h
    · rw [if_pos hin]
      apply List.map_congr_left
      intro j hj
      have hj' : j < w := by simpa using hj
      rw [clampI_inside _ _ (by omega) (by omega), clampI_inside _ _ (by omega) (by omega)]
    · rw [if_neg hin]
      by_cases hlt : i < n
      · rw [if_pos hlt]
        apply List.map_congr_left
        intro j hj
        have hj' : j < w := by simpa using hj
        rw [clampI_inside _ _ (by omega) (by omega)]
        congr 1
        unfold clampI; split_ifs <;> omega
      · rw [if_neg hlt]
        apply List.map_congr_left
        intro j hj
        have hj' : j < w := by simpa using hj
        rw [clampI_inside _ _ (by omega) (by omega)]
        congr 1
        unfold clampI; split_ifs <;> omega

/-- `extend_col` (through `rotated90cw_view` of source and result) pads left and right -/
theorem C15_extend_cols (opt : Opt) (n : Nat) (src : Int → Int → Int) (w h : Nat)
    (hopt : opt = .extendPadded ∨ opt = .extendZero ∨ (opt = .extendConstant ∧ 0 < w)) :
    extendCols opt n src w h = extendColsSpec opt n src w h := by
  unfold extendCols extendColsSpec
  simp only
  rw [C15_extend_rows opt n _ h w hopt]
  unfold extendRowsSpec
  apply List.map_congr_left
  intro y hy
  have hy' : y < h := by simpa using hy
  apply List.map_congr_left
  intro x hx
  have hx' : x < w + 2 * n := by simpa using hx
  rw [getD2_map_range _ _ (fun j i => ext2 opt (fun x' y' => src y' ((h : Int) - 1 - x')) h w (j : Int) ((i : Int) - (n : Int))) _ _ hx' (by omega)]
  have e : ((h - 1 - y : Nat) : Int) = (h : Int) - 1 - (y : Int) := by omega
  rcases hopt with ho | ho | ⟨ho, hw⟩ <;> subst ho <;> simp only [ext2, zext2, e]
  · congr 1; omega
  · split_ifs <;> first | rfl | omega | (congr 1; omega)
  · rw [clampI_inside _ ((h : Int) - 1 - (y : Int)) (by omega) (by omega), clampI_inside _ (y : Int) (by omega) (by omega)]
    congr 1; omega

/-- `extend_boundary` (`extend_col` then `extend_row`, or the direct copy for extend_padded) pads all four sides;
    extend_constant replicates the nearest edge pixel, also in the corners -/
theorem C15_extend_boundary (opt : Opt) (n : Nat) (src : Int → Int → Int) (w h : Nat)
    (hopt : opt = .extendPadded ∨ opt = .extendZero ∨ (opt = .extendConstant ∧ 0 < w ∧ 0 < h)) :
    extendBoundary opt n src w h = extendBoundarySpec opt n src w h := by
  rcases hopt with ho | ho | ⟨ho, hw, hh⟩
  · subst ho; rfl
  · subst ho
    unfold extendBoundary extendBoundarySpec
    simp only
    rw [C15_extend_cols .extendZero n src w h (Or.inr (Or.inl rfl)), C15_extend_rows .extendZero n _ (w + 2 * n) h (Or.inr (Or.inl rfl))]
    unfold extendRowsSpec extendColsSpec
    apply List.map_congr_left
    intro i hi
    have hi' : i < h + 2 * n := by simpa using hi
    apply List.map_congr_left
    intro j hj
    have hj' : j < w + 2 * n := by simpa using hj
    simp only [ext2]
    by_cases hin : n ≤ i ∧ i < n + h
    · rw [zext2_inside (imgFn _) _ _ _ _ (by omega) (by omega) (by omega) (by omega),
        getD_imgFn h (w + 2 * n) (fun j i => zext2 src w h ((j : Int) - (n : Int)) (i : Int)) _ _ (by omega) (by omega) (by omega) (by omega)]
      congr 1 <;> omega
    · rw [zext2_outside_y (imgFn _) _ _ _ _ (by omega), zext2_outside_y src _ _ _ _ (by omega)]
  · subst ho
    unfold extendBoundary extendBoundarySpec
    simp only
    rw [C15_extend_cols .extendConstant n src w h (Or.inr (Or.inr ⟨rfl, hw⟩)), C15_extend_rows .extendConstant n _ (w + 2 * n) h (Or.inr (Or.inr ⟨rfl, hh⟩))]
    unfold extendRowsSpec extendColsSpec
    apply List.map_congr_left
    intro i hi
    have hi' : i < h + 2 * n := by simpa using hi
    apply List.map_congr_left
    intro j hj
    have hj' : j < w + 2 * n := by simpa using hj
    simp only [ext2]
    have hc1 : clampI 0 (((w + 2 * n : Nat) : Int) - 1) (j : Int) = (j : Int) := clampI_inside _ _ (by omega) (by omega)
    have hc2 : 0 ≤ clampI 0 ((h : Int) - 1) ((i : Int) - (n : Int)) ∧ clampI 0 ((h : Int) - 1) ((i : Int) - (n : Int)) < (h : Int) := by
      unfold clampI; split_ifs <;> omega
    rw [hc1, getD_imgFn h (w + 2 * n) (fun j i => src (clampI 0 ((w : Int) - 1) ((j : Int) - (n : Int))) (clampI 0 ((h : Int) - 1) (i : Int))) _ _ (by omega) (by omega) hc2.1 hc2.2]
    have e1 : (((j : Int).toNat : Nat) : Int) = (j : Int) := by omega
    have e2 : (((clampI 0 ((h : Int) - 1) ((i : Int) - (n : Int))).toNat : Nat) : Int) = clampI 0 ((h : Int) - 1) ((i : Int) - (n : Int)) := by omega
    rw [e1, e2, clampI_inside _ (clampI 0 ((h : Int) - 1) ((i : Int) - (n : Int))) hc2.1 (by omega)]

/-- reads: the result does not depend on any source sample outside the row `[0, w)`, or, for extend_padded,
    outside `[−left_size, w + right_size)` (the declared padding) -/
theorem C15_access_reads (fixed : Bool) (opt : Opt) (taps : List Int) (c : Nat) (mem mem' : Int → Int) (w : Nat) (dst : List Int)
    (hc : c < taps.length) (hd : dst.length = w)
    (hagree : ∀ j : Int, (if opt = .extendPadded then -(c : Int) ≤ j ∧ j < (w : Int) + ((taps.length - c - 1 : Nat) : Int)
                           else 0 ≤ j ∧ j < (w : Int)) → mem j = mem' j) :
    correlateRowImpl fixed opt taps c mem w dst = correlateRowImpl fixed opt taps c mem' w dst := by
  rw [C15_correlate_row fixed opt taps c mem w dst hc hd, C15_correlate_row fixed opt taps c mem' w dst hc hd]
  unfold specRow specRowWith
  apply List.map_congr_left
  intro i hi
  have hi' : i < w := by simpa using hi
  have hcorr : corrAt opt taps c mem w i = corrAt opt taps c mem' w i := by
    unfold corrAt
    apply sumRange_congr
    intro k hk
    congr 1
    cases opt <;> simp only [extSample] <;> simp only [reduceCtorEq, if_false, if_true] at hagree
    all_goals first
      | (split_ifs <;> first | rfl | (apply hagree; omega))
      | (apply hagree; omega)
  rw [hcorr]

/-- writes: exactly the `w` destination entries of the row (the destination row keeps its length) -/
theorem C15_access_writes (fixed : Bool) (opt : Opt) (taps : List Int) (c : Nat) (mem : Int → Int) (w : Nat) (dst : List Int)
    (hc : c < taps.length) (hd : dst.length = w) :
    (correlateRowImpl fixed opt taps c mem w dst).length = dst.length := by
  rw [C15_correlate_row fixed opt taps c mem w dst hc hd, hd]
  simp [specRow, specRowWith]

/-! ### non-vacuity: concrete instances of the hypotheses, and the model evaluated on a concrete row -/

example : (0 : Nat) < [1, 2, (3:Int)].length ∧ [[(0:Int), 0], [0, 0]].length = 2
    ∧ ∀ y, y < 2 → ([[(0:Int), 0], [0, 0]].getD y []).length = 2 := by decide
example : correlateRowImpl false .extendZero [1, 2, 3] 1 (fun j => [10, 20, 30].getD j.toNat 0) 3 [7, 7, 7] = [80, 140, 80] := by decide
example : correlateRowImpl true .extendConstant [1, 2, 3] 1 (fun j => [10, 20, 30].getD j.toNat 0) 3 [7, 7, 7] = [90, 140, 170] := by decide
example : correlateRowImpl false .outputIgnore [1, 2, 3] 0 (fun j => [10, 20, 30, 40].getD j.toNat 0) 4 [7, 8, 9, 6] = [140, 200, 9, 6] := by decide
example : correlateRowImpl false .outputZero [1, 2, 3] 2 (fun j => [10, 20].getD j.toNat 0) 2 [7, 8] = [0, 0] := by decide
example : (.extendConstant : Opt) = .extendPadded ∨ (.extendConstant : Opt) = .extendZero ∨ ((.extendConstant : Opt) = .extendConstant ∧ 0 < 3 ∧ 0 < 2) := by decide
example : extendBoundary .extendConstant 1 (fun x y => x + 10 * y) 2 2 = [[0, 0, 1, 1], [0, 0, 1, 1], [10, 10, 11, 11], [10, 10, 11, 11]] := by decide
example : convolve2dAt (fun x y => if x = 0 ∧ y = 0 then 1 else 0) 3 2 [1, 2, 3, 4, 5, 6, 7, 8, 9] 3 1 1 1 1 = 9 := by decide

end GilVerif.Props.C15
