/-
  C12 -- read_image into a destination image object that already holds something (any previous dimensions / pixels):
  the destination ends up with the file's dimensions and pixels, exactly as a default-constructed destination would.

  Model: `recreate / initImage / overwrite / readInto / runSeq` in Model/C12.lean (written from io/read_image.hpp,
  io/reader_base.hpp `init_image`, image.hpp `recreate`).  All theorems: every previous destination state, every
  content of the (re)allocated memory (`junk`), every list of images; no bounds.
-/
import GilVerif.Props.C12

namespace GilVerif.Props.C12
open GilVerif.Codec GilVerif.Model.C12

/-- what `image::recreate` may leave in the pixels: anything, but an image of the requested dimensions -/
def JunkOk {α} (junk : Nat → Nat → Img α) : Prop := ∀ w h, (junk w h).WF ∧ (junk w h).w = w ∧ (junk w h).h = h

theorem overlay_eq {β} : ∀ (d s : List β), d.length = s.length → overlay d s = s
  | [], [], _ => rfl
  | [], _ :: _, h => by simp at h
  | _ :: _, [], h => by simp at h
  | _ :: ds, s :: ss, h => by
    simp only [List.length_cons, Nat.add_right_cancel_iff] at h
    simp [overlay, overlay_eq ds ss h]

theorem overlayRows_eq {α} (w : Nat) : ∀ (d s : List (List α)), d.length = s.length →
    (∀ r ∈ d, r.length = w) → (∀ r ∈ s, r.length = w) → overlayRows d s = s
  | [], [], _, _, _ => rfl
  | [], _ :: _, h, _, _ => by simp at h
  | _ :: _, [], h, _, _ => by simp at h
  | d :: ds, s :: ss, h, hd, hs => by
    simp only [List.length_cons, Nat.add_right_cancel_iff] at h
    have h1 : d.length = s.length := by
      rw [hd d (List.mem_cons_self ..), hs s (List.mem_cons_self ..)]
    simp only [overlayRows, overlay_eq d s h1,
      overlayRows_eq w ds ss h (fun r hr => hd r (List.mem_cons_of_mem _ hr)) (fun r hr => hs r (List.mem_cons_of_mem _ hr))]

/-- `apply` on a destination that has the decoded image's dimensions yields exactly the decoded image -/
theorem overwrite_same_dims {α} (d src : Img α) (wd : d.WF) (ws : src.WF) (hw : d.w = src.w) (hh : d.h = src.h) :
    overwrite d src = src := by
  obtain ⟨dw, dh, drows⟩ := d
  obtain ⟨sw, sh, srows⟩ := src
  obtain ⟨dl, dr⟩ := wd
  obtain ⟨sl, sr⟩ := ws
  simp only at hw hh dl dr sl sr
  subst hw hh
  simp only [overwrite, Img.mk.injEq, true_and]
  exact overlayRows_eq dw drows srows (by omega) dr sr

/-- init_image: the destination has the file's dimensions afterwards and is a well-formed image, WHATEVER it held before
    (equal size, one equal dimension, both different, larger, smaller, empty) -/
theorem C12_init_image_dims {α} (junk : Nat → Nat → Img α) (hj : JunkOk junk) (d : Img α) (wd : d.WF) (w h : Nat) :
    (initImage junk d w h).WF ∧ (initImage junk d w h).w = w ∧ (initImage junk d w h).h = h := by
  unfold initImage recreate
  split
  · next hc => exact ⟨wd, hc.1, hc.2⟩
  · exact hj w h

/-- recreate happens iff the dimensions differ: an equal-sized destination is not touched by init_image -/
theorem C12_init_image_keeps_equal {α} (junk : Nat → Nat → Img α) (d : Img α) :
    initImage junk d d.w d.h = d := by simp [initImage, recreate]

theorem C12_init_image_recreates_iff {α} (junk : Nat → Nat → Img α) (d : Img α) (w h : Nat) (hne : ¬ (d.w = w ∧ d.h = h)) :
    initImage junk d w h = junk w h := by simp [initImage, recreate, hne]

/-- read_image into ANY previous destination state = read_image into a default-constructed image = the decoded image
    (dimensions and pixels), for any decoder that delivers a well-formed image -/
theorem C12_read_into_reused_eq_fresh {α} (junk : Nat → Nat → Img α) (hj : JunkOk junk)
    (dec : Bytes → Settings → Option (Img α)) (file : Bytes) (img : Img α) (hdec : dec file Settings.full = some img) (wi : img.WF)
    (dest : Img α) (wd : dest.WF) :
    readInto (initImage junk) dec file dest = some img
    ∧ readInto (initImage junk) dec file dest = readInto (initImage junk) dec file emptyImg := by
  have key : ∀ d : Img α, d.WF → readInto (initImage junk) dec file d = some img := by
    intro d wdd
    obtain ⟨h1, h2, h3⟩ := C12_init_image_dims junk hj d wdd img.w img.h
    simp only [readInto, hdec, Option.map_some, Option.some.injEq]
    exact overwrite_same_dims _ _ h1 wi h2 h3
  have we : (emptyImg : Img α).WF := ⟨rfl, by simp [emptyImg]⟩
  exact ⟨key dest wd, by rw [key dest wd, key emptyImg we]⟩

/-- write_view then read_image into a reused destination, per format (by the round-trip theorems of Props/C12.lean) -/
theorem C12_bmp_roundtrip_reused {α} (f : PixFmt α) (hf : f.Lawful) (hsz : f.size = 3 ∨ f.size = 4)
    (junk : Nat → Nat → Img α) (hj : JunkOk junk) (dest : Img α) (wd : dest.WF)
    (img : Img α) (wf : img.WF) (hw : img.w * 4 + 3 < 2147483648) (hh1 : 1 ≤ img.h) (hh : img.h < 2147483648) :
    readInto (initImage junk) (decodeBmp f) (encodeBmp f img) dest = some img :=
  (C12_read_into_reused_eq_fresh junk hj _ _ img (C12_bmp_roundtrip f hf hsz img wf hw hh1 hh) wf dest wd).1

theorem C12_targa_roundtrip_reused {α} (f : PixFmt α) (hf : f.Lawful) (hsz : f.size = 3 ∨ f.size = 4)
    (junk : Nat → Nat → Img α) (hj : JunkOk junk) (dest : Img α) (wd : dest.WF)
    (img : Img α) (wf : img.WF) (hw1 : 1 ≤ img.w) (hw : img.w < 65536) (hh1 : 1 ≤ img.h) (hh : img.h < 65536) :
    readInto (initImage junk) (decodeTga f) (encodeTga f img) dest = some img :=
  (C12_read_into_reused_eq_fresh junk hj _ _ img (C12_targa_roundtrip f hf hsz img wf hw1 hw hh1 hh) wf dest wd).1

theorem C12_pnm_roundtrip_reused {α} (f : PixFmt α) (hf : f.Lawful) (t : Nat) (ht : (t = 5 ∧ f.size = 1) ∨ (t = 6 ∧ f.size = 3))
    (junk : Nat → Nat → Img α) (hj : JunkOk junk) (dest : Img α) (wd : dest.WF)
    (img : Img α) (wf : img.WF) (hw : PnmIntOk img.w) (hh : PnmIntOk img.h) :
    readInto (initImage junk) (decodePnm f t) (encodePnm f t img) dest = some img :=
  (C12_read_into_reused_eq_fresh junk hj _ _ img (C12_pnm_roundtrip f hf t ht img wf hw hh) wf dest wd).1

theorem C12_pnm_mono_roundtrip_reused (junk : Nat → Nat → Img Bool) (hj : JunkOk junk) (dest : Img Bool) (wd : dest.WF)
    (img : Img Bool) (wf : img.WF) (hw : PnmIntOk img.w) (hh : PnmIntOk img.h) :
    readInto (initImage junk) decodePnmMonoFixed (encodePnmMonoFixedExec img) dest = some img :=
  (C12_read_into_reused_eq_fresh junk hj _ _ img (C12_pnm_mono_roundtrip_proposed_fix_exec img wf hw hh) wf dest wd).1

/-- any number of round trips through ONE destination object, starting from any state: after each read the object is the
    image just written (`hrt`: the format's round-trip theorem holds for every image of the list) -/
theorem C12_reuse_sequence {α} (junk : Nat → Nat → Img α) (hj : JunkOk junk)
    (enc : Img α → Bytes) (dec : Bytes → Settings → Option (Img α)) :
    ∀ (imgs : List (Img α)) (dest : Img α), dest.WF → (∀ i ∈ imgs, i.WF ∧ dec (enc i) Settings.full = some i) →
      runSeq (initImage junk) enc dec dest imgs = imgs.map some
  | [], _, _, _ => rfl
  | img :: rest, dest, wd, hall => by
    obtain ⟨wi, hi⟩ := hall img (List.mem_cons_self ..)
    have h := (C12_read_into_reused_eq_fresh junk hj dec (enc img) img hi wi dest wd).1
    simp only [runSeq, h, List.map_cons]
    rw [C12_reuse_sequence junk hj enc dec rest img wi (fun i hi' => hall i (List.mem_cons_of_mem _ hi'))]

/-- the sequence theorem for BMP (the other formats: the same one-liner from their round-trip theorem) -/
theorem C12_bmp_reuse_sequence {α} (f : PixFmt α) (hf : f.Lawful) (hsz : f.size = 3 ∨ f.size = 4)
    (junk : Nat → Nat → Img α) (hj : JunkOk junk) (dest : Img α) (wd : dest.WF) (imgs : List (Img α))
    (hall : ∀ i ∈ imgs, i.WF ∧ i.w * 4 + 3 < 2147483648 ∧ 1 ≤ i.h ∧ i.h < 2147483648) :
    runSeq (initImage junk) (encodeBmp f) (decodeBmp f) dest imgs = imgs.map some :=
  C12_reuse_sequence junk hj _ _ imgs dest wd (fun i hi =>
    ⟨(hall i hi).1, C12_bmp_roundtrip f hf hsz i (hall i hi).1 (hall i hi).2.1 (hall i hi).2.2.1 (hall i hi).2.2.2⟩)

theorem C12_targa_reuse_sequence {α} (f : PixFmt α) (hf : f.Lawful) (hsz : f.size = 3 ∨ f.size = 4)
    (junk : Nat → Nat → Img α) (hj : JunkOk junk) (dest : Img α) (wd : dest.WF) (imgs : List (Img α))
    (hall : ∀ i ∈ imgs, i.WF ∧ 1 ≤ i.w ∧ i.w < 65536 ∧ 1 ≤ i.h ∧ i.h < 65536) :
    runSeq (initImage junk) (encodeTga f) (decodeTga f) dest imgs = imgs.map some :=
  C12_reuse_sequence junk hj _ _ imgs dest wd (fun i hi =>
    ⟨(hall i hi).1, C12_targa_roundtrip f hf hsz i (hall i hi).1 (hall i hi).2.1 (hall i hi).2.2.1 (hall i hi).2.2.2.1 (hall i hi).2.2.2.2⟩)

theorem C12_pnm_reuse_sequence {α} (f : PixFmt α) (hf : f.Lawful) (t : Nat) (ht : (t = 5 ∧ f.size = 1) ∨ (t = 6 ∧ f.size = 3))
    (junk : Nat → Nat → Img α) (hj : JunkOk junk) (dest : Img α) (wd : dest.WF) (imgs : List (Img α))
    (hall : ∀ i ∈ imgs, i.WF ∧ PnmIntOk i.w ∧ PnmIntOk i.h) :
    runSeq (initImage junk) (encodePnm f t) (decodePnm f t) dest imgs = imgs.map some :=
  C12_reuse_sequence junk hj _ _ imgs dest wd (fun i hi =>
    ⟨(hall i hi).1, C12_pnm_roundtrip f hf t ht i (hall i hi).1 (hall i hi).2.1 (hall i hi).2.2⟩)

theorem C12_pnm_mono_reuse_sequence (junk : Nat → Nat → Img Bool) (hj : JunkOk junk) (dest : Img Bool) (wd : dest.WF) (imgs : List (Img Bool))
    (hall : ∀ i ∈ imgs, i.WF ∧ PnmIntOk i.w ∧ PnmIntOk i.h) :
    runSeq (initImage junk) encodePnmMonoFixedExec decodePnmMonoFixed dest imgs = imgs.map some :=
  C12_reuse_sequence junk hj _ _ imgs dest wd (fun i hi =>
    ⟨(hall i hi).1, C12_pnm_mono_roundtrip_proposed_fix_exec i (hall i hi).1 (hall i hi).2.1 (hall i hi).2.2⟩)

def junkFalse' : Nat → Nat → Img Bool := fun w h => ⟨w, h, List.replicate h (List.replicate w false)⟩

/-- with the defective init_image the sequence theorem fails already for two images that share the width -/
theorem C12_reuse_sequence_both_differ_witness :
    runSeq (initImageBothDiffer junkFalse') (fun i => if i.h = 2 then [2] else [1])
      (fun b _ => if b = [2] then some ⟨1, 2, [[true], [false]]⟩ else some ⟨1, 1, [[true]]⟩) emptyImg
      [⟨1, 2, [[true], [false]]⟩, ⟨1, 1, [[true]]⟩]
    = [some ⟨1, 2, [[true], [false]]⟩, some ⟨1, 2, [[true], [false]]⟩] := by decide

/-! non-vacuity and the defect the clause excludes -/

def junkFalse : Nat → Nat → Img Bool := fun w h => ⟨w, h, List.replicate h (List.replicate w false)⟩

theorem junkFalse_ok : JunkOk junkFalse := by
  intro w h
  refine ⟨⟨by simp [junkFalse], ?_⟩, rfl, rfl⟩
  intro r hr
  simp only [junkFalse, List.mem_replicate] at hr
  simp [hr.2, junkFalse]

/-- same width, different height (2x3 destination, 2x1 file): the real init_image gives 2x1 -/
example : readInto (initImage junkFalse) (fun _ _ => some ⟨2, 1, [[true, true]]⟩) [] ⟨2, 3, [[false, true], [true, false], [true, true]]⟩
    = some ⟨2, 1, [[true, true]]⟩ := by decide

/-- an init_image that recreates only when BOTH dimensions differ keeps the stale dimensions and rows -/
theorem C12_init_image_both_differ_witness :
    readInto (initImageBothDiffer junkFalse) (fun _ _ => some ⟨2, 1, [[true, true]]⟩) [] ⟨2, 3, [[false, true], [true, false], [true, true]]⟩
    = some ⟨2, 3, [[true, true], [true, false], [true, true]]⟩ := by decide

end GilVerif.Props.C12
