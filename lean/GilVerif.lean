-- Root of the `GilVerif` library: formal model of Boost.GIL and the property theorems.
import GilVerif.Basic.CInt
