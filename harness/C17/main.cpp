// C17 correspondence harness: samplers, resample_pixels / resize_view, matrix3x2 of the real headers.
//
// Source images are integer valued: channel c of pixel (x,y) is  val(x,y,c) = (x*37 + y*101 + c*53 + 11) % 251  (minus 100 for signed
// channels); sample points lie on the grid n/D (D a power of two <= 8), where every floating point operation of the samplers is exact.
//
//   bil  vt F w h D ny nx0 n step   bilinear_sampler at the points ((nx0+i*step)/D, ny/D), i<n: one token per point:
//   near vt F w h D ny nx0 n step   nearest_neighbor_sampler      `o` = reported outside, result untouched; `X` = outside but result modified;
//                                                                  else the channel values c0,c1,.. of the result (g32f: value*256)
//   bilc vt F w h k v b..           bilinear_sampler on a CONSTANT (k=c: every channel = v) or two-level (k=t: v where x+y is even, else v-1) source at
//                                   arbitrary points given as bit patterns x y x y .. (F=d: binary64, F=f: binary32); tokens as for `bil`  (vt: g8 rgb8 rgb8p g16 g8s)
//   tap  k F w h D ny nx0 n step    k = b|n: the sampler on a VIRTUAL view whose dereference function records the coordinates it is asked for:
//                                   per point `o` or the dereferenced coordinates x:y,x:y,.. in order (what the sampler reads)
//   res  vt s w h dw dh a b c d e f resample_pixels(src w*h, dst dw*dh, matrix3x2<double>(a/8,..,f/8), s = b|n): all dst channel values row-major
//                                   (dst pre-filled with 7), then `|`, then the same from a direct loop  sample(s, src, transform(m, (x,y)), dst(x,y))
//   resf vt s w h dw dh a..f (bits)  the same with an arbitrary matrix3x2<double> given as six bit patterns (sample points off the grid)
//   resg vt s w h dw dh a..f (bits)  the same with a matrix3x2<float> given as six binary32 bit patterns (sample points are point<float>)
//   rsz  vt s w h dw dh             resize_view(src, dst): all dst channel values
//   rsub vt s w h dw dh x1 y1 x2 y2 ang (5 bit patterns)   resample_subimage(src, dst, x1, y1, x2, y2, ang): all dst channel values
//   mmul a.. (12 doubles as bits)   matrix product: 6 bit patterns
//   minv a.. (6 bits)               inverse: 6 bit patterns
//   mtr  a.. (6 bits) x y (bits)    transform(m, point<double>): 2 bit patterns
//   massoc (18 bits)                (m1*m2)*m3 then m1*(m2*m3): 12 bit patterns
//   mrt  a.. (6 bits) x y (bits)    transform(inverse(m), transform(m, p)): 2 bit patterns
//   mgen k x y (bits)               k = t|s|r: get_translate / get_scale / get_rotate(x): 6 bit patterns
//   mmuleq a.. b.. (12 bits)        m = a; m *= b (the COMPOUND operator): 6 bit patterns
//   mself a.. (6 bits)              m = a; m *= m (argument aliases *this): 6 bit patterns
//   mseq n M1.. Mn (6n bits)        m = matrix3x2<double>() (identity); m *= M1; ..; m *= Mn: 6 bit patterns, then the same chain ending in
//                                   a self multiplication m *= m: 6 more bit patterns
//   mpt a.. (6 bits) x y (bits)     point<double>(x,y) * m (operator*(point, matrix) itself): 2 bit patterns
//   mpti a.. (6 bits) x y (ints)    point<ptrdiff_t>(x,y) * m and transform(m, point<ptrdiff_t>): 4 bit patterns
//   mgenp k x y (bits)              k = t|s: get_translate / get_scale(point<double>(x,y)); k = u: get_scale(x): 6 bit patterns
//   mcr w h (ints) rads (bits)      center_rotate(point<ptrdiff_t>(w,h), rads): 6 bit patterns
//   iop k a.. b.. (12 ints)         matrix3x2<long>: k = m: a * b; k = e: m = a; m *= b; k = s: m = a; m *= m (b ignored); k = i: inverse(a) (a unimodular); k = p: point<long>(b.a, b.b) * a: 6 (2) integers
//   resc vt s w h dw dh n M1..Mn    m = identity; m *= Mi/8 (6n integers: entries are k/8) for i = 1..n; resample_pixels(src, dst, m): dst dump `|` direct loop
//                                   (every sample point lies on the 1/8^n grid: exact)
//   resrt vt w h dw dh n M1..Mn     INTEGER matrices (6n integers, product unimodular): m = identity; m *= Mi; resample_pixels(src, dst, m, nearest), then
//                                   resample_pixels(dst, src2, inverse(m), nearest): dst dump `|` src2 dump (pixels whose preimage lies in dst must be the source pixels again)
//   rescs vt s w h dw dh n M1..Mn   as resc, followed by the self multiplication m *= m before resample_pixels (grid 1/8^(2n))
//   fop k a.. b.. (12 binary32)     matrix3x2<float>: k = m: a * b; k = e: m = a; m *= b; k = s: m = a; m *= m; k = i: inverse(a); k = t: transform(a, point<float>(b.a, b.b)): binary32 bit patterns
//   resmf vt s w h dw dh n M1..Mn   the same with arbitrary double matrices (6n bit patterns): the 6 bit patterns of m, `|`, dst dump, `|`, direct loop
//   F = f|d (point<float> / point<double>);  vt = g8 rgb8 rgb8p g16 g8s g32f sub (subsampled rgb8, step 2) trn (transposed g16)
#include <boost/gil.hpp>
#include <boost/gil/extension/numeric/sampler.hpp>
#include <boost/gil/extension/numeric/resample.hpp>
#include <boost/gil/extension/numeric/affine.hpp>
#include "harness.hpp"
#include <unistd.h>
#include <sys/wait.h>
namespace gil = boost::gil;
using std::ptrdiff_t;

static long val(ptrdiff_t x, ptrdiff_t y, int c) { return (long)((x * 37 + y * 101 + c * 53 + 11) % 199); }

template <typename C> struct chan_io {
    static C make(long v) { return C(v); }
    static std::string show(C const& c) { return std::to_string((long long)c); } };
template <> struct chan_io<int8_t> {
    static int8_t make(long v) { return (int8_t)(v - 100); }
    static std::string show(int8_t const& c) { return std::to_string((long long)c); } };
template <> struct chan_io<gil::float32_t> {
    static gil::float32_t make(long v) { return gil::float32_t((float)v); }
    static std::string show(gil::float32_t const& c) { float f = c; return std::to_string((long long)std::llround((double)f * 256.0)); } };

struct fill_fn { ptrdiff_t x, y; int c = 0; template <typename C> void operator()(C& ch) { ch = chan_io<C>::make(val(x, y, c++)); } };
struct sent_fn { template <typename C> void operator()(C& ch) { ch = chan_io<C>::make(7 + 100 * std::is_same<C, int8_t>::value); } };
struct show_fn { std::string* s; bool first = true; template <typename C> void operator()(C const& ch) { if (!first) *s += ','; first = false; *s += chan_io<C>::show(ch); } };

template <typename View> void fill_src(View const& v) {
    for (ptrdiff_t y = 0; y < v.height(); ++y) for (ptrdiff_t x = 0; x < v.width(); ++x) {
        typename View::value_type p; fill_fn f{x, y}; gil::static_for_each(p, f); v(x, y) = p; } }
template <typename P> std::string show_px(P const& p) { std::string s; show_fn f{&s}; gil::static_for_each(p, f); return s; }
template <typename P> P sentinel() { P p; sent_fn f; gil::static_for_each(p, f); return p; }

// ---- source view kinds: an image plus the view handed to the sampler
template <typename Img> struct plain { Img img; typename Img::view_t v; using pixel_t = typename Img::value_type;
    plain(ptrdiff_t w, ptrdiff_t h) : img(w, h), v(gil::view(img)) { fill_src(v); } };
struct subs { gil::rgb8_image_t img; gil::dynamic_xy_step_type<gil::rgb8_view_t>::type v; using pixel_t = gil::rgb8_pixel_t;
    subs(ptrdiff_t w, ptrdiff_t h) : img(2 * w, 2 * h), v(gil::subsampled_view(gil::view(img), 2, 2)) {
        gil::fill_pixels(gil::view(img), gil::rgb8_pixel_t(200, 201, 202)); fill_src(v); } };
struct trns { gil::gray16_image_t img; gil::dynamic_xy_step_transposed_type<gil::gray16_view_t>::type v; using pixel_t = gil::gray16_pixel_t;
    trns(ptrdiff_t w, ptrdiff_t h) : img(h, w), v(gil::transposed_view(gil::view(img))) { fill_src(v); } };

template <typename Src, typename Sampler, typename F>
std::string row(ptrdiff_t w, ptrdiff_t h, long D, long ny, long nx0, long n, long step) {
    Src s(w, h);
    using pixel_t = typename Src::pixel_t;
    std::string out;
    for (long i = 0; i < n; ++i) {
        gil::point<F> p{F(nx0 + i * step) / F(D), F(ny) / F(D)};
        pixel_t r = sentinel<pixel_t>();
        bool ok = gil::sample(Sampler{}, s.v, p, r);
        if (i) out += ' ';
        if (!ok) out += (r == sentinel<pixel_t>()) ? "o" : "X";
        else out += show_px(r);
    }
    return out;
}

// ---- constant / two-level sources, arbitrary (off-grid) points
struct lvl_fn { long v; template <typename C> void operator()(C& ch) { ch = C(v); } };
template <typename Img, typename F>
std::string bilc(ptrdiff_t w, ptrdiff_t h, bool two, long v, std::vector<std::string> const& ws, size_t first) {
    using pixel_t = typename Img::value_type;
    Img img(w, h);
    auto vw = gil::view(img);
    for (ptrdiff_t y = 0; y < h; ++y) for (ptrdiff_t x = 0; x < w; ++x) {
        pixel_t p; lvl_fn f{(two && ((x + y) % 2 != 0)) ? v - 1 : v}; gil::static_for_each(p, f); vw(x, y) = p; }
    std::string out;
    for (size_t i = first; i + 1 < ws.size(); i += 2) {
        F px, py;
        if (sizeof(F) == 8) { uint64_t a = hv::to_ull(ws[i]), b = hv::to_ull(ws[i + 1]); std::memcpy(&px, &a, 8); std::memcpy(&py, &b, 8); }
        else { uint32_t a = (uint32_t)hv::to_ull(ws[i]), b = (uint32_t)hv::to_ull(ws[i + 1]); std::memcpy(&px, &a, 4); std::memcpy(&py, &b, 4); }
        pixel_t r = sentinel<pixel_t>();
        bool ok = gil::sample(gil::bilinear_sampler{}, gil::const_view(img), gil::point<F>(px, py), r);
        if (i > first) out += ' ';
        if (!ok) out += (r == sentinel<pixel_t>()) ? "o" : "X";
        else out += show_px(r);
    }
    return out;
}

// ---- virtual view recording the coordinates it is dereferenced at
static std::vector<std::pair<ptrdiff_t, ptrdiff_t>> g_log;
struct rec_fn {
    using point_t = gil::point_t; using const_t = rec_fn; using value_type = gil::gray8_pixel_t;
    using reference = value_type; using const_reference = value_type; using argument_type = point_t; using result_type = reference;
    static constexpr bool is_mutable = false;
    result_type operator()(point_t const& p) const { g_log.push_back({p.x, p.y}); return value_type((uint8_t)val(p.x, p.y, 0)); } };
using rec_loc_t = gil::virtual_2d_locator<rec_fn, false>;
using rec_view_t = gil::image_view<rec_loc_t>;

template <typename Sampler, typename F>
std::string taprow(ptrdiff_t w, ptrdiff_t h, long D, long ny, long nx0, long n, long step) {
    rec_view_t v(gil::point_t(w, h), rec_loc_t(gil::point_t(0, 0), gil::point_t(1, 1), rec_fn()));
    std::string out;
    for (long i = 0; i < n; ++i) {
        gil::point<F> p{F(nx0 + i * step) / F(D), F(ny) / F(D)};
        gil::gray8_pixel_t r(7);
        g_log.clear();
        bool ok = gil::sample(Sampler{}, v, p, r);
        if (i) out += ' ';
        if (!ok) { out += (r == gil::gray8_pixel_t(7) && g_log.empty()) ? "o" : "X"; continue; }
        std::string t;
        for (auto const& q : g_log) { if (!t.empty()) t += ','; t += std::to_string(q.first) + ":" + std::to_string(q.second); }
        out += t + "=" + show_px(r);
    }
    return out;
}

template <typename View> std::string dump(View const& v) {
    std::string s;
    for (ptrdiff_t y = 0; y < v.height(); ++y) for (ptrdiff_t x = 0; x < v.width(); ++x) { if (!s.empty()) s += ' '; s += show_px(v(x, y)); }
    return s;
}

template <typename Src, typename Sampler>
std::string res(ptrdiff_t w, ptrdiff_t h, ptrdiff_t dw, ptrdiff_t dh, double const* m) {
    Src s(w, h);
    using pixel_t = typename Src::pixel_t;
    using img_t = gil::image<pixel_t, false>;
    gil::matrix3x2<double> mat(m[0], m[1], m[2], m[3], m[4], m[5]);
    img_t d1(dw, dh), d2(dw, dh);
    gil::fill_pixels(gil::view(d1), sentinel<pixel_t>()); gil::fill_pixels(gil::view(d2), sentinel<pixel_t>());
    gil::resample_pixels(s.v, gil::view(d1), mat, Sampler{});
    auto v2 = gil::view(d2);
    for (ptrdiff_t y = 0; y < dh; ++y) for (ptrdiff_t x = 0; x < dw; ++x)
        gil::sample(Sampler{}, s.v, gil::transform(mat, gil::point_t(x, y)), v2(x, y));
    return dump(gil::const_view(d1)) + " | " + dump(gil::const_view(d2));
}
template <typename Src, typename Sampler>
std::string resm(ptrdiff_t w, ptrdiff_t h, ptrdiff_t dw, ptrdiff_t dh, gil::matrix3x2<double> const& mat) {
    Src s(w, h);
    using pixel_t = typename Src::pixel_t;
    using img_t = gil::image<pixel_t, false>;
    img_t d1(dw, dh), d2(dw, dh);
    gil::fill_pixels(gil::view(d1), sentinel<pixel_t>()); gil::fill_pixels(gil::view(d2), sentinel<pixel_t>());
    gil::resample_pixels(s.v, gil::view(d1), mat, Sampler{});
    auto v2 = gil::view(d2);
    for (ptrdiff_t y = 0; y < dh; ++y) for (ptrdiff_t x = 0; x < dw; ++x)
        gil::sample(Sampler{}, s.v, gil::transform(mat, gil::point_t(x, y)), v2(x, y));
    return dump(gil::const_view(d1)) + " | " + dump(gil::const_view(d2));
}
template <typename Src>
std::string resrt(ptrdiff_t w, ptrdiff_t h, ptrdiff_t dw, ptrdiff_t dh, gil::matrix3x2<double> const& mat) {
    Src s(w, h);
    using pixel_t = typename Src::pixel_t;
    using img_t = gil::image<pixel_t, false>;
    img_t d1(dw, dh), s2(w, h);
    gil::fill_pixels(gil::view(d1), sentinel<pixel_t>()); gil::fill_pixels(gil::view(s2), sentinel<pixel_t>());
    gil::resample_pixels(s.v, gil::view(d1), mat, gil::nearest_neighbor_sampler{});
    gil::resample_pixels(gil::const_view(d1), gil::view(s2), gil::inverse(mat), gil::nearest_neighbor_sampler{});
    return dump(gil::const_view(d1)) + " | " + dump(gil::const_view(s2));
}
template <typename Src, typename Sampler>
std::string resg(ptrdiff_t w, ptrdiff_t h, ptrdiff_t dw, ptrdiff_t dh, float const* m) {
    Src s(w, h);
    using pixel_t = typename Src::pixel_t;
    using img_t = gil::image<pixel_t, false>;
    gil::matrix3x2<float> mat(m[0], m[1], m[2], m[3], m[4], m[5]);
    img_t d1(dw, dh), d2(dw, dh);
    gil::fill_pixels(gil::view(d1), sentinel<pixel_t>()); gil::fill_pixels(gil::view(d2), sentinel<pixel_t>());
    gil::resample_pixels(s.v, gil::view(d1), mat, Sampler{});
    auto v2 = gil::view(d2);
    for (ptrdiff_t y = 0; y < dh; ++y) for (ptrdiff_t x = 0; x < dw; ++x)
        gil::sample(Sampler{}, s.v, gil::transform(mat, gil::point_t(x, y)), v2(x, y));
    return dump(gil::const_view(d1)) + " | " + dump(gil::const_view(d2));
}
template <typename Src, typename Sampler>
std::string rsz(ptrdiff_t w, ptrdiff_t h, ptrdiff_t dw, ptrdiff_t dh) {
    Src s(w, h);
    using pixel_t = typename Src::pixel_t;
    gil::image<pixel_t, false> d(dw, dh);
    gil::fill_pixels(gil::view(d), sentinel<pixel_t>());
    gil::resize_view(s.v, gil::view(d), Sampler{});
    return dump(gil::const_view(d));
}

template <typename Src, typename Sampler>
std::string rsub(ptrdiff_t w, ptrdiff_t h, ptrdiff_t dw, ptrdiff_t dh, double x1, double y1, double x2, double y2, double ang) {
    Src s(w, h);
    using pixel_t = typename Src::pixel_t;
    gil::image<pixel_t, false> d(dw, dh);
    gil::fill_pixels(gil::view(d), sentinel<pixel_t>());
    gil::resample_subimage(s.v, gil::view(d), x1, y1, x2, y2, ang, Sampler{});
    return dump(gil::const_view(d));
}

static double d_of(std::string const& s) { uint64_t u = hv::to_ull(s); double d; std::memcpy(&d, &u, 8); return d; }
static std::string b_of(double d) { uint64_t u; std::memcpy(&u, &d, 8); return std::to_string(u); }
static std::string show_m(gil::matrix3x2<double> const& m) {
    return b_of(m.a) + " " + b_of(m.b) + " " + b_of(m.c) + " " + b_of(m.d) + " " + b_of(m.e) + " " + b_of(m.f); }

#define SRCS(X) X("g8", plain<gil::gray8_image_t>) X("rgb8", plain<gil::rgb8_image_t>) X("rgb8p", plain<gil::rgb8_planar_image_t>) \
  X("g16", plain<gil::gray16_image_t>) X("g8s", plain<gil::gray8s_image_t>) X("g32f", plain<gil::gray32f_image_t>) X("sub", subs) X("trn", trns)

// Ops run in forked children, a chunk of ops per child: a sanitizer abort or a failed BOOST_ASSERT inside GIL ends the child,
// the op it died on gets the observation `crash:<how>` and a new child continues with the next op
// (mutants that read outside abort on thousands of ops; one fork per op under ASan is slow).
static std::string handle_op(std::string const& line);

static std::string how_died(int st) {
    if (WIFSIGNALED(st)) return "crash:signal-" + std::to_string(WTERMSIG(st)) + (WTERMSIG(st) == SIGABRT ? "-abort(assertion)" : "");
    return "crash:exit-" + std::to_string(WEXITSTATUS(st)) + (WEXITSTATUS(st) == 86 ? "-AddressSanitizer" : WEXITSTATUS(st) == 87 ? "-UBSan" : "");
}

int main() {
    std::vector<std::string> lines; std::string line;
    while (std::getline(std::cin, line)) lines.push_back(line);
    const size_t CHUNK = 64;
    size_t i = 0, crashes = 0;
    while (i < lines.size()) {
        if (crashes >= 300) { std::puts("harness-gave-up-after-300-aborted-ops"); ++i; continue; }   // each abort costs a sanitizer report
        size_t end = std::min(lines.size(), i + CHUNK);
        int fd[2];
        if (pipe(fd) != 0) return 3;
        fflush(stdout); fflush(stderr);
        pid_t pid = fork();
        if (pid < 0) return 3;
        if (pid == 0) {
            close(fd[0]);
            for (size_t k = i; k < end; ++k) {
                std::string out;
                try { out = handle_op(lines[k]); } catch (...) { out = "err:exception"; }
                out += '\n';
                size_t off = 0;
                while (off < out.size()) { ssize_t n = write(fd[1], out.data() + off, out.size() - off); if (n <= 0) _exit(4); off += (size_t)n; }
            }
            close(fd[1]);
            _exit(0);
        }
        close(fd[1]);
        std::string got; char buf[65536]; ssize_t n;
        while ((n = read(fd[0], buf, sizeof buf)) > 0) got.append(buf, (size_t)n);
        close(fd[0]);
        int st = 0; waitpid(pid, &st, 0);
        // complete lines only
        size_t done = 0, pos = 0, nl;
        while ((nl = got.find('\n', pos)) != std::string::npos && i + done < end) {
            std::fwrite(got.data() + pos, 1, nl - pos + 1, stdout); pos = nl + 1; ++done;
        }
        i += done;
        if (i < end && !(WIFEXITED(st) && WEXITSTATUS(st) == 0)) { std::puts(how_died(st).c_str()); ++i; ++crashes; }
        else if (i < end) { std::puts("harness-protocol-error"); ++i; }
        fflush(stdout);
    }
    return 0;
}
static std::string handle_op(std::string const& line) {
    {
        auto w = hv::words(line);
        auto I = [&](size_t i) { return (long)hv::to_ll(w[i]); };
        if (w.size() == 10 && (w[0] == "bil" || w[0] == "near")) {
            bool b = w[0] == "bil", f = w[2] == "f";
#define X(name, S) if (w[1] == name) { \
            if (b && f) return row<S, gil::bilinear_sampler, float>(I(3), I(4), I(5), I(6), I(7), I(8), I(9)); \
            if (b) return row<S, gil::bilinear_sampler, double>(I(3), I(4), I(5), I(6), I(7), I(8), I(9)); \
            if (f) return row<S, gil::nearest_neighbor_sampler, float>(I(3), I(4), I(5), I(6), I(7), I(8), I(9)); \
            return row<S, gil::nearest_neighbor_sampler, double>(I(3), I(4), I(5), I(6), I(7), I(8), I(9)); }
            SRCS(X)
#undef X
        }
        if (w.size() >= 9 && w[0] == "bilc") {
            bool f = w[2] == "f", two = w[5] == "t";
#define X(name, T) if (w[1] == name) { if (f) return bilc<T, float>(I(3), I(4), two, I(6), w, 7); return bilc<T, double>(I(3), I(4), two, I(6), w, 7); }
            X("g8", gil::gray8_image_t) X("rgb8", gil::rgb8_image_t) X("rgb8p", gil::rgb8_planar_image_t) X("g16", gil::gray16_image_t) X("g8s", gil::gray8s_image_t)
#undef X
        }
        if (w.size() == 10 && w[0] == "tap") {
            bool b = w[1] == "b", f = w[2] == "f";
            if (b && f) return taprow<gil::bilinear_sampler, float>(I(3), I(4), I(5), I(6), I(7), I(8), I(9));
            if (b) return taprow<gil::bilinear_sampler, double>(I(3), I(4), I(5), I(6), I(7), I(8), I(9));
            if (f) return taprow<gil::nearest_neighbor_sampler, float>(I(3), I(4), I(5), I(6), I(7), I(8), I(9));
            return taprow<gil::nearest_neighbor_sampler, double>(I(3), I(4), I(5), I(6), I(7), I(8), I(9));
        }
        if (w.size() == 13 && w[0] == "res") {
            double m[6]; for (int k = 0; k < 6; ++k) m[k] = (double)I(7 + k) / 8.0;
#define X(name, S) if (w[1] == name) { if (w[2] == "b") return res<S, gil::bilinear_sampler>(I(3), I(4), I(5), I(6), m); \
                                       return res<S, gil::nearest_neighbor_sampler>(I(3), I(4), I(5), I(6), m); }
            SRCS(X)
#undef X
        }
        if (w.size() == 13 && w[0] == "resf") {
            double m[6]; for (int k = 0; k < 6; ++k) m[k] = d_of(w[7 + k]);
#define X(name, S) if (w[1] == name) { if (w[2] == "b") return res<S, gil::bilinear_sampler>(I(3), I(4), I(5), I(6), m); \
                                       return res<S, gil::nearest_neighbor_sampler>(I(3), I(4), I(5), I(6), m); }
            SRCS(X)
#undef X
        }
        if (w.size() == 13 && w[0] == "resg") {
            float m[6]; for (int k = 0; k < 6; ++k) { uint32_t u = (uint32_t)hv::to_ull(w[7 + k]); std::memcpy(&m[k], &u, 4); }
#define X(name, S) if (w[1] == name) { if (w[2] == "b") return resg<S, gil::bilinear_sampler>(I(3), I(4), I(5), I(6), m); \
                                       return resg<S, gil::nearest_neighbor_sampler>(I(3), I(4), I(5), I(6), m); }
            SRCS(X)
#undef X
        }
        if (w.size() == 7 && w[0] == "rsz") {
#define X(name, S) if (w[1] == name) { if (w[2] == "b") return rsz<S, gil::bilinear_sampler>(I(3), I(4), I(5), I(6)); \
                                       return rsz<S, gil::nearest_neighbor_sampler>(I(3), I(4), I(5), I(6)); }
            SRCS(X)
#undef X
        }
        if (w.size() == 12 && w[0] == "rsub") {
#define X(name, S) if (w[1] == name) { if (w[2] == "b") return rsub<S, gil::bilinear_sampler>(I(3), I(4), I(5), I(6), d_of(w[7]), d_of(w[8]), d_of(w[9]), d_of(w[10]), d_of(w[11])); \
                                       return rsub<S, gil::nearest_neighbor_sampler>(I(3), I(4), I(5), I(6), d_of(w[7]), d_of(w[8]), d_of(w[9]), d_of(w[10]), d_of(w[11])); }
            SRCS(X)
#undef X
        }
        if (w.size() == 13 && w[0] == "mmul") {
            gil::matrix3x2<double> a(d_of(w[1]), d_of(w[2]), d_of(w[3]), d_of(w[4]), d_of(w[5]), d_of(w[6]));
            gil::matrix3x2<double> b(d_of(w[7]), d_of(w[8]), d_of(w[9]), d_of(w[10]), d_of(w[11]), d_of(w[12]));
            return show_m(a * b);
        }
        if (w.size() == 7 && w[0] == "minv") {
            gil::matrix3x2<double> a(d_of(w[1]), d_of(w[2]), d_of(w[3]), d_of(w[4]), d_of(w[5]), d_of(w[6]));
            return show_m(gil::inverse(a));
        }
        if (w.size() == 9 && w[0] == "mtr") {
            gil::matrix3x2<double> a(d_of(w[1]), d_of(w[2]), d_of(w[3]), d_of(w[4]), d_of(w[5]), d_of(w[6]));
            auto p = gil::transform(a, gil::point<double>(d_of(w[7]), d_of(w[8])));
            return b_of(p.x) + " " + b_of(p.y);
        }
        if (w.size() == 19 && w[0] == "massoc") {
            gil::matrix3x2<double> a(d_of(w[1]), d_of(w[2]), d_of(w[3]), d_of(w[4]), d_of(w[5]), d_of(w[6]));
            gil::matrix3x2<double> b(d_of(w[7]), d_of(w[8]), d_of(w[9]), d_of(w[10]), d_of(w[11]), d_of(w[12]));
            gil::matrix3x2<double> c(d_of(w[13]), d_of(w[14]), d_of(w[15]), d_of(w[16]), d_of(w[17]), d_of(w[18]));
            return show_m((a * b) * c) + " " + show_m(a * (b * c));
        }
        if (w.size() == 9 && w[0] == "mrt") {
            gil::matrix3x2<double> a(d_of(w[1]), d_of(w[2]), d_of(w[3]), d_of(w[4]), d_of(w[5]), d_of(w[6]));
            auto p = gil::transform(gil::inverse(a), gil::transform(a, gil::point<double>(d_of(w[7]), d_of(w[8]))));
            return b_of(p.x) + " " + b_of(p.y);
        }
        if (w.size() == 4 && w[0] == "mgen") {
            if (w[1] == "t") return show_m(gil::matrix3x2<double>::get_translate(d_of(w[2]), d_of(w[3])));
            if (w[1] == "s") return show_m(gil::matrix3x2<double>::get_scale(d_of(w[2]), d_of(w[3])));
            if (w[1] == "r") return show_m(gil::matrix3x2<double>::get_rotate(d_of(w[2])));
        }
        auto M = [&](size_t i) { return gil::matrix3x2<double>(d_of(w[i]), d_of(w[i + 1]), d_of(w[i + 2]), d_of(w[i + 3]), d_of(w[i + 4]), d_of(w[i + 5])); };
        if (w.size() == 13 && w[0] == "mmuleq") { auto m = M(1); auto const n = M(7); m *= n; return show_m(m); }
        if (w.size() == 7 && w[0] == "mself") { auto m = M(1); m *= m; return show_m(m); }
        if (w.size() >= 2 && w[0] == "mseq" && w.size() == 2 + 6 * (size_t)I(1)) {
            gil::matrix3x2<double> m;
            for (long k = 0; k < I(1); ++k) m *= M(2 + 6 * (size_t)k);
            std::string out = show_m(m);
            m *= m;
            return out + " " + show_m(m);
        }
        if (w.size() == 9 && w[0] == "mpt") {
            auto p = gil::point<double>(d_of(w[7]), d_of(w[8])) * M(1);
            return b_of(p.x) + " " + b_of(p.y);
        }
        if (w.size() == 9 && w[0] == "mpti") {
            gil::point<double> p = gil::point<ptrdiff_t>(I(7), I(8)) * M(1);
            gil::point<double> q = gil::transform(M(1), gil::point<ptrdiff_t>(I(7), I(8)));
            return b_of(p.x) + " " + b_of(p.y) + " " + b_of(q.x) + " " + b_of(q.y);
        }
        if (w.size() == 4 && w[0] == "mgenp") {
            if (w[1] == "t") return show_m(gil::matrix3x2<double>::get_translate(gil::point<double>(d_of(w[2]), d_of(w[3]))));
            if (w[1] == "s") return show_m(gil::matrix3x2<double>::get_scale(gil::point<double>(d_of(w[2]), d_of(w[3]))));
            if (w[1] == "u") return show_m(gil::matrix3x2<double>::get_scale(d_of(w[2])));
        }
        if (w.size() == 4 && w[0] == "mcr") return show_m(gil::center_rotate(gil::point<ptrdiff_t>(I(1), I(2)), d_of(w[3])));
        if (w.size() == 14 && w[0] == "iop") {
            gil::matrix3x2<long> a(I(2), I(3), I(4), I(5), I(6), I(7)), b(I(8), I(9), I(10), I(11), I(12), I(13)), r;
            if (w[1] == "m") r = a * b;
            else if (w[1] == "e") { r = a; r *= b; }
            else if (w[1] == "s") { r = a; r *= r; }
            else if (w[1] == "i") r = gil::inverse(a);          // truncating division: exact for the unimodular operands the generator sends
            else if (w[1] == "p") { gil::point<long> q = gil::point<long>(b.a, b.b) * a; return std::to_string(q.x) + " " + std::to_string(q.y); }
            else return "bad-op";
            return std::to_string(r.a) + " " + std::to_string(r.b) + " " + std::to_string(r.c) + " " + std::to_string(r.d) + " " + std::to_string(r.e) + " " + std::to_string(r.f);
        }
        if (w.size() >= 7 && w[0] == "resrt" && w.size() == 7 + 6 * (size_t)I(6)) {
            gil::matrix3x2<double> m;
            for (long k = 0; k < I(6); ++k) { size_t o = 7 + 6 * (size_t)k; m *= gil::matrix3x2<double>((double)I(o), (double)I(o + 1), (double)I(o + 2), (double)I(o + 3), (double)I(o + 4), (double)I(o + 5)); }
#define X(name, S) if (w[1] == name) return resrt<S>(I(2), I(3), I(4), I(5), m);
            SRCS(X)
#undef X
        }
        if (w.size() == 14 && w[0] == "fop") {
            auto f_of = [&](size_t i) { uint32_t u = (uint32_t)hv::to_ull(w[i]); float f; std::memcpy(&f, &u, 4); return f; };
            auto fb = [](float f) { uint32_t u; std::memcpy(&u, &f, 4); return std::to_string(u); };
            gil::matrix3x2<float> a(f_of(2), f_of(3), f_of(4), f_of(5), f_of(6), f_of(7)), b(f_of(8), f_of(9), f_of(10), f_of(11), f_of(12), f_of(13)), r;
            if (w[1] == "m") r = a * b;
            else if (w[1] == "e") { r = a; r *= b; }
            else if (w[1] == "s") { r = a; r *= r; }
            else if (w[1] == "i") r = gil::inverse(a);
            else if (w[1] == "t") { auto p = gil::transform(a, gil::point<float>(b.a, b.b)); return fb(p.x) + " " + fb(p.y); }
            else return "bad-op";
            return fb(r.a) + " " + fb(r.b) + " " + fb(r.c) + " " + fb(r.d) + " " + fb(r.e) + " " + fb(r.f);
        }
        if (w.size() >= 8 && (w[0] == "resc" || w[0] == "rescs" || w[0] == "resmf") && w.size() == 8 + 6 * (size_t)I(7)) {
            gil::matrix3x2<double> m;                       // identity, then the compound operator only
            for (long k = 0; k < I(7); ++k) {
                size_t o = 8 + 6 * (size_t)k;
                if (w[0] != "resmf") m *= gil::matrix3x2<double>(I(o) / 8.0, I(o + 1) / 8.0, I(o + 2) / 8.0, I(o + 3) / 8.0, I(o + 4) / 8.0, I(o + 5) / 8.0);
                else m *= M(o);
            }
            if (w[0] == "rescs") m *= m;
            std::string pre = w[0] == "resmf" ? show_m(m) + " | " : std::string();
#define X(name, S) if (w[1] == name) { if (w[2] == "b") return pre + resm<S, gil::bilinear_sampler>(I(3), I(4), I(5), I(6), m); \
                                       return pre + resm<S, gil::nearest_neighbor_sampler>(I(3), I(4), I(5), I(6), m); }
            SRCS(X)
#undef X
        }
        return "bad-op";
    }
}
