// C11 correspondence harness: the real GIL readers on arbitrary byte strings, one forked child per input.
//
// op line:   <fmt> <entry> <dev> <dst> <x0> <y0> <dw> <dh> <vw> <vh> <hex bytes | ->
//   fmt    bmp | pnm | tga            (png | jpg | tif when compiled with -DC11_EXT: supporting evidence only)
//   entry  info   read_image_info                       -> ok <format specific header fields>
//          image  read_image          (dst type)        -> ok <w> <h> <hashA> <hashB>
//          view   read_view into a vw x vh view         -> ok <vw> <vh> <hashA> <hashB>
//          conv   read_and_convert_image (dst type)     -> ok <w> <h> <hashA> <hashB>
//          scan   scanline_reader, all rows via iterator-> ok <w> <h> <scanline_length> <hash>
//   dev    name | file (FILE*) | stream (std::ifstream) | sstream (std::istringstream)
//   dst    rgb8 | rgba8 | gray8 | gray1 | -
//   x0 y0 dw dh  image_read_settings top_left / dim (all 0 = default)
// hashA / hashB: FNV-1a of the destination pixels of two reads; for `view` the caller's view is pre-filled with 0xBE / 0x41
//   (the hashes differ iff the reader left pixels unwritten); images created by read_image are zero-initialised by GIL.
// After an `ok` the same read is repeated on the file extended by 4096 x 0x00 and by 4096 x 0xFF; the observation
// gets ` ext=same` if both give the same observation as the unextended file, else ` ext=differs`
//   (differs: the reader consumed bytes beyond the end of the file as data).
// Other observations: err:io | err:alloc | err:other | ub:<kind>@<gil file>:<function> | assert@<file>:<function> |
//   timeout (the child used more than 2 s of CPU time)
#include <boost/gil.hpp>
#include <boost/gil/extension/io/bmp.hpp>
#include <boost/gil/extension/io/pnm.hpp>
#include <boost/gil/extension/io/targa.hpp>
#ifdef C11_EXT
#include <boost/gil/extension/io/png.hpp>
#include <boost/gil/extension/io/jpeg.hpp>
#include <boost/gil/extension/io/tiff.hpp>
#endif
#include "harness.hpp"
#include <fstream>
#include <map>
#include <new>
#include <unistd.h>
#include <fcntl.h>
#include <sys/wait.h>
#include <sys/stat.h>
#include <signal.h>
#include <poll.h>
#include <sys/resource.h>
namespace gil = boost::gil;

extern "C" const char* __asan_default_options() {
    return "detect_leaks=0:handle_abort=1:abort_on_error=0:exitcode=86:redzone=2048:max_redzone=2048:"
           "allocator_may_return_null=1:detect_stack_use_after_return=0:malloc_fill_byte=190:max_malloc_fill_size=2097152:"
           "symbolize=0:fast_unwind_on_fatal=0";
}
extern "C" const char* __ubsan_default_options() { return "print_stacktrace=1:halt_on_error=1:exitcode=87:symbolize=0"; }

// every single allocation above this many bytes fails with std::bad_alloc (the model has the same rule)
static const std::size_t ALLOC_LIMIT = std::size_t(1) << 16;
static const long SCAN_ROW_LIMIT = 65536;     // a scanline iteration over more rows than this is cut off (observation err:big)
void* operator new(std::size_t n) { if (n > ALLOC_LIMIT) throw std::bad_alloc(); void* p = std::malloc(n ? n : 1); if (!p) throw std::bad_alloc(); return p; }
void* operator new[](std::size_t n) { return operator new(n); }
void operator delete(void* p) noexcept { std::free(p); }
void operator delete[](void* p) noexcept { std::free(p); }
void operator delete(void* p, std::size_t) noexcept { std::free(p); }
void operator delete[](void* p, std::size_t) noexcept { std::free(p); }

static unsigned char g_fill = 0xBE;
template <typename T> struct fill_alloc {
    using value_type = T;
    fill_alloc() = default;
    template <typename U> fill_alloc(fill_alloc<U> const&) {}
    T* allocate(std::size_t n) { if (n > ALLOC_LIMIT / sizeof(T)) throw std::bad_alloc(); T* p = static_cast<T*>(operator new(n * sizeof(T))); std::memset((void*)p, g_fill, n * sizeof(T)); return p; }
    void deallocate(T* p, std::size_t) { operator delete(p); }
    template <typename U> bool operator==(fill_alloc<U> const&) const { return true; }
    template <typename U> bool operator!=(fill_alloc<U> const&) const { return false; }
};

struct fnv { uint64_t h = 14695981039346656037ull; void add(unsigned char c) { h ^= c; h *= 1099511628211ull; } };
static std::string hex64(uint64_t v) { char b[24]; std::snprintf(b, sizeof b, "%016llx", (unsigned long long)v); return b; }

template <typename View> static uint64_t hash_view(View const& v) {
    fnv f;
    for (std::ptrdiff_t y = 0; y < v.height(); ++y)
        for (std::ptrdiff_t x = 0; x < v.width(); ++x) {
            auto p = v(x, y);
            gil::static_for_each(p, [&](auto const& c) { f.add((unsigned char)(unsigned)c); });   // memory (layout) order
        }
    return f.h;
}

struct Op { std::string fmt, entry, dev, dst; long x0, y0, dw, dh, vw, vh; std::string path; };

template <typename Tag> static gil::image_read_settings<Tag> settings_of(Op const& o) {
    gil::image_read_settings<Tag> s;
    if (o.x0 || o.y0 || o.dw || o.dh) s.set(gil::point_t(o.x0, o.y0), gil::point_t(o.dw, o.dh));
    return s;
}

// ---- header fields
static std::string info_fields(gil::image_read_info<gil::bmp_tag> const& i) {
    return std::to_string(i._width) + " " + std::to_string(i._height) + " bpp=" + std::to_string(i._bits_per_pixel) + " comp=" + std::to_string(i._compression)
         + " off=" + std::to_string(i._offset) + " hdr=" + std::to_string(i._header_size) + " colors=" + std::to_string(i._num_colors) + " topdown=" + std::to_string((int)i._top_down); }
static std::string info_fields(gil::image_read_info<gil::pnm_tag> const& i) {
    return std::to_string(i._width) + " " + std::to_string(i._height) + " type=" + std::to_string(i._type) + " max=" + std::to_string(i._max_value); }
static std::string info_fields(gil::image_read_info<gil::targa_tag> const& i) {
    return std::to_string(i._width) + " " + std::to_string(i._height) + " bpp=" + std::to_string((int)i._bits_per_pixel) + " type=" + std::to_string((int)i._image_type)
         + " off=" + std::to_string((int)i._offset) + " desc=" + std::to_string((int)i._descriptor) + " cmt=" + std::to_string((int)i._color_map_type) + " cml=" + std::to_string((int)i._color_map_length); }
#ifdef C11_EXT
template <typename Info> static std::string info_fields(Info const& i) { return std::to_string(i._width) + " " + std::to_string(i._height); }
#endif

// ---- one read through the chosen device; F is called with the device lvalue
static std::string slurp_file(std::string const& p) { std::ifstream f(p.c_str(), std::ios::binary); std::stringstream ss; ss << f.rdbuf(); return ss.str(); }
template <typename Tag> struct has_file_device : std::true_type {};
#ifdef C11_EXT
template <> struct has_file_device<gil::tiff_tag> : std::false_type {};     // libtiff: file name and std::istream only
#endif
template <typename Tag, typename F> static void with_device(Op const& o, F f) {
    if (o.dev == "name") { std::string p = o.path; f(p); }
    else if (o.dev == "file") {
        if constexpr (has_file_device<Tag>::value) { FILE* fp = std::fopen(o.path.c_str(), "rb"); if (!fp) throw std::runtime_error("fopen"); f(fp); }   // GIL owns and closes fp
        else throw std::runtime_error("no FILE* device for this format");
    }
    else if (o.dev == "sstream") { std::istringstream in(slurp_file(o.path)); f(in); }      // seeking beyond the end fails here
    else { std::ifstream in(o.path.c_str(), std::ios::binary); f(in); }
}

template <typename Tag> static std::string do_info(Op const& o) {
    std::string r;
    with_device<Tag>(o, [&](auto& dev) { auto b = gil::read_image_info(dev, settings_of<Tag>(o)); r = "ok " + info_fields(b._info); });
    return r;
}

template <typename Tag, typename Pixel> static std::string do_pixels(Op const& o) {
    using image_t = gil::image<Pixel, false, fill_alloc<unsigned char>>;
    std::string out; long w = 0, h = 0;
    for (int pass = 0; pass < 2; ++pass) {
        g_fill = pass ? 0x41 : 0xBE;
        image_t img;
        if (o.entry == "view") {       // the caller's view: pre-filled, so that pixels the reader never writes show (hashA != hashB)
            img.recreate(o.vw, o.vh); Pixel fillp; gil::static_fill(fillp, g_fill); gil::fill_pixels(gil::view(img), fillp);
        }
        with_device<Tag>(o, [&](auto& dev) {
            if (o.entry == "image") gil::read_image(dev, img, settings_of<Tag>(o));
            else if (o.entry == "view") gil::read_view(dev, gil::view(img), settings_of<Tag>(o));
            else gil::read_and_convert_image(dev, img, settings_of<Tag>(o));
        });
        w = img.width(); h = img.height();
        out += " " + hex64(hash_view(gil::const_view(img)));
    }
    return "ok " + std::to_string(w) + " " + std::to_string(h) + out;
}

template <typename Reader> static std::string scan_rows(Reader& reader) {
    fnv f; long rows = 0;
    if (reader._info._height > SCAN_ROW_LIMIT) return "err:big";
    auto it = reader.begin(); auto end = reader.end();
    for (; it != end; ++it) { gil::byte_t* row = *it; for (std::size_t i = 0; i < reader._scanline_length; ++i) f.add(row[i]); ++rows; }
    return "ok " + std::to_string(reader._info._width) + " " + std::to_string(reader._info._height) + " " + std::to_string(reader._scanline_length) + " " + std::to_string(rows) + " " + hex64(f.h);
}
// make_scanline_reader(FILE*/istream, tag) does not compile upstream (it forwards a settings object as the tag):
// for those devices the reader is constructed directly from the device class, as the library's own tests do.
template <typename Tag> static std::string do_scan(Op const& o) {
    if (o.dev == "name") { auto reader = gil::make_scanline_reader(o.path, Tag()); return scan_rows(reader); }
    if (o.dev == "file") {
        FILE* fp = std::fopen(o.path.c_str(), "rb"); if (!fp) throw std::runtime_error("fopen");
        using dev_t = gil::detail::file_stream_device<Tag>; dev_t dev(fp);
        gil::scanline_reader<dev_t, Tag> reader(dev, gil::image_read_settings<Tag>()); return scan_rows(reader);
    }
    using dev_t = gil::detail::istream_device<Tag>;
    if (o.dev == "sstream") { std::istringstream in(slurp_file(o.path)); dev_t dev(in); gil::scanline_reader<dev_t, Tag> reader(dev, gil::image_read_settings<Tag>()); return scan_rows(reader); }
    std::ifstream in(o.path.c_str(), std::ios::binary);
    dev_t dev(in);
    gil::scanline_reader<dev_t, Tag> reader(dev, gil::image_read_settings<Tag>()); return scan_rows(reader);
}

#ifdef C11_EXT
// png / jpeg / tiff (supporting evidence): read_image only, one pass
template <typename Tag, typename Pixel> static std::string do_image_ext(Op const& o) {
    gil::image<Pixel, false, fill_alloc<unsigned char>> img;
    with_device<Tag>(o, [&](auto& dev) { gil::read_image(dev, img, settings_of<Tag>(o)); });
    return "ok " + std::to_string((long)img.width()) + " " + std::to_string((long)img.height()) + " " + hex64(hash_view(gil::const_view(img)));
}
#endif

template <typename Tag, typename... Px> struct dispatch;
template <typename Tag> struct dispatch<Tag> { static bool go(Op const&, std::string&, const char* const*) { return false; } };
template <typename Tag, typename P, typename... Px> struct dispatch<Tag, P, Px...> {
    static bool go(Op const& o, std::string& r, const char* const* names) {
        if (o.dst == names[0]) { r = do_pixels<Tag, P>(o); return true; }
        return dispatch<Tag, Px...>::go(o, r, names + 1);
    }
};

#ifdef C11_EXT
// gen <fmt> <dst> <w> <h> <seed>: a file written by GIL's own writer, returned as hex (seed of the supporting-evidence stream)
template <typename Tag, typename Pixel> static std::string gen_file(std::string const& path, long w, long h, uint64_t seed) {
    gil::image<Pixel> img(w, h); hv::rng r(seed);
    gil::for_each_pixel(gil::view(img), [&](Pixel& p) { gil::static_for_each(p, [&](auto& c) { c = (unsigned char)r.below(256); }); });
    gil::write_view(path, gil::const_view(img), Tag());
    std::ifstream f(path.c_str(), std::ios::binary); std::stringstream ss; ss << f.rdbuf(); std::string b = ss.str();
    static const char* hx = "0123456789abcdef"; std::string out = "hex ";
    for (unsigned char c : b) { out += hx[c >> 4]; out += hx[c & 15]; }
    return out;
}
static std::string gen_op(std::vector<std::string> const& w, std::string const& path) {
    long W = hv::to_ll(w[3]), H = hv::to_ll(w[4]); uint64_t seed = hv::to_ull(w[5]);
#define G(F, T, D, P) if (w[1] == F && w[2] == D) return gen_file<T, P>(path, W, H, seed);
    G("png", gil::png_tag, "rgb8", gil::rgb8_pixel_t) G("png", gil::png_tag, "rgba8", gil::rgba8_pixel_t) G("png", gil::png_tag, "gray8", gil::gray8_pixel_t)
    G("jpg", gil::jpeg_tag, "rgb8", gil::rgb8_pixel_t) G("jpg", gil::jpeg_tag, "gray8", gil::gray8_pixel_t)
    G("tif", gil::tiff_tag, "rgb8", gil::rgb8_pixel_t) G("tif", gil::tiff_tag, "rgba8", gil::rgba8_pixel_t) G("tif", gil::tiff_tag, "gray8", gil::gray8_pixel_t)
#undef G
    return "bad-op";
}
#endif

static std::string run_op(Op const& o) {
    std::string r;
#ifndef C11_EXT
    if (o.fmt == "bmp") {
        if (o.entry == "info") return do_info<gil::bmp_tag>(o);
        if (o.entry == "scan") return do_scan<gil::bmp_tag>(o);
        static const char* n[] = {"rgb8", "rgba8"};
        if (dispatch<gil::bmp_tag, gil::rgb8_pixel_t, gil::rgba8_pixel_t>::go(o, r, n)) return r;
    } else if (o.fmt == "pnm") {
        if (o.entry == "info") return do_info<gil::pnm_tag>(o);
        if (o.entry == "scan") return do_scan<gil::pnm_tag>(o);
        static const char* n[] = {"gray8", "rgb8"};
        if (dispatch<gil::pnm_tag, gil::gray8_pixel_t, gil::rgb8_pixel_t>::go(o, r, n)) return r;
        if (o.dst == "gray1") {
            // bit-aligned destination: read_image / read_view only (std allocator; pre-fill through a view fill)
            using image_t = gil::gray1_image_t;
            std::string out; long w = 0, h = 0;
            for (int pass = 0; pass < 2; ++pass) {
                image_t img;
                if (o.entry == "view") { img.recreate(o.vw, o.vh); gil::fill_pixels(gil::view(img), image_t::value_type(pass ? 1 : 0)); }
                with_device<gil::pnm_tag>(o, [&](auto& dev) {
                    if (o.entry == "view") gil::read_view(dev, gil::view(img), settings_of<gil::pnm_tag>(o));
                    else gil::read_image(dev, img, settings_of<gil::pnm_tag>(o));
                });
                w = img.width(); h = img.height();
                fnv f; auto v = gil::const_view(img);
                for (std::ptrdiff_t y = 0; y < v.height(); ++y) for (std::ptrdiff_t x = 0; x < v.width(); ++x) f.add((unsigned char)(unsigned)gil::at_c<0>(v(x, y)));
                out += " " + hex64(f.h);
            }
            return "ok " + std::to_string(w) + " " + std::to_string(h) + out;
        }
    } else if (o.fmt == "tga") {
        if (o.entry == "info") return do_info<gil::targa_tag>(o);
        if (o.entry == "scan") return do_scan<gil::targa_tag>(o);
        static const char* n[] = {"rgb8", "rgba8"};
        if (dispatch<gil::targa_tag, gil::rgb8_pixel_t, gil::rgba8_pixel_t>::go(o, r, n)) return r;
    }
#else
    if (false) {}
    else if (o.fmt == "png") {
        if (o.entry == "info") return do_info<gil::png_tag>(o);
        if (o.entry == "image" && o.dst == "rgb8") return do_image_ext<gil::png_tag, gil::rgb8_pixel_t>(o);
        if (o.entry == "image" && o.dst == "rgba8") return do_image_ext<gil::png_tag, gil::rgba8_pixel_t>(o);
        if (o.entry == "image" && o.dst == "gray8") return do_image_ext<gil::png_tag, gil::gray8_pixel_t>(o);
    } else if (o.fmt == "jpg") {
        if (o.entry == "info") return do_info<gil::jpeg_tag>(o);
        if (o.entry == "image" && o.dst == "rgb8") return do_image_ext<gil::jpeg_tag, gil::rgb8_pixel_t>(o);
        if (o.entry == "image" && o.dst == "gray8") return do_image_ext<gil::jpeg_tag, gil::gray8_pixel_t>(o);
    } else if (o.fmt == "tif") {
        if (o.entry == "info") return do_info<gil::tiff_tag>(o);
        if (o.entry == "image" && o.dst == "rgb8") return do_image_ext<gil::tiff_tag, gil::rgb8_pixel_t>(o);
        if (o.entry == "image" && o.dst == "rgba8") return do_image_ext<gil::tiff_tag, gil::rgba8_pixel_t>(o);
        if (o.entry == "image" && o.dst == "gray8") return do_image_ext<gil::tiff_tag, gil::gray8_pixel_t>(o);
    }
#endif
    return "bad-op";
}

// ---------------------------------------------------------------- fork per input
static std::string g_scratch; static long g_timeout_ms = 60000; static long g_cpu_s = 2;

static std::string slurp(std::string const& p) { std::ifstream f(p.c_str(), std::ios::binary); std::stringstream ss; ss << f.rdbuf(); return ss.str(); }

// ---- symbolisation in the parent: the children print raw module offsets (symbolising a report inside every crashing
// child costs ~0.2 s); one persistent `addr2line -f -C -i` resolves them, cached per offset.
struct Frame { std::string fn, file; };
struct Symbolizer {
    FILE* to = nullptr; FILE* from = nullptr; pid_t pid = -1; std::map<std::string, std::vector<Frame>> cache;
    bool start() {
        if (to) return true;
        char exe[4096]; ssize_t n = readlink("/proc/self/exe", exe, sizeof exe - 1); if (n <= 0) return false; exe[n] = 0;
        int a[2], b[2]; if (pipe(a) || pipe(b)) return false;
        pid = fork();
        if (pid == 0) { dup2(a[0], 0); dup2(b[1], 1); close(a[1]); close(b[0]); execlp("addr2line", "addr2line", "-f", "-C", "-i", "-e", exe, (char*)nullptr); _exit(127); }
        close(a[0]); close(b[1]); to = fdopen(a[1], "w"); from = fdopen(b[0], "r"); return to && from;
    }
    std::vector<Frame> const& lookup(std::string const& off) {
        auto it = cache.find(off); if (it != cache.end()) return it->second;
        std::vector<Frame> fr;
        if (start()) {
            std::fprintf(to, "%s\n0x0\n", off.c_str()); std::fflush(to);       // 0x0 is the end-of-answer sentinel ("??" / "??:0")
            static char l1[1 << 20], l2[1 << 16];
            while (std::fgets(l1, sizeof l1, from) && std::fgets(l2, sizeof l2, from)) {
                std::string fn(l1), file(l2);
                while (!fn.empty() && fn.back() == '\n') fn.pop_back();
                while (!file.empty() && file.back() == '\n') file.pop_back();
                if (fn == "??" && file.compare(0, 4, "??:0") == 0) break;
                fr.push_back({fn, file});
            }
        }
        return cache[off] = fr;
    }
};
static Symbolizer g_sym;

static std::string short_fn(std::string const& fn) {
    std::string flat; int depth = 0;       // drop template arguments, stop at the argument list
    for (char c : fn) { if (c == '<') ++depth; else if (c == '>') --depth; else if (depth == 0) { if (c == '(') break; flat += c; } }
    std::size_t sp = flat.rfind(' '); if (sp != std::string::npos) flat = flat.substr(sp + 1);
    std::size_t k = flat.rfind("::"); if (k != std::string::npos) flat = flat.substr(k + 2);
    return flat;
}

// site of a report: "<file relative to boost/gil>:<function>" of the first stack frame inside
// boost/gil/extension/io/, else inside boost/gil/io/, else inside boost/gil/
static std::string gil_site(std::string const& rep) {
    std::vector<Frame> frames;
    std::size_t pos = 0; int idx = 0;
    while ((pos = rep.find("\n    #", pos)) != std::string::npos) {
        std::size_t le = rep.find('\n', pos + 1); if (le == std::string::npos) le = rep.size();
        std::string line = rep.substr(pos + 1, le - pos - 1);
        std::size_t plus = line.rfind("+0x"), close = line.rfind(')');
        if (plus != std::string::npos && close != std::string::npos && close > plus && line.find("/lib/") == std::string::npos && line.find(".so") == std::string::npos) {
            unsigned long long off = std::strtoull(line.substr(plus + 1, close - plus - 1).c_str(), nullptr, 16);
            if (idx > 0 && off > 0) off -= 1;                                  // return address -> the call instruction
            char b[32]; std::snprintf(b, sizeof b, "0x%llx", off);
            for (auto const& f : g_sym.lookup(b)) frames.push_back(f);
        }
        ++idx; pos = le;
        if (idx > 40) break;
    }
    const char* needles[] = {"boost/gil/extension/io/", "boost/gil/io/", "boost/gil/"};
    for (const char* nd : needles)
        for (auto const& f : frames) {
            std::size_t g = f.file.find(nd);
            if (g != std::string::npos) {
                std::size_t g0 = f.file.find("boost/gil/");
                std::string file = f.file.substr(g0 + 10); file = file.substr(0, file.find(':'));
                return file + ":" + short_fn(f.fn);
            }
        }
    return "?";
}

static std::string classify_report(std::string const& rep, int status) {
    std::size_t a = rep.find("ERROR: AddressSanitizer: ");
    std::size_t u = rep.find("runtime error: ");
    std::size_t ga = rep.find("Assertion `");           // BOOST_ASSERT / assert()
    std::size_t gl = rep.find("Assertion '");           // _GLIBCXX_ASSERTIONS
    if (gl != std::string::npos) {
        std::string what = rep.find("__n < this->size()") != std::string::npos ? "vector-index" : (rep.find("!this->empty()") != std::string::npos ? "vector-empty" : "glibcxx-assert");
        return "ub:" + what + "@" + gil_site(rep);
    }
    if (ga != std::string::npos) return "assert@" + gil_site(rep);
    if (u != std::string::npos && (a == std::string::npos || u < a)) {
        std::string m = rep.substr(u + 15, rep.find('\n', u) - u - 15);
        std::string kind = "ubsan";
        if (m.find("shift exponent") != std::string::npos) kind = "shift-exponent";
        else if (m.find("left shift of") != std::string::npos) kind = "left-shift-overflow";
        else if (m.find("signed integer overflow") != std::string::npos) kind = "signed-integer-overflow";
        else if (m.find("negation of") != std::string::npos) kind = "negation-overflow";
        else if (m.find("division by zero") != std::string::npos) kind = "division-by-zero";
        else if (m.find("null pointer") != std::string::npos) kind = "null-pointer";
        else if (m.find("out of bounds") != std::string::npos) kind = "index-out-of-bounds";
        else if (m.find("load of value") != std::string::npos) kind = "invalid-value";
        else if (m.find("applying") != std::string::npos && m.find("offset") != std::string::npos) kind = "pointer-overflow";
        return "ub:" + kind + "@" + gil_site(rep.substr(u));
    }
    if (a != std::string::npos) {
        std::string kind = rep.substr(a + 25, rep.find_first_of(" \n", a + 25) - a - 25);
        if (kind == "requested" || kind == "allocation-size-too-big" || kind == "out-of-memory" || kind == "out") return "err:alloc";
        if (kind == "ABRT") return "abort@" + gil_site(rep);
        return "ub:" + kind + "@" + gil_site(rep.substr(a));
    }
    if (WIFSIGNALED(status)) return "crash:signal=" + std::to_string(WTERMSIG(status));
    return "crash:rc=" + std::to_string(WIFEXITED(status) ? WEXITSTATUS(status) : -1);
}

static std::string run_child(Op const& o) {
    std::string errp = g_scratch + "/err." + std::to_string((long)getpid());
    int pfd[2]; if (pipe(pfd) != 0) return "harness-error:pipe";
    std::fflush(stdout);
    pid_t pid = fork();
    if (pid < 0) return "harness-error:fork";
    if (pid == 0) {
        close(pfd[0]);
        // watchdog on the child's CPU time (robust against a loaded machine); the parent's wall-clock limit is only a backstop
        struct rlimit rl; rl.rlim_cur = (rlim_t)g_cpu_s; rl.rlim_max = (rlim_t)g_cpu_s + 1; setrlimit(RLIMIT_CPU, &rl);
        int efd = open(errp.c_str(), O_WRONLY | O_CREAT | O_TRUNC, 0600); if (efd >= 0) { dup2(efd, 2); close(efd); }
        std::string out;
        try { out = run_op(o); }
        catch (std::bad_alloc const&) { out = "err:alloc"; }
        catch (std::length_error const&) { out = "err:alloc"; }
        catch (std::ios_base::failure const&) { out = "err:io"; }
        catch (std::exception const& e) { out = std::string("err:other"); }
        catch (...) { out = "err:unknown"; }
        out += "\n";
        ssize_t k = write(pfd[1], out.data(), out.size()); (void)k;
        _exit(0);
    }
    close(pfd[1]);
    std::string got; char buf[4096];
    struct pollfd pf = {pfd[0], POLLIN, 0};
    long waited = 0; bool timed_out = false;
    for (;;) {
        int pr = poll(&pf, 1, 50);
        if (pr > 0) { ssize_t n = read(pfd[0], buf, sizeof buf); if (n > 0) { got.append(buf, n); continue; } else break; }   // EOF: the child is gone (or closed)
        waited += 50;
        if (waited >= g_timeout_ms) { timed_out = true; kill(pid, SIGKILL); break; }
    }
    close(pfd[0]);
    int status = 0; waitpid(pid, &status, 0);
    if (timed_out) return "timeout";
    if (WIFSIGNALED(status) && (WTERMSIG(status) == SIGXCPU || WTERMSIG(status) == SIGKILL)) return "timeout";
    if (!got.empty() && got.back() == '\n' && WIFEXITED(status) && WEXITSTATUS(status) == 0) { got.pop_back(); return got; }
    return classify_report(slurp(errp), status);
}

static bool unhex(std::string const& h, std::string& out) {
    out.clear(); if (h == "-") return true; if (h.size() % 2) return false;
    auto v = [](char c) { return c >= '0' && c <= '9' ? c - '0' : c >= 'a' && c <= 'f' ? c - 'a' + 10 : c >= 'A' && c <= 'F' ? c - 'A' + 10 : -1; };
    for (std::size_t i = 0; i < h.size(); i += 2) { int a = v(h[i]), b = v(h[i + 1]); if (a < 0 || b < 0) return false; out.push_back(char(a * 16 + b)); }
    return true;
}
static void spit(std::string const& p, std::string const& bytes) { std::ofstream f(p.c_str(), std::ios::binary | std::ios::trunc); f.write(bytes.data(), bytes.size()); }

int main(int argc, char** argv) {
    g_scratch = argc > 1 ? argv[1] : "/tmp";
    if (const char* t = std::getenv("C11_TIMEOUT_MS")) g_timeout_ms = std::atol(t);
    if (const char* t = std::getenv("C11_CPU_S")) g_cpu_s = std::atol(t);
    bool no_ext = std::getenv("C11_NO_EXT") != nullptr;
    return hv::run([&](std::string const& line) -> std::string {
        auto w = hv::words(line);
#ifdef C11_EXT
        if (w.size() == 6 && w[0] == "gen") { try { return gen_op(w, g_scratch + "/gen." + std::to_string((long)getpid())); } catch (std::exception const& e) { return std::string("gen-failed:") + e.what(); } }
#endif
        if (w.size() != 11) return "bad-op";
        Op o{w[0], w[1], w[2], w[3], hv::to_ll(w[4]), hv::to_ll(w[5]), hv::to_ll(w[6]), hv::to_ll(w[7]), hv::to_ll(w[8]), hv::to_ll(w[9]), ""};
        std::string bytes; if (!unhex(w[10], bytes)) return "bad-op";
        o.path = g_scratch + "/in." + std::to_string((long)getpid());
        spit(o.path, bytes);
        std::string r = run_child(o);
        if (!no_ext && r.compare(0, 3, "ok ") == 0) {
            spit(o.path, bytes + std::string(4096, '\0')); std::string r0 = run_child(o);
            spit(o.path, bytes + std::string(4096, '\xff')); std::string r1 = run_child(o);
            r += (r0 == r && r1 == r) ? " ext=same" : " ext=differs";
        }
        return r;
    });
}
