// C19 correspondence harness: histogram::fill / fill_histogram, cumulative_histogram, sub_histogram (both overloads),
// normalize, and the std-container fillers of the real headers.
//
//   fh <vt> <sel> <bw> <acc> <sparse> <applymask> <setlimits> <w> <h> | lower | upper | mask (w*h bits) | planes of image A | planes of image B
//        vt  : g8 g8s g16 g16s d2_8 rgb8 rgb8s rgb16 rgba8 (view type; d2_8 = 2-channel devicen)
//        sel : which channels form the key: "all" or e.g. "0", "20", "12", "3" (template arguments of fill_histogram<...>)
//        first  fill_histogram(A, h)  (defaults: clears, sparse, bin width as given)
//        then   fill_histogram<sel>(B, h, bw, acc, sparse, applymask, mask, lower, upper, setlimits)
//     -> bins sorted by key:  "k0,k1:count k0,k1:count ..."   (count printed as integer; "-" when the histogram is empty)
//   hk  same as fh but with histogram<unsigned char> keys (gray8 only; exercises the dense pre-fill in the key type)
//   cu <vt> <sel> <bw> <w> <h> | planes          fill, then cumulative_histogram -> sorted bins
//   sa <vt> <axes> <bw> <w> <h> | planes         fill all channels, then sub_histogram<axes>() -> sorted bins
//   sr <vt> <axis> <bw> <w> <h> <lo> <hi> | planes   fill all channels, then sub_histogram<axis>(t1, t2), t1/t2 = lo/hi on every axis
//   no <vt> <sel> <bw> <w> <h> | planes          fill, normalize -> "key:count:bits-of-normalized-double ..." sorted
//   cn <vt> <sel> <bw> <mode> <w> <h> | planes   fill, make the bins fractional (mode q: every bin * 0.25; mode n: normalize()), then
//        cumulative_histogram -> sorted "key:value" with value*4 (q, exact) or round(value * 2^20) (n)
//   ns <vt> <sel> <bw> <mode> <w> <h> | planes A | planes B     multi-step sequences on fractional bins; mode:
//        s  : fill(A), normalize, sum()                       nn : fill(A), normalize, normalize
//        na : fill(A), normalize, fill(B, accumulate), normalize
//        qs : fill(A), every bin * 0.25, sum()                 qn : fill(A), every bin * 0.25, normalize
//     -> "S=<round(sum() * 2^20)> | key:<round(bin * 2^20)> ..." of the final state ("inf"/"nan" for non-finite values); qs prints sum()*4 and bin*4
//   sv <vt1> <vt2> <w> <h> <presize> | initial vector (presize entries) | plane 1 | plane 2      std::vector<int> two-step sequence:
//        v = initial; if vt1 != "-": fill_histogram(view1, v) ; then fill_histogram(view2, v, /*accumulate*/ true) -> "size : i:count ..."
//   mk <vt> <sel> <bw> <w> <h> | probe keys (flattened) | planes A | planes B      the query members of the histogram class: hA = fill(A),
//        hB = fill(B), hAB = fill(A) then fill(B, accumulate) ->
//        "min=<min_key> max=<max_key> sorted=<sorted_keys ;-joined> near=<nearest_key(probe) ;-joined> eq=<5 bits> kp=<key_from_pixel<sel>(A(0,0))>"
//        eq bits: hA.equals(copy of hA), hA.equals(hB), hB.equals(hA), hA.equals(hAB), hAB.equals(hA); "-" where a list is empty
//        (min_key / max_key dereference begin(): not called on an empty histogram)
//   kc <c0> <c1> <c2> | t0 t1 t2      histogram<unsigned char, short, int>: key_from_pixel(p), key_from_pixel<2,0,1>(p) for the rgb16s pixel
//        p = (c0,c1,c2); key_from_tuple(t), key_from_tuple<1,2,0>(t) for the tuple<long long x3> t; five is_tuple_compatible answers
//   st <vt> <w> <h> | plane                      gray8/gray16: vector<int>, map<int,int>, array<int,256> (g8), sparse -> four sorted lists
#define BOOST_ENABLE_ASSERT_HANDLER
#include <string>
struct hv_assert_failure { std::string expr; };
namespace boost {
inline void assertion_failed(char const* expr, char const*, char const*, long) { throw hv_assert_failure{expr}; }
inline void assertion_failed_msg(char const* expr, char const*, char const*, char const*, long) { throw hv_assert_failure{expr}; }
}
#include <boost/gil.hpp>
#include <boost/gil/histogram.hpp>
#include <boost/gil/extension/histogram/std.hpp>
#include <algorithm>
#include <cmath>
#include <map>
#include "harness.hpp"
namespace gil = boost::gil;
using ll = long long;

struct Op { std::vector<std::string> head; std::vector<std::vector<ll>> groups; };
static Op parse(std::string const& line) {
    Op op; auto w = hv::words(line); size_t i = 0;
    while (i < w.size() && w[i] != "|") op.head.push_back(w[i++]);
    while (i < w.size()) { ++i; std::vector<ll> g; while (i < w.size() && w[i] != "|") g.push_back(hv::to_ll(w[i++])); op.groups.push_back(g); }
    return op;
}
template <class View> View window(View const& v, ll x0, ll y0, ll w, ll h) {
    return View(typename View::point_t(w, h), v.pixels() + typename View::point_t(x0, y0));
}
template <class View> void load(View const& v, std::vector<std::vector<ll>> const& planes, size_t first) {
    using C = typename gil::channel_type<View>::type; constexpr int N = gil::num_channels<View>::value;
    for (ll y = 0; y < v.height(); ++y) for (ll x = 0; x < v.width(); ++x) {
        typename View::reference p = v(x, y);
        for (int k = 0; k < N; ++k) p[k] = C(planes.at(first + k).at(y * v.width() + x));
    }
}
template <class Img> struct Buf {
    Img img; typename Img::view_t v;
    Buf(ll w, ll h) : img(w + 1, h + 1), v(window(gil::view(img), 0, 0, w, h)) {}
};

template <class Tuple, std::size_t... I> std::string key_str(Tuple const& t, std::index_sequence<I...>) {
    std::string r; bool first = true;
    (void)std::initializer_list<int>{((r += (first ? "" : ","), r += std::to_string((ll)std::get<I>(t)), first = false), 0)...};
    return r;
}
template <class... T> std::string bins(gil::histogram<T...> const& h, bool with_norm = false, gil::histogram<T...> const* counts = nullptr) {
    using key_t = typename gil::histogram<T...>::key_type;
    std::vector<std::pair<key_t, double>> v(h.begin(), h.end());
    std::sort(v.begin(), v.end(), [](auto const& a, auto const& b) { return a.first < b.first; });
    if (v.empty()) return "-";
    std::string r;
    for (auto const& kv : v) {
        r += key_str(kv.first, std::index_sequence_for<T...>{}) + ":";
        if (with_norm) { uint64_t u; double d = kv.second; std::memcpy(&u, &d, 8); r += std::to_string((ll)counts->at(kv.first)) + ":" + std::to_string(u); }
        else r += std::to_string((ll)kv.second);
        r += " ";
    }
    return r;
}
template <std::size_t N> struct tup;
template <> struct tup<1> { using type = std::tuple<int>; static type make(std::vector<ll> const& v) { return type((int)v.at(0)); } };
template <> struct tup<2> { using type = std::tuple<int, int>; static type make(std::vector<ll> const& v) { return type((int)v.at(0), (int)v.at(1)); } };
template <> struct tup<3> { using type = std::tuple<int, int, int>; static type make(std::vector<ll> const& v) { return type((int)v.at(0), (int)v.at(1), (int)v.at(2)); } };
template <> struct tup<4> { using type = std::tuple<int, int, int, int>; static type make(std::vector<ll> const& v) { return type((int)v.at(0), (int)v.at(1), (int)v.at(2), (int)v.at(3)); } };
template <std::size_t N> struct hist_of;
template <> struct hist_of<1> { using type = gil::histogram<int>; };
template <> struct hist_of<2> { using type = gil::histogram<int, int>; };
template <> struct hist_of<3> { using type = gil::histogram<int, int, int>; };
template <> struct hist_of<4> { using type = gil::histogram<int, int, int, int>; };

struct Flags { std::size_t bw; bool acc, sparse, applymask, setlimits; std::vector<std::vector<bool>> mask; };

// fill with an explicit channel selection
template <class Hist, class View, std::size_t... D>
void fill_sel(View const& v, Hist& h, Flags const& f, typename Hist::key_type lo, typename Hist::key_type hi, std::index_sequence<D...>) {
    gil::fill_histogram<D...>(v, h, f.bw, f.acc, f.sparse, f.applymask, f.mask, lo, hi, f.setlimits);
}
template <class Img, std::size_t N, std::size_t... D>
std::string fh_sel(Op const& op, std::index_sequence<D...> sel) {
    auto const& hd = op.head;
    Flags f; f.bw = (std::size_t)hv::to_ll(hd[3]); f.acc = hd[4] == "1"; f.sparse = hd[5] == "1"; f.applymask = hd[6] == "1"; f.setlimits = hd[7] == "1";
    ll w = hv::to_ll(hd[8]), h = hv::to_ll(hd[9]);
    constexpr int NC = gil::num_channels<typename Img::view_t>::value;
    for (ll y = 0; y < h; ++y) { std::vector<bool> row; for (ll x = 0; x < w; ++x) row.push_back(op.groups.at(2).at(y * w + x) != 0); f.mask.push_back(row); }
    Buf<Img> a(w, h), b(w, h); load(a.v, op.groups, 3); load(b.v, op.groups, 3 + NC);
    typename hist_of<N>::type hist;
    Flags first = f; first.acc = false; first.sparse = true; first.applymask = false; first.setlimits = false;
    auto lo = tup<N>::make(op.groups.at(0)), hi = tup<N>::make(op.groups.at(1));
    typename Img::const_view_t av(a.v), bv(b.v);
    gil::fill_histogram<D...>(av, hist, f.bw);
    fill_sel(bv, hist, f, lo, hi, sel);
    return bins(hist);
}
template <class Img> std::string fh(Op const& op);

template <class Img, std::size_t N, std::size_t... D> std::string cu_sel(Op const& op, std::index_sequence<D...>) {
    auto const& hd = op.head; std::size_t bw = (std::size_t)hv::to_ll(hd[3]); ll w = hv::to_ll(hd[4]), h = hv::to_ll(hd[5]);
    Buf<Img> a(w, h); load(a.v, op.groups, 0); typename Img::const_view_t av(a.v);
    typename hist_of<N>::type hist; gil::fill_histogram<D...>(av, hist, bw);
    auto c = gil::cumulative_histogram(hist);
    return bins(c);
}
template <class Img, std::size_t N, std::size_t... D> std::string no_sel(Op const& op, std::index_sequence<D...>) {
    auto const& hd = op.head; std::size_t bw = (std::size_t)hv::to_ll(hd[3]); ll w = hv::to_ll(hd[4]), h = hv::to_ll(hd[5]);
    Buf<Img> a(w, h); load(a.v, op.groups, 0); typename Img::const_view_t av(a.v);
    typename hist_of<N>::type hist; gil::fill_histogram<D...>(av, hist, bw);
    auto counts = hist; hist.normalize();
    return bins(hist, true, &counts);
}
template <class Img, std::size_t N, std::size_t... D> std::string cn_sel(Op const& op, std::index_sequence<D...>) {
    auto const& hd = op.head; std::size_t bw = (std::size_t)hv::to_ll(hd[3]); bool quarter = hd[4] == "q"; ll w = hv::to_ll(hd[5]), h = hv::to_ll(hd[6]);
    Buf<Img> a(w, h); load(a.v, op.groups, 0); typename Img::const_view_t av(a.v);
    typename hist_of<N>::type hist; gil::fill_histogram<D...>(av, hist, bw);
    if (quarter) { for (auto& kv : hist) kv.second *= 0.25; } else hist.normalize();
    auto c = gil::cumulative_histogram(hist);
    using key_t = typename hist_of<N>::type::key_type;
    std::vector<std::pair<key_t, double>> v(c.begin(), c.end());
    std::sort(v.begin(), v.end(), [](auto const& x, auto const& y) { return x.first < y.first; });
    if (v.empty()) return "-";
    std::string r;
    for (auto const& kv : v) {
        double q = quarter ? kv.second * 4.0 : std::floor(kv.second * 1048576.0 + 0.5);
        r += key_str(kv.first, std::make_index_sequence<N>{}) + ":" + std::to_string((ll)q) + (quarter && q != std::floor(q) ? "?" : "") + " ";
    }
    return r;
}
static std::string q20s(double v, bool quarter) {
    if (std::isnan(v)) return "nan"; if (std::isinf(v)) return "inf";
    return std::to_string((ll)(quarter ? v * 4.0 : std::floor(v * 1048576.0 + 0.5)));
}
template <class Img, std::size_t N, std::size_t... D> std::string ns_sel(Op const& op, std::index_sequence<D...>) {
    auto const& hd = op.head; std::size_t bw = (std::size_t)hv::to_ll(hd[3]); std::string mode = hd[4]; ll w = hv::to_ll(hd[5]), h = hv::to_ll(hd[6]);
    constexpr int NC = gil::num_channels<typename Img::view_t>::value;
    Buf<Img> a(w, h), b(w, h); load(a.v, op.groups, 0); load(b.v, op.groups, NC);
    typename Img::const_view_t av(a.v), bv(b.v);
    typename hist_of<N>::type hist; gil::fill_histogram<D...>(av, hist, bw);
    bool quarter = false;
    if (mode == "s") hist.normalize();
    else if (mode == "nn") { hist.normalize(); hist.normalize(); }
    else if (mode == "na") { hist.normalize(); gil::fill_histogram<D...>(bv, hist, bw, true); hist.normalize(); }
    else if (mode == "qs") { for (auto& kv : hist) kv.second *= 0.25; quarter = true; }
    else if (mode == "qn") { for (auto& kv : hist) kv.second *= 0.25; hist.normalize(); }
    else return "bad-op";
    double total = hist.sum();
    using key_t = typename hist_of<N>::type::key_type;
    std::vector<std::pair<key_t, double>> v(hist.begin(), hist.end());
    std::sort(v.begin(), v.end(), [](auto const& x, auto const& y) { return x.first < y.first; });
    std::string r = "S=" + q20s(total, quarter) + " |";
    for (auto const& kv : v) r += " " + key_str(kv.first, std::make_index_sequence<N>{}) + ":" + q20s(kv.second, quarter);
    return r;
}
template <class Img, std::size_t... A> std::string sa_axes(Op const& op, std::index_sequence<A...>) {
    auto const& hd = op.head; std::size_t bw = (std::size_t)hv::to_ll(hd[3]); ll w = hv::to_ll(hd[4]), h = hv::to_ll(hd[5]);
    constexpr int NC = gil::num_channels<typename Img::view_t>::value;
    Buf<Img> a(w, h); load(a.v, op.groups, 0); typename Img::const_view_t av(a.v);
    typename hist_of<NC>::type hist; gil::fill_histogram(av, hist, bw);
    auto s = hist.template sub_histogram<A...>();
    return bins(s);
}
template <class Img, std::size_t... A> std::string sr_axes(Op const& op, std::index_sequence<A...>) {
    auto const& hd = op.head; std::size_t bw = (std::size_t)hv::to_ll(hd[3]); ll w = hv::to_ll(hd[4]), h = hv::to_ll(hd[5]); ll lo = hv::to_ll(hd[6]), hi = hv::to_ll(hd[7]);
    constexpr int NC = gil::num_channels<typename Img::view_t>::value;
    Buf<Img> a(w, h); load(a.v, op.groups, 0); typename Img::const_view_t av(a.v);
    typename hist_of<NC>::type hist; gil::fill_histogram(av, hist, bw);
    auto t1 = tup<NC>::make(std::vector<ll>(NC, lo)), t2 = tup<NC>::make(std::vector<ll>(NC, hi));
    auto s = hist.template sub_histogram<A...>(t1, t2);
    return bins(s);
}

// query members of the histogram class
template <class Img, std::size_t N, std::size_t... D> std::string mk_sel(Op const& op, std::index_sequence<D...>) {
    auto const& hd = op.head; std::size_t bw = (std::size_t)hv::to_ll(hd[3]); ll w = hv::to_ll(hd[4]), h = hv::to_ll(hd[5]);
    constexpr int NC = gil::num_channels<typename Img::view_t>::value;
    Buf<Img> a(w, h), b(w, h); load(a.v, op.groups, 1); load(b.v, op.groups, 1 + NC);
    typename Img::const_view_t av(a.v), bv(b.v);
    using H = typename hist_of<N>::type;
    H hA, hB, hAB;
    gil::fill_histogram<D...>(av, hA, bw); gil::fill_histogram<D...>(bv, hB, bw);
    gil::fill_histogram<D...>(av, hAB, bw); gil::fill_histogram<D...>(bv, hAB, bw, true);
    H const& cA = hA;
    auto ks = [](typename H::key_type const& k) { return key_str(k, std::make_index_sequence<N>{}); };
    std::string r;
    if (cA.empty()) r = "min=- max=- sorted=-";
    else {
        r = "min=" + ks(cA.min_key()) + " max=" + ks(cA.max_key()) + " sorted=";
        auto sk = cA.sorted_keys();
        for (size_t i = 0; i < sk.size(); ++i) r += (i ? ";" : "") + ks(sk[i]);
    }
    r += " near=";
    auto const& pr = op.groups.at(0);
    if (pr.size() < N) r += "-";
    for (size_t i = 0; i + N <= pr.size(); i += N) {
        std::vector<ll> one(pr.begin() + i, pr.begin() + i + N);
        r += (i ? ";" : "") + ks(cA.nearest_key(tup<N>::make(one)));
    }
    H copy = hA;
    auto bit = [](bool x) { return std::string(x ? "1" : "0"); };
    r += " eq=" + bit(cA.equals(copy)) + bit(cA.equals(hB)) + bit(hB.equals(hA)) + bit(cA.equals(hAB)) + bit(hAB.equals(hA));
    r += " kp=";
    if (w * h > 0) r += ks(cA.template key_from_pixel<D...>(av(0, 0))); else r += "-";
    return r;
}
static std::string kc(Op const& op) {
    using H = gil::histogram<unsigned char, short, int>;
    H hist; H const& ch = hist;
    gil::rgb16s_pixel_t p((std::int16_t)hv::to_ll(op.head.at(1)), (std::int16_t)hv::to_ll(op.head.at(2)), (std::int16_t)hv::to_ll(op.head.at(3)));
    auto t = std::make_tuple((ll)op.groups.at(0).at(0), (ll)op.groups.at(0).at(1), (ll)op.groups.at(0).at(2));
    auto ks = [](H::key_type const& k) { return key_str(k, std::make_index_sequence<3>{}); };
    std::string r = ks(ch.key_from_pixel(p)) + " | " + ks(ch.key_from_pixel<2, 0, 1>(p)) + " | " + ks(ch.key_from_tuple(t)) + " | " + ks(ch.key_from_tuple<1, 2, 0>(t)) + " | ";
    auto bit = [](bool x) { return std::string(x ? "1" : "0"); };
    r += bit(hist.is_tuple_compatible(std::make_tuple(1, 2, 3))) + bit(hist.is_tuple_compatible(std::make_tuple(1, 2)))
       + bit(hist.is_tuple_compatible(std::make_tuple(1LL, 2.5, 'c'))) + bit(hist.is_tuple_compatible(std::make_tuple(std::string("x"), 2, 3)))
       + bit(hist.is_tuple_compatible(std::make_tuple(1, 2, 3, 4)));
    return r;
}
#define SEL(str, N, ...) if (sel == str) return F<Img, N>(op, std::index_sequence<__VA_ARGS__>{});
template <class Img, int NC> struct dispatch;
#define DISPATCH_BODY(FN) \
    template <class Img> static std::string FN(Op const& op, std::string const& sel, std::integral_constant<int, 1>) { \
        if (sel == "all") return FN##_sel<Img, 1>(op, std::index_sequence<>{}); if (sel == "0") return FN##_sel<Img, 1>(op, std::index_sequence<0>{}); return "bad-op"; } \
    template <class Img> static std::string FN(Op const& op, std::string const& sel, std::integral_constant<int, 2>) { \
        if (sel == "all") return FN##_sel<Img, 2>(op, std::index_sequence<>{}); if (sel == "1") return FN##_sel<Img, 1>(op, std::index_sequence<1>{}); \
        if (sel == "10") return FN##_sel<Img, 2>(op, std::index_sequence<1, 0>{}); return "bad-op"; } \
    template <class Img> static std::string FN(Op const& op, std::string const& sel, std::integral_constant<int, 3>) { \
        if (sel == "all") return FN##_sel<Img, 3>(op, std::index_sequence<>{}); if (sel == "0") return FN##_sel<Img, 1>(op, std::index_sequence<0>{}); \
        if (sel == "1") return FN##_sel<Img, 1>(op, std::index_sequence<1>{}); if (sel == "20") return FN##_sel<Img, 2>(op, std::index_sequence<2, 0>{}); return "bad-op"; } \
    template <class Img> static std::string FN(Op const& op, std::string const& sel, std::integral_constant<int, 4>) { \
        if (sel == "all") return FN##_sel<Img, 4>(op, std::index_sequence<>{}); if (sel == "3") return FN##_sel<Img, 1>(op, std::index_sequence<3>{}); \
        if (sel == "12") return FN##_sel<Img, 2>(op, std::index_sequence<1, 2>{}); return "bad-op"; }
struct D { DISPATCH_BODY(fh) DISPATCH_BODY(cu) DISPATCH_BODY(no) DISPATCH_BODY(cn) DISPATCH_BODY(ns) };

template <class Img> std::string by_channels_fh(Op const& op) { return D::fh<Img>(op, op.head[2], std::integral_constant<int, gil::num_channels<typename Img::view_t>::value>{}); }
template <class Img> std::string by_channels_cu(Op const& op) { return D::cu<Img>(op, op.head[2], std::integral_constant<int, gil::num_channels<typename Img::view_t>::value>{}); }
template <class Img> std::string by_channels_ns(Op const& op) { return D::ns<Img>(op, op.head[2], std::integral_constant<int, gil::num_channels<typename Img::view_t>::value>{}); }
template <class Img> std::string by_channels_cn(Op const& op) { return D::cn<Img>(op, op.head[2], std::integral_constant<int, gil::num_channels<typename Img::view_t>::value>{}); }
template <class Img> std::string by_channels_no(Op const& op) { return D::no<Img>(op, op.head[2], std::integral_constant<int, gil::num_channels<typename Img::view_t>::value>{}); }

template <class Img> std::string sa(Op const& op, std::integral_constant<int, 2>) { auto a = op.head[2]; if (a == "0") return sa_axes<Img>(op, std::index_sequence<0>{}); if (a == "1") return sa_axes<Img>(op, std::index_sequence<1>{}); return "bad-op"; }
template <class Img> std::string sa(Op const& op, std::integral_constant<int, 3>) { auto a = op.head[2]; if (a == "0") return sa_axes<Img>(op, std::index_sequence<0>{}); if (a == "2") return sa_axes<Img>(op, std::index_sequence<2>{}); if (a == "02") return sa_axes<Img>(op, std::index_sequence<0, 2>{}); if (a == "21") return sa_axes<Img>(op, std::index_sequence<2, 1>{}); return "bad-op"; }
template <class Img> std::string sa(Op const& op, std::integral_constant<int, 4>) { auto a = op.head[2]; if (a == "3") return sa_axes<Img>(op, std::index_sequence<3>{}); if (a == "03") return sa_axes<Img>(op, std::index_sequence<0, 3>{}); if (a == "012") return sa_axes<Img>(op, std::index_sequence<0, 1, 2>{}); return "bad-op"; }
template <class Img> std::string sr(Op const& op, std::integral_constant<int, 2>) { auto a = op.head[2]; if (a == "0") return sr_axes<Img>(op, std::index_sequence<0>{}); if (a == "1") return sr_axes<Img>(op, std::index_sequence<1>{}); return "bad-op"; }
template <class Img> std::string sr(Op const& op, std::integral_constant<int, 3>) { auto a = op.head[2]; if (a == "0") return sr_axes<Img>(op, std::index_sequence<0>{}); if (a == "2") return sr_axes<Img>(op, std::index_sequence<2>{}); if (a == "02") return sr_axes<Img>(op, std::index_sequence<0, 2>{}); return "bad-op"; }
template <class Img> std::string sr(Op const& op, std::integral_constant<int, 4>) { auto a = op.head[2]; if (a == "3") return sr_axes<Img>(op, std::index_sequence<3>{}); if (a == "03") return sr_axes<Img>(op, std::index_sequence<0, 3>{}); return "bad-op"; }

// histogram<unsigned char> on gray8: dense pre-fill in the key's own type
static std::string hk(Op const& op) {
    auto const& hd = op.head;
    Flags f; f.bw = (std::size_t)hv::to_ll(hd[3]); f.acc = hd[4] == "1"; f.sparse = hd[5] == "1"; f.applymask = hd[6] == "1"; f.setlimits = hd[7] == "1";
    ll w = hv::to_ll(hd[8]), h = hv::to_ll(hd[9]);
    for (ll y = 0; y < h; ++y) { std::vector<bool> row; for (ll x = 0; x < w; ++x) row.push_back(op.groups.at(2).at(y * w + x) != 0); f.mask.push_back(row); }
    Buf<gil::gray8_image_t> a(w, h), b(w, h); load(a.v, op.groups, 3); load(b.v, op.groups, 4);
    gil::histogram<unsigned char> hist;
    gil::gray8c_view_t av(a.v), bv(b.v);
    gil::fill_histogram(av, hist, f.bw);
    gil::fill_histogram(bv, hist, f.bw, f.acc, f.sparse, f.applymask, f.mask, std::make_tuple((unsigned char)op.groups.at(0).at(0)), std::make_tuple((unsigned char)op.groups.at(1).at(0)), f.setlimits);
    return bins(hist);
}
template <class Img> std::string st(Op const& op) {
    auto const& hd = op.head; ll w = hv::to_ll(hd[2]), h = hv::to_ll(hd[3]);
    using C = typename gil::channel_type<typename Img::view_t>::type;
    Buf<Img> a(w, h); load(a.v, op.groups, 0); typename Img::const_view_t av(a.v);
    std::vector<int> vec(3, 7); std::map<int, int> mp; mp[5] = 9; std::array<int, 256> arr; arr.fill(3);
    gil::fill_histogram(av, vec); gil::fill_histogram(av, mp);
    gil::histogram<int> sp; gil::fill_histogram(av, sp);
    std::string r = std::to_string(vec.size()) + " :";
    for (size_t i = 0; i < vec.size(); ++i) if (vec[i]) r += " " + std::to_string(i) + ":" + std::to_string(vec[i]);
    r += " |";
    for (auto const& kv : mp) r += " " + std::to_string(kv.first) + ":" + std::to_string(kv.second);
    r += " |";
    if (sizeof(C) == 1) { gil::fill_histogram(av, arr); for (size_t i = 0; i < arr.size(); ++i) if (arr[i]) r += " " + std::to_string(i) + ":" + std::to_string(arr[i]); }
    r += " | " + bins(sp);
    // accumulate: a second fill on top
    gil::fill_histogram(av, vec, true); gil::fill_histogram(av, mp, true);
    r += " |";
    for (size_t i = 0; i < vec.size(); ++i) if (vec[i]) r += " " + std::to_string(i) + ":" + std::to_string(vec[i]);
    r += " |";
    for (auto const& kv : mp) r += " " + std::to_string(kv.first) + ":" + std::to_string(kv.second);
    return r;
}
template <class Img> void vec_fill(std::vector<int>& v, std::vector<ll> const& plane, ll w, ll h, bool acc) {
    Buf<Img> a(w, h); std::vector<std::vector<ll>> g{plane}; load(a.v, g, 0); typename Img::const_view_t av(a.v);
    gil::fill_histogram(av, v, acc);
}
static std::string sv(Op const& op) {
    auto const& hd = op.head; std::string vt1 = hd[1], vt2 = hd[2]; ll w = hv::to_ll(hd[3]), h = hv::to_ll(hd[4]);
    std::vector<int> v(op.groups.at(0).begin(), op.groups.at(0).end());
    if (vt1 == "g8") vec_fill<gil::gray8_image_t>(v, op.groups.at(1), w, h, false); else if (vt1 == "g16") vec_fill<gil::gray16_image_t>(v, op.groups.at(1), w, h, false);
    if (vt2 == "g8") vec_fill<gil::gray8_image_t>(v, op.groups.at(2), w, h, true); else if (vt2 == "g16") vec_fill<gil::gray16_image_t>(v, op.groups.at(2), w, h, true); else return "bad-op";
    std::string r = std::to_string(v.size()) + " :";
    for (size_t i = 0; i < v.size(); ++i) if (v[i]) r += " " + std::to_string(i) + ":" + std::to_string(v[i]);
    return r;
}
using d2_8_img = gil::image<gil::pixel<std::uint8_t, gil::devicen_layout_t<2>>>;

#define VT_GRAY(F, ...) \
    if (vt == "g8") return F<gil::gray8_image_t>(__VA_ARGS__); if (vt == "g8s") return F<gil::gray8s_image_t>(__VA_ARGS__); \
    if (vt == "g16") return F<gil::gray16_image_t>(__VA_ARGS__); if (vt == "g16s") return F<gil::gray16s_image_t>(__VA_ARGS__);
#define VT_MULTI(F, ...) \
    if (vt == "d2_8") return F<d2_8_img>(__VA_ARGS__); if (vt == "rgb8") return F<gil::rgb8_image_t>(__VA_ARGS__); \
    if (vt == "rgb8s") return F<gil::rgb8s_image_t>(__VA_ARGS__); if (vt == "rgb16") return F<gil::rgb16_image_t>(__VA_ARGS__); \
    if (vt == "rgba8") return F<gil::rgba8_image_t>(__VA_ARGS__);
// each translation unit serves the gray view types (…_G) or the multi-channel ones (…_M) of one op family
#if defined(HALF_G)
#define VT(F, ...) VT_GRAY(F, __VA_ARGS__)
#elif defined(HALF_M)
#define VT(F, ...) VT_MULTI(F, __VA_ARGS__)
#else
#define VT(F, ...) VT_GRAY(F, __VA_ARGS__) VT_MULTI(F, __VA_ARGS__)
#endif
#define VTM(F) \
    if (vt == "d2_8") return F<d2_8_img>(op, std::integral_constant<int, 2>{}); if (vt == "rgb8") return F<gil::rgb8_image_t>(op, std::integral_constant<int, 3>{}); \
    if (vt == "rgb8s") return F<gil::rgb8s_image_t>(op, std::integral_constant<int, 3>{}); if (vt == "rgb16") return F<gil::rgb16_image_t>(op, std::integral_constant<int, 3>{}); \
    if (vt == "rgba8") return F<gil::rgba8_image_t>(op, std::integral_constant<int, 4>{});

int main() {
    return hv::run([](std::string const& line) -> std::string {
      try {
        Op op = parse(line); auto const& h = op.head;
        if (h.size() < 2) return "bad-op";
        std::string vt = h[1];
#ifdef PT_A
        if (h[0] == "fh" && h.size() == 10) { VT(by_channels_fh, op) return "bad-op"; }
        if (h[0] == "hk" && h.size() == 10) return hk(op);
#endif
#ifdef PT_B
        if (h[0] == "cu" && h.size() == 6) { VT(by_channels_cu, op) return "bad-op"; }
        if (h[0] == "no" && h.size() == 6) { VT(by_channels_no, op) return "bad-op"; }
#endif
#ifdef PT_D
        if (h[0] == "cn" && h.size() == 7) { VT(by_channels_cn, op) return "bad-op"; }
#endif
#ifdef PT_E
        if (h[0] == "ns" && h.size() == 7) { VT(by_channels_ns, op) return "bad-op"; }
#endif
#ifdef PT_F
        if (h[0] == "mk" && h.size() == 6) {
            std::string sel = h[2];
            if (vt == "g8s" && sel == "all") return mk_sel<gil::gray8s_image_t, 1>(op, std::index_sequence<>{});
            if (vt == "g16" && sel == "all") return mk_sel<gil::gray16_image_t, 1>(op, std::index_sequence<>{});
            if (vt == "d2_8" && sel == "all") return mk_sel<d2_8_img, 2>(op, std::index_sequence<>{});
            if (vt == "d2_8" && sel == "10") return mk_sel<d2_8_img, 2>(op, std::index_sequence<1, 0>{});
            if (vt == "rgb8" && sel == "all") return mk_sel<gil::rgb8_image_t, 3>(op, std::index_sequence<>{});
            if (vt == "rgb8" && sel == "20") return mk_sel<gil::rgb8_image_t, 2>(op, std::index_sequence<2, 0>{});
            if (vt == "rgb8" && sel == "1") return mk_sel<gil::rgb8_image_t, 1>(op, std::index_sequence<1>{});
            return "bad-op";
        }
        if (h[0] == "kc" && h.size() == 4) return kc(op);
#endif
#ifdef PT_C
        if (h[0] == "sa" && h.size() == 6) { VTM(sa) return "bad-op"; }
        if (h[0] == "sr" && h.size() == 8) { VTM(sr) return "bad-op"; }
        if (h[0] == "sv" && h.size() == 6) return sv(op);
        if (h[0] == "st" && h.size() == 4) { if (vt == "g8") return st<gil::gray8_image_t>(op); if (vt == "g16") return st<gil::gray16_image_t>(op); return "bad-op"; }
#endif
        return "bad-op";
      } catch (hv_assert_failure const& a) {
        std::string e; for (char ch : a.expr) if (ch != ' ') e += ch;
        return "assert:" + e;
      }
    });
}
