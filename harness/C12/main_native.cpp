// C12 correspondence harness, formats GIL encodes itself: BMP, PNM (binary), TARGA.  argv[1] = scratch directory.
// One translation unit per (format, pixel type), selected with -DC12_SEL=<n> (compiled in parallel by checks/C12.py);
// without C12_SEL everything is instantiated.
#include "c12.hpp"
#ifndef C12_SEL
#define C12_SEL 0
#endif
#if C12_SEL == 0 || C12_SEL == 1 || C12_SEL == 2
#include <boost/gil/extension/io/bmp.hpp>
#endif
#if C12_SEL == 0 || C12_SEL == 3 || C12_SEL == 4 || C12_SEL == 5
#include <boost/gil/extension/io/pnm.hpp>
#endif
#if C12_SEL == 0 || C12_SEL == 6 || C12_SEL == 7
#include <boost/gil/extension/io/targa.hpp>
#endif
using namespace c12;

int main(int argc, char** argv) {
    std::string dir = argc > 1 ? argv[1] : "/tmp";
    std::string path = dir + "/c12_native_" + std::to_string((long)getpid());
    return hv::run([&](std::string const& line) -> std::string {
        auto w = hv::words(line);
        //   reuse <fmt> <pix> <api> <dev> <pw> <ph> <k> (<w> <h> <hex>){k}: k round trips through one destination image (c12.hpp)
        if (!w.empty() && w[0] == "reuse") {
            std::string api, dev; int pw = 0, ph = 0; std::vector<step_t> steps;
            if (!parse_reuse(w, api, dev, pw, ph, steps)) return "bad-op";
            std::string const &fmt = w[1], &pix = w[2];
#define RU(F, P, TAG, IMG) if (fmt == F && pix == P) return reuse_seq<gil::TAG, gil::IMG, 1>(api, dev, pw, ph, steps, path);
#if C12_SEL == 0 || C12_SEL == 1
            RU("bmp", "rgb8", bmp_tag, rgb8_image_t)
#endif
#if C12_SEL == 0 || C12_SEL == 2
            RU("bmp", "rgba8", bmp_tag, rgba8_image_t)
#endif
#if C12_SEL == 0 || C12_SEL == 3
            RU("pnm", "gray8", pnm_tag, gray8_image_t)
#endif
#if C12_SEL == 0 || C12_SEL == 4
            RU("pnm", "rgb8", pnm_tag, rgb8_image_t)
#endif
#if C12_SEL == 0 || C12_SEL == 5
            if (fmt == "pnm" && pix.compare(0, 5, "gray1") == 0) return reuse_seq_mut<gil::pnm_tag, gil::gray1_image_t, 1>(api, dev, pw, ph, steps, path);
#endif
#if C12_SEL == 0 || C12_SEL == 6
            RU("targa", "rgb8", targa_tag, rgb8_image_t)
#endif
#if C12_SEL == 0 || C12_SEL == 7
            RU("targa", "rgba8", targa_tag, rgba8_image_t)
#endif
            return "unsupported";
        }
        //   dsts <fmt> <pix> <w> <h> <hex>   ->  <bytes via file name> | fp same|differs:<offset> | ss … | of …
        bool dsts = w.size() == 6 && w[0] == "dsts";
        if (!dsts && (w.size() != 8 || w[0] != "rt")) return "bad-op";
        std::string const &fmt = w[1], &pix = w[2], &org = w[dsts ? 1 : 3], &dev = w[dsts ? 1 : 4];
        int W = (int)hv::to_ll(w[dsts ? 3 : 5]), H = (int)hv::to_ll(w[dsts ? 4 : 6]); bytes px = unhex(w[dsts ? 5 : 7]);
#define RT(F, P, TAG, IMG, PL, ALT, ALT2) if (fmt == F && pix == P) { if (dsts) return destinations<gil::TAG, gil::IMG, 1>(W, H, px, path); \
            return round_trip<gil::TAG, gil::IMG, 1, PL, ALT, gil::TAG, ALT2>(org, dev, W, H, px, path, true); }
#if C12_SEL == 0 || C12_SEL == 1
        RT("bmp", "rgb8", bmp_tag, rgb8_image_t, gil::rgb8_planar_image_t, gil::bgr8_image_t, void)
#endif
#if C12_SEL == 0 || C12_SEL == 2
        RT("bmp", "rgba8", bmp_tag, rgba8_image_t, gil::rgba8_planar_image_t, gil::bgra8_image_t, gil::abgr8_image_t)
#endif
#if C12_SEL == 0 || C12_SEL == 3
        RT("pnm", "gray8", pnm_tag, gray8_image_t, void, void, void)
#endif
#if C12_SEL == 0 || C12_SEL == 4
        RT("pnm", "rgb8", pnm_tag, rgb8_image_t, gil::rgb8_planar_image_t, gil::bgr8_image_t, void)
#endif
#if C12_SEL == 0 || C12_SEL == 5
        // the gray1 writer overruns its row buffer for widths that are not a multiple of 8: run it in a child
        if (fmt == "pnm" && pix.compare(0, 5, "gray1") == 0)   // gray1[-w][-r]: the suffix only selects the model variant
            return guarded([&] { return dsts ? destinations<gil::pnm_tag, gil::gray1_image_t, 1>(W, H, px, path)
                                             : round_trip_plain<gil::pnm_tag, gil::gray1_image_t, 1>(org, dev, W, H, px, path, true); });
#endif
#if C12_SEL == 0 || C12_SEL == 6
        RT("targa", "rgb8", targa_tag, rgb8_image_t, gil::rgb8_planar_image_t, gil::bgr8_image_t, void)
#endif
#if C12_SEL == 0 || C12_SEL == 7
        RT("targa", "rgba8", targa_tag, rgba8_image_t, gil::rgba8_planar_image_t, gil::bgra8_image_t, gil::abgr8_image_t)
#endif
        return "unsupported";
    });
}
