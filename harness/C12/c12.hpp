// C12 harness, shared part: build a source view of a given organisation from the op line's channel
// bytes, write it with the real write_view through a given kind of destination, read the bytes back
// with the real read_image into the same pixel type, print what came out.
//
//   rt  <fmt> <pix> <org> <dev> <w> <h> <hex>   ->  <file bytes hex> | <w'> <h'> <pixels hex>
//   rtx <fmt> <pix> <org> <dev> <w> <h> <hex>   ->  ext | <w'> <h'> <pixels hex>
//   jpg <pix> <org> <dev> <w> <h> <kind> <hex> <bound>  ->  <w'> <h'> <pixels hex>
//
// org:  il interleaved image | pl planar image | sub sub-view (2,1) of a larger image (for bit-aligned
//       images: starts at a bit offset inside a byte) | step (2,2)-subsampled view of a larger image |
//       flip flipped_up_down view (negative row step) | alt other channel order (bgr / abgr layouts)
// dev:  fn file name | fp FILE* | ss std::stringstream (std::ostream / std::istream) | of std::ofstream / std::ifstream
#pragma once
#include <boost/gil.hpp>
#include <boost/mp11.hpp>
#include <boost/gil/io/read_image.hpp>
#include <boost/gil/io/read_and_convert_image.hpp>
#include <boost/gil/io/write_view.hpp>
#include "harness.hpp"
#include <fstream>
#include <sstream>
#include <sys/wait.h>
#include <unistd.h>
#include <fcntl.h>

namespace c12 {
namespace gil = boost::gil;
using bytes = std::vector<unsigned char>;

inline int hexv(char c) { return c <= '9' ? c - '0' : (c | 32) - 'a' + 10; }
inline bytes unhex(std::string const& s) {
    bytes b; if (s == "-") return b;
    for (size_t i = 0; i + 1 < s.size(); i += 2) b.push_back((unsigned char)(hexv(s[i]) * 16 + hexv(s[i + 1])));
    return b; }
inline std::string hex(unsigned char const* p, size_t n) {
    static const char* d = "0123456789abcdef"; if (!n) return "-";
    std::string s; s.reserve(2 * n);
    for (size_t i = 0; i < n; ++i) { s.push_back(d[p[i] >> 4]); s.push_back(d[p[i] & 15]); }
    return s; }
inline std::string hex(bytes const& b) { return hex(b.data(), b.size()); }
inline bytes slurp(std::string const& path) {
    std::ifstream f(path, std::ios::binary); return bytes((std::istreambuf_iterator<char>(f)), std::istreambuf_iterator<char>()); }

// ---- channel values <-> big endian bytes (CB bytes per channel)
template <typename Ch> uint64_t ch_get(Ch const& c) {
    using base_t = typename gil::base_channel_type<Ch>::type;
    if constexpr (std::is_floating_point<base_t>::value) { float f = (float)c; uint32_t u; std::memcpy(&u, &f, 4); return u; }
    else return (uint64_t)(base_t)c; }
template <typename Ref> void ch_set(Ref&& r, uint64_t v) {
    using ch_t = typename std::decay<Ref>::type;
    using base_t = typename gil::base_channel_type<ch_t>::type;
    if constexpr (std::is_floating_point<base_t>::value) { uint32_t u = (uint32_t)v; float f; std::memcpy(&f, &u, 4); r = f; }
    else { uint64_t mx = (uint64_t)(base_t)gil::channel_traits<ch_t>::max_value(); r = (base_t)(mx == ~0ull ? v : (v > mx ? v % (mx + 1) : v)); } }

template <int CB, typename View> void fill(View const& v, bytes const& px) {
    constexpr int N = gil::num_channels<View>::value; size_t i = 0;
    for (std::ptrdiff_t y = 0; y < v.height(); ++y) for (std::ptrdiff_t x = 0; x < v.width(); ++x) {
        typename View::reference p = v(x, y);
        boost::mp11::mp_for_each<boost::mp11::mp_iota_c<N>>([&](auto K) {
            uint64_t val = 0; for (int k = 0; k < CB; ++k) val = (val << 8) | (i < px.size() ? px[i] : 0), ++i;
            ch_set(gil::semantic_at_c<decltype(K)::value>(p), val); });
    } }
template <int CB, typename View> bytes dump(View const& v) {
    constexpr int N = gil::num_channels<View>::value; bytes out;
    for (std::ptrdiff_t y = 0; y < v.height(); ++y) for (std::ptrdiff_t x = 0; x < v.width(); ++x) {
        typename View::reference p = v(x, y);
        boost::mp11::mp_for_each<boost::mp11::mp_iota_c<N>>([&](auto K) {
            uint64_t val = ch_get(gil::semantic_at_c<decltype(K)::value>(p));
            for (int k = CB - 1; k >= 0; --k) out.push_back((unsigned char)(val >> (8 * k))); });
    }
    return out; }
template <typename View> void junk(View const& v) {   // surroundings of sub / stepped views
    bytes j((size_t)v.width() * v.height() * gil::num_channels<View>::value * 4);
    for (size_t i = 0; i < j.size(); ++i) j[i] = (unsigned char)(0xA5 ^ (i * 37));
    fill<1>(v, j); }

// ---- destinations
template <typename Tag> struct has_file_ptr : std::true_type {};   // tiff has no FILE* device
template <typename Tag, typename View, typename Info> bytes write_dev(std::string const& dev, View const& v, std::string const& path, Info const& info) {
    if (dev == "fn") { gil::write_view(path, v, info); return slurp(path); }
    if constexpr (has_file_ptr<Tag>::value) if (dev == "fp") { FILE* f = std::fopen(path.c_str(), "wb"); gil::write_view(f, v, info); return slurp(path); }   // the device owns and closes f
    if (dev == "of") { { std::ofstream o(path, std::ios::binary); gil::write_view(o, v, info); } return slurp(path); }
    std::stringstream ss(std::ios::in | std::ios::out | std::ios::binary); gil::write_view(ss, v, info);
    std::string s = ss.str(); return bytes(s.begin(), s.end()); }
template <typename Tag, typename Img> void read_dev(std::string const& dev, Img& out, std::string const& path, bytes const& data) {
    if (dev == "fn") { gil::read_image(path, out, Tag()); return; }
    if constexpr (has_file_ptr<Tag>::value) if (dev == "fp") { FILE* f = std::fopen(path.c_str(), "rb"); gil::read_image(f, out, Tag()); return; }
    if (dev == "of") { std::ifstream in(path, std::ios::binary); gil::read_image(in, out, Tag()); return; }
    std::stringstream in(std::string(data.begin(), data.end()), std::ios::in | std::ios::binary); gil::read_image(in, out, Tag()); }

template <typename Tag, typename Img, int CB, typename View, typename Info = Tag>
std::string write_read(std::string const& dev, View const& v, std::string const& path, bool show_bytes, Info const& info = Info()) {
    bytes file = write_dev<Tag>(dev, v, path, info);
    std::string head = show_bytes ? hex(file) : std::string("ext");
    Img back;
    try { read_dev<Tag>(dev, back, path, file); }
    catch (std::ios_base::failure const&) { return head + " | err:io"; }
    // an image far larger than the source (a mangled header field) is reported by its dimensions only
    bool huge = (long long)back.width() * back.height() > 4ll * v.width() * v.height() + 64;
    return head + " | " + std::to_string(back.width()) + " " + std::to_string(back.height()) + " " + (huge ? std::string("-") : hex(dump<CB>(gil::const_view(back)))); }

// ---- organisations = source image type x view kind:  org = [<source>-]<kind>
//   source: (none) the pixel type itself | pl planar | alt / alt2 / alt3 other channel orders (incl. the order the file stores)
//   kind:   il whole image | sub sub-view | step (2,2)-subsampled | xstep (2,1)-subsampled | flip up-down | fliplr left-right
//           (negative x step) | transp transposed | rot90 rotated 90 cw            (legacy names: pl = pl-il, alt = alt-il)
// Full = false instantiates only il / step / fliplr / transp for that source (compile time).
template <typename Tag, typename Img, int CB, typename Src, bool Full, typename Info>
std::string rt_kind(std::string const& kind, std::string const& dev, int w, int h, bytes const& px, std::string const& path, bool show_bytes, Info const& info) {
    if (kind == "il") { Src img(w, h); fill<CB>(gil::view(img), px); return write_read<Tag, Img, CB>(dev, gil::view(img), path, show_bytes, info); }
    if (kind == "step") { Src big(2 * w, 2 * h); junk(gil::view(big)); auto v = gil::subsampled_view(gil::view(big), 2, 2); fill<CB>(v, px);
        return write_read<Tag, Img, CB>(dev, v, path, show_bytes, info); }
    if (kind == "fliplr") { Src img(w, h); auto v = gil::flipped_left_right_view(gil::view(img)); fill<CB>(v, px);
        return write_read<Tag, Img, CB>(dev, v, path, show_bytes, info); }
    if (kind == "transp") { Src img(h, w); auto v = gil::transposed_view(gil::view(img)); fill<CB>(v, px);
        return write_read<Tag, Img, CB>(dev, v, path, show_bytes, info); }
    if constexpr (Full) {
        if (kind == "sub") { Src big(w + 3, h + 2); junk(gil::view(big)); auto v = gil::subimage_view(gil::view(big), 2, 1, w, h); fill<CB>(v, px);
            return write_read<Tag, Img, CB>(dev, v, path, show_bytes, info); }
        if (kind == "xstep") { Src big(2 * w, h); junk(gil::view(big)); auto v = gil::subsampled_view(gil::view(big), 2, 1); fill<CB>(v, px);
            return write_read<Tag, Img, CB>(dev, v, path, show_bytes, info); }
        if (kind == "flip") { Src img(w, h); auto v = gil::flipped_up_down_view(gil::view(img)); fill<CB>(v, px);
            return write_read<Tag, Img, CB>(dev, v, path, show_bytes, info); }
        if (kind == "rot90") { Src img(h, w); auto v = gil::rotated90cw_view(gil::view(img)); fill<CB>(v, px);
            return write_read<Tag, Img, CB>(dev, v, path, show_bytes, info); }
    }
    return "bad-org"; }

template <typename Tag, typename Img, int CB, typename Planar, typename Alt, typename Info = Tag, typename Alt2 = void, typename Alt3 = void, bool Full = true>
std::string round_trip(std::string const& org, std::string const& dev, int w, int h, bytes const& px, std::string const& path, bool show_bytes, Info const& info = Info()) {
    std::string src, kind = org;
    size_t d = org.find('-');
    if (d != std::string::npos) { src = org.substr(0, d); kind = org.substr(d + 1); }
    else if (org == "pl" || org == "alt") { src = org; kind = "il"; }
    if (src.empty()) return rt_kind<Tag, Img, CB, Img, true>(kind, dev, w, h, px, path, show_bytes, info);
    if constexpr (!std::is_void<Planar>::value) if (src == "pl") return rt_kind<Tag, Img, CB, Planar, false>(kind, dev, w, h, px, path, show_bytes, info);
    if constexpr (!std::is_void<Alt>::value) if (src == "alt") return rt_kind<Tag, Img, CB, Alt, Full>(kind, dev, w, h, px, path, show_bytes, info);
    if constexpr (!std::is_void<Alt2>::value) if (src == "alt2") return rt_kind<Tag, Img, CB, Alt2, Full>(kind, dev, w, h, px, path, show_bytes, info);
    if constexpr (!std::is_void<Alt3>::value) if (src == "alt3") return rt_kind<Tag, Img, CB, Alt3, false>(kind, dev, w, h, px, path, show_bytes, info);
    return "bad-org"; }

// the pnm writer static_asserts View == gray1_image_t::view_t: only mutable, unstepped views of a gray1 image compile
template <typename Tag, typename Img, int CB, typename Info = Tag>
std::string round_trip_plain(std::string const& org, std::string const& dev, int w, int h, bytes const& px, std::string const& path, bool show_bytes, Info const& info = Info()) {
    if (org == "il") { Img img(w, h); fill<CB>(gil::view(img), px); return write_read<Tag, Img, CB>(dev, gil::view(img), path, show_bytes, info); }
    if (org == "sub") { Img big(w + 3, h + 2); junk(gil::view(big)); auto v = gil::subimage_view(gil::view(big), 3, 1, w, h); fill<CB>(v, px);
        return write_read<Tag, Img, CB>(dev, v, path, show_bytes, info); }
    return "bad-org"; }

// dsts: the same view written through every kind of destination; the bytes through the file name, and for the others whether
// they are the same bytes (the property: the result does not depend on the destination)
template <typename Tag, typename Img, int CB>
std::string destinations(int w, int h, bytes const& px, std::string const& path) {
    Img img(w, h); fill<CB>(gil::view(img), px);
    bytes ref = write_dev<Tag>("fn", gil::view(img), path, Tag());
    std::string r = hex(ref);
    for (char const* dev : {"fp", "ss", "of"}) {
        bytes b = write_dev<Tag>(dev, gil::view(img), path, Tag());
        size_t k = 0; while (k < b.size() && k < ref.size() && b[k] == ref[k]) ++k;
        r += std::string(" | ") + dev + (b == ref ? " same" : " differs:" + std::to_string(k)); }
    return r; }

// run f in a forked child: undefined behaviour there (sanitizer abort, signal) becomes the observation `ub`
template <typename F> std::string guarded(F f) {
    int fd[2]; if (pipe(fd) != 0) return "harness-pipe-error";
    std::fflush(stdout);
    pid_t p = fork();
    if (p == 0) {
        close(fd[0]); int dn = open("/dev/null", O_WRONLY); if (dn >= 0) dup2(dn, 2);
        std::string r; try { r = f(); } catch (std::ios_base::failure const&) { r = "err:io"; } catch (std::exception const&) { r = "err:exception"; }
        size_t o = 0; while (o < r.size()) { ssize_t k = write(fd[1], r.data() + o, r.size() - o); if (k <= 0) break; o += (size_t)k; }
        _exit(0); }
    close(fd[1]); std::string r; char buf[65536]; ssize_t k;
    while ((k = read(fd[0], buf, sizeof buf)) > 0) r.append(buf, (size_t)k);
    close(fd[0]); int st = 0; waitpid(p, &st, 0);
    if (WIFEXITED(st) && WEXITSTATUS(st) == 0) return r;
    return "ub"; }

// reuse: several write_view / read round trips through ONE destination image object.
//   reuse <fmt> <pix> <api> <dev> <pw> <ph> <k> (<w> <h> <hex>){k}   ->  <w1'> <h1'> <px1> | <w2'> <h2'> <px2> | ...
// The destination starts as a pw x ph image full of junk (0 0: default-constructed); api: ri read_image | rc read_and_convert_image.
// A reader that decodes into a destination of stale dimensions writes outside the image: the whole op runs in a child (`ub`).
struct step_t { int w, h; bytes px; };
template <typename Tag, typename Img> void read_dev_api(bool conv, std::string const& dev, Img& out, std::string const& path, bytes const& data) {
    if (!conv) { read_dev<Tag>(dev, out, path, data); return; }
    if (dev == "fn") { gil::read_and_convert_image(path, out, Tag()); return; }
    if constexpr (has_file_ptr<Tag>::value) if (dev == "fp") { FILE* f = std::fopen(path.c_str(), "rb"); gil::read_and_convert_image(f, out, Tag()); return; }
    if (dev == "of") { std::ifstream in(path, std::ios::binary); gil::read_and_convert_image(in, out, Tag()); return; }
    std::stringstream in(std::string(data.begin(), data.end()), std::ios::in | std::ios::binary); gil::read_and_convert_image(in, out, Tag()); }
template <typename Tag, typename Img, int CB, typename Info = Tag>
std::string reuse_seq(std::string const& api, std::string const& dev, int pw, int ph, std::vector<step_t> const& steps, std::string const& path, Info const& info = Info()) {
    return guarded([&] {
        Img dest;
        if (pw > 0 && ph > 0) { dest.recreate(pw, ph); junk(gil::view(dest)); }
        std::string out;
        for (size_t i = 0; i < steps.size(); ++i) {
            step_t const& s = steps[i];
            Img src(s.w, s.h); fill<CB>(gil::view(src), s.px);
            bytes file = write_dev<Tag>(dev, gil::const_view(src), path, info);
            if (i) out += " | ";
            try { read_dev_api<Tag>(api == "rc", dev, dest, path, file); }
            catch (std::ios_base::failure const&) { out += "err:io"; continue; }
            bool huge = (long long)dest.width() * dest.height() > 4ll * (s.w * s.h + pw * ph) + 64;
            out += std::to_string(dest.width()) + " " + std::to_string(dest.height()) + " " + (huge ? std::string("-") : hex(dump<CB>(gil::const_view(dest)))); }
        return out; }); }
// the pnm gray1 writer only accepts the mutable view of a gray1 image
template <typename Tag, typename Img, int CB, typename Info = Tag>
std::string reuse_seq_mut(std::string const& api, std::string const& dev, int pw, int ph, std::vector<step_t> const& steps, std::string const& path, Info const& info = Info()) {
    return guarded([&] {
        Img dest;
        if (pw > 0 && ph > 0) { dest.recreate(pw, ph); junk(gil::view(dest)); }
        std::string out;
        for (size_t i = 0; i < steps.size(); ++i) {
            step_t const& s = steps[i];
            Img src(s.w, s.h); fill<CB>(gil::view(src), s.px);
            bytes file = write_dev<Tag>(dev, gil::view(src), path, info);
            if (i) out += " | ";
            try { read_dev_api<Tag>(false, dev, dest, path, file); }
            catch (std::ios_base::failure const&) { out += "err:io"; continue; }
            bool huge = (long long)dest.width() * dest.height() > 4ll * (s.w * s.h + pw * ph) + 64;
            out += std::to_string(dest.width()) + " " + std::to_string(dest.height()) + " " + (huge ? std::string("-") : hex(dump<CB>(gil::const_view(dest)))); }
        return out; }); }
// parse the tail of a reuse op
inline bool parse_reuse(std::vector<std::string> const& w, std::string& api, std::string& dev, int& pw, int& ph, std::vector<step_t>& steps) {
    if (w.size() < 11 || w[0] != "reuse") return false;
    api = w[3]; dev = w[4]; pw = std::atoi(w[5].c_str()); ph = std::atoi(w[6].c_str()); int k = std::atoi(w[7].c_str());
    if (k < 1 || w.size() != (size_t)(8 + 3 * k)) return false;
    for (int i = 0; i < k; ++i) steps.push_back(step_t{std::atoi(w[8 + 3 * i].c_str()), std::atoi(w[9 + 3 * i].c_str()), unhex(w[10 + 3 * i])});
    return true; }

}  // namespace c12
