// C12 correspondence harness, formats coded by external libraries: PNG (libpng), TIFF (libtiff), JPEG (libjpeg).
// Real round trip only (the codec libraries are a trusted ExtCodec contract).  argv[1] = scratch directory.
// One translation unit per group, selected with -DC12_SEL=<n>.
#define BOOST_GIL_IO_ENABLE_GRAY_ALPHA   // png gray+alpha support is opt-in
#include "c12.hpp"
#ifndef C12_SEL
#define C12_SEL 0
#endif
#define SEL(n) (C12_SEL == 0 || C12_SEL == n)
#if SEL(1) || SEL(2) || SEL(3)
#include <boost/gil/extension/io/png.hpp>
#endif
#if SEL(4) || SEL(5) || SEL(6) || SEL(7)
#include <boost/gil/extension/io/tiff.hpp>
namespace c12 { template <> struct has_file_ptr<gil::tiff_tag> : std::false_type {}; }
#endif
#if SEL(8)
#include <boost/gil/extension/io/jpeg.hpp>
#endif
using namespace c12;

#if SEL(4) || SEL(5) || SEL(6) || SEL(7)
// fmt = tiff[-tile16|-tile32][-lzw|-deflate|-packbits]
static bool tiff_info(std::string const& fmt, gil::image_write_info<gil::tiff_tag>& info, std::string& why) {
    if (fmt.compare(0, 4, "tiff") != 0) return false;
    info._compression = COMPRESSION_NONE;
    if (fmt.find("-lzw") != std::string::npos) info._compression = COMPRESSION_LZW;
    if (fmt.find("-deflate") != std::string::npos) info._compression = COMPRESSION_ADOBE_DEFLATE;
    if (fmt.find("-packbits") != std::string::npos) info._compression = COMPRESSION_PACKBITS;
    if (!TIFFIsCODECConfigured(info._compression)) { why = "codec-not-configured"; return false; }
    if (fmt.find("-tile16") != std::string::npos) { info._is_tiled = true; info._tile_width = 16; info._tile_length = 16; }
    if (fmt.find("-tile32") != std::string::npos) { info._is_tiled = true; info._tile_width = 32; info._tile_length = 32; }
    return true; }
#endif

int main(int argc, char** argv) {
    std::string dir = argc > 1 ? argv[1] : "/tmp";
    std::string path = dir + "/c12_ext_" + std::to_string((long)getpid()) + "_" + std::to_string(C12_SEL);
    return hv::run([&](std::string const& line) -> std::string {
        auto w = hv::words(line);
        //   reuse <fmt> <pix> <api> <dev> <pw> <ph> <k> (<w> <h> <hex>){k}: k round trips through one destination image (c12.hpp)
        if (!w.empty() && w[0] == "reuse") {
            std::string api, dev; int pw = 0, ph = 0; std::vector<step_t> steps;
            if (!parse_reuse(w, api, dev, pw, ph, steps)) return "bad-op";
            std::string const &fmt = w[1], &pix = w[2];
#define RUX(F, P, TAG, IMG, CB) if (fmt == F && pix == P) return reuse_seq<gil::TAG, gil::IMG, CB>(api, dev, pw, ph, steps, path);
#if SEL(1)
            RUX("png", "gray8", png_tag, gray8_image_t, 1)
            RUX("png", "rgb8", png_tag, rgb8_image_t, 1)
            RUX("png", "rgba8", png_tag, rgba8_image_t, 1)
#endif
#if SEL(2)
            RUX("png", "gray16", png_tag, gray16_image_t, 2)
            RUX("png", "rgb16", png_tag, rgb16_image_t, 2)
#endif
#if SEL(3)
            if (fmt == "png" && pix == "gray1") return reuse_seq_mut<gil::png_tag, gil::gray1_image_t, 1>(api, dev, pw, ph, steps, path);
#endif
#if SEL(4) || SEL(5) || SEL(6) || SEL(7)
            { gil::image_write_info<gil::tiff_tag> info; std::string why;
              if (tiff_info(fmt, info, why)) {
#define RUT(P, IMG, CB) if (pix == P) return reuse_seq<gil::tiff_tag, gil::IMG, CB, gil::image_write_info<gil::tiff_tag>>(api, dev, pw, ph, steps, path, info);
#if SEL(4)
                RUT("gray8", gray8_image_t, 1)
                RUT("rgb8", rgb8_image_t, 1)
#endif
#if SEL(5)
                RUT("gray16", gray16_image_t, 2)
                RUT("rgb16", rgb16_image_t, 2)
#endif
#if SEL(6)
                RUT("gray32f", gray32f_image_t, 4)
                RUT("cmyk8", cmyk8_image_t, 1)
#endif
#if SEL(7)
                if (pix == "gray4") return reuse_seq_mut<gil::tiff_tag, gil::gray4_image_t, 1, gil::image_write_info<gil::tiff_tag>>(api, dev, pw, ph, steps, path, info);
#endif
              } else if (!why.empty()) return why; }
#endif
#if SEL(8)
            if (fmt == "jpeg") { gil::image_write_info<gil::jpeg_tag> info(100);
                if (pix == "gray8") return reuse_seq<gil::jpeg_tag, gil::gray8_image_t, 1, gil::image_write_info<gil::jpeg_tag>>(api, dev, pw, ph, steps, path, info);
                if (pix == "rgb8") return reuse_seq<gil::jpeg_tag, gil::rgb8_image_t, 1, gil::image_write_info<gil::jpeg_tag>>(api, dev, pw, ph, steps, path, info);
                if (pix == "cmyk8") return reuse_seq<gil::jpeg_tag, gil::cmyk8_image_t, 1, gil::image_write_info<gil::jpeg_tag>>(api, dev, pw, ph, steps, path, info); }
#endif
            return "unsupported";
        }
        if (w.size() == 8 && w[0] == "rtx") {
            std::string const &fmt = w[1], &pix = w[2], &org = w[3], &dev = w[4];
            int W = (int)hv::to_ll(w[5]), H = (int)hv::to_ll(w[6]); bytes px = unhex(w[7]);
// alt / alt2 / alt3: other channel orders of the same colour space (the writers must normalise the order); Full = false: il / step / fliplr / transp only
#define RTX(F, P, TAG, IMG, CB, PL, ALT) if (fmt == F && pix == P) return round_trip<gil::TAG, gil::IMG, CB, PL, ALT, gil::TAG, void, void, false>(org, dev, W, H, px, path, false);
#define RTX3(F, P, TAG, IMG, CB, PL, ALT, ALT2, ALT3) if (fmt == F && pix == P) return round_trip<gil::TAG, gil::IMG, CB, PL, ALT, gil::TAG, ALT2, ALT3, false>(org, dev, W, H, px, path, false);
#define RTP(F, P, TAG, IMG, CB) if (fmt == F && pix == P) return round_trip_plain<gil::TAG, gil::IMG, CB>(org, dev, W, H, px, path, false);
#if SEL(1)
            RTX("png", "gray8", png_tag, gray8_image_t, 1, void, void)
            RTX("png", "rgb8", png_tag, rgb8_image_t, 1, gil::rgb8_planar_image_t, gil::bgr8_image_t)
            RTX3("png", "rgba8", png_tag, rgba8_image_t, 1, gil::rgba8_planar_image_t, gil::bgra8_image_t, gil::abgr8_image_t, gil::argb8_image_t)
            RTP("png", "ga8", png_tag, gray_alpha8_image_t, 1)
#endif
#if SEL(2)
            RTX("png", "gray16", png_tag, gray16_image_t, 2, void, void)
            RTX("png", "rgb16", png_tag, rgb16_image_t, 2, gil::rgb16_planar_image_t, gil::bgr16_image_t)
            RTX("png", "rgba16", png_tag, rgba16_image_t, 2, gil::rgba16_planar_image_t, void)
            RTP("png", "ga16", png_tag, gray_alpha16_image_t, 2)
#endif
#if SEL(3)
            RTP("png", "gray1", png_tag, gray1_image_t, 1)
            RTP("png", "gray2", png_tag, gray2_image_t, 1)
            RTP("png", "gray4", png_tag, gray4_image_t, 1)
#endif
#if SEL(4) || SEL(5) || SEL(6) || SEL(7)
            { gil::image_write_info<gil::tiff_tag> info; std::string why;
              if (tiff_info(fmt, info, why)) {
#define RTT(P, IMG, CB, PL, ALT) if (pix == P) return round_trip<gil::tiff_tag, gil::IMG, CB, PL, ALT, gil::image_write_info<gil::tiff_tag>, void, void, false>(org, dev, W, H, px, path, false, info);
#define RTT2(P, IMG, CB, PL, ALT, ALT2) if (pix == P) return round_trip<gil::tiff_tag, gil::IMG, CB, PL, ALT, gil::image_write_info<gil::tiff_tag>, ALT2, void, false>(org, dev, W, H, px, path, false, info);
#define RTTP(P, IMG) if (pix == P) return round_trip_plain<gil::tiff_tag, gil::IMG, 1>(org, dev, W, H, px, path, false, info);
#if SEL(4)
                RTT("gray8", gray8_image_t, 1, void, void)
                RTT("rgb8", rgb8_image_t, 1, gil::rgb8_planar_image_t, gil::bgr8_image_t)
#endif
#if SEL(5)
                RTT2("rgba8", rgba8_image_t, 1, gil::rgba8_planar_image_t, gil::bgra8_image_t, gil::abgr8_image_t)
                RTT("gray16", gray16_image_t, 2, void, void)
                RTT("rgb16", rgb16_image_t, 2, gil::rgb16_planar_image_t, gil::bgr16_image_t)
#endif
#if SEL(6)
                RTT("gray32", gray32_image_t, 4, void, void)
                RTT("gray32f", gray32f_image_t, 4, void, void)
                RTT("cmyk8", cmyk8_image_t, 1, void, void)
#endif
#if SEL(7)
                RTTP("gray1", gray1_image_t)
                RTTP("gray2", gray2_image_t)
                RTTP("gray4", gray4_image_t)
#endif
              } else if (!why.empty()) return why; }
#endif
            return "unsupported";
        }
#if SEL(8)
        if (w.size() == 9 && w[0] == "jpg") {
            std::string const &pix = w[1], &org = w[2], &dev = w[3];
            int W = (int)hv::to_ll(w[4]), H = (int)hv::to_ll(w[5]); bytes px = unhex(w[7]);
            gil::image_write_info<gil::jpeg_tag> info(100);     // maximum quality
            std::string r;
            if (pix == "gray8") r = round_trip<gil::jpeg_tag, gil::gray8_image_t, 1, void, void>(org, dev, W, H, px, path, false, info);
            else if (pix == "rgb8") r = round_trip<gil::jpeg_tag, gil::rgb8_image_t, 1, gil::rgb8_planar_image_t, gil::bgr8_image_t>(org, dev, W, H, px, path, false, info);
            else if (pix == "cmyk8") r = round_trip<gil::jpeg_tag, gil::cmyk8_image_t, 1, void, void>(org, dev, W, H, px, path, false, info);
            else return "unsupported";
            return r.compare(0, 6, "ext | ") == 0 ? r.substr(6) : r;
        }
#endif
        return "bad-op";
    });
}
