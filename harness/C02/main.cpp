// C02 correspondence harness: view factories of the real headers.
//
//   xf <kind> <W> <H> <PAD> <OFF> <ops> <wx> <wy>
//     kind  g8 rgb8 rgba8 rgb16 rgb32f p565 s8 | pl8 pl16 v | b1 b2 b3 b4 b6 b12
//           (s8: rgb8 source that already is a step view, x step = 2 pixels; v: virtual view, origin (PAD,OFF), step (1,1))
//     ops   `-` or '/'-separated:  U L T R C I  S<sx>,<sy>  B<x0>,<y0>,<w>,<h>   coordinate transformations
//                                  N<n>   nth_channel_view (homogeneous kinds, anywhere in the list)
//                                  K<k>   kth_channel_view<k>   (last)      X  color_converted_view with a channel-inverting converter (last)
//                                  Y      color_converted_view<value_type of the view> with the same converter (last): returns the view itself
//                                  Z<off> color_converted_view<bgr8> with a STATEFUL converter (dst colour = src colour + off mod 256; default-constructed: off = 0);
//                                         kinds with colour conversion only; any op may follow X / Z (N<n> / K<k> then act on the dereference-adaptor view)
//   xa ...  the same, but every view of the chain is built by ASSIGNMENT into an already constructed view of the result type
//           (the source view when the factory keeps the type, else a default-constructed one)
//   -> `w h | tag addr  tag addr ... | start len  start len ...`
//        a 4th group `| x y path tag0 tagp` appears iff some access path (1 row_begin(y)[x], 2 *xy_at, 3 *x_at, 4 begin()[i], 5 *at, 6 col_begin(x)[y],
//        7 a default-constructed locator ASSIGNED from xy_at(0,0) and moved by (x,y)) reads another pixel value than view(x,y)
//        tag  = identity tag decoded from the pixel read through the derived view (source pixel (x,y) holds y*W+x+1, split over channels)
//        addr = position of the derived view's x-iterator at (x,y), memory units relative to the source's first byte
//        third group: bit intervals of the arena changed by ONE write (all bits complemented) through the derived view at (wx,wy)
//   -> `assert:<function>` when a BOOST_ASSERT fires (reported through boost::assertion_failed, nothing is dereferenced)
#define BOOST_ENABLE_ASSERT_HANDLER
#include <boost/assert.hpp>
#include <stdexcept>
#include <string>
#include <cctype>
struct assert_error : std::runtime_error { using std::runtime_error::runtime_error; };
namespace boost {
static std::string short_fn(char const* f) {          // identifier before the first '(' of the pretty function name
    std::string s(f); size_t e = s.find('('); if (e == std::string::npos) e = s.size();
    size_t b = e; while (b > 0 && (std::isalnum((unsigned char)s[b - 1]) || s[b - 1] == '_')) --b;
    return s.substr(b, e - b); }
void assertion_failed(char const*, char const* fn, char const*, long) { throw assert_error(short_fn(fn)); }
void assertion_failed_msg(char const*, char const*, char const* fn, char const*, long) { throw assert_error(short_fn(fn)); }
}
#include <boost/gil.hpp>
#include "harness.hpp"
#include <iterator>
namespace gil = boost::gil;
namespace mp11 = boost::mp11;

#ifndef KGROUP
#define KGROUP 0
#endif

static const long ARENA_SIZE = 1 << 16, MID = 1 << 14, PLANE = 1 << 13;
static unsigned char ARENA[ARENA_SIZE], SNAP[ARENA_SIZE];
static unsigned char* const ORG = ARENA + MID;

// ---------------------------------------------------------------- addresses of iterators
template <class P> long long it_addr(P* p);
template <class I> long long it_addr(gil::memory_based_step_iterator<I> const& it);
template <class C, class CS> long long it_addr(gil::planar_pixel_iterator<C, CS> const& it);
template <class R> long long it_addr(gil::bit_aligned_pixel_iterator<R> const& it);
template <class D, int Dim> long long it_addr(gil::position_iterator<D, Dim> const& it);
template <class I, class F> long long it_addr(gil::dereference_iterator_adaptor<I, F> const& it);

template <class P> long long it_addr(P* p) { return (const unsigned char*)p - ORG; }
template <class I> long long it_addr(gil::memory_based_step_iterator<I> const& it) { return it_addr(it.base()); }
template <class C, class CS> long long it_addr(gil::planar_pixel_iterator<C, CS> const& it) { return it_addr(gil::at_c<0>(it)); }
template <class R> long long it_addr(gil::bit_aligned_pixel_iterator<R> const& it) {
    int off = it.bit_range().bit_offset();
    long long p = (long long)(it.bit_range().current_byte() - ORG) * 8 + off;
    return (off < 0 || off > 7) ? p + 4000000000000000LL : p; }
template <class D, int Dim> long long it_addr(gil::position_iterator<D, Dim> const& it) { return (long long)it.pos().y * 4096 + it.pos().x; }
template <class I, class F> long long it_addr(gil::dereference_iterator_adaptor<I, F> const& it) { return it_addr(it.base()); }

// ---------------------------------------------------------------- channel access
template <class C> long long chval(C const& c) { return (long long)c; }
inline long long chval(gil::float32_t const& c) { return (long long)(float)c; }
template <class C> void chflip(C&& c) { c = gil::channel_invert(c); }                 // unsigned integral channel: max - v == ~v
inline void chflip(gil::float32_t& c) { float f = c; std::uint32_t b; std::memcpy(&b, &f, 4); b = ~b; std::memcpy(&f, &b, 4); c = f; }

template <class Px> long long decode(Px const& p, int cb) {
    long long tag = 0;
    mp11::mp_for_each<mp11::mp_iota_c<gil::num_channels<Px>::value>>([&](auto K) {
        tag |= (chval(gil::semantic_at_c<decltype(K)::value>(p)) & ((1LL << cb) - 1)) << (decltype(K)::value * cb); });
    return tag;
}
// channel k of the source pixel with identity `tag` holds (tag*(2k+1)+k) mod 2^cb
template <class Ref> void encode(Ref&& p, long long tag, int cb) {
    mp11::mp_for_each<mp11::mp_iota_c<gil::num_channels<std::decay_t<Ref>>::value>>([&](auto K) {
        constexpr long long k = decltype(K)::value;
        gil::semantic_at_c<decltype(K)::value>(p) = (tag * (2 * k + 1) + k) & ((1LL << cb) - 1); });
}
template <class Ref> void flip_all(Ref&& p) {
    mp11::mp_for_each<mp11::mp_iota_c<gil::num_channels<std::decay_t<Ref>>::value>>([&](auto K) { chflip(gil::semantic_at_c<decltype(K)::value>(p)); });
}

// ---------------------------------------------------------------- virtual view / colour converter
struct coord_fn {
    using point_t = gil::point_t; using const_t = coord_fn; using value_type = gil::gray32s_pixel_t;
    using reference = value_type; using const_reference = value_type; using argument_type = point_t; using result_type = reference;
    static constexpr bool is_mutable = false;
    result_type operator()(point_t const& p) const { return value_type(std::int32_t(p.y * 4096 + p.x)); }
};
struct inv_cc {     // dst channel (by colour) = 255 - src channel
    template <class S, class D> void operator()(S const& s, D& d) const {
        gil::get_color(d, gil::red_t()) = 255 - gil::get_color(s, gil::red_t());
        gil::get_color(d, gil::green_t()) = 255 - gil::get_color(s, gil::green_t());
        gil::get_color(d, gil::blue_t()) = 255 - gil::get_color(s, gil::blue_t());
    }
};

struct off_cc {     // stateful: dst channel (by colour) = src channel + off (mod 256); a default-constructed converter is the identity
    int off = 0;
    off_cc() {}
    explicit off_cc(int o) : off(o) {}
    template <class S, class D> void operator()(S const& s, D& d) const {
        gil::get_color(d, gil::red_t()) = (unsigned char)(gil::get_color(s, gil::red_t()) + off);
        gil::get_color(d, gil::green_t()) = (unsigned char)(gil::get_color(s, gil::green_t()) + off);
        gil::get_color(d, gil::blue_t()) = (unsigned char)(gil::get_color(s, gil::blue_t()) + off);
    }
};

// ---------------------------------------------------------------- kinds
template <class Pix, int CB, bool Homog, bool CanX> struct K_inter {
    static constexpr bool virt = false, homog = Homog, canx = CanX, cank = Homog, deep = CanX; static constexpr int cb = CB;   // kth_channel_view of a packed_pixel view does not compile
    using view_t = typename gil::type_from_x_iterator<Pix*>::view_t;
    static view_t make(long W, long H, long PAD, long) { return gil::interleaved_view(W, H, (Pix*)ORG, W * (long)sizeof(Pix) + PAD); }
};
struct K_step8 {     // rgb8 pixels, the source itself has a dynamic x step of two pixels
    static constexpr bool virt = false, homog = true, canx = true, cank = true, deep = false; static constexpr int cb = 8;
    using view_t = gil::rgb8_step_view_t;
    static view_t make(long W, long H, long PAD, long) {
        using x_it = view_t::x_iterator;
        return view_t(W, H, view_t::locator(x_it((gil::rgb8_pixel_t*)ORG, 6), W * 6 + PAD)); }
};
template <class T, int CB, bool CanX> struct K_planar {
    static constexpr bool virt = false, homog = true, canx = CanX, cank = true, deep = false; static constexpr int cb = CB;
    using view_t = typename gil::type_from_x_iterator<gil::planar_pixel_iterator<T*, gil::rgb_t>>::view_t;
    static view_t make(long W, long H, long PAD, long) {
        return gil::planar_rgb_view(W, H, (T*)ORG, (T*)(ORG + PLANE), (T*)(ORG + 2 * PLANE), W * (long)sizeof(T) + PAD); }
};
template <class Img, int Bits, int CB> struct K_bit {
    static constexpr bool virt = false, homog = false, canx = false, cank = true, deep = false; static constexpr int cb = CB;
    using view_t = typename Img::view_t;
    static view_t make(long W, long H, long PAD, long OFF) {
        return view_t(W, H, typename view_t::locator(typename view_t::x_iterator(ORG, (int)OFF), W * Bits + PAD)); }
};
struct K_virtual {
    static constexpr bool virt = true, homog = false, canx = false, cank = false, deep = false; static constexpr int cb = 32;
    using loc_t = gil::virtual_2d_locator<coord_fn, false>;
    using view_t = gil::image_view<loc_t>;
    static view_t make(long W, long H, long PAD, long OFF) { return view_t(gil::point_t(W, H), loc_t(gil::point_t(PAD, OFF), gil::point_t(1, 1))); }
};
using p565_img_t = gil::packed_image3_type<std::uint16_t, 5, 6, 5, gil::rgb_layout_t>::type;

// ---------------------------------------------------------------- op list
struct Xf { char c; long a[4]; };
static std::vector<Xf> parse_xf(std::string const& s) {
    std::vector<Xf> r;
    if (s == "-") return r;
    size_t i = 0;
    while (i < s.size()) {
        size_t j = s.find('/', i); if (j == std::string::npos) j = s.size();
        std::string t = s.substr(i, j - i); Xf x{t[0], {0, 0, 0, 0}};
        int k = 0; size_t p = 1;
        while (p < t.size() && k < 4) { size_t q = t.find(',', p); if (q == std::string::npos) q = t.size(); x.a[k++] = std::strtol(t.substr(p, q - p).c_str(), nullptr, 10); p = q + 1; }
        r.push_back(x); i = j + 1;
    }
    return r;
}
static void put(std::string& s, long long v) { s += std::to_string(v); s += ' '; }

template <class K> struct Obs {
    long wx, wy; std::string out; bool assign = false;
    template <class Px> static long long tagof(Px const& px) { if constexpr (K::virt) return (long long)gil::at_c<0>(px); else return decode(px, K::cb); }
    template <class V> void operator()(V const& v, bool allow_write = true) {
        long W = v.width(), H = v.height();
        put(out, W); put(out, H); out += "| ";
        bool bad = false; long long mm[5] = {0, 0, 0, 0, 0};
        for (long y = 0; y < H; ++y) for (long x = 0; x < W; ++x) {
            typename V::value_type px = v(x, y);
            long long t0 = tagof(px);
            put(out, t0); put(out, it_addr(v.x_at(x, y)));
            // every other access path must read the same pixel value
            long long tp[7];
            { typename V::value_type q = v.row_begin(y)[x]; tp[0] = tagof(q); }
            { typename V::value_type q = *v.xy_at(x, y); tp[1] = tagof(q); }
            { typename V::value_type q = *v.x_at(x, y); tp[2] = tagof(q); }
            { typename V::value_type q = v.begin()[y * W + x]; tp[3] = tagof(q); }
            { typename V::value_type q = *v.at(x, y); tp[4] = tagof(q); }
            { typename V::value_type q = v.col_begin(x)[y]; tp[5] = tagof(q); }
            { typename V::xy_locator loc; loc = v.xy_at(0, 0); loc += typename V::point_t(x, y); typename V::value_type q = *loc; tp[6] = tagof(q); }
            for (int k = 0; k < 7 && !bad; ++k) if (tp[k] != t0) { bad = true; mm[0] = x; mm[1] = y; mm[2] = k + 1; mm[3] = t0; mm[4] = tp[k]; }
        }
        out += "| ";
        write_test(v, std::integral_constant<bool, gil::view_is_mutable<V>::value && !K::virt>(), allow_write && W > 0 && H > 0);
        if (bad) { out += "| "; for (long long q : mm) put(out, q); }
    }
    template <class V> void write_test(V const&, std::false_type, bool) {}
    template <class V> void write_test(V const& v, std::true_type, bool doit) {
        if (!doit) return;
        std::memcpy(SNAP, ARENA, ARENA_SIZE);
        flip_all(v(wx, wy));
        long long start = -1, len = 0;
        for (long i = 0; i < ARENA_SIZE; ++i) {
            unsigned d = ARENA[i] ^ SNAP[i];
            if (!d && start < 0) continue;
            for (int b = 0; b < 8; ++b) {
                long long pos = (long long)(i - MID) * 8 + b;
                if (d >> b & 1) { if (start < 0) { start = pos; len = 1; } else if (start + len == pos) ++len; else { put(out, start); put(out, len); start = pos; len = 1; } }
            }
            if (!d && start >= 0 && start + len < (long long)(i - MID) * 8) { put(out, start); put(out, len); start = -1; }
        }
        if (start >= 0) { put(out, start); put(out, len); }
        std::memcpy(ARENA, SNAP, ARENA_SIZE);
    }
};

// every factory maps the (few) view types of a kind into themselves, so the recursion is finite
template <class K, int D = 0, class V> void walk(V const& v, std::vector<Xf> const& xs, size_t i, Obs<K>& f);
// D = number of dereference-adaptor layers added so far (bounded: every layer is a new view type)
// continue on the factory's result `r`: directly, or (assign mode) on an already constructed view of its type that `r` is ASSIGNED to
template <class K, int D, class V, class R> void next(V const& v, R const& r, std::vector<Xf> const& xs, size_t i, Obs<K>& f) {
    if (!f.assign) { walk<K, D>(r, xs, i, f); return; }
    if constexpr (std::is_same<R, V>::value) { R tmp(v); tmp = r; walk<K, D>(tmp, xs, i, f); }       // previous value: the differently stepped source
    else { R tmp; tmp = r; walk<K, D>(tmp, xs, i, f); }                                              // previous value: default-constructed
}
template <class V> constexpr bool is3 = gil::num_channels<V>::value == 3;
template <class K, int D, class V> void walk(V const& v, std::vector<Xf> const& xs, size_t i, Obs<K>& f) {
    if (i == xs.size()) { f(v); return; }
    Xf const& t = xs[i];
    switch (t.c) {
    case 'U': next<K, D>(v, gil::flipped_up_down_view(v), xs, i + 1, f); break;
    case 'L': next<K, D>(v, gil::flipped_left_right_view(v), xs, i + 1, f); break;
    case 'T': next<K, D>(v, gil::transposed_view(v), xs, i + 1, f); break;
    case 'R': next<K, D>(v, gil::rotated90cw_view(v), xs, i + 1, f); break;
    case 'C': next<K, D>(v, gil::rotated90ccw_view(v), xs, i + 1, f); break;
    case 'I': next<K, D>(v, gil::rotated180_view(v), xs, i + 1, f); break;
    case 'S': next<K, D>(v, gil::subsampled_view(v, t.a[0], t.a[1]), xs, i + 1, f); break;
    case 'B': next<K, D>(v, gil::subimage_view(v, t.a[0], t.a[1], t.a[2], t.a[3]), xs, i + 1, f); break;
    case 'N':     // basic views: a re-pointed gray view (no new layer); dereference-adaptor views: one more adaptor layer (at most 2 in total)
        if constexpr (K::homog && gil::view_is_basic<V>::value) next<K, D>(v, gil::nth_channel_view(v, (int)t.a[0]), xs, i + 1, f);
        else if constexpr (K::homog && D == 1) next<K, 2>(v, gil::nth_channel_view(v, (int)t.a[0]), xs, i + 1, f);
        else f.out = "bad-op";
        break;
    case 'K':
        if constexpr (K::cank && is3<V> && D <= 1) {
            if (t.a[0] == 0) f(gil::kth_channel_view<0>(v)); else if (t.a[0] == 1) f(gil::kth_channel_view<1>(v)); else f(gil::kth_channel_view<2>(v));
        } else f.out = "bad-op";
        break;
    case 'X':     // dereference adaptor with a stateless converter; K::deep kinds continue the walk on the adaptor view
        if constexpr (K::canx && is3<V> && K::deep && D == 0) next<K, 1>(v, gil::color_converted_view<gil::bgr8_pixel_t>(v, inv_cc()), xs, i + 1, f);
        else if constexpr (K::canx && is3<V> && D == 0) f(gil::color_converted_view<gil::bgr8_pixel_t>(v, inv_cc()));
        else f.out = "bad-op";
        break;
    case 'Z':     // dereference adaptor with a STATEFUL converter
        if constexpr (K::canx && is3<V> && K::deep && D == 0) next<K, 1>(v, gil::color_converted_view<gil::bgr8_pixel_t>(v, off_cc((int)t.a[0])), xs, i + 1, f);
        else if constexpr (K::canx && is3<V> && D == 0) f(gil::color_converted_view<gil::bgr8_pixel_t>(v, off_cc((int)t.a[0])));
        else f.out = "bad-op";
        break;
    case 'Y':     // destination pixel type = the view's own value type: color_converted_view returns the source view (nothing is converted)
        if constexpr (K::canx && is3<V> && D == 0) f(gil::color_converted_view<typename V::value_type>(v, inv_cc()));
        else f.out = "bad-op";
        break;
    default: f.out = "bad-xform";
    }
}

template <class K> std::string view_op(std::vector<std::string> const& w) {
    long W = hv::to_ll(w[2]), H = hv::to_ll(w[3]), PAD = hv::to_ll(w[4]), OFF = hv::to_ll(w[5]);
    auto xs = parse_xf(w[6]);
    Obs<K> obs; obs.wx = hv::to_ll(w[7]); obs.wy = hv::to_ll(w[8]); obs.assign = (w[0] == "xa");
    std::memset(ARENA, 0, ARENA_SIZE);
    try {
        auto src = K::make(W, H, PAD, OFF);
        if constexpr (!K::virt) { for (long y = 0; y < H; ++y) for (long x = 0; x < W; ++x) encode(src(x, y), y * W + x + 1, K::cb); }
        walk<K, 0>(src, xs, 0, obs);
    } catch (assert_error const& e) { return std::string("assert:") + e.what(); }
    return obs.out;
}

using b1_t = gil::bit_aligned_image1_type<1, gil::gray_layout_t>::type;
using b2_t = gil::bit_aligned_image1_type<2, gil::gray_layout_t>::type;
using b3_t = gil::bit_aligned_image3_type<1, 1, 1, gil::rgb_layout_t>::type;
using b4_t = gil::bit_aligned_image1_type<4, gil::gray_layout_t>::type;
using b6_t = gil::bit_aligned_image3_type<2, 2, 2, gil::rgb_layout_t>::type;
using b12_t = gil::bit_aligned_image3_type<4, 4, 4, gil::rgb_layout_t>::type;

int main() {
    return hv::run([](std::string const& line) -> std::string {
        auto w = hv::words(line);
        if (w.size() == 9 && (w[0] == "xf" || w[0] == "xa")) {
            std::string const& k = w[1];
#if KGROUP == 0 || KGROUP == 1
            if (k == "g8") return view_op<K_inter<gil::gray8_pixel_t, 8, true, false>>(w);
            if (k == "rgb8") return view_op<K_inter<gil::rgb8_pixel_t, 8, true, true>>(w);
#endif
#if KGROUP == 0 || KGROUP == 2
            if (k == "rgba8") return view_op<K_inter<gil::rgba8_pixel_t, 8, true, false>>(w);
            if (k == "rgb16") return view_op<K_inter<gil::rgb16_pixel_t, 8, true, false>>(w);
#endif
#if KGROUP == 0 || KGROUP == 3
            if (k == "rgb32f") return view_op<K_inter<gil::rgb32f_pixel_t, 8, true, false>>(w);
            if (k == "p565") return view_op<K_inter<p565_img_t::value_type, 5, false, false>>(w);
#endif
#if KGROUP == 0 || KGROUP == 4
            if (k == "s8") return view_op<K_step8>(w);
            if (k == "v") return view_op<K_virtual>(w);
#endif
#if KGROUP == 0 || KGROUP == 5
            if (k == "pl8") return view_op<K_planar<std::uint8_t, 8, true>>(w);
            if (k == "pl16") return view_op<K_planar<std::uint16_t, 8, false>>(w);
#endif
#if KGROUP == 0 || KGROUP == 6
            if (k == "b1") return view_op<K_bit<b1_t, 1, 1>>(w);
            if (k == "b2") return view_op<K_bit<b2_t, 2, 2>>(w);
            if (k == "b4") return view_op<K_bit<b4_t, 4, 4>>(w);
#endif
#if KGROUP == 0 || KGROUP == 7
            if (k == "b3") return view_op<K_bit<b3_t, 3, 1>>(w);
            if (k == "b6") return view_op<K_bit<b6_t, 6, 2>>(w);
            if (k == "b12") return view_op<K_bit<b12_t, 12, 4>>(w);
#endif
            return "bad-kind";
        }
        return "bad-op";
    });
}
