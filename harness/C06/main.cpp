// C06 correspondence harness: channel_convert of the real headers, every ordered pair of channel models.
//   conv <S> <D> <s0> [<n> <step>]  ->  conv<D>(s_i) ... | conv<S>(conv<D>(s_i)) ...      s_i = s0 + i*step
// Integral channels are printed as integers; float32_t channels (type name f32) are given and printed as their
// IEEE-754 binary32 bit pattern (s_i is then the i-th bit pattern, which is monotone for floats in [0,1]).
// Packed channel *references* (names r565r r565g r565b rd3 rd7): the source value is stored into a bit field
// through the reference, the conversion reads it through the reference; as a destination the reference type is the
// template argument of channel_convert (which returns its value_type).
//
// The TU is compiled once per group of source types (-DC06_GROUP=k -DC06_NGROUPS=n) to keep ASan compile times low.
#include <boost/gil.hpp>
#include "harness.hpp"
namespace gil = boost::gil;

static float f_of(unsigned long long b) { uint32_t u = (uint32_t)b; float f; std::memcpy(&f, &u, 4); return f; }
static unsigned long long b_of(float f) { uint32_t u; std::memcpy(&u, &f, 4); return u; }

// value <-> text
template <typename C> struct io {
    using base_t = typename gil::base_channel_type<C>::type;
    static C make(long long v) { return C(base_t(v)); }
    static std::string show(C const& c) { return std::to_string((long long)(base_t)c); }
};
template <> struct io<gil::float32_t> {
    static gil::float32_t make(long long v) { return gil::float32_t(f_of((unsigned long long)v)); }
    static std::string show(gil::float32_t const& c) { return std::to_string(b_of(float(c))); }
};

// a source channel model: how to obtain an lvalue of the model holding value v
template <typename C> struct holder {
    using channel_t = C; using value_t = typename gil::channel_traits<C>::value_type;
    value_t v; explicit holder(long long x) : v(io<value_t>::make(x)) {}
    C const& get() const { return v; }
};
// static packed reference into a 16-bit field
template <int First, int Bits> struct holder<gil::packed_channel_reference<uint16_t, First, Bits, true>> {
    using channel_t = gil::packed_channel_reference<uint16_t, First, Bits, true>; using value_t = gil::packed_channel_value<Bits>;
    uint16_t field; channel_t ref;
    explicit holder(long long x) : field(0xA5C3), ref(&field) { ref = (typename channel_t::integer_t)x; }
    channel_t const& get() const { return ref; }
};
// dynamic packed reference into an 8-bit field (first bit 1)
template <int Bits> struct holder<gil::packed_dynamic_channel_reference<uint8_t, Bits, true>> {
    using channel_t = gil::packed_dynamic_channel_reference<uint8_t, Bits, true>; using value_t = gil::packed_channel_value<Bits>;
    uint8_t field[2]; channel_t ref;
    explicit holder(long long x) : field{0x5A, 0xFF}, ref(field, 1) { ref = (typename channel_t::integer_t)x; }
    channel_t const& get() const { return ref; }
};

template <typename S, typename D> std::string conv(long long s0, long long n, long long step) {
    using sv_t = typename gil::channel_traits<S>::value_type;
    using dv_t = typename gil::channel_traits<D>::value_type;
    std::string r, b;
    for (long long i = 0; i < n; ++i) {
        holder<S> h(s0 + i * step);
        dv_t d = gil::channel_convert<D>(h.get());
        sv_t back = gil::channel_convert<S>(d);
        r += io<dv_t>::show(d); r += ' ';
        b += io<sv_t>::show(back); b += ' ';
    }
    return r + "| " + b;
}

using r565r_t = gil::packed_channel_reference<uint16_t, 0, 5, true>;
using r565g_t = gil::packed_channel_reference<uint16_t, 5, 6, true>;
using r565b_t = gil::packed_channel_reference<uint16_t, 11, 5, true>;
using rd3_t = gil::packed_dynamic_channel_reference<uint8_t, 3, true>;
using rd7_t = gil::packed_dynamic_channel_reference<uint8_t, 7, true>;

// name, type, index (conversions FROM type k are instantiated by the translation unit with k % C06_NGROUPS == C06_GROUP)
#define TYPES(X) \
  X("u8", uint8_t, 0) X("u16", uint16_t, 1) X("u32", uint32_t, 2) X("i8", int8_t, 3) \
  X("i16", int16_t, 4) X("i32", int32_t, 5) X("f32", gil::float32_t, 6) X("p1", gil::packed_channel_value<1>, 7) \
  X("p2", gil::packed_channel_value<2>, 8) X("p3", gil::packed_channel_value<3>, 9) X("p4", gil::packed_channel_value<4>, 10) X("p5", gil::packed_channel_value<5>, 11) \
  X("p6", gil::packed_channel_value<6>, 12) X("p7", gil::packed_channel_value<7>, 13) X("p8", gil::packed_channel_value<8>, 14) X("p9", gil::packed_channel_value<9>, 15) \
  X("p10", gil::packed_channel_value<10>, 16) X("p11", gil::packed_channel_value<11>, 17) X("p12", gil::packed_channel_value<12>, 18) X("p13", gil::packed_channel_value<13>, 19) \
  X("p14", gil::packed_channel_value<14>, 20) X("p15", gil::packed_channel_value<15>, 21) X("p16", gil::packed_channel_value<16>, 22) X("r565r", r565r_t, 23) \
  X("r565g", r565g_t, 24) X("r565b", r565b_t, 25) X("rd3", rd3_t, 26) X("rd7", rd7_t, 27)

template <typename S> std::string conv_from(std::string const& d, long long s0, long long n, long long step) {
#define X(name, T, g) if (d == name) return conv<S, T>(s0, n, step);
    TYPES(X)
#undef X
    return "bad-op";
}

#ifndef C06_GROUP
#define C06_GROUP -1
#endif
#ifndef C06_NGROUPS
#define C06_NGROUPS 1
#endif

int main() {
    return hv::run([](std::string const& line) -> std::string {
        auto w = hv::words(line);
        if ((w.size() == 6 || w.size() == 4) && w[0] == "conv") {
            long long s0 = hv::to_ll(w[3]), n = w.size() == 6 ? hv::to_ll(w[4]) : 1, st = w.size() == 6 ? hv::to_ll(w[5]) : 1;
#define X(name, T, g) if constexpr (C06_GROUP < 0 || g % C06_NGROUPS == C06_GROUP) { if (w[1] == name) return conv_from<T>(w[2], s0, n, st); }
            TYPES(X)
#undef X
            return "not-in-group";
        }
        return "bad-op";
    });
}
