// C05 correspondence harness: how the real headers pair channels (construction, assignment, equality,
// at_c / semantic_at_c / get_color / operator[], static_* algorithms) for every ordered pair of provided layouts of
// each colour space and every pixel model.  All channel lists are in MEMORY order.
//
//   pair <cs> <T> <dm> <dl> <sm> <sl> v0 .. | w0 ..
//        source of model sm / layout sl holding v (memory order), destination dm / dl holding w
//        -> C=<dst constructed from src | -> A=<dst after dst = src> E=<dst == src afterwards> N=<dst == src before>
//           S=<src afterwards> I=<src != dst afterwards>
//        T: u8 u16 f32 (homogeneous; models V value, R reference into an interleaved buffer, P planar reference,
//           Q read-only planar reference, W planar reference bound to an interleaved pixel (dst only))
//           or a packed size set p565 p332 p4444 p5551 g4 c4444 (bits per COLOUR in colour-space order; models K packed_pixel,
//           B bit-aligned reference (bit offset 3), D read-only bit-aligned reference)
//   acc <cs> <T> <m> <l> v0 ..
//        -> at=<at_c<K>> sem=<semantic_at_c<S>> col=<get_color by colour-space order> idx=<operator[K] for every run-time K | ->
//           dyn=<dynamic_at_c(p, K) for every K | -> wr=<memory after p[K] = v[K]+1 for every K (mutable models) | -> off=<position of at_c<K>:
//           byte offset (V R), plane number (P), first bit inside the pixel (K B)>; model I = planar_pixel_iterator: at from *it,
//           sem from it[1] (second pixel = first + 1), col from *planar_pixel_iterator(&*it), off = element index 2K+1 of it[1]'s channels
//   spare <cs> <T> <dl> <sm> <sl> <raw> v0 ..
//        packed pixels whose channels do NOT fill the bit field (T: s432 = 4-3-2 bits per colour in uint16_t, s565w = 5-6-5 in uint32_t,
//        s222 = 2-2-2 in uint8_t, s5551w = 5-5-5-1 in uint32_t, sg3 = 3 in uint8_t).  dst = packed_pixel(BitField(raw)) of layout dl (spare
//        bits pre-loaded from raw), src = model sm (K packed_pixel of the same carrier, B bit-aligned reference) of layout sl holding v;
//        dst = src; same0 / same1 = pixels of dst's type with dst's colours, spare bits all 0 / all 1; other = same0 with one channel changed
//        -> A=<dst channels> F=<dst bit field> E=<dst==src> Es=<src==dst> Q0=<dst==same0> R0=<same0==dst> Q1=<dst==same1> R1=<same1==dst>
//           T=<same0==same1> N0=<dst!=same0> N1=<dst!=same1> D=<dst==other> DN=<dst!=other>
//   alg <cs> <T> <l1> <l2> v0 .. | w0 ..      (value pixels p1: layout l1 values v, p2: layout l2 values w)
//        -> fill= gen= fe1= fe2= fe3= tr1= tr2= min= max= minat= maxat= eq= cp=   (fe*, tr*, eq, cp: one result per overload / model
//           combination, joined by '/': every source mutable and const, value and planar reference; destinations value and planar)
//   alg3 <cs> <T> <l1> <l2> <l3> v0 .. | w0 .. | u0 ..   (three layouts, aliased arguments: see alg3_h)
//        -> f3a= f3b= f3c= trw= tr2= trs= fe3= fes2= fes3= eqs= cps= fillp= genp=
#include <boost/gil.hpp>
#include "harness.hpp"
#include <memory>
#include <utility>
namespace gil = boost::gil;
namespace mp11 = boost::mp11;
using std::string;

#ifndef PART
#define PART 0
#endif
#define HAS(p) (PART == 0 || PART == p)

// ---------------------------------------------------------------- names
template <typename L> struct lname;
#define LN(T, s) template <> struct lname<T> { static const char* get() { return s; } };
LN(gil::rgb_layout_t, "rgb") LN(gil::bgr_layout_t, "bgr") LN(gil::rgba_layout_t, "rgba") LN(gil::bgra_layout_t, "bgra")
LN(gil::argb_layout_t, "argb") LN(gil::abgr_layout_t, "abgr") LN(gil::cmyk_layout_t, "cmyk") LN(gil::gray_layout_t, "gray")
LN(gil::devicen_layout_t<2>, "devicen2") LN(gil::devicen_layout_t<3>, "devicen3") LN(gil::devicen_layout_t<4>, "devicen4") LN(gil::devicen_layout_t<5>, "devicen5")
template <typename T> struct tname;
template <> struct tname<std::uint8_t> { static const char* get() { return "u8"; } };
template <> struct tname<std::uint16_t> { static const char* get() { return "u16"; } };
template <> struct tname<gil::float32_t> { static const char* get() { return "f32"; } };

template <typename L> constexpr int nchan() { return (int)mp11::mp_size<typename L::color_space_t>::value; }
template <typename L> struct is_plain_layout : std::false_type {};
template <typename CS, typename M> struct is_plain_layout<gil::layout<CS, M>> : std::true_type {};
template <typename L> constexpr bool is_identity() {
    return std::is_same<typename L::channel_mapping_t, typename gil::layout<typename L::color_space_t>::channel_mapping_t>::value; }

static string show(const std::vector<double>& v) { string s; for (size_t i = 0; i < v.size(); ++i) s += (i ? "," : "") + std::to_string((long long)v[i]); return s.empty() ? "-" : s; }
static bool parse_lists(const std::vector<string>& w, size_t from, std::vector<double>& a, std::vector<double>& b) {
    bool second = false;
    for (size_t i = from; i < w.size(); ++i) { if (w[i] == "|") { second = true; continue; } (second ? b : a).push_back((double)hv::to_ll(w[i])); }
    return true;
}

// memory-order read / write through at_c
template <typename P, int... Ks> static std::vector<double> phys_(P const& p, std::integer_sequence<int, Ks...>) { return { (double)gil::at_c<Ks>(p)... }; }
template <typename P> static std::vector<double> phys(P const& p) { return phys_(p, std::make_integer_sequence<int, gil::size<P>::value>{}); }
template <typename P, int... Ks> static void put_(P& p, const std::vector<double>& v, std::integer_sequence<int, Ks...>) {
    ((gil::at_c<Ks>(p) = (typename gil::channel_type<P>::type)v[Ks]), ...); }
template <typename P> static void put(P& p, const std::vector<double>& v) { put_(p, v, std::make_integer_sequence<int, gil::size<P>::value>{}); }

// ---------------------------------------------------------------- homogeneous family
template <typename Ref, typename T> static Ref make_planar(T* pl, std::integral_constant<int, 2>) { return Ref(pl[0], pl[1]); }
template <typename Ref, typename T> static Ref make_planar(T* pl, std::integral_constant<int, 3>) { return Ref(pl[0], pl[1], pl[2]); }
template <typename Ref, typename T> static Ref make_planar(T* pl, std::integral_constant<int, 4>) { return Ref(pl[0], pl[1], pl[2], pl[3]); }
template <typename Ref, typename T> static Ref make_planar(T* pl, std::integral_constant<int, 5>) { return Ref(pl[0], pl[1], pl[2], pl[3], pl[4]); }

template <typename Dst, typename Src, typename Rd> static string assign_eq(Dst& dst, Src const& src, Rd read_dst) {
    bool before = (dst == src);
    dst = src;
    string a = show(read_dst());
    bool after = (dst == src); bool ne = (src != dst);
    return " A=" + a + " E=" + std::to_string(after) + " N=" + std::to_string(before) + " S=" + show(phys(src)) + " I=" + std::to_string(ne);
}

template <typename T, typename DL, typename SL> static string pair_h(char dm, char sm, std::vector<double> v, std::vector<double> w) {
    constexpr int n = nchan<DL>();
    using cs_t = typename DL::color_space_t;
    using dpix_t = gil::pixel<T, DL>; using spix_t = gil::pixel<T, SL>;
    using pref_t = gil::planar_pixel_reference<T&, cs_t>; using cpref_t = gil::planar_pixel_reference<T const&, cs_t>;
    if ((int)v.size() != n || (int)w.size() != n) return "bad-op";
    string out = "bad-op";
    // with the source built, run the destination model
    auto with_src = [&](auto const& src) {
        using src_t = typename std::decay<decltype(src)>::type;
        if (dm == 'V') {
            dpix_t c(src);                                    // converting constructor
            dpix_t d; put(d, w);
            out = "C=" + show(phys(c)) + assign_eq(d, src, [&] { return phys(d); });
        } else if (dm == 'R') {                               // C++ reference into an interleaved buffer
            T buf[n]; for (int i = 0; i < n; ++i) buf[i] = (T)w[i];
            auto view = gil::interleaved_view(1, 1, reinterpret_cast<dpix_t*>(buf), n * sizeof(T));
            dpix_t& d = view(0, 0);
            out = "C=-" + assign_eq(d, src, [&] { std::vector<double> r; for (int i = 0; i < n; ++i) r.push_back((double)buf[i]); return r; });
        } else if (dm == 'P') {
            if constexpr (n >= 2 && is_identity<DL>()) {      // planar reference: one plane per channel, plane k = memory slot k
                T pl[n]; for (int i = 0; i < n; ++i) pl[i] = (T)w[i];
                pref_t const d = make_planar<pref_t>(pl, std::integral_constant<int, n>{});
                out = "C=-" + assign_eq(d, src, [&] { std::vector<double> r; for (int i = 0; i < n; ++i) r.push_back((double)pl[i]); return r; });
            }
        } else if (dm == 'W') {                               // planar reference bound to the channels of an interleaved pixel of layout DL
            if constexpr (n >= 2 && is_plain_layout<DL>::value) {
                dpix_t target; put(target, w);
                pref_t const d(target);
                out = "C=-" + assign_eq(d, src, [&] { return phys(target); });
            }
        }
    };
    if (sm == 'V') { spix_t s; put(s, v); with_src(s); }
    else if (sm == 'P' || sm == 'Q') {
        if constexpr (n >= 2 && is_identity<SL>()) {
            T pl[n]; for (int i = 0; i < n; ++i) pl[i] = (T)v[i];
            if (sm == 'P') { pref_t const s = make_planar<pref_t>(pl, std::integral_constant<int, n>{}); with_src(s); }
            else { T const* cpl = pl; cpref_t const s = make_planar<cpref_t>(cpl, std::integral_constant<int, n>{}); with_src(s); }
        }
    }
    return out;
}

template <typename P, int... Ss> static std::vector<double> sem_(P const& p, std::integer_sequence<int, Ss...>) { return { (double)gil::semantic_at_c<Ss>(p)... }; }
template <typename P, typename... Cs> static std::vector<double> col_(P const& p, mp11::mp_list<Cs...>) { return { (double)gil::get_color(p, Cs())... }; }

template <typename P, int... Ks> static std::vector<double> byte_offsets_(P const& p, std::integer_sequence<int, Ks...>) {
    char const* base = reinterpret_cast<char const*>(&p);
    return { (double)(reinterpret_cast<char const*>(&gil::at_c<Ks>(p)) - base)... }; }
template <typename P, typename T, int... Ks> static std::vector<double> plane_numbers_(P const& p, T const* pl, std::integer_sequence<int, Ks...>) {
    return { (double)(&gil::at_c<Ks>(p) - pl)... }; }
template <typename T, typename L> static string acc_h(char m, std::vector<double> v) {
    constexpr int n = nchan<L>(); using cs_t = typename L::color_space_t; using pix_t = gil::pixel<T, L>;
    using idx = std::make_integer_sequence<int, n>;
    if ((int)v.size() != n) return "bad-op";
    std::vector<double> dyn, wr;
    auto fmt = [&](auto const& p, std::vector<double> ix, std::vector<double> off) {
        return "at=" + show(phys(p)) + " sem=" + show(sem_(p, idx{})) + " col=" + show(col_(p, mp11::mp_rename<cs_t, mp11::mp_list>{})) + " idx=" + show(ix)
             + " dyn=" + show(dyn) + " wr=" + show(wr) + " off=" + show(off); };
    if (m == 'V' || m == 'R') {
        T buf[n]; for (int i = 0; i < n; ++i) buf[i] = (T)v[i];               // raw memory, then read through the API
        auto view = gil::interleaved_view(1, 1, reinterpret_cast<pix_t*>(buf), n * sizeof(T));
        pix_t& r = view(0, 0); pix_t val = r;
        pix_t const& p = (m == 'V') ? val : r;
        std::vector<double> ix, off;
        for (int i = 0; i < n; ++i) { ix.push_back((double)p[i]); dyn.push_back((double)gil::detail::dynamic_at_c(p, i)); }
        off = byte_offsets_(p, idx{});
        string res = fmt(p, ix, off);
        {   // write through operator[] / dynamic_at_c with every run-time index (odd indices through dynamic_at_c), then look at raw memory
            T wbuf[n]; for (int i = 0; i < n; ++i) wbuf[i] = (T)v[i];
            auto wview = gil::interleaved_view(1, 1, reinterpret_cast<pix_t*>(wbuf), n * sizeof(T));
            pix_t& wref = wview(0, 0); pix_t wval = wref;
            pix_t& q = (m == 'V') ? wval : wref;
            for (int i = 0; i < n; ++i) { if (i % 2) gil::detail::dynamic_at_c(q, i) = (T)(v[i] + 1); else q[i] = (T)(v[i] + 1); }
            std::vector<double> w2; if (m == 'V') w2 = phys(wval); else for (int i = 0; i < n; ++i) w2.push_back((double)wbuf[i]);
            res.replace(res.find(" wr=-"), 5, " wr=" + show(w2));
        }
        return res;
    }
    if (m == 'I') {                       // planar pixel iterator: deref(), operator[] (offset constructor), iterator from &reference (pointer constructor)
        if constexpr (n >= 2 && is_identity<L>()) {
            using it_t = gil::planar_pixel_iterator<T*, cs_t>;
            T pl[n][2]; T* ptrs[n];
            for (int i = 0; i < n; ++i) { pl[i][0] = (T)v[i]; pl[i][1] = (T)(v[i] + 1); ptrs[i] = &pl[i][0]; }
            it_t it = make_planar<it_t>(ptrs, std::integral_constant<int, n>{});
            auto r0 = *it; auto r1 = it[1];
            it_t it2(&r0); auto r2 = *it2;
            std::vector<double> ix, off;
            for (int i = 0; i < n; ++i) ix.push_back((double)r0[i]);
            off = plane_numbers_(r1, &pl[0][0], idx{});
            return "at=" + show(phys(r0)) + " sem=" + show(sem_(r1, idx{})) + " col=" + show(col_(r2, mp11::mp_rename<cs_t, mp11::mp_list>{})) + " idx=" + show(ix) + " dyn=- wr=- off=" + show(off);
        }
    }
    if (m == 'P' || m == 'Q') {           // planar reference (P mutable, Q read-only): operator[] = at_c_dynamic of the colour base
        if constexpr (n >= 2 && is_identity<L>()) {
            using pref_t = gil::planar_pixel_reference<T&, cs_t>; using cpref_t = gil::planar_pixel_reference<T const&, cs_t>;
            T pl[n]; for (int i = 0; i < n; ++i) pl[i] = (T)v[i];
            if (m == 'Q') {
                T const* cpl = pl; cpref_t const p = make_planar<cpref_t>(cpl, std::integral_constant<int, n>{});
                std::vector<double> ix, off;
                for (int i = 0; i < n; ++i) { ix.push_back((double)p[i]); dyn.push_back((double)gil::detail::dynamic_at_c(p, i)); }
                off = plane_numbers_(p, cpl, idx{});
                return fmt(p, ix, off);
            }
            pref_t const p = make_planar<pref_t>(pl, std::integral_constant<int, n>{});
            std::vector<double> ix, off;
            for (int i = 0; i < n; ++i) { ix.push_back((double)p[i]); dyn.push_back((double)gil::detail::dynamic_at_c(p, i)); }
            off = plane_numbers_(p, pl, idx{});
            string res = fmt(p, ix, off);
            for (int i = 0; i < n; ++i) { if (i % 2) gil::detail::dynamic_at_c(p, i) = (T)(v[i] + 1); else p[i] = (T)(v[i] + 1); }
            std::vector<double> w2; for (int i = 0; i < n; ++i) w2.push_back((double)pl[i]);
            res.replace(res.find(" wr=-"), 5, " wr=" + show(w2));
            return res;
        }
    }
    return "bad-op";
}

struct rec1 { std::vector<double>* s; template <typename A> void operator()(A const& a) { s->push_back((double)a); } };
struct rec2 { std::vector<double>* s; template <typename A, typename B> void operator()(A const& a, B const& b) { s->push_back((double)a * 1000 + (double)b); } };
struct rec3 { std::vector<double>* s; template <typename A, typename B, typename C> void operator()(A const& a, B const& b, C const& c) { s->push_back(((double)a * 1000 + (double)b) * 1000 + (double)c); } };
template <typename T> struct counter { int* c; T operator()() { return (T)((*c)++); } };
template <typename T> struct plus1 { T operator()(T a) const { return (T)(a + 1); } };
template <typename T> struct comb { T operator()(T a, T b) const { return (T)(a * 16 + b); } };

// every static_* algorithm is called through EVERY overload of its overload set: each source as mutable l-value and as const,
// each source / destination as value pixel and (identity layouts, n >= 2) as planar reference.  Results of all combinations are
// printed, joined by '/', in a fixed order; by the Spec they are all the same.
static void add(string& acc, const std::vector<double>& v) { acc += (acc.empty() ? "" : "/") + show(v); }

template <typename T, typename L1, typename L2> static string alg_h(std::vector<double> v, std::vector<double> w) {
    constexpr int n = nchan<L1>(); using p1_t = gil::pixel<T, L1>; using p2_t = gil::pixel<T, L2>;
    using cs_t = typename L1::color_space_t; using pref_t = gil::planar_pixel_reference<T&, cs_t>;
    constexpr bool planar1 = n >= 2 && is_identity<L1>(), planar2 = n >= 2 && is_identity<L2>();
    if ((int)v.size() != n || (int)w.size() != n) return "bad-op";
    p1_t p1; put(p1, v); p2_t p2; put(p2, w); p1_t p3 = p1;
    T pl1[n], pl2[n]; for (int i = 0; i < n; ++i) { pl1[i] = (T)v[i]; pl2[i] = (T)w[i]; }
    // f(source) for every model of the first / second source, each as mutable l-value and as const
    auto both = [](auto& x, auto f) { f(x); f(std::as_const(x)); };
    auto for_p1 = [&](auto f) { both(p1, f); if constexpr (planar1) { pref_t r = make_planar<pref_t>(pl1, std::integral_constant<int, n>{}); both(r, f); } };
    auto for_p2 = [&](auto f) { both(p2, f); if constexpr (planar2) { pref_t r = make_planar<pref_t>(pl2, std::integral_constant<int, n>{}); both(r, f); } };
    // f(destination, reader) for every destination model (layout L2), freshly zeroed
    auto for_dst = [&](auto f) {
        { p2_t d; gil::static_fill(d, (T)0); f(d, [&] { return phys(d); }); }
        if constexpr (planar2) { T dp[n]; for (int i = 0; i < n; ++i) dp[i] = (T)0; pref_t d = make_planar<pref_t>(dp, std::integral_constant<int, n>{});
            f(d, [&] { std::vector<double> r; for (int i = 0; i < n; ++i) r.push_back((double)dp[i]); return r; });
            pref_t const cd = make_planar<pref_t>(dp, std::integral_constant<int, n>{}); for (int i = 0; i < n; ++i) dp[i] = (T)0;
            f(cd, [&] { std::vector<double> r; for (int i = 0; i < n; ++i) r.push_back((double)dp[i]); return r; }); }
    };
    string out, fe1, fe2, fe3, tr1, tr2, eq, cp;
    { p1_t q = p1; gil::static_fill(q, (T)7); out += "fill=" + show(phys(q)); }
    { p1_t q = p1; int c = 100; gil::static_generate(q, counter<T>{&c}); out += " gen=" + show(phys(q)); }
    for_p1([&](auto& a) { std::vector<double> s; gil::static_for_each(a, rec1{&s}); add(fe1, s); });
    for_p1([&](auto& a) { for_p2([&](auto& b) {
        { std::vector<double> s; gil::static_for_each(a, b, rec2{&s}); add(fe2, s); }
        both(p3, [&](auto& c) { std::vector<double> s; gil::static_for_each(a, b, c, rec3{&s}); add(fe3, s); });
        for_dst([&](auto& d, auto read) { gil::static_transform(a, b, d, comb<T>{}); add(tr2, read()); });
        eq += (eq.empty() ? "" : "/") + std::to_string(gil::static_equal(a, b));
    }); });
    for_p1([&](auto& a) {
        for_dst([&](auto& d, auto read) { gil::static_transform(a, d, plus1<T>{}); add(tr1, read()); });
        { p2_t d = p2; gil::static_copy(a, d); add(cp, phys(d)); }
        if constexpr (planar2) { T dp[n]; for (int i = 0; i < n; ++i) dp[i] = (T)w[i]; pref_t d = make_planar<pref_t>(dp, std::integral_constant<int, n>{});
            gil::static_copy(a, d); std::vector<double> r; for (int i = 0; i < n; ++i) r.push_back((double)dp[i]); add(cp, r); }
    });
    out += " fe1=" + fe1 + " fe2=" + fe2 + " fe3=" + fe3 + " tr1=" + tr1 + " tr2=" + tr2;
    { p1_t const c1 = p1; out += " min=" + std::to_string((long long)gil::static_min(c1)) + " max=" + std::to_string((long long)gil::static_max(c1));
      p1_t q = p1; T& mn = gil::static_min(q); T& mx = gil::static_max(q);
      out += " minat=" + std::to_string((long long)(&mn - &gil::at_c<0>(q))) + " maxat=" + std::to_string((long long)(&mx - &gil::at_c<0>(q))); }
    out += " eq=" + eq + " cp=" + cp;
    return out;
}

#if HAS(8) || HAS(9)
// alg3: THREE layouts (first source L1 holding v, second source L2 holding w, destination / third colour base L3 holding u), every
// combination including equal types for any subset, every const / mutable overload, value and planar-reference models, and ALIASED
// arguments (the destination IS the first source, IS the second source, the two sources are one object, all three are one object).
//   tr2: static_transform(a, b, d): d fresh (every destination model of L3); if L1 == L3 also d = a (accumulate in place: value pixel and
//        planar reference, first source passed as mutable and as const view of the same object); if L2 == L3 also d = b
//   trs: (L1 == L2) both sources are the SAME object (4 const combinations), d fresh; if also L3 == L1 all three the same object
//   fe3: static_for_each(a, b, c) for every model / constness of the three
//   only when L1 == L2 == L3: fes2 / fes3 static_for_each(x, x) / (x, x, x), eqs static_equal(x, x), cps static_copy(x, x),
//        fillp / genp static_fill / static_generate on a planar reference (mutable and const reference object)
//   f3a / f3b / f3c: static_for_each(x, b, x) (L1 == L3) / (a, y, y) (L2 == L3) / (x, x, c) (L1 == L2): two of the three are ONE object
//   trw: (L1 == L3) static_transform(acc, b, d) with d a planar reference bound to the channels of the value pixel acc
template <typename T, typename L1, typename L2, typename L3> static string alg3_h(std::vector<double> v, std::vector<double> w, std::vector<double> u) {
    constexpr int n = nchan<L1>(); using p1_t = gil::pixel<T, L1>; using p2_t = gil::pixel<T, L2>; using p3_t = gil::pixel<T, L3>;
    using cs_t = typename L1::color_space_t; using pref_t = gil::planar_pixel_reference<T&, cs_t>;
    using N = std::integral_constant<int, n>;
    constexpr bool planar1 = n >= 2 && is_identity<L1>(), planar2 = n >= 2 && is_identity<L2>(), planar3 = n >= 2 && is_identity<L3>();
    constexpr bool same12 = std::is_same<L1, L2>::value, same13 = std::is_same<L1, L3>::value, same23 = std::is_same<L2, L3>::value;
    if ((int)v.size() != n || (int)w.size() != n || (int)u.size() != n) return "bad-op";
    p1_t p1; put(p1, v); p2_t p2; put(p2, w); p3_t p3; put(p3, u);
    T pl1[n], pl2[n], pl3[n]; for (int i = 0; i < n; ++i) { pl1[i] = (T)v[i]; pl2[i] = (T)w[i]; pl3[i] = (T)u[i]; }
    auto rd = [&](T const* dp) { std::vector<double> r; for (int i = 0; i < n; ++i) r.push_back((double)dp[i]); return r; };
    auto load = [&](T* dp, const std::vector<double>& x) { for (int i = 0; i < n; ++i) dp[i] = (T)x[i]; };
    auto both = [](auto& x, auto f) { f(x); f(std::as_const(x)); };
    auto for_p1 = [&](auto f) { both(p1, f); if constexpr (planar1) { pref_t r = make_planar<pref_t>(pl1, N{}); both(r, f); } };
    auto for_p2 = [&](auto f) { both(p2, f); if constexpr (planar2) { pref_t r = make_planar<pref_t>(pl2, N{}); both(r, f); } };
    auto for_p3 = [&](auto f) { both(p3, f); if constexpr (planar3) { pref_t r = make_planar<pref_t>(pl3, N{}); both(r, f); } };
    auto for_dst = [&](auto f) {
        { p3_t d; gil::static_fill(d, (T)0); f(d, [&] { return phys(d); }); }
        if constexpr (planar3) { T dp[n]; for (int i = 0; i < n; ++i) dp[i] = (T)0; pref_t d = make_planar<pref_t>(dp, N{});
            f(d, [&] { return rd(dp); });
            pref_t const cd = make_planar<pref_t>(dp, N{}); for (int i = 0; i < n; ++i) dp[i] = (T)0;
            f(cd, [&] { return rd(dp); }); }
    };
    string tr2, trs, fe3, fes2, fes3, eqs, cps, fillp, genp;
    for_p1([&](auto& a) { for_p2([&](auto& b) {
        for_dst([&](auto& d, auto read) { gil::static_transform(a, b, d, comb<T>{}); add(tr2, read()); });
        for_p3([&](auto& c) { std::vector<double> s; gil::static_for_each(a, b, c, rec3{&s}); add(fe3, s); });
    }); });
    if constexpr (same13) for_p2([&](auto& b) {                 // the destination IS the first source
        { p1_t acc = p1; gil::static_transform(acc, b, acc, comb<T>{}); add(tr2, phys(acc)); }
        { p1_t acc = p1; gil::static_transform(std::as_const(acc), b, acc, comb<T>{}); add(tr2, phys(acc)); }
        if constexpr (planar1) {
            { T dp[n]; load(dp, v); pref_t r = make_planar<pref_t>(dp, N{}); gil::static_transform(r, b, r, comb<T>{}); add(tr2, rd(dp)); }
            { T dp[n]; load(dp, v); pref_t r = make_planar<pref_t>(dp, N{}); gil::static_transform(std::as_const(r), b, r, comb<T>{}); add(tr2, rd(dp)); }
        }
    });
    if constexpr (same23) for_p1([&](auto& a) {                 // the destination IS the second source
        { p2_t acc = p2; gil::static_transform(a, acc, acc, comb<T>{}); add(tr2, phys(acc)); }
        { p2_t acc = p2; gil::static_transform(a, std::as_const(acc), acc, comb<T>{}); add(tr2, phys(acc)); }
        if constexpr (planar2) {
            { T dp[n]; load(dp, w); pref_t r = make_planar<pref_t>(dp, N{}); gil::static_transform(a, r, r, comb<T>{}); add(tr2, rd(dp)); }
            { T dp[n]; load(dp, w); pref_t r = make_planar<pref_t>(dp, N{}); gil::static_transform(a, std::as_const(r), r, comb<T>{}); add(tr2, rd(dp)); }
        }
    });
    auto four = [](auto& x, auto g) { g(x, x); g(std::as_const(x), x); g(x, std::as_const(x)); g(std::as_const(x), std::as_const(x)); };
    auto own1 = [&](auto f) { f(p1); if constexpr (planar1) { pref_t r = make_planar<pref_t>(pl1, N{}); f(r); } };
    if constexpr (same12) {
        own1([&](auto& x) { four(x, [&](auto& s1, auto& s2) {   // the two sources are ONE object
            for_dst([&](auto& d, auto read) { gil::static_transform(s1, s2, d, comb<T>{}); add(trs, read()); }); }); });
        if constexpr (same13) {                                 // all three are one object
            auto selfv = [&](auto g) { p1_t acc = p1; g(acc); add(trs, phys(acc)); };
            selfv([&](auto& x) { gil::static_transform(x, x, x, comb<T>{}); });
            selfv([&](auto& x) { gil::static_transform(std::as_const(x), x, x, comb<T>{}); });
            selfv([&](auto& x) { gil::static_transform(x, std::as_const(x), x, comb<T>{}); });
            selfv([&](auto& x) { gil::static_transform(std::as_const(x), std::as_const(x), x, comb<T>{}); });
            if constexpr (planar1) {
                auto selfp = [&](auto g) { T dp[n]; load(dp, v); pref_t r = make_planar<pref_t>(dp, N{}); g(r); add(trs, rd(dp)); };
                selfp([&](auto& x) { gil::static_transform(x, x, x, comb<T>{}); });
                selfp([&](auto& x) { gil::static_transform(std::as_const(x), x, x, comb<T>{}); });
                selfp([&](auto& x) { gil::static_transform(x, std::as_const(x), x, comb<T>{}); });
                selfp([&](auto& x) { gil::static_transform(std::as_const(x), std::as_const(x), x, comb<T>{}); });
            }
        }
    }
    if constexpr (same12 && same13) {
        own1([&](auto& x) {
            four(x, [&](auto& s1, auto& s2) {
                { std::vector<double> s; gil::static_for_each(s1, s2, rec2{&s}); add(fes2, s); }
                both(x, [&](auto& s3) { std::vector<double> s; gil::static_for_each(s1, s2, s3, rec3{&s}); add(fes3, s); });
                eqs += (eqs.empty() ? "" : "/") + std::to_string(gil::static_equal(s1, s2));
            });
        });
        { p1_t acc = p1; gil::static_copy(acc, acc); add(cps, phys(acc)); }
        { p1_t acc = p1; gil::static_copy(std::as_const(acc), acc); add(cps, phys(acc)); }
        if constexpr (planar1) {
            { T dp[n]; load(dp, v); pref_t r = make_planar<pref_t>(dp, N{}); gil::static_copy(r, r); add(cps, rd(dp)); }
            { T dp[n]; load(dp, v); pref_t r = make_planar<pref_t>(dp, N{}); gil::static_copy(std::as_const(r), r); add(cps, rd(dp)); }
            { T dp[n]; load(dp, v); pref_t r = make_planar<pref_t>(dp, N{}); gil::static_fill(r, (T)7); add(fillp, rd(dp)); }
            { T dp[n]; load(dp, v); pref_t const r = make_planar<pref_t>(dp, N{}); gil::static_fill(r, (T)7); add(fillp, rd(dp)); }
            { T dp[n]; load(dp, v); pref_t r = make_planar<pref_t>(dp, N{}); int c = 100; gil::static_generate(r, counter<T>{&c}); add(genp, rd(dp)); }
            { T dp[n]; load(dp, v); pref_t const r = make_planar<pref_t>(dp, N{}); int c = 100; gil::static_generate(r, counter<T>{&c}); add(genp, rd(dp)); }
        }
    }
    // partially aliased three-base static_for_each: (x, b, x) / (a, y, y) / (x, x, c), first-and-third etc. the SAME object (4 const combinations)
    string f3a, f3b, f3c, trw;
    auto own2 = [&](auto f) { f(p2); if constexpr (planar2) { pref_t r = make_planar<pref_t>(pl2, N{}); f(r); } };
    if constexpr (same13) for_p2([&](auto& b) { own1([&](auto& x) { four(x, [&](auto& s1, auto& s3) {
        std::vector<double> s; gil::static_for_each(s1, b, s3, rec3{&s}); add(f3a, s); }); }); });
    if constexpr (same23) for_p1([&](auto& a) { own2([&](auto& y) { four(y, [&](auto& s2, auto& s3) {
        std::vector<double> s; gil::static_for_each(a, s2, s3, rec3{&s}); add(f3b, s); }); }); });
    if constexpr (same12) for_p3([&](auto& c) { own1([&](auto& x) { four(x, [&](auto& s1, auto& s2) {
        std::vector<double> s; gil::static_for_each(s1, s2, c, rec3{&s}); add(f3c, s); }); }); });
    // the destination is a planar reference BOUND to the channels of the first source (a value pixel of layout L1, any channel order):
    // another type and another memory order than the source it aliases
    if constexpr (same13 && n >= 2 && is_plain_layout<L1>::value) for_p2([&](auto& b) {
        { p1_t acc = p1; pref_t const d(acc); gil::static_transform(acc, b, d, comb<T>{}); add(trw, phys(acc)); }
        { p1_t acc = p1; pref_t d(acc); gil::static_transform(std::as_const(acc), b, d, comb<T>{}); add(trw, phys(acc)); }
    });
    auto dash = [](const string& x) { return x.empty() ? string("-") : x; };
    return "f3a=" + dash(f3a) + " f3b=" + dash(f3b) + " f3c=" + dash(f3c) + " trw=" + dash(trw) + " tr2=" + tr2 + " trs=" + dash(trs) + " fe3=" + fe3 + " fes2=" + dash(fes2) + " fes3=" + dash(fes3) + " eqs=" + dash(eqs)
         + " cps=" + dash(cps) + " fillp=" + dash(fillp) + " genp=" + dash(genp);
}
#endif
// ---------------------------------------------------------------- packed / bit-aligned family
// bits per colour (colour-space order) -> ChannelBitSizes in memory order for layout L
template <typename L, typename SizesByColour> struct phys_sizes {
    using mapping = typename L::channel_mapping_t;
    template <typename K> using at = mp11::mp_at<SizesByColour, mp11::mp_find<mapping, std::integral_constant<int, (int)K::value>>>;
    using type = mp11::mp_transform<at, mp11::mp_iota_c<mp11::mp_size<mapping>::value>>;
};
template <typename L, typename SizesByColour> struct PK {
    using sizes = typename phys_sizes<L, SizesByColour>::type;
    static constexpr int bits = mp11::mp_fold<SizesByColour, std::integral_constant<int, 0>, mp11::mp_plus>::value;
    using pbf_t = typename gil::detail::min_fast_uint<bits>::type;
    using bbf_t = typename gil::detail::min_fast_uint<bits + 7>::type;
    using packed_t = typename gil::packed_pixel_type<pbf_t, sizes, L>::type;
    using bref_t = gil::bit_aligned_pixel_reference<bbf_t, sizes, L, true>;
    using cbref_t = gil::bit_aligned_pixel_reference<bbf_t, sizes, L, false>;
    static constexpr int n = (int)mp11::mp_size<sizes>::value;
    using idx = std::make_integer_sequence<int, n>;
};
template <typename P, int... Ks> static std::vector<double> pphys_(P const& p, std::integer_sequence<int, Ks...>) { return { (double)(unsigned long long)gil::at_c<Ks>(p).get()... }; }
template <typename P, int... Ks> static void pput_(P& p, const std::vector<double>& v, std::integer_sequence<int, Ks...>) {
    ((gil::at_c<Ks>(p) = (typename std::decay<decltype(gil::at_c<Ks>(p))>::type::integer_t)v[Ks]), ...); }

template <typename Sz, typename DL, typename SL> static string pair_p(char dm, char sm, std::vector<double> v, std::vector<double> w) {
    using D = PK<DL, Sz>; using S = PK<SL, Sz>; constexpr int n = D::n;
    if ((int)v.size() != n || (int)w.size() != n) return "bad-op";
    string out = "bad-op";
    auto tail = [&](auto& dst, auto const& src) {
        bool before = (dst == src);
        dst = src;
        string a = show(pphys_(dst, typename D::idx{}));
        bool after = (dst == src); bool ne = (src != dst);
        return " A=" + a + " E=" + std::to_string(after) + " N=" + std::to_string(before) + " S=" + show(pphys_(src, typename S::idx{})) + " I=" + std::to_string(ne);
    };
    auto with_src = [&](auto const& src) {
        if (dm == 'K') {
            typename D::packed_t c(src);
            typename D::packed_t d; pput_(d, w, typename D::idx{});
            out = "C=" + show(pphys_(c, typename D::idx{})) + tail(d, src);
        } else if (dm == 'B') {
            std::unique_ptr<unsigned char[]> buf(new unsigned char[(3 + D::bits + 7) / 8]());
            typename D::bref_t const d(buf.get(), 3); pput_(d, w, typename D::idx{});
            out = "C=-" + tail(d, src);
        }
    };
    if (sm == 'K') { typename S::packed_t s; pput_(s, v, typename S::idx{}); with_src(s); }
    else if (sm == 'B' || sm == 'D') {
        std::unique_ptr<unsigned char[]> buf(new unsigned char[(5 + S::bits + 7) / 8]());
        typename S::bref_t const s(buf.get(), 5); pput_(s, v, typename S::idx{});
        if (sm == 'B') with_src(s); else { typename S::cbref_t const cs(buf.get(), 5); with_src(cs); }
    }
    return out;
}
template <typename P, int... Ss> static std::vector<double> psem_(P const& p, std::integer_sequence<int, Ss...>) { return { (double)(unsigned long long)gil::semantic_at_c<Ss>(p).get()... }; }
template <typename P, typename... Cs> static std::vector<double> pcol_(P const& p, mp11::mp_list<Cs...>) { return { (double)(unsigned long long)gil::get_color(p, Cs()).get()... }; }
template <typename P, int... Ks> static std::vector<double> first_bits_(P const& p, std::integer_sequence<int, Ks...>) { return { (double)gil::at_c<Ks>(p).first_bit()... }; }
template <typename P, int... Ks> static std::vector<double> bit_positions_(P const& p, unsigned char const* base, long start, std::integer_sequence<int, Ks...>) {
    return { (double)((static_cast<unsigned char const*>(&gil::at_c<Ks>(p)) - base) * 8 + (long)gil::at_c<Ks>(p).first_bit() - start)... }; }
template <typename Sz, typename L> static string acc_p(char m, std::vector<double> v) {
    using K = PK<L, Sz>; constexpr int n = K::n; using cs_t = typename L::color_space_t;
    if ((int)v.size() != n) return "bad-op";
    auto fmt = [&](auto const& p, std::vector<double> off) {
        std::vector<double> sem = psem_(p, typename K::idx{}), col = pcol_(p, mp11::mp_rename<cs_t, mp11::mp_list>{});
        return "at=" + show(pphys_(p, typename K::idx{})) + " sem=" + show(sem) + " col=" + show(col) + " idx=- dyn=- wr=- off=" + show(off); };
    if (m == 'K') {
        typename K::packed_t p; pput_(p, v, typename K::idx{});
        return fmt(p, first_bits_(p, typename K::idx{}));
    }
    if (m == 'B') {
        std::unique_ptr<unsigned char[]> buf(new unsigned char[(3 + K::bits + 7) / 8]());
        typename K::bref_t const p(buf.get(), 3); pput_(p, v, typename K::idx{});
        return fmt(p, bit_positions_(p, buf.get(), 3, typename K::idx{}));
    }
    return "bad-op";
}

// packed pixels with SPARE bits: explicit carrier BF wider than the channels
template <typename BF, typename Sz, typename DL, typename SL> static string spare_op(char sm, unsigned long long raw, std::vector<double> v) {
    using dsz = typename phys_sizes<DL, Sz>::type; using ssz = typename phys_sizes<SL, Sz>::type;
    using dpix_t = typename gil::packed_pixel_type<BF, dsz, DL>::type; using spix_t = typename gil::packed_pixel_type<BF, ssz, SL>::type;
    constexpr int n = (int)mp11::mp_size<dsz>::value; constexpr int bits = mp11::mp_fold<Sz, std::integral_constant<int, 0>, mp11::mp_plus>::value;
    using bbf_t = typename gil::detail::min_fast_uint<bits + 7>::type;
    using bref_t = gil::bit_aligned_pixel_reference<bbf_t, ssz, SL, true>;
    using idx = std::make_integer_sequence<int, n>;
    if ((int)v.size() != n) return "bad-op";
    string out = "bad-op";
    auto with_src = [&](auto const& src) {
        dpix_t d{BF(raw)};                               // raw bits, e.g. a word read from a frame buffer
        d = src;
        std::vector<double> a = pphys_(d, idx{});
        dpix_t same0{BF(0)}; pput_(same0, a, idx{});      // dst's colours, spare bits 0
        dpix_t same1{BF(~BF(0))}; pput_(same1, a, idx{}); // dst's colours, spare bits 1
        dpix_t other = same0; std::vector<double> b = a; b[n - 1] = (double)(((unsigned long long)a[n - 1]) ^ 1ull); pput_(other, b, idx{});
        out = "A=" + show(a) + " F=" + std::to_string((unsigned long long)d._bitfield)
            + " E=" + std::to_string(d == src) + " Es=" + std::to_string(src == d)
            + " Q0=" + std::to_string(d == same0) + " R0=" + std::to_string(same0 == d) + " Q1=" + std::to_string(d == same1) + " R1=" + std::to_string(same1 == d)
            + " T=" + std::to_string(same0 == same1) + " N0=" + std::to_string(d != same0) + " N1=" + std::to_string(d != same1)
            + " D=" + std::to_string(d == other) + " DN=" + std::to_string(d != other);
    };
    if (sm == 'K') { spix_t s{BF(0)}; pput_(s, v, idx{}); with_src(s); }
    else if (sm == 'B') {
        std::unique_ptr<unsigned char[]> buf(new unsigned char[(5 + bits + 7) / 8]());
        bref_t const s(buf.get(), 5); pput_(s, v, idx{}); with_src(s);
    }
    return out;
}
// ---------------------------------------------------------------- dispatch
using rgb_ls = mp11::mp_list<gil::rgb_layout_t, gil::bgr_layout_t>;
using rgba_ls = mp11::mp_list<gil::rgba_layout_t, gil::bgra_layout_t, gil::argb_layout_t, gil::abgr_layout_t>;
using cmyk_ls = mp11::mp_list<gil::cmyk_layout_t>; using gray_ls = mp11::mp_list<gil::gray_layout_t>;
using dn2_ls = mp11::mp_list<gil::devicen_layout_t<2>>; using dn3_ls = mp11::mp_list<gil::devicen_layout_t<3>>;
using dn4_ls = mp11::mp_list<gil::devicen_layout_t<4>>; using dn5_ls = mp11::mp_list<gil::devicen_layout_t<5>>;
using all_types = mp11::mp_list<std::uint8_t, std::uint16_t, gil::float32_t>;
#ifdef TSEL              // compile one channel type only (the parts are built in parallel)
using types = mp11::mp_list<mp11::mp_at_c<all_types, TSEL>>;
#else
using types = all_types;
#endif
#ifndef PSEL
#define PSEL -1
#endif
template <unsigned... S> using sz = mp11::mp_list<std::integral_constant<unsigned, S>...>;

template <typename Ls, typename Fn> static void for_layout_pairs(const string& a, const string& b, Fn&& fn) {
    mp11::mp_for_each<mp11::mp_product<mp11::mp_list, Ls, Ls>>([&](auto pr) {
        using A = mp11::mp_first<decltype(pr)>; using B = mp11::mp_second<decltype(pr)>;
        if (a == lname<A>::get() && b == lname<B>::get()) fn(A{}, B{});
    });
}
template <typename Fn> static void for_type(const string& t, Fn&& fn) {
    mp11::mp_for_each<types>([&](auto x) { if (t == tname<decltype(x)>::get()) fn(x); });
}

template <typename BF, typename Ls, typename Sz> static string spare(const std::vector<string>& w) {
    string out = "bad-op"; std::vector<double> a, b;
    if (w.size() > 7) {
        parse_lists(w, 7, a, b);
        for_layout_pairs<Ls>(w[3], w[5], [&](auto dl, auto sl) { out = spare_op<BF, Sz, decltype(dl), decltype(sl)>(w[4][0], hv::to_ull(w[6]), a); });
    }
    return out;
}

template <typename Ls> static string homog(const std::vector<string>& w) {
    string out = "bad-op"; std::vector<double> a, b;
    if (w[0] == "pair" && w.size() > 7) {
        parse_lists(w, 7, a, b);
        for_type(w[2], [&](auto t) { for_layout_pairs<Ls>(w[4], w[6], [&](auto dl, auto sl) {
            out = pair_h<decltype(t), decltype(dl), decltype(sl)>(w[3][0], w[5][0], a, b); }); });
    } else if (w[0] == "acc" && w.size() > 5) {
        parse_lists(w, 5, a, b);
        for_type(w[2], [&](auto t) { for_layout_pairs<Ls>(w[4], w[4], [&](auto l, auto) { out = acc_h<decltype(t), decltype(l)>(w[3][0], a); }); });
    }
    return out;
}
template <typename Ls> static string algs(const std::vector<string>& w) {
    string out = "bad-op"; std::vector<double> a, b;
    if (w.size() > 5) {
        parse_lists(w, 5, a, b);
        for_type(w[2], [&](auto t) { for_layout_pairs<Ls>(w[3], w[4], [&](auto l1, auto l2) { out = alg_h<decltype(t), decltype(l1), decltype(l2)>(a, b); }); });
    }
    return out;
}
#if HAS(8) || HAS(9)
#ifndef L3SEL
#define L3SEL -1
#endif
template <typename Ls> static string algs3(const std::vector<string>& w) {
    string out = "bad-op"; std::vector<string> rest(w.begin() + 6, w.end());
    std::vector<double> a, b, c;
    { int k = 0; for (auto& x : rest) { if (x == "|") { ++k; continue; } (k == 0 ? a : k == 1 ? b : c).push_back((double)hv::to_ll(x)); } }
#if L3SEL >= 0
    using L3s = mp11::mp_list<mp11::mp_at_c<Ls, L3SEL>>;
#else
    using L3s = Ls;
#endif
    for_type(w[2], [&](auto t) { for_layout_pairs<Ls>(w[3], w[4], [&](auto l1, auto l2) {
        mp11::mp_for_each<L3s>([&](auto l3) { if (w[5] == lname<decltype(l3)>::get()) out = alg3_h<decltype(t), decltype(l1), decltype(l2), decltype(l3)>(a, b, c); }); }); });
    return out;
}
#endif
template <typename Ls, typename Sz> static string packed(const std::vector<string>& w) {
    string out = "bad-op"; std::vector<double> a, b;
    if (w[0] == "pair" && w.size() > 7) {
        parse_lists(w, 7, a, b);
        for_layout_pairs<Ls>(w[4], w[6], [&](auto dl, auto sl) { out = pair_p<Sz, decltype(dl), decltype(sl)>(w[3][0], w[5][0], a, b); });
    } else if (w[0] == "acc" && w.size() > 5) {
        parse_lists(w, 5, a, b);
        for_layout_pairs<Ls>(w[4], w[4], [&](auto l, auto) { out = acc_p<Sz, decltype(l)>(w[3][0], a); });
    }
    return out;
}

int main() {
    return hv::run([](std::string const& line) -> std::string {
        auto w = hv::words(line);
        if (w.size() < 5) return "bad-op";
        const string& cs = w[1]; const string& t = w[2];
        if (w[0] == "spare") {
#if HAS(6)
            if (cs == "rgb" && t == "s432") return spare<std::uint16_t, rgb_ls, sz<4, 3, 2>>(w);
            if (cs == "rgb" && t == "s565w") return spare<std::uint32_t, rgb_ls, sz<5, 6, 5>>(w);
            if (cs == "rgb" && t == "s222") return spare<std::uint8_t, rgb_ls, sz<2, 2, 2>>(w);
            if (cs == "gray" && t == "sg3") return spare<std::uint8_t, gray_ls, sz<3>>(w);
#endif
#if HAS(7)
            if (cs == "rgba" && t == "s5551w") return spare<std::uint32_t, rgba_ls, sz<5, 5, 5, 1>>(w);
#endif
            return "bad-op";
        }
        if (w[0] == "alg3") {
            if (w.size() < 7) return "bad-op";
#if HAS(8)
            if (cs == "rgb") return algs3<rgb_ls>(w); if (cs == "cmyk") return algs3<cmyk_ls>(w); if (cs == "gray") return algs3<gray_ls>(w);
            if (cs == "devicen2") return algs3<dn2_ls>(w); if (cs == "devicen3") return algs3<dn3_ls>(w);
            if (cs == "devicen4") return algs3<dn4_ls>(w); if (cs == "devicen5") return algs3<dn5_ls>(w);
#endif
#if HAS(9)
            if (cs == "rgba") return algs3<rgba_ls>(w);
#endif
            return "bad-op";
        }
        if (w[0] == "alg") {
#if HAS(4)
            if (cs == "rgb") return algs<rgb_ls>(w); if (cs == "cmyk") return algs<cmyk_ls>(w); if (cs == "gray") return algs<gray_ls>(w);
            if (cs == "devicen2") return algs<dn2_ls>(w); if (cs == "devicen3") return algs<dn3_ls>(w);
            if (cs == "devicen4") return algs<dn4_ls>(w); if (cs == "devicen5") return algs<dn5_ls>(w);
#endif
#if HAS(5)
            if (cs == "rgba") return algs<rgba_ls>(w);
#endif
            return "bad-op";
        }
        if (t[0] == 'u' || t[0] == 'f') {
#if HAS(1)
            if (cs == "rgb") return homog<rgb_ls>(w); if (cs == "cmyk") return homog<cmyk_ls>(w); if (cs == "gray") return homog<gray_ls>(w);
            if (cs == "devicen2") return homog<dn2_ls>(w); if (cs == "devicen3") return homog<dn3_ls>(w);
            if (cs == "devicen4") return homog<dn4_ls>(w); if (cs == "devicen5") return homog<dn5_ls>(w);
#endif
#if HAS(2)
            if (cs == "rgba") return homog<rgba_ls>(w);
#endif
            return "bad-op";
        }
#if HAS(3) && (PSEL == -1 || PSEL == 0)
        if (cs == "rgb" && t == "p565") return packed<rgb_ls, sz<5, 6, 5>>(w);
        if (cs == "rgb" && t == "p332") return packed<rgb_ls, sz<3, 3, 2>>(w);
        if (cs == "gray" && t == "g4") return packed<gray_ls, sz<4>>(w);
        if (cs == "cmyk" && t == "c4444") return packed<cmyk_ls, sz<4, 4, 4, 4>>(w);
#endif
#if HAS(3) && (PSEL == -1 || PSEL == 1)
        if (cs == "rgba" && t == "p4444") return packed<rgba_ls, sz<4, 4, 4, 4>>(w);
#endif
#if HAS(3) && (PSEL == -1 || PSEL == 2)
        if (cs == "rgba" && t == "p5551") return packed<rgba_ls, sz<5, 5, 5, 1>>(w);
#endif
        return "bad-op";
    });
}
