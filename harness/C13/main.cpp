// C13 correspondence harness: every way of reading one BMP / PNM / TARGA file with the real headers.
// argv[1] = scratch directory.  One translation unit per format: -DC12_SEL=1 bmp, 2 pnm, 3 targa (0 = all).
//
//   crop  <fmt> <dst> <tlx> <tly> <dx> <dy> <file>        F <img> | fn <img> | fp <img> | is <img>
//         full read_image by file name, then read_image with image_read_settings(top_left, dim) by file name, FILE*, std::istream
//   paths <fmt> <dst> <file>                              img <img> | view <img> <canary> | any <type> <img> | scan <img> | info <w> <h> <depth>
//         read_image, read_view into a canary-framed view, read_image into any_image<gray8,rgb8,rgba8>, the scanline reader, read_image_info
//   conv  <fmt> <nat> <dst> <tlx> <tly> <dx> <dy> <file>  nat <img> | conv <img> | ref <img> | cview <img> <canary>
//         read_image (native type), read_and_convert_image, copy_and_convert_pixels of the native read, read_and_convert_view
//   skips <fmt> <dst> <pattern> <file>                    img <img> | full ok|err:io | sk <it==end> <row hex>... | sk err:io
//         the scanline iterator driven by a pattern of d (*it; ++it), D (*it; *it; ++it), p (*it++), s (++it without dereferencing)
//   small <fmt> <dst> <vw> <vh> <tlx> <tly> <dx> <dy> <file>   ok|err:io <canary>       read_view into a view smaller than the region
// <img> = <w> <h> <channel bytes hex> | err:io | ub
#include "../C12/c12.hpp"
#include <boost/gil/extension/dynamic_image/any_image.hpp>
#include <boost/gil/io/read_view.hpp>
#include <boost/gil/io/read_and_convert_image.hpp>
#include <boost/gil/io/read_and_convert_view.hpp>
#include <boost/gil/io/read_image_info.hpp>
#ifndef C12_SEL
#define C12_SEL 0
#endif
#define SEL(n) (C12_SEL == 0 || C12_SEL == n)
#if SEL(1)
#include <boost/gil/extension/io/bmp.hpp>
#endif
#if SEL(2)
#include <boost/gil/extension/io/pnm.hpp>
#endif
#if SEL(3)
#include <boost/gil/extension/io/targa.hpp>
#endif
using namespace c12;
using gil::point_t;

static void spill(std::string const& path, bytes const& b) { std::ofstream f(path, std::ios::binary | std::ios::trunc); f.write((char const*)b.data(), (std::streamsize)b.size()); }

template <typename View> std::string show_view(View const& v) {
    bool huge = (long long)v.width() * v.height() > (1 << 16);      // a mangled header field: dimensions only
    return std::to_string(v.width()) + " " + std::to_string(v.height()) + " " + (huge ? std::string("-") : hex(dump<1>(v))); }
template <typename Img> std::string show(Img const& img) { return show_view(gil::const_view(img)); }

template <typename View> void paint(View const& v, unsigned char val) { bytes b((size_t)v.width() * v.height() * gil::num_channels<View>::value, val); fill<1>(v, b); }
// everything outside [x0,x0+w) x [y0,y0+h) still holds `val`
template <typename View> bool frame_intact(View const& big, int x0, int y0, int w, int h, unsigned char val) {
    bytes d = dump<1>(big); int n = gil::num_channels<View>::value; size_t i = 0;
    for (int y = 0; y < big.height(); ++y) for (int x = 0; x < big.width(); ++x) for (int c = 0; c < n; ++c, ++i) {
        bool inside = x >= x0 && x < x0 + w && y >= y0 && y < y0 + h;
        if (!inside && d[i] != (gil::is_bit_aligned<typename View::value_type>::value ? (val & 1) : val)) return false; }
    return true; }

template <typename F> std::string attempt(F f) {
    try { return f(); } catch (std::ios_base::failure const&) { return "err:io"; } }

template <typename Tag> gil::image_read_settings<Tag> settings(int tlx, int tly, int dx, int dy) {
    return gil::image_read_settings<Tag>(point_t(tlx, tly), point_t(dx, dy)); }

// ---- crop
template <typename Tag, typename Img> std::string op_crop(std::string const& path, int tlx, int tly, int dx, int dy) {
    std::string r = "F " + attempt([&] { Img f; gil::read_image(path, f, Tag()); return show(f); });
    auto st = settings<Tag>(tlx, tly, dx, dy);
    // the destination is pre-sized and painted so that rows a reader leaves untouched are visible (recreate keeps equal-sized storage)
    auto fresh = [&](Img& a) { if (dx > 0 && dy > 0) { a.recreate(dx, dy); paint(gil::view(a), 0xEE); } };
    r += " | fn " + attempt([&] { Img a; fresh(a); gil::read_image(path, a, st); return show(a); });
    r += " | fp " + attempt([&] { Img a; fresh(a); FILE* f = std::fopen(path.c_str(), "rb"); gil::read_image(f, a, st); return show(a); });
    r += " | is " + attempt([&] { Img a; fresh(a); std::ifstream in(path, std::ios::binary); gil::read_image(in, a, st); return show(a); });
    return r; }

// ---- scanline reader: rows as flat channel bytes in the order of Img's colour space
template <typename Tag> struct scan;
#if SEL(1)
template <> struct scan<gil::bmp_tag> { template <typename R> static void row(R& rd, unsigned char const* b, int nch, bytes& out) {
    int w = rd._info._width, bpp = rd._info._bits_per_pixel;
    for (int x = 0; x < w; ++x) {
        if (bpp == 24) { out.push_back(b[3 * x + 2]); out.push_back(b[3 * x + 1]); out.push_back(b[3 * x]); }                       // bgr8 rows
        else if (bpp == 32) { out.push_back(b[4 * x + 2]); out.push_back(b[4 * x + 1]); out.push_back(b[4 * x]); out.push_back(b[4 * x + 3]); }   // bgra8
        else if (bpp == 15 || bpp == 16) { out.push_back(b[3 * x]); out.push_back(b[3 * x + 1]); out.push_back(b[3 * x + 2]); }     // rgb8
        else { for (int c = 0; c < nch; ++c) out.push_back(b[4 * x + c]); }                                                          // palette: rgba8
    } }
    template <typename R> static std::string info(R const& i) { return std::to_string(i._width) + " " + std::to_string(i._height) + " " + std::to_string(i._bits_per_pixel); } };
#endif
#if SEL(2)
template <> struct scan<gil::pnm_tag> { template <typename R> static void row(R& rd, unsigned char const* b, int nch, bytes& out) {
    int w = (int)rd._info._width, t = (int)rd._info._type;
    if (t == 4) { for (int x = 0; x < w; ++x) out.push_back((b[x / 8] >> (x % 8)) & 1); }      // gray1 row in gil bit order
    else { for (int i = 0; i < w * ((t == 3 || t == 6) ? 3 : 1); ++i) out.push_back(b[i]); } }
    template <typename R> static std::string info(R const& i) { return std::to_string(i._width) + " " + std::to_string(i._height) + " " + std::to_string(i._type); } };
#endif
#if SEL(3)
template <> struct scan<gil::targa_tag> { template <typename R> static void row(R& rd, unsigned char const* b, int nch, bytes& out) {
    int w = rd._info._width, n = rd._info._bits_per_pixel / 8;
    for (int x = 0; x < w; ++x) { out.push_back(b[n * x + 2]); out.push_back(b[n * x + 1]); out.push_back(b[n * x]); if (n == 4) out.push_back(b[4 * x + 3]); } }
    template <typename R> static std::string info(R const& i) { return std::to_string(i._width) + " " + std::to_string(i._height) + " " + std::to_string((int)i._bits_per_pixel); } };
#endif

template <typename Tag, typename Img> std::string op_scan(std::string const& path) {
    return attempt([&] {
        using reader_t = gil::scanline_reader<typename gil::get_read_device<char const*, Tag>::type, Tag>;
        reader_t rd = gil::make_scanline_reader(path.c_str(), Tag());
        bytes out; int rows = 0;
        auto it = rd.begin(), end = rd.end();
        for (; it != end; ++it, ++rows) { unsigned char const* b = *it; scan<Tag>::row(rd, b, gil::num_channels<typename Img::view_t>::value, out); }
        return std::to_string((long)rd._info._width) + " " + std::to_string(rows) + " " + hex(out); }); }

// ---- skips: the scanline iterator driven by a pattern: d = *it; ++it   D = *it; *it; ++it (second dereference reported)   s = ++it (row skipped, never
// dereferenced; runs of s go through std::advance).  Every dereferenced row is reported (in Img's channel order), then whether it == end().
template <typename Tag, typename Img> std::string op_skips(std::string const& path, std::string const& pat) {
    Img img;
    std::string r = "img " + attempt([&] { gil::read_image(path, img, Tag()); return show(img); });
    using reader_t = gil::scanline_reader<typename gil::get_read_device<char const*, Tag>::type, Tag>;
    int const nch = gil::num_channels<typename Img::view_t>::value;
    // does a plain walk (every row dereferenced) work at all?
    r += " | full " + attempt([&] { reader_t rd = gil::make_scanline_reader(path.c_str(), Tag()); int rows = 0;
        for (auto it = rd.begin(), end = rd.end(); it != end; ++it, ++rows) { unsigned char const* b = *it; (void)b; }
        return std::string("ok"); });
    r += " | sk " + attempt([&] {
        reader_t rd = gil::make_scanline_reader(path.c_str(), Tag());
        auto it = rd.begin(), end = rd.end(); std::string out;
        long pos = 0, height = (long)rd._info._height; if (height < 0) height = -height; bool cmp_ok = true;
        // begin / end comparisons after every step: it == end() exactly at position height, it == begin() exactly at position 0
        auto cmp = [&] { if ((it == end) != (pos == height) || (it != end) != (pos != height) || (it == rd.begin()) != (pos == 0)) cmp_ok = false; };
        cmp();
        for (size_t i = 0; i < pat.size(); cmp()) {
            if (pat[i] == 's') { size_t j = i; while (j < pat.size() && pat[j] == 's') ++j;
                if (j - i > 1) std::advance(it, (long)(j - i)); else ++it;
                pos += (long)(j - i); i = j; continue; }
            if (pat[i] == 'p') {        // *it++: the postfix proxy of an input iterator dereferences, then increments
                unsigned char const* b = *it++;
                bytes row; scan<Tag>::row(rd, b, nch, row); out += " " + hex(row); ++i; ++pos; continue; }
            unsigned char const* b = *it;
            for (int rep = 0; rep < (pat[i] == 'D' ? 2 : 1); ++rep) {       // D: the same position dereferenced twice, both rows reported
                if (rep) b = *it;
                bytes row; scan<Tag>::row(rd, b, nch, row); out += " " + hex(row); }
            ++it; ++i; ++pos; }
        cmp();
        return std::string(!cmp_ok ? "cmp-bad" : it == end ? "1" : "0") + out; });
    return r; }

struct any_show { template <typename I> std::string operator()(I const& img) const { return show(img); } };

// ---- paths
template <typename Tag, typename Img> std::string op_paths(std::string const& path) {
    Img img; bool ok = true;
    std::string r = "img " + attempt([&] { gil::read_image(path, img, Tag()); return show(img); });
    if (r == "img err:io") ok = false;
    if (ok) {
        int w = (int)img.width(), h = (int)img.height();
        Img big(w + 4, h + 4); paint(gil::view(big), 0xC3);
        auto v = gil::subimage_view(gil::view(big), 2, 2, w, h);
        std::string vs = attempt([&] { gil::read_view(path, v, Tag()); return show_view(v); });
        r += " | view " + vs + (frame_intact(gil::view(big), 2, 2, w, h, 0xC3) ? " canary-ok" : " canary-damaged");
    } else r += " | view err:io canary-ok";
    {
        using any_t = gil::any_image<gil::gray8_image_t, gil::rgb8_image_t, gil::rgba8_image_t>;
        any_t any; std::string s;
        try { gil::read_image(path, any, Tag());
              static const char* names[] = {"gray8", "rgb8", "rgba8"};
              s = std::string(names[any.index()]) + " " + boost::variant2::visit(any_show(), any); }
        catch (std::ios_base::failure const&) { s = "none err:io"; }
        r += " | any " + s;
    }
    r += " | scan " + op_scan<Tag, Img>(path);
    r += " | info " + attempt([&] { auto be = gil::read_image_info(path, Tag()); return scan<Tag>::info(be._info); });
    return r; }

// ---- conv
template <typename Tag, typename Nat, typename Dst> std::string op_conv(std::string const& path, int tlx, int tly, int dx, int dy) {
    auto st = settings<Tag>(tlx, tly, dx, dy);
    Nat nat; bool ok = true;
    std::string r = "nat " + attempt([&] { gil::read_image(path, nat, st); return show(nat); });
    if (r == "nat err:io") ok = false;
    std::string conv = attempt([&] { Dst d; gil::read_and_convert_image(path, d, st); return show(d); });
    r += " | conv " + conv;
    if (ok) { Dst ref(nat.dimensions()); gil::copy_and_convert_pixels(gil::const_view(nat), gil::view(ref)); r += " | ref " + show(ref);
        int w = (int)nat.width(), h = (int)nat.height();
        Dst big(w + 4, h + 4); paint(gil::view(big), 0xC3);
        auto v = gil::subimage_view(gil::view(big), 2, 2, w, h);
        std::string cv = attempt([&] { gil::read_and_convert_view(path, v, st); return show_view(v); });
        r += " | cview " + cv + (frame_intact(gil::view(big), 2, 2, w, h, 0xC3) ? " canary-ok" : " canary-damaged");
    } else r += " | ref err:io | cview err:io canary-ok";
    return r; }

// ---- small
template <typename Tag, typename Img> std::string op_small(std::string const& path, int vw, int vh, int tlx, int tly, int dx, int dy) {
    auto st = settings<Tag>(tlx, tly, dx, dy);
    Img big(vw + 4, vh + 4); paint(gil::view(big), 0xC3);
    auto v = gil::subimage_view(gil::view(big), 2, 2, vw, vh);
    std::string r = attempt([&] { gil::read_view(path, v, st); return std::string("ok"); });
    return r + (frame_intact(gil::view(big), 2, 2, vw, vh, 0xC3) ? " canary-ok" : " canary-damaged"); }

template <typename Tag, typename Img> std::string dispatch(std::vector<std::string> const& w, std::string const& path) {
    auto I = [&](size_t k) { return (int)hv::to_ll(w[k]); };
    if (w[0] == "crop" && w.size() == 8) { spill(path, unhex(w[7])); return op_crop<Tag, Img>(path, I(3), I(4), I(5), I(6)); }
    // paths | pathsA (the suffix only selects the model variant)
    if (w[0].compare(0, 5, "paths") == 0 && w.size() == 4) { spill(path, unhex(w[3])); return op_paths<Tag, Img>(path); }
    if (w[0] == "skips" && w.size() == 5) { spill(path, unhex(w[4])); return op_skips<Tag, Img>(path, w[3]); }
    if (w[0] == "small" && w.size() == 10) { spill(path, unhex(w[9])); return op_small<Tag, Img>(path, I(3), I(4), I(5), I(6), I(7), I(8)); }
    return "bad-op"; }

template <typename Tag, typename Nat> std::string dispatch_conv(std::vector<std::string> const& w, std::string const& path) {
    auto I = [&](size_t k) { return (int)hv::to_ll(w[k]); };
    if (w.size() != 9) return "bad-op";
    spill(path, unhex(w[8]));
    if (w[3] == "gray8") return op_conv<Tag, Nat, gil::gray8_image_t>(path, I(4), I(5), I(6), I(7));
    if (w[3] == "rgb8") return op_conv<Tag, Nat, gil::rgb8_image_t>(path, I(4), I(5), I(6), I(7));
    if (w[3] == "rgba8") return op_conv<Tag, Nat, gil::rgba8_image_t>(path, I(4), I(5), I(6), I(7));
    return "bad-op"; }

int main(int argc, char** argv) {
    std::string dir = argc > 1 ? argv[1] : "/tmp";
    std::string path = dir + "/c13_" + std::to_string((long)getpid()) + "_" + std::to_string(C12_SEL);
    return hv::run([&](std::string const& line) -> std::string {
        auto w = hv::words(line);
        if (w.size() < 4) return "bad-op";
        std::string const& fmt = w[1];
        auto go = [&]() -> std::string {
            bool conv = w[0] == "conv";
            std::string const& t = w[2];          // dst (crop / paths / small) or native type (conv)
#if SEL(1)
            if (fmt == "bmp" || fmt == "bmprle" || fmt == "bmprlef") {   // bmprlef: RLE file, reader believed safe (no child process)
                if (conv) { if (t == "rgb8") return dispatch_conv<gil::bmp_tag, gil::rgb8_image_t>(w, path); if (t == "rgba8") return dispatch_conv<gil::bmp_tag, gil::rgba8_image_t>(w, path); return "unsupported"; }
                if (t == "rgb8") return dispatch<gil::bmp_tag, gil::rgb8_image_t>(w, path);
                if (t == "rgba8") return dispatch<gil::bmp_tag, gil::rgba8_image_t>(w, path);
            }
#endif
#if SEL(2)
            if (fmt == "pnm") {
                if (conv) { if (t == "gray8") return dispatch_conv<gil::pnm_tag, gil::gray8_image_t>(w, path); if (t == "rgb8") return dispatch_conv<gil::pnm_tag, gil::rgb8_image_t>(w, path); return "unsupported"; }
                if (t == "gray8") return dispatch<gil::pnm_tag, gil::gray8_image_t>(w, path);
                if (t == "rgb8") return dispatch<gil::pnm_tag, gil::rgb8_image_t>(w, path);
                if (t.compare(0, 5, "gray1") == 0) return dispatch<gil::pnm_tag, gil::gray1_image_t>(w, path);   // gray1[-r][s]: the suffix selects the model variant
            }
#endif
#if SEL(3)
            if (fmt == "targa") {
                if (conv) { if (t == "rgb8") return dispatch_conv<gil::targa_tag, gil::rgb8_image_t>(w, path); if (t == "rgba8") return dispatch_conv<gil::targa_tag, gil::rgba8_image_t>(w, path); return "unsupported"; }
                if (t == "rgb8") return dispatch<gil::targa_tag, gil::rgb8_image_t>(w, path);
                if (t == "rgba8") return dispatch<gil::targa_tag, gil::rgba8_image_t>(w, path);
            }
#endif
            return std::string("unsupported"); };
        // the RLE bmp reader indexes its row buffer with the rectangle's x offset: run it in a child so an overrun is an observation
        if (fmt == "bmprle") return guarded(go);
        return go();
    });
}
