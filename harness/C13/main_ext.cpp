// C13 correspondence harness, formats decoded by external libraries (PNG, TIFF, JPEG): files are produced by the real
// write_view (png: also Adam7 interlaced; tiff: strips / tiles x compressions), then read back in every way.  Judged only
// (no byte-level model).  argv[1] = scratch directory.  -DC12_SEL=1 png, 2 tiff (byte pixels), 3 tiff (bit-aligned, 16 bit), 4 jpeg.
//
//   xcrop  <fmt> <pix> <bytes/pixel> <w> <h> <tlx> <tly> <dx> <dy> <src>   F <img> | fn <img> [| fp <img>] | is <img>
//   xpaths <fmt> <pix> <bytes/pixel> <w> <h> <src>                         img <img> | view <img> <canary> | info <w> <h>
//   xconv  <fmt> <pix> <bytes/pixel> <w> <h> <dst> <tlx> <tly> <dx> <dy> <src>   nat <img> | conv <img> | ref <img> | cview <img> <canary>
//   xskips <fmt> <pix> <bytes/pixel> <w> <h> <pattern> <src>               img <img> | full ok|err:io | sk <it==end> <row>... | sk err:io
//   xsmall <fmt> <pix> <bytes/pixel> <w> <h> <vw> <vh> <tlx> <tly> <dx> <dy> <src>   ok|err:io <canary>
#define BOOST_GIL_IO_ENABLE_GRAY_ALPHA
#include "../C12/c12.hpp"
#include <boost/gil/io/read_view.hpp>
#include <boost/gil/io/read_and_convert_image.hpp>
#include <boost/gil/io/read_and_convert_view.hpp>
#include <boost/gil/io/read_image_info.hpp>
#ifndef C12_SEL
#define C12_SEL 0
#endif
#define SEL(n) (C12_SEL == 0 || C12_SEL == n)
#if SEL(1)
#include <boost/gil/extension/io/png.hpp>
#endif
#if SEL(2) || SEL(3)
#include <boost/gil/extension/io/tiff.hpp>
namespace c12 { template <> struct has_file_ptr<gil::tiff_tag> : std::false_type {}; }
#endif
#if SEL(4)
#include <boost/gil/extension/io/jpeg.hpp>
#endif
using namespace c12;
using gil::point_t;

template <int CB, typename View> std::string show_view(View const& v) {
    bool huge = (long long)v.width() * v.height() > (1 << 16);
    return std::to_string(v.width()) + " " + std::to_string(v.height()) + " " + (huge ? std::string("-") : hex(dump<CB>(v))); }
template <int CB, typename Img> std::string show(Img const& img) { return show_view<CB>(gil::const_view(img)); }
template <typename View> void paint(View const& v, unsigned char val) { bytes b((size_t)v.width() * v.height() * gil::num_channels<View>::value * 4, val); fill<1>(v, b); }
template <int CB, typename View> bool frame_intact(View const& big, int x0, int y0, int w, int h, View const& ref) {
    bytes d = dump<CB>(big), e = dump<CB>(ref); size_t per = (size_t)gil::num_channels<View>::value * CB, i = 0;
    for (int y = 0; y < big.height(); ++y) for (int x = 0; x < big.width(); ++x) for (size_t c = 0; c < per; ++c, ++i) {
        bool inside = x >= x0 && x < x0 + w && y >= y0 && y < y0 + h;
        if (!inside && d[i] != e[i]) return false; }
    return true; }
struct prewritten {};   // the file at `path` was produced by other means
template <typename F> std::string attempt(F f) { try { return f(); } catch (std::ios_base::failure const&) { return "err:io"; } }
template <typename Tag> gil::image_read_settings<Tag> settings(int tlx, int tly, int dx, int dy) {
    return gil::image_read_settings<Tag>(point_t(tlx, tly), point_t(dx, dy)); }

template <typename Tag, typename Img, int CB, bool Mut, typename Info>
std::string run_op(std::vector<std::string> const& w, std::string const& path, Info const& info) {
    auto I = [&](size_t k) { return (int)hv::to_ll(w[k]); };
    int W = I(4), H = I(5);
    Img src(W, H); fill<CB>(gil::view(src), unhex(w.back()));
    // the writers of bit-aligned pixels only accept mutable views
    if constexpr (std::is_same<Info, prewritten>::value) {}
    else if constexpr (Mut) gil::write_view(path, gil::view(src), info); else gil::write_view(path, gil::const_view(src), info);
    if (w[0] == "xcrop") {
        int tlx = I(6), tly = I(7), dx = I(8), dy = I(9);
        auto st = settings<Tag>(tlx, tly, dx, dy);
        std::string r = "F " + attempt([&] { Img f; gil::read_image(path, f, Tag()); return show<CB>(f); });
        r += " | fn " + attempt([&] { Img a; gil::read_image(path, a, st); return show<CB>(a); });
        if constexpr (has_file_ptr<Tag>::value) r += " | fp " + attempt([&] { Img a; FILE* f = std::fopen(path.c_str(), "rb"); gil::read_image(f, a, st); return show<CB>(a); });
        r += " | is " + attempt([&] { Img a; std::ifstream in(path, std::ios::binary); gil::read_image(in, a, st); return show<CB>(a); });
        return r; }
    if (w[0] == "xpaths") {
        Img img; std::string r = "img " + attempt([&] { gil::read_image(path, img, Tag()); return show<CB>(img); });
        if (r == "img err:io") return r + " | view err:io canary-ok | info err:io";
        int iw = (int)img.width(), ih = (int)img.height();
        Img big(iw + 4, ih + 4); paint(gil::view(big), 0xC3); Img ref(big);
        auto v = gil::subimage_view(gil::view(big), 2, 2, iw, ih);
        std::string vs = attempt([&] { gil::read_view(path, v, Tag()); return show_view<CB>(v); });
        r += " | view " + vs + (frame_intact<CB>(gil::view(big), 2, 2, iw, ih, gil::view(ref)) ? " canary-ok" : " canary-damaged");
        r += " | info " + attempt([&] { auto be = gil::read_image_info(path, Tag()); return std::to_string((long)be._info._width) + " " + std::to_string((long)be._info._height); });
        return r; }
    if (w[0] == "xskips") {       // the scanline iterator driven by a pattern (see main.cpp: skips); byte pixels only: the row buffer is seen as a row of Img's pixels
        if constexpr (gil::is_bit_aligned<typename Img::value_type>::value) return "unsupported"; else {
        std::string const& pat = w[6];
        using reader_t = gil::scanline_reader<typename gil::get_read_device<char const*, Tag>::type, Tag>;
        using pixel_t = typename Img::value_type;
        Img img; std::string r = "img " + attempt([&] { gil::read_image(path, img, Tag()); return show<CB>(img); });
        r += " | full " + attempt([&] { reader_t rd = gil::make_scanline_reader(path.c_str(), Tag());
            for (auto it = rd.begin(), end = rd.end(); it != end; ++it) { unsigned char const* b = *it; (void)b; }
            return std::string("ok"); });
        r += " | sk " + attempt([&] {
            reader_t rd = gil::make_scanline_reader(path.c_str(), Tag());
            if ((size_t)rd._scanline_length != (size_t)rd._info._width * sizeof(pixel_t)) return std::string("err:io");   // another row layout than Img's
            auto it = rd.begin(), end = rd.end(); std::string out;
            long pos = 0, height = (long)rd._info._height; bool cmp_ok = true;
            auto cmp = [&] { if ((it == end) != (pos == height) || (it != end) != (pos != height) || (it == rd.begin()) != (pos == 0)) cmp_ok = false; };
            cmp();
            for (size_t i = 0; i < pat.size(); cmp()) {
                if (pat[i] == 's') { size_t j = i; while (j < pat.size() && pat[j] == 's') ++j;
                    if (j - i > 1) std::advance(it, (long)(j - i)); else ++it;
                    pos += (long)(j - i); i = j; continue; }
                if (pat[i] == 'p') {
                    unsigned char* b = *it++;
                    auto rv = gil::interleaved_view((std::size_t)rd._info._width, 1, (pixel_t*)b, (std::ptrdiff_t)rd._scanline_length);
                    out += " " + hex(dump<CB>(rv)); ++i; ++pos; continue; }
                unsigned char* b = *it;
                for (int rep = 0; rep < (pat[i] == 'D' ? 2 : 1); ++rep) {
                    if (rep) b = *it;
                    auto rv = gil::interleaved_view((std::size_t)rd._info._width, 1, (pixel_t*)b, (std::ptrdiff_t)rd._scanline_length);
                    out += " " + hex(dump<CB>(rv)); }
                ++it; ++i; ++pos; }
            cmp();
            return std::string(!cmp_ok ? "cmp-bad" : it == end ? "1" : "0") + out; });
        return r; } }
    if (w[0] == "xsmall") {
        int vw = I(6), vh = I(7); auto st = settings<Tag>(I(8), I(9), I(10), I(11));
        Img big(vw + 4, vh + 4); paint(gil::view(big), 0xC3); Img ref(big);
        auto v = gil::subimage_view(gil::view(big), 2, 2, vw, vh);
        std::string r = attempt([&] { gil::read_view(path, v, st); return std::string("ok"); });
        return r + (frame_intact<CB>(gil::view(big), 2, 2, vw, vh, gil::view(ref)) ? " canary-ok" : " canary-damaged"); }
    return "bad-op"; }

template <typename Tag, typename Nat, int CB, typename Dst, int DCB, typename Info>
std::string run_conv(std::vector<std::string> const& w, std::string const& path, Info const& info) {
    auto I = [&](size_t k) { return (int)hv::to_ll(w[k]); };
    int W = I(4), H = I(5);
    Nat src(W, H); fill<CB>(gil::view(src), unhex(w.back()));
    if constexpr (!std::is_same<Info, prewritten>::value) gil::write_view(path, gil::const_view(src), info);
    auto st = settings<Tag>(I(7), I(8), I(9), I(10));
    Nat nat; std::string r = "nat " + attempt([&] { gil::read_image(path, nat, st); return show<CB>(nat); });
    bool ok = r != "nat err:io";
    r += " | conv " + attempt([&] { Dst d; gil::read_and_convert_image(path, d, st); return show<DCB>(d); });
    if (!ok) return r + " | ref err:io | cview err:io canary-ok";
    Dst ref(nat.dimensions()); gil::copy_and_convert_pixels(gil::const_view(nat), gil::view(ref)); r += " | ref " + show<DCB>(ref);
    int iw = (int)nat.width(), ih = (int)nat.height();
    Dst big(iw + 4, ih + 4); paint(gil::view(big), 0xC3); Dst keep(big);
    auto v = gil::subimage_view(gil::view(big), 2, 2, iw, ih);
    std::string cv = attempt([&] { gil::read_and_convert_view(path, v, st); return show_view<DCB>(v); });
    return r + " | cview " + cv + (frame_intact<DCB>(gil::view(big), 2, 2, iw, ih, gil::view(keep)) ? " canary-ok" : " canary-damaged"); }

template <typename Tag, typename Nat, int CB, typename Info>
std::string go(std::vector<std::string> const& w, std::string const& path, Info const& info) {
    if (w[0] == "xconv") {
        if (w[6] == "gray8") return run_conv<Tag, Nat, CB, gil::gray8_image_t, 1>(w, path, info);
        if (w[6] == "rgb8") return run_conv<Tag, Nat, CB, gil::rgb8_image_t, 1>(w, path, info);
        if (w[6] == "rgba8") return run_conv<Tag, Nat, CB, gil::rgba8_image_t, 1>(w, path, info);
#if C12_SEL == 4      // 16-bit destinations: instantiated for jpeg only (compile time)
        if (w[6] == "gray16") return run_conv<Tag, Nat, CB, gil::gray16_image_t, 2>(w, path, info);
        if (w[6] == "rgb16") return run_conv<Tag, Nat, CB, gil::rgb16_image_t, 2>(w, path, info);
#endif
        return "bad-op"; }
    return run_op<Tag, Nat, CB, false>(w, path, info); }
// bit-aligned pixel types: no conversions exercised
template <typename Tag, typename Nat, int CB, typename Info>
std::string go_plain(std::vector<std::string> const& w, std::string const& path, Info const& info) {
    if (w[0] == "xconv") return "unsupported";
    return run_op<Tag, Nat, CB, true>(w, path, info); }

#if SEL(1)
// Adam7 interlaced files are produced with libpng directly (GIL's png writer does not drive the interlace passes)
static void write_png_adam7(std::string const& path, int w, int h, int channels, bytes const& px) {
    FILE* fp = std::fopen(path.c_str(), "wb");
    png_structp png = png_create_write_struct(PNG_LIBPNG_VER_STRING, nullptr, nullptr, nullptr);
    png_infop inf = png_create_info_struct(png);
    if (setjmp(png_jmpbuf(png))) { png_destroy_write_struct(&png, &inf); std::fclose(fp); throw std::ios_base::failure("libpng"); }
    png_init_io(png, fp);
    int ct = channels == 1 ? PNG_COLOR_TYPE_GRAY : channels == 3 ? PNG_COLOR_TYPE_RGB : PNG_COLOR_TYPE_RGB_ALPHA;
    png_set_IHDR(png, inf, (png_uint_32)w, (png_uint_32)h, 8, ct, PNG_INTERLACE_ADAM7, PNG_COMPRESSION_TYPE_DEFAULT, PNG_FILTER_TYPE_DEFAULT);
    png_write_info(png, inf);
    std::vector<png_bytep> rows((size_t)h);
    bytes copy = px; copy.resize((size_t)w * h * channels);
    for (int y = 0; y < h; ++y) rows[(size_t)y] = copy.data() + (size_t)y * w * channels;
    png_write_image(png, rows.data());      // handles the seven passes
    png_write_end(png, nullptr);
    png_destroy_write_struct(&png, &inf); std::fclose(fp); }
#endif

#if SEL(2) || SEL(3)
static bool tiff_info(std::string const& fmt, gil::image_write_info<gil::tiff_tag>& info, std::string& why) {
    info._compression = COMPRESSION_NONE;
    if (fmt.find("-lzw") != std::string::npos) info._compression = COMPRESSION_LZW;
    if (fmt.find("-deflate") != std::string::npos) info._compression = COMPRESSION_ADOBE_DEFLATE;
    if (fmt.find("-packbits") != std::string::npos) info._compression = COMPRESSION_PACKBITS;
    if (!TIFFIsCODECConfigured(info._compression)) { why = "codec-not-configured"; return false; }
    if (fmt.find("-tile16") != std::string::npos) { info._is_tiled = true; info._tile_width = 16; info._tile_length = 16; }
    if (fmt.find("-tile32") != std::string::npos) { info._is_tiled = true; info._tile_width = 32; info._tile_length = 32; }
    return true; }
#endif

int main(int argc, char** argv) {
    std::string dir = argc > 1 ? argv[1] : "/tmp";
    std::string path = dir + "/c13x_" + std::to_string((long)getpid()) + "_" + std::to_string(C12_SEL);
    return hv::run([&](std::string const& line) -> std::string {
        auto w = hv::words(line);
        if (w.size() < 7) return "bad-op";
        std::string const &fmt = w[1], &pix = w[2];
#if SEL(1)
        if (fmt.compare(0, 3, "png") == 0) {
            gil::image_write_info<gil::png_tag> info;
            if (fmt == "png-adam7") {
                int ch = pix == "gray8" ? 1 : pix == "rgb8" ? 3 : pix == "rgba8" ? 4 : 0;
                if (!ch) return "unsupported";
                write_png_adam7(path, (int)hv::to_ll(w[4]), (int)hv::to_ll(w[5]), ch, unhex(w.back()));
                if (pix == "gray8") return go<gil::png_tag, gil::gray8_image_t, 1>(w, path, prewritten());
                if (pix == "rgb8") return go<gil::png_tag, gil::rgb8_image_t, 1>(w, path, prewritten());
                return go<gil::png_tag, gil::rgba8_image_t, 1>(w, path, prewritten());
            }
            if (pix == "gray8") return go<gil::png_tag, gil::gray8_image_t, 1>(w, path, info);
            if (pix == "rgb8") return go<gil::png_tag, gil::rgb8_image_t, 1>(w, path, info);
            if (pix == "rgba8") return go<gil::png_tag, gil::rgba8_image_t, 1>(w, path, info);
            if (pix == "gray16") return go_plain<gil::png_tag, gil::gray16_image_t, 2>(w, path, info);
            if (pix == "gray1") return go_plain<gil::png_tag, gil::gray1_image_t, 1>(w, path, info);
            if (pix == "gray4") return go_plain<gil::png_tag, gil::gray4_image_t, 1>(w, path, info);
        }
#endif
#if SEL(2) || SEL(3)
        if (fmt.compare(0, 4, "tiff") == 0) {
            gil::image_write_info<gil::tiff_tag> info; std::string why;
            if (!tiff_info(fmt, info, why)) return why;
#if SEL(2)
            // converting sub-rectangle reads overrun the row buffer (sized with the destination's pixel size): run them in a child
            if (pix == "gray8") { if (w[0] == "xconv") return guarded([&] { return go<gil::tiff_tag, gil::gray8_image_t, 1>(w, path, info); }); return go<gil::tiff_tag, gil::gray8_image_t, 1>(w, path, info); }
            if (pix == "rgb8") { if (w[0] == "xconv") return guarded([&] { return go<gil::tiff_tag, gil::rgb8_image_t, 1>(w, path, info); }); return go<gil::tiff_tag, gil::rgb8_image_t, 1>(w, path, info); }
#endif
#if SEL(3)
            if (pix == "gray1") return go_plain<gil::tiff_tag, gil::gray1_image_t, 1>(w, path, info);
            if (pix == "gray4") return go_plain<gil::tiff_tag, gil::gray4_image_t, 1>(w, path, info);
#endif
        }
#endif
#if SEL(4)
        if (fmt == "jpeg") {
            gil::image_write_info<gil::jpeg_tag> info(100);
            if (pix == "gray8") return go<gil::jpeg_tag, gil::gray8_image_t, 1>(w, path, info);
            if (pix == "rgb8") return go<gil::jpeg_tag, gil::rgb8_image_t, 1>(w, path, info);
        }
#endif
        return "unsupported";
    });
}
