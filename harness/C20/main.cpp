// C20 correspondence harness: the rasterizers of the real headers.
//
//   line  x0 y0 x1 y1            -> pc n  x y x y ...      bresenham_line_rasterizer: point_count(), number of
//                                                          points really written through the output iterator, the points
//   linex x0 y0 x1 y1            -> as `line` (the model side uses the exact-arithmetic error term)
//   mcirc cx cy r                -> pc n  x y ...          midpoint_circle_rasterizer
//   tcirc cx cy r                -> pc n  x y ...          trigonometric_circle_rasterizer
//   ell   cx cy a b              -> n  x y ...             midpoint_ellipse_rasterizer::obtain_trajectory()
//   aline vt x0 y0 x1 y1         -> in out  ox oy ...      apply_rasterizer on a view that is exactly the bounding box of
//   acirc vt m|t r               -> in out  ox oy ...      the ideal figure, cut out of a larger canary image: number of
//                                                          distinct pixels painted inside the view, number painted outside it,
//                                                          and the outside ones (coordinates relative to the view, sorted)
//                                                          followed by `a <k>`: number of BOOST_ASSERTs that fired inside GIL
//   aell  vt cx cy a b W H       -> in out  x y ...        apply_rasterizer(ellipse) on a W x H view inside a canary image:
//                                                          pixels painted inside the view (sorted, all listed), number outside
//   vt = view type: g8 | rgb8 | rgb8p (planar) | g16 | rgba8 | bgr8 | g32f | rgb16p
//
// The trajectory buffer handed to the rasterizers is point_count()+SLACK long and pre-filled with a
// sentinel, so `n` is measured, not assumed (a larger overrun is caught by ASan).
// BOOST_ASSERT failures inside GIL (image_view::operator()(point) checks its argument) are counted and
// execution continues, as in a release build: the op's observation reports how many fired.
#define BOOST_ENABLE_ASSERT_HANDLER 1
#include <boost/assert.hpp>
static long g_asserts = 0;
namespace boost {
void assertion_failed(char const*, char const*, char const*, long) { ++g_asserts; }
void assertion_failed_msg(char const*, char const*, char const*, char const*, long) { ++g_asserts; }
}
#include <boost/gil.hpp>
#include <boost/gil/extension/rasterization/line.hpp>
#include <boost/gil/extension/rasterization/circle.hpp>
#include <boost/gil/extension/rasterization/ellipse.hpp>
#include <algorithm>
#include <limits>
#include <set>
#include "harness.hpp"
namespace gil = boost::gil;
using std::ptrdiff_t;

static const ptrdiff_t SENT = std::numeric_limits<ptrdiff_t>::min() + 7;
static const int SLACK = 16;

template <typename R> static std::string trajectory(R const& r) {
    ptrdiff_t pc = r.point_count();
    if (pc < 0 || pc > 50000000) return "pc-out-of-range " + std::to_string(pc);
    std::vector<gil::point_t> buf((size_t)pc + SLACK, gil::point_t{SENT, SENT});
    r(buf.begin());
    size_t n = buf.size();
    while (n > 0 && buf[n - 1].x == SENT && buf[n - 1].y == SENT) --n;
    std::string s = std::to_string(pc) + " " + std::to_string(n);
    for (size_t i = 0; i < n; ++i) { s += ' '; s += std::to_string(buf[i].x); s += ' '; s += std::to_string(buf[i].y); }
    return s;
}

// ---- canary images: the view under test is the sub-rectangle [PAD, PAD+w) x [PAD, PAD+h) of a larger image
static const ptrdiff_t PAD = 3;

template <typename Img, typename MakeRasterizer>
static std::string apply_on(ptrdiff_t w, ptrdiff_t h, MakeRasterizer make, bool list_inside) {
    using pixel_t = typename Img::value_type;
    using chan_t = typename gil::channel_type<pixel_t>::type;
    Img img(w + 2 * PAD, h + 2 * PAD);
    pixel_t bg, fg;
    gil::static_fill(bg, chan_t(1)); gil::static_fill(fg, chan_t(0));
    gil::at_c<0>(fg) = chan_t(2);
    gil::fill_pixels(gil::view(img), bg);
    auto v = gil::subimage_view(gil::view(img), PAD, PAD, w, h);
    auto r = make();
    g_asserts = 0;
    gil::apply_rasterizer(v, r, fg);
    long fired = g_asserts;
    std::vector<std::pair<ptrdiff_t, ptrdiff_t>> in, out;
    auto full = gil::const_view(img);
    for (ptrdiff_t y = 0; y < full.height(); ++y)
        for (ptrdiff_t x = 0; x < full.width(); ++x) {
            pixel_t p = full(x, y);
            if (p == bg) continue;
            bool inside = x >= PAD && x < PAD + w && y >= PAD && y < PAD + h;
            if (!(p == fg)) return "err:unexpected-pixel-value";
            (inside ? in : out).push_back({x - PAD, y - PAD});
        }
    std::string s = std::to_string(in.size()) + " " + std::to_string(out.size());
    for (auto const& p : (list_inside ? in : out)) { s += ' '; s += std::to_string(p.first); s += ' '; s += std::to_string(p.second); }
    return s + " a " + std::to_string(fired);
}

#define VTYPES(X) X("g8", gil::gray8_image_t) X("rgb8", gil::rgb8_image_t) X("rgb8p", gil::rgb8_planar_image_t) \
  X("g16", gil::gray16_image_t) X("rgba8", gil::rgba8_image_t) X("bgr8", gil::bgr8_image_t) X("g32f", gil::gray32f_image_t) \
  X("rgb16p", gil::rgb16_planar_image_t)

template <typename Img> static std::string aline(ptrdiff_t x0, ptrdiff_t y0, ptrdiff_t x1, ptrdiff_t y1) {
    ptrdiff_t bx = std::min(x0, x1), by = std::min(y0, y1);
    ptrdiff_t w = std::abs(x1 - x0) + 1, h = std::abs(y1 - y0) + 1;
    return apply_on<Img>(w, h, [&] { return gil::bresenham_line_rasterizer({x0 - bx, y0 - by}, {x1 - bx, y1 - by}); }, false);
}
template <typename Img> static std::string acirc(std::string const& kind, ptrdiff_t r) {
    // the view is exactly the circle's bounding box [c-r, c+r]^2 with c = (r, r)
    if (kind == "m") return apply_on<Img>(2 * r + 1, 2 * r + 1, [&] { return gil::midpoint_circle_rasterizer({r, r}, r); }, false);
    return apply_on<Img>(2 * r + 1, 2 * r + 1, [&] { return gil::trigonometric_circle_rasterizer({r, r}, r); }, false);
}
template <typename Img> static std::string aell(unsigned cx, unsigned cy, unsigned a, unsigned b, ptrdiff_t W, ptrdiff_t H) {
    return apply_on<Img>(W, H, [&] { return gil::midpoint_ellipse_rasterizer({cx, cy}, {a, b}); }, true);
}

int main() {
    return hv::run([](std::string const& line) -> std::string {
        auto w = hv::words(line);
        auto I = [&](size_t i) { return (ptrdiff_t)hv::to_ll(w[i]); };
        if (w.size() == 5 && (w[0] == "line" || w[0] == "linex"))   // linex: same real code, compared with the exact-arithmetic model
            return trajectory(gil::bresenham_line_rasterizer({I(1), I(2)}, {I(3), I(4)}));
        if (w.size() == 4 && w[0] == "mcirc") return trajectory(gil::midpoint_circle_rasterizer({I(1), I(2)}, I(3)));
        if (w.size() == 4 && w[0] == "tcirc") return trajectory(gil::trigonometric_circle_rasterizer({I(1), I(2)}, I(3)));
        if (w.size() == 5 && w[0] == "ell") {
            gil::midpoint_ellipse_rasterizer r({(unsigned)I(1), (unsigned)I(2)}, {(unsigned)I(3), (unsigned)I(4)});
            auto t = r.obtain_trajectory();
            std::string s = std::to_string(t.size());
            for (auto const& p : t) { s += ' '; s += std::to_string(p.x); s += ' '; s += std::to_string(p.y); }
            return s;
        }
        if (w.size() == 6 && w[0] == "aline") {
#define X(name, T) if (w[1] == name) return aline<T>(I(2), I(3), I(4), I(5));
            VTYPES(X)
#undef X
        }
        if (w.size() == 4 && w[0] == "acirc") {
#define X(name, T) if (w[1] == name) return acirc<T>(w[2], I(3));
            VTYPES(X)
#undef X
        }
        if (w.size() == 8 && w[0] == "aell") {
#define X(name, T) if (w[1] == name) return aell<T>((unsigned)I(2), (unsigned)I(3), (unsigned)I(4), (unsigned)I(5), I(6), I(7));
            VTYPES(X)
#undef X
        }
        return "bad-op";
    });
}
