// C08 correspondence harness, part 2: packed pixels, bit-aligned pixel references and iterators of the real headers.
// Every op names a configuration and carries its description  fb:w0,w1,..:m0,m1,..  (sizeof(BitField), channel
// widths in memory order, channel_mapping semantic->physical); the harness checks the description against
// the C++ type it instantiates (a mismatch prints cfg-mismatch), so the model works from the same facts.
// Channel values are always listed in MEMORY order (at_c<0>, at_c<1>, ...).
//
//   pset    CFG DESC k v field                 at_c<k>(packed_pixel) = v          -> <field> <gets>
//   parith  CFG DESC k OP arg field            at_c<k>(packed_pixel) OP arg       -> <field> <gets>
//   pctor   CFG DESC v0 v1 ..                  packed_pixel(v0, v1, ..)            -> <field> <gets>
//   passign CFG DESC SRC SRCDESC srcfield field   dst = src (packed pixels, compatible, other layout) -> <field> <gets>
//   bget    CFG DESC len byte off buf          read every channel through the read-only reference -> <gets>
//   bset    CFG DESC len byte off k v buf      at_c<k>(ref) = v                    -> <buf> <gets>
//   barith  CFG DESC len byte off k OP arg buf                                     -> <buf> <gets>
//   bassign CFG DESC len byte off v0 v1 .. buf ref = packed_pixel value            -> <buf> <gets>
//   bcopy   CFG DESC len byteA offA byteB offB buf      refA = refB                -> <buf> <getsA>
//   bswap   CFG DESC len byteA offA byteB offB buf      swap(refA, refB)           -> <buf> <getsA> <getsB>
//   bfill   CFG DESC len byte off count v0 v1 .. buf    std::fill(it, it+count, value)   -> <buf>
//   bcpy    CFG DESC len sbyte soff dbyte doff count buf   std::copy(its, its+count, itd) -> <buf>
//   iadv    CFG DESC off n        it2 = it + n; it3 = it2 - n; it4 = it; it4 += n; -> byte2 off2 byte3 off3 (it2-it) (it-it2) byte[n] off[n] byte4 off4
//   iinc    CFG DESC off k        k times ++it, then k times --it                  -> byte off byte' off' (positions after the ++ run and after the -- run)
// Buffers are heap blocks of exactly `len` bytes (ASan sees any access past them).
#include "common.hpp"
#include <sys/mman.h>

#ifndef PART
#define PART 0
#endif
#define HAS(p) (PART == 0 || PART == p)

template <typename L> struct mapping_str {
    template <typename... Is> static string go(mp11::mp_list<Is...>) { string s; ((s += (s.empty() ? "" : ",") + std::to_string((int)Is::value)), ...); return s; }
    static string get() { return go(mp11::mp_rename<typename L::channel_mapping_t, mp11::mp_list>{}); }
};

template <typename BF, typename Layout, unsigned... Ws> struct Cfg {
    using bf_t = BF; using layout_t = Layout;
    using sizes = mp11::mp_list_c<unsigned, Ws...>;
    static constexpr int n = sizeof...(Ws);
    static constexpr int bits = (int)(Ws + ...);
    using ref_t = gil::bit_aligned_pixel_reference<BF, sizes, Layout, true>;
    using cref_t = gil::bit_aligned_pixel_reference<BF, sizes, Layout, false>;
    using val_t = typename gil::packed_pixel_type<BF, sizes, Layout>::type;
    using it_t = gil::bit_aligned_pixel_iterator<ref_t>;
    using idx = std::make_integer_sequence<int, n>;
    static string desc() {
        string s = std::to_string(sizeof(BF)) + ":"; bool first = true;
        ((s += (first ? "" : ",") + std::to_string(Ws), first = false), ...);
        return s + ":" + mapping_str<Layout>::get();
    }
    template <typename P, int... Ks> static string gets_(P const& p, std::integer_sequence<int, Ks...>) {
        string s; ((s += (Ks ? "," : "") + std::to_string((ull)gil::at_c<Ks>(p).get())), ...); return s; }
    template <typename P> static string gets(P const& p) { return gets_(p, idx{}); }
    template <typename P, int... Ks> static void setall_(P& p, const std::vector<ull>& v, std::integer_sequence<int, Ks...>) {
        ((gil::at_c<Ks>(p) = (typename std::decay<decltype(gil::at_c<Ks>(p))>::type::integer_t)v[Ks]), ...); }
    static val_t value(const std::vector<ull>& v) { val_t p; setall_(p, v, idx{}); return p; }
};

template <typename Ch> static bool arith(Ch ch, const string& op, long long arg) {
    if (op == "inc") ++ch; else if (op == "dec") --ch; else if (op == "pinc") ch++; else if (op == "pdec") ch--;
    else if (op == "add") ch += (int)arg; else if (op == "sub") ch -= (int)arg; else if (op == "mul") ch *= (int)arg;
    else if (op == "div") ch /= (int)arg; else return false;
    return true;
}

static std::vector<ull> ulls(const std::vector<string>& w, size_t from, size_t count) {
    std::vector<ull> v; for (size_t i = 0; i < count; ++i) v.push_back(hv::to_ull(w[from + i])); return v; }

// ---------------------------------------------------------------- packed pixel ops
template <typename C> static string packed_ops(const std::vector<string>& w) {
    using val_t = typename C::val_t; using BF = typename C::bf_t; constexpr int HD = sizeof(BF) * 2;
    if (w[2] != C::desc()) return "cfg-mismatch:" + C::desc();
    string out = "bad-op";
    if (w[0] == "pset" && w.size() == 6) {
        int k = (int)hv::to_ll(w[3]); ull v = hv::to_ull(w[4]); val_t p{BF(parse_hex(w[5]))};
        pick(k, typename C::idx{}, [&](auto kc) { constexpr int K = decltype(kc)::value;
            gil::at_c<K>(p) = (typename std::decay<decltype(gil::at_c<K>(p))>::type::integer_t)v; });
        return num_hex(p._bitfield, HD) + " " + C::gets(p);
    }
    if (w[0] == "parith" && w.size() == 7) {
        int k = (int)hv::to_ll(w[3]); long long arg = hv::to_ll(w[5]); val_t p{BF(parse_hex(w[6]))}; bool ok = false;
        pick(k, typename C::idx{}, [&](auto kc) { constexpr int K = decltype(kc)::value; ok = arith(gil::at_c<K>(p), w[4], arg); });
        if (!ok) return out;
        return num_hex(p._bitfield, HD) + " " + C::gets(p);
    }
    if (w[0] == "pctor" && (int)w.size() == 3 + C::n) {
        auto v = ulls(w, 3, C::n);
        if constexpr (C::n == 1) { val_t p; p = (int)v[0]; return num_hex(p._bitfield, HD) + " " + C::gets(p); }   // gray: operator=(int)
        else if constexpr (C::n == 2) { val_t p((int)v[0], (int)v[1]); return num_hex(p._bitfield, HD) + " " + C::gets(p); }
        else if constexpr (C::n == 3) { val_t p((int)v[0], (int)v[1], (int)v[2]); return num_hex(p._bitfield, HD) + " " + C::gets(p); }
        else if constexpr (C::n == 4) { val_t p((int)v[0], (int)v[1], (int)v[2], (int)v[3]); return num_hex(p._bitfield, HD) + " " + C::gets(p); }
        else if constexpr (C::n == 5) { val_t p((int)v[0], (int)v[1], (int)v[2], (int)v[3], (int)v[4]); return num_hex(p._bitfield, HD) + " " + C::gets(p); }
    }
    return out;
}
// dst = src for two compatible packed pixel types
template <typename CD, typename CS> static string passign(const std::vector<string>& w) {
    if (w.size() != 7) return "bad-op";
    if (w[2] != CD::desc()) return "cfg-mismatch:" + CD::desc();
    if (w[4] != CS::desc()) return "cfg-mismatch:" + CS::desc();
    typename CS::val_t s{typename CS::bf_t(parse_hex(w[5]))}; typename CD::val_t d{typename CD::bf_t(parse_hex(w[6]))};
    d = s;
    return num_hex(d._bitfield, sizeof(typename CD::bf_t) * 2) + " " + CD::gets(d) + " " + (d == s ? "eq" : "ne");
}

// ---------------------------------------------------------------- bit-aligned reference ops
template <typename C> static string ba_ops(const std::vector<string>& w) {
    using ref_t = typename C::ref_t; using cref_t = typename C::cref_t; using val_t = typename C::val_t; using it_t = typename C::it_t;
    if (w.size() < 4) return "bad-op";
    if (w[2] != C::desc()) return "cfg-mismatch:" + C::desc();
    string out = "bad-op";
    if (w[0] == "iadv" && w.size() == 5) {
        // 1 GiB of reserved, inaccessible address space (never dereferenced): moves of up to +-2^32 bits stay inside one mapping
        static unsigned char* region = static_cast<unsigned char*>(mmap(nullptr, 1ull << 30, PROT_NONE, MAP_PRIVATE | MAP_ANONYMOUS | MAP_NORESERVE, -1, 0));
        if (region == MAP_FAILED) return "err:mmap";
        unsigned char* base = region + (1ull << 29);
        int off = (int)hv::to_ll(w[3]); long long n = hv::to_ll(w[4]);
        it_t it(base, off); it_t it2 = it + n; it_t it3 = it2 - n; it_t it4 = it; it4 += n;
        auto pos = [&](it_t const& i) { return std::to_string((long long)(i.bit_range().current_byte() - base)) + " " + std::to_string(i.bit_range().bit_offset()); };
        auto rn = it[n];
        return pos(it2) + " " + pos(it3) + " " + std::to_string((long long)(it2 - it)) + " " + std::to_string((long long)(it - it2)) + " "
             + std::to_string((long long)(rn.bit_range().current_byte() - base)) + " " + std::to_string(rn.bit_range().bit_offset()) + " " + pos(it4);
    }
    if (w[0] == "iinc" && w.size() == 5) {
        static std::vector<unsigned char> arena(1 << 20); unsigned char* base = arena.data() + (1 << 19);
        int off = (int)hv::to_ll(w[3]); long long k = hv::to_ll(w[4]);
        it_t it(base, off);
        auto pos = [&](it_t const& i) { return std::to_string((long long)(i.bit_range().current_byte() - base)) + " " + std::to_string(i.bit_range().bit_offset()); };
        for (long long i = 0; i < k; ++i) ++it;
        string a = pos(it);
        for (long long i = 0; i < k; ++i) --it;
        return a + " " + pos(it);
    }
    size_t len = hv::to_ull(w[3]);
    Buf buf(w.back());
    if (buf.n != len) return out;
    if (w[0] == "bget" && w.size() == 7) {
        cref_t r(buf.data() + hv::to_ull(w[4]), (int)hv::to_ll(w[5])); return C::gets(r);
    }
    if (w[0] == "bset" && w.size() == 9) {
        ref_t r(buf.data() + hv::to_ull(w[4]), (int)hv::to_ll(w[5])); int k = (int)hv::to_ll(w[6]); ull v = hv::to_ull(w[7]);
        pick(k, typename C::idx{}, [&](auto kc) { constexpr int K = decltype(kc)::value;
            gil::at_c<K>(r) = (typename std::decay<decltype(gil::at_c<K>(r))>::type::integer_t)v; });
        return buf.hex() + " " + C::gets(r);
    }
    if (w[0] == "barith" && w.size() == 10) {
        ref_t r(buf.data() + hv::to_ull(w[4]), (int)hv::to_ll(w[5])); int k = (int)hv::to_ll(w[6]); long long arg = hv::to_ll(w[8]); bool ok = false;
        pick(k, typename C::idx{}, [&](auto kc) { constexpr int K = decltype(kc)::value; ok = arith(gil::at_c<K>(r), w[7], arg); });
        if (!ok) return out;
        return buf.hex() + " " + C::gets(r);
    }
    if (w[0] == "bassign" && (int)w.size() == 7 + C::n) {
        ref_t r(buf.data() + hv::to_ull(w[4]), (int)hv::to_ll(w[5])); val_t v = C::value(ulls(w, 6, C::n));
        r = v;
        return buf.hex() + " " + C::gets(r) + " " + (r == v ? "eq" : "ne");
    }
    if ((w[0] == "bcopy" || w[0] == "bswap") && w.size() == 9) {
        ref_t a(buf.data() + hv::to_ull(w[4]), (int)hv::to_ll(w[5])); ref_t b(buf.data() + hv::to_ull(w[6]), (int)hv::to_ll(w[7]));
        if (w[0] == "bcopy") { a = b; return buf.hex() + " " + C::gets(a); }
        using std::swap; swap(a, b);
        return buf.hex() + " " + C::gets(a) + " " + C::gets(b);
    }
    if (w[0] == "bfill" && (int)w.size() == 8 + C::n) {
        it_t it(buf.data() + hv::to_ull(w[4]), (int)hv::to_ll(w[5])); long long count = hv::to_ll(w[6]); val_t v = C::value(ulls(w, 7, C::n));
        std::fill(it, it + count, v);
        return buf.hex();
    }
    if (w[0] == "bcpy" && w.size() == 10) {
        it_t s(buf.data() + hv::to_ull(w[4]), (int)hv::to_ll(w[5])); it_t d(buf.data() + hv::to_ull(w[6]), (int)hv::to_ll(w[7])); long long count = hv::to_ll(w[8]);
        std::copy(s, s + count, d);
        return buf.hex();
    }
    return out;
}

using gil::rgb_layout_t; using gil::bgr_layout_t; using gil::rgba_layout_t; using gil::bgra_layout_t; using gil::argb_layout_t; using gil::abgr_layout_t;
using gil::gray_layout_t; using gil::cmyk_layout_t;
using u8 = std::uint8_t; using u16 = std::uint16_t; using u32 = std::uint32_t; using u64 = std::uint64_t;

// packed pixels: (name, part, BitField, Layout, widths...)
#define PP_CFGS(X) \
    X(pp565, 1, u16, rgb_layout_t, 5, 6, 5) X(pp565bgr, 1, u16, bgr_layout_t, 5, 6, 5) X(pp556bgr, 1, u16, bgr_layout_t, 5, 5, 6) \
    X(pp332, 1, u8, rgb_layout_t, 3, 3, 2) X(pp232pad, 1, u16, rgb_layout_t, 2, 3, 2) X(pp232padbgr, 1, u16, bgr_layout_t, 2, 3, 2) \
    X(pp4444, 1, u16, rgba_layout_t, 4, 4, 4, 4) X(pp4444abgr, 1, u16, abgr_layout_t, 4, 4, 4, 4) X(pp1555argb, 1, u16, argb_layout_t, 1, 5, 5, 5) \
    X(ppaaa2, 1, u32, rgba_layout_t, 10, 10, 10, 2) X(pp8888bgra, 1, u32, bgra_layout_t, 8, 8, 8, 8) \
    X(ppg3, 1, u8, gray_layout_t, 3) X(ppg12, 1, u16, gray_layout_t, 12) X(ppcmyk, 1, u64, cmyk_layout_t, 16, 16, 16, 16) \
    X(pp76, 1, u16, gil::devicen_layout_t<2>, 7, 6) X(pp12345, 1, u16, gil::devicen_layout_t<5>, 1, 2, 3, 4, 5)
// compatible pairs with different layouts: (dst, src)
#define PP_PAIRS(X) X(pp565, pp565bgr) X(pp565bgr, pp565) X(pp4444, pp4444abgr) X(pp4444abgr, pp4444) X(pp232pad, pp232padbgr) X(pp232padbgr, pp232pad)
// bit-aligned references: BitField as bit_aligned_image_type chooses it (min_fast_uint<bit_size+7>), plus wider fields
#define BA_CFGS(X) \
    X(bg1, 2, u8, gray_layout_t, 1) X(bg2, 2, u16, gray_layout_t, 2) X(bg4, 2, u16, gray_layout_t, 4) X(bg7, 2, u16, gray_layout_t, 7) \
    X(bg12, 2, u32, gray_layout_t, 12) X(bg16, 2, u32, gray_layout_t, 16) \
    X(b222, 2, u16, rgb_layout_t, 2, 2, 2) X(b222bgr, 2, u16, bgr_layout_t, 2, 2, 2) X(b121, 2, u16, rgb_layout_t, 1, 2, 1) X(b232, 3, u16, rgb_layout_t, 2, 3, 2) \
    X(b565, 3, u32, rgb_layout_t, 5, 6, 5) X(b888, 3, u32, rgb_layout_t, 8, 8, 8) X(b3333, 3, u32, rgba_layout_t, 3, 3, 3, 3) X(b5551abgr, 3, u32, abgr_layout_t, 5, 5, 5, 1) \
    X(baaa, 3, u64, rgb_layout_t, 10, 10, 10) X(b222w, 3, u64, rgb_layout_t, 2, 2, 2) X(b12345, 3, u32, gil::devicen_layout_t<5>, 1, 2, 3, 4, 5) \
    /* TIGHT user-chosen carriers: the bit field is exactly as wide as the pixel (in contract wherever every channel, at its own */ \
    /* normalised first bit, fits the bit field; the generator only issues such positions) */ \
    X(t2222, 4, u8, rgba_layout_t, 2, 2, 2, 2) X(t232, 4, u8, rgb_layout_t, 2, 3, 2) X(t44, 4, u8, gil::devicen_layout_t<2>, 4, 4) \
    X(t565, 4, u16, rgb_layout_t, 5, 6, 5) X(t565bgr, 4, u16, bgr_layout_t, 5, 6, 5) X(t8888, 4, u32, rgba_layout_t, 8, 8, 8, 8) X(tg8, 4, u8, gray_layout_t, 8)

int main() {
    return hv::run([](std::string const& line) -> std::string {
        auto w = hv::words(line);
        if (w.size() < 3) return "bad-op";
        if (w[0] == "passign") {
#if HAS(1)
#define X(d, s) if (w[1] == #d && w.size() > 3 && w[3] == #s) return passign<C_##d, C_##s>(w);
#define Y(name, part, BF, L, ...) using C_##name = Cfg<BF, L, __VA_ARGS__>;
            PP_CFGS(Y)
            PP_PAIRS(X)
#undef X
#undef Y
#endif
            return "bad-op";
        }
        if (w[0][0] == 'p') {
#define X(name, part, BF, L, ...) if (HAS(part) && w[1] == #name) { if constexpr (HAS(part)) return packed_ops<Cfg<BF, L, __VA_ARGS__>>(w); }
            PP_CFGS(X)
#undef X
            return "bad-op";
        }
#define X(name, part, BF, L, ...) if (HAS(part) && w[1] == #name) { if constexpr (HAS(part)) return ba_ops<Cfg<BF, L, __VA_ARGS__>>(w); }
        BA_CFGS(X)
#undef X
        return "bad-op";
    });
}
