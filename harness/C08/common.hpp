// shared helpers of the C08 harnesses: hex in/out, exact-size heap buffers (so that ASan sees any access
// past the bytes a buffer really has)
#pragma once
#include <boost/gil.hpp>
#include "harness.hpp"
#include <memory>
#include <type_traits>
#include <utility>
namespace gil = boost::gil;
namespace mp11 = boost::mp11;
using std::string;
using ull = unsigned long long;

static const char* HEXD = "0123456789abcdef";
inline void put_hex(string& s, ull v, int digits) { for (int d = digits - 1; d >= 0; --d) s.push_back(HEXD[(v >> (4 * d)) & 15]); }
inline string num_hex(ull v, int digits) { string s; put_hex(s, v, digits); return s; }
inline int hexval(char c) { return c <= '9' ? c - '0' : (c | 32) - 'a' + 10; }
inline ull parse_hex(const string& h) { ull v = 0; for (char c : h) v = (v << 4) | (ull)hexval(c); return v; }

struct Buf {   // heap buffer of exactly n bytes
    std::unique_ptr<unsigned char[]> p; size_t n;
    explicit Buf(const string& hex) : p(new unsigned char[hex.size() / 2 ? hex.size() / 2 : 1]), n(hex.size() / 2) {
        for (size_t i = 0; i < n; ++i) p[i] = (unsigned char)(hexval(hex[2 * i]) * 16 + hexval(hex[2 * i + 1])); }
    unsigned char* data() { return p.get(); }
    string hex() const { string s; for (size_t i = 0; i < n; ++i) put_hex(s, p[i], 2); return s; }
};

template <int W> struct uint_of;
template <> struct uint_of<8> { using type = std::uint8_t; };
template <> struct uint_of<16> { using type = std::uint16_t; };
template <> struct uint_of<32> { using type = std::uint32_t; };
template <> struct uint_of<64> { using type = std::uint64_t; };

// call fn(integral_constant<int,V>) for the V of the list that equals v; false if none
template <int... Vs, typename Fn> bool pick(int v, std::integer_sequence<int, Vs...>, Fn&& fn) {
    return ((v == Vs ? (fn(std::integral_constant<int, Vs>{}), true) : false) || ...);
}
