// C08 correspondence harness, part 1: channel references of the real headers.
//   packed_channel_reference<BitField,FirstBit,NumBits,_>   (compile-time first bit; channels of packed_pixel)
//   packed_dynamic_channel_reference<BitField,NumBits,_>    (run-time first bit; channels of bit-aligned pixels)
// Field values are printed as numbers (hex, W/4 digits); buffers as byte strings (hex, memory order).
//
//   ssweep W F N c0 cnt v0 vstep
//        for i < cnt: field = c0+i; ref = (v0 + i*vstep) mod 2^N;   -> <new fields> | <get() through the const reference>
//   sop W F N OP arg field other
//        one operation on a field; `other` is a second field of the same type  -> <field> <other> <get> <aux>
//   dsweep W N len ptr first c0 cnt v0 vstep template
//        buffer of exactly len bytes = template with the counter c0+i stored little-endian in bytes [ptr, ptr+2)
//        (1 byte if only one is left); dynamic reference at (buf+ptr, first); ref = value  -> <buffers> | <gets>
//   dop / xdop W N len ptr first OP arg buffer
//        one operation through the dynamic reference  -> <buffer> <get> <aux>
//        (xdop: channel widths outside the property's quantifier; compared with the model, not judged)
//   pval N v     packed_channel_value<N>(v) through the integer_t and the Scalar constructor
#include "common.hpp"

template <int N> constexpr ull low_mask() { return N >= 64 ? ~0ull : ((1ull << N) - 1); }

// operations shared by both reference kinds. R2 = the reference used as second operand (same kind)
template <typename R, typename R2, typename CR>
static long long apply_op(const string& op, long long arg, R r, R2 r2, CR cr2, bool& ok) {
    using int_t = typename R::integer_t; using val_t = typename R::value_type;
    long long aux = 0; ok = true;
    if (op == "set") r = int_t(arg);
    else if (op == "setr") r = r2;            // from a mutable reference of the same type
    else if (op == "setc") r = cr2;           // from a read-only reference of the same type
    else if (op == "inc") ++r;
    else if (op == "dec") --r;
    else if (op == "pinc") r++;
    else if (op == "pdec") r--;
    else if (op == "add") r += (int)arg;
    else if (op == "sub") r -= (int)arg;
    else if (op == "mul") r *= (int)arg;
    else if (op == "div") r /= (int)arg;
    else if (op == "swp") { using std::swap; swap(r, r2); }
    else if (op == "swv") { val_t x((int_t)arg); using std::swap; swap(r, x); aux = (long long)(int_t)x; }
    else if (op == "get") {}
    else ok = false;
    return aux;
}

template <typename BF, int F, int N> struct S {
    static constexpr int W = sizeof(BF) * 8;
    using ref_t = gil::packed_channel_reference<BF, F, N, true>;
    using cref_t = gil::packed_channel_reference<BF, F, N, false>;
    using dref_t = gil::packed_dynamic_channel_reference<BF, N, true>;
    using int_t = typename ref_t::integer_t;
    static string sweep(ull c0, ull cnt, ull v0, ull vstep) {
        string a, b;
        for (ull i = 0; i < cnt; ++i) {
            BF bf = BF(c0 + i); ull v = (v0 + i * vstep) & low_mask<N>();
            ref_t r(&bf); r = int_t(v);
            put_hex(a, bf, W / 4);
            cref_t cr(&bf); put_hex(b, (ull)cr.get(), (N + 3) / 4);
        }
        return a + " | " + b;
    }
    static string op(const string& o, long long arg, ull field, ull other) {
        BF bf = BF(field), ot = BF(other); ref_t r(&bf); ref_t r2(&ot); cref_t cr2(&ot); bool ok; long long aux = 0;
        if (o == "setd") {            // from a run-time first-bit reference (first bit = arg) on the other field
            dref_t d(&ot, (unsigned)arg); r = d; }
        else { aux = apply_op(o, arg, r, r2, cr2, ok); if (!ok) return "bad-op"; }
        cref_t cr(&bf);
        return num_hex(bf, W / 4) + " " + num_hex(ot, W / 4) + " " + std::to_string((ull)cr.get()) + " " + std::to_string(aux);
    }
};

template <typename BF, int N> struct D {
    static constexpr int W = sizeof(BF) * 8;
    using ref_t = gil::packed_dynamic_channel_reference<BF, N, true>;
    using cref_t = gil::packed_dynamic_channel_reference<BF, N, false>;
    using int_t = typename ref_t::integer_t;
    static string sweep(size_t len, size_t ptr, unsigned first, ull c0, ull cnt, ull v0, ull vstep, const string& templ) {
        string a, b;
        if (templ.size() != 2 * len || ptr >= len) return "bad-op";
        size_t cb = len - ptr >= 2 ? 2 : 1;
        for (ull i = 0; i < cnt; ++i) {
            Buf buf(templ); ull c = c0 + i;
            for (size_t k = 0; k < cb; ++k) buf.data()[ptr + k] = (unsigned char)(c >> (8 * k));
            ull v = (v0 + i * vstep) & low_mask<N>();
            ref_t r(buf.data() + ptr, first); r = int_t(v);
            a += buf.hex();
            cref_t cr(buf.data() + ptr, first); put_hex(b, (ull)cr.get(), (N + 3) / 4);
        }
        return a + " | " + b;
    }
    static string op(size_t len, size_t ptr, unsigned first, const string& o, const string& argS, const string& hex) {
        Buf buf(hex);
        if (buf.n != len || ptr >= len) return "bad-op";
        ref_t r(buf.data() + ptr, first);
        long long arg = 0; size_t p2 = ptr; unsigned f2 = first;
        auto colon = argS.find(':');
        if (colon != string::npos) { p2 = (size_t)hv::to_ll(argS.substr(0, colon)); f2 = (unsigned)hv::to_ll(argS.substr(colon + 1)); }
        else arg = hv::to_ll(argS);
        if (p2 >= len) return "bad-op";
        ref_t r2(buf.data() + p2, f2); cref_t cr2(buf.data() + p2, f2); bool ok;
        long long aux = apply_op(o, arg, r, r2, cr2, ok);
        if (!ok) return "bad-op";
        cref_t cr(buf.data() + ptr, first);
        return buf.hex() + " " + std::to_string((ull)cr.get()) + " " + std::to_string(aux);
    }
};

template <int N> static string pval(long long v) {
    using val_t = gil::packed_channel_value<N>; using int_t = typename val_t::integer_t;
    val_t a((int_t)v); val_t b((int)v); val_t c((long long)v);
    return std::to_string((ull)(int_t)a) + " " + std::to_string((ull)(int_t)b) + " " + std::to_string((ull)(int_t)c);
}

// channel widths the property quantifies over
#define WIDTHS(X) X(1) X(2) X(3) X(4) X(5) X(6) X(7) X(8) X(10) X(12) X(16)

// The translation unit is compiled in parts (-DPART=n, in parallel; as one unit it takes minutes under ASan):
//   1: 8-bit fields (static), every dynamic reference, pval     2: 16-bit static, widths 1..4
//   3: 16-bit static, widths 5..16                              4: 32- and 64-bit static
#ifndef PART
#define PART 0          // 0 = everything (slow to compile)
#endif
#define HAS(p) (PART == 0 || PART == p)

// first bits instantiated for the static reference.  Sweeps: every first bit for 8/16-bit fields;
// single operations (many more template instantiations each): a spread that always contains 0 and W-N
template <int W, int N, bool Sweep> struct firsts { using type = std::make_integer_sequence<int, W - N + 1>; };
template <int N> struct firsts<16, N, false> { using type = std::integer_sequence<int, 0, 1, 3, 5, 8, 11, 16 - N>; };
template <int N, bool Sw> struct firsts<32, N, Sw> { using type = std::integer_sequence<int, 0, 5, 11, 16, 21, 32 - N>; };
template <int N, bool Sw> struct firsts<64, N, Sw> { using type = std::integer_sequence<int, 0, 13, 32, 45, 64 - N>; };
template <int W, int N> constexpr bool width_ok() { return N <= W && (W <= 16 || N == 1 || N == 5 || N == 8 || N == 10 || N == 16); }
template <int W, int N> constexpr bool in_part() {
    return W == 8 ? HAS(1) : W == 16 ? (N <= 4 ? HAS(2) : HAS(3)) : HAS(4); }

template <int W, bool Sweep, typename Fn> static bool with_static(int F, int N, Fn&& fn) {
    using BF = typename uint_of<W>::type; bool done = false;
#define X(n) if (!done && N == n) { if constexpr (width_ok<W, n>() && in_part<W, n>()) { done = pick(F, typename firsts<W, n, Sweep>::type{}, [&](auto fc) { \
        constexpr int Fc = decltype(fc)::value; if constexpr (Fc >= 0 && Fc + n <= W) fn(S<BF, Fc, n>{}); }); } }
    WIDTHS(X)
#undef X
    return done;
}
template <int W, typename Fn> static bool with_dynamic(int N, Fn&& fn) {
    using BF = typename uint_of<W>::type; bool done = false;
#if HAS(1)
#define X(n) if (!done && N == n) { if constexpr (n + 7 <= W || n <= 8) { fn(D<BF, n>{}); done = true; } }
    WIDTHS(X)
#undef X
#endif
    return done;
}

int main() {
    return hv::run([](std::string const& line) -> std::string {
        auto w = hv::words(line); string out = "bad-op";
        if (w.empty()) return out;
        if (w[0] == "ssweep" && w.size() == 8) {
            int W = (int)hv::to_ll(w[1]), F = (int)hv::to_ll(w[2]), N = (int)hv::to_ll(w[3]);
            ull c0 = hv::to_ull(w[4]), cnt = hv::to_ull(w[5]), v0 = hv::to_ull(w[6]), vs = hv::to_ull(w[7]);
            auto fn = [&](auto s) { out = decltype(s)::sweep(c0, cnt, v0, vs); };
            if (W == 8) with_static<8, true>(F, N, fn); else if (W == 16) with_static<16, true>(F, N, fn);
            else if (W == 32) with_static<32, true>(F, N, fn); else if (W == 64) with_static<64, true>(F, N, fn);
            return out;
        }
        if (w[0] == "sop" && w.size() == 8) {
            int W = (int)hv::to_ll(w[1]), F = (int)hv::to_ll(w[2]), N = (int)hv::to_ll(w[3]);
            long long arg = hv::to_ll(w[5]); ull field = parse_hex(w[6]), other = parse_hex(w[7]);
            auto fn = [&](auto s) { out = decltype(s)::op(w[4], arg, field, other); };
            if (W == 8) with_static<8, false>(F, N, fn); else if (W == 16) with_static<16, false>(F, N, fn);
            else if (W == 32) with_static<32, false>(F, N, fn); else if (W == 64) with_static<64, false>(F, N, fn);
            return out;
        }
        if (w[0] == "dsweep" && w.size() == 11) {
            int W = (int)hv::to_ll(w[1]), N = (int)hv::to_ll(w[2]);
            size_t len = hv::to_ull(w[3]), ptr = hv::to_ull(w[4]); unsigned first = (unsigned)hv::to_ull(w[5]);
            ull c0 = hv::to_ull(w[6]), cnt = hv::to_ull(w[7]), v0 = hv::to_ull(w[8]), vs = hv::to_ull(w[9]);
            auto fn = [&](auto d) { out = decltype(d)::sweep(len, ptr, first, c0, cnt, v0, vs, w[10]); };
            if (W == 8) with_dynamic<8>(N, fn); else if (W == 16) with_dynamic<16>(N, fn);
            else if (W == 32) with_dynamic<32>(N, fn); else if (W == 64) with_dynamic<64>(N, fn);
            return out;
        }
        if (w[0] == "dop" && w.size() == 9) {
            int W = (int)hv::to_ll(w[1]), N = (int)hv::to_ll(w[2]);
            size_t len = hv::to_ull(w[3]), ptr = hv::to_ull(w[4]); unsigned first = (unsigned)hv::to_ull(w[5]);
            auto fn = [&](auto d) { out = decltype(d)::op(len, ptr, first, w[6], w[7], w[8]); };
            if (W == 8) with_dynamic<8>(N, fn); else if (W == 16) with_dynamic<16>(N, fn);
            else if (W == 32) with_dynamic<32>(N, fn); else if (W == 64) with_dynamic<64>(N, fn);
            return out;
        }
#if HAS(1)
        if (w[0] == "xdop" && w.size() == 9) {     // 64-bit field, channels of 24 and 32 bits
            int N = (int)hv::to_ll(w[2]);
            size_t len = hv::to_ull(w[3]), ptr = hv::to_ull(w[4]); unsigned first = (unsigned)hv::to_ull(w[5]);
            if (hv::to_ll(w[1]) != 64) return out;
            if (N == 24) return D<std::uint64_t, 24>::op(len, ptr, first, w[6], w[7], w[8]);
            if (N == 32) return D<std::uint64_t, 32>::op(len, ptr, first, w[6], w[7], w[8]);
            return out;
        }
        if (w[0] == "pval" && w.size() == 3) {
            int N = (int)hv::to_ll(w[1]); long long v = hv::to_ll(w[2]);
#define X(n) if (N == n) return pval<n>(v);
            WIDTHS(X)
#undef X
        }
#endif
        return out;
    });
}
