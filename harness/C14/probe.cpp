// C14 build-time probes: does the any_image_view overload of one lifted operation compile on the tree under test?
// Compiled with -fsyntax-only -DPROBE_<FEATURE>; a failure is an OBSERVATION (the harness then answers
// `A:err:no-compile` for that operation), never a harness failure.
#include "c14.hpp"
using namespace c14;
void probe() {
    L6 a(gil::rgb8_image_t(3, 2));
    auto v = gil::view(a);
#ifdef PROBE_TRANSPOSED
    auto r = gil::transposed_view(v);
#endif
#ifdef PROBE_NTH
    auto r = gil::nth_channel_view(v, 1);
#endif
#ifdef PROBE_ANYCC
    auto r = gil::any_color_converted_view<gil::gray8_pixel_t>(v);
    auto r2 = gil::any_color_converted_view<gil::gray8_pixel_t>(v, sum_cc());
    (void)r2;
#endif
    (void)r.width();
}
