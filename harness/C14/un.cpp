// C14 harness: unary algorithms on run-time typed views.
//   fill <T> <P> <w> <h> <s> <c0> <c1> <c2> <c3>
//        fill_pixels(any_image_view holding T, pixel value of type P whose SEMANTIC channel k is c_k mod 2^depth(P))
//        P in g8 rgb8 bgr8 rgba8 rgb16 g1 (value_type of the corresponding alternative)
//     -> compat=<pixels_are_compatible<V::value_type,P>>  A:<ok|err:bad_cast> dst=<hex> | C:<ok dst=<hex>|n/a> | D0=<hex>
//   foreach <T> <w> <h> <s>
//        for_each_pixel(any view, F), F adds its call counter to physical channel 0 (mod 2^depth) and counts calls
//     -> A:ok n=<calls of the returned functor> dst=<hex> | C:ok n= dst=
//   xfill <T> <P> <w> <h> <s> <kind> <a> <b> <c0> <c1> <c2> <c3>      P in g8 bgr8 rgb16 argb8 g16
//        fill_pixels THROUGH A LIFTED TRANSFORMATION of the run-time typed view (the algorithm runs on the mapped type list):
//        kind = fliplr: flipped_left_right_view(v);  subs: subsampled_view(v, a, b);  sub: subimage_view(v, a, b, w-a, h-b)
//     -> compat= A:<ok|err:bad_cast> dst=<hex of the WHOLE image> | C:<ok dst=|n/a> | D0=<hex>
//   xforeach <T> <w> <h> <s> <kind> <a> <b>      for_each_pixel through the same lifted transformations
//     -> A:ok n= dst=<whole image> | C:ok n= dst=
#include "c14.hpp"
using namespace c14;

struct counting_fn {
    long long n = 0; int depth = 8;
    template <typename P> void operator()(P&& p) {      // P: pixel reference (proxy or lvalue)
        uint64_t cur = static_cast<uint64_t>(gil::at_c<0>(p));
        auto c = gil::at_c<0>(p);
        gil::at_c<0>(p) = static_cast<typename gil::channel_traits<typename std::decay<decltype(c)>::type>::value_type>((cur + (uint64_t)n) & ((1ull << depth) - 1ull));
        ++n;
    }
};

template <typename PImg> typename PImg::view_t::value_type make_pixel(uint64_t const* c) {
    typename PImg::view_t::value_type p;
    constexpr int N = gil::num_channels<typename PImg::view_t>::value;
    for_chan<N>([&](auto k) { gil::semantic_at_c<decltype(k)::value>(p) = c[decltype(k)::value] & ((1ull << info<PImg>::depth) - 1ull); });
    return p;
}

template <typename PImg>
std::string run_fill(std::string const& T, std::ptrdiff_t w, std::ptrdiff_t h, uint64_t s, uint64_t const* c) {
    std::string out = "bad-type";
    auto pv = make_pixel<PImg>(c);
    using P = decltype(pv);
    with_type<L7>(T, [&](auto tc) {
        using Img = typename decltype(tc)::type;
        constexpr bool compat = gil::pixels_are_compatible<typename Img::view_t::value_type, P>::value;
        int d = info<Img>::depth;
        L7 a(make<Img>(w, h, s));
        std::string D0 = dump_any(gil::const_view(a), d), st = "ok";
        try { gil::fill_pixels(gil::view(a), pv); } catch (std::exception const& e) { st = exc_name(e); }
        std::string A = "A:" + st + " dst=" + dump_any(gil::const_view(a), d), C = "C:n/a";
        if constexpr (compat) { Img ci = make<Img>(w, h, s); gil::fill_pixels(gil::view(ci), pv); C = "C:ok dst=" + dump(gil::const_view(ci), d); }
        out = std::string("compat=") + (compat ? "1" : "0") + " " + A + " | " + C + " | D0=" + D0;
    });
    return out;
}

std::string run_foreach(std::string const& T, std::ptrdiff_t w, std::ptrdiff_t h, uint64_t s) {
    std::string out = "bad-type";
    with_type<L7>(T, [&](auto tc) {
        using Img = typename decltype(tc)::type;
        int d = info<Img>::depth;
        L7 a(make<Img>(w, h, s));
        counting_fn f0; f0.depth = d;
        counting_fn fa = gil::for_each_pixel(gil::view(a), f0);
        std::string A = "A:ok n=" + std::to_string(fa.n) + " dst=" + dump_any(gil::const_view(a), d);
        Img ci = make<Img>(w, h, s);
        counting_fn fc = gil::for_each_pixel(gil::view(ci), f0);
        out = A + " | C:ok n=" + std::to_string(fc.n) + " dst=" + dump(gil::const_view(ci), d);
    });
    return out;
}

template <typename V, typename F> void with_kind(std::string const& kind, std::ptrdiff_t a, std::ptrdiff_t b, std::ptrdiff_t w, std::ptrdiff_t h, V const& v, F&& f) {
    if (kind == "fliplr") f(gil::flipped_left_right_view(v));
    else if (kind == "subs") f(gil::subsampled_view(v, a, b));
    else f(gil::subimage_view(v, a, b, w - a, h - b));
}

template <typename PImg>
std::string run_xfill(std::string const& T, std::ptrdiff_t w, std::ptrdiff_t h, uint64_t s, std::string const& kind, std::ptrdiff_t ka, std::ptrdiff_t kb, uint64_t const* c) {
    std::string out = "bad-type";
    auto pv = make_pixel<PImg>(c);
    using P = decltype(pv);
    with_type<L7>(T, [&](auto tc) {
        using Img = typename decltype(tc)::type;
        constexpr bool compat = gil::pixels_are_compatible<typename Img::view_t::value_type, P>::value;
        int d = info<Img>::depth;
        L7 a(make<Img>(w, h, s));
        std::string D0 = dump_any(gil::const_view(a), d), st = "ok";
        with_kind(kind, ka, kb, w, h, gil::view(a), [&](auto const& av) {
            try { gil::fill_pixels(av, pv); } catch (std::exception const& e) { st = exc_name(e); } });
        std::string A = "A:" + st + " dst=" + dump_any(gil::const_view(a), d), C = "C:n/a";
        if constexpr (compat) {
            Img ci = make<Img>(w, h, s);
            with_kind(kind, ka, kb, w, h, gil::view(ci), [&](auto const& cv) { gil::fill_pixels(cv, pv); });
            C = "C:ok dst=" + dump(gil::const_view(ci), d);
        }
        out = std::string("compat=") + (compat ? "1" : "0") + " " + A + " | " + C + " | D0=" + D0;
    });
    return out;
}

std::string run_xforeach(std::string const& T, std::ptrdiff_t w, std::ptrdiff_t h, uint64_t s, std::string const& kind, std::ptrdiff_t ka, std::ptrdiff_t kb) {
    std::string out = "bad-type";
    with_type<L7>(T, [&](auto tc) {
        using Img = typename decltype(tc)::type;
        int d = info<Img>::depth;
        L7 a(make<Img>(w, h, s));
        counting_fn f0; f0.depth = d;
        counting_fn fa, fc;
        with_kind(kind, ka, kb, w, h, gil::view(a), [&](auto const& av) { fa = gil::for_each_pixel(av, f0); });
        std::string A = "A:ok n=" + std::to_string(fa.n) + " dst=" + dump_any(gil::const_view(a), d);
        Img ci = make<Img>(w, h, s);
        with_kind(kind, ka, kb, w, h, gil::view(ci), [&](auto const& cv) { fc = gil::for_each_pixel(cv, f0); });
        out = A + " | C:ok n=" + std::to_string(fc.n) + " dst=" + dump(gil::const_view(ci), d);
    });
    return out;
}

int main() {
    return hv::run([](std::string const& line) -> std::string {
        auto a = op_words(line);
        if (a.size() == 10 && a[0] == "fill") {
            std::string T = a[1], P = a[2]; std::ptrdiff_t w = hv::to_ll(a[3]), h = hv::to_ll(a[4]); uint64_t s = hv::to_ull(a[5]);
            uint64_t c[4] = { hv::to_ull(a[6]), hv::to_ull(a[7]), hv::to_ull(a[8]), hv::to_ull(a[9]) };
            if (P == "g8")    return run_fill<gil::gray8_image_t>(T, w, h, s, c);
            if (P == "rgb8")  return run_fill<gil::rgb8_image_t>(T, w, h, s, c);
            if (P == "bgr8")  return run_fill<gil::bgr8_image_t>(T, w, h, s, c);
            if (P == "rgba8") return run_fill<gil::rgba8_image_t>(T, w, h, s, c);
            if (P == "rgb16") return run_fill<gil::rgb16_image_t>(T, w, h, s, c);
            if (P == "g1")    return run_fill<g1_image_t>(T, w, h, s, c);
            if (P == "g16")   return run_fill<gil::gray16_image_t>(T, w, h, s, c);
            if (P == "argb8") return run_fill<gil::argb8_image_t>(T, w, h, s, c);
            if (P == "cmyk8") return run_fill<gil::cmyk8_image_t>(T, w, h, s, c);
            return "bad-op";
        }
        if (a.size() == 13 && a[0] == "xfill") {
            std::string T = a[1], P = a[2]; std::ptrdiff_t w = hv::to_ll(a[3]), h = hv::to_ll(a[4]); uint64_t s = hv::to_ull(a[5]);
            std::string kind = a[6]; std::ptrdiff_t ka = hv::to_ll(a[7]), kb = hv::to_ll(a[8]);
            if (!(kind == "fliplr" || (kind == "subs" && ka >= 1 && kb >= 1) || (kind == "sub" && ka >= 0 && kb >= 0 && ka < w && kb < h)) || w < 1 || h < 1) return "bad-op";
            uint64_t c[4] = { hv::to_ull(a[9]), hv::to_ull(a[10]), hv::to_ull(a[11]), hv::to_ull(a[12]) };
            if (P == "g8")    return run_xfill<gil::gray8_image_t>(T, w, h, s, kind, ka, kb, c);
            if (P == "bgr8")  return run_xfill<gil::bgr8_image_t>(T, w, h, s, kind, ka, kb, c);
            if (P == "rgb16") return run_xfill<gil::rgb16_image_t>(T, w, h, s, kind, ka, kb, c);
            if (P == "argb8") return run_xfill<gil::argb8_image_t>(T, w, h, s, kind, ka, kb, c);
            if (P == "g16")   return run_xfill<gil::gray16_image_t>(T, w, h, s, kind, ka, kb, c);
            return "bad-op";
        }
        if (a.size() == 8 && a[0] == "xforeach") {
            std::ptrdiff_t w = hv::to_ll(a[2]), h = hv::to_ll(a[3]); std::string kind = a[5]; std::ptrdiff_t ka = hv::to_ll(a[6]), kb = hv::to_ll(a[7]);
            if (!(kind == "fliplr" || (kind == "subs" && ka >= 1 && kb >= 1) || (kind == "sub" && ka >= 0 && kb >= 0 && ka < w && kb < h)) || w < 1 || h < 1) return "bad-op";
            return run_xforeach(a[1], w, h, hv::to_ull(a[4]), kind, ka, kb);
        }
        if (a.size() == 5 && a[0] == "foreach") return run_foreach(a[1], hv::to_ll(a[2]), hv::to_ll(a[3]), hv::to_ull(a[4]));
        return "bad-op";
    });
}
