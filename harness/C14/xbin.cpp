// C14 harness: binary algorithms on run-time typed views that are RESULTS OF LIFTED TRANSFORMATIONS (both visits run on
// mapped type lists of step views; see bin.hpp for the op format and the modes):
//   xcopy  <mode> T1 T2 w h w h s1 s2 dpos     copy_pixels(flipped_left_right_view(src), rotated180_view(dst))
//   xequal <mode> T1 T2 w h w h s1 s2 dpos     equal_pixels(subsampled_view(src, 2, 1), subsampled_view(dst, 2, 1))
// The same expression is evaluated on the run-time typed views (part A) and on the concrete views (part C); the WHOLE
// destination / source images are dumped.
#include "bin.hpp"
using namespace c14;
struct XCopyAlg { static constexpr bool needs_equal_dims = true; static constexpr bool needs_compat = true;
    template <class S, class D> std::string operator()(S const& s, D const& d) const {
        gil::copy_pixels(gil::flipped_left_right_view(s), gil::rotated180_view(d)); return ""; } };
struct XEqualAlg { static constexpr bool needs_equal_dims = true; static constexpr bool needs_compat = true;
    template <class S, class D> std::string operator()(S const& s, D const& d) const {
        return std::string(" r=") + (gil::equal_pixels(gil::subsampled_view(s, 2, 1), gil::subsampled_view(d, 2, 1)) ? "1" : "0"); } };
int main() {
    return hv::run([](std::string const& line) -> std::string {
        auto a = op_words(line);
        if (!a.empty() && a[0] == "xcopy") return run_bin_line<L7>(XCopyAlg(), a);
        if (!a.empty() && a[0] == "xequal") return run_bin_line<L7>(XEqualAlg(), a);
        return "bad-op";
    });
}
