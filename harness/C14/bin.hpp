// C14 harness: binary algorithms on run-time typed views, generic driver.
//   <alg> <mode> <T1> <T2> <w1> <h1> <w2> <h2> <s1> <s2> <dpos> [alg parameters]
//     mode aa: (any_image_view, any_image_view)   ka: (const any view, any view)
//          ac: (any view, concrete view)          ca: (concrete view, any view)
//     source image: T1 w1 x h1 content seed s1; destination image: T2 w2 x h2 content seed s2,
//     then, if 0 <= dpos < w2*h2, bit 0 of physical channel 0 of destination pixel number dpos is toggled
//   ->  compat=<views_are_compatible<V1,V2>>  A:<ok|err:bad_cast|...> [r=<returned bool>] dst=<hex> src=<hex>
//        | C:<ok [r=] dst=<hex> | n/a>      (the same call on the concrete views; n/a when it is not defined for the pair)
//        | D0=<destination before the call>
//     When the pair is one for which the call is defined (compatible, or a converting algorithm) and the concrete call
//     terminates the process (copy_pixels / equal_pixels assert equal dimensions), both paths are probed in forked
//     children:  compat=.. A:<assert|ok...> | C:assert | D0=..   -- the run-time typed call must die the same way.
#pragma once
#include "c14.hpp"
#ifndef BIN_MODE_MASK
#define BIN_MODE_MASK 15      // which modes this translation unit instantiates: 1 aa, 2 ka, 4 ac, 8 ca
#endif

namespace c14 {

template <typename AnyImg, typename Alg>
std::string run_bin(Alg const& alg, std::string const& mode, std::string const& T1, std::string const& T2,
                    std::ptrdiff_t w1, std::ptrdiff_t h1, std::ptrdiff_t w2, std::ptrdiff_t h2, uint64_t s1, uint64_t s2, long long dpos) {
    std::string out = "bad-type";
    with_type<AnyImg>(T1, [&](auto t1) { with_type<AnyImg>(T2, [&](auto t2) {
        using I1 = typename decltype(t1)::type; using I2 = typename decltype(t2)::type;
        constexpr bool compat = gil::views_are_compatible<typename I1::view_t, typename I2::view_t>::value;
        int d1 = info<I1>::depth, d2 = info<I2>::depth;
        std::ptrdiff_t tx = (w2 > 0 && dpos >= 0) ? dpos % w2 : -1, ty = (w2 > 0 && dpos >= 0) ? dpos / w2 : -1;
        // ---- through the run-time typed interface
        AnyImg a(make<I1>(w1, h1, s1)), b(make<I2>(w2, h2, s2));
        toggle_at(gil::view(v2::get<I2>(b)), tx, ty);
        std::string D0 = dump_any(gil::const_view(b), d2);
        auto call_any = [&]() -> std::string {
            if (false) {}
#if BIN_MODE_MASK & 1
            else if (mode == "aa") return alg(gil::view(a), gil::view(b));
#endif
#if BIN_MODE_MASK & 2
            else if (mode == "ka") return alg(gil::const_view(a), gil::view(b));
#endif
#if BIN_MODE_MASK & 4
            else if (mode == "ac") return alg(gil::view(a), gil::view(v2::get<I2>(b)));
#endif
#if BIN_MODE_MASK & 8
            else if (mode == "ca") return alg(gil::view(v2::get<I1>(a)), gil::view(b));
#endif
            return "other-tu";
        };
        if constexpr (compat || !Alg::needs_compat) {
            if (Alg::needs_equal_dims && (gil::view(v2::get<I1>(a)).dimensions() != gil::view(v2::get<I2>(b)).dimensions())) {
                bool cdies = dies([&] { alg(gil::view(v2::get<I1>(a)), gil::view(v2::get<I2>(b))); });
                if (cdies) {
                    bool adies = dies([&] { call_any(); });
                    std::string A = "A:assert";
                    if (!adies) { std::string st = "ok", r; try { r = call_any(); } catch (std::exception const& e) { st = exc_name(e); r = ""; }
                                  A = "A:" + st + r + " dst=" + dump_any(gil::const_view(b), d2); }
                    out = std::string("compat=") + (compat ? "1" : "0") + " " + A + " | C:assert | D0=" + D0;
                    return;
                }
            }
        }
        std::string st = "ok", r;
        try {
            if (false) {}
#if BIN_MODE_MASK & 1
            else if (mode == "aa") r = alg(gil::view(a), gil::view(b));
#endif
#if BIN_MODE_MASK & 2
            else if (mode == "ka") r = alg(gil::const_view(a), gil::view(b));
#endif
#if BIN_MODE_MASK & 4
            else if (mode == "ac") r = alg(gil::view(a), gil::view(v2::get<I2>(b)));
#endif
#if BIN_MODE_MASK & 8
            else if (mode == "ca") r = alg(gil::view(v2::get<I1>(a)), gil::view(b));
#endif
            else st = "other-tu";
        } catch (std::exception const& e) { st = exc_name(e); r = ""; }
        std::string A = "A:" + st + r + " dst=" + dump_any(gil::const_view(b), d2) + " src=" + dump_any(gil::const_view(a), d1);
        // ---- the same call on the concrete views
        std::string C = "C:n/a";
        if constexpr (compat || !Alg::needs_compat) {
            I1 c1 = make<I1>(w1, h1, s1); I2 c2 = make<I2>(w2, h2, s2);
            toggle_at(gil::view(c2), tx, ty);
            std::string rc = alg(gil::view(c1), gil::view(c2));
            C = "C:ok" + rc + " dst=" + dump(gil::const_view(c2), d2);
        }
        out = std::string("compat=") + (compat ? "1" : "0") + " " + A + " | " + C + " | D0=" + D0;
    }); });
    return out;
}

template <typename AnyImg, typename Alg>
std::string run_bin_line(Alg const& alg, std::vector<std::string> const& a) {
    if (a.size() < 11) return "bad-op";
    return run_bin<AnyImg>(alg, a[1], a[2], a[3], hv::to_ll(a[4]), hv::to_ll(a[5]), hv::to_ll(a[6]), hv::to_ll(a[7]),
                           hv::to_ull(a[8]), hv::to_ull(a[9]), hv::to_ll(a[10]));
}

}  // namespace c14
