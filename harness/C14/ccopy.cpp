// C14 harness: copy_and_convert_pixels on run-time typed views (see bin.hpp), list L6 (the library converts to
// rgba from homogeneous pixels only, so the bit-aligned alternative cannot be part of a converting cross product):
//   ccopy  <mode> T1 T2 w1 h1 w2 h2 s1 s2 dpos      default_color_converter overloads
//   ccopyx <mode> T1 T2 w1 h1 w2 h2 s1 s2 dpos      overloads taking a colour converter: sum_cc(cc_offset(s1)), a STATEFUL converter
#include "bin.hpp"
using namespace c14;
struct CCopyAlg { static constexpr bool needs_equal_dims = true; static constexpr bool needs_compat = false;
    template <class S, class D> std::string operator()(S const& s, D const& d) const { gil::copy_and_convert_pixels(s, d); return ""; } };
struct CCopyXAlg { static constexpr bool needs_equal_dims = true; static constexpr bool needs_compat = false; uint64_t off = 0;
    template <class S, class D> std::string operator()(S const& s, D const& d) const { gil::copy_and_convert_pixels(s, d, sum_cc(off)); return ""; } };
int main() {
    return hv::run([](std::string const& line) -> std::string {
        auto a = op_words(line);
#if CC_GROUP == 1
        if (!a.empty() && a[0] == "ccopy") return run_bin_line<L6>(CCopyAlg(), a);
#else
        if (a.size() >= 11 && a[0] == "ccopyx") { CCopyXAlg alg; alg.off = cc_offset(hv::to_ull(a[8])); return run_bin_line<L6>(alg, a); }
#endif
        return "bad-op";
    });
}
