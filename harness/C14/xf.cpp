// C14 harness, view transformations lifted to any_image_view.
//
//   xf <T> <w> <h> <s> <op> [params]
//     op: id | flipud | fliplr | transpose | rot90cw | rot90ccw | rot180
//         | sub x0 y0 w h   (point overload)      | sub5 x0 y0 w h  (x,y,w,h overload)
//         | subs sx sy      (point overload)      | subs2 sx sy     (two-integer overload)
//         | nth n | cc <P> | ccx <P> | anycc <P> | anyccx <P>          P in g8 rgb8 bgr8 rgba8 rgb16
//           (ccx / anyccx pass the STATEFUL user converter sum_cc(cc_offset(s)))
//   ->  A:<status> i=<index of the result variant> ty=<1 iff the held alternative has the type of the concrete result>
//          w= h= nc= sz= px=<pixels read through the any result> src=<source image after writing through the any result>
//     | C:ok w= h= nc= sz= px= src=       the same operation on the concrete view
//   (any_image_view::width/height/num_channels/size are the variant's own members; px is read by visiting)
//   The write probe toggles bit 0 of physical channel 0 of pixel (0,0) of the RESULT view (writable results only,
//   non-empty only), then dumps the whole source image: a view transformation must alias the source.
//
//   xf2 <T> <w> <h> <s> <op1> [params] then <op2> [params]
//     op2(op1(view)): the second lifted transformation runs on the mapped type list produced by the first one
//     (any_image_view of step views / of a sub-rectangle). op1 geometric (flip*, rot*, transpose, sub, subs);
//     op2 geometric, nth n (list without g1) or cc g8 / ccx rgb8. Same observation format.
//
//   Operations whose any_image_view overload does not compile on the tree under test are compiled out by the
//   check (no HAVE_<FEATURE> define) and answer  A:err:no-compile.
#include "c14.hpp"
using namespace c14;
#ifndef XF_GROUP
#error "compile with -DXF_GROUP=1..13 (1 geometry, 2 sub/subsample/nth, 3 cc, 4 ccx, 5 any_color_converted_view, 6..13 compositions: one first op each)"
#endif

template <typename P> struct pinfo;
template <> struct pinfo<gil::gray8_pixel_t>  { static constexpr int depth = 8; };
template <> struct pinfo<gil::rgb8_pixel_t>   { static constexpr int depth = 8; };
template <> struct pinfo<gil::bgr8_pixel_t>   { static constexpr int depth = 8; };
template <> struct pinfo<gil::rgba8_pixel_t>  { static constexpr int depth = 8; };
template <> struct pinfo<gil::rgb16_pixel_t>  { static constexpr int depth = 16; };

struct op_base { static constexpr bool writable = true; static constexpr bool compiled = true; int out_depth(int d) const { return d; } };
struct Id      : op_base { template <class V> auto any(V const& v) const { return v; }  template <class V> auto conc(V const& v) const { return v; } };
#define GEOM(NAME, CALL) struct NAME : op_base { \
    template <class V> auto any(V const& v) const { return gil::CALL(v); } \
    template <class V> auto conc(V const& v) const { return gil::CALL(v); } };
GEOM(FlipUD, flipped_up_down_view) GEOM(FlipLR, flipped_left_right_view) GEOM(Rot90cw, rotated90cw_view)
GEOM(Rot90ccw, rotated90ccw_view) GEOM(Rot180, rotated180_view)
#ifdef HAVE_TRANSPOSED
GEOM(Transposed, transposed_view)
#else
struct Transposed : op_base { static constexpr bool compiled = false;
    template <class V> auto conc(V const& v) const { return gil::transposed_view(v); } };
#endif
struct Sub  : op_base { std::ptrdiff_t x0, y0, w, h;
    template <class V> auto any(V const& v) const { return gil::subimage_view(v, gil::point_t(x0, y0), gil::point_t(w, h)); }
    template <class V> auto conc(V const& v) const { return gil::subimage_view(v, gil::point_t(x0, y0), gil::point_t(w, h)); } };
struct Sub5 : op_base { std::ptrdiff_t x0, y0, w, h;
    template <class V> auto any(V const& v) const { return gil::subimage_view(v, x0, y0, w, h); }
    template <class V> auto conc(V const& v) const { return gil::subimage_view(v, x0, y0, w, h); } };
struct Subs : op_base { std::ptrdiff_t sx, sy;
    template <class V> auto any(V const& v) const { return gil::subsampled_view(v, gil::point_t(sx, sy)); }
    template <class V> auto conc(V const& v) const { return gil::subsampled_view(v, gil::point_t(sx, sy)); } };
struct Subs2 : op_base { std::ptrdiff_t sx, sy;
    template <class V> auto any(V const& v) const { return gil::subsampled_view(v, sx, sy); }
    template <class V> auto conc(V const& v) const { return gil::subsampled_view(v, sx, sy); } };
struct Nth : op_base { int n;
#ifdef HAVE_NTH
    template <class V> auto any(V const& v) const { return gil::nth_channel_view(v, n); }
#else
    static constexpr bool compiled = false;
#endif
    template <class V> auto conc(V const& v) const { return gil::nth_channel_view(v, n); } };
struct ro_base : op_base { static constexpr bool writable = false; uint64_t off = 0; };   // off: state of the user converter
template <class P> struct CC : ro_base { int out_depth(int) const { return pinfo<P>::depth; }
    template <class V> auto any(V const& v) const { return gil::color_converted_view<P>(v); }
    template <class V> auto conc(V const& v) const { return gil::color_converted_view<P>(v); } };
template <class P> struct CCX : ro_base { int out_depth(int) const { return pinfo<P>::depth; }
    template <class V> auto any(V const& v) const { return gil::color_converted_view<P>(v, sum_cc(off)); }
    template <class V> auto conc(V const& v) const { return gil::color_converted_view<P>(v, sum_cc(off)); } };
template <class P> struct AnyCC : ro_base { int out_depth(int) const { return pinfo<P>::depth; }
#ifdef HAVE_ANYCC
    template <class V> auto any(V const& v) const { return gil::any_color_converted_view<P>(v); }
#else
    static constexpr bool compiled = false;
#endif
    template <class V> auto conc(V const& v) const { return gil::color_converted_view<P>(v); } };
template <class P> struct AnyCCX : ro_base { int out_depth(int) const { return pinfo<P>::depth; }
#ifdef HAVE_ANYCC
    template <class V> auto any(V const& v) const { return gil::any_color_converted_view<P>(v, sum_cc(off)); }
#else
    static constexpr bool compiled = false;
#endif
    template <class V> auto conc(V const& v) const { return gil::color_converted_view<P>(v, sum_cc(off)); } };

template <typename View> void toggle00(View const& v) { toggle_at(v, 0, 0); }

template <typename AnyImg, typename Op>
std::string run_xf(std::string const& T, std::ptrdiff_t w, std::ptrdiff_t h, uint64_t s, Op const& op) {
    std::string out = "bad-type";
    with_type<AnyImg>(T, [&](auto tc) {
        using Img = typename decltype(tc)::type;
        int din = info<Img>::depth, dout = op.out_depth(din);
        // concrete path
        Img cimg = make<Img>(w, h, s);
        auto cr = op.conc(gil::view(cimg));
        using conc_result_t = decltype(cr);
        std::string C = "C:ok " + describe(cr, dout);
        if constexpr (Op::writable) toggle00(cr);
        C += " src=" + dump(gil::const_view(cimg), din);
        // any path (the any_image holds its own deep copy of the same content)
        if constexpr (Op::compiled) {
            AnyImg a(make<Img>(w, h, s));
            auto av = gil::view(a);
            auto ar = op.any(av);
            bool ty = v2::visit([](auto const& v) { return std::is_same<typename std::decay<decltype(v)>::type, conc_result_t>::value; }, ar);
            std::string A = "A:ok i=" + std::to_string(ar.index()) + " ty=" + (ty ? "1" : "0") + " " + describe_any(ar, dout);
            if constexpr (Op::writable) v2::visit([](auto const& v) { toggle00(v); }, ar);
            A += " src=" + dump_any(gil::const_view(a), din);
            out = A + " | " + C;
        } else out = "A:err:no-compile | " + C;
    });
    return out;
}

template <typename AnyImg, template <class> class OpT>
std::string by_pixel(std::string const& P, std::string const& T, std::ptrdiff_t w, std::ptrdiff_t h, uint64_t s) {
    if (P == "g8") { OpT<gil::gray8_pixel_t> o; o.off = cc_offset(s); return run_xf<AnyImg>(T, w, h, s, o); }
    if (P == "rgb8") { OpT<gil::rgb8_pixel_t> o; o.off = cc_offset(s); return run_xf<AnyImg>(T, w, h, s, o); }
    if (P == "bgr8") { OpT<gil::bgr8_pixel_t> o; o.off = cc_offset(s); return run_xf<AnyImg>(T, w, h, s, o); }
    if (P == "rgb16") { OpT<gil::rgb16_pixel_t> o; o.off = cc_offset(s); return run_xf<AnyImg>(T, w, h, s, o); }
    return "bad-op";
}
// destination rgba: the library converts to rgba for homogeneous sources only, so the list without g1 is used
template <template <class> class OpT>
std::string by_pixel_all(std::string const& P, std::string const& T, std::ptrdiff_t w, std::ptrdiff_t h, uint64_t s) {
    if (P == "rgba8") { OpT<gil::rgba8_pixel_t> o; o.off = cc_offset(s); return run_xf<L6>(T, w, h, s, o); }
    return by_pixel<L7, OpT>(P, T, w, h, s);
}


// ---- compositions of two lifted transformations
template <typename AnyImg, typename Op1, typename Op2>
std::string run_xf2(std::string const& T, std::ptrdiff_t w, std::ptrdiff_t h, uint64_t s, Op1 const& op1, Op2 const& op2) {
    std::string out = "bad-type";
    with_type<AnyImg>(T, [&](auto tc) {
        using Img = typename decltype(tc)::type;
        int din = info<Img>::depth, dout = op2.out_depth(op1.out_depth(din));
        Img cimg = make<Img>(w, h, s);
        auto cr = op2.conc(op1.conc(gil::view(cimg)));
        using conc_result_t = decltype(cr);
        std::string C = "C:ok " + describe(cr, dout);
        if constexpr (Op1::writable && Op2::writable) toggle00(cr);
        C += " src=" + dump(gil::const_view(cimg), din);
        if constexpr (Op1::compiled && Op2::compiled) {
            AnyImg a(make<Img>(w, h, s));
            auto ar = op2.any(op1.any(gil::view(a)));
            bool ty = v2::visit([](auto const& v) { return std::is_same<typename std::decay<decltype(v)>::type, conc_result_t>::value; }, ar);
            std::string A = "A:ok i=" + std::to_string(ar.index()) + " ty=" + (ty ? "1" : "0") + " " + describe_any(ar, dout);
            if constexpr (Op1::writable && Op2::writable) v2::visit([](auto const& v) { toggle00(v); }, ar);
            A += " src=" + dump_any(gil::const_view(a), din);
            out = A + " | " + C;
        } else out = "A:err:no-compile | " + C;
    });
    return out;
}

// parse the geometric op starting at a[i]; calls f(op) and advances i past its parameters
template <typename F> bool with_geom(std::vector<std::string> const& a, size_t& i, int group, F&& f) {
    auto N = [&](size_t k) { return (std::ptrdiff_t)hv::to_ll(a.at(k)); };
    std::string const& o = a.at(i);
    if ((group == 0 || group == 6) && o == "flipud")   { ++i; f(FlipUD()); return true; }
    if ((group == 0 || group == 7) && o == "fliplr")   { ++i; f(FlipLR()); return true; }
    if ((group == 0 || group == 8) && o == "rot90cw")  { ++i; f(Rot90cw()); return true; }
    if ((group == 0 || group == 9) && o == "rot90ccw") { ++i; f(Rot90ccw()); return true; }
    if ((group == 0 || group == 10) && o == "rot180")   { ++i; f(Rot180()); return true; }
    if ((group == 0 || group == 11) && o == "transpose") { ++i; f(Transposed()); return true; }
    if ((group == 0 || group == 12) && o == "sub" && i + 4 < a.size())  { Sub op; op.x0 = N(i + 1); op.y0 = N(i + 2); op.w = N(i + 3); op.h = N(i + 4); i += 5; f(op); return true; }
    if ((group == 0 || group == 13) && o == "subs" && i + 2 < a.size()) { Subs op; op.sx = N(i + 1); op.sy = N(i + 2); i += 3; f(op); return true; }
    return false;
}

int main() {
    return hv::run([](std::string const& line) -> std::string {
        auto a = op_words(line);
#if XF_GROUP >= 6
        if (a.size() >= 8 && a[0] == "xf2") {
            std::string T = a[1]; std::ptrdiff_t w = hv::to_ll(a[2]), h = hv::to_ll(a[3]); uint64_t s = hv::to_ull(a[4]);
            std::string out = "bad-op"; size_t i = 5;
            bool ok1 = with_geom(a, i, XF_GROUP, [&](auto op1) {
                if (i >= a.size() || a[i] != "then") return;
                size_t j = i + 1;
                if (j >= a.size()) return;
                if (a[j] == "nth" && j + 1 < a.size()) { Nth o; o.n = (int)hv::to_ll(a[j + 1]); out = run_xf2<L6>(T, w, h, s, op1, o); return; }
                if (a[j] == "cc" && j + 1 < a.size() && a[j + 1] == "g8") { out = run_xf2<L7>(T, w, h, s, op1, CC<gil::gray8_pixel_t>()); return; }
                if (a[j] == "ccx" && j + 1 < a.size() && a[j + 1] == "rgb8") { CCX<gil::rgb8_pixel_t> o; o.off = cc_offset(s); out = run_xf2<L7>(T, w, h, s, op1, o); return; }
                with_geom(a, j, 0, [&](auto op2) { out = run_xf2<L7>(T, w, h, s, op1, op2); });
            });
            return ok1 ? out : std::string("other-tu");
        }
#endif
        if (a.size() < 6 || a[0] != "xf") return "bad-op";
        std::string T = a[1]; std::ptrdiff_t w = hv::to_ll(a[2]), h = hv::to_ll(a[3]); uint64_t s = hv::to_ull(a[4]);
        std::string op = a[5];
        auto P = [&](size_t i) { return (std::ptrdiff_t)hv::to_ll(a.at(i)); };
#if XF_GROUP == 1
        if (op == "id")       return run_xf<L7>(T, w, h, s, Id());
        if (op == "flipud")   return run_xf<L7>(T, w, h, s, FlipUD());
        if (op == "fliplr")   return run_xf<L7>(T, w, h, s, FlipLR());
        if (op == "rot90cw")  return run_xf<L7>(T, w, h, s, Rot90cw());
        if (op == "rot90ccw") return run_xf<L7>(T, w, h, s, Rot90ccw());
        if (op == "rot180")   return run_xf<L7>(T, w, h, s, Rot180());
        if (op == "transpose") {
return run_xf<L7>(T, w, h, s, Transposed()); }
#endif
#if XF_GROUP == 2
        if (op == "sub" && a.size() == 10)  { Sub o;  o.x0 = P(6); o.y0 = P(7); o.w = P(8); o.h = P(9); return run_xf<L7>(T, w, h, s, o); }
        if (op == "sub5" && a.size() == 10) { Sub5 o; o.x0 = P(6); o.y0 = P(7); o.w = P(8); o.h = P(9); return run_xf<L7>(T, w, h, s, o); }
        if (op == "subs" && a.size() == 8)  { Subs o;  o.sx = P(6); o.sy = P(7); return run_xf<L7>(T, w, h, s, o); }
        if (op == "subs2" && a.size() == 8) { Subs2 o; o.sx = P(6); o.sy = P(7); return run_xf<L7>(T, w, h, s, o); }
        if (op == "nth" && a.size() == 7) {
            Nth o; o.n = (int)P(6); return run_xf<L6>(T, w, h, s, o);
        }
#endif
#if XF_GROUP == 3
        if (op == "cc" && a.size() == 7)  return by_pixel_all<CC>(a[6], T, w, h, s);
#endif
#if XF_GROUP == 4
        if (op == "ccx" && a.size() == 7) return by_pixel_all<CCX>(a[6], T, w, h, s);
#endif
#if XF_GROUP == 5
        if ((op == "anycc" || op == "anyccx") && a.size() == 7) {
            return op == "anycc" ? by_pixel_all<AnyCC>(a[6], T, w, h, s) : by_pixel_all<AnyCCX>(a[6], T, w, h, s);
        }
#endif
        return "bad-op";
    });
}
