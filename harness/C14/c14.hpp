// C14 correspondence harnesses -- common pieces.
//
// Type lists ("alternatives"), index in L7:
//   0 g8     gray8_image_t            3 rgb8p  rgb8_planar_image_t      6 g1  bit_aligned_image1_type<1,gray_layout_t>
//   1 rgb8   rgb8_image_t             4 rgba8  rgba8_image_t
//   2 bgr8   bgr8_image_t             5 rgb16  rgb16_image_t
//   (second list "B", compiled with -DC14_LIST_B, ops prefixed with `B`: g16 argb8 rgba8 cmyk8 rgb16 rgb16p)
//   L6 = L7 without g1 (used where an operation on the concrete g1 object does not compile either, or the
//   library documents "homogeneous pixels only"), LS = {g8, rgb8} (subset list for cross-list assignment).
//
// Deterministic content: SEMANTIC channel c of pixel (x,y) of an image with content seed s is
//   a = (s*7919 + x*104729 + y*1299709 + c*15485863 + 12345) mod 2^32;  b = (a*2654435761) mod 2^32;
//   d = ((b xor (b >> 15)) * 2246822519) mod 2^32;   val(s,x,y,c) = (d >> 13) mod 2^depth
// so that images of compatible types built from the same seed compare equal with equal_pixels.
// Dumps print PHYSICAL channels (at_c<K>) row-major as hex, 2 digits per channel for depth <= 8, 4 for 16.
#pragma once
#include <boost/gil.hpp>
#include <boost/gil/extension/dynamic_image/dynamic_image_all.hpp>
#include <boost/variant2/variant.hpp>
#include <typeinfo>
#include <unistd.h>
#include <fcntl.h>
#include <sys/wait.h>
#include <utility>
#include <type_traits>
#include "harness.hpp"

namespace gil = boost::gil;
namespace v2 = boost::variant2;

namespace c14 {

using g1_image_t = gil::bit_aligned_image1_type<1, gil::gray_layout_t>::type;

#ifndef C14_LIST_B
using L7 = gil::any_image<gil::gray8_image_t, gil::rgb8_image_t, gil::bgr8_image_t, gil::rgb8_planar_image_t,
                          gil::rgba8_image_t, gil::rgb16_image_t, g1_image_t>;
using L6 = gil::any_image<gil::gray8_image_t, gil::rgb8_image_t, gil::bgr8_image_t, gil::rgb8_planar_image_t,
                          gil::rgba8_image_t, gil::rgb16_image_t>;
#else
// second representative list ("B", op lines prefixed with `B`): 16-bit gray, a non-reversal layout permutation (argb),
// a fourth colour space (cmyk), 16-bit interleaved and planar rgb.  index: 0 g16  1 argb8  2 rgba8  3 cmyk8  4 rgb16  5 rgb16p
using L7 = gil::any_image<gil::gray16_image_t, gil::argb8_image_t, gil::rgba8_image_t, gil::cmyk8_image_t,
                          gil::rgb16_image_t, gil::rgb16_planar_image_t>;
using L6 = L7;
#endif
using LS = gil::any_image<gil::gray8_image_t, gil::rgb8_image_t>;

template <typename Img> struct info;
template <> struct info<gil::gray8_image_t>       { static const char* name() { return "g8"; }    static constexpr int depth = 8;  };
template <> struct info<gil::rgb8_image_t>        { static const char* name() { return "rgb8"; }  static constexpr int depth = 8;  };
template <> struct info<gil::bgr8_image_t>        { static const char* name() { return "bgr8"; }  static constexpr int depth = 8;  };
template <> struct info<gil::rgb8_planar_image_t> { static const char* name() { return "rgb8p"; } static constexpr int depth = 8;  };
template <> struct info<gil::rgba8_image_t>       { static const char* name() { return "rgba8"; } static constexpr int depth = 8;  };
template <> struct info<gil::rgb16_image_t>       { static const char* name() { return "rgb16"; } static constexpr int depth = 16; };
template <> struct info<g1_image_t>               { static const char* name() { return "g1"; }    static constexpr int depth = 1;  };
template <> struct info<gil::gray16_image_t>       { static const char* name() { return "g16"; }    static constexpr int depth = 16; };
template <> struct info<gil::argb8_image_t>        { static const char* name() { return "argb8"; }  static constexpr int depth = 8;  };
template <> struct info<gil::cmyk8_image_t>        { static const char* name() { return "cmyk8"; }  static constexpr int depth = 8;  };
template <> struct info<gil::rgb16_planar_image_t> { static const char* name() { return "rgb16p"; } static constexpr int depth = 16; };

template <typename T> struct type_c { using type = T; };

inline uint64_t val(uint64_t s, uint64_t x, uint64_t y, uint64_t c, int depth) {
    uint64_t a = (s * 7919ull + x * 104729ull + y * 1299709ull + c * 15485863ull + 12345ull) & 0xffffffffull;
    uint64_t b = (a * 2654435761ull) & 0xffffffffull;
    uint64_t d = ((b ^ (b >> 15)) * 2246822519ull) & 0xffffffffull;
    return (d >> 13) & ((1ull << depth) - 1ull);
}

template <typename F, int... K> inline void for_chan_impl(F&& f, std::integer_sequence<int, K...>) { (f(std::integral_constant<int, K>{}), ...); }
template <int N, typename F> inline void for_chan(F&& f) { for_chan_impl(f, std::make_integer_sequence<int, N>{}); }

// fill a concrete image with the deterministic content of seed s
template <typename Img> void fill_content(Img& img, uint64_t s) {
    auto v = gil::view(img);
    constexpr int N = gil::num_channels<typename Img::view_t>::value;
    for (std::ptrdiff_t y = 0; y < v.height(); ++y)
        for (std::ptrdiff_t x = 0; x < v.width(); ++x) {
            auto&& r = v(x, y);
            for_chan<N>([&](auto k) { gil::semantic_at_c<decltype(k)::value>(r) = val(s, x, y, decltype(k)::value, info<Img>::depth); });
        }
}

inline void hex_append(std::string& out, uint64_t v, int digits) {
    static const char* H = "0123456789abcdef";
    for (int i = digits - 1; i >= 0; --i) out.push_back(H[(v >> (4 * i)) & 15]);
}

// physical channels of every pixel, row-major, hex
template <typename View> std::string dump(View const& v, int depth) {
    constexpr int N = gil::num_channels<View>::value;
    int digits = depth <= 8 ? 2 : 4;
    std::string out;
    if (v.width() == 0 || v.height() == 0) return "-";
    for (std::ptrdiff_t y = 0; y < v.height(); ++y)
        for (std::ptrdiff_t x = 0; x < v.width(); ++x) {
            auto p = v(x, y);
            for_chan<N>([&](auto k) { hex_append(out, static_cast<uint64_t>(gil::at_c<decltype(k)::value>(p)), digits); });
        }
    return out;
}

// "w= h= nc= sz= px=" of a concrete view
template <typename View> std::string describe(View const& v, int depth) {
    return "w=" + std::to_string(v.width()) + " h=" + std::to_string(v.height()) + " nc=" + std::to_string(gil::num_channels<View>::value) +
           " sz=" + std::to_string(v.size()) + " px=" + dump(v, depth);
}
// the same through the any_image_view interface: dimensions / num_channels / size come from the variant's members
template <typename AnyView> std::string describe_any(AnyView const& av, int depth) {
    return "w=" + std::to_string(av.width()) + " h=" + std::to_string(av.height()) + " nc=" + std::to_string(av.num_channels()) +
           " sz=" + std::to_string(av.size()) + " px=" + v2::visit([&](auto const& v) { return dump(v, depth); }, av);
}
template <typename AnyView> std::string dump_any(AnyView const& av, int depth) {
    return v2::visit([&](auto const& v) { return dump(v, depth); }, av);
}

// call f(type_c<Image>{}) for the alternative called `name` of the list AnyImg; false if the list has no such alternative
template <typename F, typename... Imgs> bool with_type_impl(std::string const& name, F&& f, gil::any_image<Imgs...>*) {
    bool hit = false;
    ((name == info<Imgs>::name() ? (f(type_c<Imgs>{}), hit = true) : false), ...);
    return hit;
}
template <typename AnyImg, typename F> bool with_type(std::string const& name, F&& f) { return with_type_impl(name, f, (AnyImg*)nullptr); }

template <typename Img> Img make(std::ptrdiff_t w, std::ptrdiff_t h, uint64_t s) { Img img(w, h); fill_content(img, s); return img; }

// depth of the alternative currently held
template <typename... Imgs> int depth_of(gil::any_image<Imgs...> const& a) {
    return v2::visit([](auto const& img) { return info<typename std::decay<decltype(img)>::type>::depth; }, a);
}

// a user-defined, STATEFUL colour converter (exact integer semantics, defined for every pixel pair):
//   every destination channel j (physical) := (sum of the source's physical channels + 7*j + 3 + off) mod 2^dstdepth
//   `off` is run-time state of the converter object (default-constructed: 0); the harness always passes
//   off = cc_offset(seed) >= 1, so an overload that drops the caller's converter object and uses CC() is observable
inline uint64_t cc_offset(uint64_t seed) { return seed % 251ull + 1ull; }
struct sum_cc {
    uint64_t off = 0;
    sum_cc() {}
    explicit sum_cc(uint64_t o) : off(o) {}
    template <typename S, typename D> void operator()(S const& s, D& d) const {
        uint64_t sum = 0;
        for_chan<gil::num_channels<S>::value>([&](auto k) { sum += static_cast<uint64_t>(gil::at_c<decltype(k)::value>(s)); });
        for_chan<gil::num_channels<D>::value>([&](auto k) {
            using ch_t = typename gil::channel_type<D>::type;
            uint64_t m = static_cast<uint64_t>(gil::channel_traits<ch_t>::max_value());
            gil::at_c<decltype(k)::value>(d) = static_cast<ch_t>((sum + 7 * decltype(k)::value + 3 + off) & m);
        });
    }
};

// toggle bit 0 of physical channel 0 of pixel (x,y) (no-op outside the view)
template <typename View> void toggle_at(View const& v, std::ptrdiff_t x, std::ptrdiff_t y) {
    if (x < 0 || y < 0 || x >= v.width() || y >= v.height()) return;
    auto&& r = v(x, y);
    auto c = gil::at_c<0>(r);                 // channel value (proxy reference for bit-aligned)
    uint64_t cur = static_cast<uint64_t>(gil::at_c<0>(r));
    gil::at_c<0>(r) = static_cast<typename gil::channel_traits<typename std::decay<decltype(c)>::type>::value_type>(cur ^ 1ull);
}

// does f() terminate the process abnormally (BOOST_ASSERT / sanitizer)? Runs f in a forked child, stderr silenced.
template <typename F> bool dies(F&& f) {
    std::fflush(stdout);
    pid_t pid = fork();
    if (pid == 0) {
        int fd = open("/dev/null", O_WRONLY); if (fd >= 0) { dup2(fd, 2); dup2(fd, 1); }
        try { f(); } catch (...) { _exit(3); }
        _exit(0);
    }
    int st = 0; waitpid(pid, &st, 0);
    return !(WIFEXITED(st) && (WEXITSTATUS(st) == 0 || WEXITSTATUS(st) == 3));
}

// op words without the list selector `B`
inline std::vector<std::string> op_words(std::string const& line) {
    auto a = hv::words(line);
    if (!a.empty() && a[0] == "B") a.erase(a.begin());
    return a;
}

inline std::string exc_name(std::exception const& e) {
    if (dynamic_cast<std::bad_cast const*>(&e)) return "err:bad_cast";
    if (dynamic_cast<std::bad_alloc const*>(&e)) return "err:bad_alloc";
    return "err:exception";
}

}  // namespace c14
