// C14 harness: any_image / any_image_view as values (dimensions, copy, assignment, equality, recreate).
//   img dims <T> <w> <h> <s>
//     -> A: i= w= h= dw= dh= nc= | V: i= w= h= nc= sz= | K: i= w= h= nc= sz= | C: w= h= nc= sz=
//        (any_image members; view(any_image); const_view(any_image); the concrete image)
//   img copy <T> <w> <h> <s>                 b(a) copy-constructed, then pixel (0,0) of b toggled through view(b)
//     -> A: i= eq0=<a==b before> eq1=<a==b after> ne1=<a!=b after> a=<hex> b=<hex> | C: eq0= eq1= ne1= a= b=
//   img assign <T1> <T2> <w1> <h1> <w2> <h2> <s1> <s2> <how>
//        b holds T2, a holds T1; how = any: b = a;  conc: b = (concrete image of a);  subset: b = LS-typed any_image (T1 in g8, rgb8)
//        then pixel (0,0) of b toggled
//     -> A: i= eq0= eq1= w= h= a=<hex> b=<hex> | C: eq0= eq1= a= b=     (concrete: T1 b2(a2) — the value b must now have)
//   img eq <T1> <T2> <w1> <h1> <w2> <h2> <s1> <s2> <dpos>
//     -> A: eq= ne= | C: <eq= ne= | n/a>      (operator== / != of any_image; concrete only when T1 == T2)
//   img vcopy <T> <T0> <w> <h> <s>
//        v = view(a); v2(v) copy-constructed; v3 holds a view of a T0 image first, then v3 = v (assignment);
//        pixel (0,0) toggled through v2, pixel (w-1,h-1) toggled through v3; b = deep copy of a
//     -> A: i2= i3= eq2=<v==v2> eq3=<v==v3> eqd=<view(a)==view(b)> a=<hex after the writes> rd=<hex read through v> | C: eq2= eq3= eqd= a= rd=
//   img recreate <T> <w> <h> <s> <w2> <h2> <how>      how = xy: recreate(w2,h2);  pt: recreate(point);  al: recreate(w2,h2,16)
//     -> A: i= w= h= nc= vw= vh= | C: w= h= nc=
//   img vassign <T> <T0> <w> <h> <s> <how>
//        v = view(a) (a holds T); vc holds a view of a T0 image first; then
//        how = conc: vc = (concrete view of a)  [any_image_view::operator=(View const&)]
//        how = ctor: vc2(concrete view of a) constructed from the concrete view, vc = vc2
//        how = subset: vc = LS-typed any_image_view of a  [operator=(any_image_view<OtherViews...> const&); T in g8, rgb8]
//        then pixel (0,0) toggled through vc
//     -> A: i= eq=<v==vc> w= h= nc= sz= a=<hex of a after the write> rd=<hex read through vc> | C: eq= w= h= nc= sz= a= rd=
//   img applyop <T> <T0> <w> <h> <s>      the deprecated apply_operation (apply_operation.hpp), unary and binary
//     -> A: w= h= sz= n12=<10*nc(T)+nc(T0)> | C: w= h= sz= n12=
//   img default                         default-constructed any_image / any_image_view: the first alternative, empty
//     -> A: i= w= h= nc= vi= vw= vh= vnc= vsz= | C: w= h= nc= vw= vh= vnc= vsz=
//   img atc <T>                         dynamic_at_c.hpp: at_c<list of num_channels of the alternatives, int>(index of the held alternative)
//     -> A: n=<at_c(a.index())> nc=<a.num_channels()> | C: n=<num_channels of T> nc=<same>
//   img realign <T> <w> <h> <a0> (<how> <w2> <h2> <a1>)+        how = xy: recreate(w2,h2,a1);  pt: recreate(point(w2,h2),a1)
//        the image is constructed with row alignment a0, then the SAME sequence of recreate calls is applied to the any_image
//        and to the concrete image; after construction (l0) and after every call (l1, l2, ...) the row layout is observed:
//        w,h (any_image members / concrete members), rs = view.pixels().row_size() in memory units (bytes; bits for bit-aligned),
//        al = for every row (row start address in bits) mod (8*alignment of the last call), `.`-joined (0 when alignment 0)
//     -> A: i= l0=w=..,h=..,rs=..,al=.. l1=... | C: l0=... l1=...
#include "c14.hpp"
#include <boost/gil/extension/dynamic_image/apply_operation.hpp>
#include <boost/gil/extension/dynamic_image/dynamic_at_c.hpp>
#if defined(__GNUC__)
#pragma GCC diagnostic ignored "-Wdeprecated-declarations"
#endif
using namespace c14;

static std::string b01(bool b) { return b ? "1" : "0"; }

std::string img_dims(std::string const& T, std::ptrdiff_t w, std::ptrdiff_t h, uint64_t s) {
    std::string out = "bad-type";
    with_type<L7>(T, [&](auto tc) {
        using Img = typename decltype(tc)::type;
        L7 a(make<Img>(w, h, s));
        Img ci = make<Img>(w, h, s);
        auto v = gil::view(a); auto k = gil::const_view(a);
        auto dims = a.dimensions();
        out = "A: i=" + std::to_string(a.index()) + " w=" + std::to_string(a.width()) + " h=" + std::to_string(a.height()) +
              " dw=" + std::to_string(dims.x) + " dh=" + std::to_string(dims.y) + " nc=" + std::to_string(a.num_channels()) +
              " | V: i=" + std::to_string(v.index()) + " w=" + std::to_string(v.width()) + " h=" + std::to_string(v.height()) + " nc=" + std::to_string(v.num_channels()) + " sz=" + std::to_string(v.size()) +
              " | K: i=" + std::to_string(k.index()) + " w=" + std::to_string(k.width()) + " h=" + std::to_string(k.height()) + " nc=" + std::to_string(k.num_channels()) + " sz=" + std::to_string(k.size()) +
              " | C: w=" + std::to_string(ci.width()) + " h=" + std::to_string(ci.height()) + " nc=" + std::to_string(gil::num_channels<Img>::value) + " sz=" + std::to_string(gil::view(ci).size());
    });
    return out;
}

std::string img_copy(std::string const& T, std::ptrdiff_t w, std::ptrdiff_t h, uint64_t s) {
    std::string out = "bad-type";
    with_type<L7>(T, [&](auto tc) {
        using Img = typename decltype(tc)::type; int d = info<Img>::depth;
        L7 a(make<Img>(w, h, s));
        L7 b(a);
        bool eq0 = (a == b);
        v2::visit([](auto const& v) { toggle_at(v, 0, 0); }, gil::view(b));
        std::string A = "A: i=" + std::to_string(b.index()) + " eq0=" + b01(eq0) + " eq1=" + b01(a == b) + " ne1=" + b01(a != b) +
                        " a=" + dump_any(gil::const_view(a), d) + " b=" + dump_any(gil::const_view(b), d);
        Img ca = make<Img>(w, h, s); Img cb(ca);
        bool ceq0 = (ca == cb);
        toggle_at(gil::view(cb), 0, 0);
        out = A + " | C: eq0=" + b01(ceq0) + " eq1=" + b01(ca == cb) + " ne1=" + b01(ca != cb) + " a=" + dump(gil::const_view(ca), d) + " b=" + dump(gil::const_view(cb), d);
    });
    return out;
}

std::string img_assign(std::string const& T1, std::string const& T2, std::ptrdiff_t w1, std::ptrdiff_t h1, std::ptrdiff_t w2, std::ptrdiff_t h2,
                       uint64_t s1, uint64_t s2, std::string const& how) {
    std::string out = "bad-type";
    with_type<L7>(T1, [&](auto t1) { with_type<L7>(T2, [&](auto t2) {
        using I1 = typename decltype(t1)::type; using I2 = typename decltype(t2)::type; int d = info<I1>::depth;
        L7 a(make<I1>(w1, h1, s1)), b(make<I2>(w2, h2, s2));
        if (how == "any") b = a;
        else if (how == "conc") b = v2::get<I1>(a);
        else if (how == "subset") {
#ifndef C14_LIST_B
            if constexpr (std::is_same<I1, gil::gray8_image_t>::value || std::is_same<I1, gil::rgb8_image_t>::value) { LS sub(make<I1>(w1, h1, s1)); b = sub; }
#else
            if constexpr (false) {}
#endif
            else { out = "bad-op"; return; }
        } else { out = "bad-op"; return; }
        bool eq0 = (a == b);
        v2::visit([](auto const& v) { toggle_at(v, 0, 0); }, gil::view(b));
        std::string A = "A: i=" + std::to_string(b.index()) + " eq0=" + b01(eq0) + " eq1=" + b01(a == b) + " w=" + std::to_string(b.width()) + " h=" + std::to_string(b.height()) +
                        " a=" + dump_any(gil::const_view(a), d) + " b=" + dump_any(gil::const_view(b), d);
        I1 ca = make<I1>(w1, h1, s1); I1 cb = make<I1>(1, 1, s2); cb = ca;
        bool ceq0 = (ca == cb);
        toggle_at(gil::view(cb), 0, 0);
        out = A + " | C: eq0=" + b01(ceq0) + " eq1=" + b01(ca == cb) + " a=" + dump(gil::const_view(ca), d) + " b=" + dump(gil::const_view(cb), d);
    }); });
    return out;
}

std::string img_eq(std::string const& T1, std::string const& T2, std::ptrdiff_t w1, std::ptrdiff_t h1, std::ptrdiff_t w2, std::ptrdiff_t h2,
                   uint64_t s1, uint64_t s2, long long dpos) {
    std::string out = "bad-type";
    with_type<L7>(T1, [&](auto t1) { with_type<L7>(T2, [&](auto t2) {
        using I1 = typename decltype(t1)::type; using I2 = typename decltype(t2)::type;
        std::ptrdiff_t tx = (w2 > 0 && dpos >= 0) ? dpos % w2 : -1, ty = (w2 > 0 && dpos >= 0) ? dpos / w2 : -1;
        L7 a(make<I1>(w1, h1, s1)), b(make<I2>(w2, h2, s2));
        toggle_at(gil::view(v2::get<I2>(b)), tx, ty);
        std::string A = "A: eq=" + b01(a == b) + " ne=" + b01(a != b), C = "C: n/a";
        if constexpr (std::is_same<I1, I2>::value) {
            I1 ca = make<I1>(w1, h1, s1); I2 cb = make<I2>(w2, h2, s2);
            toggle_at(gil::view(cb), tx, ty);
            C = "C: eq=" + b01(ca == cb) + " ne=" + b01(ca != cb);
        }
        out = A + " | " + C;
    }); });
    return out;
}

std::string img_vcopy(std::string const& T, std::string const& T0, std::ptrdiff_t w, std::ptrdiff_t h, uint64_t s) {
    std::string out = "bad-type";
    with_type<L7>(T, [&](auto tc) { with_type<L7>(T0, [&](auto t0) {
        using Img = typename decltype(tc)::type; using I0 = typename decltype(t0)::type; int d = info<Img>::depth;
        using any_view_t = typename L7::view_t;
        L7 a(make<Img>(w, h, s));
        I0 other = make<I0>(2, 2, s + 1);
        any_view_t v = gil::view(a);
        any_view_t vb(v);                         // copy construction
        any_view_t vc(gil::view(other));          // holds another alternative first
        vc = v;                                   // assignment
        bool eq2 = (v == vb), eq3 = (v == vc);
        v2::visit([](auto const& x) { toggle_at(x, 0, 0); }, vb);
        v2::visit([&](auto const& x) { toggle_at(x, w - 1, h - 1); }, vc);
        L7 deep(a);
        bool eqd = (gil::view(a) == gil::view(deep));
        std::string A = "A: i2=" + std::to_string(vb.index()) + " i3=" + std::to_string(vc.index()) + " eq2=" + b01(eq2) + " eq3=" + b01(eq3) + " eqd=" + b01(eqd) +
                        " a=" + dump_any(gil::const_view(a), d) + " rd=" + dump_any(v, d);
        Img ca = make<Img>(w, h, s);
        auto cv = gil::view(ca); auto cvb(cv); decltype(cv) cvc; cvc = cv;
        bool ceq2 = (cv == cvb), ceq3 = (cv == cvc);
        toggle_at(cvb, 0, 0); toggle_at(cvc, w - 1, h - 1);
        Img cdeep(ca);
        bool ceqd = (gil::view(ca) == gil::view(cdeep));
        out = A + " | C: eq2=" + b01(ceq2) + " eq3=" + b01(ceq3) + " eqd=" + b01(ceqd) + " a=" + dump(gil::const_view(ca), d) + " rd=" + dump(cv, d);
    }); });
    return out;
}

std::string img_recreate(std::string const& T, std::ptrdiff_t w, std::ptrdiff_t h, uint64_t s, std::ptrdiff_t w2, std::ptrdiff_t h2, std::string const& how) {
    std::string out = "bad-type";
    with_type<L7>(T, [&](auto tc) {
        using Img = typename decltype(tc)::type;
        L7 a(make<Img>(w, h, s)); Img ci = make<Img>(w, h, s);
        if (how == "xy") { a.recreate(w2, h2); ci.recreate(w2, h2); }
        else if (how == "pt") { a.recreate(gil::point_t(w2, h2)); ci.recreate(gil::point_t(w2, h2)); }
        else if (how == "al") { a.recreate(w2, h2, 16); ci.recreate(w2, h2, 16); }
        else { out = "bad-op"; return; }
        auto v = gil::view(a);
        out = "A: i=" + std::to_string(a.index()) + " w=" + std::to_string(a.width()) + " h=" + std::to_string(a.height()) + " nc=" + std::to_string(a.num_channels()) +
              " vw=" + std::to_string(v.width()) + " vh=" + std::to_string(v.height()) +
              " | C: w=" + std::to_string(ci.width()) + " h=" + std::to_string(ci.height()) + " nc=" + std::to_string(gil::num_channels<Img>::value);
    });
    return out;
}

std::string img_vassign(std::string const& T, std::string const& T0, std::ptrdiff_t w, std::ptrdiff_t h, uint64_t s, std::string const& how) {
    std::string out = "bad-type";
    with_type<L7>(T, [&](auto tc) { with_type<L7>(T0, [&](auto t0) {
        using Img = typename decltype(tc)::type; using I0 = typename decltype(t0)::type; int d = info<Img>::depth;
        using any_view_t = typename L7::view_t;
        L7 a(make<Img>(w, h, s));
        I0 other = make<I0>(2, 2, s + 1);
        any_view_t v = gil::view(a);
        any_view_t vc(gil::view(other));          // holds another alternative first
        typename Img::view_t conc = gil::view(v2::get<Img>(a));
        if (how == "conc") vc = conc;
        else if (how == "ctor") { any_view_t vc2(conc); vc = vc2; }
        else if (how == "subset") {
#ifndef C14_LIST_B
            if constexpr (std::is_same<Img, gil::gray8_image_t>::value || std::is_same<Img, gil::rgb8_image_t>::value) {
                typename LS::view_t sub(conc); vc = sub;
            }
#else
            if constexpr (false) {}
#endif
            else { out = "bad-op"; return; }
        } else { out = "bad-op"; return; }
        bool eq = (v == vc);
        v2::visit([](auto const& x) { toggle_at(x, 0, 0); }, vc);
        std::string A = "A: i=" + std::to_string(vc.index()) + " eq=" + b01(eq) + " w=" + std::to_string(vc.width()) + " h=" + std::to_string(vc.height()) +
                        " nc=" + std::to_string(vc.num_channels()) + " sz=" + std::to_string(vc.size()) +
                        " a=" + dump_any(gil::const_view(a), d) + " rd=" + dump_any(vc, d);
        Img ca = make<Img>(w, h, s);
        auto cv = gil::view(ca); decltype(cv) cvc; cvc = cv;
        bool ceq = (cv == cvc);
        toggle_at(cvc, 0, 0);
        out = A + " | C: eq=" + b01(ceq) + " w=" + std::to_string(cvc.width()) + " h=" + std::to_string(cvc.height()) +
              " nc=" + std::to_string(gil::num_channels<Img>::value) + " sz=" + std::to_string(cvc.size()) +
              " a=" + dump(gil::const_view(ca), d) + " rd=" + dump(cvc, d);
    }); });
    return out;
}

struct nc_pair_fn {
    using result_type = int;
    template <typename V1, typename V2> int operator()(V1 const&, V2 const&) const { return 10 * int(gil::num_channels<V1>::value) + int(gil::num_channels<V2>::value); }
};

std::string img_applyop(std::string const& T, std::string const& T0, std::ptrdiff_t w, std::ptrdiff_t h, uint64_t s) {
    std::string out = "bad-type";
    with_type<L7>(T, [&](auto tc) { with_type<L7>(T0, [&](auto t0) {
        using Img = typename decltype(tc)::type; using I0 = typename decltype(t0)::type;
        L7 a(make<Img>(w, h, s)), b(make<I0>(2, 2, s + 1));
        auto va = gil::view(a); auto vb = gil::view(b);
        auto dims = gil::apply_operation(va, gil::detail::any_type_get_dimensions());
        auto sz = gil::apply_operation(va, gil::detail::any_type_get_size());
        int n12 = gil::apply_operation(va, vb, nc_pair_fn());
        Img ci = make<Img>(w, h, s);
        out = "A: w=" + std::to_string(dims.x) + " h=" + std::to_string(dims.y) + " sz=" + std::to_string(sz) + " n12=" + std::to_string(n12) +
              " | C: w=" + std::to_string(ci.width()) + " h=" + std::to_string(ci.height()) + " sz=" + std::to_string(gil::view(ci).size()) +
              " n12=" + std::to_string(10 * int(gil::num_channels<Img>::value) + int(gil::num_channels<I0>::value));
    }); });
    return out;
}

template <typename P> uint64_t addr_bits(P* p) { return (uint64_t)(uintptr_t)p * 8ull; }
template <typename C, typename CS> uint64_t addr_bits(gil::planar_pixel_iterator<C, CS> const& it) { return (uint64_t)(uintptr_t)gil::at_c<0>(it) * 8ull; }
template <typename R> uint64_t addr_bits(gil::bit_aligned_pixel_iterator<R> const& it) {
    return (uint64_t)(uintptr_t)it.bit_range().current_byte() * 8ull + (uint64_t)it.bit_range().bit_offset(); }

template <typename Img> std::string layout_of(Img const& img, std::ptrdiff_t w, std::ptrdiff_t h, unsigned al) {
    auto v = gil::const_view(img);
    std::string out = "w=" + std::to_string(w) + ",h=" + std::to_string(h) + ",vw=" + std::to_string(v.width()) + ",vh=" + std::to_string(v.height()) +
                      ",rs=" + std::to_string((long long)v.pixels().row_size()) + ",al=";
    if (v.width() <= 0 || v.height() <= 0) return out + "-";
    for (std::ptrdiff_t y = 0; y < v.height(); ++y) {
        uint64_t m = al > 0 ? addr_bits(v.row_begin(y)) % (8ull * al) : 0ull;
        out += (y ? "." : "") + std::to_string(m);
    }
    return out;
}

std::string img_realign(std::vector<std::string> const& a) {
    // a: img realign T w h a0 (how w2 h2 a1)+
    if (a.size() < 10 || (a.size() - 6) % 4 != 0) return "bad-op";
    std::string out = "bad-type";
    std::ptrdiff_t w = hv::to_ll(a[3]), h = hv::to_ll(a[4]); unsigned a0 = (unsigned)hv::to_ull(a[5]);
    for (size_t k = 6; k < a.size(); k += 4) if (a[k] != "xy" && a[k] != "pt") return "bad-op";
    with_type<L7>(a[2], [&](auto tc) {
        using Img = typename decltype(tc)::type;
        L7 any{Img(w, h, a0)};
        Img ci(w, h, a0);
        auto any_layout = [&](unsigned al) {
            return v2::visit([&](auto const& im) { return layout_of(im, any.width(), any.height(), al); }, any); };
        std::string A = "A: i=" + std::to_string(any.index()) + " l0=" + any_layout(a0), C = "C: l0=" + layout_of(ci, ci.width(), ci.height(), a0);
        int step = 1;
        for (size_t k = 6; k < a.size(); k += 4, ++step) {
            std::ptrdiff_t w2 = hv::to_ll(a[k + 1]), h2 = hv::to_ll(a[k + 2]); unsigned a1 = (unsigned)hv::to_ull(a[k + 3]);
            if (a[k] == "xy") { any.recreate(w2, h2, a1); ci.recreate(w2, h2, a1); }
            else { any.recreate(gil::point_t(w2, h2), a1); ci.recreate(gil::point_t(w2, h2), a1); }
            A += " l" + std::to_string(step) + "=" + any_layout(a1);
            C += " l" + std::to_string(step) + "=" + layout_of(ci, ci.width(), ci.height(), a1);
        }
        A += " i1=" + std::to_string(any.index());
        out = A + " | " + C;
    });
    return out;
}

std::string img_default() {
    using First = boost::mp11::mp_first<boost::mp11::mp_rename<L7, boost::mp11::mp_list>>;
    L7 a; typename L7::view_t v;
    First ci; typename First::view_t cv;
    return "A: i=" + std::to_string(a.index()) + " w=" + std::to_string(a.width()) + " h=" + std::to_string(a.height()) + " nc=" + std::to_string(a.num_channels()) +
           " vi=" + std::to_string(v.index()) + " vw=" + std::to_string(v.width()) + " vh=" + std::to_string(v.height()) + " vnc=" + std::to_string(v.num_channels()) + " vsz=" + std::to_string(v.size()) +
           " | C: w=" + std::to_string(ci.width()) + " h=" + std::to_string(ci.height()) + " nc=" + std::to_string(gil::num_channels<First>::value) +
           " vw=" + std::to_string(cv.width()) + " vh=" + std::to_string(cv.height()) + " vnc=" + std::to_string(gil::num_channels<First>::value) + " vsz=" + std::to_string(cv.size());
}

template <typename I> using nc_of = std::integral_constant<int, gil::num_channels<I>::value>;

std::string img_atc(std::string const& T) {
    std::string out = "bad-type";
    using NCs = boost::mp11::mp_transform<nc_of, boost::mp11::mp_rename<L7, boost::mp11::mp_list>>;
    with_type<L7>(T, [&](auto tc) {
        using Img = typename decltype(tc)::type;
        L7 a(make<Img>(1, 1, 1));
        int n = gil::at_c<NCs, int>(a.index());
        out = "A: n=" + std::to_string(n) + " nc=" + std::to_string(a.num_channels()) +
              " | C: n=" + std::to_string(gil::num_channels<Img>::value) + " nc=" + std::to_string(gil::num_channels<Img>::value);
    });
    return out;
}

int main() {
    return hv::run([](std::string const& line) -> std::string {
        auto a = op_words(line);
        if (a.size() < 2 || a[0] != "img") return "bad-op";
        auto N = [&](size_t i) { return (std::ptrdiff_t)hv::to_ll(a.at(i)); };
        if (a[1] == "dims" && a.size() == 6) return img_dims(a[2], N(3), N(4), hv::to_ull(a[5]));
        if (a[1] == "copy" && a.size() == 6) return img_copy(a[2], N(3), N(4), hv::to_ull(a[5]));
        if (a[1] == "assign" && a.size() == 11) return img_assign(a[2], a[3], N(4), N(5), N(6), N(7), hv::to_ull(a[8]), hv::to_ull(a[9]), a[10]);
        if (a[1] == "eq" && a.size() == 11) return img_eq(a[2], a[3], N(4), N(5), N(6), N(7), hv::to_ull(a[8]), hv::to_ull(a[9]), hv::to_ll(a[10]));
        if (a[1] == "vcopy" && a.size() == 7) return img_vcopy(a[2], a[3], N(4), N(5), hv::to_ull(a[6]));
        if (a[1] == "realign") return img_realign(a);
        if (a[1] == "default" && a.size() == 2) return img_default();
        if (a[1] == "atc" && a.size() == 3) return img_atc(a[2]);
        if (a[1] == "vassign" && a.size() == 8) return img_vassign(a[2], a[3], N(4), N(5), hv::to_ull(a[6]), a[7]);
        if (a[1] == "applyop" && a.size() == 7) return img_applyop(a[2], a[3], N(4), N(5), hv::to_ull(a[6]));
        if (a[1] == "recreate" && a.size() == 9) return img_recreate(a[2], N(3), N(4), hv::to_ull(a[5]), N(6), N(7), a[8]);
        return "bad-op";
    });
}
