// C14 harness: copy_pixels on run-time typed views (see bin.hpp for the op format):  copy <mode> T1 T2 w1 h1 w2 h2 s1 s2 dpos
#include "bin.hpp"
using namespace c14;
struct CopyAlg { static constexpr bool needs_equal_dims = true; static constexpr bool needs_compat = true;
    template <class S, class D> std::string operator()(S const& s, D const& d) const { gil::copy_pixels(s, d); return ""; } };
int main() {
    return hv::run([](std::string const& line) -> std::string {
        auto a = op_words(line);
        if (!a.empty() && a[0] == "copy") return run_bin_line<L7>(CopyAlg(), a);
        return "bad-op";
    });
}
