// C14 harness: equal_pixels on run-time typed views (see bin.hpp):  equal <mode> T1 T2 w1 h1 w2 h2 s1 s2 dpos
#include "bin.hpp"
using namespace c14;
struct EqualAlg { static constexpr bool needs_equal_dims = true; static constexpr bool needs_compat = true;
    template <class S, class D> std::string operator()(S const& s, D const& d) const { return gil::equal_pixels(s, d) ? " r=1" : " r=0"; } };
int main() {
    return hv::run([](std::string const& line) -> std::string {
        auto a = op_words(line);
        if (!a.empty() && a[0] == "equal") return run_bin_line<L7>(EqualAlg(), a);
        return "bad-op";
    });
}
