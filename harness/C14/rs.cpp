// C14 harness: the three resample_pixels overloads taking run-time typed views (extension/numeric/resample.hpp)
//   rs <mode> T1 T2 w1 h1 w2 h2 s1 s2 dpos  a b c d e f
//        resample_pixels(src, dst, matrix3x2<double>(a/4, b/4, c/4, d/4, e/4, f/4), nearest_neighbor_sampler())
//        (quarter units: every coordinate computed from small integers is exact in binary64)
//   rsz <mode> T1 T2 w1 h1 w2 h2 s1 s2 dpos
//        resize_view(src, dst, nearest_neighbor_sampler())   (resample_subimage -> resample_pixels on the variants)
//   observation format: see bin.hpp. Destination pixels whose source point falls outside the source keep their value.
#include "bin.hpp"
#include <boost/gil/extension/numeric/sampler.hpp>
#include <boost/gil/extension/numeric/resample.hpp>
using namespace c14;
struct RsAlg { static constexpr bool needs_equal_dims = false; static constexpr bool needs_compat = true; gil::matrix3x2<double> m;
    template <class S, class D> std::string operator()(S const& s, D const& d) const {
        gil::resample_pixels(s, d, m, gil::nearest_neighbor_sampler()); return ""; } };
struct RszAlg { static constexpr bool needs_equal_dims = false; static constexpr bool needs_compat = true;
    template <class S, class D> std::string operator()(S const& s, D const& d) const {
        gil::resize_view(s, d, gil::nearest_neighbor_sampler()); return ""; } };
int main() {
    return hv::run([](std::string const& line) -> std::string {
        auto a = op_words(line);
#if RS_GROUP == 1
        if (a.size() == 17 && a[0] == "rs") {
            RsAlg alg; double q[6]; for (int i = 0; i < 6; ++i) q[i] = (double)hv::to_ll(a[11 + i]) / 4.0;
            alg.m = gil::matrix3x2<double>(q[0], q[1], q[2], q[3], q[4], q[5]);
            return run_bin_line<L7>(alg, a);
        }
#else
        if (a.size() == 11 && a[0] == "rsz") return run_bin_line<L7>(RszAlg(), a);
#endif
        return "bad-op";
    });
}
