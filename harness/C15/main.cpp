// C15 correspondence harness: 1-D correlation / convolution (rows, cols; dynamic and fixed kernels; all five
// boundary options), convolve_2d, extend_row / extend_col / extend_boundary of the real headers.
//
//   c1 <fn> <var> <pt> <opt> <w> <h> <ks> <c> <S> | taps(ks) | plane_0 | plane_1 ...
//        fn  : cr (correlate_rows) cc (correlate_cols) vr (convolve_rows) vc (convolve_cols)
//        var : dyn | fix  (fix: kernel_1d_fixed<ks>, ks odd <= 9)
//        pt  : pixel type set (see PT below; g8f / rgb8f / g16f: integral source and destination, float32 accumulator and taps);  opt : boundary_option as integer 0..4
//        planes: source samples INCLUDING P = ks-1 extra samples on both sides along the correlation axis
//                (rows: h rows of w+2P; cols: h+2P rows of w); the source view is the inner w x h window
//        destination is pre-filled with  S + 10*(y*w+x) + channel
//     -> "w h : dst plane_0 | dst plane_1 ..."   (float types: IEEE bit patterns)
//   c2 <pt> <kt> <w> <h> <ks> <cy> <cx> <S> | taps(ks*ks) | plane_0 | ...        detail::convolve_2d
//        kt : i (kernel_2d<int>) f (kernel_2d<float>) x (kernel_2d_fixed<float,ks>)
//   ex <which> <pt> <opt> <w> <h> <n> | plane_0 | ...      which: row col bnd; planes are (w+2n) x (h+2n), source = inner window
//     -> "W H : result planes"
// BOOST_ASSERT failures are observations ("assert:<expression>"): the handler throws instead of aborting, so the
// observation does not depend on line numbers and the harness keeps running.
#define BOOST_ENABLE_ASSERT_HANDLER
#include <string>
struct hv_assert_failure { std::string expr; };
namespace boost {
inline void assertion_failed(char const* expr, char const*, char const*, long) { throw hv_assert_failure{expr}; }
inline void assertion_failed_msg(char const* expr, char const*, char const*, char const*, long) { throw hv_assert_failure{expr}; }
}
#include <boost/gil.hpp>
#include <boost/gil/image_processing/convolve.hpp>
#include <boost/gil/image_processing/kernel.hpp>
#include "harness.hpp"
namespace gil = boost::gil;
using ll = long long;

struct Op { std::vector<std::string> head; std::vector<std::vector<ll>> groups; };
static Op parse(std::string const& line) {
    Op op; auto w = hv::words(line); size_t i = 0;
    while (i < w.size() && w[i] != "|") op.head.push_back(w[i++]);
    while (i < w.size()) { ++i; std::vector<ll> g; while (i < w.size() && w[i] != "|") g.push_back(hv::to_ll(w[i++])); op.groups.push_back(g); }
    return op;
}
template <class C> struct chio { static C in(ll v) { return C(v); } static ll out(C c) { return (ll)c; } };
template <> struct chio<gil::float32_t> {
    static gil::float32_t in(ll v) { uint32_t u = (uint32_t)v; float f; std::memcpy(&f, &u, 4); return gil::float32_t(f); }
    static ll out(gil::float32_t c) { float f = c; uint32_t u; std::memcpy(&u, &f, 4); return u; } };
template <> struct chio<float> {
    static float in(ll v) { uint32_t u = (uint32_t)v; float f; std::memcpy(&f, &u, 4); return f; }
    static ll out(float f) { uint32_t u; std::memcpy(&u, &f, 4); return u; } };

template <class View> void load(View const& v, std::vector<std::vector<ll>> const& planes, size_t first) {
    using C = typename gil::channel_type<View>::type; constexpr int N = gil::num_channels<View>::value;
    for (ll y = 0; y < v.height(); ++y) for (ll x = 0; x < v.width(); ++x) {
        typename View::reference p = v(x, y);
        for (int k = 0; k < N; ++k) p[k] = chio<C>::in(planes.at(first + k).at(y * v.width() + x));
    }
}
template <class View> void prefill(View const& v, ll S) {
    using C = typename gil::channel_type<View>::type; constexpr int N = gil::num_channels<View>::value;
    for (ll y = 0; y < v.height(); ++y) for (ll x = 0; x < v.width(); ++x) {
        typename View::reference p = v(x, y);
        for (int k = 0; k < N; ++k) p[k] = chio<C>::in(S + 10 * (y * v.width() + x) + k);
    }
}
template <class View> std::string dump(View const& v) {
    using C = typename gil::channel_type<View>::type; constexpr int N = gil::num_channels<View>::value;
    std::string r = std::to_string((ll)v.width()) + " " + std::to_string((ll)v.height()) + " :";
    for (int k = 0; k < N; ++k) {
        if (k) r += " |";
        for (ll y = 0; y < v.height(); ++y) for (ll x = 0; x < v.width(); ++x) {
            typename View::reference p = v(x, y);
            r += " " + std::to_string(chio<C>::out(p[k]));
        }
    }
    return r;
}

// the inner w x h window of a view, built from the locator directly (subimage_view asserts on empty windows; the
// harness's own set-up must not be what fails)
template <class View> View window(View const& v, ll x0, ll y0, ll w, ll h) {
    return View(typename View::point_t(w, h), v.pixels() + typename View::point_t(x0, y0));
}
// ------------------------------------------------------------------ 1-D
template <class Accum, class SV, class DV, class K>
void call1(std::string const& fn, bool fixed, SV const& s, K const& k, DV const& d, gil::boundary_option o, std::true_type) {
    if (fn == "cr") gil::correlate_rows_fixed<Accum>(s, k, d, o); else if (fn == "cc") gil::correlate_cols_fixed<Accum>(s, k, d, o);
    else if (fn == "vr") gil::convolve_rows_fixed<Accum>(s, k, d, o); else gil::convolve_cols_fixed<Accum>(s, k, d, o);
}
template <class Accum, class SV, class DV, class K>
void call1(std::string const& fn, bool, SV const& s, K const& k, DV const& d, gil::boundary_option o, std::false_type) {
    if (fn == "cr") gil::correlate_rows<Accum>(s, k, d, o); else if (fn == "cc") gil::correlate_cols<Accum>(s, k, d, o);
    else if (fn == "vr") gil::convolve_rows<Accum>(s, k, d, o); else gil::convolve_cols<Accum>(s, k, d, o);
}
template <class SrcImg, class Accum, class DstImg, class KT>
std::string c1(Op const& op) {
    auto const& h = op.head;
    std::string fn = h[1]; bool fixed = h[2] == "fix";
    int opt = (int)hv::to_ll(h[4]); ll w = hv::to_ll(h[5]), hh = hv::to_ll(h[6]), ks = hv::to_ll(h[7]), c = hv::to_ll(h[8]), S = hv::to_ll(h[9]);
    bool cols = (fn == "cc" || fn == "vc"); ll P = ks - 1;
    SrcImg big(cols ? w : w + 2 * P, cols ? hh + 2 * P : hh);
    load(gil::view(big), op.groups, 1);
    auto sv = window(gil::const_view(big), cols ? 0 : P, cols ? P : 0, w, hh);
    DstImg dstbig(w + 1, hh + 1); auto dv = window(gil::view(dstbig), 0, 0, w, hh); prefill(dv, S);   // (a gil::image of zero area reports 0x0)
    auto o = static_cast<gil::boundary_option>(opt);
    std::vector<KT> taps; for (ll t : op.groups.at(0)) taps.push_back(chio<KT>::in(t));
    if ((ll)taps.size() != ks) return "bad-op";
    if (!fixed) { gil::kernel_1d<KT> k(taps.begin(), ks, c); call1<Accum>(fn, false, sv, k, dv, o, std::false_type{}); }
    else switch (ks) {
#define FX(N) case N: { gil::kernel_1d_fixed<KT, N> k(taps.begin(), c); call1<Accum>(fn, true, sv, k, dv, o, std::true_type{}); break; }
        FX(1) FX(3) FX(5) FX(7) FX(9)
#undef FX
        default: return "bad-op";
    }
    return dump(dv);
}

// ------------------------------------------------------------------ 2-D
template <class SrcImg, class DstImg>
std::string c2(Op const& op) {
    auto const& h = op.head;
    std::string kt = h[2]; ll w = hv::to_ll(h[3]), hh = hv::to_ll(h[4]), ks = hv::to_ll(h[5]), cy = hv::to_ll(h[6]), cx = hv::to_ll(h[7]), S = hv::to_ll(h[8]);
    SrcImg srcbig(w + 1, hh + 1); auto sv = window(gil::view(srcbig), 0, 0, w, hh); load(sv, op.groups, 1);
    DstImg dstbig(w + 1, hh + 1); auto dv = window(gil::view(dstbig), 0, 0, w, hh); prefill(dv, S);   // (a gil::image of zero area reports 0x0)
    auto const& t = op.groups.at(0);
    if ((ll)t.size() != ks * ks) return "bad-op";
    if (kt == "i") { std::vector<int> v(t.begin(), t.end()); gil::detail::kernel_2d<int> k(v.begin(), v.size(), cy, cx); gil::detail::convolve_2d(typename SrcImg::const_view_t(sv), k, dv); }
    else if (kt == "f") { std::vector<float> v(t.begin(), t.end()); gil::detail::kernel_2d<float> k(v.begin(), v.size(), cy, cx); gil::detail::convolve_2d(typename SrcImg::const_view_t(sv), k, dv); }
    else if (kt == "x") {
        std::vector<float> v(t.begin(), t.end());
        switch (ks) {
#define FX(N) case N: { gil::detail::kernel_2d_fixed<float, N> k; std::copy(v.begin(), v.end(), k.begin()); k.center_y() = cy; k.center_x() = cx; gil::detail::convolve_2d(typename SrcImg::const_view_t(sv), k, dv); break; }
            FX(1) FX(3) FX(5)
#undef FX
            default: return "bad-op";
        }
    } else return "bad-op";
    return dump(dv);
}

// ------------------------------------------------------------------ extend_*
template <class Img>
std::string ex(Op const& op) {
    auto const& h = op.head;
    std::string which = h[1]; int opt = (int)hv::to_ll(h[3]); ll w = hv::to_ll(h[4]), hh = hv::to_ll(h[5]), n = hv::to_ll(h[6]);
    Img big(w + 2 * n, hh + 2 * n); load(gil::view(big), op.groups, 0);
    auto sv = window(gil::const_view(big), n, n, w, hh);
    auto o = static_cast<gil::boundary_option>(opt);
    if (which == "row") { auto r = gil::extend_row(sv, (std::size_t)n, o); return dump(gil::const_view(r)); }
    if (which == "col") { auto r = gil::extend_col(sv, (std::size_t)n, o); return dump(gil::const_view(r)); }
    auto r = gil::extend_boundary(sv, (std::size_t)n, o); return dump(gil::const_view(r));
}

using g32s_img = gil::gray32s_image_t; using rgb32s_img = gil::rgb32s_image_t;
using g32f_img = gil::gray32f_image_t;

int main() {
    return hv::run([](std::string const& line) -> std::string {
      try {
        Op op = parse(line); auto const& h = op.head;
        if (h.size() == 10 && h[0] == "c1") {
            std::string pt = h[3];
#ifdef PT_A
            if (pt == "g32s") return c1<g32s_img, gil::gray32s_pixel_t, g32s_img, int>(op);
#endif
#ifdef PT_B
            if (pt == "rgb32s") return c1<rgb32s_img, gil::rgb32s_pixel_t, rgb32s_img, int>(op);
#endif
#ifdef PT_C
            if (pt == "g8") return c1<gil::gray8_image_t, gil::gray32s_pixel_t, g32s_img, int>(op);
            if (pt == "g16s") return c1<gil::gray16s_image_t, gil::gray32s_pixel_t, g32s_img, short>(op);
#endif
#ifdef PT_D
            if (pt == "rgb8p") return c1<gil::rgb8_planar_image_t, gil::rgb32s_pixel_t, rgb32s_img, int>(op);
#endif
#ifdef PT_G
            // float accumulator, fractional float taps, INTEGRAL source and destination: the stored value is the float sum truncated
            if (pt == "g8f") return c1<gil::gray8_image_t, gil::gray32f_pixel_t, gil::gray8_image_t, float>(op);
            if (pt == "rgb8f") return c1<gil::rgb8_image_t, gil::rgb32f_pixel_t, gil::rgb8_image_t, float>(op);
            if (pt == "g16f") return c1<gil::gray16_image_t, gil::gray32f_pixel_t, gil::gray16_image_t, float>(op);
#endif
#ifdef PT_E
            if (pt == "g32f") return c1<g32f_img, gil::gray32f_pixel_t, g32f_img, float>(op);
#endif
            return "bad-op";
        }
#ifdef PT_F
        if (h.size() == 9 && h[0] == "c2") {
            std::string pt = h[1];
            if (pt == "g32s") return c2<g32s_img, g32s_img>(op);
            if (pt == "g8") return c2<gil::gray8_image_t, g32s_img>(op);
            if (pt == "rgb32s") return c2<rgb32s_img, rgb32s_img>(op);
            if (pt == "g16s") return c2<gil::gray16s_image_t, g32s_img>(op);
            return "bad-op";
        }
        if (h.size() == 7 && h[0] == "ex") {
            std::string pt = h[2];
            if (pt == "g32s") return ex<g32s_img>(op);
            if (pt == "rgb8") return ex<gil::rgb8_image_t>(op);
            if (pt == "g16s") return ex<gil::gray16s_image_t>(op);
            return "bad-op";
        }
#endif
        return "bad-op";
      } catch (hv_assert_failure const& a) {
        std::string e; for (char ch : a.expr) if (ch != ' ') e += ch;
        return "assert:" + e;
      }
    });
}
