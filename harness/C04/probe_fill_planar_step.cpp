// compile probe: does fill_pixels compile on a planar view whose x iterator is a step iterator (subsampled / transposed planar view)?
#include <boost/gil.hpp>
namespace gil = boost::gil;
int main() {
    gil::rgb8_planar_image_t img(6, 4);
    gil::fill_pixels(gil::subsampled_view(gil::view(img), 2, 1), gil::rgb8_pixel_t(1, 2, 3));
    gil::fill_pixels(gil::transposed_view(gil::view(img)), gil::rgb8_pixel_t(1, 2, 3));
    return 0;
}
