// C04 correspondence harness: pixel algorithms of the real headers on views over harness-owned buffers.
//
// op line:   <alg> <org> <sk> <dk> <w> <h> <so> <do> <spad> <dpad> <arg> <pf> | <src values w*h> | <dst values w*h> [| <src2 values>]
//   pf    flags of the tree under test: bit 0 = fill_pixels on planar step-iterator views compiles (harness/C04/probe_fill_planar_step.cpp);
//         without it such an op yields the observation err:no-compile; bit 1 (read by the model only) = image::allocate_ keeps the requested
//         dimensions of a degenerate (w x 0 / 0 x h) image; bit 2 (read by the model only) = uninitialized_copy_pixels stores through proxy references;
//         copyov only, model only: bit 3 / bit 4 = a whole-view / row copy run of this organisation is a block move (observed on probe ops)
//   alg   copy | fill | equal | foreach | foreachpos | generate | tr1 | tr2 | trpos | cconv | imgeq | fillx | genx | tr1x | copyov | ufill | ucopy | dcons | destruct
//         ufill / ucopy / dcons / destruct: uninitialized_fill_pixels / uninitialized_copy_pixels / default_construct_pixels / destruct_pixels (like fill / copy)
//         fillx / genx / tr1x (rgb8, rgb8p): like fill / generate / tr1 but the value / the functor's result is a bgr8_pixel_t, a compatible
//                pixel type with another channel order: channels must be paired by colour, not by storage position
//         imgeq: two gil::image objects (kinds ignored): image 1 is w x h with alignment <so>, image 2 is (w + arg) x h (arg = 2: h x w, same pixel count) with alignment <do>
//                (arg = 1: different dimensions); observation eq=<img1 == img2> ne=<img1 != img2>, values of image 2
//   org   rgb8 | rgb8p | rgb565 | gray1 | gray4 | rgb222 | rgb32f            (cconv: org = source organisation gray8|rgb8, dst = rgb8 / bgr8)
//   sk,dk view kind of source / destination:  full | sub | xstep | trans
//         full : the whole underlying image (w x h)
//         sub  : subimage_view(underlying, ox, oy, w, h), underlying (w+ox+1) x (h+oy+1), ox = o % 3, oy = o / 3
//         xstep: subsampled_view(underlying, 2, 1), underlying (2w - o%2) x h          (o even: 1-D traversable)
//         trans: transposed_view(underlying), underlying h x w
//         flipx: flipped_left_right_view(underlying)  (negative x step);  flipy: flipped_up_down_view(underlying)  (negative row step)
//   so,do the `o` parameter of the source / destination kind; for bit-aligned organisations additionally the first pixel of the
//         underlying image starts at bit (o / 9) % 8 of the buffer
//   spad,dpad row padding of the underlying image in memory units (bytes; bits for bit-aligned)
//   arg   fill value / generator start / transform constant
//   tr2: the second source is a view of kind s2kind(sk) (same C++ type, other traversability), see s2kind / s2o below
//   values: one integer per pixel (mixed radix over the semantic channels; rgb32f: 3 bits per channel indexing a table of floats)
// observation:   frame=ok|bad@<byte>  [eq=0|1] [log=<values seen by the functor, in call order>] ; <destination view values, row major>
//   frame: every bit of the destination buffer (canary margins, row padding, pixels outside the view, neighbouring bits)
//          that does not belong to a pixel of the destination view is unchanged (bit mask built from pixel addresses, without dereferencing)
#include <boost/gil.hpp>
#include "harness.hpp"
namespace gil = boost::gil;

#ifndef C04_ORG
#define C04_ORG 0
#endif

static const float FT[8] = {0.0f, -0.0f, 0.25f, 0.5f, 1.0f, 0.75f, 0.125f, std::numeric_limits<float>::quiet_NaN()};
static int fidx(float f) { uint32_t u; std::memcpy(&u, &f, 4); for (int i = 0; i < 8; ++i) { uint32_t t; std::memcpy(&t, &FT[i], 4); if (t == u) return i; } return 7; }

struct Buf {
    static constexpr size_t GUARD = 32;
    std::vector<unsigned char> b;
    explicit Buf(size_t n) : b(n + 2 * GUARD) { for (size_t i = 0; i < b.size(); ++i) b[i] = (unsigned char)(0xA5 ^ (i * 37)); }
    unsigned char* p() { return b.data() + GUARD; }
};

// ------------------------------------------------------------------ organisations
// each: U = memory units per pixel, BITS (bit-aligned), value_t, make_view(buf, W0, H0, pad, bitoff), enc/dec, RANGE, mark(mask, view, x, y)
template <int N> struct OrgT;

struct ByteOrgBase { static constexpr bool bits = false; };
template <typename P, long RANGE_> struct InterleavedOrg : ByteOrgBase {
    using pixel_t = P; static constexpr long RANGE = RANGE_;
    static constexpr long U = sizeof(P);
    static size_t bytes(long W0, long H0, long pad) { return (size_t)((W0 * U + pad) * H0 + 8); }
    static auto make(unsigned char* p, long W0, long H0, long pad, long) { return gil::interleaved_view(W0, H0, (P*)p, W0 * U + pad); }
    template <typename V> static void mark(std::vector<unsigned char>& mask, unsigned char* base, V const& v, long x, long y) {
        unsigned char* a = (unsigned char*)&v(x, y); for (long k = 0; k < U; ++k) mask[(a - base) + k] = 0xFF; }
};
template <> struct OrgT<0> : InterleavedOrg<gil::rgb8_pixel_t, 1L << 24> { static constexpr const char* name = "rgb8"; using image_t = gil::rgb8_image_t;
    static pixel_t enc(long v) { pixel_t p; gil::semantic_at_c<0>(p) = v & 255; gil::semantic_at_c<1>(p) = (v >> 8) & 255; gil::semantic_at_c<2>(p) = (v >> 16) & 255; return p; }
    template <typename Q> static long dec(Q const& p) { return (long)gil::semantic_at_c<0>(p) | ((long)gil::semantic_at_c<1>(p) << 8) | ((long)gil::semantic_at_c<2>(p) << 16); } };
template <> struct OrgT<2> : InterleavedOrg<gil::packed_pixel_type<uint16_t, boost::mp11::mp_list_c<unsigned, 5, 6, 5>, gil::rgb_layout_t>::type, 1L << 16> { static constexpr const char* name = "rgb565"; using image_t = gil::packed_image3_type<uint16_t, 5, 6, 5, gil::rgb_layout_t>::type;
    static pixel_t enc(long v) { pixel_t p; gil::semantic_at_c<0>(p) = v & 31; gil::semantic_at_c<1>(p) = (v >> 5) & 63; gil::semantic_at_c<2>(p) = (v >> 11) & 31; return p; }
    template <typename Q> static long dec(Q const& p) { return (long)gil::semantic_at_c<0>(p) | ((long)gil::semantic_at_c<1>(p) << 5) | ((long)gil::semantic_at_c<2>(p) << 11); } };
template <> struct OrgT<6> : InterleavedOrg<gil::rgb32f_pixel_t, 512> { static constexpr const char* name = "rgb32f"; using image_t = gil::rgb32f_image_t;
    static pixel_t enc(long v) { pixel_t p; gil::semantic_at_c<0>(p) = FT[v & 7]; gil::semantic_at_c<1>(p) = FT[(v >> 3) & 7]; gil::semantic_at_c<2>(p) = FT[(v >> 6) & 7]; return p; }
    template <typename Q> static long dec(Q const& p) { return fidx((float)gil::semantic_at_c<0>(p)) | (fidx((float)gil::semantic_at_c<1>(p)) << 3) | (fidx((float)gil::semantic_at_c<2>(p)) << 6); } };
template <> struct OrgT<7> : InterleavedOrg<gil::gray8_pixel_t, 256> { static constexpr const char* name = "gray8"; using image_t = gil::gray8_image_t;
    static pixel_t enc(long v) { return pixel_t((uint8_t)(v & 255)); }
    template <typename Q> static long dec(Q const& p) { return (long)gil::at_c<0>(p); } };
template <> struct OrgT<8> : InterleavedOrg<gil::bgr8_pixel_t, 1L << 24> { static constexpr const char* name = "bgr8"; using image_t = gil::bgr8_image_t;
    static pixel_t enc(long v) { pixel_t p; gil::semantic_at_c<0>(p) = v & 255; gil::semantic_at_c<1>(p) = (v >> 8) & 255; gil::semantic_at_c<2>(p) = (v >> 16) & 255; return p; }
    template <typename Q> static long dec(Q const& p) { return (long)gil::semantic_at_c<0>(p) | ((long)gil::semantic_at_c<1>(p) << 8) | ((long)gil::semantic_at_c<2>(p) << 16); } };
template <> struct OrgT<1> : ByteOrgBase { static constexpr const char* name = "rgb8p"; using image_t = gil::rgb8_planar_image_t;
    using pixel_t = gil::rgb8_pixel_t; static constexpr long RANGE = 1L << 24; static constexpr long U = 1;
    static size_t bytes(long W0, long H0, long pad) { return (size_t)(3 * (W0 + pad) * H0 + 8); }
    static auto make(unsigned char* p, long W0, long H0, long pad, long) { long plane = (W0 + pad) * H0; return gil::planar_rgb_view(W0, H0, p, p + plane, p + 2 * plane, W0 + pad); }
    static pixel_t enc(long v) { return OrgT<0>::enc(v); }
    template <typename Q> static long dec(Q const& p) { return OrgT<0>::dec(p); }
    template <typename V> static void mark(std::vector<unsigned char>& mask, unsigned char* base, V const& v, long x, long y) {
        auto it = v.xy_at(x, y).x();    // planar_pixel_iterator or a step adaptor over it
        auto r = *it;
        mask[(unsigned char*)&gil::at_c<0>(r) - base] = 0xFF; mask[(unsigned char*)&gil::at_c<1>(r) - base] = 0xFF; mask[(unsigned char*)&gil::at_c<2>(r) - base] = 0xFF; }
};
template <typename Img, long RANGE_, int BITS> struct BitOrg {
    static constexpr bool bits = true; static constexpr long RANGE = RANGE_; static constexpr long U = BITS; using image_t = Img;
    using view_t = typename Img::view_t; using pixel_t = typename view_t::value_type;
    static size_t bytes(long W0, long H0, long pad) { return (size_t)(((W0 * U + pad) * H0 + 7 + 7) / 8 + 8); }
    static auto make(unsigned char* p, long W0, long H0, long pad, long bitoff) {
        return view_t(gil::point_t(W0, H0), typename view_t::locator(typename view_t::x_iterator(p, (int)bitoff), W0 * U + pad)); }
    template <typename V> static void mark(std::vector<unsigned char>& mask, unsigned char* base, V const& v, long x, long y) {
        auto br = (*v.xy_at(x, y).x()).bit_range();
        long bit0 = (long)((unsigned char*)br.current_byte() - base) * 8 + br.bit_offset();
        for (long k = 0; k < U; ++k) mask[(bit0 + k) / 8] |= (unsigned char)(1u << ((bit0 + k) % 8)); }
};
using gray1_img = gil::bit_aligned_image1_type<1, gil::gray_layout_t>::type;
using gray4_img = gil::bit_aligned_image1_type<4, gil::gray_layout_t>::type;
using rgb222_img = gil::bit_aligned_image3_type<2, 2, 2, gil::rgb_layout_t>::type;
template <> struct OrgT<3> : BitOrg<gray1_img, 2, 1> { static constexpr const char* name = "gray1";
    static pixel_t enc(long v) { pixel_t p; gil::at_c<0>(p) = v & 1; return p; }
    template <typename Q> static long dec(Q const& p) { return (long)gil::at_c<0>(p); } };
template <> struct OrgT<4> : BitOrg<gray4_img, 16, 4> { static constexpr const char* name = "gray4";
    static pixel_t enc(long v) { pixel_t p; gil::at_c<0>(p) = v & 15; return p; }
    template <typename Q> static long dec(Q const& p) { return (long)gil::at_c<0>(p); } };
template <> struct OrgT<5> : BitOrg<rgb222_img, 64, 6> { static constexpr const char* name = "rgb222";
    static pixel_t enc(long v) { pixel_t p; gil::semantic_at_c<0>(p) = v & 3; gil::semantic_at_c<1>(p) = (v >> 2) & 3; gil::semantic_at_c<2>(p) = (v >> 4) & 3; return p; }
    template <typename Q> static long dec(Q const& p) { return (long)gil::semantic_at_c<0>(p) | ((long)gil::semantic_at_c<1>(p) << 2) | ((long)gil::semantic_at_c<2>(p) << 4); } };

// ------------------------------------------------------------------ one side of an operation
struct Geo { std::string kind; long w, h, o, pad; long W0, H0, ox, oy, bitoff; };
static Geo geo(std::string const& kind, long w, long h, long o, long pad, bool bits) {
    Geo g{kind, w, h, o, pad, w, h, 0, 0, 0};
    if (bits) g.bitoff = (o / 9) % 8;
    if (kind == "sub") { g.ox = o % 3; g.oy = (o / 3) % 3; g.W0 = w + g.ox + 1; g.H0 = h + g.oy + 1; }
    else if (kind == "xstep") { g.W0 = w == 0 ? 0 : 2 * w - (o % 2); g.H0 = h; }
    else if (kind == "trans") { g.W0 = h; g.H0 = w; }
    return g;
}

// second source of tr2: a view of the SAME C++ type as the first source but of the other traversability class
// (full <-> sub, flipy -> full, xstep <-> flipx), so that a fast path that tests only src1 and dst is exposed
static std::string s2kind(std::string const& k) {
    if (k == "full") return "sub"; if (k == "sub" || k == "flipy") return "full"; if (k == "xstep") return "flipx"; if (k == "flipx") return "xstep"; return k; }
static long s2o(std::string const& k, long o) { long bit = 9 * ((o / 9) % 8); if (k == "full") return 4 + bit; if (k == "flipx") return 1 + bit; return bit; }

template <typename O> struct Side {
    Geo g; Buf buf; std::vector<unsigned char> before, mask;
    Side(Geo const& g_) : g(g_), buf(O::bytes(g_.W0, g_.H0, g_.pad)) {}
    auto under() { return O::make(buf.p(), g.W0, g.H0, g.pad, g.bitoff); }
    template <typename V> void init(V const& v, std::vector<long> const& vals) {
        long i = 0; for (long y = 0; y < v.height(); ++y) for (long x = 0; x < v.width(); ++x, ++i) v(x, y) = O::enc(vals.at(i));
        before = buf.b; mask.assign(buf.b.size(), 0);
        for (long y = 0; y < v.height(); ++y) for (long x = 0; x < v.width(); ++x) O::mark(mask, buf.b.data(), v, x, y);
    }
    std::string frame() {
        for (size_t i = 0; i < buf.b.size(); ++i) if ((buf.b[i] ^ before[i]) & ~mask[i]) return "frame=bad@" + std::to_string((long)i - (long)Buf::GUARD);
        return "frame=ok";
    }
    template <typename V> std::string values(V const& v) {
        std::string r; for (long y = 0; y < v.height(); ++y) for (long x = 0; x < v.width(); ++x) r += " " + std::to_string(O::dec(v(x, y))); return r; }
};

// apply f to the view of the requested kind
template <typename O, typename F> static void with_view(Side<O>& s, F f) {
    auto u = s.under();
    if (s.g.kind == "full") f(u);
    else if (s.g.kind == "sub") f(gil::subimage_view(u, s.g.ox, s.g.oy, s.g.w, s.g.h));
    else if (s.g.kind == "xstep") f(gil::subsampled_view(u, 2, 1));
    else if (s.g.kind == "trans") f(gil::transposed_view(u));
    else if (s.g.kind == "flipx") f(gil::flipped_left_right_view(u));
    else if (s.g.kind == "flipy") f(gil::flipped_up_down_view(u));
    else throw std::runtime_error("kind");
}

// view of kind sub | full (as is) | flipx | flipy over an already cut sub-view
template <typename V, typename F> static void kinded(V const& v, std::string const& kind, F f) {
    if (kind == "flipx") f(gil::flipped_left_right_view(v));
    else if (kind == "flipy") f(gil::flipped_up_down_view(v));
    else if (kind == "sub" || kind == "full") f(v);
    else throw std::runtime_error("kind");
}

static std::vector<long> parse_vals(std::string const& s) { std::vector<long> v; for (auto& w : hv::words(s)) v.push_back(hv::to_ll(w)); return v; }

// copyov: copy_pixels between two views of ONE underlying image (overlapping or not).
//   sk = full : underlying w x (h+2), no row padding; source = rows [sy, sy+h), destination = rows [dy, dy+h)  (both 1-D traversable)
//   otherwise : underlying (w+2) x (h+2) with row padding spad; source = sub-view at (sx, sy), destination = sub-view at (dx, dy), each
//               then flipped as sk / dk say (sub | flipx | flipy);   arg = sx + 3*sy + 9*dx + 27*dy
//   source values: ALL pixels of the underlying image; observation: frame (mask = destination pixels) ; ALL pixels of the underlying image
template <typename O> static std::string run_copyov(std::vector<std::string> const& hd, std::vector<std::string> const& parts) {
    long w = hv::to_ll(hd[4]), h = hv::to_ll(hd[5]), so = hv::to_ll(hd[6]), spad = hv::to_ll(hd[8]), arg = hv::to_ll(hd[10]);
    std::string sk = hd[2], dk = hd[3];
    bool oned = sk == "full";
    long W0 = oned ? w : w + 2, H0 = h + 2, pad = oned ? 0 : spad;
    long sx = oned ? 0 : arg % 3, sy = (arg / 3) % 3, dx = oned ? 0 : (arg / 9) % 3, dy = (arg / 27) % 3;
    auto sv = parse_vals(parts.at(1));
    Geo g{"full", W0, H0, so, pad, W0, H0, 0, 0, O::bits ? (so / 9) % 8 : 0};
    Side<O> S(g);
    auto u = S.under();
    if ((long)sv.size() != W0 * H0) return "bad-op:values";
    { long i = 0; for (long y = 0; y < H0; ++y) for (long x = 0; x < W0; ++x, ++i) u(x, y) = O::enc(sv.at(i)); }
    S.before = S.buf.b; S.mask.assign(S.buf.b.size(), 0);
    auto sb = gil::subimage_view(u, sx, sy, w, h); auto db = gil::subimage_view(u, dx, dy, w, h);
    std::string out;
    kinded(sb, sk, [&](auto const& src) { kinded(db, dk, [&](auto const& dst) {
        for (long y = 0; y < dst.height(); ++y) for (long x = 0; x < dst.width(); ++x) O::mark(S.mask, S.buf.b.data(), dst, x, y);
        gil::copy_pixels(src, dst);
        out = S.frame() + " ;" + S.values(u);
    }); });
    return out;
}

// planar organisation: is the view's x iterator planar_pixel_iterator itself (full / sub / flipped up-down), not a step adaptor?  (true for every other organisation)
template <typename O, typename V, typename U> struct PtrX : std::integral_constant<bool,
    !std::is_same<O, OrgT<1>>::value || std::is_same<typename std::decay_t<V>::x_iterator, typename std::decay_t<U>::x_iterator>::value> {};

template <typename OS, typename OD> static std::string run_op(std::vector<std::string> const& hd, std::vector<std::string> const& parts) {
    std::string alg = hd[0];
    if (alg == "copyov") { if constexpr (std::is_same<OS, OD>::value) return run_copyov<OS>(hd, parts); else return "bad-op:alg"; }
    long w = hv::to_ll(hd[4]), h = hv::to_ll(hd[5]), so = hv::to_ll(hd[6]), dof = hv::to_ll(hd[7]), spad = hv::to_ll(hd[8]), dpad = hv::to_ll(hd[9]), arg = hv::to_ll(hd[10]);
    auto sv = parse_vals(parts.at(1)), dv = parse_vals(parts.at(2));
    if (alg == "imgeq") {
        if constexpr (!gil::pixels_are_compatible<typename OS::pixel_t, typename OD::pixel_t>::value) return "bad-op:alg";
        else {
        long w2 = arg == 2 ? h : w + arg, h2 = arg == 2 ? w : h;
        typename OS::image_t a(w, h, (std::size_t)so); typename OD::image_t b(w2, h2, (std::size_t)dof);
        { auto v = gil::view(a); long i = 0; for (long y = 0; y < h; ++y) for (long x = 0; x < w; ++x, ++i) v(x, y) = OS::enc(sv.at(i)); }
        { auto v = gil::view(b); long i = 0; for (long y = 0; y < h2; ++y) for (long x = 0; x < w2; ++x, ++i) v(x, y) = OD::enc(dv.at(i)); }
        bool eq = (a == b), ne = (a != b), self = (a == a) && !(a != a);
        std::string r = std::string("frame=ok eq=") + (eq ? "1" : "0") + " ne=" + (ne ? "1" : "0") + (self ? "" : " self=0") + " ;";
        auto v = gil::const_view(b); for (long y = 0; y < h2; ++y) for (long x = 0; x < w2; ++x) r += " " + std::to_string(OD::dec(v(x, y)));
        return r;
        }
    }
    std::vector<long> s2v = parts.size() > 3 ? parse_vals(parts[3]) : std::vector<long>();
    Side<OS> S(geo(hd[2], w, h, so, spad, OS::bits)); Side<OS> S2(geo(s2kind(hd[2]), w, h, s2o(hd[2], so), spad, OS::bits)); Side<OD> D(geo(hd[3], w, h, dof, dpad, OD::bits));
    std::string out;
    with_view<OS>(S, [&](auto const& src) {
      S.init(src, sv);
      with_view<OD>(D, [&](auto const& dst) {
        D.init(dst, dv);
        if (src.width() != dst.width() || src.height() != dst.height()) { out = "bad-op:dims"; return; }
        std::string extra;
        std::vector<long> log;
        if constexpr (!std::is_same<OS, OD>::value) {
            if (alg == "cconv") gil::copy_and_convert_pixels(src, dst);
            else if constexpr (gil::pixels_are_compatible<typename OS::pixel_t, typename OD::pixel_t>::value) {
                if (alg == "copy") gil::copy_pixels(src, dst);
                else if (alg == "ucopy") {
                    // interleaved -> planar / planar -> interleaved; the planar side through planar_pixel_iterator itself (not a step adaptor)
                    if constexpr (PtrX<OS, decltype(src), decltype(S.under())>::value && PtrX<OD, decltype(dst), decltype(D.under())>::value)
                        gil::uninitialized_copy_pixels(src, dst);
                    else { out = "bad-op:alg"; return; }
                }
                else if (alg == "equal") extra = std::string(" eq=") + (gil::equal_pixels(src, dst) ? "1" : "0");
                else { out = "bad-op:alg"; return; }
            }
            else { out = "bad-op:alg"; return; }
        } else {
        if (alg == "copy") gil::copy_pixels(src, dst);
        else if (alg == "cconv") gil::copy_and_convert_pixels(src, dst);
        else if (alg == "ufill" || alg == "dcons" || alg == "destruct") {
            // the planar overloads (per channel plane, dynamic_at_c on the iterator) need planar_pixel_iterator itself
            if constexpr (PtrX<OD, decltype(dst), decltype(D.under())>::value) {
                if (alg == "ufill") gil::uninitialized_fill_pixels(dst, OD::enc(arg));
                else if (alg == "dcons") gil::default_construct_pixels(dst);
                else gil::destruct_pixels(dst);
            } else { out = "bad-op:alg"; return; }
        }
        else if (alg == "ucopy") {
            if constexpr (PtrX<OS, decltype(src), decltype(S.under())>::value && PtrX<OD, decltype(dst), decltype(D.under())>::value)
                gil::uninitialized_copy_pixels(src, dst);
            else { out = "bad-op:alg"; return; }
        }
        else if (alg == "fill") {
#ifndef C04_PLANAR_STEP_FILL
            if constexpr (std::is_same<OD, OrgT<1>>::value && !std::is_same<std::decay_t<decltype(dst)>, std::decay_t<decltype(D.under())>>::value) { out = "err:no-compile"; return; } else
#endif
            gil::fill_pixels(dst, OD::enc(arg));
        }
        else if (alg == "fillx" || alg == "genx" || alg == "tr1x") {
            if constexpr (std::is_same<OD, OrgT<0>>::value || std::is_same<OD, OrgT<1>>::value) {
                using X = OrgT<8>;     // bgr8: same colour space, other channel order
#ifndef C04_PLANAR_STEP_FILL
                if constexpr (std::is_same<OD, OrgT<1>>::value && !std::is_same<std::decay_t<decltype(dst)>, std::decay_t<decltype(D.under())>>::value) { if (alg == "fillx") { out = "err:no-compile"; return; } }
#endif
                if (alg == "fillx") {
#ifndef C04_PLANAR_STEP_FILL
                    if constexpr (std::is_same<OD, OrgT<1>>::value && !std::is_same<std::decay_t<decltype(dst)>, std::decay_t<decltype(D.under())>>::value) {} else
#endif
                    gil::fill_pixels(dst, X::enc(arg));
                }
                else if (alg == "genx") { long k = 0; gil::generate_pixels(dst, [&]() { return X::enc((arg + k++) % OD::RANGE); }); }
                else gil::transform_pixels(src, dst, [&](auto const& p) { return X::enc((OS::dec(p) * 3 + arg) % OD::RANGE); });
            } else { out = "bad-op:alg"; return; }
        }
        else if (alg == "equal") {
#ifdef C04_NO_PLANAR_EQUAL
            if constexpr (std::is_same<OD, OrgT<1>>::value) { out = "err:no-compile"; return; } else
#endif
            extra = std::string(" eq=") + (gil::equal_pixels(src, dst) ? "1" : "0");
        }
        else if (alg == "foreach") {
            gil::for_each_pixel(dst, [&](auto& p) { long v = OD::dec(p); log.push_back(v); p = OD::enc((v + arg) % OD::RANGE); });
        }
        else if (alg == "foreachpos") {
            gil::for_each_pixel_position(dst, [&](auto const& loc) { long v = OD::dec(*loc); log.push_back(v); *loc = OD::enc((v + arg) % OD::RANGE); });
        }
        else if (alg == "generate") { long k = 0; gil::generate_pixels(dst, [&]() { return OD::enc((arg + k++) % OD::RANGE); }); }
        else if (alg == "tr1") gil::transform_pixels(src, dst, [&](auto const& p) { return OD::enc((OS::dec(p) * 3 + arg) % OD::RANGE); });
        else if (alg == "trpos") gil::transform_pixel_positions(src, dst, [&](auto const& loc) { return OD::enc((OS::dec(*loc) * 3 + arg) % OD::RANGE); });
        else if (alg == "tr2") {
            with_view<OS>(S2, [&](auto const& src2) {
                S2.init(src2, s2v);
                if constexpr (std::is_same<std::decay_t<decltype(src2)>, std::decay_t<decltype(src)>>::value)
                    gil::transform_pixels(src, src2, dst, [&](auto const& p, auto const& q) { return OD::enc((OS::dec(p) + 2 * OS::dec(q) + arg) % OD::RANGE); });
            });
        }
        else { out = "bad-op:alg"; return; }
        }
        out = D.frame() + (S.frame() == "frame=ok" ? "" : " src" + S.frame()) + extra;
        if (!log.empty() || alg == "foreach" || alg == "foreachpos") { out += " log="; for (size_t i = 0; i < log.size(); ++i) out += (i ? "," : "") + std::to_string(log[i]); }
        out += " ;" + D.values(dst);
      });
    });
    return out;
}

static std::string handle(std::string const& line) {
    std::vector<std::string> parts; { size_t a = 0; while (true) { size_t b = line.find('|', a); parts.push_back(line.substr(a, b == std::string::npos ? b : b - a)); if (b == std::string::npos) break; a = b + 1; } }
    auto hd = hv::words(parts[0]);
    if (hd.size() != 12 || parts.size() < 3) return "bad-op";
#ifdef C04_PLANAR_STEP_FILL
    if (hv::to_ll(hd[11]) % 2 != 1) return "bad-op:pf";
#else
    if (hv::to_ll(hd[11]) % 2 != 0) return "bad-op:pf";
#endif
#if C04_ORG == 9
    // cross organisation pairs
    if (hd[1] == "rgb8>rgb8p") return run_op<OrgT<0>, OrgT<1>>(hd, parts);
    if (hd[1] == "rgb8p>rgb8") return run_op<OrgT<1>, OrgT<0>>(hd, parts);
    if (hd[1] == "rgb8>bgr8") return run_op<OrgT<0>, OrgT<8>>(hd, parts);
    if (hd[1] == "gray8>rgb8") return run_op<OrgT<7>, OrgT<0>>(hd, parts);
    return "bad-op:org";
#else
    if (hd[1] != OrgT<C04_ORG>::name) return "bad-op:org";
    return run_op<OrgT<C04_ORG>, OrgT<C04_ORG>>(hd, parts);
#endif
}

int main() { return hv::run(handle); }
