// compile probe: does equal_pixels compile on two planar views?
#include <boost/gil.hpp>
namespace gil = boost::gil;
int main() {
    gil::rgb8_planar_image_t a(3, 2), b(3, 2);
    return gil::equal_pixels(gil::const_view(a), gil::const_view(b)) ? 0 : 1;
}
