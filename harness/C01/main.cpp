// C01 correspondence harness: where images put their pixels, and whether any access leaves the buffer.
//
// Every image allocates through `guard_alloc`, which maps each allocation into its own slot
// [guard page][data area][guard page] at a fixed virtual address and returns either
//   mode 0: data_start + R   (the requested residue R of the allocator address), or
//   mode 1: data_end - n     (the allocation ENDS at the trailing guard page: any access one byte past it faults).
// A fault on a guard page is caught (SIGSEGV handler + siglongjmp) and becomes the observation `segv:<offset>`.
// Nothing here depends on AddressSanitizer (which stays on as a second witness).
//
//   img <kind> <W> <H> <A> <mode> <R> <ctor> <W2> <H2> <A2> <xforms>
//     kind  g8 rgb8 rgba8 bgr8 rgb16 rgb32f dev5 p565 | pl8 pl16c | b1 b2 b4 b6 b12
//     ctor  d  image(W,H,A)            f  image(W,H,pixel,A)      c  copy of image(W,H,A)
//           a  image(W2,H2,A2) assigned from image(W,H,A)         r  image(W,H,A).recreate(W2,H2,A2)
//           q  image(W,H,A) then a SEQUENCE of recreate calls: (W2,H2,A2) followed by the calls of a 13th word
//              `w,h,a/w,h,a/...` (`-` = none); call number i uses overload i mod 4 of
//              recreate(w,h,a) / recreate(w,h,pixel,a) / recreate(w,h,a,alloc) / recreate(w,h,pixel,a,alloc)
//     then every pixel of view(img) and of the view derived by <xforms> (U L T R C I S<sx>,<sy> B<x0>,<y0>,<w>,<h>, and for
//     homogeneous byte-addressed kinds N<n> = nth_channel_view(., n), K<k> = kth_channel_view<k>, anywhere in the list) is
//     read and written back through view(x,y), row_begin(y)[x], begin()[i], and through the 1-D iterator after multi-row moves
//     (end() - k, (begin() + j) - (j - i), rbegin() + k for every pixel); fill_pixels / copy_pixels / for_each_pixel run on it
//   -> n nalloc off fmod row w h lo hi | dw dh dlo dhi | ok        (or `... segv:<byte offset from the allocation start>`)
//        n      bytes requested from the allocator for the storage in use;  nalloc  number of allocations made by the op
//        off    first pixel - allocation start (memory units);  fmod  address of the first pixel modulo A (0 if A = 0)
//        row    row size (memory units);  lo/hi  smallest pixel address / largest pixel end over all pixels (memory units, all planes)
//   buf <kind> <W> <H> <PAD> <mode>   interleaved_view / planar_rgb_view over a caller buffer of exactly H*rowbytes
//   -> rowbytes lo hi | ok
//   pbuf <kind pl8|pl16> <W> <H> <PAD> <mode> <xforms>   planar_rgb_view over ONE caller buffer of exactly 3*H*rowbytes (planes H*rowbytes apart),
//                                                        then the derived view as for img
//   -> rowbytes lo hi | dw dh dlo dhi | ok
#include <boost/gil.hpp>
#include "harness.hpp"
#include <sys/mman.h>
#include <signal.h>
#include <setjmp.h>
namespace gil = boost::gil;
namespace mp11 = boost::mp11;

#ifndef KGROUP
#define KGROUP 0
#endif

// ---------------------------------------------------------------- guard-paged allocator
static const unsigned long DATA = 1720320;                    // 420 pages: a multiple of every alignment the generator uses
static const unsigned long BASE = DATA * 33554432ul, SLOT = DATA * 4;
static int g_mode = 0; static long g_R = 0; static unsigned long g_next = 0; static unsigned long g_gran = 1;
static unsigned char* g_last_ptr = nullptr; static unsigned long g_last_n = 0; static int g_nalloc = 0;
struct slot_t { unsigned char* data; unsigned char* ptr; unsigned long n; bool live; };
static slot_t g_slots[64];

static unsigned char* guard_allocate(unsigned long n) {
    int k = -1; for (int i = 0; i < 64; ++i) if (!g_slots[i].live) { k = i; break; }
    if (k < 0 || n > DATA) throw std::bad_alloc();
    unsigned long slot = BASE + (g_next++ % 100000) * SLOT;
    unsigned char* data = (unsigned char*)(slot + DATA);
    void* m = mmap(data - 4096, DATA + 8192, PROT_READ | PROT_WRITE, MAP_PRIVATE | MAP_ANONYMOUS | MAP_FIXED_NOREPLACE, -1, 0);
    if (m != (void*)(data - 4096)) throw std::bad_alloc();
    mprotect(data - 4096, 4096, PROT_NONE); mprotect(data + DATA, 4096, PROT_NONE);
    // mode 1: the allocation ends at the guard page (rounded to the granule a real allocator guarantees for the channel type)
    unsigned char* p = g_mode == 0 ? data + g_R : data + DATA - (n + g_gran - 1) / g_gran * g_gran;
    g_slots[k] = {data, p, n, true}; g_last_ptr = p; g_last_n = n; ++g_nalloc;
    return p;
}
static void guard_deallocate(unsigned char* p) {
    for (auto& s : g_slots) if (s.live && s.ptr == p) { munmap(s.data - 4096, DATA + 8192); s.live = false; return; }
}
static slot_t* slot_of(unsigned char const* p) { for (auto& s : g_slots) if (s.live && s.ptr == p) return &s; return nullptr; }
template <class T> struct guard_alloc {
    using value_type = T;
    guard_alloc() = default; template <class U> guard_alloc(guard_alloc<U> const&) {}
    T* allocate(std::size_t n) { return (T*)guard_allocate(n * sizeof(T)); }
    void deallocate(T* p, std::size_t) { guard_deallocate((unsigned char*)p); }
    template <class U> bool operator==(guard_alloc<U> const&) const { return true; }
    template <class U> bool operator!=(guard_alloc<U> const&) const { return false; }
};
static sigjmp_buf g_env; static volatile long g_fault = 0; static unsigned char* g_cur_ptr = nullptr;
static void on_segv(int, siginfo_t* si, void*) { g_fault = (long)((unsigned char*)si->si_addr - g_cur_ptr); siglongjmp(g_env, 1); }

// ---------------------------------------------------------------- addresses (memory units relative to ORG)
static unsigned char* ORG = nullptr;
template <class P> long long it_addr(P* p);
template <class I> long long it_addr(gil::memory_based_step_iterator<I> const& it);
template <class C, class CS> long long it_addr(gil::planar_pixel_iterator<C, CS> const& it);
template <class R> long long it_addr(gil::bit_aligned_pixel_iterator<R> const& it);
template <class P> long long it_addr(P* p) { return (const unsigned char*)p - ORG; }
template <class I> long long it_addr(gil::memory_based_step_iterator<I> const& it) { return it_addr(it.base()); }
template <class C, class CS> long long it_addr(gil::planar_pixel_iterator<C, CS> const& it) { return it_addr(gil::at_c<0>(it)); }
template <class R> long long it_addr(gil::bit_aligned_pixel_iterator<R> const& it) {
    return (long long)(it.bit_range().current_byte() - ORG) * 8 + it.bit_range().bit_offset(); }
// address of the END of the last plane's channel (planar), else of the pixel
template <class P> long long it_end(P* p, long long);
template <class I> long long it_end(gil::memory_based_step_iterator<I> const& it, long long ps);
template <class C, class CS> long long it_end(gil::planar_pixel_iterator<C, CS> const& it, long long);
template <class R> long long it_end(gil::bit_aligned_pixel_iterator<R> const& it, long long ps);
template <class P> long long it_end(P* p, long long) { return (const unsigned char*)p - ORG + (long long)sizeof(P); }
template <class I> long long it_end(gil::memory_based_step_iterator<I> const& it, long long ps) { return it_end(it.base(), ps); }
template <class C, class CS> long long it_end(gil::planar_pixel_iterator<C, CS> const& it, long long) {
    constexpr int last = mp11::mp_size<CS>::value - 1;
    return (const unsigned char*)gil::at_c<last>(it) - ORG + (long long)sizeof(*gil::at_c<last>(it)); }
template <class R> long long it_end(gil::bit_aligned_pixel_iterator<R> const& it, long long ps) { return it_addr(it) + ps; }

// ---------------------------------------------------------------- transformations at run time
struct Xf { char c; long a[4]; };
static std::vector<Xf> parse_xf(std::string const& s) {
    std::vector<Xf> r;
    if (s == "-") return r;
    size_t i = 0;
    while (i < s.size()) {
        size_t j = s.find('/', i); if (j == std::string::npos) j = s.size();
        std::string t = s.substr(i, j - i); Xf x{t[0], {0, 0, 0, 0}};
        int k = 0; size_t p = 1;
        while (p < t.size() && k < 4) { size_t q = t.find(',', p); if (q == std::string::npos) q = t.size(); x.a[k++] = std::strtol(t.substr(p, q - p).c_str(), nullptr, 10); p = q + 1; }
        r.push_back(x); i = j + 1;
    }
    return r;
}
static void put(std::string& s, long long v) { s += std::to_string(v); s += ' '; }

struct Touch {        // read + write back every pixel through several access paths, run the pixel algorithms
    long long lo, hi; long w, h;
    template <class V> void operator()(V const& v) {
        w = v.width(); h = v.height(); lo = 0; hi = 0; bool first = true;
        long long ps = gil::memunit_step(typename V::x_iterator());
        if (ps < 0) ps = -ps;
        for (long y = 0; y < h; ++y) for (long x = 0; x < w; ++x) {
            long long a = it_addr(v.x_at(x, y)), e = it_end(v.x_at(x, y), ps);
            if (first || a < lo) lo = a; if (first || e > hi) hi = e; first = false;
            typename V::value_type px = v(x, y); v(x, y) = px;
            px = v.row_begin(y)[x]; v.row_begin(y)[x] = px;
            px = v.col_begin(x)[y];
            px = v.begin()[y * w + x]; v.begin()[y * w + x] = px;
            px = *v.xy_at(x, y);
            // the 1-D iterator after negative / positive multi-row random-access moves landing on this pixel (every column, column 0 included):
            // end() - k,  (begin() + j) - (j - i),  rbegin() + k.  The position reached is part of the reported extent.
            long i = y * w + x, size = w * h;
            auto track = [&](auto const& xit) { long long a2 = it_addr(xit), e2 = it_end(xit, ps); if (a2 < lo) lo = a2; if (e2 > hi) hi = e2; };
            { auto E = v.end() - (size - i); track(E.x()); px = *E; *E = px; }
            { long j = std::min(size, i + w + 1); auto B = (v.begin() + j) - (j - i); track(B.x()); px = *B; *B = px; }
            { auto R = v.rbegin() + (size - 1 - i); auto t = R.base(); --t; track(t.x()); px = *R; *R = px; }
        }
        if (w > 0 && h > 0) {
            typename V::value_type px = v(0, 0);
            // fill_pixels does not compile for planar views with a dynamic x step (fill_aux applies static_for_each to the step iterator)
            if constexpr (!gil::is_planar<V>::value || !gil::iterator_is_step<typename V::x_iterator>::value) gil::fill_pixels(v, px);
            gil::for_each_pixel(v, [](typename V::reference r) { typename V::value_type t = r; r = t; });
        }
    }
};
// channel views exist for basic (memory based) views of homogeneous pixels
template <class P> struct is_homog_pixel : std::false_type {};
template <class T, class L> struct is_homog_pixel<gil::pixel<T, L>> : std::true_type {};
template <class V> constexpr bool can_chan = gil::view_is_basic<V>::value && is_homog_pixel<typename V::value_type>::value;
template <class V> void walk(V const& v, std::vector<Xf> const& xs, size_t i, Touch& f) {
    if (i == xs.size()) { f(v); return; }
    Xf const& t = xs[i];
    switch (t.c) {
    case 'U': walk(gil::flipped_up_down_view(v), xs, i + 1, f); break;
    case 'L': walk(gil::flipped_left_right_view(v), xs, i + 1, f); break;
    case 'T': walk(gil::transposed_view(v), xs, i + 1, f); break;
    case 'R': walk(gil::rotated90cw_view(v), xs, i + 1, f); break;
    case 'C': walk(gil::rotated90ccw_view(v), xs, i + 1, f); break;
    case 'I': walk(gil::rotated180_view(v), xs, i + 1, f); break;
    case 'S': walk(gil::subsampled_view(v, t.a[0], t.a[1]), xs, i + 1, f); break;
    case 'B': walk(gil::subimage_view(v, t.a[0], t.a[1], t.a[2], t.a[3]), xs, i + 1, f); break;
    case 'N':     // nth_channel_view(v, n): single-channel view of channel n (the walk continues on it)
        if constexpr (can_chan<V>) walk(gil::nth_channel_view(v, (int)t.a[0]), xs, i + 1, f);
        break;
    case 'K':     // kth_channel_view<k>(v)
        if constexpr (can_chan<V>) {
            constexpr int NC = gil::num_channels<V>::value;
            if (t.a[0] == 0) walk(gil::kth_channel_view<0>(v), xs, i + 1, f);
            if constexpr (NC > 1) { if (t.a[0] == 1) walk(gil::kth_channel_view<1>(v), xs, i + 1, f); }
            if constexpr (NC > 2) { if (t.a[0] == 2) walk(gil::kth_channel_view<2>(v), xs, i + 1, f); }
        }
        break;
    default: break;
    }
}

// ---------------------------------------------------------------- image ops
template <class Pixel, bool Planar> std::string img_op(std::vector<std::string> const& w, unsigned long gran = 1) {
    using image_t = gil::image<Pixel, Planar, guard_alloc<unsigned char>>;
    using view_t = typename image_t::view_t;
    long W = hv::to_ll(w[2]), H = hv::to_ll(w[3]), A = hv::to_ll(w[4]);
    g_mode = (int)hv::to_ll(w[5]); g_R = hv::to_ll(w[6]);
    g_gran = gran;
    std::string const& ctor = w[7];
    long W2 = hv::to_ll(w[8]), H2 = hv::to_ll(w[9]), A2 = hv::to_ll(w[10]);
    auto xs = parse_xf(w[11]);
    long q_align = A;
    std::string out; g_nalloc = 0; g_last_ptr = nullptr; g_last_n = 0;
    for (auto& s : g_slots) if (s.live) { munmap(s.data - 4096, DATA + 8192); s.live = false; }
    if (sigsetjmp(g_env, 1) != 0) return out + "segv:" + std::to_string(g_fault);
    // images are leaked on a fault (the slots are unmapped at the start of the next op)
    image_t* img = nullptr; image_t* other = nullptr;
    if (ctor == "d") img = new image_t(W, H, A);
    else if (ctor == "f") { typename image_t::value_type val{}; Pixel p(val); img = new image_t(W, H, p, A); }
    else if (ctor == "c") { other = new image_t(W, H, A); img = new image_t(*other); }
    else if (ctor == "a") { other = new image_t(W, H, A); img = new image_t(W2, H2, A2); *img = *other; }
    else if (ctor == "r") { img = new image_t(W, H, A); img->recreate(W2, H2, A2); }
    else if (ctor == "q") {
        img = new image_t(W, H, A);
        std::vector<Xf> calls; calls.push_back(Xf{'q', {W2, H2, A2, 0}});
        if (w.size() > 12) for (auto const& c : parse_xf(w[12])) calls.push_back(c);
        typename image_t::value_type val{}; Pixel p(val);
        int k = 0;
        for (auto const& c : calls) {
            long cw = c.a[0], ch = c.a[1], ca = c.a[2];
            // bookkeeping of _align_in_bytes (private): unchanged only when recreate has nothing to do
            if (!(cw == img->width() && ch == img->height() && ca == q_align)) q_align = ca;
            switch (k++ % 4) {
            case 0: img->recreate(cw, ch, ca); break;
            case 1: img->recreate(cw, ch, p, ca); break;
            case 2: img->recreate(cw, ch, ca, guard_alloc<unsigned char>()); break;
            default: img->recreate(cw, ch, p, ca, guard_alloc<unsigned char>()); break;
            }
        }
    }
    else return "bad-op";
    view_t v = gil::view(*img);
    long long ps = gil::memunit_step(typename view_t::x_iterator());
    // the allocation backing img: the live slot containing its first pixel (or the last allocation for empty images)
    unsigned char const* first = nullptr; long long fbits = 0;
    { long long a0; ORG = nullptr; a0 = it_addr(v.pixels().x()); first = (unsigned char const*)(gil::byte_to_memunit<typename view_t::x_iterator>::value == 8 ? a0 / 8 : a0); fbits = a0; }
    slot_t* sl = nullptr; for (auto& s : g_slots) if (s.live && first >= s.ptr - 256 && first <= s.ptr + s.n + 256) sl = &s;
    unsigned char* mem = sl ? sl->ptr : g_last_ptr; unsigned long n = sl ? sl->n : 0;
    ORG = mem; g_cur_ptr = mem;
    long align_used = ctor == "a" ? ((W == W2 && H == H2) ? A2 : A) : ctor == "r" ? ((W == W2 && H == H2 && A == A2) ? A : A2) : ctor == "q" ? q_align : A;
    put(out, (long long)n); put(out, g_nalloc);
    if (n == 0) { put(out, 0); put(out, 0); }
    else { put(out, it_addr(v.pixels().x())); put(out, align_used > 0 ? (long long)((unsigned long)first % (unsigned long)align_used) : 0); }
    put(out, n == 0 ? 0 : v.pixels().row_size()); put(out, v.width()); put(out, v.height());
    Touch t0; t0(v); put(out, t0.lo); put(out, t0.hi); out += "| ";
    Touch t1; walk(v, xs, 0, t1); put(out, t1.w); put(out, t1.h); put(out, t1.lo); put(out, t1.hi); out += "| ";
    if (other && ctor == "c" && v.width() > 0 && v.height() > 0) gil::copy_pixels(gil::const_view(*other), v);
    delete img; delete other;
    return out + "ok";
}

// ---------------------------------------------------------------- caller buffers
template <class Pixel> std::string buf_op(std::vector<std::string> const& w) {
    long W = hv::to_ll(w[2]), H = hv::to_ll(w[3]), PAD = hv::to_ll(w[4]);
    g_mode = (int)hv::to_ll(w[5]); g_R = 0; g_gran = alignof(Pixel);
    for (auto& s : g_slots) if (s.live) { munmap(s.data - 4096, DATA + 8192); s.live = false; }
    std::string out;
    long row = W * (long)sizeof(Pixel) + PAD; unsigned long n = (unsigned long)(row * H);
    if (sigsetjmp(g_env, 1) != 0) return out + "segv:" + std::to_string(g_fault);
    unsigned char* mem = n ? guard_allocate(n) : nullptr;     // mode 0: starts right after the leading guard page; mode 1: ends at the trailing one
    ORG = mem; g_cur_ptr = mem;
    auto v = gil::interleaved_view(W, H, (Pixel*)mem, row);
    put(out, row);
    Touch t; if (n) t(v); else { t.lo = t.hi = 0; } put(out, t.lo); put(out, t.hi); out += "| ";
    if (mem) guard_deallocate(mem);
    return out + "ok";
}

template <class T> std::string pbuf_op(std::vector<std::string> const& w) {
    long W = hv::to_ll(w[2]), H = hv::to_ll(w[3]), PAD = hv::to_ll(w[4]);
    g_mode = (int)hv::to_ll(w[5]); g_R = 0; g_gran = alignof(T);
    auto xs = parse_xf(w[6]);
    for (auto& s : g_slots) if (s.live) { munmap(s.data - 4096, DATA + 8192); s.live = false; }
    std::string out;
    long row = W * (long)sizeof(T) + PAD; unsigned long n = (unsigned long)(3 * row * H);
    if (sigsetjmp(g_env, 1) != 0) return out + "segv:" + std::to_string(g_fault);
    unsigned char* mem = n ? guard_allocate(n) : nullptr;
    ORG = mem; g_cur_ptr = mem;
    put(out, row);
    if (!n) { out += "0 0 | 0 0 0 0 | "; return out + "ok"; }
    auto v = gil::planar_rgb_view(W, H, (T*)mem, (T*)(mem + row * H), (T*)(mem + 2 * row * H), row);
    Touch t; t(v); put(out, t.lo); put(out, t.hi); out += "| ";
    Touch t1; walk(v, xs, 0, t1); put(out, t1.w); put(out, t1.h); put(out, t1.lo); put(out, t1.hi); out += "| ";
    guard_deallocate(mem);
    return out + "ok";
}

using p565_t = gil::packed_image3_type<std::uint16_t, 5, 6, 5, gil::rgb_layout_t>::type::value_type;
using dev5_t = gil::pixel<std::uint8_t, gil::devicen_layout_t<5>>;
template <class Img> struct bitpix { using type = typename Img::value_type; };
using b1_t = gil::bit_aligned_image1_type<1, gil::gray_layout_t>::type;
using b2_t = gil::bit_aligned_image1_type<2, gil::gray_layout_t>::type;
using b4_t = gil::bit_aligned_image1_type<4, gil::gray_layout_t>::type;
using b6_t = gil::bit_aligned_image3_type<2, 2, 2, gil::rgb_layout_t>::type;
using b12_t = gil::bit_aligned_image3_type<4, 4, 4, gil::rgb_layout_t>::type;
template <class Img> std::string bit_img_op(std::vector<std::string> const& w) {
    // bit_aligned_imageN_type<...>::type is image<bit_aligned_pixel_reference, false, std::allocator>: rebuild it with guard_alloc
    return img_op<typename Img::view_t::reference, false>(w);
}

int main() {
    struct sigaction sa; std::memset(&sa, 0, sizeof sa); sa.sa_sigaction = on_segv; sa.sa_flags = SA_SIGINFO | SA_NODEFER;
    sigaction(SIGSEGV, &sa, nullptr); sigaction(SIGBUS, &sa, nullptr);
    return hv::run([](std::string const& line) -> std::string {
        auto w = hv::words(line);
        if ((w.size() == 12 || w.size() == 13) && w[0] == "img") {
            std::string const& k = w[1];
#if KGROUP == 0 || KGROUP == 1
            if (k == "g8") return img_op<gil::gray8_pixel_t, false>(w);
            if (k == "rgb8") return img_op<gil::rgb8_pixel_t, false>(w);
            if (k == "bgr8") return img_op<gil::bgr8_pixel_t, false>(w);
#endif
#if KGROUP == 0 || KGROUP == 2
            if (k == "rgba8") return img_op<gil::rgba8_pixel_t, false>(w);
            if (k == "rgb16") return img_op<gil::rgb16_pixel_t, false>(w, 2);
            if (k == "dev5") return img_op<dev5_t, false>(w);
#endif
#if KGROUP == 0 || KGROUP == 3
            if (k == "rgb32f") return img_op<gil::rgb32f_pixel_t, false>(w, 4);
            if (k == "p565") return img_op<p565_t, false>(w, 2);
#endif
#if KGROUP == 0 || KGROUP == 4
            if (k == "pl8") return img_op<gil::rgb8_pixel_t, true>(w);
            if (k == "pl16c") return img_op<gil::cmyk16_pixel_t, true>(w, 2);
#endif
#if KGROUP == 0 || KGROUP == 5
            if (k == "b1") return bit_img_op<b1_t>(w);
            if (k == "b2") return bit_img_op<b2_t>(w);
            if (k == "b4") return bit_img_op<b4_t>(w);
#endif
#if KGROUP == 0 || KGROUP == 6
            if (k == "b6") return bit_img_op<b6_t>(w);
            if (k == "b12") return bit_img_op<b12_t>(w);
#endif
            return "bad-kind";
        }
#if KGROUP == 0 || KGROUP == 4
        if (w.size() == 7 && w[0] == "pbuf") {
            if (w[1] == "pl8") return pbuf_op<std::uint8_t>(w);
            if (w[1] == "pl16") return pbuf_op<std::uint16_t>(w);
            return "bad-kind";
        }
#endif
        if (w.size() == 6 && w[0] == "buf") {
            std::string const& k = w[1];
#if KGROUP == 0 || KGROUP == 1
            if (k == "g8") return buf_op<gil::gray8_pixel_t>(w);
            if (k == "rgb8") return buf_op<gil::rgb8_pixel_t>(w);
#endif
#if KGROUP == 0 || KGROUP == 2
            if (k == "rgb16") return buf_op<gil::rgb16_pixel_t>(w);
#endif
#if KGROUP == 0 || KGROUP == 3
            if (k == "p565") return buf_op<p565_t>(w);
#endif
            return "bad-kind";
        }
        return "bad-op";
    });
}
