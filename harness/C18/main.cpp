// C18 correspondence harness: toolbox colour spaces of the real headers.
//   px <space> r g b        one rgb8 pixel -> <space> -> rgb8:   c1 c2 c3 | r' g' b'
//                           (intermediate channels: float32 bit patterns for hsv hsl xyz lab, bytes for ycbcr601 ycbcr709;
//                            cmyka: c m y k a bytes obtained from the core rgb8->cmyk8 plus alpha 255, then cmyka8 -> rgba8: r' g' b' a')
//   rt <space> <r>          all 65536 pixels (r,g,b) of the plane: <max |back-orig|> <number of pixels with a channel out of the documented range> <hash>
//   hsv2rgb h s v / hsl2rgb h s l   (float32 bit patterns) -> r g b (rgb8)
//   hueper hsv|hsl <s> <v|l>   rgb8 of (hue 0, s, v) | rgb8 of (hue 1, s, v)
//   ga <g> <a>              gray_alpha8 -> rgba8, gray_alpha8 -> rgb8, gray_alpha8 -> gray8, gray8 -> rgba8 (toolbox gray_to_rgba):  r g b a | r g b | y | r g b a
//   gax <sd> <td> <g> <a>  the same four conversions from depth sd in {8,16,32f} to depth td (float32 values as bit patterns)
//   lumd <r> <g> <b>        double channels r/255 g/255 b/255 -> gray double (toolbox rgb_to_luminance): 64-bit pattern, then core rgb8 -> gray8:  <bits> <y8>
#include <boost/gil.hpp>
#include <boost/gil/extension/toolbox/color_spaces.hpp>
#include <boost/gil/extension/toolbox/color_converters.hpp>
#include <boost/gil/extension/toolbox/color_spaces/ycbcr.hpp>
#include "harness.hpp"
namespace gil = boost::gil;

static float f_of(unsigned long long b) { uint32_t u = (uint32_t)b; float f; std::memcpy(&f, &u, 4); return f; }
static unsigned long long b_of(float f) { uint32_t u; std::memcpy(&u, &f, 4); return u; }
static unsigned long long bd_of(double f) { uint64_t u; std::memcpy(&u, &f, 8); return u; }

struct hasher { uint64_t h = 1469598103934665603ull; void add(uint64_t v) { h = h * 1099511628211ull + v; } };

// one pixel through a float32 colour space; returns intermediate bits and the pixel converted back
template <typename X> struct via32f {
    static void run(int r, int g, int b, unsigned long long c[3], int back[3]) {
        gil::rgb8_pixel_t p(r, g, b); X x; gil::rgb8_pixel_t q;
        gil::color_convert(p, x); gil::color_convert(x, q);
        for (int k = 0; k < 3; ++k) { c[k] = b_of(float(x[k])); back[k] = q[k]; }
    }
    static bool in_unit_range(unsigned long long const c[3]) {
        for (int k = 0; k < 3; ++k) { float f = f_of(c[k]); if (!(f >= 0.0f && f <= 1.0f)) return false; }
        return true;
    }
};
template <typename X> struct via8 {
    static void run(int r, int g, int b, unsigned long long c[3], int back[3]) {
        gil::rgb8_pixel_t p(r, g, b); X x; gil::rgb8_pixel_t q;
        gil::color_convert(p, x); gil::color_convert(x, q);
        for (int k = 0; k < 3; ++k) { c[k] = x[k]; back[k] = q[k]; }
    }
};
static void via_cmyka(int r, int g, int b, int c[5], int back[4]) {
    gil::rgb8_pixel_t p(r, g, b); gil::cmyk8_pixel_t k; gil::color_convert(p, k);
    gil::cmyka8_pixel_t ka(k[0], k[1], k[2], k[3], 255); gil::rgba8_pixel_t q; gil::color_convert(ka, q);
    for (int i = 0; i < 5; ++i) c[i] = ka[i];
    for (int i = 0; i < 4; ++i) back[i] = q[i];
}

// depth-changing gray_alpha -> rgba / rgb / gray and gray -> rgba: channel values as integers (8, 16) or float32 bit patterns (32f)
template <typename C> struct cio { static C make(long long v) { return C(v); } static long long show(C const& c) { return (long long)c; } };
template <> struct cio<gil::float32_t> {
    static gil::float32_t make(long long v) { return gil::float32_t(f_of((unsigned long long)v)); }
    static long long show(gil::float32_t const& c) { return (long long)b_of(float(c)); } };
template <typename GA, typename G, typename RGBA, typename RGB, typename GD> std::string gax(long long g, long long a) {
    using S = typename gil::channel_type<GA>::type; using T = typename gil::channel_type<RGBA>::type;
    GA p(cio<S>::make(g), cio<S>::make(a)); RGBA q; RGB q3; GD q1; RGBA q4;
    gil::color_convert(p, q); gil::color_convert(p, q3); gil::color_convert(p, q1);
    G gp(cio<S>::make(g)); gil::color_convert(gp, q4);
    auto sh = [](T const& c) { return std::to_string(cio<T>::show(c)); };
    return sh(q[0]) + " " + sh(q[1]) + " " + sh(q[2]) + " " + sh(q[3]) + " | " + sh(q3[0]) + " " + sh(q3[1]) + " " + sh(q3[2]) + " | " + sh(q1[0]) + " | " +
           sh(q4[0]) + " " + sh(q4[1]) + " " + sh(q4[2]) + " " + sh(q4[3]);
}

enum space { HSV, HSL, XYZ, LAB, Y601, Y709, CMYKA, NONE };
static space space_of(std::string const& s) {
    if (s == "hsv") return HSV; if (s == "hsl") return HSL; if (s == "xyz") return XYZ; if (s == "lab") return LAB;
    if (s == "ycbcr601") return Y601; if (s == "ycbcr709") return Y709; if (s == "cmyka") return CMYKA; return NONE;
}
static bool run3(space sp, int r, int g, int b, unsigned long long c[3], int back[3]) {
    switch (sp) {
        case HSV: via32f<gil::hsv32f_pixel_t>::run(r, g, b, c, back); return true;
        case HSL: via32f<gil::hsl32f_pixel_t>::run(r, g, b, c, back); return true;
        case XYZ: via32f<gil::xyz32f_pixel_t>::run(r, g, b, c, back); return true;
        case LAB: via32f<gil::lab32f_pixel_t>::run(r, g, b, c, back); return true;
        case Y601: via8<gil::ycbcr_601_8_pixel_t>::run(r, g, b, c, back); return true;
        case Y709: via8<gil::ycbcr_709_8_pixel_t>::run(r, g, b, c, back); return true;
        default: return false;
    }
}

static std::string px(space sp, int r, int g, int b) {
    if (sp == CMYKA) {
        int c[5], back[4]; via_cmyka(r, g, b, c, back);
        std::string s; for (int i = 0; i < 5; ++i) s += std::to_string(c[i]) + " ";
        s += "|"; for (int i = 0; i < 4; ++i) s += " " + std::to_string(back[i]);
        return s;
    }
    unsigned long long c[3]; int back[3];
    if (!run3(sp, r, g, b, c, back)) return "bad-op";
    return std::to_string(c[0]) + " " + std::to_string(c[1]) + " " + std::to_string(c[2]) + " | " +
           std::to_string(back[0]) + " " + std::to_string(back[1]) + " " + std::to_string(back[2]);
}

static std::string rt(space sp, int r) {
    hasher H; int maxd = 0; long long nrange = 0;
    for (int g = 0; g < 256; ++g) for (int b = 0; b < 256; ++b) {
        int orig[3] = {r, g, b};
        if (sp == CMYKA) {
            int c[5], back[4]; via_cmyka(r, g, b, c, back);
            for (int i = 0; i < 5; ++i) H.add(c[i]); for (int i = 0; i < 4; ++i) H.add(back[i]);
            for (int i = 0; i < 3; ++i) maxd = std::max(maxd, std::abs(back[i] - orig[i]));
            if (back[3] != 255) ++nrange;
            continue;
        }
        unsigned long long c[3]; int back[3];
        if (!run3(sp, r, g, b, c, back)) return "bad-op";
        for (int i = 0; i < 3; ++i) { H.add(c[i]); H.add(back[i]); maxd = std::max(maxd, std::abs(back[i] - orig[i])); }
        if ((sp == HSV || sp == HSL) && !via32f<gil::hsv32f_pixel_t>::in_unit_range(c)) ++nrange;
    }
    return std::to_string(maxd) + " " + std::to_string(nrange) + " " + std::to_string(H.h);
}

int main() {
    return hv::run([](std::string const& line) -> std::string {
        auto w = hv::words(line);
        if (w.size() == 5 && w[0] == "px") return px(space_of(w[1]), (int)hv::to_ll(w[2]), (int)hv::to_ll(w[3]), (int)hv::to_ll(w[4]));
        if (w.size() == 3 && w[0] == "rt") return rt(space_of(w[1]), (int)hv::to_ll(w[2]));
        if (w.size() == 4 && (w[0] == "hsv2rgb" || w[0] == "hsl2rgb")) {
            float a = f_of(hv::to_ull(w[1])), b = f_of(hv::to_ull(w[2])), c = f_of(hv::to_ull(w[3]));
            gil::rgb8_pixel_t q;
            if (w[0] == "hsv2rgb") { gil::hsv32f_pixel_t p(a, b, c); gil::color_convert(p, q); }
            else { gil::hsl32f_pixel_t p(a, b, c); gil::color_convert(p, q); }
            return std::to_string(q[0]) + " " + std::to_string(q[1]) + " " + std::to_string(q[2]);
        }
        if (w.size() == 4 && w[0] == "hueper") {
            // the same colour with hue 0 and with hue 1 (hue is periodic)
            float b = f_of(hv::to_ull(w[2])), c = f_of(hv::to_ull(w[3]));
            gil::rgb8_pixel_t q0, q1;
            if (w[1] == "hsv") { gil::hsv32f_pixel_t p0(0.f, b, c), p1(1.f, b, c); gil::color_convert(p0, q0); gil::color_convert(p1, q1); }
            else if (w[1] == "hsl") { gil::hsl32f_pixel_t p0(0.f, b, c), p1(1.f, b, c); gil::color_convert(p0, q0); gil::color_convert(p1, q1); }
            else return "bad-op";
            return std::to_string(q0[0]) + " " + std::to_string(q0[1]) + " " + std::to_string(q0[2]) + " | " +
                   std::to_string(q1[0]) + " " + std::to_string(q1[1]) + " " + std::to_string(q1[2]);
        }
        if (w.size() == 3 && w[0] == "ga") {
            int g = (int)hv::to_ll(w[1]), a = (int)hv::to_ll(w[2]);
            gil::gray_alpha8_pixel_t p(g, a); gil::rgba8_pixel_t q; gil::rgb8_pixel_t q3; gil::gray8_pixel_t q1; gil::rgba8_pixel_t q4;
            gil::color_convert(p, q); gil::color_convert(p, q3); gil::color_convert(p, q1);
            gil::gray8_pixel_t gp(g); gil::color_convert(gp, q4);
            return std::to_string(q[0]) + " " + std::to_string(q[1]) + " " + std::to_string(q[2]) + " " + std::to_string(q[3]) + " | " +
                   std::to_string(q3[0]) + " " + std::to_string(q3[1]) + " " + std::to_string(q3[2]) + " | " + std::to_string(q1[0]) + " | " +
                   std::to_string(q4[0]) + " " + std::to_string(q4[1]) + " " + std::to_string(q4[2]) + " " + std::to_string(q4[3]);
        }
        if (w.size() == 5 && w[0] == "gax") {
            long long g = hv::to_ll(w[3]), a = hv::to_ll(w[4]);
#define GAX(sn, GA, G, tn, RGBA, RGB, GD) if (w[1] == sn && w[2] == tn) return gax<GA, G, RGBA, RGB, GD>(g, a);
#define GAXS(sn, GA, G) GAX(sn, GA, G, "8", gil::rgba8_pixel_t, gil::rgb8_pixel_t, gil::gray8_pixel_t) \
                        GAX(sn, GA, G, "16", gil::rgba16_pixel_t, gil::rgb16_pixel_t, gil::gray16_pixel_t) \
                        GAX(sn, GA, G, "32f", gil::rgba32f_pixel_t, gil::rgb32f_pixel_t, gil::gray32f_pixel_t)
            GAXS("8", gil::gray_alpha8_pixel_t, gil::gray8_pixel_t) GAXS("16", gil::gray_alpha16_pixel_t, gil::gray16_pixel_t) GAXS("32f", gil::gray_alpha32f_pixel_t, gil::gray32f_pixel_t)
#undef GAXS
#undef GAX
            return "bad-op";
        }
        if (w.size() == 4 && w[0] == "lumd") {
            int r = (int)hv::to_ll(w[1]), g = (int)hv::to_ll(w[2]), b = (int)hv::to_ll(w[3]);
            gil::pixel<double, gil::rgb_layout_t> p(r / 255.0, g / 255.0, b / 255.0); gil::pixel<double, gil::gray_layout_t> y;
            gil::color_convert(p, y);
            gil::rgb8_pixel_t p8(r, g, b); gil::gray8_pixel_t y8; gil::color_convert(p8, y8);
            return std::to_string(bd_of(y[0])) + " " + std::to_string((int)y8[0]);
        }
        return "bad-op";
    });
}
