// C09 correspondence harness, heterogeneous pixels: rgb pixels whose channels have DIFFERENT depths
// (packed_pixel rgb565 / bgr565 / rgb332, bit-aligned references ba332 / ba565).
//   cch  <src> <dst> v1 .. vk  ->  dst channels in semantic order (r g b | gray | c m y k), each channel in its own range
//   cchA <src> <dst> v1 .. vk      the same op; the check sends it to the build WITH assertions (BOOST_ASSERT in
//                                  packed_channel_reference::operator= aborts -> `assert:channel.hpp:..` observation),
//                                  `cch` to the -DNDEBUG build (value check independent of the assertion)
//   sources: gray8 gray16 rgb8 rgb565 bgr565 rgb332 ba332 ba565; destinations: rgb565 bgr565 rgb332 ba332 ba565 for gray / rgb8
//   sources, gray8 rgb8 for packed / bit-aligned sources (heterogeneous rgb -> cmyk does not compile: the converter needs
//   channel_type<SrcPixel>, which is undefined for pixels whose channels differ).  Source channel values are masked to the channel's width.
#include <boost/gil.hpp>
#include "harness.hpp"
namespace gil = boost::gil;
namespace mp11 = boost::mp11;

using rgb565_t = gil::packed_pixel_type<std::uint16_t, mp11::mp_list_c<unsigned, 5, 6, 5>, gil::rgb_layout_t>::type;
using bgr565_t = gil::packed_pixel_type<std::uint16_t, mp11::mp_list_c<unsigned, 5, 6, 5>, gil::bgr_layout_t>::type;
using rgb332_t = gil::packed_pixel_type<std::uint8_t, mp11::mp_list_c<unsigned, 3, 3, 2>, gil::rgb_layout_t>::type;
using ba332_img_t = gil::bit_aligned_image3_type<3, 3, 2, gil::rgb_layout_t>::type;
using ba565_img_t = gil::bit_aligned_image3_type<5, 6, 5, gil::rgb_layout_t>::type;

template <typename P> std::string show3(P const& p) {
    return std::to_string((long long)gil::get_color(p, gil::red_t())) + " " + std::to_string((long long)gil::get_color(p, gil::green_t())) + " " +
           std::to_string((long long)gil::get_color(p, gil::blue_t()));
}
template <typename P> std::string show_any(P const& p);
template <> std::string show_any(gil::gray8_pixel_t const& p) { return std::to_string((int)p[0]); }
template <> std::string show_any(gil::rgb8_pixel_t const& p) { return show3(p); }
template <> std::string show_any(gil::cmyk8_pixel_t const& p) {
    return std::to_string((int)p[0]) + " " + std::to_string((int)p[1]) + " " + std::to_string((int)p[2]) + " " + std::to_string((int)p[3]); }

// convert `src` into each heterogeneous destination
template <typename Src> std::string to_hetero(Src const& src, std::string const& d) {
    if (d == "rgb565") { rgb565_t q; gil::color_convert(src, q); return show3(q); }
    if (d == "bgr565") { bgr565_t q; gil::color_convert(src, q); return show3(q); }
    if (d == "rgb332") { rgb332_t q; gil::color_convert(src, q); return show3(q); }
    if (d == "ba332") { ba332_img_t img(3, 1); auto ref = gil::view(img)(1, 0); gil::color_convert(src, ref); return show3(ref); }
    if (d == "ba565") { ba565_img_t img(3, 1); auto ref = gil::view(img)(1, 0); gil::color_convert(src, ref); return show3(ref); }
    return "bad-op";
}
template <typename Src> std::string from_hetero(Src const& src, std::string const& d) {
    if (d == "gray8") { gil::gray8_pixel_t q; gil::color_convert(src, q); return show_any(q); }
    if (d == "rgb8") { gil::rgb8_pixel_t q; gil::color_convert(src, q); return show_any(q); }
    return "bad-op";
}
template <typename P> void set3(P& p, long long r, long long g, long long b) {
    gil::get_color(p, gil::red_t()) = r; gil::get_color(p, gil::green_t()) = g; gil::get_color(p, gil::blue_t()) = b;
}

int main() {
    return hv::run([](std::string const& line) -> std::string {
        auto w = hv::words(line);
        if (w.size() < 4 || (w[0] != "cch" && w[0] != "cchA")) return "bad-op";
        std::vector<long long> v; for (size_t i = 3; i < w.size(); ++i) v.push_back(hv::to_ll(w[i]));
        std::string const& s = w[1]; std::string const& d = w[2];
        if (s == "gray8" && v.size() == 1) return to_hetero(gil::gray8_pixel_t(uint8_t(v[0])), d);
        if (s == "gray16" && v.size() == 1) return to_hetero(gil::gray16_pixel_t(uint16_t(v[0])), d);
        if (s == "rgb8" && v.size() == 3) return to_hetero(gil::rgb8_pixel_t(uint8_t(v[0]), uint8_t(v[1]), uint8_t(v[2])), d);
        if (v.size() != 3) return "bad-op";
        if (s == "rgb565") { rgb565_t p; set3(p, v[0] & 31, v[1] & 63, v[2] & 31); return from_hetero(p, d); }
        if (s == "bgr565") { bgr565_t p; set3(p, v[0] & 31, v[1] & 63, v[2] & 31); return from_hetero(p, d); }
        if (s == "rgb332") { rgb332_t p; set3(p, v[0] & 7, v[1] & 7, v[2] & 3); return from_hetero(p, d); }
        if (s == "ba332") { ba332_img_t img(3, 1); auto ref = gil::view(img)(1, 0); set3(ref, v[0] & 7, v[1] & 7, v[2] & 3); return from_hetero(ref, d); }
        if (s == "ba565") { ba565_img_t img(3, 1); auto ref = gil::view(img)(1, 0); set3(ref, v[0] & 31, v[1] & 63, v[2] & 31); return from_hetero(ref, d); }
        return "bad-op";
    });
}
