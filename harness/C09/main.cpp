// C09 correspondence harness: default colour conversion of the real headers.
// Pixel types are named <layout><depth>, layout in {gray rgb bgr rgba bgra argb abgr cmyk}, depth in {8 16 32f}.
// Channel values are always given / printed in SEMANTIC order (gray | r g b | r g b a | c m y k); float32 channels as
// IEEE-754 binary32 bit patterns.
//
//   cc <src> <dst> v1 .. vk   ->  out | aux
//        out = color_convert(src pixel -> dst pixel)
//        aux = (rgb -> cmyk)        the result converted back to the source type            (round trip clause)
//              (rgba -> X, X!=rgba) the premultiplied rgb pixel built with channel_multiply, then its conversion to dst
//              (same colour space)  per-channel channel_convert of the source channels
//              otherwise empty
//   ccv <src> <dst> <w> <h> v1 .. vm  ->  converted pixels (row major, by color_convert per pixel) | f1 f2
//        a w x h image of src pixels is filled from the value list (cyclically);
//        f1  = 1 iff color_converted_view<dst>(view)(x,y) equals color_convert(view(x,y)) for every pixel (and has the same dimensions)
//        f2  = 1 iff copy_and_convert_pixels(view, dstview) wrote color_convert(view(x,y)) into every pixel
//   lumax <srcdepth> <dstdepth> <axis> r g b n step -> gray_0 .. gray_{n-1}   (rgb -> gray, channel <axis> = base + i*step)
//   cmykrow <k>     row k of the double-scale table of rgb8 -> cmyk8: uint8_t(d * (255/double(255-k))) for d = 0..255-k, read off the cyan channel
//   sweep8 <r>      all 65536 rgb8 pixels (r,g,b): gray8, cmyk8, cmyk8 -> rgb8   ->  <hash> <C++-side Spec failures> <first failing g b | ->
//   sweepA <g> <b>  all 65536 rgba8 pixels (r,g,b,a): rgb8, gray8, cmyk8 and the same from the premultiplied pixel
//                                                                                  ->  <hash> <failures> <first failing r a | ->
#include <boost/gil.hpp>
#include "harness.hpp"
#include <utility>
namespace gil = boost::gil;

static float f_of(unsigned long long b) { uint32_t u = (uint32_t)b; float f; std::memcpy(&f, &u, 4); return f; }
static unsigned long long b_of(float f) { uint32_t u; std::memcpy(&u, &f, 4); return u; }

template <typename C> struct cio {
    static C make(long long v) { return C(v); }
    static long long show(C const& c) { return (long long)c; }
};
template <> struct cio<gil::float32_t> {
    static gil::float32_t make(long long v) { return gil::float32_t(f_of((unsigned long long)v)); }
    static long long show(gil::float32_t const& c) { return (long long)b_of(float(c)); }
};

template <typename P> using chan_t = typename gil::channel_type<P>::type;
template <typename P> constexpr int nch() { return gil::num_channels<P>::value; }

template <typename P, std::size_t... K> void set_px(P& p, std::vector<long long> const& v, std::index_sequence<K...>) {
    ((gil::semantic_at_c<K>(p) = cio<chan_t<P>>::make(v[K])), ...);
}
template <typename P> P make_px(std::vector<long long> const& v) { P p; set_px(p, v, std::make_index_sequence<nch<P>()>()); return p; }
template <typename P, std::size_t... K> void get_px(P const& p, std::vector<long long>& v, std::index_sequence<K...>) {
    ((v.push_back(cio<chan_t<P>>::show(gil::semantic_at_c<K>(p)))), ...);
}
template <typename P> std::vector<long long> vals(P const& p) { std::vector<long long> v; get_px(p, v, std::make_index_sequence<nch<P>()>()); return v; }
static std::string join(std::vector<long long> const& v) { std::string s; for (auto x : v) { s += std::to_string(x); s += ' '; } return s; }

template <typename P> using cs_t = typename gil::color_space_type<P>::type;
template <typename P> constexpr bool is_rgba() { return std::is_same<cs_t<P>, gil::rgba_t>::value; }
template <typename P> constexpr bool is_rgb() { return std::is_same<cs_t<P>, gil::rgb_t>::value; }
template <typename P> constexpr bool is_cmyk() { return std::is_same<cs_t<P>, gil::cmyk_t>::value; }

template <typename S, typename D> std::string cc(std::vector<long long> const& v) {
    if ((int)v.size() != nch<S>()) return "bad-op";
    S src = make_px<S>(v);
    D dst; gil::color_convert(src, dst);
    std::vector<long long> out = vals(dst), aux;
    if constexpr (is_rgb<S>() && is_cmyk<D>()) {
        S back; gil::color_convert(dst, back); aux = vals(back);
    } else if constexpr (is_rgba<S>() && !is_rgba<D>()) {
        using T1 = chan_t<S>;
        gil::pixel<T1, gil::rgb_layout_t> pm(
            gil::channel_multiply(gil::get_color(src, gil::red_t()), gil::get_color(src, gil::alpha_t())),
            gil::channel_multiply(gil::get_color(src, gil::green_t()), gil::get_color(src, gil::alpha_t())),
            gil::channel_multiply(gil::get_color(src, gil::blue_t()), gil::get_color(src, gil::alpha_t())));
        D d2; gil::color_convert(pm, d2);
        aux = vals(pm); for (auto x : vals(d2)) aux.push_back(x);
    } else if constexpr (std::is_same<cs_t<S>, cs_t<D>>::value) {
        for (auto x : v) aux.push_back(cio<chan_t<D>>::show(gil::channel_convert<chan_t<D>>(cio<chan_t<S>>::make(x))));
    }
    return join(out) + "| " + join(aux);
}

// the same conversion through color_converted_view and copy_and_convert_pixels on a w x h view whose pixel (x,y)
// has channel k equal to v[(x + y*w + k) % size]-th given value pattern (values are reused cyclically)
template <typename S, typename D> std::string ccv(int w, int h, std::vector<long long> const& v) {
    constexpr int n = nch<S>();
    if (v.empty() || w < 1 || h < 1 || w * h > 64) return "bad-op";
    gil::image<S, false> img(w, h);
    for (int y = 0; y < h; ++y) for (int x = 0; x < w; ++x) {
        std::vector<long long> pv; for (int k = 0; k < n; ++k) pv.push_back(v[((x + y * w) * n + k) % v.size()]);
        gil::view(img)(x, y) = make_px<S>(pv);
    }
    auto cv = gil::color_converted_view<D>(gil::const_view(img));
    gil::image<D, false> img2(w, h);
    gil::copy_and_convert_pixels(gil::const_view(img), gil::view(img2));
    bool f1 = cv.width() == w && cv.height() == h, f2 = true; std::string outs;
    for (int y = 0; y < h; ++y) for (int x = 0; x < w; ++x) {
        D ref; gil::color_convert(gil::const_view(img)(x, y), ref);
        D q = cv(x, y); if (vals(q) != vals(ref)) f1 = false;
        D q2 = gil::view(img2)(x, y); if (vals(q2) != vals(ref)) f2 = false;
        outs += join(vals(ref));
    }
    return outs + "| " + (f1 ? "1 " : "0 ") + (f2 ? "1" : "0");
}

template <typename S, typename D> std::string lumax(int axis, std::vector<long long> base, long long n, long long step) {
    std::string r;
    for (long long i = 0; i < n; ++i) {
        std::vector<long long> v = base; v[axis] += i * step;
        S src = make_px<S>(v); D dst; gil::color_convert(src, dst);
        r += std::to_string(vals(dst)[0]); r += ' ';
    }
    return r;
}

struct hasher { uint64_t h = 1469598103934665603ull; void add(uint64_t v) { h = h * 1099511628211ull + v; } };

static inline int lum_of(int r, int g, int b) { gil::rgb8_pixel_t p(r, g, b); gil::gray8_pixel_t q; gil::color_convert(p, q); return q[0]; }

static std::string sweep8(int r) {
    hasher H; long long fails = 0; std::string first = "-";
    for (int g = 0; g < 256; ++g) for (int b = 0; b < 256; ++b) {
        gil::rgb8_pixel_t p(r, g, b); gil::gray8_pixel_t y; gil::cmyk8_pixel_t c; gil::rgb8_pixel_t back;
        gil::color_convert(p, y); gil::color_convert(p, c); gil::color_convert(c, back);
        H.add(y[0]); for (int k = 0; k < 4; ++k) H.add(c[k]); for (int k = 0; k < 3; ++k) H.add(back[k]);
        // C++ re-implementation of the Spec (the Lean judge recomputes and is the authority)
        bool ok = true;
        int yy = y[0], w = 30 * r + 59 * g + 11 * b;
        if (r == g && g == b && yy != r) ok = false;
        if (std::abs(100 * yy - w) > 100) ok = false;
        if (r < 255 && lum_of(r + 1, g, b) < yy) ok = false;
        if (g < 255 && lum_of(r, g + 1, b) < yy) ok = false;
        if (b < 255 && lum_of(r, g, b + 1) < yy) ok = false;
        for (int k = 0; k < 3; ++k) if (std::abs(int(back[k]) - int(p[k])) > 1) ok = false;
        if (r == 0 && g == 0 && b == 0 && !(c[0] == 0 && c[1] == 0 && c[2] == 0 && c[3] == 255)) ok = false;
        if (r == 255 && g == 255 && b == 255 && !(c[0] == 0 && c[1] == 0 && c[2] == 0 && c[3] == 0)) ok = false;
        if (!ok) { if (!fails) first = std::to_string(g) + " " + std::to_string(b); ++fails; }
    }
    return std::to_string(H.h) + " " + std::to_string(fails) + " " + first;
}

static std::string sweepA(int g, int b) {
    hasher H; long long fails = 0; std::string first = "-";
    for (int r = 0; r < 256; ++r) for (int a = 0; a < 256; ++a) {
        gil::rgba8_pixel_t p(r, g, b, a);
        gil::rgb8_pixel_t o1; gil::gray8_pixel_t o2; gil::cmyk8_pixel_t o3; gil::rgba8_pixel_t o4;
        gil::color_convert(p, o1); gil::color_convert(p, o2); gil::color_convert(p, o3); gil::color_convert(o1, o4);
        gil::rgb8_pixel_t pm(gil::channel_multiply(uint8_t(r), uint8_t(a)), gil::channel_multiply(uint8_t(g), uint8_t(a)), gil::channel_multiply(uint8_t(b), uint8_t(a)));
        gil::rgb8_pixel_t q1; gil::gray8_pixel_t q2; gil::cmyk8_pixel_t q3;
        gil::color_convert(pm, q1); gil::color_convert(pm, q2); gil::color_convert(pm, q3);
        for (int k = 0; k < 3; ++k) H.add(o1[k]); H.add(o2[0]); for (int k = 0; k < 4; ++k) H.add(o3[k]); H.add(o4[3]);
        bool ok = (o1 == q1) && (o2 == q2) && (o3 == q3) && o4[3] == 255;
        int src[3] = {r, g, b};
        for (int k = 0; k < 3; ++k) if (std::abs(255 * int(pm[k]) - src[k] * a) > 255) ok = false;
        if (!ok) { if (!fails) first = std::to_string(r) + " " + std::to_string(a); ++fails; }
    }
    return std::to_string(H.h) + " " + std::to_string(fails) + " " + first;
}

// name, pixel type, depth tag (0: 8, 1: 16, 2: 32f), canonical layout?, index
#define TYPES(X) \
  X("gray8", gil::gray8_pixel_t, 0, 1, 0) X("rgb8", gil::rgb8_pixel_t, 0, 1, 1) X("bgr8", gil::bgr8_pixel_t, 0, 0, 2) X("rgba8", gil::rgba8_pixel_t, 0, 1, 3) \
  X("bgra8", gil::bgra8_pixel_t, 0, 0, 4) X("argb8", gil::argb8_pixel_t, 0, 0, 5) X("abgr8", gil::abgr8_pixel_t, 0, 0, 6) X("cmyk8", gil::cmyk8_pixel_t, 0, 1, 7) \
  X("gray16", gil::gray16_pixel_t, 1, 1, 8) X("rgb16", gil::rgb16_pixel_t, 1, 1, 9) X("bgr16", gil::bgr16_pixel_t, 1, 0, 10) X("rgba16", gil::rgba16_pixel_t, 1, 1, 11) \
  X("bgra16", gil::bgra16_pixel_t, 1, 0, 12) X("argb16", gil::argb16_pixel_t, 1, 0, 13) X("abgr16", gil::abgr16_pixel_t, 1, 0, 14) X("cmyk16", gil::cmyk16_pixel_t, 1, 1, 15) \
  X("gray32f", gil::gray32f_pixel_t, 2, 1, 16) X("rgb32f", gil::rgb32f_pixel_t, 2, 1, 17) X("bgr32f", gil::bgr32f_pixel_t, 2, 0, 18) X("rgba32f", gil::rgba32f_pixel_t, 2, 1, 19) \
  X("bgra32f", gil::bgra32f_pixel_t, 2, 0, 20) X("argb32f", gil::argb32f_pixel_t, 2, 0, 21) X("abgr32f", gil::abgr32f_pixel_t, 2, 0, 22) X("cmyk32f", gil::cmyk32f_pixel_t, 2, 1, 23)

#ifndef C09_GROUP
#define C09_GROUP -1
#endif
#ifndef C09_NGROUPS
#define C09_NGROUPS 1
#endif

// conversions instantiated: every layout pair of equal depth; across depths only between canonical layouts
template <typename S, int SD, int SC> std::string cc_from(std::string const& d, std::vector<long long> const& v) {
#define X(name, T, dep, canon, idx) if constexpr (dep == SD || (canon && SC)) { if (d == name) return cc<S, T>(v); }
    TYPES(X)
#undef X
    return "bad-op";
}

// view / algorithm agreement: canonical layouts of equal depth, and every 8-bit layout into rgb8 and from rgb8
template <typename S, int SD, int SC, int SI> std::string ccv_from(std::string const& d, int w, int h, std::vector<long long> const& v) {
#define X(name, T, dep, canon, idx) if constexpr ((dep == SD && canon && SC) || (SD == 0 && dep == 0 && (SI == 1 || idx == 1))) { if (d == name) return ccv<S, T>(w, h, v); }
    TYPES(X)
#undef X
    return "bad-op";
}

int main() {
    return hv::run([](std::string const& line) -> std::string {
        auto w = hv::words(line);
        if (w.size() >= 6 && w[0] == "ccv") {
            std::vector<long long> v; for (size_t i = 5; i < w.size(); ++i) v.push_back(hv::to_ll(w[i]));
            int ww = (int)hv::to_ll(w[3]), hh = (int)hv::to_ll(w[4]);
#define X(name, T, dep, canon, idx) if constexpr (C09_GROUP < 0 || idx % C09_NGROUPS == C09_GROUP) { if (w[1] == name) return ccv_from<T, dep, canon, idx>(w[2], ww, hh, v); }
            TYPES(X)
#undef X
            return "not-in-group";
        }
        if (w.size() >= 4 && w[0] == "cc") {
            std::vector<long long> v; for (size_t i = 3; i < w.size(); ++i) v.push_back(hv::to_ll(w[i]));
#define X(name, T, dep, canon, idx) if constexpr (C09_GROUP < 0 || idx % C09_NGROUPS == C09_GROUP) { if (w[1] == name) return cc_from<T, dep, canon>(w[2], v); }
            TYPES(X)
#undef X
            return "not-in-group";
        }
        if (w.size() == 9 && w[0] == "lumax") {
            int axis = (int)hv::to_ll(w[3]); std::vector<long long> base = {hv::to_ll(w[4]), hv::to_ll(w[5]), hv::to_ll(w[6])};
            long long n = hv::to_ll(w[7]), st = hv::to_ll(w[8]);
            if (axis < 0 || axis > 2) return "bad-op";
#define L(sn, S, dn, D) if (w[1] == sn && w[2] == dn) return lumax<S, D>(axis, base, n, st);
            L("8", gil::rgb8_pixel_t, "8", gil::gray8_pixel_t) L("8", gil::rgb8_pixel_t, "16", gil::gray16_pixel_t) L("8", gil::rgb8_pixel_t, "32f", gil::gray32f_pixel_t)
            L("16", gil::rgb16_pixel_t, "8", gil::gray8_pixel_t) L("16", gil::rgb16_pixel_t, "16", gil::gray16_pixel_t) L("16", gil::rgb16_pixel_t, "32f", gil::gray32f_pixel_t)
            L("32f", gil::rgb32f_pixel_t, "8", gil::gray8_pixel_t) L("32f", gil::rgb32f_pixel_t, "16", gil::gray16_pixel_t) L("32f", gil::rgb32f_pixel_t, "32f", gil::gray32f_pixel_t)
#undef L
            return "bad-op";
        }
        if (w.size() == 2 && w[0] == "cmykrow") {
            // row k of the scale table of rgb8 -> cmyk8: cyan of the pixel with c = k + d, m = y = k, for d = 0 .. 255-k
            int k = (int)hv::to_ll(w[1]); if (k < 0 || k > 254) return "bad-op";
            std::string r;
            for (int d = 0; d + k <= 255; ++d) {
                gil::rgb8_pixel_t p(255 - (k + d), 255 - k, 255 - k); gil::cmyk8_pixel_t c; gil::color_convert(p, c);
                r += std::to_string((int)c[0]); r += ' ';
            }
            return r;
        }
        if (w.size() == 2 && w[0] == "sweep8") return sweep8((int)hv::to_ll(w[1]));
        if (w.size() == 3 && w[0] == "sweepA") return sweepA((int)hv::to_ll(w[1]), (int)hv::to_ll(w[2]));
        return "bad-op";
    });
}
