// compile probe: does move assignment of an image of non-pixel elements with a non-propagating, non-empty allocator compile?
#include <boost/gil.hpp>
#include <memory_resource>
namespace gil = boost::gil;
struct E { int v; E() : v(0) {} E(E const& o) : v(o.v) {} E& operator=(E const& o) { v = o.v; return *this; } ~E() {}
           bool operator==(E const& o) const { return v == o.v; } bool operator!=(E const& o) const { return v != o.v; } };
int main() {
    using A = std::pmr::polymorphic_allocator<unsigned char>;
    gil::image<E, false, A> a(3, 2), b(4, 4);
    a = std::move(b);
    gil::image<int, false, A> c(3, 2), d(4, 4);
    c = std::move(d);
    return (int)a.width() + (int)c.width() == 8 ? 0 : 1;
}
