// compile probe: does image<E> compile for an element type with non-trivial constructors and destructor?
#include <boost/gil.hpp>
namespace gil = boost::gil;
struct E { int v; E() : v(0) {} E(E const& o) : v(o.v) {} E& operator=(E const& o) { v = o.v; return *this; } ~E() {}
           bool operator==(E const& o) const { return v == o.v; } bool operator!=(E const& o) const { return v != o.v; } };
int main() {
    gil::image<E, false> a(3, 2), b(a);
    a.recreate(4, 4);
    b = a;
    return (int)b.width() == 4 ? 0 : 1;
}
