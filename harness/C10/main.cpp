// C10 correspondence harness: operation histories over boost::gil::image with checking allocators.
//
// One line = one complete history (self contained, so a crash costs one history only):
//
//   h <mode> <org> <alloc> <fa> <fc> <mc> <dg> | <op> | <op> | ...
//     mode   dbg | rel            (rel: this binary was compiled with -DNDEBUG; validated against the build)
//     org    rgb8 | rgb8p | gray16 | rgb565 | gray1 | elem | elemp    (elem: image<E,false>, E a counting non-pixel element;
//            elemp: image<pixel<E,rgb_layout_t>,true>: planar image of a counting channel type)
//     alloc  se | sf00 | sf01 | sf10 | sf11 | pmr     (sfMS: stateful, M = propagate_on_container_move_assignment,
//                                                      S = propagate_on_container_swap)
//     fa     k >= 1: the k-th allocation of the history throws std::bad_alloc; 0 = none
//     fc     k >= 1: the k-th element construction performed by the library throws; 0 = none   (org elem only)
//     mc     1 iff this binary was built with -DC10_ELEM_MASSIGN_COMPILES (the compile probe harness/C10/probe_massign.cpp
//            succeeded: move assignment of image<non-pixel element, non-propagating allocator> compiles)
//     dg     read by the model only (source-selected model variants): bit 0: image::allocate_ of the tree under test keeps the requested
//            dimensions of an image that needs no storage; bit 1: move_assign takes over the dimensions of a source without storage
//   ops (s, s2 = slots 0..3; t = allocator tag 0..2; al = alignment; v = pixel value)
//     dflt s t al            image(al, A(t))
//     dims s t al w h v      image(w, h, al, A(t)); then fill_pixels(view, v)   (user level, makes the content defined)
//     fill s t al w h v      image(w, h, pixel(v), al, A(t))
//     fillprobe s t al w h v like fill on storage pre-set to a pattern different from pixel(v); outcome ok:filled /
//                            ok:unfilled says whether every pixel equals pixel(v); then fill_pixels(view, v)
//     fromview s t al s2     image(view(s2), al, A(t))
//     copy s s2              image(s2)                    copy constructor
//     move s s2              image(std::move(s2))         (s2 stays in its slot, moved from)
//     assign s s2            s = s2
//     massign s s2           s = std::move(s2)
//     swap s s2              s.swap(s2)
//     rec s w h al v         s.recreate(w, h, al); then fill_pixels(view, v)
//     recf s w h v al        s.recreate(w, h, pixel(v), al)
//     reca s w h al t v      s.recreate(w, h, al, A(t)); then fill_pixels(view, v)
//     recfa s w h v al t     s.recreate(w, h, pixel(v), al, A(t))
//     write s x y v          view(s)(x % w, y % h) = pixel(v)        (nothing if the image is empty)
//     destroy s              ~image
//     ccopy s s2 / cassign s s2   converting copy construction / assignment from a slot of the partner organisation
//                            (slots 4,5 hold images of the partner type: rgb8 <-> rgb8p; other organisations: no partner)
//   after the last op every remaining slot is destroyed (pseudo op `end`).
//
// Observation: per op   <outcome> <events> ; <slot0> ; ... ; <slot5> [; c=<ctor> d=<dtor>]
//     outcome  ok | bad_alloc | ctor_throw | assert:<failed expression> | nocompile | skip (precondition of the op not met)
//              (after a recreate that ended with ctor_throw the harness zero-fills the image's current view, so that
//               the printed checksum does not depend on stale memory)
//     events   A<id>:<size>:<tag>  D<id>:<size>:<tag>   id = allocation sequence number (D-1 = unknown pointer)
//     slot     -  |  w,h,chk,ra,fit     chk = sum (i+1)*value(pixel i) mod 1000003 (row major),
//                                       ra = largest power of two <= 64 dividing every row start address
//                                            (blocks are handed out at 64-aligned base + 16*(id%4)),
//                                       fit = 1 iff every row lies inside one live block
//   ops are separated by " | "; the history ends after an assert outcome.
// BOOST_ASSERT calls boost::assertion_failed (below) unless NDEBUG is defined, in which case it expands to nothing
#define BOOST_ENABLE_ASSERT_DEBUG_HANDLER 1
#include <boost/gil.hpp>
#include <boost/gil/extension/toolbox/metafunctions.hpp>
#include <memory_resource>
#include <optional>
#include <map>
#include "harness.hpp"
namespace gil = boost::gil;

#ifndef C10_ALLOC
#define C10_ALLOC 0
#endif

// ---------------------------------------------------------------- recorder
struct AssertFail { std::string where; };
struct CtorThrow {};

struct Block { unsigned char* raw; unsigned char* p; size_t size; int tag; bool live; };
struct Recorder {
    std::vector<Block> blocks;
    std::string events;
    bool frozen = false;
    bool quiet = false;      // harness-owned element temporaries are not counted
    int pattern = 0xCD;
    long fail_alloc = 0, nalloc = 0;
    long fail_ctor = 0, nctor_attempt = 0;
    long ctor = 0, dtor = 0;
    void reset() {
        for (auto& b : blocks) std::free(b.raw);
        blocks.clear(); events.clear(); frozen = false; quiet = false; pattern = 0xCD; fail_alloc = fail_ctor = 0; nalloc = nctor_attempt = 0; ctor = dtor = 0;
    }
    void* allocate(size_t n, int tag) {
        if (frozen) { unsigned char* raw = (unsigned char*)std::malloc(n + 128); blocks.push_back({raw, raw, 0, -1, false}); return raw; }
        ++nalloc;
        if (fail_alloc && nalloc == fail_alloc) throw std::bad_alloc();
        size_t id = blocks.size();
        unsigned char* raw = (unsigned char*)std::aligned_alloc(64, ((n + 64 + 63) / 64) * 64 + 64);
        unsigned char* p = raw + 16 * (id % 4);
        std::memset(raw, pattern, ((n + 64 + 63) / 64) * 64 + 64);
        blocks.push_back({raw, p, n, tag, true});
        events += " A" + std::to_string(id) + ":" + std::to_string(n) + ":" + std::to_string(tag);
        return p;
    }
    void deallocate(void* p, size_t n, int tag) {
        if (frozen) return;
        long id = -1;
        for (size_t i = 0; i < blocks.size(); ++i) if (blocks[i].p == p && blocks[i].tag >= 0) id = (long)i;
        events += " D" + std::to_string(id) + ":" + std::to_string(n) + ":" + std::to_string(tag);
        if (id >= 0) blocks[id].live = false;      // memory is really released at the end of the history only
    }
    int live_blocks() const { int k = 0; for (auto& b : blocks) if (b.live) ++k; return k; }
    // the live block containing [a, e)
    bool inside_live(const unsigned char* a, const unsigned char* e) const {
        for (auto& b : blocks) if (b.live && a >= b.p && e <= b.p + b.size) return true;
        return false;
    }
};
static Recorder R;

namespace boost {
void assertion_failed(char const* expr, char const* function, char const* file, long line) {
    // the failed expression (white space removed) names the site; line numbers would change with harmless edits
    std::string e; for (const char* c = expr; *c; ++c) if (*c != ' ' && *c != '\t') e += *c;
    R.frozen = true;
    throw AssertFail{e};
}
void assertion_failed_msg(char const* expr, char const* msg, char const* function, char const* file, long line) {
    assertion_failed(expr, function, file, line);
}
}

// ---------------------------------------------------------------- allocators
template <typename T> struct TrackSE {          // stateless, always equal (std::is_empty)
    using value_type = T;
    TrackSE() = default;
    template <typename U> TrackSE(TrackSE<U> const&) {}
    T* allocate(size_t n) { return (T*)R.allocate(n * sizeof(T), 0); }
    void deallocate(T* p, size_t n) { R.deallocate(p, n * sizeof(T), 0); }
    template <typename U> bool operator==(TrackSE<U> const&) const { return true; }
    template <typename U> bool operator!=(TrackSE<U> const&) const { return false; }
};
template <typename T, bool POCMA, bool POCS> struct TrackSF {   // stateful
    using value_type = T;
    using propagate_on_container_move_assignment = std::integral_constant<bool, POCMA>;
    using propagate_on_container_swap = std::integral_constant<bool, POCS>;
    using propagate_on_container_copy_assignment = std::false_type;
    using is_always_equal = std::false_type;
    template <typename U> struct rebind { using other = TrackSF<U, POCMA, POCS>; };
    int tag;
    TrackSF() : tag(0) {}
    explicit TrackSF(int t) : tag(t) {}
    template <typename U> TrackSF(TrackSF<U, POCMA, POCS> const& o) : tag(o.tag) {}
    T* allocate(size_t n) { return (T*)R.allocate(n * sizeof(T), tag); }
    void deallocate(T* p, size_t n) { R.deallocate(p, n * sizeof(T), tag); }
    template <typename U> bool operator==(TrackSF<U, POCMA, POCS> const& o) const { return tag == o.tag; }
    template <typename U> bool operator!=(TrackSF<U, POCMA, POCS> const& o) const { return tag != o.tag; }
};
struct CountingResource : std::pmr::memory_resource {
    int tag = 0;
    void* do_allocate(size_t n, size_t) override { return R.allocate(n, tag); }
    void do_deallocate(void* p, size_t n, size_t) override { R.deallocate(p, n, tag); }
    bool do_is_equal(std::pmr::memory_resource const& o) const noexcept override { return this == &o; }
};
static CountingResource RES[3];

#if C10_ALLOC == 0
using AllocT = TrackSE<unsigned char>;              static const char* ALLOC_NAME = "se";
static AllocT mk_alloc(int) { return AllocT(); }
#elif C10_ALLOC == 1
using AllocT = TrackSF<unsigned char, false, false>; static const char* ALLOC_NAME = "sf00";
static AllocT mk_alloc(int t) { return AllocT(t); }
#elif C10_ALLOC == 2
using AllocT = TrackSF<unsigned char, false, true>;  static const char* ALLOC_NAME = "sf01";
static AllocT mk_alloc(int t) { return AllocT(t); }
#elif C10_ALLOC == 3
using AllocT = TrackSF<unsigned char, true, false>;  static const char* ALLOC_NAME = "sf10";
static AllocT mk_alloc(int t) { return AllocT(t); }
#elif C10_ALLOC == 4
using AllocT = TrackSF<unsigned char, true, true>;   static const char* ALLOC_NAME = "sf11";
static AllocT mk_alloc(int t) { return AllocT(t); }
#else
using AllocT = std::pmr::polymorphic_allocator<unsigned char>; static const char* ALLOC_NAME = "pmr";
static AllocT mk_alloc(int t) { return AllocT(&RES[t % 3]); }
#endif
// does operator=(image&&) take the propagating branch?   (mirrors image::choose_pocma; used only to know
// which instantiations the compile probe speaks about, never to predict behaviour)
static constexpr bool kMovePropagates = std::is_empty<AllocT>::value || std::allocator_traits<AllocT>::propagate_on_container_move_assignment::value;

// ---------------------------------------------------------------- counting element
struct E {
    int v;
    E() : v(0) { enter(); }
    E(E const& o) : v(o.v) { enter(); }
    explicit E(int x) : v(x) { enter(); }     // used by the harness only (inside a Quiet scope)
    E& operator=(E const& o) { v = o.v; return *this; }
    ~E() { if (!R.quiet && !R.frozen) ++R.dtor; }     // every destructor call counts, whatever the storage holds
    bool operator==(E const& o) const { return v == o.v; }
    bool operator!=(E const& o) const { return v != o.v; }
    static void enter() {
        if (R.quiet || R.frozen) return;
        ++R.nctor_attempt;
        if (R.fail_ctor && R.nctor_attempt == R.fail_ctor) throw CtorThrow();
        ++R.ctor;
    }
};
struct Quiet { Quiet() { R.quiet = true; } ~Quiet() { R.quiet = false; } };

// ---------------------------------------------------------------- organisations
struct OrgRgb8   { using image_t = gil::image<gil::rgb8_pixel_t, false, AllocT>; static constexpr bool elem = false; static constexpr bool nonpixel = false; static constexpr long vmask = 255;
    static auto mk(int v) { return gil::rgb8_pixel_t(v & 255, (v + 1) & 255, (v + 2) & 255); }
    template <typename P> static long val(P const& p) { return (long)gil::at_c<0>(p); } };
struct OrgRgb8p  { using image_t = gil::image<gil::rgb8_pixel_t, true, AllocT>; static constexpr bool elem = false; static constexpr bool nonpixel = false; static constexpr long vmask = 255;
    static auto mk(int v) { return gil::rgb8_pixel_t(v & 255, (v + 1) & 255, (v + 2) & 255); }
    template <typename P> static long val(P const& p) { return (long)gil::at_c<0>(p); } };
struct OrgGray16 { using image_t = gil::image<gil::gray16_pixel_t, false, AllocT>; static constexpr bool elem = false; static constexpr bool nonpixel = false; static constexpr long vmask = 65535;
    static auto mk(int v) { return gil::gray16_pixel_t(v & 65535); }
    template <typename P> static long val(P const& p) { return (long)gil::at_c<0>(p); } };
struct OrgRgb565 { using image_t = gil::packed_image3_type<uint16_t, 5, 6, 5, gil::rgb_layout_t, AllocT>::type; static constexpr bool elem = false; static constexpr bool nonpixel = false; static constexpr long vmask = 31;
    static auto mk(int v) { image_t::value_type p; gil::at_c<0>(p) = v & 31; gil::at_c<1>(p) = (v + 1) & 63; gil::at_c<2>(p) = (v + 2) & 31; return p; }
    template <typename P> static long val(P const& p) { return (long)gil::at_c<0>(p); } };
struct OrgGray1  { using image_t = gil::bit_aligned_image1_type<1, gil::gray_layout_t, AllocT>::type; static constexpr bool elem = false; static constexpr bool nonpixel = false; static constexpr long vmask = 1;
    static auto mk(int v) { image_t::value_type p; gil::at_c<0>(p) = v & 1; return p; }
    template <typename P> static long val(P const& p) { return (long)gil::at_c<0>(p); }
    // image<...>::image(w, h, const Pixel&) of a bit-aligned image takes a bit_aligned_pixel_reference: build one over a local byte
    template <typename F> static void with_px(int v, F f) { unsigned char byte = (unsigned char)(v & 1); image_t::view_t::reference r(&byte, 0); f(r); } };
#ifdef C10_NO_ELEM   // image<E> with a non-trivial element does not compile on this tree (compile probe): histories over it report err:no-compile
struct OrgElem   { using image_t = gil::image<int, false, AllocT>; static constexpr bool elem = true; static constexpr bool nonpixel = true; static constexpr long vmask = 0x7fffffff;
    static int mk(int v) { return v; }    // elements are built inside WithPx (Quiet scope)
    static long val(int const& e) { return e; } };

#else
struct OrgElem   { using image_t = gil::image<E, false, AllocT>; static constexpr bool elem = true; static constexpr bool nonpixel = true; static constexpr long vmask = 0x7fffffff;
    static int mk(int v) { return v; }    // elements are built inside WithPx (Quiet scope)
    static long val(E const& e) { return e.v; } };

#endif
#ifndef C10_NO_ELEM
// planar image of a NON-TRIVIAL channel type: every channel of every pixel is a counted element object (exercises the planar
// roll-back paths of default_construct_aux / uninitialized_fill_aux / uninitialized_copy_aux / destruct_aux)
namespace boost { namespace gil { template <> struct channel_traits<E> : detail::channel_traits_impl<E, false> {}; } }
struct OrgElemP { using pixel_t = gil::pixel<E, gil::rgb_layout_t>; using image_t = gil::image<pixel_t, true, AllocT>;
    static constexpr bool elem = true; static constexpr bool nonpixel = false; static constexpr long vmask = 0x7fffffff;
    static int mk(int v) { return v; }
    template <typename P> static long val(P const& p) { return (long)gil::at_c<0>(p).v; } };
#endif

// row start/end byte addresses (all planes), used for `ra` and `fit`
template <typename It> static void row_span(It b, It e, std::vector<std::pair<const unsigned char*, const unsigned char*>>& out, long& badbit) {
    if constexpr (gil::is_planar<It>::value) {
        const unsigned char* b0 = (const unsigned char*)gil::at_c<0>(b); const unsigned char* e0 = (const unsigned char*)gil::at_c<0>(e);
        const unsigned char* b1 = (const unsigned char*)gil::at_c<1>(b); const unsigned char* e1 = (const unsigned char*)gil::at_c<1>(e);
        const unsigned char* b2 = (const unsigned char*)gil::at_c<2>(b); const unsigned char* e2 = (const unsigned char*)gil::at_c<2>(e);
        out.push_back({b0, e0}); out.push_back({b1, e1}); out.push_back({b2, e2});
    } else if constexpr (std::is_pointer<It>::value) {
        out.push_back({(const unsigned char*)b, (const unsigned char*)e});
    } else {   // bit aligned iterator
        auto rb = b.operator*().bit_range(); auto re = e.operator*().bit_range();
        if (rb.bit_offset() != 0) badbit = 1;
        out.push_back({(const unsigned char*)rb.current_byte(), (const unsigned char*)re.current_byte() + (re.bit_offset() > 0 ? 1 : 0)});
    }
}

template <typename O, typename Img> static std::string slot_obs(std::optional<Img>& s) {
    if (!s) return "-";
    auto v = gil::view(*s);
    long w = (long)v.width(), h = (long)v.height();
    long chk = 0, i = 0;
    if (w > 0 && h > 0)
        for (long y = 0; y < h; ++y) for (long x = 0; x < w; ++x, ++i) chk = (chk + (i + 1) * O::val(v(x, y))) % 1000003;
    long ra = 64, fit = 1, badbit = 0;
    if (w > 0 && h > 0) {
        std::vector<std::pair<const unsigned char*, const unsigned char*>> rows;
        for (long y = 0; y < h; ++y) row_span(v.row_begin(y), v.row_end(y), rows, badbit);
        for (auto& r : rows) {
            uintptr_t a = (uintptr_t)r.first % 64; long al = 64; if (a) { al = 1; while (!(a & al)) al <<= 1; }
            if (al < ra) ra = al;
            if (!R.inside_live(r.first, r.second)) fit = 0;
        }
        if (badbit) ra = 0;
    }
    return std::to_string(w) + "," + std::to_string(h) + "," + std::to_string(chk) + "," + std::to_string(ra) + "," + std::to_string(fit);
}

template <typename O, typename = void> struct WithPx { template <typename F> static void call(int v, F f) { auto p = O::mk(v); f(p); } };
#ifndef C10_NO_ELEM
template <> struct WithPx<OrgElem, void> { template <typename F> static void call(int v, F f) {
    E* p; { Quiet q; p = new E(v); }
    try { f(*p); } catch (...) { Quiet q; delete p; throw; }
    { Quiet q; delete p; } } };
#endif
#ifndef C10_NO_ELEM
template <> struct WithPx<OrgElemP, void> { template <typename F> static void call(int v, F f) {
    OrgElemP::pixel_t* p; { Quiet q; p = new OrgElemP::pixel_t(E(v), E(v + 1), E(v + 2)); }
    try { f(*p); } catch (...) { Quiet q; delete p; throw; }
    { Quiet q; delete p; } } };
#endif
template <> struct WithPx<OrgGray1, void> { template <typename F> static void call(int v, F f) { OrgGray1::with_px(v, f); } };

template <typename O, typename Img> static void user_fill(Img& im, int v) { WithPx<O>::call(v, [&](auto const& px) { gil::fill_pixels(gil::view(im), px); }); }

// partner organisation for converting copies
template <typename O> struct Partner { using type = void; };
template <> struct Partner<OrgRgb8> { using type = OrgRgb8p; };
template <> struct Partner<OrgRgb8p> { using type = OrgRgb8; };

struct Skip {};

template <typename O> struct History {
    using Img = typename O::image_t;
    using PO = typename Partner<O>::type;
    static constexpr bool has_partner = !std::is_void<PO>::value;
    using POrg = typename std::conditional<has_partner, PO, O>::type;
    using PImg = typename POrg::image_t;
    std::optional<Img> s[4];
    std::optional<PImg> p[2];

    std::string all_slots() {
        std::string r;
        for (int i = 0; i < 4; ++i) r += " ; " + slot_obs<O>(s[i]);
        for (int i = 0; i < 2; ++i) r += " ; " + (has_partner ? slot_obs<POrg>(p[i]) : std::string("-"));
        if (O::elem) r += " ; c=" + std::to_string(R.ctor) + " d=" + std::to_string(R.dtor);
        return r;
    }
    static int S(std::string const& w) { int k = (int)hv::to_ll(w); if (k < 0 || k > 5) throw Skip(); return k; }

    // generic operations on a slot array of one image type
    template <typename OO, typename I> void op_same(std::vector<std::string> const& w, std::optional<I>* sl, int base, int n) {
        auto SL = [&](std::string const& x) -> std::optional<I>& { int k = S(x) - base; if (k < 0 || k >= n) throw Skip(); return sl[k]; };
        auto const& o = w[0];
        auto I_ = [&](size_t k) { return (long)hv::to_ll(w.at(k)); };
        if (o == "dflt") { auto& a = SL(w[1]); if (a) throw Skip(); a.emplace((size_t)I_(3), mk_alloc((int)I_(2))); }
        else if (o == "dims") { auto& a = SL(w[1]); if (a) throw Skip(); a.emplace(I_(4), I_(5), (size_t)I_(3), mk_alloc((int)I_(2))); user_fill<OO>(*a, (int)I_(6)); }
        else if (o == "fill") { auto& a = SL(w[1]); if (a) throw Skip(); WithPx<OO>::call((int)I_(6), [&](auto const& px) { a.emplace(I_(4), I_(5), px, (size_t)I_(3), mk_alloc((int)I_(2))); }); }
        else if (o == "fillprobe") {
            auto& a = SL(w[1]); if (a) throw Skip();
            int v = (int)I_(6);
            R.pattern = (v & 1) ? 0x00 : 0xFF;
            try { WithPx<OO>::call(v, [&](auto const& px) { a.emplace(I_(4), I_(5), px, (size_t)I_(3), mk_alloc((int)I_(2))); }); }
            catch (...) { R.pattern = 0xCD; throw; }
            R.pattern = 0xCD;
            auto vw = gil::view(*a); bool all = true;
            for (long y = 0; y < vw.height(); ++y) for (long x = 0; x < vw.width(); ++x) if (OO::val(vw(x, y)) != (long)(OO::elem ? v : (v & OO::vmask))) all = false;
            user_fill<OO>(*a, v);
            throw std::string(all ? "ok:filled" : "ok:unfilled");
        }
        else if (o == "fromview") {
            auto& a = SL(w[1]); auto& b = SL(w[4]); if (a || !b) throw Skip();
            if constexpr (OO::nonpixel) throw Skip(); else a.emplace(gil::view(*b), (size_t)I_(3), mk_alloc((int)I_(2)));
        }
        else if (o == "copy") { auto& a = SL(w[1]); auto& b = SL(w[2]); if (a || !b) throw Skip(); a.emplace(*b); }
        else if (o == "move") { auto& a = SL(w[1]); auto& b = SL(w[2]); if (a || !b) throw Skip(); a.emplace(std::move(*b)); }
        else if (o == "assign") { auto& a = SL(w[1]); auto& b = SL(w[2]); if (!a || !b) throw Skip(); *a = *b; }
        else if (o == "massign") {
            auto& a = SL(w[1]); auto& b = SL(w[2]); if (!a || !b) throw Skip();
#ifndef C10_ELEM_MASSIGN_COMPILES
            if constexpr (OO::nonpixel && !kMovePropagates) { throw std::string("nocompile"); } else
#endif
            *a = std::move(*b);
        }
        else if (o == "swap") { auto& a = SL(w[1]); auto& b = SL(w[2]); if (!a || !b) throw Skip(); a->swap(*b); }
        else if (o == "rec") { auto& a = SL(w[1]); if (!a) throw Skip(); a->recreate(I_(2), I_(3), (size_t)I_(4)); user_fill<OO>(*a, (int)I_(5)); }
        else if (o == "recf") { auto& a = SL(w[1]); if (!a) throw Skip(); WithPx<OO>::call((int)I_(4), [&](auto const& px) { a->recreate(I_(2), I_(3), px, (size_t)I_(5)); }); }
        else if (o == "reca") { auto& a = SL(w[1]); if (!a) throw Skip(); a->recreate(I_(2), I_(3), (size_t)I_(4), mk_alloc((int)I_(5))); user_fill<OO>(*a, (int)I_(6)); }
        else if (o == "recfa") { auto& a = SL(w[1]); if (!a) throw Skip(); WithPx<OO>::call((int)I_(4), [&](auto const& px) { a->recreate(I_(2), I_(3), px, (size_t)I_(5), mk_alloc((int)I_(6))); }); }
        else if (o == "write") {
            auto& a = SL(w[1]); if (!a) throw Skip();
            auto v = gil::view(*a); if (v.width() > 0 && v.height() > 0) WithPx<OO>::call((int)I_(4), [&](auto const& px) { v(I_(2) % v.width(), I_(3) % v.height()) = px; });
        }
        else if (o == "destroy") { auto& a = SL(w[1]); if (!a) throw Skip(); a.reset(); }
        else throw Skip();
    }

    void op(std::vector<std::string> const& w) {
        if (w.empty()) throw Skip();
        if (w[0] == "ccopy" || w[0] == "cassign") {
            if constexpr (!has_partner) throw Skip();
            else {
                int a = S(w.at(1)), b = S(w.at(2));
                if ((a < 4) == (b < 4)) throw Skip();
                if (a < 4) { auto& x = s[a]; auto& y = p[b - 4]; if (!y) throw Skip();
                    if (w[0] == "ccopy") { if (x) throw Skip(); x.emplace(*y); } else { if (!x) throw Skip(); *x = *y; } }
                else { auto& x = p[a - 4]; auto& y = s[b]; if (!y) throw Skip();
                    if (w[0] == "ccopy") { if (x) throw Skip(); x.emplace(*y); } else { if (!x) throw Skip(); *x = *y; } }
            }
            return;
        }
        int t = S(w.at(1));
        if (t < 4) op_same<O>(w, s, 0, 4);
        else { if constexpr (has_partner) op_same<POrg>(w, p, 4, 2); else throw Skip(); }
    }

    std::string run(std::vector<std::vector<std::string>> const& ops) {
        std::string out; bool dead = false;
        for (size_t i = 0; i <= ops.size() && !dead; ++i) {
            R.events.clear();
            std::string outcome = "ok";
            try {
                if (i < ops.size()) op(ops[i]);
                else { for (int k = 0; k < 4; ++k) s[k].reset(); for (int k = 0; k < 2; ++k) p[k].reset(); }
            }
            catch (std::bad_alloc const&) { outcome = "bad_alloc"; }
            catch (CtorThrow const&) {
                outcome = "ctor_throw";
                if (i < ops.size() && ops[i].size() > 1 && ops[i][0].compare(0, 3, "rec") == 0) {
                    int k = (int)hv::to_ll(ops[i][1]);
                    if (k >= 0 && k < 4 && s[k]) user_fill<O>(*s[k], 0);
                    if constexpr (has_partner) if (k >= 4 && k < 6 && p[k - 4]) user_fill<POrg>(*p[k - 4], 0);
                }
            }
            catch (AssertFail const& a) { outcome = "assert:" + a.where; dead = true; }
            catch (Skip const&) { outcome = "skip"; }
            catch (std::out_of_range const&) { outcome = "skip"; }
            catch (std::string const& e) { outcome = e; }
            if (i) out += " | ";
            if (dead) { out += outcome + R.events; break; }
            out += outcome + R.events + all_slots();
            if (i == ops.size()) out += " ; live=" + std::to_string(R.live_blocks());
        }
        // leave nothing behind (the recorder is frozen after an assert: these destructors record nothing)
        for (int k = 0; k < 4; ++k) s[k].reset(); for (int k = 0; k < 2; ++k) p[k].reset();
        return out;
    }
};

static std::string handle(std::string const& line) {
    auto parts = std::vector<std::string>(); { size_t a = 0; while (true) { size_t b = line.find('|', a); parts.push_back(line.substr(a, b == std::string::npos ? b : b - a)); if (b == std::string::npos) break; a = b + 1; } }
    auto hd = hv::words(parts[0]);
    if (hd.size() != 8 || hd[0] != "h") return "bad-op";
#ifdef C10_ELEM_MASSIGN_COMPILES
    if (hd[6] != "1") return "bad-op:mc";
#else
    if (hd[6] != "0") return "bad-op:mc";
#endif
#ifdef NDEBUG
    if (hd[1] != "rel") return "bad-op:mode";
#else
    if (hd[1] != "dbg") return "bad-op:mode";
#endif
    if (hd[3] != ALLOC_NAME) return "bad-op:alloc";
    std::vector<std::vector<std::string>> ops;
    for (size_t i = 1; i < parts.size(); ++i) ops.push_back(hv::words(parts[i]));
    R.reset();
    R.fail_alloc = hv::to_ll(hd[4]); R.fail_ctor = hv::to_ll(hd[5]);
    std::string r;
    if (hd[2] == "rgb8") { History<OrgRgb8> H; r = H.run(ops); }
    else if (hd[2] == "rgb8p") { History<OrgRgb8p> H; r = H.run(ops); }
    else if (hd[2] == "gray16") { History<OrgGray16> H; r = H.run(ops); }
    else if (hd[2] == "rgb565") { History<OrgRgb565> H; r = H.run(ops); }
    else if (hd[2] == "gray1") { History<OrgGray1> H; r = H.run(ops); }
#ifdef C10_NO_ELEM
    else if (hd[2] == "elem" || hd[2] == "elemp") r = "err:no-compile";
#else
    else if (hd[2] == "elem") { History<OrgElem> H; r = H.run(ops); }
    else if (hd[2] == "elemp") { History<OrgElemP> H; r = H.run(ops); }
#endif
    else r = "bad-op:org";
    R.reset();
    return r;
}

int main() {
    for (int i = 0; i < 3; ++i) RES[i].tag = i;
    std::pmr::set_default_resource(&RES[0]);
    return hv::run(handle);
}
