// C07 correspondence harness: channel_multiply / channel_invert of the real headers.
//   mulrc <t> <a> <b0> <n> <step>  ->  mul(a,b_i) ... | mul(b_i,a) ...      b_i = b0 + i*step
//   inv   <t> <x0> <n> <step>      ->  invert(x_i) ... | invert(invert(x_i)) ...
//   mulf  <abits> <bbits>          ->  bits(mul(a,b)) bits(mul(b,a))          (float32_t channels)
//   invf  <xbits>                  ->  bits(invert(x)) bits(invert(invert(x)))
#include <boost/gil.hpp>
#include "harness.hpp"
#include <thread>
#include <atomic>
#include <mutex>
namespace gil = boost::gil;

// exhaustive sweep of all 2^32 operand pairs of a 16-bit channel type (thorough tier): the C07 Spec clauses
// (range, within one unit of a*b/max after the shift to the unsigned range, commutativity, monotonicity in b,
// max is the identity, min the annihilator) are re-implemented here in C++; a reported pair is then
// re-judged by the Lean judge through an ordinary `mulrc` op, which is the authority.
template <typename C> std::string mulall() {
    const long long lo = std::numeric_limits<C>::min(), hi = std::numeric_limits<C>::max(), M = hi - lo;
    std::atomic<unsigned long long> fails{0}; std::mutex mu; long long fa = 0, fb = 0; bool have = false;
    unsigned nt = std::max(1u, std::thread::hardware_concurrency());
    std::vector<std::thread> th;
    for (unsigned t = 0; t < nt; ++t) th.emplace_back([&, t] {
        for (long long a = lo + t; a <= hi; a += nt) {
            long long prev = lo;
            for (long long b = lo; b <= hi; ++b) {
                long long r = gil::channel_multiply(C(a), C(b)), r2 = gil::channel_multiply(C(b), C(a));
                long long a1 = a - lo, b1 = b - lo, r1 = r - lo, d = r1 * M - a1 * b1;
                bool bad = r < lo || r > hi || !(d > -M && d < M) || r != r2 || r < prev
                        || (b1 == M && r != a) || (a1 == M && r != b) || ((a1 == 0 || b1 == 0) && r1 != 0);
                prev = r;
                if (bad) { ++fails; std::lock_guard<std::mutex> g(mu); if (!have || a < fa || (a == fa && b < fb)) { have = true; fa = a; fb = b; } }
            }
        }
    });
    for (auto& x : th) x.join();
    return "fails=" + std::to_string(fails.load()) + " first=" + (have ? std::to_string(fa) + "," + std::to_string(fb) : std::string("none"));
}

template <typename C> static long long as_ll(C const& c) {
    using base_t = typename gil::base_channel_type<C>::type; return (long long)(base_t)c; }

template <typename C> std::string mulrc(long long a, long long b0, long long n, long long step) {
    using base_t = typename gil::base_channel_type<C>::type;
    std::string r, c;
    for (long long i = 0; i < n; ++i) {
        long long b = b0 + i * step;
        C ca = C(base_t(a)), cb = C(base_t(b));
        r += std::to_string(as_ll(gil::channel_multiply(ca, cb))) + " ";
        c += std::to_string(as_ll(gil::channel_multiply(cb, ca))) + " ";
    }
    return r + "| " + c;
}
template <typename C> std::string inv(long long x0, long long n, long long step) {
    using base_t = typename gil::base_channel_type<C>::type;
    std::string r, c;
    for (long long i = 0; i < n; ++i) {
        C cx = C(base_t(x0 + i * step));
        auto v = gil::channel_invert(cx);
        r += std::to_string(as_ll(v)) + " ";
        c += std::to_string(as_ll(gil::channel_invert(v))) + " ";
    }
    return r + "| " + c;
}
static float f_of(unsigned long long b) { uint32_t u = (uint32_t)b; float f; std::memcpy(&f, &u, 4); return f; }
static unsigned long long b_of(float f) { uint32_t u; std::memcpy(&u, &f, 4); return u; }

// scoped channels (a provided channel model): sub-range of a base type, minimum not zero
struct s8_min { static uint8_t apply() { return 16; } };      struct s8_max { static uint8_t apply() { return 235; } };
struct s16_min { static uint16_t apply() { return 1000; } };  struct s16_max { static uint16_t apply() { return 60000; } };
struct si16_min { static int16_t apply() { return -100; } };  struct si16_max { static int16_t apply() { return 1000; } };
struct su32_min { static uint32_t apply() { return 7; } };    struct su32_max { static uint32_t apply() { return 4000000000u; } };
using s8_t = gil::scoped_channel_value<uint8_t, s8_min, s8_max>;
using s16_t = gil::scoped_channel_value<uint16_t, s16_min, s16_max>;
using si16_t = gil::scoped_channel_value<int16_t, si16_min, si16_max>;
using su32_t = gil::scoped_channel_value<uint32_t, su32_min, su32_max>;
#define SCOPED(X) X("s8", s8_t) X("s16", s16_t) X("si16", si16_t) X("su32", su32_t)

#define TYPES(X) X("u8", uint8_t) X("u16", uint16_t) X("u32", uint32_t) X("i8", int8_t) X("i16", int16_t) X("i32", int32_t) \
  X("p1", gil::packed_channel_value<1>) X("p2", gil::packed_channel_value<2>) X("p3", gil::packed_channel_value<3>) X("p4", gil::packed_channel_value<4>) \
  X("p5", gil::packed_channel_value<5>) X("p6", gil::packed_channel_value<6>) X("p7", gil::packed_channel_value<7>) X("p8", gil::packed_channel_value<8>) \
  X("p9", gil::packed_channel_value<9>) X("p10", gil::packed_channel_value<10>) X("p11", gil::packed_channel_value<11>) X("p12", gil::packed_channel_value<12>) \
  X("p13", gil::packed_channel_value<13>) X("p14", gil::packed_channel_value<14>) X("p15", gil::packed_channel_value<15>) X("p16", gil::packed_channel_value<16>) \
  X("p24", gil::packed_channel_value<24>) X("p31", gil::packed_channel_value<31>)

int main() {
    return hv::run([](std::string const& line) -> std::string {
        auto w = hv::words(line);
        if (w.size() == 6 && w[0] == "mulrc") {
            long long a = hv::to_ll(w[2]), b0 = hv::to_ll(w[3]), n = hv::to_ll(w[4]), st = hv::to_ll(w[5]);
#define X(name, T) if (w[1] == name) return mulrc<T>(a, b0, n, st);
            TYPES(X)
#undef X
        }
        if (w.size() == 5 && w[0] == "inv") {
            long long x0 = hv::to_ll(w[2]), n = hv::to_ll(w[3]), st = hv::to_ll(w[4]);
#define X(name, T) if (w[1] == name) return inv<T>(x0, n, st);
            TYPES(X) SCOPED(X)
#undef X
        }
        if (w.size() == 2 && w[0] == "mulall") {
            if (w[1] == "u16") return mulall<uint16_t>();
            if (w[1] == "i16") return mulall<int16_t>();
        }
        if (w.size() == 3 && w[0] == "mulf") {
            gil::float32_t a = f_of(hv::to_ull(w[1])), b = f_of(hv::to_ull(w[2]));
            return std::to_string(b_of(gil::channel_multiply(a, b))) + " " + std::to_string(b_of(gil::channel_multiply(b, a)));
        }
        if (w.size() == 2 && w[0] == "invf") {
            gil::float32_t x = f_of(hv::to_ull(w[1]));
            auto v = gil::channel_invert(x);
            return std::to_string(b_of(v)) + " " + std::to_string(b_of(gil::channel_invert(v)));
        }
        return "bad-op";
    });
}
