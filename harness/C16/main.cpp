// C16 correspondence harness: threshold_binary / threshold_truncate / threshold_optimal (Otsu),
// dilate / erode / opening / closing, median_filter of the real headers.
//
//   th <kind> <dir> <pair> <w> <h> <t> <maxv> | plane_0 | ...        kind: bin binmax tt tz   dir: reg inv
//        pair: source/result channel types, e.g. u8_u8, i16_i16, u16_u8, u8_i16, rgb8 (rgb8 -> rgb8)
//     -> "w h : dst planes"      (destination pre-filled with 77)
//   ot <ch> <dir> <w> <h> | plane_0 | ...      threshold_optimal(src, dst, otsu, dir); ch: u8 i8 u16 i16 rgb8 rgb16
//   mo <ch> <w> <h> <ks> <cy> <cx> <iters> | kernel (ks*ks, row-major) | plane_0 | ...
//     -> "w h : dilate | erode | opening | closing | opening(opening) | closing(closing) | dilate(complement) | erode(complement)"
//        (each: all planes, separated by /; complement = (min + max of the channel type) - src, same iterations)
//   me <ch> <w> <h> <k> | plane_0 | ...        median_filter(src, dst, k)
//   adT <ch> <mean|gauss> <w> <h> <k> | src    the local-threshold surface: the same convolution call threshold_adaptive makes
//        (convolve_1d with the 1/k float kernel resp. convolve_2d with generate_gaussian_kernel(k, 1.0)) -> "w h : T plane"
//   ad <ch> <mean|gauss> <reg|inv> <w> <h> <k> <constant> <maxv> | src | T      threshold_adaptive(src, dst, maxv, k, method, dir, constant)
//        maxv < 0: the overload without max_value (channel maximum, int constant)
//        (T is only read by the model / judge: the claimed surface; the real function computes its own) -> "w h : dst plane"
#define BOOST_ENABLE_ASSERT_HANDLER
#include <string>
struct hv_assert_failure { std::string expr; };
namespace boost {
inline void assertion_failed(char const* expr, char const*, char const*, long) { throw hv_assert_failure{expr}; }
inline void assertion_failed_msg(char const* expr, char const*, char const*, char const*, long) { throw hv_assert_failure{expr}; }
}
#include <boost/gil.hpp>
#include <boost/gil/image_processing/threshold.hpp>
#include <boost/gil/image_processing/morphology.hpp>
#include <boost/gil/image_processing/filter.hpp>
#include <boost/gil/image_processing/numeric.hpp>
#include <boost/gil/image_processing/convolve.hpp>
#include "harness.hpp"
namespace gil = boost::gil;
using ll = long long;

struct Op { std::vector<std::string> head; std::vector<std::vector<ll>> groups; std::string geo; };
static Op parse(std::string const& line) {
    Op op; auto w = hv::words(line); size_t i = 0;
    while (i < w.size() && w[i] != "|") { if (w[i][0] == '@') op.geo = w[i].substr(1); else op.head.push_back(w[i]); ++i; }
    while (i < w.size()) { ++i; std::vector<ll> g; while (i < w.size() && w[i] != "|") g.push_back(hv::to_ll(w[i++])); op.groups.push_back(g); }
    return op;
}
template <class View> View window(View const& v, ll x0, ll y0, ll w, ll h) {
    return View(typename View::point_t(w, h), v.pixels() + typename View::point_t(x0, y0));
}
template <class View> void load(View const& v, std::vector<std::vector<ll>> const& planes, size_t first) {
    using C = typename gil::channel_type<View>::type; constexpr int N = gil::num_channels<View>::value;
    for (ll y = 0; y < v.height(); ++y) for (ll x = 0; x < v.width(); ++x) {
        typename View::reference p = v(x, y);
        for (int k = 0; k < N; ++k) p[k] = C(planes.at(first + k).at(y * v.width() + x));
    }
}
template <class View> void fillv(View const& v, ll val) {
    using C = typename gil::channel_type<View>::type; constexpr int N = gil::num_channels<View>::value;
    for (ll y = 0; y < v.height(); ++y) for (ll x = 0; x < v.width(); ++x) { typename View::reference p = v(x, y); for (int k = 0; k < N; ++k) p[k] = C(val); }
}
template <class View> std::string planes_of(View const& v, const char* sep) {
    constexpr int N = gil::num_channels<View>::value; std::string r;
    for (int k = 0; k < N; ++k) {
        if (k) r += sep;
        for (ll y = 0; y < v.height(); ++y) for (ll x = 0; x < v.width(); ++x) { typename View::reference p = v(x, y); r += " " + std::to_string((ll)p[k]); }
    }
    return r;
}
template <class View> std::string dims(View const& v) { return std::to_string((ll)v.width()) + " " + std::to_string((ll)v.height()) + " :"; }

// views over images one pixel larger than needed: a gil::image of zero area reports 0x0 and has no storage
template <class Img> struct Buf {
    Img img; typename Img::view_t v;
    Buf(ll w, ll h) : img(w + 1, h + 1), v(window(gil::view(img), 0, 0, w, h)) {}
};


// A view of logical size w x h with a chosen MEMORY GEOMETRY over a guard-filled canvas (op word "@<src><dst>"):
//   f  the whole image (rows back to back: is_1d_traversable)      w  top-left window of a (w+1) x (h+1) image (the legacy layout)
//   s  sub-view at (2,1) of a (w+5) x (h+3) canvas (row padding on both sides)      y / z  f / s flipped upside down (negative row stride)
//   x  (only where instantiated) s mirrored left-right: an x-stepped view of a different type
// frame(): resets the view's own pixels to the guard and counts the canvas channels that still differ from the guard, i.e. the
// cells OUTSIDE the view that were written ("none of them writes outside the destination").
template <class Img> struct GV {
    Img canvas; typename Img::view_t v; ll guard;
    GV(ll w, ll h, char g, ll guard_) : guard(guard_) {
        if (w == 0 || h == 0) { if (g == 'f') g = 's'; if (g == 'y') g = 'z'; }
        ll x0 = 0, y0 = 0, cw = w, ch = h;
        if (g == 's' || g == 'z' || g == 'x') { x0 = 2; y0 = 1; cw = w + 5; ch = h + 3; }
        else if (g == 'w') { cw = w + 1; ch = h + 1; }
        canvas.recreate(cw, ch); fillv(gil::view(canvas), guard);
        v = window(gil::view(canvas), x0, y0, w, h);
        if (g == 'y' || g == 'z') v = gil::flipped_up_down_view(v);
    }
    ll frame() {
        using C = typename gil::channel_type<typename Img::view_t>::type; constexpr int N = gil::num_channels<typename Img::view_t>::value;
        fillv(v, guard); ll n = 0; auto cv = gil::view(canvas);
        for (ll y = 0; y < cv.height(); ++y) for (ll x = 0; x < cv.width(); ++x) { typename Img::view_t::reference p = cv(x, y); for (int k = 0; k < N; ++k) if (p[k] != C(guard)) ++n; }
        return n;
    }
};
static std::string framed(ll n, std::string const& obs) { return n ? "frame-violated:" + std::to_string(n) + " " + obs : obs; }
static char geo_of(Op const& op, int i, char dflt) { return (int)op.geo.size() > i ? op.geo[i] : dflt; }

template <class SV, class DV, class DC>
void th_call(SV const& sv, DV const& dv, std::string const& kind, bool inv, DC t, DC mx, bool& bad) {
    auto dir = inv ? gil::threshold_direction::inverse : gil::threshold_direction::regular;
    if (kind == "bin") gil::threshold_binary(sv, dv, t, mx, dir);
    else if (kind == "binmax") gil::threshold_binary(sv, dv, t, dir);
    else if (kind == "tt") gil::threshold_truncate(sv, dv, t, gil::threshold_truncate_mode::threshold, dir);
    else if (kind == "tz") gil::threshold_truncate(sv, dv, t, gil::threshold_truncate_mode::zero, dir);
    else bad = true;
}
template <class SrcImg, class DstImg, bool XVIEWS = false>
std::string th(Op const& op) {
    auto const& hd = op.head;
    std::string kind = hd[1]; bool inv = hd[2] == "inv";
    ll w = hv::to_ll(hd[4]), h = hv::to_ll(hd[5]), t = hv::to_ll(hd[6]), mx = hv::to_ll(hd[7]);
    using DC = typename gil::channel_type<typename DstImg::view_t>::type;
    char gs = geo_of(op, 0, 'w'), gd = geo_of(op, 1, 'w');
    if (!XVIEWS) { if (gs == 'x') gs = 's'; if (gd == 'x') gd = 's'; }
    GV<SrcImg> s(w, h, gs, 33);
    GV<DstImg> d(w, h, gd, 77);
    bool bad = false; std::string out;
    typename SrcImg::const_view_t sv(s.v);
    if (XVIEWS && (gs == 'x' || gd == 'x')) {
        auto sx = gil::flipped_left_right_view(s.v); auto dx = gil::flipped_left_right_view(d.v);
        if (gs == 'x') load(sx, op.groups, 0); else load(s.v, op.groups, 0);
        auto csx = gil::flipped_left_right_view(sv);
        if (gs == 'x' && gd == 'x') th_call(csx, dx, kind, inv, DC(t), DC(mx), bad);
        else if (gs == 'x') th_call(csx, d.v, kind, inv, DC(t), DC(mx), bad);
        else th_call(sv, dx, kind, inv, DC(t), DC(mx), bad);
        out = gd == 'x' ? dims(dx) + planes_of(dx, " |") : dims(d.v) + planes_of(d.v, " |");
    } else {
        load(s.v, op.groups, 0);
        th_call(sv, d.v, kind, inv, DC(t), DC(mx), bad);
        out = dims(d.v) + planes_of(d.v, " |");
    }
    if (bad) return "bad-op";
    return framed(d.frame(), out);
}
template <class Img>
std::string ot(Op const& op) {
    auto const& hd = op.head;
    bool inv = hd[2] == "inv"; ll w = hv::to_ll(hd[3]), h = hv::to_ll(hd[4]);
    GV<Img> s(w, h, geo_of(op, 0, 'w'), 33); load(s.v, op.groups, 0);
    GV<Img> d(w, h, geo_of(op, 1, 'w'), 77);
    typename Img::const_view_t sv(s.v);
    gil::threshold_optimal(sv, d.v, gil::threshold_optimal_value::otsu, inv ? gil::threshold_direction::inverse : gil::threshold_direction::regular);
    std::string out = dims(d.v) + planes_of(d.v, " |");
    return framed(d.frame(), out);
}
template <class Img>
std::string mo(Op const& op) {
    auto const& hd = op.head;
    ll w = hv::to_ll(hd[2]), h = hv::to_ll(hd[3]), ks = hv::to_ll(hd[4]), cy = hv::to_ll(hd[5]), cx = hv::to_ll(hd[6]); int iters = (int)hv::to_ll(hd[7]);
    char gs = geo_of(op, 0, 'f'), gd = geo_of(op, 1, 'f');
    using CV = typename Img::const_view_t;
    GV<Img> src(w, h, gs, 33); load(src.v, op.groups, 1);
    std::vector<float> kv(op.groups.at(0).begin(), op.groups.at(0).end());
    if ((ll)kv.size() != ks * ks) return "bad-op";
    gil::detail::kernel_2d<float> ker(kv.begin(), kv.size(), cy, cx);
    GV<Img> dil(w, h, gd, 77), ero(w, h, gd, 77), opn(w, h, gd, 77), cls(w, h, gd, 77), opn2(w, h, gd, 77), cls2(w, h, gd, 77);
    gil::dilate(CV(src.v), dil.v, ker, iters);
    gil::erode(CV(src.v), ero.v, ker, iters);
    gil::opening(CV(src.v), opn.v, ker);
    gil::closing(CV(src.v), cls.v, ker);
    gil::opening(CV(opn.v), opn2.v, ker);
    gil::closing(CV(cls.v), cls2.v, ker);
    using C = typename gil::channel_type<typename Img::view_t>::type;
    ll const K = (ll)std::numeric_limits<C>::min() + (ll)std::numeric_limits<C>::max();
    std::vector<std::vector<ll>> comp;
    for (size_t g = 1; g < op.groups.size(); ++g) { comp.push_back(op.groups[g]); for (auto& v : comp.back()) v = K - v; }
    GV<Img> csrc(w, h, gs, 33); load(csrc.v, comp, 0);
    GV<Img> cdil(w, h, gd, 77), cero(w, h, gd, 77);
    gil::dilate(CV(csrc.v), cdil.v, ker, iters);
    gil::erode(CV(csrc.v), cero.v, ker, iters);
    std::string out = dims(src.v) + planes_of(dil.v, " /") + " |" + planes_of(ero.v, " /") + " |" + planes_of(opn.v, " /") + " |" +
           planes_of(cls.v, " /") + " |" + planes_of(opn2.v, " /") + " |" + planes_of(cls2.v, " /") + " |" +
           planes_of(cdil.v, " /") + " |" + planes_of(cero.v, " /");
    return framed(dil.frame() + ero.frame() + opn.frame() + cls.frame() + opn2.frame() + cls2.frame() + cdil.frame() + cero.frame(), out);
}
template <class Img>
std::string me(Op const& op) {
    auto const& hd = op.head;
    ll w = hv::to_ll(hd[2]), h = hv::to_ll(hd[3]), k = hv::to_ll(hd[4]);
    GV<Img> src(w, h, geo_of(op, 0, 'f'), 33); load(src.v, op.groups, 0);
    GV<Img> dst(w, h, geo_of(op, 1, 'f'), 77);
    gil::median_filter(typename Img::const_view_t(src.v), dst.v, (std::size_t)k);
    std::string out = dims(dst.v) + planes_of(dst.v, " |");
    return framed(dst.frame(), out);
}
template <class Img>
std::string adT(Op const& op) {
    auto const& hd = op.head;
    bool gauss = hd[2] == "gauss"; ll w = hv::to_ll(hd[3]), h = hv::to_ll(hd[4]); std::size_t k = (std::size_t)hv::to_ll(hd[5]);
    Img src(w, h); load(gil::view(src), op.groups, 0);
    Img tmp(w, h);
    if (!gauss) {
        std::vector<float> mean_kernel_values(k, 1.0f / k);
        gil::kernel_1d<float> kernel(mean_kernel_values.begin(), k, k / 2);
        gil::detail::convolve_1d<gil::pixel<float, typename Img::value_type::layout_t>>(gil::const_view(src), kernel, gil::view(tmp));
    } else {
        gil::detail::kernel_2d<float> kernel = gil::generate_gaussian_kernel(k, 1.0);
        gil::detail::convolve_2d(gil::const_view(src), kernel, gil::view(tmp));
    }
    return dims(gil::view(tmp)) + planes_of(gil::view(tmp), " |");
}
template <class Img>
std::string ad(Op const& op) {
    auto const& hd = op.head;
    using C = typename gil::channel_type<typename Img::view_t>::type;
    bool gauss = hd[2] == "gauss", inv = hd[3] == "inv"; ll w = hv::to_ll(hd[4]), h = hv::to_ll(hd[5]); std::size_t k = (std::size_t)hv::to_ll(hd[6]);
    ll cst = hv::to_ll(hd[7]), mx = hv::to_ll(hd[8]);
    GV<Img> src(w, h, geo_of(op, 0, 'f'), 33); load(src.v, op.groups, 0);
    GV<Img> dst(w, h, geo_of(op, 1, 'f'), 77);
    typename Img::const_view_t sv(src.v);
    auto meth = gauss ? gil::threshold_adaptive_method::gaussian : gil::threshold_adaptive_method::mean;
    auto dir = inv ? gil::threshold_direction::inverse : gil::threshold_direction::regular;
    if (mx < 0) gil::threshold_adaptive(sv, dst.v, k, meth, dir, (int)cst);   // overload: max = channel max, int constant
    else gil::threshold_adaptive(sv, dst.v, C(mx), k, meth, dir, C(cst));
    std::string out = dims(dst.v) + planes_of(dst.v, " |");
    return framed(dst.frame(), out);
}

int main() {
    return hv::run([](std::string const& line) -> std::string {
      try {
        Op op = parse(line); auto const& h = op.head;
        if (h.empty()) return "bad-op";
#ifdef PT_A
        if (h[0] == "th" && h.size() == 8) {
            std::string p = h[3];
            if (p == "u8_u8") return th<gil::gray8_image_t, gil::gray8_image_t, true>(op);
            if (p == "i8_i8") return th<gil::gray8s_image_t, gil::gray8s_image_t>(op);
            if (p == "u16_u16") return th<gil::gray16_image_t, gil::gray16_image_t>(op);
            if (p == "i16_i16") return th<gil::gray16s_image_t, gil::gray16s_image_t>(op);
            if (p == "u16_u8") return th<gil::gray16_image_t, gil::gray8_image_t>(op);
            if (p == "u8_i16") return th<gil::gray8_image_t, gil::gray16s_image_t>(op);
            if (p == "rgb8") return th<gil::rgb8_image_t, gil::rgb8_image_t>(op);
            if (p == "rgb8p") return th<gil::rgb8_planar_image_t, gil::rgb8_image_t>(op);
            return "bad-op";
        }
#endif
#ifdef PT_B
        if (h[0] == "ot" && h.size() == 5) {
            std::string c = h[1];
            if (c == "u8") return ot<gil::gray8_image_t>(op);
            if (c == "i8") return ot<gil::gray8s_image_t>(op);
            if (c == "u16") return ot<gil::gray16_image_t>(op);
            if (c == "i16") return ot<gil::gray16s_image_t>(op);
            if (c == "rgb8") return ot<gil::rgb8_image_t>(op);
            if (c == "rgb16") return ot<gil::rgb16_image_t>(op);
            return "bad-op";
        }
#endif
#ifdef PT_C
        if (h[0] == "mo" && h.size() == 8) {
            std::string c = h[1];
            if (c == "u8") return mo<gil::gray8_image_t>(op);
            if (c == "i8") return mo<gil::gray8s_image_t>(op);
            if (c == "u16") return mo<gil::gray16_image_t>(op);
            if (c == "i16") return mo<gil::gray16s_image_t>(op);
            if (c == "rgb8") return mo<gil::rgb8_image_t>(op);
            return "bad-op";
        }
#endif
#ifdef PT_D
        if (h[0] == "me" && h.size() == 5) {
            std::string c = h[1];
            if (c == "u8") return me<gil::gray8_image_t>(op);
            if (c == "i8") return me<gil::gray8s_image_t>(op);
            if (c == "u16") return me<gil::gray16_image_t>(op);
            if (c == "i16") return me<gil::gray16s_image_t>(op);
            if (c == "rgb8") return me<gil::rgb8_image_t>(op);
            return "bad-op";
        }
#endif
#ifdef PT_E
        if (h[0] == "adT" && h.size() == 6) {
            if (h[1] == "u8") return adT<gil::gray8_image_t>(op);
            if (h[1] == "u16") return adT<gil::gray16_image_t>(op);
            return "bad-op";
        }
        if (h[0] == "ad" && h.size() == 9) {
            if (h[1] == "u8") return ad<gil::gray8_image_t>(op);
            if (h[1] == "u16") return ad<gil::gray16_image_t>(op);
            return "bad-op";
        }
#endif
        return "bad-op";
      } catch (hv_assert_failure const& a) {
        std::string e; for (char ch : a.expr) if (ch != ' ') e += ch;
        return "assert:" + e;
      }
    });
}
