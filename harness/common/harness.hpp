// Common pieces of the correspondence harnesses: line protocol, word splitting.
// Each harness reads one op per line on stdin and prints exactly one observation line per op.
#pragma once
#include <cstdio>
#include <cstdlib>
#include <cstdint>
#include <cstring>
#include <string>
#include <vector>
#include <sstream>
#include <iostream>

namespace hv {

inline std::vector<std::string> words(const std::string& s) {
    std::vector<std::string> w; std::istringstream is(s); std::string t;
    while (is >> t) w.push_back(t);
    return w;
}
inline long long to_ll(const std::string& s) { return std::strtoll(s.c_str(), nullptr, 10); }
inline unsigned long long to_ull(const std::string& s) { return std::strtoull(s.c_str(), nullptr, 10); }

// run the line protocol: handle(line) -> observation
template <typename F> int run(F handle) {
    setvbuf(stdout, nullptr, _IOLBF, 1 << 16);
    std::string line;
    while (std::getline(std::cin, line)) {
        std::string out;
        try { out = handle(line); }
        catch (std::bad_alloc const&) { out = "err:bad_alloc"; }
        catch (std::bad_cast const&) { out = "err:bad_cast"; }
        catch (std::ios_base::failure const&) { out = "err:io"; }
        catch (std::exception const& e) { out = std::string("err:exception"); }
        std::fputs(out.c_str(), stdout); std::fputc('\n', stdout); std::fflush(stdout);
    }
    return 0;
}

// splitmix64, the same generator as tools/vlib.py
struct rng { uint64_t s; explicit rng(uint64_t seed) : s(seed) {}
    uint64_t next() { s += 0x9E3779B97F4A7C15ull; uint64_t z = s; z = (z ^ (z >> 30)) * 0xBF58476D1CE4E5B9ull; z = (z ^ (z >> 27)) * 0x94D049BB133111EBull; return z ^ (z >> 31); }
    uint64_t below(uint64_t n) { return n ? next() % n : 0; } };

}  // namespace hv
