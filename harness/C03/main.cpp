// C03 correspondence harness: every navigation path / iterator law of the real headers.
//
// A view is described by   <kind> <W> <H> <PAD> <OFF> <xforms>
//   kind   g8 rgb8 rgba8 rgb16 rgb32f p565 | pl8 pl16 | b1 b2 b3 b4 b6 b12 | v
//   W H    source dimensions;  PAD extra memory units per row (bytes; bits for b*);  OFF start bit (b*)
//          for the virtual kind `v`: origin point (PAD, OFF), step (1,1)
//   xforms `-` or a '/'-separated list of  U L T R C I  S<sx>,<sy>  B<x0>,<y0>,<w>,<h>
//          (flip up-down, flip left-right, transpose, rot90cw, rot90ccw, rot180, subsample, subimage)
// The source lives inside a harness-owned arena, so every iterator value formed here points into
// one object; addresses are printed in memory units relative to the source's first byte
// (virtual views: the coordinate code y*4096+x the dereference function returns).
//
//   nav <view> <cx> <cy>              -> w h is1d | 10 path addresses per pixel ... | row_end(y) row_begin(y+1) ...
//   ra  <view> <i> <nlo> <nhi> <m>    -> 1-D iterator laws around it = begin()+i
//   st  <view> <axis> <c> <i> <nlo> <nhi> <m>   -> x (axis 0, row c) / y (axis 1, column c) iterator laws
//   mv  <view> <x0> <y0> <moves...>   -> locator after a move program vs. xy_at of the summed offset
//   pli <view> <y> <i> <d>            -> raw planar x-iterator it = row_begin(y)+i with ALL its planes: planes of it, of it[d], of it+d; (it+d)-it; < > <= >= == !=
//   pnav <view> <cx> <cy>             -> planar kinds (pl8 pl16 pd2 pd5 = 3 / 3 / 2 / 5 planes): `w h N | address of EVERY plane's channel of view(x,y), per pixel |`
//                                        and a 3rd group `x y path plane got want` iff the reference / iterator some other path yields (row_begin(y)[x],
//                                        *(row_begin(y)+x), col_begin(x)[y], begin()[i], *at, rbegin()[..], *xy_at, *x_at, loc(dx,dy), loc[point], loc[cached], *loc.x_at
//                                        from xy_at(cx,cy)) designates another address in some plane
//   bit <B> <off> <n>                 -> bit iterator: memunit_advance by n bits, distance, advance back (huge range)
//   bitit <B> <off> <k>               -> bit iterator: it + k pixels, (it+k) - it, ordering, (it+k) - k
#include <boost/gil.hpp>
#include "harness.hpp"
#include <sys/mman.h>
#include <iterator>
namespace gil = boost::gil;

#ifndef KGROUP
#define KGROUP 0      // 0 = everything in one binary; 1 interleaved+packed, 2 planar+virtual, 3 bit-aligned
#endif

static unsigned char* ARENA = nullptr;
static const long ARENA_SIZE = 1 << 20, MID = 1 << 19, PLANE = 1 << 17;
static unsigned char* ORG = nullptr;            // address 0 of the printed coordinates
static unsigned char* HUGE_ORG = nullptr;       // middle of a 1 GiB PROT_NONE reservation (never dereferenced)

// ---------------------------------------------------------------- addresses of iterators
template <class P> long long it_addr(P* p);
template <class I> long long it_addr(gil::memory_based_step_iterator<I> const& it);
template <class C, class CS> long long it_addr(gil::planar_pixel_iterator<C, CS> const& it);
template <class R> long long it_addr(gil::bit_aligned_pixel_iterator<R> const& it);
template <class D, int Dim> long long it_addr(gil::position_iterator<D, Dim> const& it);

template <class P> long long it_addr(P* p) { return (const unsigned char*)p - ORG; }
template <class I> long long it_addr(gil::memory_based_step_iterator<I> const& it) { return it_addr(it.base()); }
template <class C, class CS> long long it_addr(gil::planar_pixel_iterator<C, CS> const& it) { return it_addr(gil::at_c<0>(it)); }
// a bit position is byte*8 + offset; an offset outside [0,8) (broken bit_range invariant) is made visible
static long long bit_pos(unsigned char const* byte, int off) {
    long long p = (long long)(byte - ORG) * 8 + off;
    return (off < 0 || off > 7) ? p + 4000000000000000LL * (off < 0 ? -1 : 1) : p; }
template <class R> long long it_addr(gil::bit_aligned_pixel_iterator<R> const& it) {
    return bit_pos(it.bit_range().current_byte(), it.bit_range().bit_offset()); }
template <class D, int Dim> long long it_addr(gil::position_iterator<D, Dim> const& it) { return (long long)it.pos().y * 4096 + it.pos().x; }

// ---------------------------------------------------------------- addresses of references
template <class T, class L> long long ref_mem(gil::pixel<T, L> const& r) { return (const unsigned char*)&r - ORG; }
template <class CR, class CS> long long ref_mem(gil::planar_pixel_reference<CR, CS> const& r) { return (const unsigned char*)&gil::at_c<0>(r) - ORG; }
template <class B, class C, class L> long long ref_mem(gil::packed_pixel<B, C, L> const& r) { return (const unsigned char*)&r - ORG; }
template <class B, class C, class L, bool M> long long ref_mem(gil::bit_aligned_pixel_reference<B, C, L, M> const& r) {
    return bit_pos(r.bit_range().current_byte(), r.bit_range().bit_offset()); }
template <bool Virt> struct RA { template <class R> static long long get(R const& r) { return ref_mem(r); } };
template <> struct RA<true> { template <class R> static long long get(R const& r) { return (long long)gil::at_c<0>(r); } };

// ---------------------------------------------------------------- the virtual view's dereference function
struct coord_fn {
    using point_t = gil::point_t;
    using const_t = coord_fn;
    using value_type = gil::gray32s_pixel_t;
    using reference = value_type;
    using const_reference = value_type;
    using argument_type = point_t;
    using result_type = reference;
    static constexpr bool is_mutable = false;
    result_type operator()(point_t const& p) const { return value_type(std::int32_t(p.y * 4096 + p.x)); }
};

// ---------------------------------------------------------------- kinds
template <class Pix> struct K_inter {
    static constexpr bool virt = false;
    using view_t = typename gil::type_from_x_iterator<Pix*>::view_t;
    static view_t make(long W, long H, long PAD, long) { return gil::interleaved_view(W, H, (Pix*)ORG, W * (long)sizeof(Pix) + PAD); }
};
template <class T> struct K_planar {
    static constexpr bool virt = false;
    using view_t = typename gil::type_from_x_iterator<gil::planar_pixel_iterator<T*, gil::rgb_t>>::view_t;
    static view_t make(long W, long H, long PAD, long) {
        return gil::planar_rgb_view(W, H, (T*)ORG, (T*)(ORG + PLANE), (T*)(ORG + 2 * PLANE), W * (long)sizeof(T) + PAD); }
};
static const long PLANE_N = 1 << 16;     // plane distance of the 2- and 5-plane kinds (5 planes fit into the arena behind ORG)
template <class K> struct spacing_of { static constexpr long value = 0; };
template <int N> struct K_planarN;      // N planes of uint8 (devicen_t<N>), planes PLANE bytes apart; planar_devicen_view does not compile in this tree
template <> struct K_planarN<2> {
    static constexpr bool virt = false;
    using it_t = gil::planar_pixel_iterator<std::uint8_t*, gil::devicen_t<2>::type>;
    using view_t = gil::type_from_x_iterator<it_t>::view_t;
    static view_t make(long W, long H, long PAD, long) { return view_t(W, H, view_t::locator(it_t(ORG, ORG + PLANE_N), W + PAD)); }
};
template <> struct K_planarN<5> {
    static constexpr bool virt = false;
    using it_t = gil::planar_pixel_iterator<std::uint8_t*, gil::devicen_t<5>::type>;
    using view_t = gil::type_from_x_iterator<it_t>::view_t;
    static view_t make(long W, long H, long PAD, long) {
        return view_t(W, H, view_t::locator(it_t(ORG, ORG + PLANE_N, ORG + 2 * PLANE_N, ORG + 3 * PLANE_N, ORG + 4 * PLANE_N), W + PAD)); }
};
template <class Img, int Bits> struct K_bit {
    static constexpr bool virt = false;
    using view_t = typename Img::view_t;
    static view_t make(long W, long H, long PAD, long OFF) {
        return view_t(W, H, typename view_t::locator(typename view_t::x_iterator(ORG, (int)OFF), W * Bits + PAD)); }
};
struct K_virtual {
    static constexpr bool virt = true;
    using loc_t = gil::virtual_2d_locator<coord_fn, false>;
    using view_t = gil::image_view<loc_t>;
    static view_t make(long W, long H, long PAD, long OFF) { return view_t(gil::point_t(W, H), loc_t(gil::point_t(PAD, OFF), gil::point_t(1, 1))); }
};
template <class T> struct spacing_of<K_planar<T>> { static constexpr long value = 1 << 17; };
template <int N> struct spacing_of<K_planarN<N>> { static constexpr long value = 1 << 16; };
using p565_img_t = gil::packed_image3_type<std::uint16_t, 5, 6, 5, gil::rgb_layout_t>::type;

// ---------------------------------------------------------------- transformations interpreted at run time
struct Xf { char c; long a[4]; };
static std::vector<Xf> parse_xf(std::string const& s) {
    std::vector<Xf> r;
    if (s == "-") return r;
    size_t i = 0;
    while (i < s.size()) {
        size_t j = s.find('/', i); if (j == std::string::npos) j = s.size();
        std::string t = s.substr(i, j - i); Xf x{t[0], {0, 0, 0, 0}};
        int k = 0; size_t p = 1;
        while (p < t.size() && k < 4) { size_t q = t.find(',', p); if (q == std::string::npos) q = t.size(); x.a[k++] = std::strtol(t.substr(p, q - p).c_str(), nullptr, 10); p = q + 1; }
        r.push_back(x); i = j + 1;
    }
    return r;
}
// every factory maps {native type, dynamic-step type} of a kind into the same two types
// (virtual: {IsTransposed = false, true}), so the recursion instantiates finitely many types
template <class V, class F> void walk(V const& v, std::vector<Xf> const& xs, size_t i, F& f) {
    if (i == xs.size()) { f(v); return; }
    Xf const& t = xs[i];
    switch (t.c) {
    case 'U': walk(gil::flipped_up_down_view(v), xs, i + 1, f); break;
    case 'L': walk(gil::flipped_left_right_view(v), xs, i + 1, f); break;
    case 'T': walk(gil::transposed_view(v), xs, i + 1, f); break;
    case 'R': walk(gil::rotated90cw_view(v), xs, i + 1, f); break;
    case 'C': walk(gil::rotated90ccw_view(v), xs, i + 1, f); break;
    case 'I': walk(gil::rotated180_view(v), xs, i + 1, f); break;
    case 'S': walk(gil::subsampled_view(v, t.a[0], t.a[1]), xs, i + 1, f); break;
    case 'B': walk(gil::subimage_view(v, t.a[0], t.a[1], t.a[2], t.a[3]), xs, i + 1, f); break;
    default: f.out = "bad-xform";
    }
}

static void put(std::string& s, long long v) { s += std::to_string(v); s += ' '; }
template <class It> struct is_raw_planar : std::false_type {};
template <class C, class CS> struct is_raw_planar<gil::planar_pixel_iterator<C, CS>> : std::true_type {};

// ---------------------------------------------------------------- op handlers (generic over the view type)
template <bool Virt> struct Ops {
    std::vector<std::string> const& w; size_t a;   // a = index of the first op-specific argument
    std::string out; long spacing = 0;      // distance between the planes of the source (planar kinds)
    Ops(std::vector<std::string> const& w_, size_t a_) : w(w_), a(a_) {}
    long arg(size_t k) const { return hv::to_ll(w.at(a + k)); }

    template <class It> static void pos3(std::string& s, It it) { put(s, it.x_pos()); put(s, it.y_pos()); put(s, it_addr(it.x())); }

    template <class V> void nav(V const& v) {
        long W = v.width(), H = v.height(), cx = arg(0), cy = arg(1);
        put(out, W); put(out, H); put(out, v.is_1d_traversable() ? 1 : 0); out += "| ";
        for (long y = 0; y < H; ++y) for (long x = 0; x < W; ++x) {
            put(out, RA<Virt>::get(v(x, y)));
            put(out, RA<Virt>::get(v.row_begin(y)[x]));
            put(out, RA<Virt>::get(v.col_begin(x)[y]));
            put(out, RA<Virt>::get(v.begin()[y * W + x]));
            put(out, RA<Virt>::get(*v.at(x, y)));
            put(out, RA<Virt>::get(v.rbegin()[W * H - 1 - (y * W + x)]));
            put(out, RA<Virt>::get(*v.xy_at(x, y)));
            { auto loc = v.xy_at(cx, cy); auto cl = loc.cache_location(x - cx, y - cy); put(out, RA<Virt>::get(loc[cl])); }
            put(out, RA<Virt>::get(*v.x_at(x, y)));
            put(out, RA<Virt>::get(v[y * W + x]));
        }
        out += "| ";
        if (W > 0) for (long y = 0; y + 1 < H; ++y) { put(out, it_addr(v.row_end(y))); put(out, it_addr(v.row_begin(y + 1))); }
    }

    template <class V> void ra(V const& v) {
        long i = arg(0), nlo = arg(1), nhi = arg(2), m = arg(3);
        put(out, (long long)v.size()); put(out, v.end() - v.begin()); put(out, v.begin() == v.end() ? 1 : 0); out += "| ";
        auto it0 = v.begin() + i;
        pos3(out, it0);
        { auto t = it0; ++t; pos3(out, t); --t; pos3(out, t); }
        { auto t = it0; --t; pos3(out, t); ++t; pos3(out, t); }
        for (long n = nlo; n <= nhi; ++n) {
            out += "| ";
            auto J = it0 + n;
            pos3(out, J); put(out, J - it0); put(out, it0 < J ? 1 : 0); put(out, J < it0 ? 1 : 0); put(out, it0 == J ? 1 : 0);
            pos3(out, J + m); pos3(out, it0 + (n + m));
        }
    }

    template <class It> void st_laws(It it00, long i, long nlo, long nhi, long m) {
        It it0 = it00 + i;
        put(out, it_addr(it0));
        { It t = it0; ++t; put(out, it_addr(t)); --t; put(out, it_addr(t)); }
        for (long n = nlo; n <= nhi; ++n) {
            out += "| ";
            It J = it0 + n;
            put(out, it_addr(J)); put(out, J - it0);
            put(out, it0 < J ? 1 : 0); put(out, it0 > J ? 1 : 0); put(out, it0 <= J ? 1 : 0); put(out, it0 >= J ? 1 : 0); put(out, it0 == J ? 1 : 0);
            put(out, it_addr(J + m)); put(out, it_addr(it0 + (n + m)));
        }
    }
    template <class V> void st(V const& v) {
        long axis = arg(0), c = arg(1), i = arg(2), nlo = arg(3), nhi = arg(4), m = arg(5);
        if (axis == 0) st_laws(v.row_begin(c), i, nlo, nhi, m); else st_laws(v.col_begin(c), i, nlo, nhi, m);
    }

    template <class V> void mv(V const& v) {
        long x0 = arg(0), y0 = arg(1), X = x0, Y = y0;
        auto loc = v.xy_at(x0, y0);
        using pt = typename V::point_t;
        for (size_t k = a + 2; k < w.size();) {
            std::string const& c = w[k];
            if (c == "p") { long dx = hv::to_ll(w.at(k + 1)), dy = hv::to_ll(w.at(k + 2)); loc += pt(dx, dy); X += dx; Y += dy; k += 3; }
            else if (c == "m") { long dx = hv::to_ll(w.at(k + 1)), dy = hv::to_ll(w.at(k + 2)); loc -= pt(dx, dy); X -= dx; Y -= dy; k += 3; }
            else if (c == "x") { long n = hv::to_ll(w.at(k + 1)); loc.x() += n; X += n; k += 2; }
            else if (c == "y") { long n = hv::to_ll(w.at(k + 1)); loc.y() += n; Y += n; k += 2; }
            else if (c == "ix") { ++loc.x(); ++X; ++k; }
            else if (c == "dx") { --loc.x(); --X; ++k; }
            else if (c == "iy") { ++loc.y(); ++Y; ++k; }
            else if (c == "dy") { --loc.y(); --Y; ++k; }
            else { out = "bad-move"; return; }
        }
        put(out, it_addr(loc.x())); put(out, it_addr(loc.y()));
        put(out, it_addr(v.pixels().x_at(X, Y))); put(out, it_addr((v.pixels() + pt(X, Y)).x()));
        put(out, X); put(out, Y);
    }

    // addresses (relative to ORG) of the channels of a planar reference, in plane order
    template <class R> static std::vector<long long> planes_of(R const& r) {
        std::vector<long long> a;
        gil::static_for_each(r, [&](auto const& ch) { a.push_back((const unsigned char*)&ch - ORG); });
        return a;
    }
    template <class V> void pnav(V const& v) {
        if constexpr (gil::is_planar<V>::value) {
            long W = v.width(), H = v.height(), cx = arg(0), cy = arg(1);
            constexpr int N = gil::num_channels<V>::value;
            put(out, W); put(out, H); put(out, N); out += "| ";
            bool bad = false; long long mm[6] = {0, 0, 0, 0, 0, 0};
            using pt = typename V::point_t;
            for (long y = 0; y < H; ++y) for (long x = 0; x < W; ++x) {
                std::vector<long long> a0 = planes_of(v(x, y));
                for (long long a : a0) put(out, a);
                std::vector<std::vector<long long>> ps;
                ps.push_back(planes_of(v.row_begin(y)[x]));
                ps.push_back(planes_of(*(v.row_begin(y) + x)));
                ps.push_back(planes_of(v.col_begin(x)[y]));
                ps.push_back(planes_of(v.begin()[y * W + x]));
                ps.push_back(planes_of(*v.at(x, y)));
                ps.push_back(planes_of(v.rbegin()[W * H - 1 - (y * W + x)]));
                ps.push_back(planes_of(*v.xy_at(x, y)));
                ps.push_back(planes_of(*v.x_at(x, y)));
                { auto loc = v.xy_at(cx, cy);
                  ps.push_back(planes_of(loc(x - cx, y - cy)));
                  ps.push_back(planes_of(loc[pt(x - cx, y - cy)]));
                  auto cl = loc.cache_location(x - cx, y - cy); ps.push_back(planes_of(loc[cl]));
                  ps.push_back(planes_of(*loc.x_at(x - cx, y - cy))); }
                // the law every path must obey: plane k of pixel (x,y) = plane k of pixel (0,0) moved by the same offset in every plane
                for (size_t p = 0; p < ps.size() && !bad; ++p) for (int k = 0; k < N && !bad; ++k) {
                    long long want = a0[0] + (long long)k * spacing;
                    if (ps[p][k] != want) { bad = true; mm[0] = x; mm[1] = y; mm[2] = (long long)p + 1; mm[3] = k; mm[4] = ps[p][k]; mm[5] = want; }
                }
            }
            out += "| ";
            if (bad) for (long long q : mm) put(out, q);
        } else out = "bad-op";
    }

    template <class V> void pli(V const& v) {
        using xit = typename V::x_iterator;
        if constexpr (is_raw_planar<xit>::value && gil::num_channels<V>::value == 3) {
            long y = arg(0), i = arg(1), d = arg(2);
            xit it0 = v.row_begin(y) + i;
            auto planes = [&](xit const& it) {
                put(out, (const unsigned char*)gil::at_c<0>(it) - ORG); put(out, (const unsigned char*)gil::at_c<1>(it) - ORG); put(out, (const unsigned char*)gil::at_c<2>(it) - ORG); };
            planes(it0);
            { typename xit::reference r = it0[d];
              put(out, (const unsigned char*)&gil::at_c<0>(r) - ORG); put(out, (const unsigned char*)&gil::at_c<1>(r) - ORG); put(out, (const unsigned char*)&gil::at_c<2>(r) - ORG); }
            xit J = it0 + d; planes(J);
            put(out, J - it0);
            put(out, it0 < J ? 1 : 0); put(out, it0 > J ? 1 : 0); put(out, it0 <= J ? 1 : 0); put(out, it0 >= J ? 1 : 0); put(out, it0 == J ? 1 : 0); put(out, it0 != J ? 1 : 0);
        } else out = "bad-op";
    }

    template <class V> void operator()(V const& v) {
        if (w[0] == "pli") { if constexpr (!Virt) pli(v); else out = "bad-op"; return; }
        if (w[0] == "pnav") { if constexpr (!Virt) pnav(v); else out = "bad-op"; return; }
        if (w[0] == "nav") nav(v); else if (w[0] == "ra") ra(v); else if (w[0] == "st") st(v); else if (w[0] == "mv") mv(v);
        else out = "bad-op";
    }
};

template <class K> std::string view_op(std::vector<std::string> const& w) {
    long W = hv::to_ll(w[2]), H = hv::to_ll(w[3]), PAD = hv::to_ll(w[4]), OFF = hv::to_ll(w[5]);
    auto xs = parse_xf(w[6]);
    Ops<K::virt> ops(w, 7); ops.spacing = spacing_of<K>::value;
    walk(K::make(W, H, PAD, OFF), xs, 0, ops);
    return ops.out;
}

// ---------------------------------------------------------------- raw bit iterator in the huge range
template <class Img> std::string bit_op(std::vector<std::string> const& w) {
    using it_t = typename Img::view_t::x_iterator;
    long off = hv::to_ll(w[2]); long long n = hv::to_ll(w[3]);
    unsigned char* save = ORG; ORG = HUGE_ORG;
    std::string out;
    it_t it0(HUGE_ORG, (int)off);
    if (w[0] == "bit") {
        it_t it = it0;
        gil::memunit_advance(it, n); put(out, it_addr(it));
        put(out, gil::memunit_distance(it0, it));
        gil::memunit_advance(it, -n); put(out, it_addr(it));
    } else {
        it_t J = it0 + n;
        put(out, it_addr(J)); put(out, J - it0); put(out, it0 < J ? 1 : 0); put(out, J < it0 ? 1 : 0);
        it_t B = J + (-n); put(out, it_addr(B));
    }
    ORG = save;
    return out;
}

using b1_t = gil::bit_aligned_image1_type<1, gil::gray_layout_t>::type;
using b2_t = gil::bit_aligned_image1_type<2, gil::gray_layout_t>::type;
using b3_t = gil::bit_aligned_image3_type<1, 1, 1, gil::rgb_layout_t>::type;
using b4_t = gil::bit_aligned_image1_type<4, gil::gray_layout_t>::type;
using b6_t = gil::bit_aligned_image3_type<2, 2, 2, gil::rgb_layout_t>::type;
using b12_t = gil::bit_aligned_image3_type<4, 4, 4, gil::rgb_layout_t>::type;

int main() {
    ARENA = (unsigned char*)std::calloc(ARENA_SIZE, 1); ORG = ARENA + MID;
    void* huge = mmap(nullptr, 1ul << 30, PROT_NONE, MAP_PRIVATE | MAP_ANONYMOUS | MAP_NORESERVE, -1, 0);
    HUGE_ORG = huge == MAP_FAILED ? nullptr : (unsigned char*)huge + (1ul << 29);
    return hv::run([](std::string const& line) -> std::string {
        auto w = hv::words(line);
        if (w.size() >= 7 && (w[0] == "nav" || w[0] == "ra" || w[0] == "st" || w[0] == "mv" || w[0] == "pli" || w[0] == "pnav")) {
            std::string const& k = w[1];
#if KGROUP == 0 || KGROUP == 1
            if (k == "g8") return view_op<K_inter<gil::gray8_pixel_t>>(w);
            if (k == "rgb8") return view_op<K_inter<gil::rgb8_pixel_t>>(w);
            if (k == "rgba8") return view_op<K_inter<gil::rgba8_pixel_t>>(w);
            if (k == "rgb16") return view_op<K_inter<gil::rgb16_pixel_t>>(w);
            if (k == "rgb32f") return view_op<K_inter<gil::rgb32f_pixel_t>>(w);
            if (k == "p565") return view_op<K_inter<p565_img_t::value_type>>(w);
#endif
#if KGROUP == 0 || KGROUP == 2
            if (k == "pl8") return view_op<K_planar<std::uint8_t>>(w);
            if (k == "pl16") return view_op<K_planar<std::uint16_t>>(w);
            if (k == "v") return view_op<K_virtual>(w);
#endif
#if KGROUP == 0 || KGROUP == 4
            if (k == "pd2") return view_op<K_planarN<2>>(w);
            if (k == "pd5") return view_op<K_planarN<5>>(w);
#endif
#if KGROUP == 0 || KGROUP == 3
            if (k == "b1") return view_op<K_bit<b1_t, 1>>(w);
            if (k == "b2") return view_op<K_bit<b2_t, 2>>(w);
            if (k == "b3") return view_op<K_bit<b3_t, 3>>(w);
            if (k == "b4") return view_op<K_bit<b4_t, 4>>(w);
            if (k == "b6") return view_op<K_bit<b6_t, 6>>(w);
            if (k == "b12") return view_op<K_bit<b12_t, 12>>(w);
#endif
            return "bad-kind";
        }
#if KGROUP == 0 || KGROUP == 3
        if (w.size() == 4 && (w[0] == "bit" || w[0] == "bitit")) {
            if (!HUGE_ORG) return "err:no-reservation";
            if (w[1] == "1") return bit_op<b1_t>(w);
            if (w[1] == "2") return bit_op<b2_t>(w);
            if (w[1] == "3") return bit_op<b3_t>(w);
            if (w[1] == "4") return bit_op<b4_t>(w);
            if (w[1] == "6") return bit_op<b6_t>(w);
            if (w[1] == "12") return bit_op<b12_t>(w);
            return "bad-kind";
        }
#endif
        return "bad-op";
    });
}
