"""C16 -- threshold, morphology and median filters satisfy their per-pixel definitions (DESIGN.md section 5, C16)"""
import json, concurrent.futures
import vlib, C16_syms

RANGE = {"u8": (0, 255), "i8": (-128, 127), "u16": (0, 65535), "i16": (-32768, 32767)}
TUS = {"PT_A": "th", "PT_B": "ot", "PT_C": "mo", "PT_D": "me", "PT_E": "ad"}
KINDS = ["bin", "binmax", "tt", "tz"]

def vals(r, ch, n, style):
    lo, hi = RANGE[ch]
    if style == "const": v = r.choice([lo, hi, 0, r.range(lo, hi)]); return [v] * n
    if style == "two": a, b = r.range(lo, hi), r.range(lo, hi); return [r.choice([a, b]) for _ in range(n)]
    if style == "edge": return [r.choice([lo, lo + 1, hi - 1, hi, 0, (lo + hi) // 2]) for _ in range(n)]
    if style == "narrow": c = r.range(lo, hi - 20); return [c + r.below(20) for _ in range(n)]
    return [r.range(lo, hi) for _ in range(n)]

def plane(v): return " ".join(map(str, v))

def gen_ops(ctx):
    r, th = ctx.rng, ctx.thorough()
    ops = []
    # ---- thresholds: 8-bit complete (every threshold x every pixel value), 16-bit stratified, mixed pairs, empty views
    for pair in ("u8_u8", "i8_i8"):
        s = pair.split("_")[0]; lo, hi = RANGE[s]
        allv = list(range(lo, hi + 1))                       # 16 x 16 image holding every channel value
        for kind in KINDS:
            for d in ("reg", "inv"):
                for t in (range(lo, hi + 1) if (th or kind == "bin") else list(range(lo, hi + 1, 5)) + [hi - 1, hi]):
                    mx = r.range(lo, hi) if kind == "bin" else 0
                    ops.append("th %s %s %s 16 16 %d %d | %s" % (kind, d, pair, t, mx, plane(allv)))
    for pair in ("u16_u16", "i16_i16", "u16_u8", "u8_i16"):
        s, dch = pair.split("_"); lo, hi = RANGE[dch]
        for kind in KINDS:
            for d in ("reg", "inv"):
                ts = [lo, lo + 1, hi - 1, hi, 0, (lo + hi) // 2] + [r.range(lo, hi) for _ in range(40 if th else 8)]
                for t in ts:
                    w, h = r.range(0, 6), r.range(0, 6)
                    px = vals(r, s, w * h, r.choice(["rand", "edge"]))
                    # pixels next to the threshold
                    slo, shi = RANGE[s]
                    px = [min(shi, max(slo, t + r.range(-2, 2))) if r.chance(1, 3) else v for v in px]
                    ops.append("th %s %s %s %d %d %d %d | %s" % (kind, d, pair, w, h, t, r.range(lo, hi), plane(px)))
    for pair in ("rgb8", "rgb8p"):
        for _ in range(200 if th else 40):
            w, h = r.range(0, 6), r.range(0, 6)
            ops.append("th %s %s %s %d %d %d %d | %s" % (r.choice(KINDS), r.choice(["reg", "inv"]), pair, w, h, r.range(0, 255), r.range(0, 255),
                                                         " | ".join(plane(vals(r, "u8", w * h, "rand")) for _ in range(3))))
    # ---- Otsu: every channel type x {constant, two-level, edge, narrow, random} x all shapes incl. empty
    N = 12 if th else 6
    for ch in ("u8", "i8", "u16", "i16"):
        for w in range(0, N + 1):
            for h in range(0, N + 1):
                if w * h == 0 and (w > 3 or h > 3): continue
                for style in ("const", "two", "edge", "narrow", "rand"):
                    if w * h == 0 and style != "const": continue
                    ops.append("ot %s %s %d %d | %s" % (ch, r.choice(["reg", "inv"]), w, h, plane(vals(r, ch, w * h, style))))
    for ch in ("u16", "i16", "i8", "u8"):                      # the pre-fix witness and its neighbours
        for v in (RANGE[ch][0], 0, RANGE[ch][1]):
            ops.append("ot %s reg 3 3 | %s" % (ch, plane([v] * 9)))
    for ch, base in (("rgb8", "u8"), ("rgb16", "u16")):
        for _ in range(150 if th else 40):
            w, h = r.range(0, N), r.range(0, N)
            ops.append("ot %s %s %d %d | %s" % (ch, r.choice(["reg", "inv"]), w, h,
                                                " | ".join(plane(vals(r, base, w * h, r.choice(["const", "two", "rand", "narrow"]))) for _ in range(3))))
    # ---- morphology: shapes x kernel sizes 1,3,5 (7) x structuring elements (symmetric and not) x centres
    M = 8 if th else 5
    def se(ks, kind):
        """kind 0: point-symmetric and transpose-invariant (cross, square, disc-like); 1: point-symmetric only
           (e.g. a horizontal line: the fixed finding C16-morph-se-transposed); 2: arbitrary"""
        k = [[r.below(2) for _ in range(ks)] for _ in range(ks)]
        if kind <= 1:
            for a in range(ks):
                for b in range(ks): k[ks - 1 - a][ks - 1 - b] = k[a][b]
        if kind == 0:
            for a in range(ks):
                for b in range(ks): k[b][a] = k[a][b]
            for a in range(ks):
                for b in range(ks): k[ks - 1 - a][ks - 1 - b] = k[a][b]
            for a in range(ks):
                for b in range(ks): k[b][a] = k[a][b]
        if kind == 1 and ks >= 3 and r.chance(1, 3):
            k = [[0] * ks for _ in range(ks)]; k[ks // 2] = [1] * ks          # horizontal line
        if r.chance(1, 8): k = [[1] * ks for _ in range(ks)]
        if r.chance(1, 10): k = [[0] * ks for _ in range(ks)]
        return [k[a][b] * r.choice([1, 1, 2, 255]) for a in range(ks) for b in range(ks)]
    # witnesses of the fixed finding C16-morph-se-transposed: horizontal / vertical line structuring elements
    ops.append("mo u8 3 3 3 1 1 1 | 0 0 0 1 1 1 0 0 0 | 0 0 0 0 9 0 0 0 0")
    ops.append("mo u8 3 3 3 1 1 1 | 0 1 0 0 1 0 0 1 0 | 0 0 0 0 9 0 0 0 0")
    for ch in ("u8", "i8", "u16", "i16"):
        for w in range(1, M + 1):
            for h in range(1, M + 1):
                for ks in ((1, 3, 5, 7) if th else (1, 3, 5)):
                    for rep in range(3 if ch == "u8" else 1):
                        kind = r.choice([0, 0, 0, 1, 2])
                        c = ks // 2
                        cy, cx = (c, c) if kind <= 1 else (r.below(ks), r.below(ks))
                        ops.append("mo %s %d %d %d %d %d %d | %s | %s" % (ch, w, h, ks, cy, cx, r.choice([1, 1, 2, 3, 0]), plane(se(ks, kind)),
                                                                        plane(vals(r, ch, w * h, r.choice(["rand", "rand", "two", "const", "narrow"])))))
    # even-sized and off-centre structuring elements (any shape; judged on erode <= src <= dilate and complement duality),
    # images thinner than the structuring element, symmetric shapes about an off-centre anchor
    for ch in ("u8", "i16"):
        for ks in (2, 4, 3, 5):
            for _ in range(40 if th else 12):
                w, h = r.choice([1, 1, 2, 3, r.range(1, M)]), r.choice([1, 2, 3, r.range(1, M)])
                ops.append("mo %s %d %d %d %d %d %d | %s | %s" % (ch, w, h, ks, r.below(ks), r.below(ks), r.choice([1, 2, 3]), plane(se(ks, r.choice([1, 2, 2]))),
                                                                plane(vals(r, ch, w * h, r.choice(["rand", "two", "edge"])))))
    for _ in range(150 if th else 40):
        w, h, ks = r.range(1, M), r.range(1, M), r.choice([1, 3, 5])
        ops.append("mo rgb8 %d %d %d %d %d %d | %s | %s" % (w, h, ks, ks // 2, ks // 2, r.choice([1, 2]), plane(se(ks, 0)),
                                                        " | ".join(plane(vals(r, "u8", w * h, "rand")) for _ in range(3))))
    # ---- median: all shapes x odd kernel sizes 1,3,5 (7,9)
    for ch in ("u8", "i8", "u16", "i16"):
        for w in range(1, M + 1):
            for h in range(1, M + 1):
                for k in ((1, 3, 5, 7, 9) if th else (1, 3, 5)):
                    ops.append("me %s %d %d %d | %s" % (ch, w, h, k, plane(vals(r, ch, w * h, r.choice(["rand", "rand", "two", "narrow"])))))
    if not th:                                            # windows much larger than the image (every sample replicated) and ties
        for ch in ("u8", "i16"):
            for w, h in ((1, 1), (1, 2), (2, 1), (2, 2), (3, 1), (1, 4), (3, 3)):
                for k in (7, 9):
                    ops.append("me %s %d %d %d | %s" % (ch, w, h, k, plane(vals(r, ch, w * h, r.choice(["rand", "two", "edge"])))))
    for _ in range(100 if th else 30):
        w, h = r.range(1, M), r.range(1, M)
        ops.append("me rgb8 %d %d %d | %s" % (w, h, r.choice([1, 3, 5]), " | ".join(plane(vals(r, "u8", w * h, "rand")) for _ in range(3))))
    return ops

def gen_adaptive(ctx, binary):
    """threshold_adaptive: two phases.  Phase 1 asks the real convolution (the very call threshold_adaptive makes) for the local
    threshold surface T of each source (op adT).  Phase 2 ops carry that T as the CLAIMED surface: the real threshold_adaptive
    recomputes its own, the model applies the translated functor to (src, T), the judge checks T against the exact box mean /
    window bounds and the destination against the documented comparison -- so a defect in the kernel, its centre, the
    method dispatch or the comparison shows up as a judged failure with a self-contained replay line."""
    r, th = ctx.rng, ctx.thorough()
    pre = []
    M = 7 if th else 5
    for ch in ("u8", "u16"):
        for meth in ("mean", "gauss"):
            for k in ((1, 3, 5, 7, 9) if th else (1, 3, 5, 7)):
                for w in range(1, M + 1):
                    for h in range(1, M + 1):
                        if not th and ch == "u16" and (w + h + k) % 2: continue
                        style = r.choice(["rand", "rand", "two", "const", "narrow", "edge"])
                        pre.append((ch, meth, w, h, k, vals(r, ch, w * h, style)))
    lines = ["adT %s %s %d %d %d | %s" % (ch, meth, w, h, k, plane(px)) for ch, meth, w, h, k, px in pre]
    obs = vlib.run_harness(ctx, binary, lines)
    ops = []
    for (ch, meth, w, h, k, px), o in zip(pre, obs):
        lo, hi = RANGE[ch]
        head, _, t = o.partition(":")
        if head.split() != [str(w), str(h)]:          # the convolution itself failed: keep the op, with an empty surface, so it is judged
            t = " ".join(["0"] * (w * h))
        # constants: 0, small, larger than typical thresholds (threshold - constant < 0: must not wrap), range end
        cst = r.choice([0, 0, 1, 2, 5, r.range(0, 40), hi if r.chance(1, 12) else 3])
        mx = r.choice([hi, hi, r.range(1, hi), -1, -1])        # -1: the overload without max_value (int constant; may be negative -> converted)
        if mx < 0 and r.chance(1, 4): cst = -r.range(1, 3)
        for d in (("reg", "inv") if (th or k <= 3) else (r.choice(["reg", "inv"]),)):
            ops.append("ad %s %s %s %d %d %d %d %d | %s | %s" % (ch, meth, d, w, h, k, cst, mx, plane(px), " ".join(t.split())))
    return ops

def with_geo(r, op):
    """append the view-geometry word @<src><dst> (see harness GV): f whole image (1-d traversable), w legacy window, s sub-view of a
    larger guard-filled canvas, y / z = f / s upside down, x (threshold u8_u8 only) sub-view mirrored left-right (x-stepped view type)"""
    kind = op.split(None, 1)[0]
    letters = "fswyz" + ("x" if kind == "th" and " u8_u8 " in op else "")
    g = r.choice(letters) + r.choice(letters)
    if r.chance(1, 4): g = "f" + r.choice("sz")           # contiguous source into a non-contiguous destination (ROI of a larger image)
    head, sep, rest = op.partition(" |")
    return head + " @" + g + sep + rest

def nontrivial(op):
    w = op.split(None, 8)
    if w[0] == "th": return int(w[4]) * int(w[5]) > 0
    if w[0] == "ot": return int(w[3]) * int(w[4]) > 1
    if w[0] == "mo": return int(w[4]) >= 3 and int(w[7]) >= 1
    if w[0] == "me": return int(w[4]) >= 3
    if w[0] == "ad": return int(w[6]) >= 3 and int(w[4]) * int(w[5]) > 1
    return False

ASSUME = [
    "Otsu's variance loop multiplies weights and squared mean differences in double; the model uses exact Int (theorem C16_otsu_variance_fits_double: every value is an integer in [0, total^2*255^2], below 2^53 for images of at most 372 000 pixels, where double arithmetic on integers is exact)",
    "std::nth_element is modelled by its specification (element size/2 of the sorted window); std::max/std::min by max/min",
    "multi-channel pixels are processed channel by channel (nth_channel_view / static_transform): observed through rgb8 / rgb16 / planar rgb8, not proven",
    "morphology and median are exercised on non-empty images only (their implementations start with nth_channel_view / extend_boundary, which are not defined for empty views); thresholds and Otsu include all empty shapes",
    "threshold_adaptive: the local threshold surface is computed in float (1/k weights, Gaussian weights) and truncated to the channel type; the judge checks it against exact-integer bounds (mean: S - 2k^2 <= k^2 T <= S for the zero-padded box sum S; gaussian: window min - 1 <= T <= window max), not bit-exactly; the per-pixel comparison against (T - constant) is exact (translated functor, theorem C16_adaptive_functor)",
    "view geometry: every op runs with a randomly chosen memory layout of source and destination (whole image, window, sub-view of a larger guard-filled canvas, upside-down; mirrored x-stepped views for threshold u8->u8 only); the frame clause is checked by the harness on the canvas of every destination; the model is layout-free by construction (planes indexed by logical coordinates)",
    "channel types: uint8, int8, uint16, int16 (the property's 8- and 16-bit, signed and unsigned); (source,result) pairs of the threshold functors: the four same-type pairs, u16->u8, u8->i16",
]

def compile_all(ctx):
    bins, errs = {}, []
    with concurrent.futures.ThreadPoolExecutor(max_workers=4) as ex:
        futs = {d: ex.submit(vlib.compile_harness, ctx, "harness/C16/main.cpp", "C16_" + d, (), (), True, "-O1", (d,)) for d in TUS}
        for d, f in futs.items():
            b, e = f.result()
            if b is None: errs.append((d, e))
            else: bins[d] = b
    return bins, errs

def run(ctx, ops=None):
    vlib.regen(ctx, C16_syms.NAMESPACE, C16_syms.SYMS)
    obligations, discharged = vlib.standard_proof_steps(ctx)
    bins, errs = compile_all(ctx)
    for d, e in errs:
        ctx.broken.append(("harness", "compile " + d, e[-1500:])); ctx.log("harness %s does not compile:\n%s" % (d, e[-1500:]))
    if ops is None:
        ops = gen_ops(ctx)
        if "PT_E" in bins: ops += gen_adaptive(ctx, bins["PT_E"])
        ops = [with_geo(ctx.rng, o) for o in ops]
    samples, kinds = [], {}
    for d, kind in sorted(TUS.items()):
        g = [o for o in ops if o.startswith(kind + " ")]
        if not g or d not in bins: continue
        impl, model = vlib.correspond(ctx, bins[d], "drv_C16", g, label=kind)
        for i in (0, len(g) // 2, len(g) - 1):
            samples.append({"op": g[i][:160], "impl": impl[i][:160], "model": model[i][:160]})
    for o in ops:
        w = o.split(None, 4); k = w[0] + ":" + (w[3] if w[0] == "th" else (w[1] + "/" + w[2]) if w[0] == "ad" else w[1]); kinds[k] = kinds.get(k, 0) + 1
    distinct = len({o for o in ops if nontrivial(o)})
    pixels = sum(int(o.split()[4]) * int(o.split()[5]) for o in ops if o.startswith("th "))
    return vlib.finish(ctx, "proof", obligations, discharged,
        rule="op lines: thresholds -- a 16x16 image of every 8-bit value x every threshold (complete for threshold_binary), stratified 16-bit and mixed-type pairs, empty views; "
             "Otsu -- 4 channel types x all shapes 0..N (incl. empty) x {constant, two-level, range-end, narrow, random} + rgb8/rgb16; morphology -- shapes 1..M^2 x kernel 1/3/5 x "
             "random symmetric and asymmetric structuring elements, iterations 0..3; median -- shapes x odd kernels; non-trivial = non-empty image (th), > 1 pixel (ot), kernel >= 3 (mo, me, ad); distinct op lines counted",
        samples=samples, distinct_nontrivial=distinct, assumptions=ASSUME, trusted_base=vlib.TRUSTED_BASE,
        extra={"input_distribution": kinds, "threshold_pixel_evaluations": pixels,
               "exhaustive_domains": ["threshold_binary u8/i8: every threshold x every pixel value x both directions"]},
        exhaustive=False)

def replay(ctx, path):
    rp = json.load(open(path))
    ops = rp.get("op_lines") or []
    if not ops: return run(ctx)
    return run(ctx, ops=ops)
