"""translator whitelist for C07 (channel_multiply / channel_invert kernels)"""
from cxx2lean import Sym
H = "boost/gil/channel_algorithm.hpp"

def invert(lean, base, promoted):
    # channel_invert<Channel> instantiated for base_t = `base`, promoted_t = `promoted`
    # (promote_integral picks the first of short/int/long with >= 2b+1 bits (unsigned T) or
    #  2b-1 bits (signed T); none fits uint32_t, which stays uint32_t)
    return Sym(H, r"inline auto channel_invert\(Channel x\)", lean,
               [("x", base), ("maxv", base), ("minv", base)], ret=base,
               subst=[(r"using base_t = [^;]*;", ""), (r"using promoted_t = [^;]*;", ""),
                      (r"promoted_t const", promoted), (r"auto const", base),
                      (r"channel_traits<Channel>::max_value\(\)", "maxv"),
                      (r"channel_traits<Channel>::min_value\(\)", "minv"),
                      (r"static_cast<base_t>", "static_cast<%s>" % base)],
               doc="channel_invert for base type %s (promoted to %s)" % (base, promoted))

def mulgen(lean, base):
    # generic channel_multiplier_unsigned, integral path (base_t = `base`, at most 32 bits)
    return Sym(H, r"static auto apply\(ChannelValue a, ChannelValue b, std::true_type\) -> ChannelValue", lean,
               [("a", base), ("b", base), ("maxv", base)], ret=base,
               subst=[(r"using base_t = [^;]*;", ""), (r"channel_traits<ChannelValue>::max_value\(\)", "maxv"),
                      (r"static_cast<base_t>", "static_cast<%s>" % base), (r"return ChannelValue\(", "return ("),
                      (r"std::uint64_t const", "std::uint64_t")],
               doc="generic channel_multiplier_unsigned, integral channels with base type %s" % base)

SYMS = [
    Sym(H, r"inline auto div255\(uint32_t in\) -> uint32_t", "div255", [("in", "uint32_t")], ret="uint32_t"),
    Sym(H, r"inline auto div32768\(uint32_t in\) -> uint32_t", "div32768", [("in", "uint32_t")], ret="uint32_t"),
    Sym(H, r"struct channel_multiplier_unsigned<uint8_t>.*?auto operator\(\)\(uint8_t a, uint8_t b\) const -> uint8_t", "mul_u8",
        [("a", "uint8_t"), ("b", "uint8_t")], ret="uint8_t", calls={"detail::div255": "div255"}),
    Sym(H, r"struct channel_multiplier_unsigned<uint16_t>.*?auto operator\(\)\(uint16_t a, uint16_t b\) const -> uint16_t", "mul_u16",
        [("a", "uint16_t"), ("b", "uint16_t")], ret="uint16_t"),
    Sym(H, r"struct channel_convert_to_unsigned<int8_t>.*?type operator\(\)\(int8_t val\) const", "to_unsigned_i8", [("val", "int8_t")], ret="uint8_t"),
    Sym(H, r"struct channel_convert_to_unsigned<int16_t>.*?type operator\(\)\(int16_t val\) const", "to_unsigned_i16", [("val", "int16_t")], ret="uint16_t"),
    Sym(H, r"struct channel_convert_to_unsigned<int32_t>.*?type operator\(\)\(int32_t val\) const", "to_unsigned_i32", [("val", "int32_t")], ret="uint32_t"),
    Sym(H, r"struct channel_convert_from_unsigned<int8_t>.*?type operator\(\)\(uint8_t val\) const", "from_unsigned_i8", [("val", "uint8_t")], ret="int8_t"),
    Sym(H, r"struct channel_convert_from_unsigned<int16_t>.*?type operator\(\)\(uint16_t val\) const", "from_unsigned_i16", [("val", "uint16_t")], ret="int16_t"),
    Sym(H, r"struct channel_convert_from_unsigned<int32_t>.*?type operator\(\)\(uint32_t val\) const", "from_unsigned_i32", [("val", "uint32_t")], ret="int32_t"),
    mulgen("mulgen_u8", "uint8_t"), mulgen("mulgen_u16", "uint16_t"), mulgen("mulgen_u32", "uint32_t"),
    invert("invert_u8", "uint8_t", "int"), invert("invert_u16", "uint16_t", "long"), invert("invert_u32", "uint32_t", "uint32_t"),
    invert("invert_i8", "int8_t", "short"), invert("invert_i16", "int16_t", "int"), invert("invert_i32", "int32_t", "long"),
]
NAMESPACE = "GilVerif.Gen.C07"
