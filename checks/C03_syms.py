"""translator whitelist for C03 (1-D iterator carry, locator offsets, step iterator, bit range)"""
from cxx2lean import Sym
I2 = "boost/gil/iterator_from_2d.hpp"
LOC = "boost/gil/locator.hpp"
STEP = "boost/gil/step_iterator.hpp"
BREF = "boost/gil/bit_aligned_pixel_reference.hpp"
BIT = "boost/gil/bit_aligned_pixel_iterator.hpp"
POS = "boost/gil/position_iterator.hpp"
PD = "std::ptrdiff_t"

# iterator_from_2d<Loc>: state = (_coords.x, _coords.y, _width) and the locator _p.  The locator is
# abstracted as the 2-D displacement (_p.x, _p.y) accumulated by `++_p.x()` and `_p += point_t(a,b)`
# (for memory based locators its address is origin + _p.y*row_size + _p.x*pixel_size: Model/C03).
ST = [("_coords.x", PD), ("_coords.y", PD), ("_width", PD), ("_p.x", PD), ("_p.y", PD)]
OUT = ["_coords.x", "_coords.y", "_p.x", "_p.y"]
PSUB = [(r"\+\+_p\.x\(\);", "++_p.x;"), (r"--_p\.x\(\);", "--_p.x;"),
        (r"_p\+=point_t\(([^,]+),([^)]+)\);", r"_p.x += \1; _p.y += \2;")]
LSUB = [(r"row_size\(\)", "row_size"), (r"pixel_size\(\)", "pixel_size")]
BR = [("_current_byte", PD), ("_bit_offset", "int")]

def cmp_op(op, lean):
    return Sym(STEP, r"bool operator%s\(const step_iterator_adaptor<D,Iterator,SFn>& p1, const step_iterator_adaptor<D,Iterator,SFn>& p2\)" % op,
               lean, [("step", PD), ("b1", PD), ("b2", PD)], ret="bool",
               subst=[(r"p1\.step\(\)", "step"), (r"memunit_distance\(p2\.base\(\),p1\.base\(\)\)", "(b1 - b2)"),
                      (r"p1\.base\(\)", "b1"), (r"p2\.base\(\)", "b2")],
               doc="step_iterator_adaptor operator%s (b1, b2: memory positions of the bases; memunit_distance(p2.base(),p1.base()) = b1 - b2)" % op)

SYMS = [
    Sym(I2, r"void advance\(difference_type d\)", "it2d_advance", [("d", "difference_type")] + ST, outputs=OUT,
        subst=[(r"point_t delta;", "std::ptrdiff_t delta_x = 0; std::ptrdiff_t delta_y = 0;"),
               (r"_p\+=delta;", "_p.x += delta_x; _p.y += delta_y;"), (r"delta\.", "delta_")]),
    Sym(I2, r"void increment\(\)", "it2d_increment", ST, outputs=OUT, subst=PSUB),
    Sym(I2, r"void decrement\(\)", "it2d_decrement", ST, outputs=OUT, subst=PSUB),
    Sym(I2, r"difference_type distance_to\(const iterator_from_2d& it\) const", "it2d_distance_to",
        [("_coords.x", PD), ("_coords.y", PD), ("_width", PD), ("it_x", PD), ("it_y", PD)], ret="difference_type",
        subst=[(r"it\.x_pos\(\)", "it_x"), (r"it\.y_pos\(\)", "it_y")]),
    Sym(LOC, r"std::ptrdiff_t offset\(x_coord_t x, y_coord_t y\)\s*const", "loc_offset",
        [("x", PD), ("y", PD), ("row_size", PD), ("pixel_size", PD)], ret=PD, subst=LSUB),
    Sym(LOC, r"bool\s+is_1d_traversable\(x_coord_t width\)\s+const \{", "loc_is_1d_traversable",
        [("width", PD), ("row_size", PD), ("pixel_size", PD)], ret="bool", subst=LSUB),
    Sym(LOC, r"std::ptrdiff_t y_distance_to\(this_t const& p2, x_coord_t xDiff\) const", "loc_y_distance_to",
        [("dist", PD), ("xDiff", PD), ("row_size", PD), ("pixel_size", PD)], ret=PD,
        subst=LSUB + [(r"memunit_distance\(x\(\), p2\.x\(\)\)", "dist")]),
    Sym(STEP, r"auto difference\(Iterator const& it1, Iterator const& it2\) const -> difference_type", "step_difference",
        [("dist", PD), ("_step", PD)], ret=PD, subst=[(r"memunit_distance\(it1,it2\)", "dist")]),
    Sym(STEP, r"void advance\(Iterator& it, difference_type d\) const", "step_advance",
        [("it", PD), ("d", PD), ("_step", PD)], outputs=["it"], subst=[(r"memunit_advance\(it,([^)]*)\);", r"it += \1;")]),
    cmp_op(">", "step_gt"), cmp_op("<", "step_lt"), cmp_op(">=", "step_ge"), cmp_op("<=", "step_le"),
    Sym(BREF, r"auto operator\+\+\(\) -> bit_range&", "bit_increment", BR + [("RangeSize", "int")],
        outputs=["_current_byte", "_bit_offset"], subst=[(r"return \*this;", "")]),
    Sym(BREF, r"void bit_advance\(difference_type num_bits\)", "bit_advance", BR + [("num_bits", "difference_type")],
        outputs=["_current_byte", "_bit_offset"]),
    Sym(BREF, r"auto bit_distance_to\(bit_range const& b\) const -> difference_type", "bit_distance_to",
        BR + [("b_byte", PD), ("b_off", "int")], ret="difference_type",
        subst=[(r"b\.current_byte\(\)", "b_byte"), (r"b\.bit_offset\(\)", "b_off"),
               (r"current_byte\(\)", "_current_byte"), (r"bit_offset\(\)", "_bit_offset")]),
    # bit_aligned_pixel_iterator: advance(d) = bit_advance(d*bit_size), distance_to = bit_distance_to / bit_size
    Sym(BIT, r"void advance\(difference_type d\)", "bitit_advance_bits", [("d", "difference_type"), ("bit_size", "int")], ret="difference_type",
        subst=[(r"_bit_range\.bit_advance\(([^;]*)\);", r"return \1;")],
        doc="number of bits bit_aligned_pixel_iterator::advance(d) passes to bit_advance"),
    Sym(BIT, r"auto distance_to\(bit_aligned_pixel_iterator const& it\) const -> difference_type", "bitit_distance",
        [("bits", "difference_type"), ("bit_size", "int")], ret="difference_type",
        subst=[(r"_bit_range\.bit_distance_to\(it\._bit_range\)", "bits")]),
    # position_iterator (virtual locators): advance / distance along its own dimension
    Sym(POS, r"void advance\(difference_type d\)", "pos_advance", [("p", PD), ("d", "difference_type"), ("step", PD)], outputs=["p"],
        subst=[(r"_p\[Dim\]", "p"), (r"_step\[Dim\]", "step")]),
    Sym(POS, r"difference_type distance_to\(const position_iterator& it\) const", "pos_distance",
        [("p", PD), ("q", PD), ("step", PD)], ret="difference_type",
        subst=[(r"it\._p\[Dim\]", "q"), (r"_p\[Dim\]", "p"), (r"_step\[Dim\]", "step")]),
]
# ---- deepening round: raw pointers (pixel_iterator.hpp) and planar_pixel_iterator (own operator[], operator<, distance_to)
PIX = "boost/gil/pixel_iterator.hpp"
PLN = "boost/gil/planar_pixel_iterator.hpp"
CAST = [(r"\(P\*\)", ""), (r"\((?:unsigned )?char\s*\*\)", ""), (r"gil_reinterpret_cast_c<unsigned char const\*>", "")]
SYMS += [
    Sym(I2, r"bool equal\(iterator_from_2d const& it\) const", "it2d_equal",
        [("_coords.x", PD), ("_coords.y", PD), ("it_x", PD), ("it_y", PD), ("p_pos", PD), ("it_pos", PD)], ret="bool",
        subst=[(r"_coords == it\._coords", "(_coords.x == it_x && _coords.y == it_y)"), (r"_p == it\._p", "(p_pos == it_pos)")],
        doc="iterator_from_2d::equal: same coordinates and same locator (p_pos / it_pos: positions of the two locators)"),
    Sym(PIX, r"inline P\* memunit_advanced\(const P\* p, std::ptrdiff_t diff\)", "ptr_memunit_advanced", [("p", PD), ("diff", PD)], ret=PD, subst=CAST,
        doc="memunit_advanced(P const*, diff): byte address of the advanced pointer"),
    Sym(PIX, r"inline void memunit_advance\(P\* &p, std::ptrdiff_t diff\)", "ptr_memunit_advance", [("p", PD), ("diff", PD)], outputs=["p"], subst=CAST,
        doc="memunit_advance(P*&, diff)"),
    Sym(PIX, r"inline std::ptrdiff_t memunit_distance\(P const\* p1, P const\* p2\)", "ptr_memunit_distance", [("p1", PD), ("p2", PD)], ret=PD, subst=CAST,
        doc="memunit_distance(P const* p1, P const* p2) in bytes"),
    # planar_pixel_iterator::operator[](d) = memunit_advanced_ref(*this, <bytes>): every plane pointer is advanced by that many bytes
    Sym(PLN, r"reference operator\[\]\(difference_type d\)\s+const \{ return memunit_advanced_ref\(\*this,(.*?)\);\s*\}", "planar_index_bytes",
        [("d", "difference_type"), ("chan_size", "std::size_t")], ret=PD, expr=True, subst=[(r"sizeof\(channel_t\)", "chan_size")],
        doc="planar_pixel_iterator::operator[](d): the byte offset handed to memunit_advanced_ref (applied to every plane pointer)"),
    # distance_to / operator< / equal look at plane 0 only; it0 / this0 = positions of the channel-0 pointers counted in channels
    Sym(PLN, r"std::ptrdiff_t distance_to\(const planar_pixel_iterator& it\) const", "planar_distance_to", [("it0", PD), ("this0", PD)], ret=PD,
        subst=[(r"gil::at_c<0>\(it\)", "it0"), (r"gil::at_c<0>\(\*this\)", "this0")],
        doc="planar_pixel_iterator::distance_to(it): pointer difference of the channel-0 pointers (in channels)"),
    Sym(PLN, r"bool operator< \(const planar_pixel_iterator& ptr\)   const", "planar_lt", [("this0", PD), ("ptr0", PD)], ret="bool",
        subst=[(r"gil::at_c<0>\(ptr\)", "ptr0"), (r"gil::at_c<0>\(\*this\)", "this0")],
        doc="planar_pixel_iterator::operator<: compares the channel-0 pointers"),
    Sym(PLN, r"bool equal\(const planar_pixel_iterator& it\) const", "planar_equal", [("this0", PD), ("it0", PD)], ret="bool",
        subst=[(r"gil::at_c<0>\(it\)", "it0"), (r"gil::at_c<0>\(\*this\)", "this0")],
        doc="planar_pixel_iterator::equal: compares the channel-0 pointers"),
]
# detail::homogeneous_color_base<Element, Layout, n>(Ptr const& ptr, diff): which channel pointer of `ptr` each member reference is bound to
# (the constructor behind memunit_advanced_ref for planar iterators: view(x,y), planar it[d], loc(dx,dy), loc[point], loc[cached_location])
CB = "boost/gil/color_base.hpp"
for n in (2, 3, 4, 5):
    for k in range(n):
        SYMS.append(Sym(CB, r"struct homogeneous_color_base<Element, Layout, %d>.*?v%d_\(\*memunit_advanced\(semantic_at_c<(\d+)>\(ptr\), diff\)\)" % (n, k),
                        "hcb_ref_plane_%d_%d" % (n, k), [], ret="int", expr=True,
                        doc="homogeneous_color_base<.,.,%d>(ptr, diff): member v%d_ is bound to channel pointer number ..." % (n, k)))
NAMESPACE = "GilVerif.Gen.C03"
