"""C12 -- write_view then read_image reproduces the view (DESIGN.md section 5, C12)

BMP / PNM / TARGA: the bytes the real write_view produces are compared byte-for-byte with the Lean model's
encoder (GilVerif.Codec.encodeBmp/encodePnm/encodeTga), the image the real read_image returns is compared with
the model's decoder, and the judge evaluates the property's Spec (read back == source) on the real output.
PNG / TIFF / JPEG: real round trip only (libpng / libtiff / libjpeg are a trusted ExtCodec contract).
"""
import json, os
import vlib
from codec_common import compile_many, run_routed, correspond_with, hexbytes, IO_LIBS

# (format, pixel, bytes per pixel in the op line, harness selector)
NATIVE = [("bmp", "rgb8", 3, 1), ("bmp", "rgba8", 4, 2), ("pnm", "gray8", 1, 3), ("pnm", "rgb8", 3, 4), ("pnm", "gray1", 1, 5),
          ("targa", "rgb8", 3, 6), ("targa", "rgba8", 4, 7)]
# organisations = [<source>-]<kind> (harness/C12/c12.hpp): source none / pl (planar) / alt, alt2, alt3 (other channel orders, among
# them the order the file stores: bgr8, bgra8); kind il, sub, step, xstep, flip, fliplr, transp, rot90
BASE = ["il", "sub", "step", "xstep", "flip", "fliplr", "transp", "rot90"]
LITE = ["il", "step", "fliplr", "transp"]
def orgs(pl=False, alts=0, full_alt=True, lite_alts=0):
    o = list(BASE)
    if pl: o += ["pl-" + k for k in LITE]
    for i in range(alts): o += [("alt%s-" % ("" if i == 0 else i + 1)) + k for k in (BASE if full_alt else LITE)]
    for i in range(alts, alts + lite_alts): o += [("alt%d-" % (i + 1)) + k for k in LITE]
    return o
ORGS = {"rgb8": orgs(pl=True, alts=1), "rgba8": orgs(pl=True, alts=2), "gray8": list(BASE), "gray1": ["il", "sub"]}
DEVS = ["fn", "fp", "ss", "of"]

# external codecs: pixel -> (channels, bytes per channel, max channel value (None = any bit pattern), orgs, selector)
PNG = {"gray8": (1, 1, 255, BASE, 1), "rgb8": (3, 1, 255, orgs(pl=True, alts=1, full_alt=False), 1),
       "rgba8": (4, 1, 255, orgs(pl=True, alts=2, full_alt=False, lite_alts=1), 1),
       "ga8": (2, 1, 255, ["il", "sub"], 1),
       "gray16": (1, 2, 65535, BASE, 2), "rgb16": (3, 2, 65535, orgs(pl=True, alts=1, full_alt=False), 2),
       "rgba16": (4, 2, 65535, orgs(pl=True), 2), "ga16": (2, 2, 65535, ["il", "sub"], 2),
       "gray1": (1, 1, 1, ["il", "sub"], 3), "gray2": (1, 1, 3, ["il", "sub"], 3), "gray4": (1, 1, 15, ["il", "sub"], 3)}
TIFF = {"gray8": (1, 1, 255, BASE, 4), "rgb8": (3, 1, 255, orgs(pl=True, alts=1, full_alt=False), 4),
        "rgba8": (4, 1, 255, orgs(pl=True, alts=2, full_alt=False), 5), "gray16": (1, 2, 65535, BASE, 5),
        "rgb16": (3, 2, 65535, orgs(pl=True, alts=1, full_alt=False), 5),
        "gray32": (1, 4, 2**32 - 1, BASE, 6), "gray32f": (1, 4, "f32", BASE, 6),
        "cmyk8": (4, 1, 255, BASE, 6),
        "gray1": (1, 1, 1, ["il", "sub"], 7), "gray2": (1, 1, 3, ["il", "sub"], 7), "gray4": (1, 1, 15, ["il", "sub"], 7)}
TIFF_VARIANTS = ["tiff", "tiff-lzw", "tiff-deflate", "tiff-packbits", "tiff-tile16", "tiff-tile16-lzw", "tiff-tile32-deflate"]
JPEG = {"gray8": (1, BASE), "rgb8": (3, orgs(pl=True, alts=1)), "cmyk8": (4, BASE)}
# libjpeg at quality 100 (GIL's defaults: 4:2:0 chroma subsampling for rgb, ISLOW DCT): bound on |channel - original| per content kind.
# The property only says "bounded"; these are the measured maxima over the generated inputs with a margin (checks/C12.notes.md).
JPEG_BOUND = {("gray8", "const"): 1, ("gray8", "ramp"): 2, ("gray8", "random"): 2,
              ("rgb8", "const"): 1, ("rgb8", "ramp"): 4, ("rgb8", "random"): 255,
              ("cmyk8", "const"): 1, ("cmyk8", "ramp"): 2, ("cmyk8", "random"): 2}

def content(r, kind, w, h, nch, cb=1, maxv=255):
    """channel bytes of a w x h image, row major, cb bytes per channel (big endian)"""
    out = bytearray()
    def put(v):
        if maxv == "f32":
            v &= 0xFFFFFFFF
            if (v >> 23) & 0xFF == 0xFF: v &= ~(1 << 30) & 0xFFFFFFFF     # no NaN / inf bit patterns (NaN payloads need not survive a float copy)
        else: v %= (maxv + 1)
        out.extend(v.to_bytes(cb, "big"))
    for y in range(h):
        for x in range(w):
            for c in range(nch):
                if kind == "random": put(r.next())
                elif kind == "const": put(0x5A5A5A5A + 0)          # same value everywhere
                elif kind == "ramp":         # smooth gradient that never wraps
                    if maxv == "f32": put(0x3F000000 + 4096 * (x + 3 * y + c))
                    else: put(((x + 2 * y) * (maxv - maxv // 4)) // (w + 2 * h) + (c * maxv) // 16)
                elif kind == "checker": put((0 if (x + y) % 2 == 0 else (maxv if isinstance(maxv, int) else 0x3F800000)) + 0)
                elif kind == "index": put(1 + x + w * y + 64 * c)     # every pixel distinct: misplaced rows / columns / channels show
    return hexbytes(out)

KINDS = ["random", "index", "checker", "ramp", "const", "random"]

def gen_native(ctx):
    r, ops = ctx.rng, []
    hi = 16 if ctx.thorough() else 9
    for fmt, pix, nch, sel in NATIVE:
        orgs = ORGS[pix]; maxv = 1 if pix == "gray1" else 255
        for w in range(1, hi + 1):
            for h in range(1, hi + 1):
                for i, org in enumerate(orgs):      # every organisation at every size
                    ops.append("rt %s %s %s %s %d %d %s" % (fmt, pix, org, DEVS[(w + h + i) % 4], w, h, content(r, "random", w, h, nch, 1, maxv)))
                for i, dev in enumerate(DEVS):      # every destination kind at every size
                    ops.append("rt %s %s il %s %d %d %s" % (fmt, pix, dev, w, h, content(r, KINDS[(w + 2 * h + i) % len(KINDS)], w, h, nch, 1, maxv)))
        # every destination kind receives the same bytes (one op writes through all four)
        for w in range(1, hi + 1):
            for h in range(1, hi + 1):
                ops.append("dsts %s %s %d %d %s" % (fmt, pix, w, h, content(r, KINDS[(w + h) % len(KINDS)], w, h, nch, 1, maxv)))
        # shapes whose header fields / file size leave one byte (>= 256) and two bytes (file >= 65536): every destination kind
        big = [(256, 2), (2, 256), (257, 3)] + ([(300, 260)] if pix in ("rgb8", "gray8") else [(70, 260)])
        if pix == "gray1": big = [(256, 2), (2, 256), (264, 3)]
        for (w, h) in big:
            hx = content(r, "checker" if pix == "gray1" else "index", w, h, nch, 1, maxv)
            ops.append("dsts %s %s %d %d %s" % (fmt, pix, w, h, hx))
            for dev in DEVS:
                ops.append("rt %s %s il %s %d %d %s" % (fmt, pix, dev, w, h, hx))
        if ctx.thorough():
            for w in range(1, 41):
                for h in range(1, 41):
                    if w <= hi and h <= hi: continue
                    for _ in range(3):
                        ops.append("rt %s %s %s %s %d %d %s" % (fmt, pix, r.choice(orgs), r.choice(DEVS), w, h, content(r, r.choice(KINDS), w, h, nch, 1, maxv)))
    return ops

def gen_ext(ctx):
    r, ops = ctx.rng, []
    th = ctx.thorough()
    hi = 12 if th else 9
    for pix, (nch, cb, maxv, orgs, sel) in PNG.items():
        k = 0
        for w in range(1, hi + 1):
            for h in range(1, hi + 1):
                for _ in range(2 if len(orgs) > 8 else 1):
                    k += 1
                    ops.append("rtx png %s %s %s %d %d %s" % (pix, orgs[k % len(orgs)], DEVS[(k // len(orgs)) % 4], w, h, content(r, KINDS[k % len(KINDS)], w, h, nch, cb, maxv)))
        if th:
            for _ in range(400):
                w, h = r.range(1, 40), r.range(1, 40)
                ops.append("rtx png %s %s %s %d %d %s" % (pix, r.choice(orgs), r.choice(DEVS), w, h, content(r, r.choice(KINDS), w, h, nch, cb, maxv)))
    tdevs = ["fn", "ss", "of"]       # tiff has no FILE* device (TIFF* instead)
    edge = [(16, 16), (17, 16), (16, 17), (33, 17), (31, 5), (32, 32)] + ([(40, 33), (48, 2), (15, 40), (64, 17)] if th else [])
    for var in TIFF_VARIANTS:
        for pix, (nch, cb, maxv, orgs, sel) in TIFF.items():
            k = 0
            sizes = [(w, h) for w in range(1, hi + 1) for h in (range(1, hi + 1) if var == "tiff" or th else (1, 3))]
            if "tile" in var or th: sizes += edge
            for w, h in sizes:
                k += 1
                ops.append("rtx %s %s %s %s %d %d %s" % (var, pix, orgs[k % len(orgs)], tdevs[(k // len(orgs)) % 3], w, h, content(r, KINDS[k % len(KINDS)], w, h, nch, cb, maxv)))
    return ops

def gen_jpeg(ctx):
    r, ops = ctx.rng, []
    hi = 12 if ctx.thorough() else 9
    for pix, (nch, orgs) in JPEG.items():
        k = 0
        for w, h in [(w, h) for w in range(1, hi + 1) for h in range(1, hi + 1)] + [(16, 16), (17, 9), (8, 24), (33, 17)]:
            for kind in ("const", "ramp", "random"):
                k += 1
                hx = content(r, kind, w, h, nch)
                if kind == "const":      # a different constant each time
                    hx = hexbytes(bytes([r.below(256) for _ in range(nch)]) * (w * h))
                ops.append("jpg %s %s %s %d %d %s %s %d" % (pix, orgs[k % len(orgs)], DEVS[(k // len(orgs)) % 4], w, h, kind, hx, JPEG_BOUND[(pix, kind)]))
    return ops

# ---- reused destination objects: reuse <fmt> <pix> <api> <dev> <pw> <ph> <k> (<w> <h> <hex>){k}
# previous destination size relative to the file's (w, h): fresh, equal, same width / other height (larger, smaller), same height /
# other width (larger, smaller), both different (larger, smaller, mixed)
def prior_sizes(w, h):
    p = [(0, 0), (w, h), (w, h + 2), (w, h + 5), (w + 3, h), (w + 1, h), (w + 2, h + 3), (w + 1, h - 1 if h > 1 else h + 1)]
    if h > 1: p += [(w, h - 1), (w, 1)]
    if w > 1: p += [(w - 1, h), (1, h)]
    if w > 1 and h > 1: p += [(w - 1, h - 1), (w - 1, h + 2)]
    return list(dict.fromkeys(p))
REUSE_SIZES = [(1, 1), (2, 3), (3, 2), (5, 4), (8, 1), (1, 7), (9, 9), (6, 3)]
REUSE_SEQS = [[(6, 7), (6, 3), (2, 3), (5, 1), (5, 1), (4, 4)], [(3, 3), (3, 5), (7, 5), (7, 2), (1, 2), (1, 1), (9, 1)],
              [(4, 2), (4, 2), (8, 2), (8, 9), (2, 9), (2, 9), (3, 4)]]
def reuse_ops(r, fmt, pix, nch, cb, maxv, devs, apis, mk=None, thorough=False):
    mk = mk or (lambda kind, w, h: content(r, kind, w, h, nch, cb, maxv))
    ops, n = [], 0
    def op(pw, ph, steps):
        nonlocal n; n += 1
        ops.append("reuse %s %s %s %s %d %d %d %s" % (fmt, pix, apis[n % len(apis)], devs[(n // len(apis)) % len(devs)], pw, ph, len(steps),
                   " ".join("%d %d %s" % (w, h, mk(KINDS[(n + i) % len(KINDS)], w, h)) for i, (w, h) in enumerate(steps))))
    for (w, h) in REUSE_SIZES + ([(r.range(1, 16), r.range(1, 16)) for _ in range(8)] if thorough else []):
        for (pw, ph) in prior_sizes(w, h): op(pw, ph, [(w, h)])
    for seq in REUSE_SEQS:
        op(0, 0, seq); op(seq[-1][0], seq[0][1], seq); op(seq[0][0], seq[-1][1] + 1, list(reversed(seq)))
    for _ in range(12 if thorough else 4):      # random walks in which successive sizes often share exactly one dimension
        w, h, seq = r.range(1, 9), r.range(1, 9), []
        for _ in range(r.range(3, 7)):
            c = r.below(4)
            if c == 0: w = r.range(1, 9)
            elif c == 1: h = r.range(1, 9)
            elif c == 2: w, h = r.range(1, 9), r.range(1, 9)
            seq.append((w, h))
        op(r.range(0, 9), r.range(0, 9), seq)
    return ops

REUSE_PNG = ["gray8", "rgb8", "rgba8", "gray16", "rgb16", "gray1"]
REUSE_TIFF = [("tiff", "gray8"), ("tiff", "rgb8"), ("tiff", "gray16"), ("tiff", "rgb16"), ("tiff", "gray32f"), ("tiff", "cmyk8"), ("tiff", "gray4"),
              ("tiff-tile16", "rgb8"), ("tiff-tile16", "gray16"), ("tiff-lzw", "gray8"), ("tiff-tile16-lzw", "cmyk8")]
def gen_reuse(ctx):
    r, th = ctx.rng, ctx.thorough()
    nat, ext, jpg = [], [], []
    for fmt, pix, nch, sel in NATIVE:
        nat += reuse_ops(r, fmt, pix, nch, 1, 1 if pix == "gray1" else 255, DEVS, ["ri"] if pix == "gray1" else ["ri", "rc", "ri"], thorough=th)
    for pix in REUSE_PNG:
        nch, cb, maxv = PNG[pix][:3]
        ext += reuse_ops(r, "png", pix, nch, cb, maxv, DEVS, ["ri"] if pix == "gray1" else ["ri", "rc", "ri"], thorough=th)
    for var, pix in REUSE_TIFF:
        nch, cb, maxv = TIFF[pix][:3]
        ext += reuse_ops(r, var, pix, nch, cb, maxv, ["fn", "ss", "of"], ["ri"] if pix in ("gray4", "gray32f") else ["ri", "rc", "ri"], thorough=th)   # gray32f: read_and_convert_image converts the float samples as uint32 (C13's clause, see notes)
    for pix, (nch, _) in JPEG.items():     # constant images (a different constant each): within one level at quality 100
        jpg += reuse_ops(r, "jpeg", pix, nch, 1, 255, DEVS, ["ri", "rc", "ri"], mk=lambda kind, w, h, nch=nch: hexbytes(bytes([r.below(256) for _ in range(nch)]) * (w * h)), thorough=th)
    return nat, ext, jpg

def tree_variants(ctx):
    """which of the proposed fixes the tree under test already carries (selects the model variant, like a translated kernel)"""
    def src(rel):
        try: return open(os.path.join(ctx.include, "boost/gil/extension/io", rel)).read()
        except OSError: return ""
    w, r, t = src("pnm/detail/write.hpp"), src("pnm/detail/read.hpp"), src("tiff/detail/write.hpp")
    body = r[r.find("void read_bin_data"):]
    gray1 = "gray1" + ("" if "row( pitch / 8 )" in w and "swap_half_bytes" in body else "-") + \
            ("" if "row( pitch / 8 )" in w else "w") + ("" if "swap_half_bytes" in body else "r")
    tiled_cs = "my_interleaved_pixel_iterator_type_from_pixel_reference<typename View::reference>" not in t
    return gray1, tiled_cs

def route(op):
    w = op.split()
    if w[0] == "reuse":
        if w[1] in ("bmp", "pnm", "targa"): return "n%d" % next(s for f, p, n, s in NATIVE if (f, p) == (w[1], w[2][:5] if w[2].startswith("gray1") else w[2]))
        if w[1] == "jpeg": return "x8"
        return "x%d" % (PNG if w[1] == "png" else TIFF)[w[2]][4]
    if w[0] in ("rt", "dsts"): return "n%d" % next(s for f, p, n, s in NATIVE if (f, p) == (w[1], w[2][:5] if w[2].startswith("gray1") else w[2]))
    if w[0] == "jpg": return "x8"
    if w[1] == "png": return "x%d" % PNG[w[2]][4]
    return "x%d" % TIFF[w[2]][4]

def specs():
    return [dict(key="n%d" % s, src="harness/C12/main_native.cpp", sel=s) for f, p, n, s in NATIVE] + \
           [dict(key="x%d" % s, src="harness/C12/main_ext.cpp", sel=s, libs=IO_LIBS) for s in range(1, 9)]

def nontrivial(op):
    w = op.split()
    if w[0] == "reuse": return True
    k = 4 if w[0] == "jpg" else 3 if w[0] == "dsts" else 5
    return int(w[k]) * int(w[k + 1]) > 1

ASSUME = [
    "PNG / TIFF / JPEG: the payload coding is done by libpng / libtiff / libjpeg (trusted ExtCodec contract dec(enc rows) = rows); for these formats only the real "
    "round trip through GIL's row marshalling is checked on the generated inputs: partial (external codec), no theorem is claimed for them",
    "JPEG: 'bounded amount' is judged against per-content bounds measured at quality 100 (see checks/C12.notes.md); correspondence only",
    "the file system / stdio / iostream layers behave as specified (Device model); header field ranges are explicit theorem hypotheses (BMP w*4+3 < 2^31 and h < 2^31, TARGA w,h < 2^16, PNM decimal fields below read_int's overflow guard)",
    "view organisations (planar, sub-view, stepped, flipped, other channel order, bit offset) reach the writers through copy_pixels / std::copy: that the bytes do not depend on the organisation is established by the "
    "correspondence run (identical bytes for every organisation), not by a theorem",
]

def run(ctx, ops=None):
    import C12_syms
    vlib.regen(ctx, C12_syms.NAMESPACE, C12_syms.SYMS)
    obligations, discharged = vlib.standard_proof_steps(ctx, extra_props=["GilVerif.Props.C12Reuse"])
    bins = compile_many(ctx, specs())
    samples, distinct, counts = [], 0, {}
    if ops is None:
        nat, ext, jpg = gen_native(ctx), gen_ext(ctx), gen_jpeg(ctx)
        rn, rx, rj = gen_reuse(ctx)
        nat, ext, jpg = nat + rn, ext + rx, jpg + rj
    else:
        isnat = lambda o: o.split()[1] in ("bmp", "pnm", "targa")
        nat = [o for o in ops if o.startswith("rt ") or o.startswith("dsts ") or (o.startswith("reuse ") and isnat(o))]
        ext = [o for o in ops if o.startswith("rtx ") or (o.startswith("reuse ") and not isnat(o) and o.split()[1] != "jpeg")]
        jpg = [o for o in ops if o.startswith("jpg ") or o.startswith("reuse jpeg ")]
    gray1, tiled_cs = tree_variants(ctx)
    if gray1 != "gray1" or tiled_cs: ctx.notes.append("tree under test carries proposed fixes: pnm gray1 variant %s, tiled tiff colour-space order %s" % (gray1, tiled_cs))
    if ops is None or True:
        nat = [o.replace(" pnm gray1 ", " pnm %s " % gray1, 1) if (o.startswith("rt pnm gray1 ") or o.startswith("dsts pnm gray1 ") or o.startswith("reuse pnm gray1 ")) else o for o in nat]
        if tiled_cs: ext = [(lambda w: " ".join([w[0], w[1] + "-cs"] + w[2:]))(o.split()) if o.startswith("rtx tiff-tile") and "-cs" not in o.split()[1] else o for o in ext]
    args = (ctx.scratch,)
    for label, group, has_model in (("native", nat, True), ("ext", ext, True), ("jpeg", jpg, False)):
        if not group: continue
        impl = run_routed(ctx, bins, route, group, args=args)
        if label == "ext":      # compressions this libtiff was built without are not part of the claim
            keep = [i for i, o in enumerate(impl) if o != "codec-not-configured"]
            if len(keep) != len(group): ctx.notes.append("%d tiff ops skipped: codec not configured in libtiff" % (len(group) - len(keep)))
            group, impl = [group[i] for i in keep], [impl[i] for i in keep]
        impl, model = correspond_with(ctx, "drv_C12", group, impl, label=label, model=has_model)
        counts[label] = len(group)
        distinct += len({o for o in group if nontrivial(o)})
        for i in (0, len(group) // 2, len(group) - 1):
            samples.append({"op": group[i][:160], "impl": impl[i][:200], "model": (model[i][:200] if has_model else "(no model prediction: judged only)")})
        ctx.log("%s: %d ops" % (label, len(group)))
    hi = 16 if ctx.thorough() else 9
    return vlib.finish(ctx, "proof", obligations, discharged,
        rule="op = one write_view + read_image round trip. native (bmp/pnm/targa x every supported pixel type): every w,h in 1..%d x every organisation "
             "(source: the pixel type, planar, the other channel orders incl. the file-native bgr8/bgra8; view kind: whole image, sub-view, (2,2)- and (2,1)-stepped, flipped up-down / left-right, transposed, rotated; gray1: image and bit-offset sub-view) and x every destination kind (file name, FILE*, stringstream, fstream)%s; "
             "written bytes compared byte-for-byte with the model encoder, read-back image with the model decoder, Spec (read back == source) judged on the real output. "
             "reuse = k (1..7) round trips through ONE destination image object (read_image / read_and_convert_image into the same pixel type) that starts default-constructed, equal-sized, with the same width / another height, "
             "the same height / another width, or both different (larger and smaller), every native format x pixel type, png (6 pixel types), tiff (7 pixel types, strip / tile16 / lzw), jpeg (3): model = runSeq with the modelled init_image, Spec judged after every read. "
             "png (11 pixel types) / tiff (11 pixel types x strip/tile16/tile32 x none/lzw/deflate/packbits) / jpeg (3): real round trip judged. "
             "non-trivial = image with more than one pixel (distinct op lines counted)" % (hi, "; plus three random organisation/destination/content choices for every w,h in 1..40" if ctx.thorough() else ""),
        samples=samples, distinct_nontrivial=distinct, assumptions=ASSUME, trusted_base=vlib.TRUSTED_BASE + [
            "libpng / libtiff / libjpeg (ExtCodec contract) for the PNG / TIFF / JPEG clauses"],
        extra={"ops_by_group": counts, "known_finding_inputs": ctx.cov.get("known_finding_inputs", {}),
               "open_statements": ["C12_pnm_mono_roundtrip (false on the current tree: witnesses C12_pnm_mono_read_witness, C12_pnm_mono_write_ub; partial: C12_pnm_mono_roundtrip_partial)",
                                   "C12_view_independent (correspondence only)", "PNG/TIFF/JPEG round trip (external codec: correspondence only)"],
               "exhaustive_domains": ["all w,h in 1..%d for every native format x pixel type x organisation" % hi]},
        exhaustive=False)

def replay(ctx, path):
    rp = json.load(open(path))
    ops = rp.get("op_lines") or []
    if not ops: return run(ctx)
    return run(ctx, ops=ops)
