"""helpers shared by the codec checks C12 / C13: parallel harness compilation, correspondence over several
harness binaries (each op is routed to the binary that instantiates its format / pixel type), judge-only runs.
The merge follows vlib.correspond exactly and is done in op order, so results do not depend on scheduling."""
import concurrent.futures, os
import vlib

IO_LIBS = ["-lpng", "-ltiffxx", "-ltiff", "-ljpeg", "-lz"]

class _Shim:
    def __init__(self): self.cov, self.broken, self.last_sanitizer_report = {}, [], None

def compile_many(ctx, specs):
    """specs: [dict(key=..., src=..., sel=int, libs=[...])] -> {key: binary}; compile errors are recorded as broken"""
    def one(s):
        return vlib.compile_harness(ctx, s["src"], name="%s_%s" % (ctx.prop, s["key"]), defines=["C12_SEL=%d" % s["sel"]] if "sel" in s else (),
                                    libs=s.get("libs", ()), opt=s.get("opt", "-O0"))
    with concurrent.futures.ThreadPoolExecutor(max_workers=ctx.jobs) as ex:
        res = list(ex.map(one, specs))
    out = {}
    for s, (binary, err) in zip(specs, res):
        if binary is None:
            ctx.broken.append(("harness", "compile:" + s["key"], err[-1500:])); ctx.log("harness %s does not compile:\n%s" % (s["key"], err[-1500:]))
        else: out[s["key"]] = binary
    return out

def run_routed(ctx, binaries, route, ops, args=()):
    """impl observations for ops, each op sent to binaries[route(op)], binaries run concurrently"""
    groups = {}
    for i, op in enumerate(ops): groups.setdefault(route(op), []).append(i)
    impl = [None] * len(ops)
    def one(key):
        idx = groups[key]; sh = _Shim()
        if key not in binaries: return key, sh, ["harness-missing"] * len(idx)
        return key, sh, vlib.run_harness(sh, binaries[key], [ops[i] for i in idx], args=args)
    with concurrent.futures.ThreadPoolExecutor(max_workers=ctx.jobs) as ex:
        for key, sh, obs in ex.map(one, sorted(groups)):
            ctx.cov["harness_restarts"] = ctx.cov.get("harness_restarts", 0) + sh.cov.get("harness_restarts", 0)
            ctx.broken.extend(sh.broken)
            if sh.last_sanitizer_report and not getattr(ctx, "last_sanitizer_report", None): ctx.last_sanitizer_report = sh.last_sanitizer_report
            for i, o in zip(groups[key], obs): impl[i] = o
    return impl

def correspond_with(ctx, exe, ops, impl, label="", model=True):
    """vlib.correspond with precomputed implementation observations; model=False: judge only (no model prediction exists)"""
    if not ops: return [], []
    mod = vlib.run_driver(ctx, exe, "model", ops) if model else list(impl)
    verdicts = vlib.run_driver(ctx, exe, "judge", [o + "\t" + r for o, r in zip(ops, impl)])
    known = vlib.load_known(); ndiff = 0
    for op, a, b, v in zip(ops, impl, mod, verdicts):
        if v != "ok":
            f = {"op": op, "impl": a[:2000], "model": b[:2000], "clause": v}
            k = vlib.match_known(ctx.prop, f, known)
            if k is not None and a == b and (model or k.get("judged_only")):
                if k["id"] not in [x["id"] for x in ctx.known_hits]:
                    ctx.known_hits.append({"id": k["id"], "what": k.get("what", ""), "example": f})
                ctx.cov.setdefault("known_finding_inputs", {}); ctx.cov["known_finding_inputs"][k["id"]] = ctx.cov["known_finding_inputs"].get(k["id"], 0) + 1
            else:
                ctx.failures.append(f)
        if a != b:
            ndiff += 1
            if ndiff <= 5:
                ctx.log("correspondence differs%s: op=%s\n    impl =%s\n    model=%s" % (" [" + label + "]" if label else "", op[:200], a[:300], b[:300]))
            if len([x for x in ctx.broken if x[0] == "correspondence"]) < 20:
                ctx.broken.append(("correspondence", op[:300], "impl=%s | model=%s" % (a[:300], b[:300])))
    ctx.cov["evaluations"] = ctx.cov.get("evaluations", 0) + len(ops)
    ctx.cov["correspondence_diffs"] = ctx.cov.get("correspondence_diffs", 0) + ndiff
    return impl, mod

def hexbytes(bs): return bytes(bs).hex() if len(bs) else "-"
