"""C11 generator: valid image files of every variant the three self-implemented decoders accept (including the
ones GIL cannot write: RLE4/RLE8 BMP, palettes, OS/2 and V4 headers, bit-field masks, top-down, ascii PNM, RLE
TARGA), then truncations, header field x boundary values, run-length / palette / offset corruptions and seeded
multi-byte mutations.  Everything derives from the SplitMix64 state handed in (VERIF_SEED)."""
import struct

BOUNDARY = [0, 1, 2 ** 15, 2 ** 31 - 1, 2 ** 31, 2 ** 32 - 1]      # plus max-1 / max of the field width, added per field

# ------------------------------------------------------------------ BMP
def bmp_file(w, h, bpp, comp=0, data=b"", pal=None, ncol=0, hdr=40, off=None, masks=None, imgsize=0):
    palb = b""
    if pal is not None:
        for (r, g, b) in pal: palb += bytes([b, g, r]) + (b"\0" if hdr == 40 else b"")
    mk = struct.pack("<III", *masks) if masks else b""
    if hdr == 12: ih = struct.pack("<IHHHH", 12, w & 0xFFFF, h & 0xFFFF, 1, bpp)
    else: ih = struct.pack("<IiiHHIIiiII", hdr, w, h, 1, bpp, comp, imgsize, 2835, 2835, ncol, 0)
    # GIL reads masks / palette directly after the 40 bytes of the info header it consumes, whatever the header
    # size says (3-byte palette entries unless the size is exactly 40): lay V4/V5 files out the way GIL reads them
    body = mk + palb
    if hdr > 40: body = body + b"\0" * max(0, hdr - 40 - len(body))
    o = 14 + len(ih) + len(body) if off is None else off
    return b"BM" + struct.pack("<IHHI", o + len(data), 0, 0, o) + ih + body + data

def pad4(b): return b + b"\0" * ((-len(b)) % 4)

def bmp_rows(rows, topdown):
    return b"".join(pad4(r) for r in (rows if topdown else rows[::-1]))

def rnd_bytes(r, n): return bytes(r.below(256) for _ in range(n))

def pack_bits(idx, bits):
    out, acc, k = bytearray(), 0, 0
    for v in idx:
        acc = (acc << bits) | v; k += bits
        if k == 8: out.append(acc); acc = k = 0
    if k: out.append(acc << (8 - k))
    return bytes(out)

def rle8_encode(r, rows):
    """rows bottom-up order as stored; mixes encoded runs, absolute runs (>= 3), delta-free"""
    out = bytearray()
    for row in rows:
        x = 0
        while x < len(row):
            run = 1
            while x + run < len(row) and row[x + run] == row[x] and run < 255: run += 1
            if run >= 2 or len(row) - x < 3 or r.chance(1, 2):
                out += bytes([run, row[x]]); x += run
            else:
                n = min(len(row) - x, 3 + r.below(3))
                out += bytes([0, n]) + bytes(row[x:x + n])
                if n % 2: out.append(0)
                x += n
        out += b"\0\0"
    out[-2:] = b"\0\1"
    return bytes(out)

def rle4_encode(r, rows):
    out = bytearray()
    for row in rows:
        x = 0
        while x < len(row):
            if len(row) - x >= 3 and r.chance(1, 2):
                n = min(len(row) - x, 3 + r.below(4))
                pk = pack_bits(row[x:x + n], 4)
                out += bytes([0, n]) + pk
                if len(pk) % 2: out.append(0)
                x += n
            else:
                n = min(len(row) - x, 1 + r.below(6))
                a = row[x]; b = row[x + 1] if n > 1 else 0
                # an encoded run alternates two indices: only exact when the source alternates; force that
                for k in range(n): row[x + k] = a if k % 2 == 0 else b
                out += bytes([n, (a << 4) | b]); x += n
        out += b"\0\0"
    out[-2:] = b"\0\1"
    return bytes(out)

def bmp_seeds(r, thorough):
    """[(tag, bytes, native dst, (w, h))]"""
    S = []
    dims = [(1, 1), (2, 2), (3, 2), (4, 3), (5, 1), (7, 3)] + ([(6, 5), (9, 4), (13, 2)] if thorough else [])
    for (w, h) in dims:
        for td in (False, True):
            hh = -h if td else h
            rows = [rnd_bytes(r, w * 3) for _ in range(h)]
            # top-down variants carry biSizeImage (as most writers do), bottom-up ones leave it 0 (as GIL's writer does)
            d = bmp_rows(rows, td)
            S.append(("bmp24" + ("td" if td else ""), bmp_file(w, hh, 24, data=d, imgsize=len(d) if td else 0), "rgb8", (w, h)))
            rows = [rnd_bytes(r, w * 4) for _ in range(h)]
            d = bmp_rows(rows, td)
            S.append(("bmp32" + ("td" if td else ""), bmp_file(w, hh, 32, data=d, imgsize=len(d) if td else 0), "rgba8", (w, h)))
        rows = [rnd_bytes(r, w * 2) for _ in range(h)]
        S.append(("bmp16", bmp_file(w, h, 16, data=bmp_rows(rows, False)), "rgb8", (w, h)))
        S.append(("bmp15", bmp_file(w, h, 15, data=bmp_rows(rows, False)), "rgb8", (w, h)))
        S.append(("bmp16bf565", bmp_file(w, h, 16, comp=3, data=bmp_rows(rows, False), masks=(0xF800, 0x07E0, 0x001F)), "rgb8", (w, h)))
        S.append(("bmp16bf444", bmp_file(w, -h, 16, comp=3, data=bmp_rows(rows, True), masks=(0x0F00, 0x00F0, 0x000F)), "rgb8", (w, h)))
        for bits in (1, 4, 8):
            n = 1 << bits
            for (hdr, ncol) in ((40, 0), (40, max(2, n // 2)), (12, 0), (108, 0)):
                k = ncol or n
                pal = [(r.below(256), r.below(256), r.below(256)) for _ in range(k)]
                rows = [pack_bits([r.below(k) for _ in range(w)], bits) for _ in range(h)]
                dst = "rgba8" if hdr == 40 else "rgb8"
                S.append(("bmp%dp_h%d_c%d" % (bits, hdr, ncol), bmp_file(w, h, bits, data=bmp_rows(rows, False), pal=pal, ncol=ncol, hdr=hdr), dst, (w, h)))
        for td in (False, True):
            k = 5
            pal = [(r.below(256), r.below(256), r.below(256)) for _ in range(k)]
            rows = [[r.below(k) if r.chance(1, 2) else 1 for _ in range(w)] for _ in range(h)]
            S.append(("bmprle8" + ("td" if td else ""), bmp_file(w, -h if td else h, 8, comp=1, data=rle8_encode(r, [list(x) for x in rows]), pal=pal, ncol=k), "rgb8", (w, h)))
            rows = [[r.below(k) for _ in range(w)] for _ in range(h)]
            S.append(("bmprle4" + ("td" if td else ""), bmp_file(w, -h if td else h, 4, comp=2, data=rle4_encode(r, [list(x) for x in rows]), pal=pal, ncol=k), "rgb8", (w, h)))
    # RLE with delta escapes and early end-of-bitmap (legal; leaves pixels untouched)
    pal = [(1, 2, 3), (40, 50, 60), (70, 80, 90), (200, 210, 220)]
    S.append(("bmprle8delta", bmp_file(4, 3, 8, comp=1, data=bytes([2, 1, 0, 2, 1, 1, 1, 2, 0, 0, 3, 3, 0, 0, 0, 1]), pal=pal, ncol=4), "rgb8", (4, 3)))
    S.append(("bmprle8eob", bmp_file(4, 3, 8, comp=1, data=bytes([4, 1, 0, 1]), pal=pal, ncol=4), "rgb8", (4, 3)))
    S.append(("bmprle4delta", bmp_file(5, 2, 4, comp=2, data=bytes([3, 0x12, 0, 2, 1, 0, 1, 0x30, 0, 0, 0, 3, 0x12, 0x30, 0, 1]), pal=pal, ncol=4), "rgb8", (5, 2)))
    return S

BMP_FIELDS = [("magic", 0, 2), ("fsize", 2, 4), ("res1", 6, 2), ("offset", 10, 4), ("hdrsize", 14, 4), ("width", 18, 4), ("height", 22, 4),
              ("planes", 26, 2), ("bpp", 28, 2), ("comp", 30, 4), ("imgsize", 34, 4), ("xres", 38, 4), ("ncolors", 46, 4), ("nimportant", 50, 4)]
BMP_EXTRA = {"hdrsize": [12, 39, 40, 41, 56, 108, 124], "bpp": [1, 2, 4, 8, 15, 16, 24, 32, 33, 64], "comp": [0, 1, 2, 3, 4],
             "ncolors": [2, 3, 16, 17, 255, 256, 257, 2 ** 14, 2 ** 14 + 1], "offset": [13, 14, 53, 54, 55, 58, 70, 1000, 2 ** 20],
             "width": [3, 4, 5, 8, 9, 2 ** 14, 2 ** 14 + 1, 21845, 21846, 2 ** 16, 2 ** 29, 715827883, 2 ** 32 - 2, 2 ** 32 - 3],
             "height": [2, 3, 2 ** 32 - 2, 2 ** 32 - 3, 2 ** 31 + 1, 2 ** 16, 2 ** 20], "magic": [0x4D42, 0x424D, 0x4142]}

def bmp_pair_mutations(b):
    """two header fields at once: (bits per pixel, image size), (bits per pixel, compression), (header size, height sign)"""
    out = []
    if len(b) < 54: return out
    for bpp in (0, 2, 3, 7, 9, 64, 65535):
        for isz in (0, 1, len(b) - 54, 2 ** 31, 2 ** 32 - 1):
            x = set_field(set_field(b, 28, 2, bpp), 34, 4, isz)
            out.append(("pair:bpp=%d,imgsize=%d" % (bpp, isz), x))
        for comp in (1, 2, 3):
            out.append(("pair:bpp=%d,comp=%d" % (bpp, comp), set_field(set_field(b, 28, 2, bpp), 30, 4, comp)))
    for isz in (1, 7, len(b) - 55, len(b) - 53, 2 ** 31):
        out.append(("pair:imgsize=%d" % isz, set_field(b, 34, 4, isz)))
    return out

# ------------------------------------------------------------------ generic mutations
def set_field(b, off, width, v):
    v &= (1 << (8 * width)) - 1
    return b[:off] + v.to_bytes(width, "little") + b[off + width:]

def field_mutations(b, fields, extra):
    out = []
    for (name, off, width) in fields:
        if off + width > len(b): continue
        mx = (1 << (8 * width)) - 1
        vals = {v & mx for v in BOUNDARY} | {mx - 1, mx} | set(extra.get(name, []))
        for v in sorted(vals): out.append(("field:%s=%d" % (name, v), set_field(b, off, width, v)))
    return out

def truncations(b, r, every):
    n = len(b)
    if every or n <= 64: cuts = range(n)
    else: cuts = sorted(set(list(range(0, 64)) + [n - k for k in range(1, 24)] + [r.below(n) for _ in range(16)]))
    return [("trunc:%d" % k, b[:k]) for k in cuts]

def random_mutations(b, r, count):
    out = []
    for _ in range(count):
        x = bytearray(b)
        if not x: break
        k = 1 + r.below(4)
        kind = r.below(4)
        for _ in range(k):
            p = r.below(len(x))
            if kind == 0: x[p] = r.below(256)
            elif kind == 1: x[p] = r.choice([0, 1, 0x7F, 0x80, 0xFE, 0xFF])
            elif kind == 2: x[p] ^= 1 << r.below(8)
            else: x[p] = (x[p] + r.choice([1, 255])) & 0xFF
        out.append(("rand", bytes(x)))
    return out

def tail_corruptions(b, start, r, count):
    """run-length / palette-index / pixel-data corruptions: bytes of the data area set to extreme values"""
    out = []
    n = len(b)
    if start >= n: return out
    for v in (0xFF, 0x80, 0x00, 0x02, 0x01):
        for _ in range(count):
            p = start + r.below(n - start)
            out.append(("data:%d=%d" % (p, v), b[:p] + bytes([v]) + b[p + 1:]))
    out.append(("data:allFF", b[:start] + b"\xff" * (n - start)))
    out.append(("data:all00", b[:start] + b"\0" * (n - start)))
    out.append(("data:+junk", b + rnd_bytes(r, 7)))
    return out

# ------------------------------------------------------------------ PNM
def pnm_file(r, ptype, w, h, maxv=255, comments=False, samples=None, ws=None):
    ch = {1: 1, 2: 1, 3: 3, 4: 1, 5: 1, 6: 3}[ptype]
    sep = lambda: r.choice([" ", "\n", "\t", "\r\n", "  "]) if ws is None else ws
    head = "P%d" % ptype + ("\n# a comment\n" if comments else sep()) + str(w) + sep() + ("#c\n" if comments else "") + str(h)
    if ptype not in (1, 4): head += sep() + str(maxv)
    head += "\n"
    n = w * h * ch
    if ptype in (1, 2, 3):
        vals = samples if samples is not None else [r.below(2) if ptype == 1 else r.below(maxv + 1) for _ in range(n)]
        body = ""
        for k, v in enumerate(vals): body += str(v) + ("\n" if (k + 1) % (w * ch) == 0 else sep())
        return head.encode() + body.encode()
    if ptype == 4:
        rowb = (w + 7) // 8
        return head.encode() + (samples if samples is not None else rnd_bytes(r, rowb * h))
    return head.encode() + (samples if samples is not None else bytes(r.below(maxv + 1) for _ in range(n)))

def pnm_seeds(r, thorough):
    S = []
    dims = [(1, 1), (2, 2), (3, 2), (8, 2), (9, 3), (5, 1)] + ([(16, 2), (17, 5), (7, 7)] if thorough else [])
    native = {1: "gray8", 2: "gray8", 3: "rgb8", 4: "gray1", 5: "gray8", 6: "rgb8"}
    for (w, h) in dims:
        for t in range(1, 7):
            for comments in (False, True):
                S.append(("pnmP%d%s" % (t, "c" if comments else ""), pnm_file(r, t, w, h, comments=comments), native[t], (w, h)))
        S.append(("pnmP2max15", pnm_file(r, 2, w, h, maxv=15), "gray8", (w, h)))
        S.append(("pnmP5max1", pnm_file(r, 5, w, h, maxv=1), "gray8", (w, h)))
        S.append(("pnmP2big", pnm_file(r, 2, w, h, samples=[r.choice([256, 300, 65535, 99999, 2 ** 31, 10 ** 14 + 7]) for _ in range(w * h)]), "gray8", (w, h)))
    return S

def pnm_mutations(b, r, thorough):
    """header tokens x boundary values (text), long digit runs, garbage and early ends in text bodies"""
    out = []
    import re
    toks = [(m.start(), m.end()) for m in re.finditer(rb"\d+", b[:40])]      # type digit, width, height, [max]
    vals = [0, 1, 2, 254, 255, 256, 2 ** 14, 2 ** 14 + 1, 21845, 21846, 2 ** 15, 2 ** 16, 65537, 2 ** 31 - 2, 2 ** 31 - 1, 2 ** 31, 2 ** 32 - 1, 2 ** 32, 10 ** 15, 10 ** 16, 10 ** 40]
    for ti, (a, e) in enumerate(toks[:4]):
        for v in (vals if ti > 0 else [0, 1, 2, 3, 4, 5, 6, 7, 9]):
            out.append(("field:tok%d=%d" % (ti, v if v < 10 ** 9 else -1), b[:a] + str(v).encode() + b[e:]))
    out.append(("magic:Q", b"Q" + b[1:])); out.append(("magic:p", b"p" + b[1:]))
    out.append(("type:hi", b[:1] + b"\xb1" + b[2:])); out.append(("type:/", b[:1] + b"/" + b[2:]))
    out.append(("hdr:nows", b.replace(b"\n", b"", 1)))
    out.append(("hdr:comment-eof", b[:3] + b"# no end of line"))
    out.append(("hdr:neg", b[:2] + b" -3 " + b[3:]))
    if b[1:2] in (b"1", b"2", b"3"):
        body = toks[-1][1] if toks else 0
        for n in (14, 15, 16, 17, 40, 200):
            out.append(("text:digits%d" % n, b[:body + 1] + b"1" * n + b" " + b[body + 1:]))
            out.append(("text:zeros%d" % n, b[:body + 1] + b"0" * n + b"7 " + b[body + 1:]))
        out.append(("text:garbage", b[:body + 3] + b"x" + b[body + 3:]))
        out.append(("text:minus", b[:body + 1] + b"-" + b[body + 1:]))
        out.append(("text:nul", b[:body + 2] + b"\0" + b[body + 2:]))
        out.append(("text:ff", b[:body + 2] + b"\xff" + b[body + 2:]))
        out.append(("text:vt", b[:body + 1] + b"\x0b\x0c" + b[body + 1:]))
        out.append(("text:extra", b + b" 1 2 3 4 5 6 7 8 9"))
    return out

# ------------------------------------------------------------------ TARGA
def tga_file(w, h, bpp, rle=False, origin=False, data=b"", idlen=0, cmtype=0, cmlen=0, imgtype=None):
    desc = (8 if bpp == 32 else 0) | (32 if origin else 0)
    it = imgtype if imgtype is not None else (10 if rle else 2)
    return struct.pack("<BBBHHBHHHHBB", idlen, cmtype, it, 0, cmlen, 0, 0, 0, w, h, bpp, desc) + b"\x55" * idlen + data

def tga_rle_encode(r, px, bpp):
    """px: list of pixels (bytes objects) in file order; packets may cross rows (as in real files)"""
    out, i, n = bytearray(), 0, len(px)
    while i < n:
        run = 1
        while i + run < n and px[i + run] == px[i] and run < 128: run += 1
        if run >= 2 or r.chance(1, 3):
            out.append(0x80 | (run - 1)); out += px[i]; i += run
        else:
            k = min(n - i, 1 + r.below(5))
            out.append(k - 1)
            for j in range(k): out += px[i + j]
            i += k
    return bytes(out)

def tga_seeds(r, thorough):
    S = []
    dims = [(1, 1), (2, 2), (3, 2), (4, 3), (5, 1), (1, 4)] + ([(9, 4), (16, 3), (130, 2)] if thorough else [])
    for (w, h) in dims:
        for bpp in (24, 32):
            nb = bpp // 8
            for origin in (False, True):
                dst = "rgb8" if bpp == 24 else "rgba8"
                S.append(("tga%d%s" % (bpp, "o" if origin else ""), tga_file(w, h, bpp, origin=origin, data=rnd_bytes(r, w * h * nb)), dst, (w, h)))
                base = [rnd_bytes(r, nb) for _ in range(3)]
                px = [r.choice(base) if r.chance(2, 3) else rnd_bytes(r, nb) for _ in range(w * h)]
                S.append(("tgarle%d%s" % (bpp, "o" if origin else ""), tga_file(w, h, bpp, rle=True, origin=origin, data=tga_rle_encode(r, px, nb)), dst, (w, h)))
        S.append(("tga24id", tga_file(w, h, 24, data=rnd_bytes(r, w * h * 3), idlen=5), "rgb8", (w, h)))
    # long packets (up to 128 pixels, i.e. byte counts beyond 255) that cross row ends and reach the end of the image exactly
    for (w, h) in ((100, 2), (130, 1), (64, 3), (86, 2)):
        for bpp in (24, 32):
            nb = bpp // 8; dst = "rgb8" if bpp == 24 else "rgba8"; n = w * h
            one = rnd_bytes(r, nb)
            runs, left = bytearray(), n
            while left: k = min(128, left); runs.append(0x80 | (k - 1)); runs += one; left -= k
            S.append(("tgarle%d-longrun" % bpp, tga_file(w, h, bpp, rle=True, data=bytes(runs)), dst, (w, h)))
            raws, left = bytearray(), n
            while left: k = min(128, left); raws.append(k - 1); raws += rnd_bytes(r, k * nb); left -= k
            S.append(("tgarle%d-longraw" % bpp, tga_file(w, h, bpp, rle=True, origin=True, data=bytes(raws)), dst, (w, h)))
    # the fixed overrun witness and relatives
    S.append(("tgarle-overrun", tga_file(2, 2, 24, rle=True, data=bytes([0xFF, 1, 2, 3])), "rgb8", (2, 2)))
    S.append(("tgarle-exact", tga_file(2, 2, 24, rle=True, data=bytes([0x83, 1, 2, 3])), "rgb8", (2, 2)))
    S.append(("tgarle-rawover", tga_file(2, 2, 24, rle=True, data=bytes([0x04]) + bytes(range(15))), "rgb8", (2, 2)))
    return S

TGA_FIELDS = [("idlen", 0, 1), ("cmtype", 1, 1), ("imgtype", 2, 1), ("cmstart", 3, 2), ("cmlen", 5, 2), ("cmdepth", 7, 1), ("xorg", 8, 2),
              ("yorg", 10, 2), ("width", 12, 2), ("height", 14, 2), ("bpp", 16, 1), ("desc", 17, 1)]
TGA_EXTRA = {"imgtype": [0, 1, 2, 3, 9, 10, 11], "bpp": [8, 15, 16, 24, 32], "desc": [0, 8, 32, 40, 16, 15, 1], "idlen": [237, 238, 239],
             "width": [2, 3, 16384, 16385, 21845, 21846, 46341], "height": [2, 3, 46341, 65535]}
