"""C14 -- run-time typed images (any_image / any_image_view) behave like the concrete image they hold
(DESIGN.md section 5, C14).  Thin Lean dispatch model + differential correspondence against the concrete call."""
import json, os, subprocess, concurrent.futures
import vlib

L7 = ["g8", "rgb8", "bgr8", "rgb8p", "rgba8", "rgb16", "g1"]
L6 = L7[:6]
LB = ["g16", "argb8", "rgba8", "cmyk8", "rgb16", "rgb16p"]      # second representative list (op lines prefixed with "B")
NC = {"g8": 1, "rgb8": 3, "bgr8": 3, "rgb8p": 3, "rgba8": 4, "rgb16": 3, "g1": 1, "g16": 1, "argb8": 4, "cmyk8": 4, "rgb16p": 3}
CCP = ["g8", "rgb8", "bgr8", "rgba8", "rgb16"]          # destination pixel types of color_converted_view
FILLP = ["g8", "rgb8", "bgr8", "rgba8", "rgb16", "g1"]  # value types used with fill_pixels
GEOM = ["flipud", "fliplr", "transpose", "rot90cw", "rot90ccw", "rot180"]
MODES = ["aa", "ka", "ac", "ca"]
XF2_FIRST = ["flipud", "fliplr", "rot90cw", "rot90ccw", "rot180", "transpose", "sub", "subs"]   # first op of a composition (XF_GROUP 6..13)
XF2_QUICK = ["fliplr", "rot90cw", "sub", "subs"]   # quick tier: one per kind of mapped type list / geometry change

# features whose any_image_view overload is probed at build time (harness/C14/probe.cpp)
FEATURES = {"TRANSPOSED": ["transpose"], "NTH": ["nth"], "ANYCC": ["anycc", "anyccx"]}

def compat(a, b):
    cs = lambda t: "gray" if t in ("g8", "g1", "g16") else ("rgba" if t in ("rgba8", "argb8") else ("cmyk" if t == "cmyk8" else "rgb"))
    depth = lambda t: 16 if t in ("rgb16", "rgb16p", "g16") else (1 if t == "g1" else 8)
    return cs(a) == cs(b) and depth(a) == depth(b)

# ---------------------------------------------------------------- translation units
def tus(have):
    d = lambda *xs: list(xs)
    t = {
        "xf1": ("xf.cpp", d("XF_GROUP=1") + (["HAVE_TRANSPOSED"] if have["TRANSPOSED"] else [])),
        "xf2": ("xf.cpp", d("XF_GROUP=2") + (["HAVE_NTH"] if have["NTH"] else [])),
        "xf3": ("xf.cpp", d("XF_GROUP=3")),
        "xf4": ("xf.cpp", d("XF_GROUP=4")),
        "xf5": ("xf.cpp", d("XF_GROUP=5") + (["HAVE_ANYCC"] if have["ANYCC"] else [])),
    }
    # two transformations in a row: one translation unit per first transformation (each is compile-heavy)
    extra = (["HAVE_TRANSPOSED"] if have["TRANSPOSED"] else []) + (["HAVE_NTH"] if have["NTH"] else [])
    for k, o1 in enumerate(XF2_FIRST): t["xf2_" + o1] = ("xf.cpp", d("XF_GROUP=%d" % (6 + k)) + extra)
    t.update({
        "copy_a": ("copy.cpp", d("BIN_MODE_MASK=3")), "copy_b": ("copy.cpp", d("BIN_MODE_MASK=12")),
        "equal_a": ("equal.cpp", d("BIN_MODE_MASK=3")), "equal_b": ("equal.cpp", d("BIN_MODE_MASK=12")),
        "ccopy_a": ("ccopy.cpp", d("CC_GROUP=1", "BIN_MODE_MASK=3")), "ccopy_b": ("ccopy.cpp", d("CC_GROUP=1", "BIN_MODE_MASK=12")),
        "ccopyx_a": ("ccopy.cpp", d("CC_GROUP=2", "BIN_MODE_MASK=3")), "ccopyx_b": ("ccopy.cpp", d("CC_GROUP=2", "BIN_MODE_MASK=12")),
        "rs_a": ("rs.cpp", d("RS_GROUP=1", "BIN_MODE_MASK=3")), "rs_b": ("rs.cpp", d("RS_GROUP=1", "BIN_MODE_MASK=12")),
        "rsz": ("rs.cpp", d("RS_GROUP=2")),
        "un": ("un.cpp", d()), "img": ("img.cpp", d()),
        "xbin": ("xbin.cpp", d("BIN_MODE_MASK=9")),          # modes aa, ca
    })
    t["B_xbin"] = ("xbin.cpp", d("BIN_MODE_MASK=1", "C14_LIST_B"))
    # the same sources compiled for the second type list
    for name in ("xf1", "xf2", "xf4", "un", "img"):
        t["B_" + name] = (t[name][0], t[name][1] + ["C14_LIST_B"])
    t["B_copy"] = ("copy.cpp", d("C14_LIST_B")); t["B_equal"] = ("equal.cpp", d("C14_LIST_B"))
    t["B_ccopyx"] = ("ccopy.cpp", d("CC_GROUP=2", "C14_LIST_B"))
    return t

def route(op):
    w = op.split()
    if w[0] == "B":
        r = route(" ".join(w[1:]))
        if r in ("copy_a", "copy_b", "equal_a", "equal_b", "ccopyx_a", "ccopyx_b"): r = r[:-2]
        return "B_" + r if r in ("xf1", "xf2", "xf4", "copy", "equal", "ccopyx", "un", "img", "xbin") else None
    if w[0] == "xf":
        o = w[5]
        if o in ("id",) + tuple(GEOM): return "xf1"
        if o in ("sub", "sub5", "subs", "subs2", "nth"): return "xf2"
        return {"cc": "xf3", "ccx": "xf4", "anycc": "xf5", "anyccx": "xf5"}.get(o)
    if w[0] == "xf2":
        return "xf2_" + w[5] if w[5] in XF2_FIRST else None
    if w[0] in ("copy", "equal", "ccopy", "ccopyx", "rs"):
        return w[0] + ("_a" if w[1] in ("aa", "ka") else "_b")
    if w[0] == "rsz": return "rsz"
    if w[0] in ("xcopy", "xequal"): return "xbin"
    if w[0] in ("fill", "foreach", "xfill", "xforeach"): return "un"
    if w[0] == "img": return "img"
    return None

def probe_features(ctx):
    """which lifted overloads compile on the tree under test (observations, recorded in the evidence)"""
    def one(feat):
        cmd = [vlib.CXX, "-std=c++17", "-fsyntax-only", "-w", "-DPROBE_" + feat, "-I" + ctx.include,
               "-I" + os.path.join(vlib.VERIF, "harness", "common"), os.path.join(vlib.VERIF, "harness/C14/probe.cpp")]
        r = subprocess.run(cmd, capture_output=True, text=True)
        err = ""
        if r.returncode != 0:
            lines = [l for l in r.stderr.split("\n") if "error" in l]
            err = (lines[0] if lines else r.stderr[-300:])[:300]
        return feat, r.returncode == 0, err
    with concurrent.futures.ThreadPoolExecutor(max_workers=4) as ex:
        res = list(ex.map(one, sorted(FEATURES)))
    return {f: ok for f, ok, _ in res}, {f: e for f, ok, e in res if not ok}

def compile_all(ctx, have, needed):
    table = tus(have)
    def one(name):
        src, defs = table[name]
        return name, vlib.compile_harness(ctx, "harness/C14/" + src, name="C14_" + name, defines=defs, opt="-O0")
    with concurrent.futures.ThreadPoolExecutor(max_workers=max(1, min(ctx.jobs, len(needed)))) as ex:
        return dict(ex.map(one, needed))

# ---------------------------------------------------------------- generator
def gen_ops(ctx):
    r, th, ops = ctx.rng, ctx.thorough(), []
    hi = 9 if th else 5
    seed = lambda: r.range(1, 99999)
    def shapes(n, lo=1):
        out = [(r.range(lo, hi), r.range(lo, hi)) for _ in range(n)]
        return out
    reps = 4 if th else 1
    def diff_dims(w, h):
        while True:
            w2, h2 = r.range(1, hi), r.range(1, hi)
            if (w2, h2) != (w, h): return (w2, h2)
    # ---- witnesses of the three fixed findings (known_findings.json), always run first
    ops += ["xf rgb8 3 2 1 transpose", "xf rgb8 3 2 1 nth 1", "xf rgb8 2 1 1 anycc g8", "xf rgb8 2 1 1 anyccx g8"]
    # ---- transformations: every alternative x every transformation
    for T in L7:
        for (w, h) in [(0, 0), (0, 3), (4, 0)] + shapes(1 + reps): ops.append("xf %s %d %d %d id" % (T, w, h, seed()))
        for g in GEOM:
            for (w, h) in [(1, 1)] + shapes(1 + reps) + [(1, r.range(2, hi)), (r.range(2, hi), 1)]:
                ops.append("xf %s %d %d %d %s" % (T, w, h, seed(), g))
        for ov in ("sub", "sub5"):
            for (w, h) in shapes(2 * reps + 1):
                x0, y0 = r.range(0, w - 1), r.range(0, h - 1)
                ops.append("xf %s %d %d %d %s %d %d %d %d" % (T, w, h, seed(), ov, x0, y0, r.range(0, w - x0), r.range(0, h - y0)))
            ops.append("xf %s 3 3 %d %s 0 0 3 3" % (T, seed(), ov))
        for ov in ("subs", "subs2"):
            for (w, h) in shapes(2 * reps + 1):
                ops.append("xf %s %d %d %d %s %d %d" % (T, w, h, seed(), ov, r.range(1, 4), r.range(1, 4)))
        for P in CCP:
            if P == "rgba8" and T == "g1": continue      # the library converts to rgba from homogeneous pixels only
            for o in ("cc", "ccx", "anycc", "anyccx"):
                for (w, h) in shapes(reps if o.startswith("any") else reps + 1):
                    ops.append("xf %s %d %d %d %s %s" % (T, w, h, seed(), o, P))
    for T in L6:
        for n in range(NC[T]):
            for (w, h) in shapes(reps + 1): ops.append("xf %s %d %d %d nth %d" % (T, w, h, seed(), n))
    # ---- two lifted transformations in a row (the second one runs on the mapped type list of the first)
    def geom(w, h):
        """a random in-contract geometric op on a w x h view: (text, result dims)"""
        k = r.below(8)
        if k < 6:
            g = GEOM[k]; return g, ((h, w) if g in ("transpose", "rot90cw", "rot90ccw") else (w, h))
        if k == 6:
            x0, y0 = r.range(0, w - 1), r.range(0, h - 1); ww, hh = r.range(1, w - x0), r.range(1, h - y0)
            return "sub %d %d %d %d" % (x0, y0, ww, hh), (ww, hh)
        sx, sy = r.range(1, 3), r.range(1, 3)
        return "subs %d %d" % (sx, sy), ((w + sx - 1) // sx, (h + sy - 1) // sy)
    def first_ops(w, h):
        x0, y0 = r.range(0, w - 1), r.range(0, h - 1); ww, hh = r.range(1, w - x0), r.range(1, h - y0)
        sx, sy = r.range(1, 3), r.range(1, 3)
        return [(g, ((h, w) if g in ("transpose", "rot90cw", "rot90ccw") else (w, h))) for g in GEOM] + \
               [("sub %d %d %d %d" % (x0, y0, ww, hh), (ww, hh)), ("subs %d %d" % (sx, sy), ((w + sx - 1) // sx, (h + sy - 1) // sy))]
    for T in L7:
        for _ in range(reps):
            (w, h) = (r.range(2, hi), r.range(2, hi))
            for o1, (w1, h1) in first_ops(w, h):
                if not th and o1.split()[0] not in XF2_QUICK: continue      # every first op in the thorough tier
                for g in GEOM: ops.append("xf2 %s %d %d %d %s then %s" % (T, w, h, seed(), o1, g))
                for _ in range(2):
                    o2, _d = geom(w1, h1)
                    if o2.startswith("sub"): ops.append("xf2 %s %d %d %d %s then %s" % (T, w, h, seed(), o1, o2))
                if T != "g1": ops.append("xf2 %s %d %d %d %s then nth %d" % (T, w, h, seed(), o1, r.below(NC[T])))
                ops.append("xf2 %s %d %d %d %s then cc g8" % (T, w, h, seed(), o1))
                ops.append("xf2 %s %d %d %d %s then ccx rgb8" % (T, w, h, seed(), o1))
    # ---- binary algorithms: every ordered pair x every overload shape
    for T1 in L7:
        for T2 in L7:
            for mode in MODES:
                for (w, h) in shapes(reps):
                    ops.append("copy %s %s %s %d %d %d %d %d %d -1" % (mode, T1, T2, w, h, w, h, seed(), seed()))
                    s = seed()
                    kind = r.below(3)            # equal content / one differing pixel / unrelated content
                    dpos = r.range(0, w * h - 1) if kind == 1 else -1
                    ops.append("equal %s %s %s %d %d %d %d %d %d %d" % (mode, T1, T2, w, h, w, h, s, s if kind < 2 else seed(), dpos))
                    # operands of DIFFERENT dimensions: incompatible => bad_cast whatever the sizes; compatible => the
                    # concrete call asserts, and so must the run-time typed one (probed in forked children)
                    (w2, h2) = diff_dims(w, h)
                    ops.append("copy %s %s %s %d %d %d %d %d %d -1" % (mode, T1, T2, w, h, w2, h2, seed(), seed()))
                    ops.append("equal %s %s %s %d %d %d %d %d %d -1" % (mode, T1, T2, w, h, w2, h2, seed(), seed()))
            # resampling: source and destination of different sizes
            for mode in MODES:
                for _ in range(reps):
                    (w1, h1), (w2, h2) = shapes(2)
                    fam = r.below(7)
                    mat = [(4, 0, 0, 4, 0, 0), (4, 0, 0, 4, 4 * r.range(-2, 2), 4 * r.range(-2, 2)), (8, 0, 0, 8, 0, 0), (2, 0, 0, 2, 1, 1),
                           (-4, 0, 0, 4, 4 * (w1 - 1), 0), (0, 4, -4, 0, 4 * (w1 - 1), 0),
                           (r.range(-8, 8), r.range(-8, 8), r.range(-8, 8), r.range(-8, 8), r.range(-8, 16), r.range(-8, 16))][fam]
                    ops.append("rs %s %s %s %d %d %d %d %d %d -1 %d %d %d %d %d %d" % ((mode, T1, T2, w1, h1, w2, h2, seed(), seed()) + mat))
            for mode in (MODES if th else [MODES[r.below(4)]]):
                (w1, h1), (w2, h2) = shapes(2)
                ops.append("rsz %s %s %s %d %d %d %d %d %d -1" % (mode, T1, T2, w1, h1, w2, h2, seed(), seed()))
    for T1 in L6:
        for T2 in L6:
            for mode in MODES:
                for (w, h) in shapes(reps):
                    ops.append("ccopy %s %s %s %d %d %d %d %d %d -1" % (mode, T1, T2, w, h, w, h, seed(), seed()))
                    ops.append("ccopyx %s %s %s %d %d %d %d %d %d -1" % (mode, T1, T2, w, h, w, h, seed(), seed()))
            (w, h) = shapes(1)[0]; (w2, h2) = diff_dims(w, h)
            ops.append("%s %s %s %s %d %d %d %d %d %d -1" % (("ccopy", "ccopyx")[r.below(2)], MODES[r.below(4)], T1, T2, w, h, w2, h2, seed(), seed()))
    # empty views through the binary overloads
    for T in L7:
        ops.append("copy aa %s %s 0 0 0 0 1 2 -1" % (T, T)); ops.append("equal aa %s %s 0 2 0 2 1 2 -1" % (T, T))
    # ---- unary algorithms
    for T in L7:
        for P in FILLP:
            for (w, h) in shapes(reps):
                ops.append("fill %s %s %d %d %d %d %d %d %d" % (T, P, w, h, seed(), r.below(65536), r.below(65536), r.below(65536), r.below(65536)))
        for (w, h) in [(0, 0)] + shapes(reps + 1): ops.append("foreach %s %d %d %d" % (T, w, h, seed()))
    # ---- algorithms THROUGH a lifted transformation (the algorithm's visit runs on the mapped type list)
    def kinds(w, h):
        return [("fliplr", 0, 0), ("subs", r.range(1, 3), r.range(1, 3)), ("sub", r.range(0, w - 1), r.range(0, h - 1))]
    for (Ts, Ps, pre) in ((L7, ["g8", "bgr8", "rgb16"], ""), (LB, ["g16", "argb8", "rgb16"], "B ")):
        for T in Ts:
            for P in Ps:
                (w, h) = (r.range(2, hi), r.range(2, hi))
                for (k, a, b) in kinds(w, h):
                    ops.append("%sxfill %s %s %d %d %d %s %d %d %d %d %d %d" % (pre, T, P, w, h, seed(), k, a, b, r.below(65536), r.below(65536), r.below(65536), r.below(65536)))
            (w, h) = (r.range(2, hi), r.range(2, hi))
            for (k, a, b) in kinds(w, h): ops.append("%sxforeach %s %d %d %d %s %d %d" % (pre, T, w, h, seed(), k, a, b))
    # ---- binary algorithms on RESULTS of lifted transformations: every ordered pair (both visits on mapped lists of step views)
    for (Ts, modes, pre) in ((L7, ("aa", "ca"), ""), (LB, ("aa",), "B ")):
        for T1 in Ts:
            for T2 in Ts:
                mode = modes[r.below(len(modes))]
                (w, h) = (r.range(2, hi), r.range(1, hi))
                ops.append("%sxcopy %s %s %s %d %d %d %d %d %d -1" % (pre, mode, T1, T2, w, h, w, h, seed(), seed()))
                mode = modes[r.below(len(modes))]
                (w, h) = (r.range(2, hi), r.range(1, hi)); s1 = seed(); kind = r.below(3)
                ops.append("%sxequal %s %s %s %d %d %d %d %d %d %d" % (pre, mode, T1, T2, w, h, w, h, s1, s1 if kind < 2 else seed(), r.range(0, w * h - 1) if kind == 1 else -1))
    # ---- recreate with row ALIGNMENT: the same sequence of recreate calls on the any_image and on the concrete image; row size and
    #      row-start alignment observed after every call (same dims / new alignment, new dims / same alignment, both, neither)
    ALIGNS = [0, 1, 2, 4, 8, 16, 32]
    def other_align(a):
        while True:
            b = ALIGNS[r.below(len(ALIGNS))]
            if b != a: return b
    for (Ts, pre) in ((L7, ""), (LB, "B ")):
        for T in Ts:
            for _ in range(3 * reps):
                w, h = (1, 3, 5, 7, 9)[r.below(5 if th else 4)], r.range(1, hi)      # odd widths: row bytes rarely a multiple of the alignment
                a0 = ALIGNS[r.below(len(ALIGNS))]; a1 = (2, 4, 8, 16, 32)[r.below(5)]
                if a1 == a0: a1 = 8 if a0 != 8 else 16
                ops.append("%simg realign %s %d %d %d %s %d %d %d" % (pre, T, w, h, a0, ("xy", "pt")[r.below(2)], w, h, a1))
            for _ in range(reps):
                w, h = r.range(1, hi), r.range(1, hi); a0 = ALIGNS[r.below(len(ALIGNS))]
                a1 = other_align(a0); (w2, h2) = diff_dims(w, h); a2 = other_align(a1); (w3, h3) = diff_dims(w2, h2)
                steps = [(w, h, a1), (w2, h2, a1), (w3, h3, a2), (w3, h3, a2), (w, h, a2), (w, h, other_align(a2))]
                ops.append("%simg realign %s %d %d %d " % (pre, T, w, h, a0) + " ".join("%s %d %d %d" % (("xy", "pt")[r.below(2)], x, y, a) for (x, y, a) in steps))
    # ---- any_image / any_image_view as values
    ops.append("img default"); ops.append("B img default")
    for T in L7: ops.append("img atc %s" % T)
    for T in LB: ops.append("B img atc %s" % T)
    for T in L7:
        for (w, h) in [(0, 0), (0, 2), (3, 0)] + shapes(reps + 1): ops.append("img dims %s %d %d %d" % (T, w, h, seed()))
        for (w, h) in [(0, 0)] + shapes(reps + 1): ops.append("img copy %s %d %d %d" % (T, w, h, seed()))
        for T0 in L7:
            (w1, h1), (w2, h2) = shapes(2)
            ops.append("img assign %s %s %d %d %d %d %d %d %s" % (T, T0, w1, h1, w2, h2, seed(), seed(), "any" if r.chance(1, 2) else "conc"))
            if T in ("g8", "rgb8"):
                ops.append("img assign %s %s %d %d %d %d %d %d subset" % (T, T0, w1, h1, w2, h2, seed(), seed()))
            (w, h) = shapes(1)[0]
            s = seed(); kind = r.below(4)      # same content / one pixel differs / other seed / other dimensions
            if kind == 3: ops.append("img eq %s %s %d %d %d %d %d %d -1" % (T, T0, w, h, w + 1, h, s, s))
            else: ops.append("img eq %s %s %d %d %d %d %d %d %d" % (T, T0, w, h, w, h, s, s if kind < 2 else seed(), r.range(0, w * h - 1) if kind == 1 else -1))
            (w, h) = shapes(1)[0]
            ops.append("img vcopy %s %s %d %d %d" % (T, T0, w, h, seed()))
            # any_image_view assigned from / constructed from a CONCRETE view, or from a view of a sub-list; deprecated apply_operation
            (w, h) = shapes(1)[0]
            hows = ["conc", "ctor"] + (["subset"] if T in ("g8", "rgb8") else [])
            ops.append("img vassign %s %s %d %d %d %s" % (T, T0, w, h, seed(), hows[r.below(len(hows))]))
            (w, h) = shapes(1)[0]
            ops.append("img applyop %s %s %d %d %d" % (T, T0, w, h, seed()))
        for how in ("xy", "pt", "al"):
            (w, h), (w2, h2) = shapes(2)
            ops.append("img recreate %s %d %d %d %d %d %s" % (T, w, h, seed(), w2, h2, how))
        ops.append("img recreate %s 3 3 %d 0 0 xy" % (T, seed())); ops.append("img recreate %s 0 0 %d 2 5 xy" % (T, seed()))
    # ---- the second representative list: {gray16, argb8, rgba8, cmyk8, rgb16, rgb16 planar}
    for T in LB:
        ops.append("B xf %s 0 0 %d id" % (T, seed()))
        for (w, h) in shapes(reps): ops.append("B xf %s %d %d %d id" % (T, w, h, seed()))
        for g in GEOM:
            for (w, h) in shapes(reps + 1): ops.append("B xf %s %d %d %d %s" % (T, w, h, seed(), g))
        for ov in ("sub", "sub5"):
            for (w, h) in shapes(reps + 1):
                x0, y0 = r.range(0, w - 1), r.range(0, h - 1)
                ops.append("B xf %s %d %d %d %s %d %d %d %d" % (T, w, h, seed(), ov, x0, y0, r.range(0, w - x0), r.range(0, h - y0)))
        for ov in ("subs", "subs2"):
            for (w, h) in shapes(reps + 1): ops.append("B xf %s %d %d %d %s %d %d" % (T, w, h, seed(), ov, r.range(1, 4), r.range(1, 4)))
        for n in range(NC[T]):
            for (w, h) in shapes(reps): ops.append("B xf %s %d %d %d nth %d" % (T, w, h, seed(), n))
        for P in ("g8", "rgb8", "rgba8", "rgb16"):
            for (w, h) in shapes(reps): ops.append("B xf %s %d %d %d ccx %s" % (T, w, h, seed(), P))
        for T2 in LB:
            for mode in MODES:
                for (w, h) in shapes(reps):
                    ops.append("B copy %s %s %s %d %d %d %d %d %d -1" % (mode, T, T2, w, h, w, h, seed(), seed()))
                    s = seed(); kind = r.below(3)
                    ops.append("B equal %s %s %s %d %d %d %d %d %d %d" % (mode, T, T2, w, h, w, h, s, s if kind < 2 else seed(), r.range(0, w * h - 1) if kind == 1 else -1))
                    ops.append("B ccopyx %s %s %s %d %d %d %d %d %d -1" % (mode, T, T2, w, h, w, h, seed(), seed()))
                    (w2, h2) = diff_dims(w, h)
                    ops.append("B %s %s %s %s %d %d %d %d %d %d -1" % (("copy", "equal", "ccopyx")[r.below(3)], mode, T, T2, w, h, w2, h2, seed(), seed()))
            (w1, h1), (w2, h2) = shapes(2)
            ops.append("B img assign %s %s %d %d %d %d %d %d %s" % (T, T2, w1, h1, w2, h2, seed(), seed(), "any" if r.chance(1, 2) else "conc"))
            (w, h) = shapes(1)[0]; s = seed(); kind = r.below(3)
            ops.append("B img eq %s %s %d %d %d %d %d %d %d" % (T, T2, w, h, w, h, s, s if kind < 2 else seed(), r.range(0, w * h - 1) if kind == 1 else -1))
            (w, h) = shapes(1)[0]
            ops.append("B img vcopy %s %s %d %d %d" % (T, T2, w, h, seed()))
            (w, h) = shapes(1)[0]
            ops.append("B img vassign %s %s %d %d %d %s" % (T, T2, w, h, seed(), ("conc", "ctor")[r.below(2)]))
            (w, h) = shapes(1)[0]
            ops.append("B img applyop %s %s %d %d %d" % (T, T2, w, h, seed()))
        for P in ("g16", "argb8", "rgba8", "cmyk8", "rgb16"):
            for (w, h) in shapes(reps):
                ops.append("B fill %s %s %d %d %d %d %d %d %d" % (T, P, w, h, seed(), r.below(65536), r.below(65536), r.below(65536), r.below(65536)))
        for (w, h) in shapes(reps + 1): ops.append("B foreach %s %d %d %d" % (T, w, h, seed()))
        for (w, h) in [(0, 0)] + shapes(reps): ops.append("B img dims %s %d %d %d" % (T, w, h, seed()))
        for (w, h) in shapes(reps + 1): ops.append("B img copy %s %d %d %d" % (T, w, h, seed()))
        (w, h), (w2, h2) = shapes(2)
        ops.append("B img recreate %s %d %d %d %d %d %s" % (T, w, h, seed(), w2, h2, ("xy", "pt", "al")[r.below(3)]))
    return ops

def nontrivial(op):
    """more than one pixel is involved, or the op exercises the bad_cast path"""
    w = op.split()
    if w[0] == "B": w = w[1:]
    if w[0] == "xf": return int(w[2]) * int(w[3]) >= 2 and w[5] != "id"
    if w[0] == "xf2": return True
    if w[0] in ("copy", "equal", "ccopy", "ccopyx", "rs", "rsz", "xcopy", "xequal"): return int(w[6]) * int(w[7]) >= 2 or not compat(w[2], w[3])
    if w[0] == "xfill": return True
    if w[0] == "xforeach": return True
    if w[0] == "fill": return int(w[3]) * int(w[4]) >= 2 or not compat(w[1], w[2])
    if w[0] == "foreach": return int(w[2]) * int(w[3]) >= 2
    if w[0] == "img" and w[1] in ("default", "atc"): return False
    if w[0] == "img" and w[1] == "applyop": return int(w[4]) * int(w[5]) >= 2
    if w[0] == "img": return w[1] != "dims" and not (w[1] == "copy" and int(w[3]) * int(w[4]) == 0)
    return False

ASSUME = [
    "THIN MODEL: the Lean theorems are about a small dispatch model (tags, views as affine cell maps, binary_operation_obj as a case split); "
    "which overload / alternative the C++ templates select is observed by the differential run, not proven",
    "the claim covers the enumerated type lists only: {gray8, rgb8, bgr8, rgb8 planar, rgba8, rgb16, 1-bit bit-aligned gray} (L7), "
    "{gray16, argb8, rgba8, cmyk8, rgb16, rgb16 planar} (LB; no default colour conversion is run on it: cmyk conversions are binary64 paths of C09), "
    "the list without the bit-aligned alternative where the concrete operation on it does not compile either (nth_channel_view) or the library "
    "documents homogeneous pixels only (conversion to rgba), and {gray8, rgb8} for cross-list assignment",
    "rgb16 -> gray conversions go through float32 in the code: the model reproduces the IEEE operation sequence with Lean Float32 (partial (float)); "
    "resize_view's matrix is reproduced with Lean Float (binary64); the Spec judge never depends on these values (it compares the run-time typed result with the concrete result of the real code)",
    "pixel contents after any_image::recreate are unspecified and not compared (held type, dimensions, row size and row alignment are)",
]

def run(ctx, ops=None):
    obligations, discharged = vlib.standard_proof_steps(ctx)
    have, why = probe_features(ctx)
    ctx.cov["lifted_overloads_compiling"] = have
    for f, e in why.items(): ctx.log("build-time observation: any_image_view overload %s does not compile: %s" % (f, e))
    ops = ops or gen_ops(ctx)
    groups = {}
    for o in ops: groups.setdefault(route(o), []).append(o)
    if None in groups:
        ctx.broken.append(("harness", "unroutable-op", groups[None][0])); del groups[None]
    bins = compile_all(ctx, have, sorted(groups))
    ctx.log("compiled %d translation units" % len(bins))
    samples, by_kind = [], {}
    for name in sorted(groups):
        binary, err = bins[name]
        if binary is None:
            ctx.broken.append(("harness", "compile:" + name, err[-1500:])); ctx.log("harness %s does not compile:\n%s" % (name, err[-1500:]))
            continue
        g = groups[name]
        impl, model = vlib.correspond(ctx, binary, "drv_C14", g, label=name)
        samples.append({"op": g[0][:160], "impl": impl[0][:300], "model": model[0][:300]})
        for o, a in zip(g, impl):
            w = o.split()
            if w[0] == "B": w = w[1:]; w[0] = "B." + w[0]
            k = w[0] + (":" + w[5] if w[0] in ("xf", "xf2") else (":" + w[1] if w[0] == "img" else ""))
            by_kind[k] = by_kind.get(k, 0) + 1
            if "err:bad_cast" in a: ctx.cov["bad_cast_observed"] = ctx.cov.get("bad_cast_observed", 0) + 1
            if "err:no-compile" in a: ctx.cov["no_compile_observed"] = ctx.cov.get("no_compile_observed", 0) + 1
    distinct = len({o for o in ops if nontrivial(o)})
    return vlib.finish(ctx, "proof", obligations, discharged,
        rule="op lines: every alternative of the type list x every lifted transformation (several shapes, write-through probe) and every pair of a geometric "
             "transformation followed by a second lifted transformation (run on the mapped type list), every ORDERED pair of "
             "alternatives x every overload shape (any/any, const any/any, any/concrete, concrete/any) of copy_pixels, equal_pixels, copy_and_convert_pixels "
             "(default and user converter), resample_pixels and resize_view, every alternative x every fill value type, for_each_pixel, operands of different dimensions (incompatible => bad_cast; "
             "compatible => the concrete assertion, matched in forked children), a STATEFUL user converter, and copy / assignment / "
             "equality / recreate (incl. sequences of recreate calls with row alignments 0..32: row size and row-start alignment after every call) / default construction of any_image and any_image_view, any_image_view assignment from a concrete view and from a sub-list view, "
             "the deprecated apply_operation, at_c (dynamic_at_c.hpp), fill_pixels / for_each_pixel THROUGH a lifted flip / subsample / subimage and copy_pixels / equal_pixels "
             "on two lifted-transformed views for every ordered pair (visits on mapped type lists); shapes and contents seeded by VERIF_SEED. non-trivial = more than one pixel involved or the "
             "bad_cast path is exercised (distinct op lines counted); the judge compares the run-time typed result with the concrete call of the real code",
        samples=samples, distinct_nontrivial=distinct, assumptions=ASSUME, trusted_base=vlib.TRUSTED_BASE + [
            "C14: the Lean model is thin (dispatch only); the weight of this check is the differential correspondence against the concrete operation"],
        extra={"ops_by_kind": by_kind, "translation_units": len(bins), "lifted_overloads_compiling": have,
               "bad_cast_observed": ctx.cov.get("bad_cast_observed", 0), "no_compile_observed": ctx.cov.get("no_compile_observed", 0),
               "type_lists": {"L7": L7, "L6": L6, "LS": ["g8", "rgb8"], "LB": LB}},
        exhaustive=False)

def replay(ctx, path):
    rp = json.load(open(path))
    ops = rp.get("op_lines") or []
    if not ops: return run(ctx)
    return run(ctx, ops=ops)
