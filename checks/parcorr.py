"""parcorr -- run vlib's correspondence (harness vs model driver, then judge) on several job chunks concurrently.

Used by the checks whose quick tier enumerates millions of values (C06, C09, C18). The merge is done in job order
and follows vlib.correspond exactly (failures, known findings, broken correspondence, counts), so the outcome does
not depend on thread scheduling.
"""
import concurrent.futures
import vlib

class _Shim:
    """what vlib.run_harness touches on a ctx"""
    def __init__(self): self.cov, self.broken, self.last_sanitizer_report = {}, [], None

def _one(ctx, exe, job, judge, compare_model=True):
    binary, ops, args = job
    sh = _Shim()
    impl = vlib.run_harness(sh, binary, ops, args=args)
    # compare_model=False: ops of a part of the code that has no executable model (e.g. behind powf); they are only
    # judged by the Spec on the implementation's observation, the "model" column repeats the implementation
    model = vlib.run_driver(ctx, exe, "model", ops) if compare_model else list(impl)
    verdicts = vlib.run_driver(ctx, exe, "judge", [o + "\t" + r for o, r in zip(ops, impl)]) if judge else ["ok"] * len(ops)
    return sh, impl, model, verdicts

def chunks(binary, ops, size, args=()):
    return [(binary, ops[i:i + size], tuple(args)) for i in range(0, len(ops), size)]

def correspond_parallel(ctx, exe, jobs, label="", judge=True, workers=None, compare_model=True):
    """jobs: [(binary, [op lines], harness_args)]. Returns (ops, impl, model) concatenated in job order."""
    jobs = [j for j in jobs if j[1]]
    if not jobs: return [], [], []
    with concurrent.futures.ThreadPoolExecutor(max_workers=workers or ctx.jobs) as ex:
        results = list(ex.map(lambda j: _one(ctx, exe, j, judge, compare_model), jobs))
    known = vlib.load_known()
    all_ops, all_impl, all_model, ndiff = [], [], [], 0
    for (binary, ops, args), (sh, impl, model, verdicts) in zip(jobs, results):
        ctx.cov["harness_restarts"] = ctx.cov.get("harness_restarts", 0) + sh.cov.get("harness_restarts", 0)
        ctx.broken.extend(sh.broken)
        if sh.last_sanitizer_report and not getattr(ctx, "last_sanitizer_report", None): ctx.last_sanitizer_report = sh.last_sanitizer_report
        for op, a, b, v in zip(ops, impl, model, verdicts):
            if v != "ok":
                f = {"op": op, "impl": a[:2000], "model": b[:2000], "clause": v}
                k = vlib.match_known(ctx.prop, f, known)
                if k is not None and a == b:
                    if k["id"] not in [x["id"] for x in ctx.known_hits]:
                        ctx.known_hits.append({"id": k["id"], "what": k.get("what", ""), "example": f})
                else:
                    ctx.failures.append(f)
            if a != b:
                ndiff += 1
                if ndiff <= 5:
                    ctx.log("correspondence differs%s: op=%s\n    impl =%s\n    model=%s" % (" [" + label + "]" if label else "", op[:200], a[:300], b[:300]))
                if len([x for x in ctx.broken if x[0] == "correspondence"]) < 20:
                    ctx.broken.append(("correspondence", op[:300], "impl=%s | model=%s" % (a[:300], b[:300])))
        all_ops += ops; all_impl += impl; all_model += model
    ctx.cov["evaluations"] = ctx.cov.get("evaluations", 0) + len(all_ops)
    if not compare_model: ctx.cov["judged_only_ops"] = ctx.cov.get("judged_only_ops", 0) + len(all_ops)
    ctx.cov["correspondence_diffs"] = ctx.cov.get("correspondence_diffs", 0) + ndiff
    return all_ops, all_impl, all_model

def compile_parallel(ctx, specs):
    """specs: [dict(src_rel=..., name=..., defines=[...], libs=[...])] -> [(binary|None, err)] in order"""
    with concurrent.futures.ThreadPoolExecutor(max_workers=ctx.jobs) as ex:
        return list(ex.map(lambda s: vlib.compile_harness(ctx, s["src_rel"], name=s.get("name"), defines=s.get("defines", ()),
                                                          libs=s.get("libs", ()), flags=s.get("flags", ()), opt=s.get("opt", "-O1")), specs))
