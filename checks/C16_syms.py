"""translator whitelist for C16: the six per-channel threshold functors (lambdas of threshold_binary /
threshold_truncate) for every channel type pair used by the harness, and the two integer expressions of otsu_impl
(histogram index from min/max, final threshold rescaling)"""
from cxx2lean import Sym
H = "boost/gil/image_processing/threshold.hpp"
CT = {"u8": "uint8_t", "i8": "int8_t", "u16": "uint16_t", "i16": "int16_t"}
PAIRS = [("u8", "u8"), ("i8", "i8"), ("u16", "u16"), ("i16", "i16"), ("u16", "u8"), ("u8", "i16")]   # (source, result)

A2 = r"\[threshold_value, max_value\]\(source_channel_t px\) -> result_channel_t"
A1 = r"\[threshold_value\]\(source_channel_t px\) -> result_channel_t"

def functors(s, d):
    S, D = CT[s], CT[d]
    tag = "%s_%s" % (s, d)
    out = []
    for name, anchor, which, params in [
        ("bin_reg", A2, 0, [("px", S), ("threshold_value", D), ("max_value", D)]),
        ("bin_inv", A2, 1, [("px", S), ("threshold_value", D), ("max_value", D)]),
        ("trunc_thr_reg", A1, 0, [("px", S), ("threshold_value", D)]),
        ("trunc_thr_inv", A1, 1, [("px", S), ("threshold_value", D)]),
        ("trunc_zero_reg", A1, 2, [("px", S), ("threshold_value", D)]),
        ("trunc_zero_inv", A1, 3, [("px", S), ("threshold_value", D)]),
    ]:
        out.append(Sym(H, anchor, "%s_%s" % (name, tag), params, ret=D, which=which,
                       doc="threshold functor %s, source %s, result %s" % (name, S, D)))
    return out

def otsu(s):
    S = CT[s]
    return [
        Sym(H, r"histogram\[(max == min \?[^;]*)\]\+\+;", "otsu_index_%s" % s,
            [("px", S), ("min", S), ("max", S)], ret="int", expr=True, subst=[(r"src_it\[x\]", "px")],
            doc="otsu_impl: histogram index of a pixel from the scanned min/max, source channel %s" % S),
    ]

SYMS = []
for s, d in PAIRS: SYMS += functors(s, d)
for s in ("i8", "u16", "i16"): SYMS += otsu(s)
SYMS.append(Sym(H, r"threshold_binary\(src_view, dst_view, (\(threshold \*[^;,]*), direction\);", "otsu_rescale_u16",
                [("threshold", "std::size_t"), ("min", "uint16_t"), ("max", "uint16_t")], ret="std::size_t", expr=True,
                doc="otsu_impl: final threshold for unsigned 16-bit sources, before the conversion to the result channel type"))
# threshold_adaptive: the two comparison lambdas (pixel against the local threshold surface minus the constant)
AA = r"\[max_value, constant\]\(source_channel_t px, source_channel_t threshold\) -> result_channel_t"
for s_, d_ in (("u8", "u8"), ("u16", "u16")):
    for name, which in (("adapt_reg", 0), ("adapt_inv", 1)):
        SYMS.append(Sym(H, AA, "%s_%s_%s" % (name, s_, d_),
                        [("px", CT[s_]), ("threshold", CT[s_]), ("max_value", CT[d_]), ("constant", CT[d_])], ret=CT[d_], which=which,
                        doc="threshold_adaptive functor %s, source %s, result %s" % (name, CT[s_], CT[d_])))
NAMESPACE = "GilVerif.Gen.C16"
