"""C07 -- channel_multiply / channel_invert laws (DESIGN.md section 5, C07)"""
import json, struct
import vlib, C07_syms

INT_TYPES = {"u8": (0, 255), "i8": (-128, 127), "u16": (0, 65535), "i16": (-32768, 32767),
             "u32": (0, 2**32 - 1), "i32": (-2**31, 2**31 - 1)}
for n in list(range(1, 17)) + [24, 31]:
    INT_TYPES["p%d" % n] = (0, 2**n - 1)

SCOPED = {"s8": (16, 235), "s16": (1000, 60000), "si16": (-100, 1000), "su32": (7, 4000000000)}
# wide unsigned ranges: divisors d of max, used to build operand pairs whose product is an exact multiple of max
# (where truncating floating point evaluation of a*b/max goes wrong)
DIVISORS = {"u32": [3, 5, 17, 257, 65537, 65535, 255, 4369], "i32": [3, 5, 17, 257, 65537, 65535, 255, 4369],
            "p24": [3, 5, 7, 9, 13, 17, 241, 4095, 4097, 65535 // 15], "p16": [3, 5, 17, 257, 255], "p12": [3, 5, 7, 9, 13, 63, 65],
            "p10": [3, 11, 31, 33, 93], "p9": [7, 73], "p14": [3, 43, 127, 129], "p15": [7, 31, 151, 217], "p11": [23, 89], "p13": [1], "p31": [1]}

def f32bits(x): return struct.unpack("<I", struct.pack("<f", x))[0]

def gen_ops(ctx):
    r, ops = ctx.rng, []
    th = ctx.thorough()
    for t, (lo, hi) in INT_TYPES.items():
        size = hi - lo + 1
        if size <= 256:                       # complete: every pair (a,b), every x
            for a in range(lo, hi + 1): ops.append("mulrc %s %d %d %d 1" % (t, a, lo, size))
            ops.append("inv %s %d %d 1" % (t, lo, size))
        elif size <= 65536:
            ops.append("inv %s %d %d 1" % (t, lo, size))            # complete for invert
            edge = [lo, lo + 1, lo + size // 2 - 1, lo + size // 2, hi - 1, hi]
            rows = edge + [r.range(lo, hi) for _ in range(1024 if th else 40)]
            for a in rows[:len(edge) if size < 65536 else None]:
                ops.append("mulrc %s %d %d %d 1" % (t, a, lo, size))   # full row: every b
            if size < 65536:
                for a in rows[len(edge):]:
                    ops.append("mulrc %s %d %d %d 1" % (t, a, lo, size))
        else:
            edge = [lo, lo + 1, lo + 2, lo + size // 2 - 1, lo + size // 2, lo + size // 2 + 1, hi - 2, hi - 1, hi]
            xs = edge + [r.range(lo, hi) for _ in range(400 if th else 60)]
            for a in xs:
                # three strata of b: the low end, the high end, an arithmetic progression across the range
                ops.append("mulrc %s %d %d 64 1" % (t, a, lo))
                ops.append("mulrc %s %d %d 64 1" % (t, a, hi - 63))
                n = 256; step = max(1, (size - 1) // n); b0 = lo + r.below(step)
                while b0 + (n - 1) * step > hi: n -= 1
                ops.append("mulrc %s %d %d %d %d" % (t, a, b0, n, step))
            for d in DIVISORS.get(t, []):            # exact-multiple stratum: a multiple of d, b multiples of max/d
                M = size - 1
                if M % d: continue
                q = M // d
                for _ in range(6 if th else 2):
                    i = r.range(1, q - 1) if q > 2 else 1
                    n = min(200, d + 1)
                    j0 = r.range(0, d + 1 - n)
                    ops.append("mulrc %s %d %d %d %d" % (t, lo + d * i, lo + q * j0, n, q))
                    i2 = r.range(1, d - 1) if d > 2 else 1
                    n2 = min(200, q + 1); j2 = r.range(0, q + 1 - n2)
                    ops.append("mulrc %s %d %d %d %d" % (t, lo + q * i2, lo + d * j2, n2, d))
            ops.append("inv %s %d 4096 1" % (t, lo)); ops.append("inv %s %d 4096 1" % (t, hi - 4095))
            for _ in range(64 if th else 8):
                n = 1024; step = max(1, (size - 1) // n); x0 = lo + r.below(step)
                while x0 + (n - 1) * step > hi: n -= 1
                ops.append("inv %s %d %d %d" % (t, x0, n, step))
    if th:
        ops += ["mulall u16", "mulall i16"]      # all 2^32 pairs, Spec re-implemented in the harness (see main.cpp)
    for t, (lo, hi) in SCOPED.items():          # scoped channels: invert only
        size = hi - lo + 1
        if size <= 65536: ops.append("inv %s %d %d 1" % (t, lo, size))
        else:
            ops.append("inv %s %d 4096 1" % (t, lo)); ops.append("inv %s %d 4096 1" % (t, hi - 4095))
            for _ in range(8):
                n = 1024; step = max(1, (size - 1) // n); x0 = lo + r.below(step)
                while x0 + (n - 1) * step > hi: n -= 1
                ops.append("inv %s %d %d %d" % (t, x0, n, step))
    # float32 channels: boundary values and random values of [0,1]
    one = f32bits(1.0)
    fb = [0, 1, 2, 0x00800000, 0x007fffff, f32bits(0.5), f32bits(0.25), one - 1, one - 2, one, f32bits(1 / 3), f32bits(1 / 255), f32bits(254 / 255.0)]
    fr = [r.below(one + 1) for _ in range(2000 if th else 200)] + [f32bits(r.below(65536) / 65535.0) for _ in range(200)]
    for a in fb:
        for b in fb + fr[:50]: ops.append("mulf %d %d" % (a, b))
    for i in range(0, len(fr) - 1, 2): ops.append("mulf %d %d" % (fr[i], fr[i + 1]))
    for x in fb + fr: ops.append("invf %d" % x)
    return ops

def nontrivial(op):
    w = op.split()
    if w[0] == "mulrc":
        lo, hi = INT_TYPES[w[1]]; return lo < int(w[2]) < hi     # rows other than the identity / annihilator rows
    if w[0] in ("inv", "mulall"): return True
    if w[0] == "mulf": return int(w[1]) not in (0, 0x3f800000) and int(w[2]) not in (0, 0x3f800000)
    return True

ASSUME = [
    "float32 channels use IEEE binary32 arithmetic: partial (float) RELATIVE TO FloatSpec -- the laws are proved for every rounding function satisfying "
    "FloatSpec (Props/C07Float.lean, C07_float_*); trusted: the target's binary32 arithmetic is such a rounding with eps = 2^-24 and the code performs the modelled "
    "operations (executable Float32 model compared bit for bit; abstract model with the genuine binary32 instance evaluated by the Lean kernel on sampled ops)",
    "signed overflow does not occur in the translated kernels (checked by UBSan in the harness)",
]

def abstract_tie(ctx, ops, impl):
    """tie of the ABSTRACT float32 models of Props/C07Float (Lemmas/C07Float: mulF, invF) to the real code: instantiated with
    the genuine IEEE rounding FloatSpec.binary32 and evaluated by the Lean kernel, they must return what channel_multiply /
    channel_invert returned, on a seeded sample of the float ops of this run (both observations of each op)"""
    r, claims = ctx.rng, []
    cand = [(o, obs) for o, obs in zip(ops, impl) if o.split()[0] in ("mulf", "invf")]
    for _ in range(min(len(cand), 400 if ctx.thorough() else 120)):
        o, obs = cand[r.below(len(cand))]
        w = o.split()
        try: v = [int(x) for x in obs.split()]
        except ValueError: continue
        if len(v) != 2: continue
        if w[0] == "mulf":
            a, b = vlib.f32_to_rat(int(w[1])), vlib.f32_to_rat(int(w[2]))
            claims.append(("mulF FloatSpec.binary32 %s %s" % (a, b), vlib.f32_to_rat(v[0]), o))
            claims.append(("mulF FloatSpec.binary32 %s %s" % (b, a), vlib.f32_to_rat(v[1]), o + " (swapped)"))
        else:
            x = vlib.f32_to_rat(int(w[1]))
            claims.append(("invF FloatSpec.binary32 %s" % x, vlib.f32_to_rat(v[0]), o))
            claims.append(("invF FloatSpec.binary32 (invF FloatSpec.binary32 %s)" % x, vlib.f32_to_rat(v[1]), o + " (twice)"))
    claims = list({c[0]: c for c in claims}.values())
    vlib.kernel_tie(ctx, "C07Float", ["GilVerif.Props.C07Float"], ["GilVerif", "GilVerif.Lemmas.C07Float"], "ℚ", claims)

def run(ctx, ops=None):
    vlib.regen(ctx, C07_syms.NAMESPACE, C07_syms.SYMS)
    obligations, discharged = vlib.standard_proof_steps(ctx, extra_props=["GilVerif.Props.C07Float"])
    binary, err = vlib.compile_harness(ctx, "harness/C07/main.cpp")
    samples, distinct = [], 0
    if binary is None:
        ctx.broken.append(("harness", "compile", err[-1500:])); ctx.log("harness does not compile:\n" + err[-1500:])
    else:
        ops = ops or gen_ops(ctx)
        impl, model = vlib.correspond(ctx, binary, "drv_C07", ops)
        # a pair reported by the C++-side exhaustive sweep is re-judged by the Lean judge (the authority)
        extra = []
        for o, r in zip(ops, impl):
            if o.startswith("mulall") and "first=" in r and not r.endswith("first=none"):
                a, b = r.split("first=")[1].split(",")
                extra.append("mulrc %s %s %s 1 1" % (o.split()[1], a, b)); extra.append("mulrc %s %s %s 1 1" % (o.split()[1], b, a))
        if extra: vlib.correspond(ctx, binary, "drv_C07", extra, label="sweep-witness")
        if discharged == obligations: abstract_tie(ctx, ops, impl)
        distinct = len({o for o in ops if nontrivial(o)})
        pairs = sum(int(o.split()[4]) for o in ops if o.startswith("mulrc")) + 2**32 * len([o for o in ops if o.startswith("mulall")]) + sum(int(o.split()[3]) for o in ops if o.startswith("inv "))
        ctx.cov["values_judged"] = pairs
        for i in (0, len(ops) // 3, 2 * len(ops) // 3, len(ops) - 1):
            samples.append({"op": ops[i][:120], "impl": impl[i][:160], "model": model[i][:160]})
    return vlib.finish(ctx, "proof", obligations, discharged,
        rule="op lines: complete rows of every (a,b) for 8-bit and packed<=8 channels, full rows for edge/random a in 16-bit channels, "
             "stratified rows for wider channels, all x for invert on <=16-bit channels, boundary+random float32 bit patterns; "
             "non-trivial = row whose fixed operand is neither min nor max (distinct op lines counted)",
        samples=samples, distinct_nontrivial=distinct, assumptions=ASSUME, trusted_base=vlib.TRUSTED_BASE,
        extra={"values_judged": ctx.cov.get("values_judged", 0), "kernel_tie": ctx.cov.get("kernel_tie"), "exhaustive_domains": ["u8 x u8", "i8 x i8", "packed1..8 pairs", "invert on all <=16-bit channels"]},
        exhaustive=False)

def replay(ctx, path):
    rp = json.load(open(path))
    ops = rp.get("op_lines") or []
    if not ops: return run(ctx)
    return run(ctx, ops=ops)
