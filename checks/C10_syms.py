"""translator whitelist for C10: the allocation size formulas of image.hpp and utilities.hpp::align.

Template parameters become ordinary parameters of the generated defs:
  mstep  = memunit_step(typename view_t::x_iterator())     memory units per pixel step (bytes; bits for bit-aligned;
                                                           bytes of one channel for planar images)
  b2m    = byte_to_memunit<x_iterator>::value              1, or 8 for bit-aligned images
  chans  = _channels_in_image                              num_channels<view_t> (1 for non-pixel elements)
IsPlanar selects one of the two is_planar_impl overloads: total_bytes_planar / total_bytes_interleaved.
"""
from cxx2lean import Sym
IMG = "boost/gil/image.hpp"
UTL = "boost/gil/utilities.hpp"

ROW_PARAMS = [("width", "std::ptrdiff_t"), ("_align_in_bytes", "std::size_t"), ("mstep", "std::ptrdiff_t"), ("b2m", "int")]
ROW_SUBST = [(r"memunit_step\(typename view_t::x_iterator\(\)\)", "mstep"),
             (r"byte_to_memunit<\s*typename view_t::x_iterator\s*>::value", "b2m")]

def total(lean, planar):
    return Sym(IMG, r"std::size_t total_allocated_size_in_bytes\(point_t const& dimensions\) const", lean,
               [("dimensions.x", "std::ptrdiff_t"), ("dimensions.y", "std::ptrdiff_t"), ("_align_in_bytes", "std::size_t"),
                ("mstep", "std::ptrdiff_t"), ("b2m", "int"), ("_channels_in_image", "std::size_t")], ret="std::size_t",
               subst=[(r"using x_iterator = [^;]*;", ""),
                      (r"(?s)constexpr std::size_t _channels_in_image\s*=.*?::type::value;", ""),
                      (r"byte_to_memunit<\s*x_iterator\s*>::value", "b2m"),
                      (r"get_row_size_in_memunits\(dimensions\.x\)", "get_row_size_in_memunits(dimensions.x, _align_in_bytes, mstep, b2m)"),
                      (r",\s*std::integral_constant<bool, IsPlanar>\(\)\)", ")"),
                      (r"is_planar_impl\(", "is_planar_impl_%s(" % ("true" if planar else "false")),
                      (r"(is_planar_impl_false\([^;]*?),\s*_channels_in_image\s*\)", r"\1)")],
               calls={"get_row_size_in_memunits": "row_size", "is_planar_impl_true": "planar_units", "is_planar_impl_false": "interleaved_units"},
               doc="image::total_allocated_size_in_bytes for IsPlanar = %s" % ("true" if planar else "false"))

SYMS = [
    Sym(UTL, r"inline T align\(T val, std::size_t alignment\)", "align",
        [("val", "std::size_t"), ("alignment", "std::size_t")], ret="std::size_t",
        doc="utilities.hpp align<T> for T = std::size_t"),
    Sym(IMG, r"std::size_t get_row_size_in_memunits\(x_coord_t width\) const", "row_size", ROW_PARAMS, ret="std::size_t",
        subst=ROW_SUBST, calls={"align": "align"}, doc="image::get_row_size_in_memunits"),
    Sym(IMG, r"std::size_t is_planar_impl\(\s*std::size_t const size_in_units,\s*std::size_t const channels_in_image,\s*std::true_type\) const",
        "planar_units", [("size_in_units", "std::size_t"), ("channels_in_image", "std::size_t")], ret="std::size_t",
        doc="image::is_planar_impl(..., std::true_type)"),
    Sym(IMG, r"std::size_t is_planar_impl\(\s*std::size_t const size_in_units,\s*std::size_t const,\s*std::false_type\) const",
        "interleaved_units", [("size_in_units", "std::size_t")], ret="std::size_t",
        doc="image::is_planar_impl(..., std::false_type)"),
    total("total_bytes_planar", True),
    total("total_bytes_interleaved", False),
]
NAMESPACE = "GilVerif.Gen.C10"
