"""C18 -- toolbox colour spaces round-trip with RGB and stay in range (DESIGN.md section 5, C18)"""
import json, struct, re, os
import vlib, parcorr, C18_syms

MODELLED = ["hsv", "hsl", "ycbcr601", "ycbcr709", "cmyka"]          # bit-exact executable Lean model
JUDGED_ONLY = ["xyz", "lab"]                            # powf: Spec on the real output only
ONE = 0x3f800000

def f32bits(x): return struct.unpack("<I", struct.pack("<f", x))[0]

def gen_ops(ctx):
    r, th, ops = ctx.rng, ctx.thorough(), []
    # 1. all 2^24 rgb8 pixels through every space and back, one plane per op
    for sp in MODELLED + JUDGED_ONLY:
        for rr in range(256): ops.append("rt %s %d" % (sp, rr))
    # 2. single pixels (the Lean judge sees every intermediate channel): specials + random
    special = [(0, 0, 0), (255, 255, 255), (255, 0, 0), (0, 255, 0), (0, 0, 255), (255, 255, 0), (0, 255, 255), (255, 0, 255),
               (128, 128, 128), (1, 0, 0), (0, 0, 1), (254, 255, 255), (7, 1, 255), (0, 0, 42), (10, 200, 30), (17, 17, 18)]
    for sp in MODELLED + JUDGED_ONLY:
        px = special + [(r.below(256), r.below(256), r.below(256)) for _ in range(6000 if th else 1500)]
        px += [(v, v, v) for v in range(256)]
        for p in px: ops.append("px %s %d %d %d" % ((sp,) + p))
    # 3. hsv / hsl -> rgb on boundary grids: hue in {0, 1/6, ..., 1} (and neighbours), saturation / value in {0, 1} and random
    hues = []
    for k in range(7):
        b = f32bits(k / 6.0)
        hues += [min(ONE, max(0, b + d)) for d in (-1, 0, 1)]
    sv = [0, ONE, f32bits(0.5), f32bits(1e-5), f32bits(0.25)] + [r.below(ONE + 1) for _ in range(12 if th else 4)]
    for cmd in ("hsv2rgb", "hsl2rgb"):
        for h in sorted(set(hues)) + [r.below(ONE + 1) for _ in range(200 if th else 40)]:
            for s in sv:
                for v in sv: ops.append("%s %d %d %d" % (cmd, h, s, v))
    for sp in ("hsv", "hsl"):
        for s in sv + [r.below(ONE + 1) for _ in range(60)]:
            for v in sv + [r.below(ONE + 1) for _ in range(10)]: ops.append("hueper %s %d %d" % (sp, s, v))
    # 4. gray_alpha8 -> rgba8 / rgb8 / gray8 and gray8 -> rgba8: all (g, a) pairs
    for g in range(256):
        for a in (range(256) if th else list(range(0, 256, 5)) + [1, 127, 128, 254]): ops.append("ga %d %d" % (g, a))
    # 4b. the same conversions with DIFFERENT source / destination channel depths (8, 16, 32f): alpha must be the channel_convert
    #     of the source alpha into the destination type, gray likewise
    def mx(d): return {"8": 255, "16": 65535, "32f": ONE}[d]
    def vals(d):
        m = mx(d)
        base = [0, m, m // 2, 1, m - 1]
        if d == "16": base += [0x8000, 0xFF00, 0x00FF, 0x0100, 257, 32896]
        if d == "32f": base += [f32bits(0.5), f32bits(0.2), f32bits(1 / 255.0), f32bits(254 / 255.0)]
        return base
    for sd in ("8", "16", "32f"):
        for td in ("8", "16", "32f"):
            vs = vals(sd)
            for g in vs:
                for a in vs: ops.append("gax %s %s %d %d" % (sd, td, g, a))
            for _ in range(3000 if th else 400): ops.append("gax %s %s %d %d" % (sd, td, r.below(mx(sd) + 1), r.below(mx(sd) + 1)))
            if sd == "8":
                for a in range(256): ops.append("gax 8 %s %d %d" % (td, 200, a))
    # 5. toolbox luminance on double channels against the core weights
    for v in range(256): ops.append("lumd %d %d %d" % (v, v, v))
    for _ in range(20000 if th else 3000): ops.append("lumd %d %d %d" % (r.below(256), r.below(256), r.below(256)))
    return ops

def is_judged_only(op):
    w = op.split()
    return w[0] in ("px", "rt") and w[1] in JUDGED_ONLY

ASSUME = [
    "hsv / hsl (float32), ycbcr_601 forward (double), cmyka (double scale factor of the core rgb->cmyk): partial (float) -- the Lean model reproduces the IEEE operation "
    "sequence (bit-exact correspondence on all 2^24 pixels); theorems cover the integer kernels and the exact-rational hsv case split; "
    "RELATIVE TO FloatSpec (Props/C18Float.lean, C18_float_*): gray pixels round-trip exactly through hsv, value = converted maximum, the max_color/saturation threshold tests take the exact branch "
    "and the saturation is in (0,1] within 1/4000 of (max-min)/max; the genuine binary32 rounding (constructed in Lean) is kernel-evaluated: round trip = identity on the 6x6x6 grid + boundary pixels, "
    "and on sampled px hsv ops the abstract model equals the real code's hue/saturation/value bit patterns (kernel tie); the full 2^24 float budget (C18_hsv_roundtrip_u8) stays OPEN",
    "xyz and lab (powf) have no executable model: partial (transcendental) -- exhaustive real-code round trip judged by the Spec, which is evidence, not proof",
    "'small fixed tolerance' is read as: exact for hsv, hsl, xyz; one 8-bit level for lab and cmyka; three levels for ycbcr (its forward conversion truncates three channels)",
    "cmyka has no converter from rgb in the toolbox: the round trip is rgb8 -> cmyk8 (core) -> cmyka8 (alpha 255) -> rgba8 (toolbox)",
]

XYZ_CONSTANTS = ["0.4124564f", "0.3575761f", "0.1804375f", "0.2126729f", "0.7151522f", "0.0721750f", "0.0193339f", "0.1191920f", "0.9503041f",
                 "3.2404542f", "-1.5371385f", "-0.4985314f", "-0.9692660f", "1.8760108f", "0.0415560f", "0.0556434f", "-0.2040259f", "1.0572252f"]

def check_xyz_constants(ctx):
    """C18_xyz_matrices_inverse is about the 18 matrix literals of xyz.hpp copied by hand: re-read them on every run"""
    try: text = open(os.path.join(ctx.include, "boost/gil/extension/toolbox/color_spaces/xyz.hpp")).read()
    except OSError as ex:
        ctx.broken.append(("translator", "xyz_matrices", str(ex))); return
    found = re.findall(r"[*]\s*(-?\d+\.\d+f)", text)
    found = [c for c in found if c not in ("0.055f", "1.055f", "12.92f")]
    if found != XYZ_CONSTANTS:
        ctx.broken.append(("translator", "xyz_matrices", "matrix literals of xyz.hpp changed: %s" % found))
        ctx.log("xyz.hpp matrix literals differ from the ones C18_xyz_matrices_inverse is stated for: %s" % found)

def abstract_tie(ctx, ops, impl):
    """tie of the ABSTRACT float hsv converters of Props/C18Float (Lemmas/C18Float: rgbToHsvF, hsvRoundTripF) to the real code:
    instantiated with the genuine IEEE rounding FloatSpec.binary32 and evaluated by the Lean kernel, they must return the
    hue/saturation/value bit patterns and the round-trip pixel that the real code printed, on a seeded sample of `px hsv` ops"""
    r = ctx.rng
    cand = [(o, obs) for o, obs in zip(ops, impl) if o.startswith("px hsv ") and "|" in obs]
    hsv, rt = [], []
    for _ in range(min(len(cand), 200 if ctx.thorough() else 60)):
        o, obs = cand[r.below(len(cand))]
        w = o.split()
        try:
            a = [int(x) for x in obs.split("|")[0].split()]; b = [int(x) for x in obs.split("|")[1].split()]
        except ValueError: continue
        if len(a) != 3 or len(b) != 3: continue
        if any((x >> 23) & 0xFF == 0xFF for x in a): continue      # NaN / inf intermediate: a judged range failure, nothing to tie
        px = "%s %s %s" % (w[2], w[3], w[4])
        hsv.append(("rgbToHsvF FloatSpec.binary32 " + px, "(%s, %s, %s)" % tuple(vlib.f32_to_rat(x) for x in a), o))
        rt.append(("hsvRoundTripF FloatSpec.binary32 " + px, "(%d, %d, %d)" % tuple(b), o))
    hsv = list({c[0]: c for c in hsv}.values()); rt = list({c[0]: c for c in rt}.values())
    vlib.kernel_tie(ctx, "C18Float-hsv", ["GilVerif.Props.C18Float"], ["GilVerif", "GilVerif.Lemmas.C18Float"], "(ℚ × ℚ × ℚ)", hsv, batch=24)
    vlib.kernel_tie(ctx, "C18Float-roundtrip", ["GilVerif.Props.C18Float"], ["GilVerif", "GilVerif.Lemmas.C18Float"], "(ℤ × ℤ × ℤ)", rt, batch=24)

def run(ctx, ops=None):
    vlib.regen(ctx, C18_syms.NAMESPACE, C18_syms.SYMS)
    check_xyz_constants(ctx)
    obligations, discharged = vlib.standard_proof_steps(ctx, extra_props=["GilVerif.Props.C18Float", "GilVerif.Props.C18Range", "GilVerif.Props.C18Ycbcr"])
    binary, err = vlib.compile_harness(ctx, "harness/C18/main.cpp")
    samples, distinct, pixels = [], 0, 0
    if binary is None:
        ctx.broken.append(("harness", "compile", err[-1500:])); ctx.log("harness does not compile:\n" + err[-1500:])
    else:
        ops = ops or gen_ops(ctx)
        a = [o for o in ops if not is_judged_only(o)]; b = [o for o in ops if is_judged_only(o)]
        def jobs(xs):
            heavy = [o for o in xs if o.startswith("rt ")]; light = [o for o in xs if not o.startswith("rt ")]
            return parcorr.chunks(binary, heavy, 8) + parcorr.chunks(binary, light, 5000)
        o1, i1, m1 = parcorr.correspond_parallel(ctx, "drv_C18", jobs(a))
        o2, i2, m2 = parcorr.correspond_parallel(ctx, "drv_C18", jobs(b), label="judged only", compare_model=False)
        ops, impl, model = o1 + o2, i1 + i2, m1 + m2
        # a failing plane is expanded into single pixels so that the replay names one pixel
        planes = [f for f in ctx.failures if f["op"].startswith("rt ")]
        if planes:
            f = planes[0]; sp, rr = f["op"].split()[1], int(f["op"].split()[2])
            extra = ["px %s %d %d %d" % (sp, rr, g, bb) for g in range(256) for bb in range(256)]
            n0 = len(ctx.failures)
            parcorr.correspond_parallel(ctx, "drv_C18", parcorr.chunks(binary, extra, 8192), label="expanded plane", compare_model=(sp in MODELLED))
            if len(ctx.failures) > n0:      # put a concrete pixel first
                ctx.failures.insert(0, ctx.failures.pop(n0))
        if discharged == obligations and not ctx.failures: abstract_tie(ctx, ops, impl)      # the tie is only meaningful when the Spec holds
        distinct = len(set(ops))
        pixels = sum(65536 if o.startswith("rt ") else 1 for o in ops)
        ctx.cov["pixels_judged"] = pixels
        if ops:
            for i in (0, len(ops) // 3, 2 * len(ops) // 3, len(ops) - 1):
                samples.append({"op": ops[i][:120], "impl": impl[i][:160], "model": model[i][:160]})
    return vlib.finish(ctx, "proof", obligations, discharged,
        rule="op lines: rt <space> <r> (all 65536 rgb8 pixels of plane r through the space and back; all 256 planes of hsv hsl xyz lab ycbcr601 ycbcr709 cmyka), "
             "px (one pixel, intermediate channels visible to the judge), hsv2rgb/hsl2rgb on hue-sector boundary grids, hueper (hue 0 against hue 1), "
             "ga (gray_alpha8 / gray8 to rgba8), gax (gray_alpha / gray to rgba, rgb, gray between all nine pairs of channel depths 8/16/32f), lumd (double luminance against the core weights); every op line is non-trivial (distinct op lines counted)",
        samples=samples, distinct_nontrivial=distinct, assumptions=ASSUME, trusted_base=vlib.TRUSTED_BASE,
        extra={"pixels_judged": pixels, "judged_only_ops": ctx.cov.get("judged_only_ops", 0),
               "exhaustive_domains": ["all 2^24 rgb8 pixels per colour space (hsv, hsl, ycbcr601, ycbcr709, cmyka: model and judge recompute every pixel in Lean; xyz, lab: aggregates of the real code judged)"]},
        exhaustive=False)

def replay(ctx, path):
    rp = json.load(open(path))
    ops = rp.get("op_lines") or []
    if not ops: return run(ctx)
    return run(ctx, ops=ops)
